(* CommandsTrackReject: C04, the rejecting half for `track` — an entry text that is no entry of the grammar, or a second
   open range, makes the safeguard re-parse fail: the command reports "invalid result" and writes nothing.
   Built on the rejection half of C01 at block level (Proofs/SpecFaults.v: entry_line_at and the fault families). *)
From Klog Require Import Base.Prelude Base.Utf8 Model.Calendar Model.Values Model.Record Model.Lines Model.Parser
  Model.Tags Model.Serialiser Model.Reconcile Model.Commands Proofs.Lines Proofs.Parser Proofs.TagsUtf8 Proofs.Calendar
  Proofs.Values Spec.Spec Spec.SpecInject Proofs.SpecValues Proofs.SpecEntry Proofs.SpecRecord Proofs.SpecDoc Proofs.SpecReject
  Proofs.SpecFaults Proofs.Print
  Proofs.Style Proofs.Reconcile Proofs.Commands Proofs.Rounding Proofs.CommandsSpec Proofs.CommandsRefine Proofs.CommandsStop.
From Coq Require Import ZifyBool.
Open Scope Z_scope.

(* ---------------------------------------------------------------- a line list one of whose blocks fails *)

Theorem lines_rejected L lead gs : lines_ok L = true -> L = lead ++ flat_map group_lines gs ->
  forallb is_blank lead = true -> groups_ok gs = true ->
  Exists block_fails (expect_blocks 0 lead gs) ->
  exists es, parse_text (text_of_lines L) = Ok (Failed es) /\ es <> [].
Proof.
  intros Hok EL Hlead Gok E. unfold parse_text, blocks_of. rewrite (lines_of_text_of_lines L Hok), EL. unfold blocks_of_lines.
  rewrite (blocks_fuel_groups gs Gok _ 0 lead Hlead (le_n _)). unfold parse_lines_blocks.
  destruct (parse_blocks_total _ (expect_blocks_total gs Gok 0 lead Hlead) [] []) as (rs' & es' & P & _ & Fl).
  rewrite P. specialize (Fl E). destruct es' as [|e es']; [congruence|]. eexists; split; [reflexivity|discriminate].
Qed.

Lemma expect_blocks_nth_lines gs : forall k g p head, nth_error gs k = Some g ->
  exists b, nth_error (expect_blocks p head gs) k = Some b /\
            b_lines b = (match k with O => head | _ => [] end) ++ fst g ++ snd g.
Proof.
  induction gs as [|g0 gs IH]; intros k g p head Hk; [destruct k; discriminate|].
  destruct k as [|k].
  - injection Hk as <-. eexists. split; reflexivity.
  - cbn [nth_error] in Hk. cbn [expect_blocks nth_error].
    destruct (IH k g (p + length (head ++ fst g0 ++ snd g0))%nat [] Hk) as (b & Hb & Hl).
    exists b. split; [exact Hb|]. rewrite Hl. destruct k; reflexivity.
Qed.

Lemma groups_ok_set_nth gs k g g' : groups_ok gs = true -> nth_error gs k = Some g ->
  snd g' = snd g -> fst g' <> [] -> forallb (fun l => negb (is_blank l)) (fst g') = true ->
  groups_ok (set_nth k g' gs) = true.
Proof.
  intros H Hk Hs Hne Hnb. revert k Hk. induction gs as [|g0 gs IH]; intros k Hk; [destruct k; discriminate|].
  destruct (groups_ok_cons g0 gs H) as [H0 Hr].
  assert (G' : forall b, group_ok b g = true -> group_ok b g' = true).
  { intros b Hb. apply group_ok_inv in Hb as (_ & _ & C & D). unfold group_ok. rewrite Hs, C, Hnb.
    destruct (fst g'); [contradiction|]. cbn [List.length Nat.eqb negb andb].
    destruct D as [-> | D]; [reflexivity|]. destruct (snd g); [contradiction|]. cbn. apply orb_true_r. }
  destruct k as [|k].
  - injection Hk as ->. cbn [set_nth]. destruct gs as [|g1 gs']; [cbn [groups_ok]; apply G'; exact H0|].
    change (groups_ok (g' :: g1 :: gs')) with (group_ok false g' && groups_ok (g1 :: gs')). rewrite (G' _ H0), Hr. reflexivity.
  - cbn [nth_error] in Hk. cbn [set_nth]. specialize (IH Hr k Hk).
    destruct gs as [|g1 gs']; [destruct k; discriminate|].
    assert (Hne' : set_nth k g' (g1 :: gs') <> []) by (destruct k; discriminate).
    destruct (set_nth k g' (g1 :: gs')) as [|x xs] eqn:E; [contradiction|].
    change (groups_ok (g0 :: x :: xs)) with (group_ok false g0 && groups_ok (x :: xs)). rewrite H0, IH. reflexivity.
Qed.

(* ---------------------------------------------------------------- the lines `track` writes for an arbitrary text *)

(* an entry text as `track` receives it, as rune texts: the first line, the further lines *)
Definition raw_entry_ok (x : text) (mr : list text) : Prop :=
  text_ok x = true /\ (match x with c :: _ => is_space_or_tab c = false /\ (c <? 128)%N = true | [] => False end) /\
  forallb (fun t => text_ok t && negb (all_blank t)) mr = true /\
  no_cr_lines (utf8_encode x :: map utf8_encode mr).

Definition raw_itexts (x : text) (mr : list text) : list itext :=
  (utf8_encode x, 1%nat) :: map (fun s => (s, 2%nat)) (map utf8_encode mr).

Lemma inserted_raw_lines st j x mr :
  eol_ok (sp_val (st_eol st)) -> sp_val (st_indent st) = indent_text j -> raw_entry_ok x mr ->
  let ind := indent_text j in
  let new := map (mk_inserted st) (raw_itexts x mr) in
  map l_text new = map utf8_encode ((ind ++ x) :: map (fun t => ind ++ ind ++ t) mr) /\
  forallb (line_ok false) new = true /\ new <> [] /\
  forallb (fun t => negb (blank_text t)) ((ind ++ x) :: map (fun t => ind ++ ind ++ t) mr) = true.
Proof.
  intros He Hi (Tx & Hx & Wm & Hcr) ind new.
  unfold no_cr_lines in Hcr. cbn [forallb] in Hcr. apply andb_true_iff in Hcr as [Hcr0 Hcrm].
  destruct (inserted_more_lines st j mr He Hi Wm Hcrm) as (Mm & Okm). cbv zeta in Mm, Okm.
  assert (Hne : utf8_encode x <> []) by (apply utf8_encode_nonempty; destruct x; [contradiction|discriminate]).
  assert (Tind : text_ok ind = true) by (unfold ind; destruct j; reflexivity).
  assert (L0 : mk_inserted st (utf8_encode x, 1%nat) = {| l_text := utf8_encode (ind ++ x); l_ending := sp_val (st_eol st) |}).
  { rewrite mk_inserted_line; [rewrite Hi, repeat_bytes_1; unfold ind; rewrite encode_indent; reflexivity|exact He|].
    intros _. rewrite Hi, repeat_bytes_1, ends_in_cr_app by exact Hne. unfold no_cr in Hcr0. apply negb_true_iff in Hcr0. exact Hcr0. }
  unfold new, raw_itexts. cbn [map]. rewrite L0. split; [|split; [|split; [discriminate|]]].
  - cbn [map l_text]. f_equal. exact Mm.
  - cbn [forallb]. rewrite Okm, andb_true_r. apply inserted_line_ok; [exact He| |].
    + apply no_lf_encode. rewrite text_ok_app, Tind, Tx. reflexivity.
    + intros _. unfold ind. rewrite encode_indent, ends_in_cr_app by exact Hne. unfold no_cr in Hcr0. apply negb_true_iff in Hcr0. exact Hcr0.
  - cbn [forallb]. apply andb_true_iff. split.
    + destruct x as [|c x']; [contradiction|]. destruct Hx as [Hc _]. unfold blank_text. rewrite forallb_app. cbn [forallb].
      unfold is_space_or_tab in Hc. rewrite Hc. rewrite !andb_false_r. reflexivity.
    + rewrite forallb_forall. intros t Ht. apply in_map_iff in Ht as (m & <- & Hm).
      rewrite forallb_forall in Wm. specialize (Wm m Hm). apply andb_true_iff in Wm as [_ Nb].
      apply negb_true_iff. apply negb_true_iff in Nb.
      destruct (blank_text (ind ++ ind ++ m)) eqn:B; [|reflexivity]. unfold blank_text in B. rewrite !forallb_app in B.
      apply andb_true_iff in B as [_ B]. apply andb_true_iff in B as [_ B].
      assert (all_blank m = true); [|congruence]. unfold all_blank. revert B. apply forallb_impl. intros c. unfold blank_char, space_separator. lia.
Qed.

(* ---------------------------------------------------------------- the appended text makes the record's block fail *)

Definition with_indent (r : s_record) (j : indent) : s_record :=
  {| sr_date := sr_date r; sr_should := sr_should r; sr_trail := sr_trail r; sr_summary := sr_summary r;
     sr_indent := j; sr_entries := sr_entries r |}.

(* the first line [x] (after the indentation), followed by the lines [mr], is refused after the entries [acc] *)
Definition entry_rejected_after (acc : list entry) (x : text) (mr : list text) : Prop :=
  forall i, line_errs_at (indent_text i) acc (indent_text i ++ x) (map (fun t => indent_text i ++ indent_text i ++ t) mr).

Theorem insert_bad_entry_fails rc L lead gs recs k rg g j x mr :
  points_at rc L lead gs recs k rg g j -> raw_entry_ok x mr ->
  entry_rejected_after (map denote_entry (sr_entries (fst rg))) x mr ->
  exists ls' es,
    insert (rc_style rc) (rc_last rc) (raw_itexts x mr) (rc_lines rc) = Ok ls' /\
    parse_text (text_of_lines ls') = Ok (Failed es) /\ es <> [].
Proof.
  intros [C Hsafe Hg Hrg Hl Hlast Heol Hj Hown] Hraw Hrej.
  pose proof (conforms_groups_ok _ _ _ _ C) as Gok.
  destruct (groups_ok_nth gs Gok k g Hg) as (Gne & Gnb & Gbl & _).
  destruct (Forall2_nth _ _ _ _ _ (cf_groups _ _ _ _ C) Hg) as (rg' & Hrg' & [Gs Gg]).
  rewrite Hrg in Hrg'. injection Hrg' as <-.
  assert (Wr : wf_record (fst rg) = true).
  { pose proof (cf_wf _ _ _ _ C) as W. rewrite forallb_forall in W. exact (W rg (nth_error_In _ _ Hrg)). }
  destruct (inserted_raw_lines (rc_style rc) j x mr Heol Hj Hraw) as (Mnew & Oknew & Nenew & Nbnew). cbv zeta in Mnew, Oknew, Nenew, Nbnew.
  set (ind := indent_text j) in *.
  set (new := map (mk_inserted (rc_style rc)) (raw_itexts x mr)) in *.
  set (eol := sp_val (st_eol (rc_style rc))) in *.
  pose proof (cf_lines _ _ _ _ C) as EL. rewrite (split_at_group lead gs k g Hg) in EL.
  pose proof (cf_ok _ _ _ _ C) as Hokl. rewrite EL in Hokl. pose proof Hsafe as Hs'. rewrite EL in Hs'.
  destruct (lines_ok_insert eol _ new _ Hokl Hs' Heol Oknew Nenew) as [Hok' _].
  set (g' := (give_ending_to_last eol (fst g) ++ new, snd g)).
  set (L' := give_ending_to_last eol (before_group lead gs k ++ fst g) ++ new ++ (snd g ++ flat_map group_lines (skipn (S k) gs))) in *.
  exists L'.
  assert (EL' : L' = lead ++ flat_map group_lines (set_nth k g' gs)).
  { unfold L', g'. rewrite (flat_map_set_nth lead gs k g _ Hg). cbn [fst snd].
    rewrite (give_ending_app eol (before_group lead gs k) (fst g) Gne), <- !app_assoc. reflexivity. }
  assert (Nbg' : forallb (fun l => negb (is_blank l)) (fst g') = true).
  { unfold g'. cbn [fst]. rewrite forallb_app. apply andb_true_iff. split.
    - rewrite forallb_forall. intros l Hl'. destruct (list_snoc_cases (fst g)) as [E|(p & y & E)]; [contradiction|].
      rewrite E, give_ending_snoc in Hl'. rewrite E, forallb_app in Gnb. apply andb_true_iff in Gnb as [Gp Gy].
      apply in_app_or in Hl' as [Hl'|[<-|[]]]; [rewrite forallb_forall in Gp; exact (Gp l Hl')|].
      cbn [forallb] in Gy. apply andb_true_iff in Gy as [Gy _]. unfold is_blank in *. rewrite gain_text. exact Gy.
    - apply (nonblank_lines_of_texts _ _ Mnew Nbnew). }
  assert (Gok' : groups_ok (set_nth k g' gs) = true).
  { apply (groups_ok_set_nth gs k g g' Gok Hg eq_refl); [|exact Nbg']. unfold g'. cbn [fst]. destruct new; [contradiction|]. intros E. apply app_eq_nil in E as [_ E]. discriminate. }
  assert (Hkg : (k < length gs)%nat) by (apply nth_error_Some; congruence).
  assert (Hg' : nth_error (set_nth k g' gs) k = Some g') by (rewrite nth_error_set_nth by exact Hkg; rewrite Nat.eqb_refl; reflexivity).
  destruct (expect_blocks_nth_lines (set_nth k g' gs) k g' 0%nat lead Hg') as (b & Hb & Hbl).
  (* the block fails *)
  set (r := with_indent (fst rg) j).
  assert (Wr' : wf_record r = true) by exact Wr.
  assert (Hrt : record_texts r = record_texts (fst rg)).
  { unfold record_texts, r, with_indent, headline_text. cbn [sr_date sr_should sr_trail sr_summary sr_entries sr_indent].
    destruct (sr_entries (fst rg)) as [|e es] eqn:E; [reflexivity|]. rewrite (Hown ltac:(discriminate)). reflexivity. }
  destruct (wf_record_inv _ Wr) as (_ & _ & _ & _ & Wes & Hcount).
  assert (Hx : exists c x', x = c :: x' /\ is_space_or_tab c = false /\ (c <? 128)%N = true).
  { destruct Hraw as (_ & Hx & _). destruct x as [|c x']; [contradiction|]. exists c, x'. split; [reflexivity|exact Hx]. }
  destruct Hx as (c & x' & Ex & Hc & Hca).
  assert (Eenc : utf8_encode (ind ++ x) = ind ++ c :: utf8_encode x').
  { unfold ind. rewrite encode_indent, Ex, (encode_cons_ascii _ _ Hca). reflexivity. }
  assert (Fails : block_fails b).
  { apply (block_fails_at_fails b (length (match k with O => lead | _ => [] end) + S (length (sr_summary r) + length (flat_map (entry_texts ind) (sr_entries (fst rg)))))).
    apply (entry_line_at r (sr_entries (fst rg)) (ind ++ x) (map (fun t => ind ++ ind ++ t) mr) Wr' Wes Hcount) with (sig := fst g') (tail := snd g').
    - change (indent_text (sr_indent r)) with ind. rewrite Eenc, has_prefix_app_same. apply has_prefix_indent_head. exact Hc.
    - intros _. change (indent_text (sr_indent r)) with ind. rewrite Eenc. apply find_indentation_entry. exact Hc.
    - exact (Hrej j).
    - change (indent_text (sr_indent r)) with ind.
      pose proof (record_text_not_blank r) as NB. specialize (fun t => NB t Wr').
      assert (E1 : headline_text r :: sr_summary r ++ flat_map (entry_texts ind) (sr_entries (fst rg)) = record_texts r) by reflexivity.
      change (headline_text r :: sr_summary r ++ flat_map (entry_texts ind) (sr_entries (fst rg)) ++ (ind ++ x) :: map (fun t => ind ++ ind ++ t) mr)
        with ((headline_text r :: sr_summary r) ++ flat_map (entry_texts ind) (sr_entries (fst rg)) ++ (ind ++ x) :: map (fun t => ind ++ ind ++ t) mr).
      rewrite app_assoc. change ((headline_text r :: sr_summary r) ++ flat_map (entry_texts ind) (sr_entries (fst rg))) with (record_texts r).
      rewrite forallb_app, Nbnew, andb_true_r. rewrite forallb_forall. intros t Ht. rewrite (NB t Ht). reflexivity.
    - exact Hbl.
    - destruct k; [exact (cf_lead _ _ _ _ C)|reflexivity].
    - exact Gbl.
    - unfold g'. cbn [fst]. rewrite map_app, map_l_text_give_ending, Gs, Mnew, <- Hrt, <- map_app. f_equal.
      change (indent_text (sr_indent r)) with ind. unfold record_texts. cbn [app]. rewrite <- !app_assoc. reflexivity. }
  destruct (lines_rejected L' lead (set_nth k g' gs) Hok' EL' (cf_lead _ _ _ _ C) Gok') as (es & P & Hne).
  { apply Exists_exists. exists b. split; [exact (nth_error_In _ _ Hb)|exact Fails]. }
  exists es. split; [|split; [exact P|exact Hne]].
  rewrite Hlast, Hl, (cf_lines _ _ _ _ C), (split_at_group lead gs k g Hg), insert_at_split. reflexivity.
Qed.

(* ---------------------------------------------------------------- track *)

Definition raw_entry_arg (x : text) (mr : list text) : list bytes := utf8_encode x :: map utf8_encode mr.

Lemma to_multiline_raw x mr : to_multiline [] (raw_entry_arg x mr) = raw_itexts x mr.
Proof. reflexivity. Qed.

(* the entries the new line comes after: those of the first record dated d, none for a record that is created *)
Definition entries_before (d : cdate) (rs : list record) : list entry :=
  match find_record_idx d rs 0 with
  | Some i => match nth_error rs i with Some r => rec_entries r | None => [] end
  | None => []
  end.

Theorem track_rejects now cfg ds file recs d x mr :
  spec_state file recs -> at_date now ds = Ok d -> valid_cdate (dt d) = true -> should_fits (cfg_should cfg) ->
  raw_entry_ok x mr ->
  entry_rejected_after (entries_before (dt d) (denote_recs recs)) x mr ->
  exec now cfg (Track ds (raw_entry_arg x mr)) file = (file, CErr CEInvalidResult).
Proof.
  intros (lead & gs & C & Hsafe) Hd Hv Hsh Hraw Hrej. unfold spec_file in C.
  assert (G : exec_simple now cfg (Track ds (raw_entry_arg x mr)) file = CErr CEInvalidResult); [|unfold exec; rewrite G; reflexivity].
  unfold exec_simple. rewrite Hd. cbn [of_outcome cbind].
  rewrite reconcile_file_unfold, (spec_file_parse file lead gs recs C). cbn [cbind].
  set (rs := denote_recs recs) in *. set (bs := expect_blocks 0 lead gs).
  unfold entries_before in Hrej.
  destruct (find_record_idx (dt d) rs 0) as [i|] eqn:Hf.
  - destruct (find_record_idx_nth _ _ _ _ Hf) as (k & r & -> & Hn & _). cbn [Nat.add] in *. rewrite Hn in Hrej.
    pose proof Hn as Hn'. unfold rs, denote_recs in Hn'. rewrite nth_error_map in Hn'. destruct (nth_error recs k) as [rg|] eqn:Hrg; [|discriminate].
    injection Hn' as <-.
    destruct (Forall2_nth_r _ _ _ _ _ (cf_groups _ _ _ _ C) Hrg) as (g & Hg & _).
    destruct (at_record_conforming _ lead gs recs (dt d) k rg g C Hf Hrg Hg) as (rc & Hrc & F).
    destruct (at_record_points_at _ _ _ _ _ _ _ _ C Hsafe Hrg Hg F) as (j & P).
    destruct (insert_bad_entry_fails rc _ lead gs recs k rg g j x mr P Hraw Hrej) as (ls' & es & HI & Pf & _).
    unfold first_creator, at_record. fold rs bs in Hrc. rewrite Hrc. cbn [flat_map app cbind run_steps fold_left].
    unfold append_entry. rewrite to_multiline_raw, HI. cbn [lift_lines lift_r cbind]. unfold make_result. cbn [with_lines rc_lines].
    rewrite Pf. reflexivity.
  - destruct (elect_indent_ok default_style rs bs ltac:(exists I4; reflexivity)) as (j & Hj).
    destruct (new_record_conforming _ lead gs recs d (date_format cfg ds) (cfg_should cfg) [] j C Hsafe Hv Hsh eq_refl eq_refl)
      as (rc & lead' & gs' & recs' & k & g_new & gap & Hrc & Hst & Heol & C' & S' & Hg' & Hrg' & Hden & Hlast & Hk).
    fold rs bs in Hrc, Hst, Heol, Hden, Hrg', Hk. cbn [map] in Hrc.
    set (r_new := s_new_record (new_date d (date_format cfg ds) (elect default_style rs bs)) (cfg_should cfg) [] j) in *.
    assert (P : points_at rc (rc_lines rc) lead' gs' recs' k (r_new, gap) g_new j).
    { constructor; try assumption; try reflexivity.
      - exact (Hlast eq_refl).
      - rewrite Hst. exact Heol.
      - rewrite Hst. exact Hj. }
    destruct (insert_bad_entry_fails rc _ lead' gs' recs' k (r_new, gap) g_new j x mr P Hraw Hrej) as (ls' & es & HI & Pf & _).
    unfold first_creator, at_record, new_record. rewrite (find_record_idx_none_at _ _ _ Hf), Hrc.
    cbn [of_outcome flat_map app cbind run_steps fold_left].
    unfold append_entry. rewrite to_multiline_raw, HI. cbn [lift_lines lift_r cbind]. unfold make_result. cbn [with_lines rc_lines].
    rewrite Pf. reflexivity.
Qed.

(* ---------------------------------------------------------------- what is rejected *)

(* (a) a first line whose value is no value of the grammar, after any entries *)
Definition malformed_value (x : text) : Prop :=
  forall i ln, exists e, parse_entry_value ln (indent_text i ++ x) (length (indent_text i)) = EvErr e.

Lemma malformed_rejected acc x mr : text_ok x = true -> malformed_value x -> entry_rejected_after acc x mr.
Proof.
  intros Tx H i. apply everr_errs_at.
  - rewrite text_ok_app, Tx. destruct i; reflexivity.
  - intros ln. exact (H i ln).
Qed.

(* (b) an open range after a record that already has one *)
Lemma second_open_rejected acc a sp1 sp2 extra tail mr : wf_time a = true -> tail_ok tail -> text_ok tail = true ->
  has_open_entry acc = true -> forallb (fun t => text_ok t && negb (all_blank t)) mr = true ->
  entry_rejected_after acc (render_value (SOpen a sp1 sp2 extra) ++ tail) mr.
Proof.
  intros Wa T Tt Ho Wm i.
  pose proof (second_open_at i a sp1 sp2 extra tail acc mr [] Wa T Tt Ho Wm eq_refl) as H. cbv zeta in H.
  cbn [flat_map] in H. rewrite app_nil_r in H. exact H.
Qed.

(* the fault families of Proofs/SpecFaults.v *)
Lemma malformed_bad_time st rest : time_fields_in_shape st = true -> wf_time st = false ->
  match rest with c :: _ => is_dash_or_space c = true | [] => True end -> malformed_value (render_time st ++ rest).
Proof.
  intros F W Hr i ln. destruct (bad_time_facts st F W) as (Hp & Sh & Pl & _).
  exact (ev_bad_start ln (indent_text i) (render_time st) rest Sh Pl Hp Hr).
Qed.

Lemma malformed_missing_dash a sp1 rest : wf_time a = true ->
  match rest with c :: _ => is_space c = false /\ (c =? ch_minus)%N = false | [] => True end -> (sp1 = 0%nat -> rest = []) ->
  malformed_value (render_time a ++ spaces sp1 ++ rest).
Proof. intros Wa Hr H0 i ln. exact (ev_no_dash ln (indent_text i) a sp1 rest Wa Hr H0). Qed.

Lemma malformed_bad_end a sp1 sp2 s' tail : wf_time a = true ->
  forallb (fun c => negb (is_space_or_tab c)) s' = true ->
  match tail with c :: _ => is_space_or_tab c = true | [] => True end ->
  match s' ++ tail with c :: _ => is_space c = false /\ (c =? ch_q)%N = false | [] => True end ->
  (forall t, parse_time (utf8_encode s') <> Ok t) ->
  malformed_value (render_time a ++ spaces sp1 ++ [45%N] ++ spaces sp2 ++ s' ++ tail).
Proof. intros Wa Hs Ht Hh Hp i ln. exact (ev_bad_end ln (indent_text i) a sp1 sp2 s' tail Wa Hs Ht Hh Hp). Qed.

Lemma malformed_bad_placeholder a sp1 sp2 rep tail : wf_time a = true ->
  forallb (fun c => negb (is_space_or_tab c)) rep = true ->
  match tail with c :: _ => is_space_or_tab c = true | [] => True end ->
  forallb (fun c => (c =? ch_q)%N) rep = false ->
  malformed_value (render_time a ++ spaces sp1 ++ [45%N] ++ spaces sp2 ++ 63%N :: rep ++ tail).
Proof. intros Wa Hs Ht Hq i ln. exact (ev_bad_placeholder ln (indent_text i) a sp1 sp2 rep tail Wa Hs Ht Hq). Qed.

Lemma malformed_minutes_overflow du tail : dur_minutes_overflow du = true -> tail_ok tail -> malformed_value (render_dur du ++ tail).
Proof. intros H T i ln. exact (ev_dur60 ln (indent_text i) du tail H T). Qed.

Lemma malformed_reversed_range a sp1 sp2 b tail : wf_time a = true -> wf_time b = true -> timeline b < timeline a -> tail_ok tail ->
  malformed_value (render_value (SRange a sp1 sp2 b) ++ tail).
Proof. intros Wa Wb Hab T i ln. exact (parse_entry_value_reversed ln (indent_text i) a sp1 sp2 b tail Wa Wb Hab T). Qed.

(* ---------------------------------------------------------------- the two rejections as statements about `track` *)

Theorem track_malformed_rejects now cfg ds file recs d x mr :
  spec_state file recs -> at_date now ds = Ok d -> valid_cdate (dt d) = true -> should_fits (cfg_should cfg) ->
  raw_entry_ok x mr -> malformed_value x ->
  exec now cfg (Track ds (raw_entry_arg x mr)) file = (file, CErr CEInvalidResult).
Proof.
  intros S Hd Hv Hsh Hraw Hm. apply (track_rejects now cfg ds file recs d x mr S Hd Hv Hsh Hraw).
  exact (malformed_rejected _ x mr (proj1 Hraw) Hm).
Qed.

(* a specification entry is a text `track` can be given *)
Lemma spec_entry_raw_ok se : wf_entry se = true -> no_cr_lines (entry_arg se) ->
  raw_entry_ok (render_value (se_value se) ++ first_tail se) (se_more se).
Proof.
  intros We Hcr. unfold wf_entry in We. apply andb_true_iff in We as [W1 Wm]. apply andb_true_iff in W1 as [Wv Wf].
  destruct (render_value_text_ok (se_value se) Wv) as [Tv As]. pose proof (render_value_head (se_value se) Wv) as Hh.
  split; [|split; [|split]].
  - rewrite text_ok_app, Tv. unfold first_tail. destruct (se_first se); [exact Wf|reflexivity].
  - destruct (render_value (se_value se)) as [|c r]; [contradiction|]. cbn [app]. split; [exact Hh|].
    cbn [ascii forallb] in As. apply andb_true_iff in As as [Hc _]. exact Hc.
  - exact Wm.
  - exact Hcr.
Qed.

(* an open range, as a specification entry, for a date whose record already has one *)
Theorem track_second_open_rejects now cfg ds file recs d se :
  spec_state file recs -> at_date now ds = Ok d -> valid_cdate (dt d) = true -> should_fits (cfg_should cfg) ->
  wf_entry se = true -> no_cr_lines (entry_arg se) ->
  is_open (denote_entry se) = true -> existsb is_open (entries_before (dt d) (denote_recs recs)) = true ->
  exec now cfg (Track ds (entry_arg se)) file = (file, CErr CEInvalidResult).
Proof.
  intros S Hd Hv Hsh We Hcr Ho Hex.
  change (entry_arg se) with (raw_entry_arg (render_value (se_value se) ++ first_tail se) (se_more se)).
  apply (track_rejects now cfg ds file recs d _ _ S Hd Hv Hsh (spec_entry_raw_ok se We Hcr)).
  pose proof We as We'. unfold wf_entry in We'. apply andb_true_iff in We' as [W1 Wm]. apply andb_true_iff in W1 as [Wv Wf].
  unfold is_open, denote_entry in Ho. cbn [e_value] in Ho.
  destruct (se_value se) as [du|a sp1 sp2 b|a sp1 sp2 extra] eqn:Ev; cbn [denote_value] in Ho; try discriminate Ho.
  cbn [wf_value] in Wv.
  apply second_open_rejected; [| exact (first_tail_ok se) | | exact Hex | exact Wm].
  - exact Wv.
  - unfold first_tail. destruct (se_first se); [exact Wf|reflexivity].
Qed.
