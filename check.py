#!/usr/bin/env python3
"""check.py — orchestrator for the klog verification checks.

  check.py --setup                      clean build of the Coq development, driver and harness
  check.py C16 --tier quick|thorough    run one property's check (rewrites evidence/C16.json)
  check.py C16 --replay replays/C16/x.json   re-run a recorded case on model and implementation

Exit 0: the property held on everything explored.  Exit 1 + "VIOLATION property=<id> replay=<path>".
See DESIGN.md §2.4/§2.5.
"""
import sys, os, json, time, subprocess, hashlib, re, fcntl, importlib, random, shutil, itertools, tempfile

ROOT = os.path.dirname(os.path.abspath(__file__))
COQ = os.path.join(ROOT, "coq")
BUILD = os.environ.get("VERIF_BUILD", os.path.join(ROOT, "build"))
REPO = os.environ.get("VERIF_REPO", "/repo")
# evidence/ and replays/ normally live in /verif; seeded-mutation runs (lib/seedtest.py) redirect them
OUT = os.environ.get("VERIF_OUT", ROOT)
sys.path.insert(0, os.path.join(ROOT, "lib"))

GOENV = dict(os.environ, GOFLAGS="-mod=mod", GOPROXY="off")
GOENV.pop("GOTOOLCHAIN", None) if os.environ.get("GOTOOLCHAIN") == "local" else None
NCPU = os.cpu_count() or 4
BATCH = 400000

FORBIDDEN = re.compile(r"\b(Admitted|admit|Axiom|Axioms|Parameter|Parameters|Conjecture|Conjectures|"
                       r"Admit Obligations|Unset Guard Checking|bypass_check|Unset Positivity Checking|"
                       r"Unset Universe Checking|type-in-type|impredicative-set|native_compute)\b")


def log(*a):
    print(*a, file=sys.stderr, flush=True)


def run(cmd, **kw):
    return subprocess.run(cmd, stdout=subprocess.PIPE, stderr=subprocess.STDOUT, text=True, **kw)


class Lock:
    def __enter__(self):
        os.makedirs(BUILD, exist_ok=True)
        self.f = open(os.path.join(BUILD, ".lock"), "w")
        fcntl.flock(self.f, fcntl.LOCK_EX)
        return self

    def __exit__(self, *a):
        fcntl.flock(self.f, fcntl.LOCK_UN)
        self.f.close()


# ----------------------------------------------------------------------------- build

def coq_sources():
    out = []
    for d, _, fs in os.walk(COQ):
        for f in fs:
            if f.endswith(".v"):
                out.append(os.path.join(d, f))
    return sorted(out)


def forbidden_tokens():
    """grep the development for anything that would declare an axiom or switch off a kernel check"""
    hits = []
    for p in coq_sources():
        src = open(p, encoding="utf-8").read()
        # strip comments (nested) before searching
        depth, out, i = 0, [], 0
        while i < len(src):
            if src.startswith("(*", i):
                depth += 1; i += 2
            elif src.startswith("*)", i) and depth > 0:
                depth -= 1; i += 2
            else:
                if depth == 0:
                    out.append(src[i])
                i += 1
        for m in FORBIDDEN.finditer("".join(out)):
            hits.append("%s: %s" % (os.path.relpath(p, ROOT), m.group(0)))
    return hits


def gen_tables():
    """Unicode tables the model needs verbatim come from the Go toolchain that builds klog."""
    tool = os.path.join(ROOT, "harness", "gentables")
    if not os.path.isdir(tool):
        return
    dst = os.path.join(COQ, "Gen", "UnicodeTables.v")
    r = subprocess.run(["go", "run", "."], cwd=tool, env=GOENV, stdout=subprocess.PIPE, stderr=subprocess.PIPE, text=True)
    if r.returncode != 0:
        raise SystemExit("gentables failed:\n" + r.stderr)
    old = open(dst).read() if os.path.exists(dst) else None
    if old != r.stdout:
        open(dst, "w").write(r.stdout)


def build_coq(clean=False):
    gen_tables()
    mk = os.path.join(COQ, "Makefile")
    if clean or not os.path.exists(mk) or os.path.getmtime(mk) < os.path.getmtime(os.path.join(COQ, "_CoqProject")):
        r = run(["coq_makefile", "-f", "_CoqProject", "-o", "Makefile"], cwd=COQ)
        if r.returncode != 0:
            return False, r.stdout
    if clean:
        run(["make", "clean"], cwd=COQ)
    r = run(["timeout", "3000", "make", "-j%d" % NCPU], cwd=COQ)
    return r.returncode == 0, r.stdout


def build_driver():
    ex = os.path.join(BUILD, "extract")
    os.makedirs(ex, exist_ok=True)
    drv = os.path.join(BUILD, "driver")
    vos = [os.path.join(d, f) for sub in ("Model", "Base", "Gen") for d, _, fs in os.walk(os.path.join(COQ, sub)) for f in fs if f.endswith(".vo")]
    dep = max([os.path.getmtime(v) for v in vos] +
              [os.path.getmtime(os.path.join(ROOT, "driver", "driver.ml")),
               os.path.getmtime(os.path.join(COQ, "Extract", "Extract.v"))])
    if os.path.exists(drv) and os.path.getmtime(drv) >= dep:
        return True, ""
    r = run(["coqc", "-Q", COQ, "Klog", os.path.join(COQ, "Extract", "Extract.v")], cwd=ex)
    if r.returncode != 0:
        return False, r.stdout
    shutil.copy(os.path.join(ROOT, "driver", "driver.ml"), ex)
    r = run(["ocamlfind", "ocamlopt", "-w", "-a", "-inline", "200",
             "model.mli", "model.ml", "driver.ml", "-o", drv], cwd=ex)
    return r.returncode == 0, r.stdout


def build_harness():
    h = os.path.join(ROOT, "harness")
    if REPO != "/repo":
        # a scratch copy of the implementation is being checked: build a private copy of the harness against it
        priv = os.path.join(BUILD, "harness-src")
        shutil.rmtree(priv, ignore_errors=True)
        shutil.copytree(h, priv, ignore=shutil.ignore_patterns("gentables"))
        h = priv
    shutil.copy(os.path.join(REPO, "go.sum"), os.path.join(h, "go.sum"))
    gomod = open(os.path.join(h, "go.mod")).read()
    want = re.sub(r"replace github.com/jotaen/klog => .*", "replace github.com/jotaen/klog => " + REPO, gomod)
    if want != gomod:
        open(os.path.join(h, "go.mod"), "w").write(want)
    cover = ["-cover", "-coverpkg=./...,github.com/jotaen/klog/klog/..."] if os.environ.get("VERIF_COVER") else []
    r = run(["go", "build", "-tags", "verif"] + cover + ["-o", os.path.join(BUILD, "harness"), "."], cwd=h, env=GOENV)
    return r.returncode == 0, r.stdout


def go_coverage(covdir):
    """statement coverage of klog's packages reached by this run's harness processes (thorough tier only)"""
    r = run(["go", "tool", "covdata", "percent", "-i=" + covdir], env=GOENV)
    out = {}
    for line in r.stdout.split("\n"):
        m = re.match(r"\s*(github.com/jotaen/klog\S*)\s+coverage:\s+([0-9.]+)%", line)
        if m:
            out[m.group(1)] = float(m.group(2))
    return out


def setup():
    t0 = time.time()
    with Lock():
        ok, out = build_coq(clean=True)
        if not ok:
            print(out[-6000:]); raise SystemExit("coq build failed")
        ok, out = build_driver()
        if not ok:
            print(out[-6000:]); raise SystemExit("driver build failed")
        ok, out = build_harness()
        if not ok:
            print(out[-6000:]); raise SystemExit("harness build failed")
    hits = forbidden_tokens()
    if hits:
        raise SystemExit("forbidden tokens: %s" % hits)
    # compile every property file on its own once and keep the captured Print Assumptions output (see check_theorems)
    from concurrent.futures import ThreadPoolExecutor
    pids = sorted(f[:-2] for f in os.listdir(os.path.join(COQ, "Properties")) if f.endswith(".v"))
    with ThreadPoolExecutor(max_workers=NCPU) as ex:
        res = list(ex.map(check_theorems, pids))
    bad = [r["file"] for r in res if not r["compiled"]]
    if bad:
        raise SystemExit("property files do not compile: %s" % bad)
    log("setup ok in %.1fs (%d property files, %d theorems)" % (time.time() - t0, len(res), sum(len(r["theorems"]) for r in res)))


# ----------------------------------------------------------------------------- proofs

def check_theorems(pid):
    """compile Properties/<pid>.v on its own, capture Print Assumptions"""
    path = os.path.join(COQ, "Properties", pid + ".v")
    src = open(path, encoding="utf-8").read()
    names = re.findall(r"^\s*Theorem\s+(\w+)", src, re.M)
    # Print Assumptions walks the whole dependency cone of every theorem (1-2 minutes for the larger files), and its
    # output can only change when a Coq source changes: the captured output is cached under the hash of all .v files
    key = hashlib.sha1()
    for f in coq_sources():
        key.update(f.encode()); key.update(open(f, "rb").read())
    cache = os.path.join(BUILD, "assumptions", "%s-%s.json" % (pid, key.hexdigest()[:16]))
    if os.path.exists(cache):
        c = json.load(open(cache))
        r = subprocess.CompletedProcess([], c["returncode"], c["stdout"])
    else:
        r = run(["timeout", "1200", "coqc", "-Q", COQ, "Klog", path], cwd=COQ)
        os.makedirs(os.path.dirname(cache), exist_ok=True)
        for old_f in os.listdir(os.path.dirname(cache)):
            if old_f.startswith(pid + "-"):
                os.remove(os.path.join(os.path.dirname(cache), old_f))
        json.dump({"returncode": r.returncode, "stdout": r.stdout}, open(cache, "w"))
    closed = r.stdout.count("Closed under the global context")
    axioms = []
    for m in re.finditer(r"^Axioms:\n((?:.+\n)+?)(?=\S|\Z)", r.stdout, re.M):
        axioms.append(m.group(1).strip())
    # axiom names, one per assumption block line that starts at column 0
    ax_names = sorted(set(re.findall(r"^([A-Za-z_][\w.']*)\s*:", "\n".join(axioms), re.M)))
    return {"file": os.path.relpath(path, ROOT), "theorems": names, "compiled": r.returncode == 0,
            "closed": closed, "axioms": ax_names, "log": r.stdout[-4000:] if r.returncode != 0 else "",
            "refuted": [n for n in names if n.endswith("_refuted")],
            "partial": [n for n in names if n.endswith("_partial")]}


# ----------------------------------------------------------------------------- running suites

def _unlimit_stack():
    # the extracted model is not tail recursive: long inputs need a deep native stack;
    # a runaway allocation of the implementation must kill that one process, not the machine
    import resource
    try:
        resource.setrlimit(resource.RLIMIT_STACK, (resource.RLIM_INFINITY, resource.RLIM_INFINITY))
    except (ValueError, OSError):
        pass
    try:
        resource.setrlimit(resource.RLIMIT_AS, (24 << 30, 24 << 30))
    except (ValueError, OSError):
        pass


def run_sharded(binary, args, lines, shards, env=None, timeout=None):
    """feed request lines to `shards` copies of a line-in/line-out process; returns outputs in order"""
    n = len(lines)
    shards = max(1, min(shards, (n + 199) // 200))
    size = (n + shards - 1) // shards
    procs = []
    for k in range(shards):
        chunk = lines[k * size:(k + 1) * size]
        p = subprocess.Popen([binary] + args, stdin=subprocess.PIPE, stdout=subprocess.PIPE, stderr=subprocess.PIPE, env=env,
                             preexec_fn=_unlimit_stack)
        procs.append((p, chunk))
    import threading
    results = [None] * len(procs)

    def feed(i, p, chunk):
        data = ("\n".join(chunk) + "\n").encode() if chunk else b""
        try:
            out, err = p.communicate(data, timeout=timeout)
        except subprocess.TimeoutExpired:
            p.kill(); out, err = p.communicate()
            err += b"\nTIMEOUT"
        results[i] = (out.decode("utf-8", "replace").split("\n"), err.decode("utf-8", "replace"), p.returncode)

    ths = [threading.Thread(target=feed, args=(i, p, c)) for i, (p, c) in enumerate(procs)]
    [t.start() for t in ths]; [t.join() for t in ths]
    outs = []
    for i, (p, chunk) in enumerate(procs):
        o, err, rc = results[i]
        if o and o[-1] == "":
            o = o[:-1]
        if len(o) != len(chunk):
            # the process died: mark the first unanswered request
            o = o + ["?process-died rc=%s %s" % (rc, err.strip().replace("\n", " | ")[-300:])] + ["?not-run"] * (len(chunk) - len(o) - 1)
        outs.extend(o)
    return outs


def model_run(lines):
    return run_sharded(os.path.join(BUILD, "driver"), [], lines, NCPU, timeout=3000)


def impl_run(lines, env=None):
    e = dict(os.environ)
    if env:
        e.update(env)
    # scratch files of the harness (target files, bookmark databases) live in a directory of this run that is
    # removed afterwards even when a harness process is killed or dies
    tmp = tempfile.mkdtemp(prefix="klogverif-run-")
    e["TMPDIR"] = tmp
    try:
        return run_sharded(os.path.join(BUILD, "harness"), ["run"], lines, NCPU, env=e, timeout=3000)
    finally:
        shutil.rmtree(tmp, ignore_errors=True)


# ----------------------------------------------------------------------------- findings

def load_known():
    p = os.path.join(ROOT, "known_findings.json")
    if not os.path.exists(p):
        return []
    return json.load(open(p))["findings"]


def match_known(known, pid, suite, req, io=None, mod=None, mo=None):
    for k in known:
        if k.get("status") != "known":
            continue
        if pid not in k["properties"]:
            continue
        if "suite" in k and k["suite"] != suite:
            continue
        if "request" in k and k["request"] == req:
            return k
        if "request_re" in k and re.fullmatch(k["request_re"], req):
            return k
        if "predicate" in k and mod is not None:
            fn = getattr(mod, k["predicate"])
            # a predicate may also look at the model's answer (three parameters): a defect the model reproduces
            # faithfully is recognised by "the implementation still answers as the model does"
            hit = fn(req, io, mo) if fn.__code__.co_argcount >= 3 else fn(req, io)
            if hit:
                return k
    return None


def write_replay(pid, obj):
    d = os.path.join(OUT, "replays", pid)
    os.makedirs(d, exist_ok=True)
    h = hashlib.sha1(json.dumps(obj, sort_keys=True).encode()).hexdigest()[:12]
    p = os.path.join(d, h + ".json")
    json.dump(obj, open(p, "w"), indent=1)
    return p


# ----------------------------------------------------------------------------- main check

class Suite:
    """One correspondence suite.
       gen(tier, rng) -> list of request lines
       decisive: the projected observables are fixed by the property's theorems, so a model/impl
                 mismatch on a request is itself an input on which the property fails
       oracle(req, impl_out) -> None | str : property oracle evaluated on the implementation's own output
       nontrivial(req, out) -> bool
       env: extra environment for the harness"""
    def __init__(self, name, gen, decisive=True, oracle=None, nontrivial=None, env=None, exhaustive=None, rule="", model=True, project=None):
        self.name, self.gen, self.decisive, self.oracle = name, gen, decisive, oracle
        # project() -> f(req, line) -> line : a (possibly stateful) projection applied to the model's and to the implementation's
        # output separately before the two are compared, for observables that the property fixes only up to a renaming
        # (e.g. bucket hashes: only "same hash <=> same period" matters). The oracle always sees the raw output.
        self.project = project
        self.model = model  # False: oracle-only suite (end-to-end run of the implementation; no model output compared)
        self.nontrivial = nontrivial or (lambda req, out: out.startswith("ok"))
        self.env, self.exhaustive, self.rule = env, exhaustive, rule


def run_check(pid, tier, seed):
    t0 = time.time()
    covdir = None
    if tier == "thorough":
        os.environ["VERIF_COVER"] = "1"
        covdir = os.path.join(BUILD, "cover-" + pid)
        shutil.rmtree(covdir, ignore_errors=True)
        os.makedirs(covdir, exist_ok=True)
        os.environ["GOCOVERDIR"] = covdir
    mod = importlib.import_module("props." + pid.lower())
    violations, known_lines = [], []
    known = load_known()
    with Lock():
        okc, outc = build_coq()
        okd, outd = build_driver() if okc else (False, "coq build failed")
        okh, outh = build_harness()
    forb = forbidden_tokens()
    thm = check_theorems(pid) if okc else {"file": "coq/Properties/%s.v" % pid, "theorems": [], "compiled": False,
                                          "closed": 0, "axioms": [], "log": outc[-4000:], "refuted": [], "partial": []}
    if not okh:
        # the implementation does not build with the harness: nothing can be compared
        p = write_replay(pid, {"kind": "harness-build-failed", "log": outh[-4000:]})
        print("VIOLATION property=%s replay=%s no-failing-input-found" % (pid, p))
        write_evidence(pid, tier, seed, thm, [], 1, t0, note="harness build failed")
        return 1
    proof_broken = (not okc) or (not okd) or (not thm["compiled"]) or bool(forb)
    # thorough tier: re-check the compiled property file and everything it depends on with the independent
    # checker coqchk (runs beside the suites; its context summary goes into the evidence)
    chk = {"done": None}
    if tier == "thorough" and okc:
        import threading
        def _chk():
            t1 = time.time()
            r = run(["timeout", "5400", "coqchk", "-silent", "-o", "-Q", COQ, "Klog", "Klog.Properties." + pid], cwd=COQ)
            summ = r.stdout[r.stdout.find("CONTEXT SUMMARY"):] if "CONTEXT SUMMARY" in r.stdout else r.stdout[-1500:]
            chk["done"] = {"returncode": r.returncode, "wall_s": round(time.time() - t1, 1),
                           "summary": " ".join(summ.split())[:1500]}
        chk_thread = threading.Thread(target=_chk); chk_thread.start()
    suites_ev = []
    corr_broken = []
    rng = random.Random(seed)
    corpus = load_corpus(pid)
    for su in mod.suites():
        ts = time.time()
        source = itertools.chain(corpus.get(su.name, []), su.gen(tier, random.Random(rng.getrandbits(64))))
        mism, orc_fail = [], []
        dist, nreq, nnontriv, samples = {}, 0, 0, []
        healed = []
        proj_i = su.project() if su.project else (lambda req, line: line)
        proj_m = su.project() if su.project else (lambda req, line: line)
        # requests are processed in batches so that exhaustive enumerations of tens of millions of cases fit in memory
        while True:
            reqs = list(itertools.islice(source, BATCH))
            if not reqs:
                break
            impl = impl_run(reqs, su.env)
            if not su.model:
                model = impl
            else:
                model = model_run(reqs) if (okc and okd) else ["?model-unavailable"] * len(reqs)
            nontriv = set()
            for i, req in enumerate(reqs):
                io, mo = impl[i], model[i]
                kind = req.split(" ", 1)[0] + ":" + io.split(" ", 1)[0][:24]
                dist[kind] = dist.get(kind, 0) + 1
                if su.nontrivial(req, io):
                    nontriv.add(req)
                bad = None
                if su.oracle:
                    try:
                        v = su.oracle(req, io)
                    except Exception as ex:
                        # an answer the oracle cannot even read is not what the property allows
                        v = "the implementation's answer has no admissible shape (%s: %s): %s" % (type(ex).__name__, ex, clip(io))
                    if v:
                        bad = ("oracle", v)
                if su.project:
                    same = proj_i(req, io) == proj_m(req, mo)
                else:
                    same = io == mo
                if bad is None and not same:
                    bad = ("mismatch", "model and implementation differ")
                if bad:
                    k = match_known(known, pid, su.name, req, io, mod, mo)
                    if k:
                        known_lines.append((k, req))
                        continue
                    if bad[0] == "mismatch" and su.oracle and su.model and match_known(known, pid, su.name, req, mo, mod, mo):
                        # the model reproduces a known defect on this request (its own answer is the recorded finding) while the
                        # implementation's answer satisfies the property oracle: the defect no longer shows in the code.
                        # That is not a violation; it is noted in the evidence.
                        healed.append(req)
                        continue
                    if len(orc_fail) + len(mism) < 200:
                        (orc_fail if bad[0] == "oracle" else mism).append((req, io, mo, bad[1]))
            if len(samples) < 6:
                samples += [{"request": clip(reqs[j]), "impl": clip(impl[j])} for j in sample_idx(len(reqs), rng)][:6 - len(samples)]
            nreq += len(reqs)
            nnontriv += len(nontriv)
        for req, io, mo, why in orc_fail[:3]:
            p = write_replay(pid, {"kind": "property-oracle-failed", "suite": su.name, "request": req, "impl": io,
                                   "model": mo, "why": why, "seed": seed, "replay_cmd": "./check.py %s --replay <this file>" % pid})
            violations.append((p, ""))
        if mism:
            if su.decisive:
                for req, io, mo, why in mism[:3]:
                    p = write_replay(pid, {"kind": "decisive-mismatch", "suite": su.name, "request": req, "impl": io,
                                           "model": mo, "why": "the theorems of %s fix this observable; the implementation returns something else" % thm["file"],
                                           "seed": seed})
                    violations.append((p, ""))
            elif not orc_fail:
                corr_broken.append((su.name, mism[0]))
        suites_ev.append({"suite": su.name, "requests": nreq, "distinct_nontrivial": nnontriv,
                          "mismatches": len(mism), "oracle_failures": len(orc_fail), "distribution": top_dist(dist),
                          "exhaustive": bool(su.exhaustive and su.exhaustive(tier)), "rule": su.rule + " (distinct counted per batch of %d requests)" % BATCH,
                          "samples": samples,
                          "known_defect_not_reproduced": len(healed),
                          "wall_s": round(time.time() - ts, 2)})
        if healed:
            print("NOTE: property=%s suite=%s: on %d request(s) the model answers with a recorded known finding but the implementation's answer satisfies the property (the defect no longer shows), e.g. %s" % (pid, su.name, len(healed), clip(healed[0])))
    seen = set()
    for k, req in known_lines:
        if k["id"] not in seen:
            seen.add(k["id"])
            print("KNOWN-FINDING: property=%s %s [%s]" % (pid, k["what"], k["id"]))
    if not violations and (corr_broken or proof_broken):
        what = {"kind": "no-failing-input-found", "proof_broken": proof_broken, "forbidden_tokens": forb,
                "theorem_file": thm["file"], "coq_log": thm.get("log", ""),
                "correspondence_broken": [{"suite": s, "request": m[0], "impl": m[1], "model": m[2]} for s, m in corr_broken]}
        p = write_replay(pid, what)
        violations.append((p, " no-failing-input-found"))
    for p, suffix in violations:
        print("VIOLATION property=%s replay=%s%s" % (pid, os.path.relpath(p, ROOT) if OUT == ROOT else p, suffix))
    if tier == "thorough" and okc:
        chk_thread.join()
        if chk["done"]["returncode"] != 0:
            p = write_replay(pid, {"kind": "no-failing-input-found", "coqchk": chk["done"], "theorem_file": thm["file"]})
            print("VIOLATION property=%s replay=%s no-failing-input-found" % (pid, p))
            violations.append((p, " no-failing-input-found"))
    cov = go_coverage(covdir) if covdir else None
    write_evidence(pid, tier, seed, thm, suites_ev, len(violations), t0,
                   known=[k["id"] for k, _ in known_lines], forb=forb, cov=cov, coqchk=chk["done"])
    if covdir:
        shutil.rmtree(covdir, ignore_errors=True)
        # leave a plain (uninstrumented) harness behind for the next quick run
        os.environ.pop("VERIF_COVER", None); os.environ.pop("GOCOVERDIR", None)
        with Lock():
            build_harness()
    return 1 if violations else 0


def clip(s, n=400):
    """evidence files stay small: long requests/results are cut (the full case is reproducible from seed and generator)"""
    return s if len(s) <= n else s[:n] + "...(%d chars)" % len(s)


def top_dist(dist, n=40):
    items = sorted(dist.items(), key=lambda kv: -kv[1])
    out = dict(items[:n])
    if len(items) > n:
        out["(other kinds)"] = sum(v for _, v in items[n:])
    return out


def sample_idx(n, rng):
    if n == 0:
        return []
    return sorted(set([0, n - 1] + [rng.randrange(n) for _ in range(4)]))


def load_corpus(pid):
    d = os.path.join(ROOT, "corpus", pid)
    out = {}
    if os.path.isdir(d):
        for f in sorted(os.listdir(d)):
            suite = f.split(".")[0]
            for line in open(os.path.join(d, f)):
                line = line.rstrip("\n")
                if line and not line.startswith("#"):
                    out.setdefault(suite, []).append(line)
    return out


def write_evidence(pid, tier, seed, thm, suites_ev, nviol, t0, known=(), forb=(), note="", cov=None, coqchk=None):
    os.makedirs(os.path.join(OUT, "evidence"), exist_ok=True)
    nthm = len(thm["theorems"])
    obligations = nthm + len(suites_ev)
    discharged = (nthm if thm["compiled"] and not forb else 0) + sum(1 for s in suites_ev if s["mismatches"] == 0 and s["oracle_failures"] == 0)
    samples = []
    for s in suites_ev:
        samples.extend(s["samples"][:3])
    ev = {
        "property_id": pid, "tier": tier, "seed": seed, "level": "proof",
        "coverage": {
            "obligations": max(obligations, 1), "discharged": discharged,
            "checker_cmd": "make -C coq (coqc 8.16.1, full .vo build) && coqc -Q coq Klog %s  [Print Assumptions captured]; "
                           "build/driver (extracted model) vs build/harness run (go build -tags verif against /repo)" % thm["file"],
            "trusted_base": [
                "Coq 8.16.1 kernel incl. vm_compute; no native_compute",
                "axioms reported by Print Assumptions for %s: %s" % (thm["file"], ", ".join(thm["axioms"]) or "none (Closed under the global context x%d)" % thm["closed"]),
                "extraction: ExtrOcamlBasic only (bool, option, list, prod, unit, sumbool); N/Z/positive/nat stay inductive; OCaml 4.13.1",
                "driver/driver.ml (line I/O only), harness/*.go (request decoding, canonical printing), check.py + lib/props/%s.py (generators, oracles)" % pid.lower(),
                "hand-written model coq/Model/*.v tied to /repo by the correspondence suites below, not verified against the Go source text",
            ],
            "theorems": thm["theorems"], "theorems_refuted": thm["refuted"], "theorems_partial": thm["partial"],
            "theorem_file_compiled": thm["compiled"],
            "evaluations": sum(s["requests"] for s in suites_ev),
            "distinct_nontrivial": sum(s["distinct_nontrivial"] for s in suites_ev),
            "rule": "per suite: " + "; ".join("%s: %s" % (s["suite"], s["rule"]) for s in suites_ev),
            "traces_validated_against_impl": sum(s["requests"] for s in suites_ev),
            "exhaustive": bool(suites_ev) and all(s["exhaustive"] for s in suites_ev),
            "suites": suites_ev, "samples": samples or [note or "none"],
            "known_findings_seen": sorted(set(known)),
            "coqchk": coqchk if coqchk is not None else "run in the thorough tier only",
            "go_statement_coverage_percent": cov if cov is not None else "measured in the thorough tier only",
        },
        "assumptions": ["the Go toolchain and standard library behave as modelled (see DESIGN.md §6)",
                        "differential runs support, and never replace, the theorems"],
        "wall_s": round(time.time() - t0, 2), "violations": nviol,
    }
    json.dump(ev, open(os.path.join(OUT, "evidence", pid + ".json"), "w"), indent=1)


def replay(pid, path):
    obj = json.load(open(path))
    reqs = [obj["request"]] if "request" in obj else [c["request"] for c in obj.get("correspondence_broken", [])]
    with Lock():
        build_coq(); build_driver(); build_harness()
    if obj.get("why"):
        print("reported:", obj["why"])
    suites = {}
    try:
        mod = importlib.import_module("props." + pid.lower())
        suites = {s.name: s for s in mod.suites()}
    except Exception as e:
        print("(suites of %s not loaded: %s)" % (pid, e))
    names = [obj.get("suite")] * len(reqs) if "request" in obj else [c.get("suite") for c in obj.get("correspondence_broken", [])]
    still = False
    for r, sn in zip(reqs, names):
        su = suites.get(sn)
        mo = model_run([r])[0] if (su is None or su.model) else None
        io = impl_run([r], dict(su.env or {}, VERIF_CRASH_DETAIL="1") if su else {"VERIF_CRASH_DETAIL": "1"})[0]
        print("request:", r)
        if mo is not None:
            print("  model:", mo)
        print("  impl :", io)
        if su is not None:
            if mo is not None:
                same = (su.project()(r, io) == su.project()(r, mo)) if su.project else io == mo
                print("  model and implementation %s on the compared observable" % ("agree" if same else "DIFFER"))
                still = still or not same
            if su.oracle:
                try:
                    v = su.oracle(r, io)
                except Exception as e:
                    v = None
                    print("  (oracle needs the generator's state for this request: %s)" % e)
                if v:
                    print("  property oracle:", v); still = True
    if not reqs:
        print(json.dumps(obj, indent=1))
    return 1 if still else 0


def main():
    a = sys.argv[1:]
    if a and a[0] == "--setup":
        return setup()
    if a and a[0] == "--build":
        with Lock():
            for f in (build_coq, build_driver, build_harness):
                ok, out = f()
                if not ok:
                    print(out[-8000:]); sys.exit(1)
        hits = forbidden_tokens()
        if hits:
            print("forbidden tokens:", hits); sys.exit(1)
        print("build ok"); return
    pid = a[0]
    tier = os.environ.get("VERIF_TIER", "quick")
    if "--tier" in a:
        tier = a[a.index("--tier") + 1]
    if "--replay" in a:
        sys.exit(replay(pid, a[a.index("--replay") + 1]))
    seed = int(os.environ.get("VERIF_SEED", "1"))
    sys.exit(run_check(pid, tier, seed))


if __name__ == "__main__":
    main()
