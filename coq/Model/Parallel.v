(* Parallel: engine.ParallelBatchParser (klog/parser/engine/parallel.go). Definitions only.
   Goroutine arrival order is an explicit argument; everything else is sequential. *)
From Klog Require Import Base.Prelude Base.Utf8 Model.Values Model.Record Model.Lines Model.Parser.
Open Scope Z_scope.

(* ---- splitIntoChunks ---- *)
(* advance to the next position that is a rune start (utf8.RuneStart) and does not tear a CRLF apart
   (fix F11), or to the end of the text; [prev] is the byte before the current position *)
Fixpoint skip_continuation (prev : N) (s : bytes) : nat :=
  match s with
  | c :: r => if negb (rune_start c) || ((c =? 10) && (prev =? 13))%N then S (skip_continuation c r) else O
  | [] => O
  end.

(* fuel = number of batches still to fill; [rest] = text from the current pointer on *)
Fixpoint chunks_from (fuel : nat) (size : nat) (rest : bytes) (at_end_emitted : bool) : list bytes :=
  match fuel with
  | O => []
  | S k =>
    if at_end_emitted then [] :: chunks_from k size rest true
    else if Nat.ltb (length rest) size
    then (* nextPointer > len(txt): this batch takes the rest, the remaining batches stay empty *)
         rest :: chunks_from k size [] true
    else
      let cut := (size + skip_continuation (nth (size - 1) rest 0%N) (skipn size rest))%nat in
      firstn cut rest :: chunks_from k size (skipn cut rest) false
  end.

(* math.Ceil(float64(len)/float64(n)) for n >= 1 *)
Definition batch_size (len n : nat) : nat := ((len + n - 1) / n)%nat.

Definition split_into_chunks (s : bytes) (n : nat) : list bytes :=
  chunks_from n (batch_size (length s) n) s false.

(* ---- one worker ---- *)
Record batch_result := { br_head : bytes; br_blocks : list (list line); br_tail : bytes }.

(* the line groups mapParse finds in a list of lines *)
Definition block_lines_of (ls : list line) : list (list line) := map b_lines (blocks_of_lines ls).

Definition worker (chunk : bytes) : batch_result :=
  match chunk with
  | [] => {| br_head := []; br_blocks := []; br_tail := [] |}
  | _ =>
    let ls := lines_of chunk in
    let '(head_lines, rest) :=
      match parse_block ls with
      | (Some bl, rest) => (bl, rest)
      | (None, _) => (ls, [])
      end in
    match rest with
    | [] => {| br_head := text_of_lines head_lines; br_blocks := []; br_tail := [] |}
    | _ =>
      let bs := block_lines_of rest in
      match bs with
      | [] => {| br_head := text_of_lines head_lines; br_blocks := []; br_tail := text_of_lines rest |}
      | _ => {| br_head := text_of_lines head_lines; br_blocks := removelast bs;
                br_tail := text_of_lines (last bs []) |}
      end
    end
  end.

(* ---- collecting results in arrival order: allResults[result.index] = result ---- *)
Fixpoint set_nth {A} (i : nat) (x : A) (l : list A) : list A :=
  match l, i with
  | [], _ => []
  | _ :: r, O => x :: r
  | y :: r, S k => y :: set_nth k x r
  end.

Definition collect {A} (default : A) (n : nat) (arrivals : list (nat * A)) : list A :=
  fold_left (fun acc ia => set_nth (fst ia) (snd ia) acc) arrivals (repeat default n).

(* ---- merge loop ---- *)
Fixpoint merge (results : list batch_result) (carry : bytes) (acc : list (list line)) : list (list line) :=
  match results with
  | [] => acc ++ block_lines_of (lines_of carry)
  | r :: rest =>
    let carry := carry ++ br_head r in
    match br_blocks r with
    | [] => merge rest (carry ++ br_tail r) acc
    | mid => merge rest (br_tail r) (acc ++ block_lines_of (lines_of carry) ++ mid)
    end
  end.

(* SetPrecedingLineCount over all blocks *)
Fixpoint renumber (groups : list (list line)) (preceding : nat) : list block :=
  match groups with
  | [] => []
  | g :: r => {| b_preceding := preceding; b_lines := g |} :: renumber r (preceding + length g)
  end.

Definition par_blocks_of_chunks (chunks : list bytes) : list block :=
  renumber (merge (map worker chunks) [] []) 0.

(* ParallelBatchParser.Parse with [n] workers whose results arrive in the order [order]
   (a list of batch indices) *)
Definition par_parse_chunks (chunks : list bytes) : outcome parse_result :=
  parse_lines_blocks (par_blocks_of_chunks chunks).

Definition par_parse (s : bytes) (n : nat) (order : list nat) : outcome parse_result :=
  match n with
  | O => Crash CExplicitPanic
  | _ =>
    let chunks := split_into_chunks s n in
    let results := map worker chunks in
    let empty := {| br_head := []; br_blocks := []; br_tail := [] |} in
    let arrived := collect empty (length chunks) (map (fun i => (i, nth i results empty)) order) in
    parse_lines_blocks (renumber (merge arrived [] []) 0)
  end.
