"""helpers shared by the property modules"""
def hx(s):
    if isinstance(s, str):
        s = s.encode("utf-8")
    return s.hex() if s else "-"

def unhx(h):
    return b"" if h == "-" else bytes.fromhex(h)
