"""C04 — mutating commands have exactly their intended effect over any command history."""
import sys, os
sys.path.insert(0, os.path.dirname(os.path.dirname(os.path.abspath(__file__))))
from check import Suite
from props.commands import *

def gen_histories(tier, rng):
    n = 2000 if tier == "quick" else 200000
    out = []
    for _ in range(n):
        doc, cfg, steps = make_history(rng, max_steps=8)
        # a no-op first step so that the abstract model starts from the harness' own parse of the file
        first = Step(steps[0].clock, "stop", ["%s" % hx(b"0001-01-01"), hx(b"0:00"), "_", "_"])
        out.append(history_request(doc.render(), cfg, [first] + steps))
    for _ in range(400 if tier == "quick" else 40000):
        b, cfg, steps = pause_scenario(rng)
        out.append(history_request(b, cfg, steps))
    return out

def suites():
    return [
        Suite("histories", gen_histories, oracle=oracle_c04, decisive=False,
              nontrivial=lambda r, o: o.count("ok:") >= 1,
              rule="histories of up to 8 commands; after each step the re-read records are compared with an abstract model written from the property text (python), the file of one step being the input of the next"),
    ]
from props.commands import k15_track_leading_blank
