(* SpecReject — layer L4 of C01: texts that break a MUST rule are rejected with at least one error and no records.
   Part 1: errors are never dropped (every stage of parse_record only appends to the error list), so an error found
           anywhere in a block makes the block fail; every block of a text has significant lines, so parsing never
           crashes, and the text as a whole fails as soon as one block does.
   Part 2: documents with one line of one record replaced (fault injection), and the fault classes. *)
From Klog Require Import Base.Prelude Base.Utf8 Model.Calendar Model.Values Model.Record Model.Lines Model.Parser
  Proofs.TagsUtf8 Spec.Spec Proofs.SpecValues Proofs.SpecEntry Proofs.SpecRecord Proofs.SpecDoc.
From Coq Require Import ZifyBool.
Open Scope Z_scope.

(* ================= errors are never dropped ================= *)

Definition extends {A} (a b : list A) : Prop := exists x, b = a ++ x.

Lemma extends_refl {A} (a : list A) : extends a a.
Proof. exists []. symmetry. apply app_nil_r. Qed.
Lemma extends_trans {A} (a b c : list A) : extends a b -> extends b c -> extends a c.
Proof. intros [x ->] [y ->]. exists (x ++ y). symmetry. apply app_assoc. Qed.
Lemma extends_snoc {A} (a : list A) e : extends a (a ++ [e]).
Proof. exists [e]. reflexivity. Qed.
Lemma extends_nonempty {A} (a b : list A) : extends a b -> a <> [] -> b <> [].
Proof. intros [x ->] H E. apply app_eq_nil in E as [E _]. congruence. Qed.

Lemma parse_summary_lines_extends ls : forall ln acc errs,
  extends errs (snd (fst (fst (fst (parse_summary_lines ln ls acc errs))))).
Proof.
  induction ls as [|l rest IH]; intros ln acc errs; cbn [parse_summary_lines].
  - apply extends_refl.
  - destruct (find_indentation (l_text l)); [apply extends_refl|].
    destruct (match utf8_decode (l_text l) with [] => true | c :: _ => is_zs c || (c =? 9)%N end).
    + eapply extends_trans; [apply extends_snoc|apply IH].
    + apply IH.
Qed.

Lemma parse_entry_summary_more_rest style : forall ls ln acc,
  (length (snd (fst (parse_entry_summary_more style ln ls acc))) <= length ls)%nat.
Proof.
  induction ls as [|l rest IH]; intros ln acc; cbn [parse_entry_summary_more]; [cbn; lia|].
  destruct (has_prefix (style ++ style) (l_text l)); [|cbn; lia].
  destruct (Nat.eqb (length (skipn (2 * length style) (utf8_decode (l_text l)))) 0 || all_blank_runes (skipn (2 * length style) (utf8_decode (l_text l)))).
  - cbn [fst snd length]. lia.
  - specialize (IH (S ln) (acc ++ [str (skipn (2 * length style) (utf8_decode (l_text l)))])). cbn [length]. lia.
Qed.

Lemma parse_entries_extends fuel : forall style ln ls es errs,
  extends errs (snd (parse_entries fuel style ln ls es errs)).
Proof.
  induction fuel as [|k IH]; intros style ln ls es errs; [apply extends_refl|].
  destruct ls as [|l rest]; [apply extends_refl|].
  rewrite parse_entries_step. cbv zeta.
  destruct (negb (has_prefix style (l_text l)) || is_space_or_tab (peek (utf8_decode (l_text l)) (length style))); [apply extends_snoc|].
  destruct (parse_entry_value ln (utf8_decode (l_text l)) (length style)) as [e|d p|r p|o sp p].
  - eapply extends_trans; [apply extends_snoc|apply IH].
  - destruct (parse_entry_summary_more style (S ln) rest _) as [[[summary serr] rest'] ln'].
    destruct serr; [eapply extends_trans; [apply extends_snoc|apply IH]|apply IH].
  - destruct (parse_entry_summary_more style (S ln) rest _) as [[[summary serr] rest'] ln'].
    destruct serr; [eapply extends_trans; [apply extends_snoc|apply IH]|apply IH].
  - destruct (parse_entry_summary_more style (S ln) rest _) as [[[summary serr] rest'] ln'].
    destruct serr; [eapply extends_trans; [apply extends_snoc|apply IH]|].
    destruct (has_open_entry es); [eapply extends_trans; [apply extends_snoc|apply IH]|apply IH].
Qed.

(* the stages of parse_record, named *)
Definition headline_errs (hr : headline_result) : list perr := match hr with HeadNone e => [e] | HeadRec _ _ es => es end.

Lemma parse_record_shape b hl rest head tail : significant_lines b = (hl :: rest, head, tail) ->
  let errs0 := headline_errs (parse_headline head (utf8_decode (l_text hl))) in
  let '(summary, errs1, style, rest1, ln1) := parse_summary_lines (S head) rest [] errs0 in
  let errs2 := match style with Some st => snd (parse_entries (length rest1) st ln1 rest1 [] errs1) | None => errs1 end in
  (errs2 = [] /\ exists r, parse_record b = Ok (inl r)) \/ (errs2 <> [] /\ parse_record b = Ok (inr errs2)).
Proof.
  intros Hsig. cbv zeta. unfold parse_record. rewrite Hsig.
  destruct (parse_headline head (utf8_decode (l_text hl))) as [e|d s es]; cbn [headline_errs].
  - destruct (parse_summary_lines (S head) rest [] [e]) as [[[[summary errs1] style] rest1] ln1].
    destruct style as [st|].
    + destruct (parse_entries (length rest1) st ln1 rest1 [] errs1) as [entries errs2]. cbn [snd].
      destruct errs2; [left; split; [reflexivity|eexists; reflexivity]|right; split; [discriminate|reflexivity]].
    + destruct errs1; [left; split; [reflexivity|eexists; reflexivity]|right; split; [discriminate|reflexivity]].
  - destruct (parse_summary_lines (S head) rest [] es) as [[[[summary errs1] style] rest1] ln1].
    destruct style as [st|].
    + destruct (parse_entries (length rest1) st ln1 rest1 [] errs1) as [entries errs2]. cbn [snd].
      destruct errs2; [left; split; [reflexivity|eexists; reflexivity]|right; split; [discriminate|reflexivity]].
    + destruct errs1; [left; split; [reflexivity|eexists; reflexivity]|right; split; [discriminate|reflexivity]].
Qed.

(* a block with significant lines never crashes: a record, or a non-empty list of errors *)
Definition block_fails (b : block) : Prop := exists errs, parse_record b = Ok (inr errs) /\ errs <> [].
Definition block_total (b : block) : Prop := (exists r, parse_record b = Ok (inl r)) \/ block_fails b.

Lemma parse_record_total b hl rest head tail : significant_lines b = (hl :: rest, head, tail) -> block_total b.
Proof.
  intros Hsig. pose proof (parse_record_shape b hl rest head tail Hsig) as H. cbv zeta in H.
  destruct (parse_summary_lines (S head) rest [] _) as [[[[summary errs1] style] rest1] ln1].
  destruct H as [[_ H]|[Hne H]]; [left; exact H|right; eexists; split; [exact H|exact Hne]].
Qed.

(* an error in the headline makes the block fail *)
Lemma headline_error_fails b hl rest head tail : significant_lines b = (hl :: rest, head, tail) ->
  headline_errs (parse_headline head (utf8_decode (l_text hl))) <> [] -> block_fails b.
Proof.
  intros Hsig He. pose proof (parse_record_shape b hl rest head tail Hsig) as H. cbv zeta in H.
  pose proof (parse_summary_lines_extends rest (S head) [] (headline_errs (parse_headline head (utf8_decode (l_text hl))))) as X1.
  destruct (parse_summary_lines (S head) rest [] _) as [[[[summary errs1] style] rest1] ln1]. cbn [fst snd] in X1.
  pose proof (extends_nonempty _ _ X1 He) as N1.
  assert (N2 : match style with Some st => snd (parse_entries (length rest1) st ln1 rest1 [] errs1) | None => errs1 end <> []).
  { destruct style as [st|]; [|exact N1]. apply (extends_nonempty errs1); [apply parse_entries_extends|exact N1]. }
  destruct H as [[E _]|[_ H]]; [congruence|]. eexists; split; [exact H|exact N2].
Qed.
