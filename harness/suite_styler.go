package main

// Suite "styler" (C18): the implementation side of style-format, style-strip, style-doc, table-render
// (compared with the Coq model) and of the end-to-end suite style-cli (judged by the Python oracle).

import (
	"fmt"
	"os"
	"path/filepath"
	"strconv"
	"strings"
	gotime "time"
	"unicode/utf8"

	tf "github.com/jotaen/klog/klog/app/cli/terminalformat"
)

func parseProps(s string) tf.StyleProps {
	f := strings.Split(s, ",")
	if len(f) != 4 {
		return tf.StyleProps{}
	}
	c, _ := strconv.Atoi(f[0])
	b, _ := strconv.Atoi(f[1])
	return tf.StyleProps{Color: tf.Colour(c), Background: tf.Colour(b), IsBold: f[2] == "1", IsUnderlined: f[3] == "1"}
}

// renderDoc renders document tokens (P<hex> | (<props> | )) the way klog nests styles: Format at
// top level, FormatAndRestore(text, enclosing styler) inside another style. Returns the rendered
// text and the remaining tokens.
func renderDoc(st tf.Styler, outer *tf.StyleProps, toks []string) (string, []string) {
	out := ""
	for len(toks) > 0 {
		t := toks[0]
		toks = toks[1:]
		switch {
		case strings.HasPrefix(t, "P"):
			out += argBytes(t[1:])
		case strings.HasPrefix(t, "("):
			p := parseProps(t[1:])
			var body string
			body, toks = renderDoc(st, &p, toks)
			if outer == nil {
				out += st.Props(p).Format(body)
			} else {
				out += st.Props(p).FormatAndRestore(body, st.Props(*outer))
			}
		default:
			return out, toks
		}
	}
	return out, toks
}

// one end-to-end variant: how the colour scheme is selected
type styleVariant struct {
	name   string
	config string
	env    map[string]string
	extra  []string
}

var styleVariants = []styleVariant{
	{"dark", "colour_scheme = dark\n", nil, nil},
	{"light", "colour_scheme = light\n", nil, nil},
	{"basic", "colour_scheme = basic\n", nil, nil},
	{"no_colour", "colour_scheme = no_colour\n", nil, nil},
	{"no-style", "", nil, []string{"--no-style"}},
	{"NO_COLOR", "colour_scheme = dark\n", map[string]string{"NO_COLOR": "1"}, nil},
}

func init() {
	register("style-format", func(a []string) string {
		st := tf.NewStyler(tf.ColourTheme(a[0]))
		text := argBytes(a[3])
		s := st.Props(parseProps(a[1]))
		return "ok " + hx0(s.Format(text)) + " " + hx0(s.FormatAndRestore(text, st.Props(parseProps(a[2]))))
	})
	register("style-strip", func(a []string) string {
		r := tf.StripAllAnsiSequences(argBytes(a[0]))
		return "ok " + hx0(r) + " " + strconv.Itoa(utf8.RuneCountInString(r))
	})
	register("style-doc", func(a []string) string {
		st := tf.NewStyler(tf.ColourTheme(a[0]))
		styled, _ := renderDoc(st, nil, a[1:])
		plain, _ := renderDoc(tf.NewStyler(tf.COLOUR_THEME_NO_COLOUR), nil, a[1:])
		return "ok " + hx0(styled) + " " + hx0(plain)
	})
	register("table-render", func(a []string) string {
		st := tf.NewStyler(tf.ColourTheme(a[0]))
		cols, _ := strconv.Atoi(a[1])
		table := tf.NewTable(cols, argBytes(a[2]))
		for _, c := range a[3:] {
			f := strings.Split(c, ",")
			if len(f) == 2 {
				if f[0] == "S" {
					n, _ := strconv.Atoi(f[1])
					table.Skip(n)
				}
				continue
			}
			if len(f) < 3 {
				continue
			}
			style := strings.Join(f[1:len(f)-1], ",")
			v := argBytes(f[len(f)-1])
			if style != "n" {
				v = st.Props(parseProps(style)).Format(v)
			}
			switch f[0] {
			case "L":
				table.CellL(v)
			case "R":
				table.CellR(v)
			case "F":
				table.Fill(v)
			}
		}
		var sb strings.Builder
		table.Collect(func(s string) { sb.WriteString(s) })
		return "ok " + hx0(sb.String())
	})

	// style-print <scheme> <tok>... : the records are written out as a klog file (canonical layout) and
	// printed by the real `klog print`, under the given scheme and under no_colour.
	register("style-print", func(a []string) string {
		file := printTokensToFile(a[1:])
		dir := scratchDir()
		defer os.RemoveAll(dir)
		path := filepath.Join(dir, "f.klg")
		writeFile(path, file)
		var outs []string
		for _, scheme := range []string{a[0], "no_colour"} {
			tf.NewStyler(tf.ColourTheme(scheme)) // an unknown scheme panics here, as it would in klog's start-up
			env := &cliEnv{Home: dir, Sticky: true, Config: "colour_scheme = " + scheme + "\n", NumCpus: 1}
			code, stdout, errText := runKlog(env, "print", "--no-warn", path)
			if code != 0 {
				return fmt.Sprintf("err %d %s", code, hx0(errText))
			}
			outs = append(outs, hx0(stdout))
		}
		return "ok " + strings.Join(outs, " ")
	})

	// style-cli <hex klog file> <clock YYYY-MM-DDTHH:MM> <klog arg>... : runs the command line on the
	// file under every way of choosing the colour scheme; prints "ok" and <code>:<hex stdout>:<hex error text>
	// per variant, in the order of styleVariants.
	register("style-cli", func(a []string) string {
		dir := scratchDir()
		defer os.RemoveAll(dir)
		path := filepath.Join(dir, "f.klg")
		writeFile(path, argBytes(a[0]))
		clock, err := gotime.ParseInLocation("2006-01-02T15:04", a[1], gotime.Local)
		if err != nil {
			panic("bad clock " + a[1])
		}
		var out []string
		for _, v := range styleVariants {
			env := &cliEnv{Home: dir, Clock: []gotime.Time{clock}, Sticky: true, Config: v.config, Env: v.env, NumCpus: 1}
			args := append(append(append([]string{}, a[2:]...), v.extra...), path)
			code, stdout, errText := runKlog(env, args...)
			out = append(out, fmt.Sprintf("%d:%s:%s", code, hx0(stdout), hx0(errText)))
		}
		return "ok " + strings.Join(out, " ")
	})
}

func segsText(s string) string {
	if s == "-" {
		return ""
	}
	out := ""
	for _, x := range strings.Split(s, ".") {
		if len(x) > 0 {
			out += argBytes(x[1:])
		}
	}
	return out
}

// printTokensToFile writes the records of a style-print request as klog file text.
func printTokensToFile(toks []string) string {
	var sb strings.Builder
	first := true
	entryLines := -1 // number of summary lines seen for the current entry; -1: no entry open
	endEntry := func() {
		if entryLines >= 0 {
			sb.WriteString("\n")
		}
		entryLines = -1
	}
	for _, t := range toks {
		f := strings.Split(t, ",")
		switch {
		case len(f) == 3 && f[0] == "R":
			endEntry()
			if !first {
				sb.WriteString("\n")
			}
			first = false
			sb.WriteString(argBytes(f[1]))
			if sh := argBytes(f[2]); sh != "" {
				sb.WriteString(" (" + sh + ")")
			}
			sb.WriteString("\n")
		case len(f) == 2 && f[0] == "S":
			sb.WriteString(segsText(f[1]) + "\n")
		case len(f) == 3 && f[0] == "E":
			endEntry()
			sb.WriteString("    " + argBytes(f[2]))
			entryLines = 0
		case len(f) == 2 && f[0] == "L":
			txt := segsText(f[1])
			if entryLines == 0 {
				if txt != "" {
					sb.WriteString(" " + txt)
				}
			} else {
				sb.WriteString("\n        " + txt)
			}
			entryLines++
		}
	}
	endEntry()
	return sb.String()
}

// hx0 is hx with the protocol's "-" for the empty string
func hx0(s string) string {
	if s == "" {
		return "-"
	}
	return hx(s)
}
