(* Suite "values" (C16): requests evaluated by the model for the correspondence check. *)
From Klog Require Import Base.Prelude Model.Calendar Model.Values Model.Show.
Open Scope Z_scope.

Definition suite_values (cmd : bytes) (args : list bytes) : option bytes :=
  if bytes_eqb cmd b!"time" then
    match args with
    | [s] => Some (show_outcome show_time (parse_time (arg_bytes s)))
    | _ => None
    end
  else if bytes_eqb cmd b!"dur" then
    match args with
    | [s] => Some (show_outcome show_duration (parse_duration (arg_bytes s)))
    | _ => None
    end
  else if bytes_eqb cmd b!"date" then
    match args with
    | [s] => Some (show_outcome show_date (parse_date (arg_bytes s)))
    | _ => None
    end
  else if bytes_eqb cmd b!"plus" then
    match args with
    | [s; n] => Some (show_outcome show_time
                        (let* t := parse_time (arg_bytes s) in time_plus t (parse_int n)))
    | _ => None
    end
  else if bytes_eqb cmd b!"range" then
    match args with
    | [s1; s2; spc] => Some (show_outcome show_range
                        (let* a := parse_time (arg_bytes s1) in
                         let* b := parse_time (arg_bytes s2) in
                         new_range a b (bytes_eqb spc b!"1")))
    | _ => None
    end
  else if bytes_eqb cmd b!"cmp" then
    (* Time.IsEqualTo / Time.IsAfterOrEqual on two literals *)
    match args with
    | [s1; s2] => Some (match parse_time (arg_bytes s1), parse_time (arg_bytes s2) with
                        | Ok a, Ok b => words [b!"ok"; show_bool (time_eqb a b); show_bool (time_geb a b)]
                        | _, _ => b!"err"
                        end)
    | _ => None
    end
  else None.
