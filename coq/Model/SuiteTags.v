(* Suite "tags": requests evaluated by the model for the correspondence check (stub). *)
From Klog Require Import Base.Prelude Model.Show Model.Tags.
Definition suite_tags (cmd : bytes) (args : list bytes) : option bytes := None.
