(* CommandsSpec: the groundwork of C04 — line lists that are the lines of a specification-conforming file, the geometry
   of their blocks, and what inserting styled lines into them does.
   A file is described, as in Proofs/SpecDoc.v, by its leading blank lines, one group of lines per record (the record's
   lines and the blank lines after it) and the specification records [recs] the groups are written from. *)
From Klog Require Import Base.Prelude Base.Utf8 Model.Calendar Model.Values Model.Record Model.Lines Model.Parser
  Model.Reconcile Proofs.Lines Proofs.Parser Proofs.TagsUtf8 Spec.Spec Proofs.SpecValues Proofs.SpecEntry Proofs.SpecRecord
  Proofs.SpecDoc Proofs.Style Proofs.Reconcile.
From Coq Require Import ZifyBool.
Open Scope Z_scope.

Definition srecs := list (s_record * list text).

Definition denote_recs (recs : srecs) : list record := map (fun rg => denote_record (fst rg)) recs.

(* ---------------------------------------------------------------- conforming line lists *)

Record conforms (L lead : list line) (gs : list group) (recs : srecs) : Prop := {
  cf_lines : L = lead ++ flat_map group_lines gs;
  cf_lead : forallb is_blank lead = true;
  cf_groups : Forall2 group_of gs recs;
  cf_wf : forallb (fun rg => wf_record (fst rg)) recs = true;
  cf_gaps : gaps_ok recs = true;
  cf_ok : lines_ok L = true }.

Lemma conforms_groups_ok L lead gs recs : conforms L lead gs recs -> groups_ok gs = true.
Proof. intros C. exact (groups_ok_of gs recs (cf_groups _ _ _ _ C) (cf_wf _ _ _ _ C) (cf_gaps _ _ _ _ C)). Qed.

Lemma conforms_blocks L lead gs recs : conforms L lead gs recs -> blocks_of_lines L = expect_blocks 0 lead gs.
Proof.
  intros C. rewrite (cf_lines _ _ _ _ C). unfold blocks_of_lines.
  exact (blocks_fuel_groups gs (conforms_groups_ok _ _ _ _ C) _ 0 lead (cf_lead _ _ _ _ C) (le_n _)).
Qed.

(* C01 at the level of lines: a conforming line list is parsed to the denoted records *)
Theorem conforms_parse L lead gs recs : conforms L lead gs recs ->
  parse_text (text_of_lines L) = Ok (Parsed (denote_recs recs) (expect_blocks 0 lead gs)).
Proof.
  intros C. unfold parse_text, blocks_of. rewrite (lines_of_text_of_lines L (cf_ok _ _ _ _ C)).
  rewrite (conforms_blocks _ _ _ _ C). unfold parse_lines_blocks.
  rewrite (parse_blocks_groups gs recs (cf_groups _ _ _ _ C) (cf_wf _ _ _ _ C) (cf_gaps _ _ _ _ C) 0 lead [] (cf_lead _ _ _ _ C)).
  reflexivity.
Qed.

(* every rendered specification document is one *)
Theorem conforms_doc d : wf d -> exists lead gs, conforms (doc_lines d) lead gs (do_records d).
Proof.
  intros W. pose proof (doc_texts_ok d W) as T.
  pose proof W as W'. unfold wf, wf_doc in W'. apply andb_true_iff in W' as [W' U]. apply andb_true_iff in W' as [W' G].
  apply andb_true_iff in W' as [Wl Wr].
  pose proof (map_l_text_attach (do_crlf d) (do_final_newline d) (doc_texts d) 0) as M. fold (doc_lines d) in M.
  unfold doc_texts in M. rewrite map_app in M. apply map_eq_app in M as (Llead & L2 & EL & Ml & M2).
  destruct (split_groups (do_records d) L2 M2) as (gs & -> & F).
  exists Llead, gs. constructor; try assumption.
  - exact (blank_lines_of_texts _ _ Ml Wl).
  - apply lines_ok_attach; assumption.
Qed.

(* a file whose lines conform *)
Definition spec_file (file : bytes) (lead : list line) (gs : list group) (recs : srecs) : Prop :=
  conforms (lines_of file) lead gs recs.

Lemma spec_file_parse file lead gs recs : spec_file file lead gs recs ->
  parse_text file = Ok (Parsed (denote_recs recs) (expect_blocks 0 lead gs)).
Proof. intros C. rewrite <- (lines_lossless file) at 1. exact (conforms_parse _ _ _ _ C). Qed.

Lemma spec_file_render d : wf d -> exists lead gs, spec_file (render d) lead gs (do_records d).
Proof.
  intros W. destruct (conforms_doc d W) as (lead & gs & C). exists lead, gs. unfold spec_file, render.
  rewrite (lines_of_text_of_lines _ (cf_ok _ _ _ _ C)). exact C.
Qed.

(* ---------------------------------------------------------------- the geometry of the blocks *)

Lemma flatten_expect_blocks gs : forall p head, gs <> [] ->
  flatten_blocks (expect_blocks p head gs) = head ++ flat_map group_lines gs.
Proof.
  induction gs as [|g gs IH]; intros p head Hne; [contradiction|].
  cbn [expect_blocks flatten_blocks flat_map b_lines]. unfold group_lines at 1. rewrite <- !app_assoc. do 3 f_equal.
  destruct gs as [|g2 gs']; [reflexivity|]. change (flat_map b_lines ?x) with (flatten_blocks x).
  rewrite IH by discriminate. reflexivity.
Qed.

Lemma expect_blocks_length gs : forall p head, length (expect_blocks p head gs) = length gs.
Proof. induction gs as [|g gs IH]; intros p head; [reflexivity|]. cbn [expect_blocks List.length]. rewrite IH. reflexivity. Qed.

(* the lines before group k *)
Definition before_group (head : list line) (gs : list group) (k : nat) : list line :=
  head ++ flat_map group_lines (firstn k gs).

Lemma group_shape head g : forallb is_blank head = true -> fst g <> [] ->
  forallb (fun l => negb (is_blank l)) (fst g) = true -> forallb is_blank (snd g) = true ->
  shape (head ++ fst g ++ snd g) head (fst g) (snd g).
Proof.
  intros Hh Hne Hs Ht. split; [reflexivity|]. split; [exact Hne|].
  split; [|split].
  - apply Forall_forall. intros l Hl. rewrite forallb_forall in Hh. exact (Hh l Hl).
  - apply Forall_forall. intros l Hl. rewrite forallb_forall in Hs. specialize (Hs l Hl). apply negb_true_iff in Hs. exact Hs.
  - apply Forall_forall. intros l Hl. rewrite forallb_forall in Ht. exact (Ht l Hl).
Qed.

Lemma groups_ok_nth gs : groups_ok gs = true -> forall k g, nth_error gs k = Some g ->
  fst g <> [] /\ forallb (fun l => negb (is_blank l)) (fst g) = true /\ forallb is_blank (snd g) = true /\
  (S k = length gs \/ snd g <> []).
Proof.
  induction gs as [|g0 gs IH]; intros H k g Hk; [destruct k; discriminate|].
  destruct (groups_ok_cons g0 gs H) as [H0 Hr]. destruct k as [|k].
  - injection Hk as <-. apply group_ok_inv in H0 as (A & B & C & D). repeat split; try assumption.
    destruct D as [D|D]; [|right; exact D]. left. destruct gs; [reflexivity|discriminate].
  - cbn [nth_error] in Hk. destruct (IH Hr k g Hk) as (A & B & C & D). repeat split; try assumption.
    destruct D as [D|D]; [left; cbn [List.length]; lia|right; exact D].
Qed.

(* block k: where it is and what its significant lines are *)
Lemma expect_blocks_nth gs : groups_ok gs = true -> forall k g p head, forallb is_blank head = true ->
  nth_error gs k = Some g ->
  exists b, nth_error (expect_blocks p head gs) k = Some b /\
    significant_lines b = (fst g, length (match k with O => head | _ => [] end), length (snd g)) /\
    index_of_last_significant b = Z.of_nat (p + length (before_group head gs k) + length (fst g)).
Proof.
  induction gs as [|g0 gs IH]; intros H k g p head Hh Hk; [destruct k; discriminate|].
  destruct (groups_ok_cons g0 gs H) as [H0 Hr]. destruct k as [|k].
  - injection Hk as <-. eexists. split; [reflexivity|].
    apply group_ok_inv in H0 as (A & B & C & D).
    pose proof (shape_significant_lines {| b_preceding := p; b_lines := head ++ fst g0 ++ snd g0 |} head (fst g0) (snd g0)
                  (group_shape head g0 Hh A B C)) as S.
    split; [exact S|]. unfold index_of_last_significant. rewrite S. unfold overall_line_index, before_group. cbn [b_preceding firstn flat_map].
    rewrite app_nil_r. f_equal. lia.
  - cbn [nth_error] in Hk. cbn [expect_blocks nth_error].
    destruct (IH Hr k g (p + length (head ++ fst g0 ++ snd g0))%nat [] eq_refl Hk) as (b & Hb & S & I).
    exists b. split; [exact Hb|]. split.
    + rewrite S. destruct k; reflexivity.
    + rewrite I. unfold before_group. cbn [firstn flat_map app]. unfold group_lines at 2. rewrite !app_length. f_equal. lia.
Qed.

(* the lines split at the end of the significant lines of group k *)
Lemma split_at_group head gs k g : nth_error gs k = Some g ->
  head ++ flat_map group_lines gs = (before_group head gs k ++ fst g) ++ (snd g ++ flat_map group_lines (skipn (S k) gs)).
Proof.
  intros Hk. unfold before_group. rewrite <- (firstn_skipn k gs) at 1.
  assert (E : skipn k gs = g :: skipn (S k) gs).
  { revert k Hk. induction gs as [|g0 gs IH]; intros k Hk; [destruct k; discriminate|].
    destruct k as [|k]; [injection Hk as <-; reflexivity|]. cbn [skipn nth_error] in *. exact (IH k Hk). }
  rewrite E, flat_map_app. cbn [flat_map]. unfold group_lines at 2. rewrite <- !app_assoc. reflexivity.
Qed.

(* replacing group k *)
Fixpoint set_nth {A} (k : nat) (x : A) (l : list A) : list A :=
  match l, k with
  | [], _ => []
  | _ :: r, O => x :: r
  | y :: r, S k' => y :: set_nth k' x r
  end.

Lemma set_nth_split {A} k (x y : A) l : nth_error l k = Some y -> set_nth k x l = firstn k l ++ x :: skipn (S k) l.
Proof.
  revert k. induction l as [|z l IH]; intros k H; [destruct k; discriminate|].
  destruct k as [|k]; [reflexivity|]. cbn [set_nth firstn skipn app nth_error] in *. rewrite (IH k H). reflexivity.
Qed.

Lemma set_nth_length {A} k (x : A) l : length (set_nth k x l) = length l.
Proof. revert k. induction l as [|z l IH]; intros k; [destruct k; reflexivity|]. destruct k; cbn [set_nth List.length]; [reflexivity|]. rewrite IH. reflexivity. Qed.

Lemma nth_error_set_nth {A} k (x : A) l j : (k < length l)%nat ->
  nth_error (set_nth k x l) j = if Nat.eqb j k then Some x else nth_error l j.
Proof.
  revert k j. induction l as [|z l IH]; intros k j H; [cbn in H; lia|].
  destruct k as [|k]; destruct j as [|j]; cbn [set_nth nth_error Nat.eqb]; try reflexivity.
  apply IH. cbn [List.length] in H. lia.
Qed.

Lemma flat_map_set_nth head gs k g g' : nth_error gs k = Some g ->
  head ++ flat_map group_lines (set_nth k g' gs) =
  (before_group head gs k ++ fst g') ++ (snd g' ++ flat_map group_lines (skipn (S k) gs)).
Proof.
  intros Hk. rewrite (set_nth_split k g' g gs Hk), flat_map_app. cbn [flat_map]. unfold group_lines at 2, before_group.
  rewrite <- !app_assoc. reflexivity.
Qed.

Lemma Forall2_set_nth {A B} (R : A -> B -> Prop) k x y l m : Forall2 R l m -> R x y -> Forall2 R (set_nth k x l) (set_nth k y m).
Proof.
  intros F Hxy. revert k. induction F as [|a b l m Hab F IH]; intros k; [destruct k; constructor|].
  destruct k as [|k]; cbn [set_nth]; constructor; auto.
Qed.

Lemma Forall2_nth {A B} (R : A -> B -> Prop) l m k x : Forall2 R l m -> nth_error l k = Some x ->
  exists y, nth_error m k = Some y /\ R x y.
Proof.
  intros F. revert k. induction F as [|a b l m Hab F IH]; intros k H; [destruct k; discriminate|].
  destruct k as [|k]; [injection H as <-; exists b; auto|]. exact (IH k H).
Qed.

Lemma Forall2_nth_r {A B} (R : A -> B -> Prop) l m k y : Forall2 R l m -> nth_error m k = Some y ->
  exists x, nth_error l k = Some x /\ R x y.
Proof.
  intros F. revert k. induction F as [|a b l m Hab F IH]; intros k H; [destruct k; discriminate|].
  destruct k as [|k]; [injection H as <-; exists a; auto|]. exact (IH k H).
Qed.

(* ---------------------------------------------------------------- line endings and indentation of the elected style *)

Definition eol_ok (e : bytes) : Prop := e = [10%N] \/ e = [13; 10]%N.

Lemma line_ok_ending b l : line_ok b l = true -> l_ending l = [] \/ eol_ok (l_ending l).
Proof.
  unfold line_ok, eol_ok. intros H. apply andb_true_iff in H as [_ H].
  destruct (l_ending l) as [|e1 [|e2 [|e3 r]]]; try discriminate; [left; reflexivity| |].
  - apply andb_true_iff in H as [H _]. apply N.eqb_eq in H. subst. right. left. reflexivity.
  - apply andb_true_iff in H as [H1 H2]. apply N.eqb_eq in H1, H2. subst. right. right. reflexivity.
Qed.

Lemma lines_ok_forall L : lines_ok L = true -> forall l, In l L -> line_ok true l = true.
Proof.
  induction L as [|x L IH]; intros H l Hl; [destruct Hl|].
  destruct L as [|y L'].
  - destruct Hl as [<-|[]]. exact H.
  - change (lines_ok (x :: y :: L')) with (line_ok false x && lines_ok (y :: L')) in H.
    apply andb_true_iff in H as [Hx H]. destruct Hl as [<-|Hl]; [apply line_ok_weaken; exact Hx|exact (IH H l Hl)].
Qed.

Definition endings_ok (L : list line) : Prop := forall l, In l L -> l_ending l = [] \/ eol_ok (l_ending l).

Lemma lines_ok_endings L : lines_ok L = true -> endings_ok L.
Proof. intros H l Hl. exact (line_ok_ending _ _ (lines_ok_forall L H l Hl)). Qed.

Lemma significant_lines_incl b l : In l (fst (fst (significant_lines b))) -> In l (b_lines b).
Proof.
  unfold significant_lines. destruct (take_blank (b_lines b)) as [head r1] eqn:E1.
  destruct (take_significant r1) as [sig r2] eqn:E2. cbn [fst].
  apply take_blank_spec in E1 as (-> & _). apply take_significant_spec in E2 as (-> & _).
  intros H. apply in_or_app. right. apply in_or_app. left. exact H.
Qed.

Lemma determine_eol_ok r b : endings_ok (b_lines b) -> eol_ok (sp_val (st_eol (determine r b))).
Proof.
  intros H. rewrite determine_eol. destruct (fst (fst (significant_lines b))) as [|l rest] eqn:E; [left; reflexivity|].
  assert (Hl : In l (b_lines b)) by (apply significant_lines_incl; rewrite E; left; reflexivity).
  destruct (H l Hl) as [H0|H0]; [rewrite H0; left; reflexivity|].
  destruct (l_ending l) as [|e0 e]; [left; reflexivity|exact H0].
Qed.

Lemma in_styles_of s rs bs : In s (styles_of rs bs) -> exists r b, In b bs /\ In r rs /\ s = determine r b.
Proof.
  unfold styles_of. intros H. apply in_map_iff in H as ([r b] & <- & H).
  exists r, b. split; [exact (in_combine_r _ _ _ _ H)|]. split; [exact (in_combine_l _ _ _ _ H)|reflexivity].
Qed.

Lemma elect_eol_ok base rs bs : (forall b, In b bs -> endings_ok (b_lines b)) ->
  eol_ok (sp_val (st_eol base)) -> eol_ok (sp_val (st_eol (elect base rs bs))).
Proof.
  intros Hb H0. rewrite elect_eol, ascertain_val. destruct (sp_explicit (st_eol base)); [exact H0|].
  destruct (tally_voted_or_default bytes_eqb bytes_eqb_refl (votes_of (map st_eol (styles_of rs bs))) (sp_val (st_eol base))) as [[_ ->]|H];
    [exact H0|].
  apply votes_of_in in H as (p & Hp & _ & <-). apply in_map_iff in Hp as (s & <- & Hs).
  apply in_styles_of in Hs as (r & b & Hin & _ & ->). apply determine_eol_ok. exact (Hb b Hin).
Qed.

Definition indent_ok (i : bytes) : Prop := exists j : indent, i = indent_text j.

Lemma indentations_indent_ok i : In i indentations -> indent_ok i.
Proof.
  unfold indentations. intros [<-|[<-|[<-|[<-|[]]]]]; [exists I4|exists I3|exists I2|exists ITab]; reflexivity.
Qed.

Lemma determine_indent_ok r b : indent_ok (sp_val (st_indent (determine r b))).
Proof.
  rewrite determine_indent. destruct (first_some_indent _) as [i|] eqn:E; [|exists I4; reflexivity].
  apply first_some_indent_spec in E as (pre & l & post & _ & Hf & _).
  apply indentations_indent_ok. exact (find_indentation_in _ _ Hf).
Qed.

Lemma elect_indent_ok base rs bs : indent_ok (sp_val (st_indent base)) -> indent_ok (sp_val (st_indent (elect base rs bs))).
Proof.
  intros H0. rewrite elect_indent, ascertain_val. destruct (sp_explicit (st_indent base)); [exact H0|].
  destruct (tally_voted_or_default bytes_eqb bytes_eqb_refl (votes_of (map st_indent (styles_of rs bs))) (sp_val (st_indent base))) as [[_ ->]|H];
    [exact H0|].
  apply votes_of_in in H as (p & Hp & _ & <-). apply in_map_iff in Hp as (s & <- & Hs).
  apply in_styles_of in Hs as (r & b & _ & _ & ->). apply determine_indent_ok.
Qed.

(* the indentation a specification record exhibits: that of its entries *)
Lemma first_some_indent_skip l ls : find_indentation (original l) = None -> first_some_indent (l :: ls) = first_some_indent ls.
Proof. unfold first_some_indent. cbn [filter]. intros ->. reflexivity. Qed.

Lemma first_some_indent_hit l ls i : find_indentation (original l) = Some i -> first_some_indent (l :: ls) = Some i.
Proof. unfold first_some_indent. cbn [filter]. intros H. rewrite H. exact H. Qed.

Lemma first_some_indent_app_none a b : (forall l, In l a -> find_indentation (original l) = None) ->
  first_some_indent (a ++ b) = first_some_indent b.
Proof.
  induction a as [|l a IH]; intros H; [reflexivity|]. cbn [app].
  rewrite first_some_indent_skip by (apply H; left; reflexivity). apply IH. intros x Hx. apply H. right. exact Hx.
Qed.

Lemma original_head l b0 x : l_text l = b0 :: x -> original l = b0 :: (x ++ l_ending l).
Proof. unfold original. intros ->. reflexivity. Qed.

Lemma headline_head r : wf_record r = true ->
  exists b0 x, utf8_encode (headline_text r) = b0 :: x /\ is_space_or_tab b0 = false.
Proof.
  intros W. destruct (wf_record_inv r W) as (Wd & _).
  unfold headline_text. pose proof (render_date_head (sr_date r)) as H.
  destruct (render_date (sr_date r)) as [|c rest] eqn:E; [contradiction|]. subst c.
  assert (Hy : 0 <= sd_year (sr_date r) / 1000 <= 9).
  { unfold wf_date in Wd. assert (0 <= sd_year (sr_date r) <= 9999) by lia. clear Wd. Z.div_mod_to_equations. lia. }
  cbn [app]. rewrite encode_cons_ascii by (unfold dchar; lia).
  eexists; eexists; split; [reflexivity|]. unfold is_space_or_tab, dchar. lia.
Qed.

Lemma summary_line_head t : summary_line_ok t = true ->
  exists b0 x, utf8_encode t = b0 :: x /\ is_space_or_tab b0 = false.
Proof.
  unfold summary_line_ok. intros H. apply andb_true_iff in H as [_ H]. destruct t as [|c t]; [discriminate|].
  apply negb_true_iff in H. apply encode_head_not_blank. apply blank_char_space_or_tab. exact H.
Qed.

Lemma first_some_indent_record r sig : wf_record r = true -> map l_text sig = map utf8_encode (record_texts r) ->
  first_some_indent sig = match sr_entries r with [] => None | _ => Some (indent_text (sr_indent r)) end.
Proof.
  intros W M. destruct (wf_record_inv r W) as (Wd & H3 & H2 & H1 & H0 & H).
  change (map l_text sig = utf8_encode (headline_text r) ::
            map utf8_encode (sr_summary r ++ flat_map (entry_texts (indent_text (sr_indent r))) (sr_entries r))) in M.
  apply map_eq_cons in M as (hl & rest & -> & Mh & M).
  rewrite map_app in M. apply map_eq_app in M as (ls_s & ls_e & -> & Ms & Me).
  destruct (headline_head r W) as (b0 & x & Eh & Hb0).
  rewrite first_some_indent_skip by (rewrite (original_head hl b0 x) by congruence; apply find_indentation_none; exact Hb0).
  rewrite first_some_indent_app_none.
  - destruct (sr_entries r) as [|e es].
    + destruct ls_e; [reflexivity|discriminate].
    + cbn [flat_map entry_texts app map] in Me. destruct ls_e as [|le ls_e]; [discriminate|]. injection Me as Ml _.
      cbn [forallb] in H0. apply andb_true_iff in H0 as [We _].
      destruct (entry_line_bytes (sr_indent r) e We) as (c & y & Eb & Hc).
      apply first_some_indent_hit. unfold original. rewrite Ml.
      change (find_indentation (utf8_encode (indent_text (sr_indent r) ++ render_value (se_value e) ++ first_tail e) ++ l_ending le)
              = Some (indent_text (sr_indent r))).
      rewrite Eb, <- app_assoc. cbn [app]. apply find_indentation_entry. exact Hc.
  - intros l Hl. destruct (In_nth_error _ _ Hl) as [n Hn].
    assert (Hn' : nth_error (map l_text ls_s) n = Some (l_text l)) by (rewrite nth_error_map, Hn; reflexivity).
    rewrite Ms, nth_error_map in Hn'. destruct (nth_error (sr_summary r) n) as [t|] eqn:Et; [|discriminate]. injection Hn' as Hn'.
    rewrite forallb_forall in H1. specialize (H1 t (nth_error_In _ _ Et)).
    destruct (summary_line_head t H1) as (c0 & y & Ey & Hc0).
    rewrite (original_head l c0 y) by congruence. apply find_indentation_none. exact Hc0.
Qed.

(* ---------------------------------------------------------------- well-formed line lists under insertion *)

Lemma lines_ok_app_r X Y : Y <> [] -> lines_ok (X ++ Y) = forallb (line_ok false) X && lines_ok Y.
Proof.
  intros HY. induction X as [|x X IH]; [reflexivity|]. cbn [app forallb].
  destruct (X ++ Y) as [|z Z] eqn:E; [apply app_eq_nil in E as [_ E]; contradiction|].
  change (lines_ok (x :: z :: Z)) with (line_ok false x && lines_ok (z :: Z)). rewrite IH, andb_assoc. reflexivity.
Qed.

Lemma all_ok_lines_ok X : forallb (line_ok false) X = true -> lines_ok X = true.
Proof.
  induction X as [|x X IH]; [reflexivity|]. cbn [forallb]. intros H. apply andb_true_iff in H as [Hx H].
  destruct X as [|y X']; [apply line_ok_weaken; exact Hx|].
  change (lines_ok (x :: y :: X')) with (line_ok false x && lines_ok (y :: X')). rewrite Hx, (IH H). reflexivity.
Qed.

Lemma line_ok_false_ending l : line_ok false l = true -> l_ending l <> [].
Proof. unfold line_ok. intros H E. rewrite E in H. cbn [andb] in H. rewrite andb_false_r in H. discriminate. Qed.

Lemma give_ending_id eol X : forallb (line_ok false) X = true -> give_ending_to_last eol X = X.
Proof.
  intros H. destruct (list_snoc_cases X) as [->|(p & x & ->)]; [reflexivity|].
  rewrite give_ending_snoc, gain_ending; [reflexivity|].
  rewrite forallb_app in H. apply andb_true_iff in H as [_ H]. cbn [forallb] in H. apply andb_true_iff in H as [H _].
  exact (line_ok_false_ending _ H).
Qed.

Lemma map_l_text_give_ending eol X : map l_text (give_ending_to_last eol X) = map l_text X.
Proof.
  destruct (list_snoc_cases X) as [->|(p & x & ->)]; [reflexivity|].
  rewrite give_ending_snoc, !map_app. cbn [map]. rewrite gain_text. reflexivity.
Qed.

(* the last line of the file, when it lacks its newline, does not end in a carriage return: giving it a bare LF
   would otherwise turn the pair into a CRLF ending and the text would lose its last character *)
Definition last_line_safe (L : list line) : Prop :=
  forall pre l, L = pre ++ [l] -> l_ending l = [] -> ends_in_cr (l_text l) = false.

Lemma gain_line_ok eol l : eol_ok eol -> line_ok true l = true -> (l_ending l = [] -> ends_in_cr (l_text l) = false) ->
  line_ok false (gain eol l) = true.
Proof.
  intros He H Hs. unfold gain. destruct (l_ending l) as [|e0 e] eqn:E.
  - unfold line_ok in *. rewrite E in H. cbn [l_text l_ending]. apply andb_true_iff in H as [Hn _]. rewrite Hn.
    destruct He as [-> | ->]; [|reflexivity]. rewrite N.eqb_refl, (Hs eq_refl). reflexivity.
  - unfold line_ok in *. rewrite E in *. apply andb_true_iff in H as [Hn H]. rewrite Hn.
    destruct e as [|e1 [|e2 e]]; try discriminate; exact H.
Qed.

(* a block of terminated lines spliced into a well-formed line list after a non-empty prefix *)
Lemma lines_ok_insert eol A new B : lines_ok (A ++ B) = true -> last_line_safe (A ++ B) -> eol_ok eol ->
  forallb (line_ok false) new = true -> new <> [] ->
  lines_ok (give_ending_to_last eol A ++ new ++ B) = true /\
  (B <> [] -> give_ending_to_last eol A = A).
Proof.
  intros H Hs He Hn Hne. destruct B as [|b B].
  - rewrite app_nil_r in *. split; [|intros C; contradiction].
    rewrite lines_ok_app_r by exact Hne. rewrite (all_ok_lines_ok _ Hn), andb_true_r.
    destruct (list_snoc_cases A) as [->|(p & x & ->)]; [reflexivity|].
    rewrite give_ending_snoc, forallb_app. rewrite lines_ok_app_r in H by discriminate. apply andb_true_iff in H as [Hp Hx].
    rewrite Hp. cbn [forallb lines_ok] in *. rewrite andb_true_r.
    apply gain_line_ok; [exact He|exact Hx|]. intros E. exact (Hs p x eq_refl E).
  - rewrite lines_ok_app_r in H by discriminate. apply andb_true_iff in H as [HA HB].
    rewrite (give_ending_id _ _ HA). split; [|reflexivity].
    rewrite lines_ok_app_r by (destruct new; [contradiction|discriminate]). rewrite HA.
    rewrite lines_ok_app_r by discriminate. rewrite Hn, HB. reflexivity.
Qed.

Lemma last_line_safe_insert eol A new B : forallb (line_ok false) new = true -> new <> [] ->
  last_line_safe (A ++ B) -> B <> [] \/ True -> last_line_safe (give_ending_to_last eol A ++ new ++ B).
Proof.
  intros Hn Hne Hs _ pre l E El. destruct (list_snoc_cases B) as [->|(p & x & ->)].
  - rewrite app_nil_r in E. destruct (list_snoc_cases new) as [->|(q & y & ->)]; [contradiction|].
    rewrite app_assoc in E. apply app_inj_tail in E as [_ <-].
    rewrite forallb_app in Hn. apply andb_true_iff in Hn as [_ Hn]. cbn [forallb] in Hn. apply andb_true_iff in Hn as [Hn _].
    exfalso. exact (line_ok_false_ending _ Hn El).
  - rewrite !app_assoc in E. apply app_inj_tail in E as [_ <-]. apply (Hs (A ++ p) x); [rewrite app_assoc; reflexivity|exact El].
Qed.

(* the inserted line *)
Lemma mk_inserted_line st txt lv : eol_ok (sp_val (st_eol st)) ->
  (sp_val (st_eol st) = [10%N] -> ends_in_cr (repeat_bytes (sp_val (st_indent st)) lv ++ txt) = false) ->
  mk_inserted st (txt, lv) = {| l_text := repeat_bytes (sp_val (st_indent st)) lv ++ txt; l_ending := sp_val (st_eol st) |}.
Proof.
  intros He Hc. unfold mk_inserted. cbn [fst snd]. rewrite app_assoc. destruct He as [E|E]; rewrite E in *.
  - apply SpecDoc.new_line_lf. exact (Hc eq_refl).
  - apply SpecDoc.new_line_crlf.
Qed.

Lemma inserted_line_ok txt eol : eol_ok eol -> no_lf txt = true -> (eol = [10%N] -> ends_in_cr txt = false) ->
  line_ok false {| l_text := txt; l_ending := eol |} = true.
Proof.
  intros He Hn Hc. unfold line_ok. cbn [l_text l_ending]. rewrite Hn. destruct He as [-> | ->]; [|reflexivity].
  rewrite N.eqb_refl, (Hc eq_refl). reflexivity.
Qed.

(* ---------------------------------------------------------------- lines appended to the record of group k *)

Lemma forallb_set_nth {A} (p : A -> bool) k x l : forallb p l = true -> p x = true -> forallb p (set_nth k x l) = true.
Proof.
  revert k. induction l as [|y l IH]; intros k H Hx; [destruct k; reflexivity|].
  cbn [forallb] in H. apply andb_true_iff in H as [Hy H]. destruct k as [|k]; cbn [set_nth forallb].
  - rewrite Hx, H. reflexivity.
  - rewrite Hy, (IH k H Hx). reflexivity.
Qed.

Lemma gaps_ok_cons_ne x (l : srecs) : l <> [] ->
  gaps_ok (x :: l) = forallb blank_text (snd x) && negb (Nat.eqb (length (snd x)) 0) && gaps_ok l.
Proof. destruct l; [contradiction|reflexivity]. Qed.

Lemma set_nth_nonempty {A} k (x : A) l : l <> [] -> set_nth k x l <> [].
Proof. destruct l; [contradiction|]. destruct k; discriminate. Qed.

Lemma gaps_ok_set_nth k r' rg (recs : srecs) : nth_error recs k = Some rg ->
  gaps_ok (set_nth k (r', snd rg) recs) = gaps_ok recs.
Proof.
  revert k. induction recs as [|x recs IH]; intros k H; [destruct k; discriminate|].
  destruct k as [|k].
  - injection H as <-. cbn [set_nth]. destruct recs; reflexivity.
  - cbn [nth_error] in H. cbn [set_nth]. specialize (IH k H).
    assert (Hne : recs <> []) by (intros ->; destruct k; discriminate).
    rewrite (gaps_ok_cons_ne x _ (set_nth_nonempty k _ _ Hne)), (gaps_ok_cons_ne x _ Hne), IH. reflexivity.
Qed.

Theorem append_to_group L lead gs recs k g rg new eol r' :
  conforms L lead gs recs -> last_line_safe L ->
  nth_error gs k = Some g -> nth_error recs k = Some rg ->
  eol_ok eol -> forallb (line_ok false) new = true -> new <> [] ->
  wf_record r' = true ->
  map l_text (fst g ++ new) = map utf8_encode (record_texts r') ->
  let L' := give_ending_to_last eol (before_group lead gs k ++ fst g) ++ new ++ (snd g ++ flat_map group_lines (skipn (S k) gs)) in
  let g' := (give_ending_to_last eol (fst g) ++ new, snd g) in
  conforms L' lead (set_nth k g' gs) (set_nth k (r', snd rg) recs) /\ last_line_safe L'.
Proof.
  intros C Hs Hg Hrg He Hn Hne W M L' g'.
  pose proof (conforms_groups_ok _ _ _ _ C) as Gok.
  destruct (groups_ok_nth gs Gok k g Hg) as (Gne & _).
  pose proof (cf_lines _ _ _ _ C) as EL. rewrite (split_at_group lead gs k g Hg) in EL.
  pose proof (cf_ok _ _ _ _ C) as Hok. rewrite EL in Hok. rewrite EL in Hs.
  destruct (lines_ok_insert eol _ new _ Hok Hs He Hn Hne) as [Hok' _].
  destruct (Forall2_nth _ _ _ _ _ (cf_groups _ _ _ _ C) Hg) as (rg' & Hrg' & [Gs Gg]).
  rewrite Hrg in Hrg'. injection Hrg' as <-.
  split.
  - constructor.
    + unfold L', g'. rewrite (flat_map_set_nth lead gs k g _ Hg). cbn [fst snd].
      rewrite (give_ending_app eol (before_group lead gs k) (fst g) Gne), <- !app_assoc. reflexivity.
    + exact (cf_lead _ _ _ _ C).
    + apply Forall2_set_nth; [exact (cf_groups _ _ _ _ C)|]. split; cbn [fst snd]; [|exact Gg].
      unfold g'. cbn [fst]. rewrite map_app, map_l_text_give_ending, <- map_app. exact M.
    + apply forallb_set_nth; [exact (cf_wf _ _ _ _ C)|exact W].
    + rewrite (gaps_ok_set_nth k r' rg recs Hrg). exact (cf_gaps _ _ _ _ C).
    + exact Hok'.
  - apply last_line_safe_insert; try assumption. right. exact I.
Qed.
