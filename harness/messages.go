package main

// The wording of the parser's error messages is not fixed by any property: C10 and C20 only demand that the JSON
// error objects and the terminal report carry the SAME message as the parser's error. The model's table
// (coq/Model/JsonView.v error_title / error_details) holds the wording of klog/parser/error.go as it was when the
// model was written. Before the byte-for-byte comparison with the model the harness therefore rewrites the
// message of every reported error from the implementation's CURRENT wording (txt.Error.Title()/Details() of the
// parser's own error list) to that pinned wording. An output that carries anything else than the parser's own
// message for an error is left as it is and so still differs from the model (and from the oracle).

import (
	"bytes"
	"encoding/json"
	"regexp"
	"strings"

	"github.com/jotaen/klog/klog/app/cli/util"
	"github.com/jotaen/klog/klog/parser/txt"
)

var pinnedMessages = map[string][2]string{
	"ErrorInvalidDate":                {"Invalid date", "Please make sure that the date format is either YYYY-MM-DD or YYYY/MM/DD, and that its value represents a valid day in the calendar."},
	"ErrorIllegalIndentation":         {"Unexpected indentation", "Please correct the indentation of this line. Indentation must be 2-4 spaces or one tab. You cannot mix different indentation styles within the same record."},
	"ErrorMalformedShouldTotal":       {"Malformed should-total time", "Please review the syntax of the should-total time. Valid examples for it would be: (8h!) or (4h30m!) or (45m!)"},
	"ErrorUnrecognisedProperty":       {"Unrecognised should-total value", "The highlighted value is not recognised. The should-total must be a time duration suffixed with an exclamation mark, e.g. 5h15m! or 8h!"},
	"ErrorMalformedPropertiesSyntax":  {"Malformed should-total time", "The should-total cannot be empty and it must be surrounded by parenthesis on both sides"},
	"ErrorUnrecognisedTextInHeadline": {"Malformed headline", "The highlighted text in the headline is not recognised. Please make sure to surround the should-total with parentheses, e.g.: (5h!) You generally cannot put arbitrary text into the headline."},
	"ErrorMalformedSummary":           {"Malformed summary", "Summary lines cannot start with blank characters, such as non-breaking spaces."},
	"ErrorMalformedEntry":             {"Malformed entry", "Please review the syntax of the entry. It must start with a duration or a time range. Valid examples would be: 3h20m or 8:00-10:00 or 8:00-? or <23:00-6:00 or 18:00-0:30>"},
	"ErrorDuplicateOpenRange":         {"Duplicate entry", "Please make sure that there is only one open (unclosed) time range in this record."},
	"ErrorIllegalRange":               {"Invalid date range", "Please make sure that both time values appear in chronological order. If you want a time to be associated with an adjacent day you can use angle brackets to shift the time by one day: <23:00-6:00 or 18:00-0:30>"},
}

// jsonToken is s as klog's JSON serialiser writes a string (encoding/json without HTML escaping).
func jsonToken(s string) string {
	var b bytes.Buffer
	enc := json.NewEncoder(&b)
	enc.SetEscapeHTML(false)
	if err := enc.Encode(s); err != nil {
		return ""
	}
	return strings.TrimSuffix(b.String(), "\n")
}

func reworded(e txt.Error) (pin [2]string, changed bool) {
	pin, known := pinnedMessages[e.Code()]
	if !known {
		return pin, false
	}
	return pin, pin[0] != e.Title() || pin[1] != e.Details()
}

// pinJSONWording rewrites the title/details members of the error objects, one error after the other.
func pinJSONWording(out string, errs []txt.Error) string {
	pos := 0
	for _, e := range errs {
		pin, changed := reworded(e)
		cur := regexp.MustCompile(`("title":\s*)` + regexp.QuoteMeta(jsonToken(e.Title())) + `(,\s*"details":\s*)` + regexp.QuoteMeta(jsonToken(e.Details())))
		loc := cur.FindStringSubmatchIndex(out[pos:])
		if loc == nil {
			return out
		}
		if !changed {
			pos += loc[1]
			continue
		}
		rest := out[pos:]
		repl := rest[loc[2]:loc[3]] + jsonToken(pin[0]) + rest[loc[4]:loc[5]] + jsonToken(pin[1])
		out = out[:pos] + rest[:loc[0]] + repl + rest[loc[1]:]
		pos += loc[0] + len(repl)
	}
	return out
}

// pinTerminalWording rewrites the reflowed message paragraph of every block of PrettifyParsingError's report.
func pinTerminalWording(out string, errs []txt.Error) string {
	indent := []string{"    "}
	pos := 0
	for _, e := range errs {
		pin, changed := reworded(e)
		cur := util.Reflower.Reflow(e.Message(), indent) + "\n"
		i := strings.Index(out[pos:], cur)
		if i < 0 {
			return out
		}
		if !changed {
			pos += i + len(cur)
			continue
		}
		repl := util.Reflower.Reflow(pin[0]+": "+pin[1], indent) + "\n"
		out = out[:pos+i] + repl + out[pos+i+len(cur):]
		pos += i + len(repl)
	}
	return out
}
