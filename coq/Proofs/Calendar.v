(* Calendar: the day-number functions of Model/Calendar.v are the proleptic Gregorian calendar.
   The independent reference is the Gregorian RULE ([next_day]: month lengths + the 4/100/400 leap rule).
     - [days_closed], [days_next]      day numbers in closed form; the day after has the next number   (lia, all years)
     - [cfd_days]                      date -> number -> date is the identity: one 400-year era by the sweep in
                                       Proofs/CalendarSweep.v, every other year by [days_shift]/[cfd_shift]
     - [days_cfd]                      number -> date -> number is the identity (surjectivity by induction along [next_day])
     - order, [plus_days_spec], weekday, ISO weeks ([iso_week_char] and its consequences), quarter. *)
From Klog Require Import Base.Prelude Model.Calendar Proofs.Sweep Proofs.CalendarSweep.
From Coq Require Import ZifyBool.
Open Scope Z_scope.

Definition mk (y m d : Z) : cdate := {| c_year := y; c_month := m; c_day := d |}.

(* a date of the proleptic Gregorian calendar, any year *)
Definition wf_date (c : cdate) : Prop :=
  1 <= c_month c <= 12 /\ 1 <= c_day c <= days_in_month (c_year c) (c_month c).

Lemma is_leap_spec y : is_leap y = true <-> ((y mod 4 = 0 /\ y mod 100 <> 0) \/ y mod 400 = 0).
Proof. unfold is_leap. lia. Qed.

Lemma is_leap_shift y k : is_leap (y + 400 * k) = is_leap y.
Proof.
  unfold is_leap.
  replace ((y + 400 * k) mod 4) with (y mod 4) by (replace (y + 400*k) with (y + (100*k) * 4) by ring; symmetry; apply Z_mod_plus_full).
  replace ((y + 400 * k) mod 100) with (y mod 100) by (replace (y + 400*k) with (y + (4*k) * 100) by ring; symmetry; apply Z_mod_plus_full).
  replace ((y + 400 * k) mod 400) with (y mod 400) by (replace (y + 400*k) with (y + k * 400) by ring; symmetry; apply Z_mod_plus_full).
  reflexivity.
Qed.

Lemma dim_shift y k m : days_in_month (y + 400 * k) m = days_in_month y m.
Proof. unfold days_in_month. rewrite is_leap_shift. reflexivity. Qed.

Lemma dim_bounds y m : 28 <= days_in_month y m <= 31.
Proof. unfold days_in_month. destruct (m =? 2); [destruct (is_leap y); lia|]. destruct ((m =? 4) || (m =? 6) || (m =? 9) || (m =? 11)); lia. Qed.

(* ---- the day number in closed form ---- *)
Definition leaps (Y : Z) : Z := Y / 4 - Y / 100 + Y / 400.

Lemma hinnant_year Y : let era := Y / 400 in let yoe := Y - era * 400 in
  era * 146097 + (yoe * 365 + yoe / 4 - yoe / 100) = 365 * Y + leaps Y.
Proof. intros era yoe. subst era yoe. unfold leaps. Z.div_mod_to_equations; lia. Qed.

Definition year_shift (m : Z) (y : Z) : Z := if m <=? 2 then y - 1 else y.
(* day of the March-based year on which month m starts *)
Definition doy_start (m : Z) : Z := (153 * ((m + 9) mod 12) + 2) / 5.

Lemma days_closed y m d :
  days_from_civil y m d = 365 * year_shift m y + leaps (year_shift m y) + doy_start m + d - 719469.
Proof.
  unfold days_from_civil, year_shift, doy_start. cbv zeta.
  set (Y := if m <=? 2 then y - 1 else y).
  pose proof (hinnant_year Y) as H. cbv zeta in H. lia.
Qed.

(* evaluate closed comparisons and closed [doy_start]s, then the conditionals on them *)
Ltac eval_closed :=
  repeat match goal with
  | |- context[doy_start ?m] =>
    let v := eval vm_compute in (doy_start m) in
    match v with Z0 => idtac | Zpos _ => idtac end; change (doy_start m) with v
  | |- context[?a <=? ?b] =>
    let v := eval vm_compute in (a <=? b) in
    match v with true => idtac | false => idtac end; change (a <=? b) with v
  | |- context[?a <? ?b] =>
    let v := eval vm_compute in (a <? b) in
    match v with true => idtac | false => idtac end; change (a <? b) with v
  | |- context[?a =? ?b] =>
    let v := eval vm_compute in (a =? b) in
    match v with true => idtac | false => idtac end; change (a =? b) with v
  end; cbn [orb andb negb]; cbv beta iota.

Lemma leaps_step Y : leaps (Y + 1) = leaps Y + (if is_leap (Y + 1) then 1 else 0).
Proof.
  pose proof (is_leap_spec (Y + 1)) as H. destruct (is_leap (Y + 1)); unfold leaps.
  - assert (H1 : ((Y+1) mod 4 = 0 /\ (Y+1) mod 100 <> 0) \/ (Y+1) mod 400 = 0) by (apply H; reflexivity). clear H.
    Z.div_mod_to_equations; lia.
  - assert (H1 : ~ (((Y+1) mod 4 = 0 /\ (Y+1) mod 100 <> 0) \/ (Y+1) mod 400 = 0)) by (intro X; apply H in X; discriminate). clear H.
    Z.div_mod_to_equations; lia.
Qed.

Lemma days_day y m d : days_from_civil y m d = days_from_civil y m 1 + (d - 1).
Proof. rewrite !days_closed. lia. Qed.

Lemma days_month_start y m : 1 <= m < 12 ->
  days_from_civil y (m + 1) 1 = days_from_civil y m 1 + days_in_month y m.
Proof.
  intros Hm. rewrite !days_closed.
  assert (Hc : m = 1 \/ m = 2 \/ m = 3 \/ m = 4 \/ m = 5 \/ m = 6 \/ m = 7 \/ m = 8 \/ m = 9 \/ m = 10 \/ m = 11) by lia.
  destruct Hc as [->|[->|[->|[->|[->|[->|[->|[->|[->|[->| ->]]]]]]]]]];
    unfold year_shift, days_in_month; eval_closed; try lia.
  (* February -> March: the year part changes from y-1 to y *)
  pose proof (leaps_step (y - 1)) as H. replace (y - 1 + 1) with y in H by lia.
  destruct (is_leap y); lia.
Qed.

Lemma days_year_start y :
  days_from_civil (y + 1) 1 1 = days_from_civil y 12 1 + 31.
Proof. rewrite !days_closed. unfold year_shift. eval_closed. replace (y + 1 - 1) with y by lia. lia. Qed.


Definition shift_years (k : Z) (c : cdate) : cdate := mk (c_year c + 400 * k) (c_month c) (c_day c).

Lemma leaps_shift Y k : leaps (Y + 400 * k) = leaps Y + 97 * k.
Proof. unfold leaps. Z.div_mod_to_equations; lia. Qed.

Lemma days_shift y k m d : days_from_civil (y + 400 * k) m d = days_from_civil y m d + 146097 * k.
Proof.
  rewrite !days_closed.
  assert (E : year_shift m (y + 400 * k) = year_shift m y + 400 * k) by (unfold year_shift; destruct (m <=? 2); lia).
  rewrite E, leaps_shift. lia.
Qed.

Lemma cfd_shift z k : civil_from_days (z + 146097 * k) = shift_years k (civil_from_days z).
Proof.
  unfold civil_from_days, shift_years, mk. cbv zeta.
  assert (E : (z + 146097 * k + 719468) / 146097 = (z + 719468) / 146097 + k) by (Z.div_mod_to_equations; lia).
  rewrite E.
  replace (z + 146097 * k + 719468 - ((z + 719468) / 146097 + k) * 146097)
    with (z + 719468 - (z + 719468) / 146097 * 146097) by ring.
  cbn [c_year c_month c_day].
  f_equal.
  match goal with |- (if ?b then _ else _) = (if ?b then _ else _) + _ => destruct b end; ring.
Qed.

Lemma wf_shift k c : wf_date c -> wf_date (shift_years k c).
Proof. unfold wf_date, shift_years, mk; cbn [c_year c_month c_day]. rewrite dim_shift. tauto. Qed.

Lemma days_of_shift k c : days_of (shift_years k c) = days_of c + 146097 * k.
Proof. unfold days_of, shift_years, mk; cbn [c_year c_month c_day]. apply days_shift. Qed.

Lemma cdate_eqb_eq a b : cdate_eqb a b = true -> a = b.
Proof. destruct a as [y1 m1 d1], b as [y2 m2 d2]; unfold cdate_eqb; cbn [c_year c_month c_day]. intros H. f_equal; lia. Qed.

(* A: day number and back, one era by the sweep ... *)
Lemma cfd_days_era y m d : 0 <= y < 400 -> 1 <= m <= 12 -> 1 <= d <= days_in_month y m ->
  civil_from_days (days_from_civil y m d) = mk y m d.
Proof.
  intros Hy Hm Hd. pose proof (dim_bounds y m).
  assert (H2 : rt_check y m d = true).
  { apply (sweep3_sound rt_check 400 12 31 0 1 1 rt_era_sweep_true); lia. }
  unfold rt_check in H2. apply orb_true_iff in H2 as [H2|H2]; [lia|].
  apply cdate_eqb_eq in H2. exact H2.
Qed.

(* ... and every year by the 400-year period of the calendar *)
Theorem cfd_days c : wf_date c -> civil_from_days (days_of c) = c.
Proof.
  intros [Hm Hd]. destruct c as [y m d]; unfold days_of; cbn [c_year c_month c_day] in *.
  pose proof (Z.div_mod y 400 ltac:(lia)) as E. pose proof (Z.mod_pos_bound y 400 ltac:(lia)) as B.
  set (k := y / 400) in *. set (y0 := y mod 400) in *.
  replace y with (y0 + 400 * k) by lia.
  rewrite days_shift, cfd_shift, cfd_days_era; [|lia|lia|].
  - unfold shift_years, mk; cbn [c_year c_month c_day]. reflexivity.
  - replace y0 with (y + 400 * (- k)) by lia. rewrite dim_shift. exact Hd.
Qed.

(* C: the day number follows the Gregorian rule *)
Lemma wf_next c : wf_date c -> wf_date (next_day c).
Proof.
  intros [Hm Hd]. unfold next_day, wf_date.
  destruct (c_day c <? days_in_month (c_year c) (c_month c)) eqn:E1; cbn [c_year c_month c_day].
  - lia.
  - destruct (c_month c <? 12) eqn:E2; cbn [c_year c_month c_day].
    + pose proof (dim_bounds (c_year c) (c_month c + 1)). lia.
    + pose proof (dim_bounds (c_year c + 1) 1). lia.
Qed.

Theorem days_next c : wf_date c -> days_of (next_day c) = days_of c + 1.
Proof.
  intros [Hm Hd]. unfold next_day, days_of.
  destruct (c_day c <? days_in_month (c_year c) (c_month c)) eqn:E1; cbn [c_year c_month c_day].
  - rewrite (days_day _ _ (c_day c + 1)), (days_day _ _ (c_day c)). lia.
  - assert (Ed : c_day c = days_in_month (c_year c) (c_month c)) by lia.
    destruct (c_month c <? 12) eqn:E2; cbn [c_year c_month c_day].
    + rewrite days_month_start by lia. rewrite (days_day _ _ (c_day c)). lia.
    + assert (Em : c_month c = 12) by lia. rewrite days_year_start, (days_day _ _ (c_day c)).
      rewrite Em in *. unfold days_in_month in Ed. revert Ed. eval_closed. lia.
Qed.

(* B: every day number is the day number of exactly one date *)
Definition D0 : Z := -719528.    (* 0000-01-01 *)
Definition D1 : Z := 2932896.    (* 9999-12-31 *)

Lemma D0_ok : days_from_civil 0 1 1 = D0. Proof. reflexivity. Qed.
Lemma D1_ok : days_from_civil 9999 12 31 = D1. Proof. reflexivity. Qed.

Lemma days_surj_from_D0 n : 0 <= n -> exists c, wf_date c /\ days_of c = D0 + n.
Proof.
  revert n. apply natlike_ind.
  - exists (mk 0 1 1). split; [|reflexivity]. unfold wf_date, mk; cbn. lia.
  - intros n Hn [c [Hw Hd]]. exists (next_day c). split; [apply wf_next; exact Hw|]. rewrite days_next by exact Hw. lia.
Qed.

Lemma days_surj z : exists c, wf_date c /\ days_of c = z.
Proof.
  pose proof (Z.div_mod (z - D0) 146097 ltac:(lia)) as E. pose proof (Z.mod_pos_bound (z - D0) 146097 ltac:(lia)) as B.
  destruct (days_surj_from_D0 ((z - D0) mod 146097) ltac:(lia)) as [c [Hw Hd]].
  exists (shift_years ((z - D0) / 146097) c). split; [apply wf_shift; exact Hw|].
  rewrite days_of_shift, Hd. lia.
Qed.

Theorem days_cfd z : wf_date (civil_from_days z) /\ days_of (civil_from_days z) = z.
Proof.
  destruct (days_surj z) as [c [Hw Hd]]. rewrite <- Hd at 1 2. rewrite cfd_days by exact Hw. split; [exact Hw|exact Hd].
Qed.

Lemma days_inj a b : wf_date a -> wf_date b -> days_of a = days_of b -> a = b.
Proof. intros Ha Hb H. rewrite <- (cfd_days a Ha), <- (cfd_days b Hb), H. reflexivity. Qed.


(* ---- position inside the year ---- *)
Definition cum_table (m : Z) : Z :=
  if m =? 1 then 0 else if m =? 2 then 31 else if m =? 3 then 59 else if m =? 4 then 90
  else if m =? 5 then 120 else if m =? 6 then 151 else if m =? 7 then 181 else if m =? 8 then 212
  else if m =? 9 then 243 else if m =? 10 then 273 else if m =? 11 then 304 else 334.
(* days of year y before month m *)
Definition cum_days (y m : Z) : Z := cum_table m + (if (3 <=? m) && is_leap y then 1 else 0).
Definition year_len (y : Z) : Z := if is_leap y then 366 else 365.

Ltac month_split m H :=
  let Hc := fresh "Hc" in
  assert (Hc : m = 1 \/ m = 2 \/ m = 3 \/ m = 4 \/ m = 5 \/ m = 6 \/ m = 7 \/ m = 8 \/ m = 9 \/ m = 10 \/ m = 11 \/ m = 12) by lia;
  destruct Hc as [->|[->|[->|[->|[->|[->|[->|[->|[->|[->|[->| ->]]]]]]]]]]].

Lemma days_ymd y m d : 1 <= m <= 12 ->
  days_from_civil y m d = days_from_civil y 1 1 + cum_days y m + d - 1.
Proof.
  intros Hm. rewrite !days_closed.
  pose proof (leaps_step (y - 1)) as H. replace (y - 1 + 1) with y in H by lia.
  month_split m Hm; unfold year_shift, cum_days, cum_table; eval_closed; destruct (is_leap y); lia.
Qed.

Lemma year_start_step y : days_from_civil (y + 1) 1 1 = days_from_civil y 1 1 + year_len y.
Proof.
  rewrite days_year_start, (days_ymd y 12 1) by lia. unfold cum_days, cum_table, year_len. eval_closed.
  destruct (is_leap y); lia.
Qed.

Lemma year_len_bounds y : 365 <= year_len y <= 366.
Proof. unfold year_len. destruct (is_leap y); lia. Qed.

Lemma year_start_mono_aux y n : 0 <= n -> days_from_civil y 1 1 + 365 * n <= days_from_civil (y + n) 1 1.
Proof.
  revert n. apply natlike_ind.
  - replace (y + 0) with y by lia. lia.
  - intros n Hn IH. replace (y + Z.succ n) with (y + n + 1) by lia. rewrite year_start_step.
    pose proof (year_len_bounds (y + n)). lia.
Qed.

Lemma year_start_mono y1 y2 : y1 <= y2 -> days_from_civil y1 1 1 + 365 * (y2 - y1) <= days_from_civil y2 1 1.
Proof. intros H. pose proof (year_start_mono_aux y1 (y2 - y1) ltac:(lia)) as A. replace (y1 + (y2 - y1)) with y2 in A by lia. exact A. Qed.

Lemma cum_days_bounds y m d : 1 <= m <= 12 -> 1 <= d <= days_in_month y m -> 0 <= cum_days y m + d - 1 < year_len y.
Proof.
  intros Hm. unfold cum_days, cum_table, year_len, days_in_month.
  month_split m Hm; eval_closed; destruct (is_leap y); lia.
Qed.

Lemma days_in_year c : wf_date c ->
  days_from_civil (c_year c) 1 1 <= days_of c < days_from_civil (c_year c + 1) 1 1.
Proof.
  intros [Hm Hd]. unfold days_of. rewrite year_start_step, (days_ymd _ (c_month c)) by exact Hm.
  pose proof (cum_days_bounds _ _ _ Hm Hd). lia.
Qed.

(* the year of a day number: the calendar range 0000..9999 is the interval [D0, D1] of day numbers *)
Lemma D1_next : days_from_civil 10000 1 1 = D1 + 1. Proof. reflexivity. Qed.

Lemma year_in_range c : wf_date c -> (0 <= c_year c <= 9999 <-> D0 <= days_of c <= D1).
Proof.
  intros Hw. pose proof (days_in_year c Hw) as B. pose proof D0_ok. pose proof D1_next.
  split.
  - intros Hy. pose proof (year_start_mono 0 (c_year c) ltac:(lia)). pose proof (year_start_mono (c_year c + 1) 10000 ltac:(lia)). lia.
  - intros Hz. destruct (Z_lt_le_dec (c_year c) 0) as [L|L].
    + pose proof (year_start_mono (c_year c + 1) 0 ltac:(lia)). lia.
    + destruct (Z_lt_le_dec 9999 (c_year c)) as [G|G]; [|lia].
      pose proof (year_start_mono 10000 (c_year c) ltac:(lia)). lia.
Qed.

Lemma valid_wf c : valid_cdate c = true <-> (wf_date c /\ 0 <= c_year c <= 9999).
Proof. unfold valid_cdate, valid_ymd, wf_date. lia. Qed.

Lemma valid_days c : valid_cdate c = true -> wf_date c /\ D0 <= days_of c <= D1.
Proof. intros H. apply valid_wf in H as [Hw Hy]. split; [exact Hw|]. apply year_in_range; assumption. Qed.

Lemma valid_cfd z : D0 <= z <= D1 -> valid_cdate (civil_from_days z) = true.
Proof.
  intros Hz. destruct (days_cfd z) as [Hw Hd]. apply valid_wf. split; [exact Hw|].
  apply year_in_range; [exact Hw|]. rewrite Hd. exact Hz.
Qed.

(* Date.PlusDays: the date that many days later, a panic exactly when that leaves 0000..9999 *)
Lemma plus_days_spec c n : wf_date c ->
  plus_days c n = if (D0 <=? days_of c + n) && (days_of c + n <=? D1)
                  then Ok (civil_from_days (days_of c + n)) else Crash CUnrepresentableDate.
Proof.
  intros Hw. unfold plus_days. destruct (days_cfd (days_of c + n)) as [Hw' Hd'].
  pose proof (year_in_range _ Hw') as R. rewrite Hd' in R.
  destruct ((D0 <=? days_of c + n) && (days_of c + n <=? D1)) eqn:E.
  - destruct ((0 <=? c_year (civil_from_days (days_of c + n))) && (c_year (civil_from_days (days_of c + n)) <=? 9999)) eqn:E2; [reflexivity|lia].
  - destruct ((0 <=? c_year (civil_from_days (days_of c + n))) && (c_year (civil_from_days (days_of c + n)) <=? 9999)) eqn:E2; [lia|reflexivity].
Qed.

Lemma plus_days_ok c n : wf_date c -> D0 <= days_of c + n <= D1 ->
  plus_days c n = Ok (civil_from_days (days_of c + n)).
Proof. intros Hw H. rewrite plus_days_spec by exact Hw. destruct ((D0 <=? days_of c + n) && (days_of c + n <=? D1)) eqn:E; [reflexivity|lia]. Qed.

Lemma plus_days_crash c n : wf_date c -> ~ (D0 <= days_of c + n <= D1) ->
  plus_days c n = Crash CUnrepresentableDate.
Proof. intros Hw H. rewrite plus_days_spec by exact Hw. destruct ((D0 <=? days_of c + n) && (days_of c + n <=? D1)) eqn:E; [lia|reflexivity]. Qed.

(* ---- the order of dates (Date.IsAfterOrEqual compares year, month, day) is the order of day numbers ---- *)
Lemma cum_days_mono y m1 m2 d1 : 1 <= m1 -> m1 < m2 -> m2 <= 12 -> 1 <= d1 <= days_in_month y m1 ->
  cum_days y m1 + d1 - 1 < cum_days y m2.
Proof.
  intros H1 H2 H3. unfold cum_days, cum_table, days_in_month.
  assert (Hm1 : 1 <= m1 <= 12) by lia. assert (Hm2 : 1 <= m2 <= 12) by lia.
  month_split m1 Hm1; month_split m2 Hm2; try lia; eval_closed; destruct (is_leap y); lia.
Qed.

Lemma cdate_geb_days a b : wf_date a -> wf_date b -> (cdate_geb a b = true <-> days_of b <= days_of a).
Proof.
  intros Ha Hb. pose proof (days_in_year a Ha) as Ba. pose proof (days_in_year b Hb) as Bb.
  unfold cdate_geb.
  destruct (c_year a =? c_year b) eqn:Ey; cbn [negb].
  - assert (Ey' : c_year a = c_year b) by lia.
    destruct Ha as [Ham Had], Hb as [Hbm Hbd]. unfold days_of in *.
    rewrite (days_ymd _ (c_month a)), (days_ymd _ (c_month b)) by assumption. rewrite <- Ey' in *.
    destruct (c_month a =? c_month b) eqn:Em; cbn [negb].
    + assert (Em' : c_month a = c_month b) by lia. rewrite Em'. lia.
    + destruct (Z_lt_le_dec (c_month a) (c_month b)) as [L|L].
      * pose proof (cum_days_mono (c_year a) (c_month a) (c_month b) (c_day a) ltac:(lia) L ltac:(lia) Had). lia.
      * pose proof (cum_days_mono (c_year a) (c_month b) (c_month a) (c_day b) ltac:(lia) ltac:(lia) ltac:(lia) Hbd). lia.
  - destruct (Z_lt_le_dec (c_year a) (c_year b)) as [L|L].
    + pose proof (year_start_mono (c_year a + 1) (c_year b) ltac:(lia)). lia.
    + pose proof (year_start_mono (c_year b + 1) (c_year a) ltac:(lia)). lia.
Qed.

(* ---- weekday ---- *)
Lemma weekday_range c : 1 <= weekday c <= 7.
Proof. unfold weekday. pose proof (Z.mod_pos_bound (days_of c + 3) 7 ltac:(lia)). lia. Qed.

Lemma weekday_next c : wf_date c -> weekday (next_day c) = weekday c mod 7 + 1.
Proof. intros Hw. unfold weekday. rewrite days_next by exact Hw. Z.div_mod_to_equations; lia. Qed.

Lemma weekday_epoch : weekday (mk 1970 1 1) = 4.
Proof. reflexivity. Qed.

(* day number of the Monday of the week (Monday..Sunday) a date lies in *)
Definition monday_of (c : cdate) : Z := days_of c - (weekday c - 1).

Lemma monday_of_spec c : monday_of c <= days_of c <= monday_of c + 6 /\ (monday_of c + 3) mod 7 = 0.
Proof. unfold monday_of, weekday. Z.div_mod_to_equations; lia. Qed.

(* a Monday is determined by any day of its week *)
Lemma monday_unique M z : (M + 3) mod 7 = 0 -> M <= z <= M + 6 -> M = z - (z + 3) mod 7.
Proof. Z.div_mod_to_equations; lia. Qed.

(* ---- ISO weeks ---- *)
(* Monday of the week that contains January 4th *)
Definition week1_monday (y : Z) : Z := monday_of (mk y 1 4).

Lemma week1_monday_bounds y :
  days_from_civil y 1 1 - 3 <= week1_monday y <= days_from_civil y 1 1 + 3 /\ (week1_monday y + 3) mod 7 = 0.
Proof.
  unfold week1_monday. pose proof (monday_of_spec (mk y 1 4)) as H. unfold monday_of, weekday, days_of, mk in *.
  cbn [c_year c_month c_day] in *. rewrite (days_day y 1 4) in *. lia.
Qed.

Lemma iso_week_char c : wf_date c ->
  let y := fst (iso_week c) in let w := snd (iso_week c) in
  week1_monday y <= monday_of c < week1_monday (y + 1) /\ monday_of c = week1_monday y + 7 * (w - 1).
Proof.
  intros Hw. unfold iso_week. cbv zeta. cbn [fst snd].
  replace (days_of c + (4 - weekday c)) with (monday_of c + 3) by (unfold monday_of; lia).
  pose proof (monday_of_spec c) as [_ HM]. set (M := monday_of c) in *. clearbody M.
  destruct (days_cfd (M + 3)) as [Hwt Hdt]. pose proof (days_in_year _ Hwt) as B. rewrite Hdt in B.
  set (y := c_year (civil_from_days (M + 3))) in *. clearbody y.
  pose proof (week1_monday_bounds y) as [B1 M1]. pose proof (week1_monday_bounds (y + 1)) as [B2 M2].
  set (J := days_from_civil y 1 1) in *. set (J' := days_from_civil (y + 1) 1 1) in *. clearbody J J'.
  set (W := week1_monday y) in *. set (W' := week1_monday (y + 1)) in *. clearbody W W'.
  Z.div_mod_to_equations. lia.
Qed.


(* number of ISO weeks of ISO year y *)
Definition weeks_in_year (y : Z) : Z := (week1_monday (y + 1) - week1_monday y) / 7.

Lemma week1_step y : week1_monday (y + 1) = week1_monday y + 7 * weeks_in_year y /\ 52 <= weeks_in_year y <= 53.
Proof.
  unfold weeks_in_year.
  pose proof (week1_monday_bounds y) as [B1 M1]. pose proof (week1_monday_bounds (y + 1)) as [B2 M2].
  pose proof (year_start_step y) as S. pose proof (year_len_bounds y) as L.
  set (W := week1_monday y) in *. set (W' := week1_monday (y + 1)) in *. clearbody W W'.
  Z.div_mod_to_equations. lia.
Qed.

Lemma week1_mono_aux y n : 0 <= n -> week1_monday y + 364 * n <= week1_monday (y + n).
Proof.
  revert n. apply natlike_ind.
  - replace (y + 0) with y by lia. lia.
  - intros n Hn IH. replace (y + Z.succ n) with (y + n + 1) by lia.
    pose proof (week1_step (y + n)). lia.
Qed.

Lemma week1_mono y1 y2 : y1 <= y2 -> week1_monday y1 + 364 * (y2 - y1) <= week1_monday y2.
Proof. intros H. pose proof (week1_mono_aux y1 (y2 - y1) ltac:(lia)) as A. replace (y1 + (y2 - y1)) with y2 in A by lia. exact A. Qed.

Lemma iso_year_unique M y1 y2 :
  week1_monday y1 <= M < week1_monday (y1 + 1) -> week1_monday y2 <= M < week1_monday (y2 + 1) -> y1 = y2.
Proof.
  intros H1 H2. destruct (Z_lt_le_dec y1 y2) as [L|L].
  - pose proof (week1_mono (y1 + 1) y2 ltac:(lia)). lia.
  - destruct (Z_lt_le_dec y2 y1) as [G|G]; [|lia].
    pose proof (week1_mono (y2 + 1) y1 ltac:(lia)). lia.
Qed.

(* the ISO week of a date from the Monday of its week *)
Lemma iso_week_of_monday c y : wf_date c -> week1_monday y <= monday_of c < week1_monday (y + 1) ->
  iso_week c = (y, (monday_of c - week1_monday y) / 7 + 1).
Proof.
  intros Hw Hy. pose proof (iso_week_char c Hw) as [B E]. cbv zeta in *.
  destruct (iso_week c) as [y' w'] eqn:Ei. cbn [fst snd] in *.
  assert (y' = y) by (eapply iso_year_unique; eassumption). subst y'.
  f_equal. Z.div_mod_to_equations. lia.
Qed.

Lemma iso_week_range c : wf_date c -> 1 <= snd (iso_week c) <= weeks_in_year (fst (iso_week c)).
Proof.
  intros Hw. pose proof (iso_week_char c Hw) as [B E]. cbv zeta in *.
  pose proof (week1_step (fst (iso_week c))) as [S R]. lia.
Qed.

(* all days of one Monday..Sunday week have the same ISO (year, week), and only they *)
Lemma iso_week_same_monday a b : monday_of a = monday_of b -> iso_week a = iso_week b.
Proof.
  intros H. unfold iso_week.
  replace (days_of a + (4 - weekday a)) with (monday_of a + 3) by (unfold monday_of; lia).
  replace (days_of b + (4 - weekday b)) with (monday_of b + 3) by (unfold monday_of; lia).
  rewrite H. reflexivity.
Qed.

Lemma iso_week_inj a b : wf_date a -> wf_date b -> iso_week a = iso_week b -> monday_of a = monday_of b.
Proof.
  intros Ha Hb H. pose proof (iso_week_char a Ha) as [_ Ea]. pose proof (iso_week_char b Hb) as [_ Eb].
  cbv zeta in *. rewrite H in Ea. lia.
Qed.

Lemma iso_week_iff a b : wf_date a -> wf_date b -> (iso_week a = iso_week b <-> monday_of a = monday_of b).
Proof. intros Ha Hb. split; [apply iso_week_inj; assumption | apply iso_week_same_monday]. Qed.

(* week 1 is the week with January 4th *)
Lemma iso_week_jan4 y : iso_week (mk y 1 4) = (y, 1).
Proof.
  assert (Hw : wf_date (mk y 1 4)) by (unfold wf_date, mk; cbn [c_year c_month c_day]; pose proof (dim_bounds y 1); lia).
  rewrite (iso_week_of_monday _ y Hw).
  - fold (week1_monday y). replace (week1_monday y - week1_monday y) with 0 by lia. reflexivity.
  - fold (week1_monday y). pose proof (week1_step y). lia.
Qed.

(* week numbers are consecutive: seven days later is the next week of the same ISO year, or week 1 of the
   next ISO year after week 52 or 53 *)
Lemma monday_plus7 a b : days_of b = days_of a + 7 -> monday_of b = monday_of a + 7.
Proof. intros H. unfold monday_of, weekday. rewrite H. Z.div_mod_to_equations; lia. Qed.

Lemma iso_week_succ_aux a b y w : wf_date b -> monday_of b = monday_of a + 7 ->
  week1_monday y <= monday_of a < week1_monday (y + 1) -> monday_of a = week1_monday y + 7 * (w - 1) ->
  1 <= w <= weeks_in_year y ->
  (w < weeks_in_year y /\ iso_week b = (y, w + 1)) \/ (w = weeks_in_year y /\ iso_week b = (y + 1, 1)).
Proof.
  intros Hb HM B E R.
  pose proof (week1_step y) as [S Rw]. pose proof (week1_step (y + 1)) as [S' Rw'].
  destruct (Z_lt_le_dec w (weeks_in_year y)) as [L|L].
  - left. split; [exact L|]. rewrite (iso_week_of_monday b y Hb) by lia.
    f_equal. rewrite HM, E. replace (week1_monday y + 7 * (w - 1) + 7 - week1_monday y) with (w * 7) by ring.
    rewrite Z.div_mul by lia. reflexivity.
  - right. split; [lia|]. rewrite (iso_week_of_monday b (y + 1) Hb) by lia.
    f_equal. replace (monday_of b - week1_monday (y + 1)) with 0 by lia. reflexivity.
Qed.

Lemma iso_week_succ a b : wf_date a -> wf_date b -> days_of b = days_of a + 7 ->
  (snd (iso_week a) < weeks_in_year (fst (iso_week a)) /\ iso_week b = (fst (iso_week a), snd (iso_week a) + 1)) \/
  (snd (iso_week a) = weeks_in_year (fst (iso_week a)) /\ iso_week b = (fst (iso_week a) + 1, 1)).
Proof.
  intros Ha Hb H. pose proof (iso_week_char a Ha) as [B E].
  apply (iso_week_succ_aux a b); [exact Hb | apply monday_plus7; exact H | exact B | exact E | apply iso_week_range; exact Ha].
Qed.

(* the ISO year of a date is its own year, the one before (early January) or the one after (late December) *)
Lemma iso_year_near c : wf_date c -> c_year c - 1 <= fst (iso_week c) <= c_year c + 1.
Proof.
  intros Hw. pose proof (iso_week_char c Hw) as [B _]. cbv zeta in B.
  set (y := fst (iso_week c)) in *. clearbody y.
  pose proof (monday_of_spec c) as [M _]. pose proof (days_in_year c Hw) as D.
  pose proof (week1_monday_bounds y) as [B1 _]. pose proof (week1_monday_bounds (y + 1)) as [B2 _].
  destruct (Z_lt_le_dec y (c_year c - 1)) as [L|L].
  - pose proof (year_start_mono (y + 1) (c_year c) ltac:(lia)). lia.
  - destruct (Z_lt_le_dec (c_year c + 1) y) as [G|G]; [|lia].
    pose proof (year_start_mono (c_year c + 1) y ltac:(lia)). lia.
Qed.

(* quarter *)
Lemma quarter_spec c : 1 <= c_month c <= 12 -> 1 <= quarter c <= 4 /\ 3 * quarter c - 2 <= c_month c <= 3 * quarter c.
Proof. intros H. unfold quarter. Z.div_mod_to_equations. lia. Qed.
