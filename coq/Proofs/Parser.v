(* Lemmas about Model/Parser.v (C06, C10): the cursor functions never move past the end of the line,
   every error-producing site reports a line of the block and a span inside that line (at most one past
   its end), errors come in ascending line order, parse_record never crashes on a block of the splitter. *)
From Klog Require Import Base.Prelude Base.Utf8 Model.Calendar Model.Values Model.Record Model.Lines Model.Parser.
From Klog Require Import Proofs.Lines.
From Coq Require Import ZifyBool Sorted.
Open Scope nat_scope.

(* ================= cursor functions ================= *)

Lemma until_spec p cs a m : until p cs = (a, m) ->
  Forall (fun c => p c = false) a /\
  (if m then exists c r, cs = a ++ c :: r /\ p c = true else cs = a).
Proof.
  revert a m; induction cs as [|c r IH]; intros a m H; cbn [until] in H.
  - injection H as <- <-. split; [constructor|reflexivity].
  - destruct (p c) eqn:E.
    + injection H as <- <-. split; [constructor|]. exists c, r. split; [reflexivity|exact E].
    + destruct (until p r) as [a' m'] eqn:E'. injection H as <- <-.
      destruct (IH _ _ eq_refl) as [H1 H2]. split; [constructor; assumption|].
      destruct m'.
      * destruct H2 as (c' & r' & -> & Hc). exists c', r'. split; [reflexivity|exact Hc].
      * subst r. reflexivity.
Qed.

Lemma until_length p cs : length (fst (until p cs)) <= length cs.
Proof.
  destruct (until p cs) as [a m] eqn:E. apply until_spec in E as [_ H]. cbn [fst].
  destruct m; [destruct H as (c & r & -> & _); rewrite app_length; lia|subst; lia].
Qed.

Lemma peek_skipn cs pos i : peek cs (pos + i) = nth i (skipn pos cs) rune_error.
Proof.
  unfold peek. revert cs; induction pos as [|k IH]; intros cs; [reflexivity|].
  destruct cs as [|c cs]; cbn [skipn Nat.add nth]; [destruct i; reflexivity|apply IH].
Qed.

Lemma peek_overflow cs p : length cs <= p -> peek cs p = rune_error.
Proof. intros H. apply nth_overflow. exact H. Qed.

Lemma peek_neq_lt cs p : peek cs p <> rune_error -> p < length cs.
Proof. intros H. destruct (Nat.lt_ge_cases p (length cs)) as [Hlt|Hge]; [exact Hlt|]. elim H. apply peek_overflow; exact Hge. Qed.

Lemma peek_eqb_lt cs p c : (peek cs p =? c)%N = true -> c <> rune_error -> p < length cs.
Proof. intros H Hc. apply N.eqb_eq in H. apply peek_neq_lt. congruence. Qed.

Lemma peek_space_lt cs p : is_space_or_tab (peek cs p) = true -> p < length cs.
Proof.
  intros H. apply peek_neq_lt. intros E. rewrite E in H. discriminate H.
Qed.

(* PeekUntil: the candidate lies inside the line; when the stop character was found it sits right after *)
Lemma peek_until_spec p cs pos a m : peek_until p cs pos = (a, m) -> pos <= length cs ->
  pos + length a <= length cs /\
  (m = true -> pos + length a < length cs /\ p (peek cs (pos + length a)) = true) /\
  (m = false -> pos + length a = length cs) /\
  Forall (fun c => p c = false) a /\
  (m = true -> exists c r, skipn pos cs = a ++ c :: r /\ p c = true).
Proof.
  unfold peek_until. intros H Hpos. apply until_spec in H as [Hall H].
  pose proof (skipn_length pos cs) as Hl.
  destruct m.
  - destruct H as (c & r & Hs & Hc). rewrite Hs, app_length in Hl. cbn [length] in Hl.
    split; [lia|]. split; [|split; [discriminate|split; [exact Hall|]]].
    + intros _. split; [lia|]. rewrite peek_skipn, Hs, nth_middle. exact Hc.
    + intros _. exists c, r. split; [exact Hs|exact Hc].
  - rewrite H in Hl. split; [lia|]. split; [discriminate|]. split; [intros _; lia|]. split; [exact Hall|discriminate].
Qed.

Lemma count_while_le p cs : count_while p cs <= length cs.
Proof. induction cs as [|c r IH]; cbn [count_while length]; [lia|]. destruct (p c); lia. Qed.

Lemma count_while_stop p cs k : k < length cs -> p (nth k cs rune_error) = false -> count_while p cs <= k.
Proof.
  revert k; induction cs as [|c r IH]; intros k Hk Hp; cbn [length] in Hk; [lia|].
  cbn [count_while]. destruct k as [|k]; cbn [nth] in Hp.
  - rewrite Hp. lia.
  - destruct (p c); [|lia]. specialize (IH k ltac:(lia) Hp). lia.
Qed.

(* SkipWhile never moves backwards nor past the end *)
Lemma skip_while_bounds p cs pos : pos <= length cs -> pos <= skip_while p cs pos <= length cs.
Proof.
  intros H. unfold skip_while. pose proof (count_while_le p (skipn pos cs)) as Hc.
  rewrite skipn_length in Hc. lia.
Qed.

(* ... and stops at the latest at a character that does not satisfy the predicate *)
Lemma skip_while_stop p cs pos k : pos <= k -> k < length cs -> p (peek cs k) = false ->
  skip_while p cs pos <= k.
Proof.
  intros H1 H2 H3. unfold skip_while.
  replace k with (pos + (k - pos)) in H3 by lia. rewrite peek_skipn in H3.
  pose proof (count_while_stop p (skipn pos cs) (k - pos)) as Hc.
  rewrite skipn_length in Hc. specialize (Hc ltac:(lia) H3). lia.
Qed.

(* two ways of cutting the same list at a marker *)
Lemma two_splits {A} (a1 a2 : list A) c1 c2 r1 r2 :
  a1 ++ c1 :: r1 = a2 ++ c2 :: r2 -> ~ In c1 a2 -> c1 <> c2 -> length a2 < length a1.
Proof.
  revert a2; induction a1 as [|x a1 IH]; intros a2 H Hn Hc.
  - destruct a2 as [|y a2]; cbn [app] in H; injection H as H1 H2.
    + congruence.
    + elim Hn. left. congruence.
  - destruct a2 as [|y a2]; cbn [app] in H; [cbn [length]; lia|]. injection H as H1 H2.
    cbn [length]. apply IH in H2; [lia| |exact Hc]. intros Hin. apply Hn. right. exact Hin.
Qed.

(* ================= durations contain no ')' ================= *)

Definition dur_char (c : N) : bool :=
  is_digit c || (c =? ch_h)%N || (c =? ch_m)%N || (c =? ch_minus)%N || (c =? ch_plus)%N.

Lemma span_fst_forallb {A} (p : A -> bool) l : forallb p (fst (span p l)) = true.
Proof.
  induction l as [|x r IH]; cbn [span]; [reflexivity|].
  destruct (p x) eqn:E; [|reflexivity]. destruct (span p r) as [a b]. cbn [fst forallb] in *. rewrite E, IH. reflexivity.
Qed.

Lemma digits_dur_chars l : forallb is_digit l = true -> forallb dur_char l = true.
Proof.
  intros H. rewrite forallb_forall in *. intros x Hx. unfold dur_char. rewrite (H x Hx). reflexivity.
Qed.

Lemma match_duration_rest_chars sg s1 m :
  (let '(ds1, r1) := span is_digit s1 in
   match ds1, r1 with
   | [], [] => Some {| dm_sign := sg; dm_h := []; dm_m := [] |}
   | [], _ => None
   | _, c :: r2 =>
     if (c =? ch_h)%N then
       let '(ds2, r3) := span is_digit r2 in
       match ds2, r3 with
       | [], [] => Some {| dm_sign := sg; dm_h := ds1; dm_m := [] |}
       | [], _ => None
       | _, [c2] => if (c2 =? ch_m)%N then Some {| dm_sign := sg; dm_h := ds1; dm_m := ds2 |} else None
       | _, _ => None
       end
     else if (c =? ch_m)%N then
       match r2 with
       | [] => Some {| dm_sign := sg; dm_h := []; dm_m := ds1 |}
       | _ => None
       end
     else None
   | _, [] => None
   end) = Some m -> forallb dur_char s1 = true.
Proof.
  pose proof (span_app is_digit s1) as Happ. pose proof (span_fst_forallb is_digit s1) as Hd.
  destruct (span is_digit s1) as [ds1 r1]. cbn [fst snd] in *. subst s1.
  apply digits_dur_chars in Hd. rewrite forallb_app, Hd. cbn [andb].
  destruct ds1 as [|d ds1].
  - destruct r1; [reflexivity|discriminate].
  - destruct r1 as [|c r2]; [discriminate|].
    cbn [forallb].
    destruct (c =? ch_h)%N eqn:Eh.
    + pose proof (span_app is_digit r2) as Happ2. pose proof (span_fst_forallb is_digit r2) as Hd2.
      destruct (span is_digit r2) as [ds2 r3]. cbn [fst snd] in *. subst r2.
      apply digits_dur_chars in Hd2. rewrite forallb_app, Hd2.
      unfold dur_char at 1. rewrite Eh, !orb_true_r. cbn [andb].
      destruct ds2 as [|d2 ds2].
      * destruct r3; [reflexivity|discriminate].
      * destruct r3 as [|c2 [|c3 r4]]; try discriminate.
        destruct (c2 =? ch_m)%N eqn:Em; [|discriminate]. intros _.
        cbn [forallb]. unfold dur_char. rewrite Em, !orb_true_r. reflexivity.
    + destruct (c =? ch_m)%N eqn:Em; [|discriminate].
      destruct r2; [|discriminate]. intros _.
      unfold dur_char. rewrite Em, !orb_true_r. reflexivity.
Qed.

Lemma match_duration_chars s m : match_duration s = Some m -> forallb dur_char s = true.
Proof.
  unfold match_duration. destruct s as [|x r].
  - intros _. reflexivity.
  - destruct ((x =? ch_minus)%N || (x =? ch_plus)%N) eqn:E.
    + intros H. apply match_duration_rest_chars in H. cbn [forallb]. rewrite H, andb_true_r.
      unfold dur_char. apply orb_true_iff in E as [E|E]; rewrite E, ?orb_true_r; reflexivity.
    + apply match_duration_rest_chars.
Qed.

Lemma encode_contains_rpar rs : In ch_rpar rs -> In ch_rpar (str rs).
Proof.
  intros H. unfold str, utf8_encode. apply in_flat_map. exists ch_rpar. split; [exact H|left; reflexivity].
Qed.

Lemma duration_no_rpar rs d : parser_duration (str rs) = Some d -> ~ In ch_rpar rs.
Proof.
  unfold parser_duration, parse_duration. intros H Hin.
  destruct (match_duration (str rs)) as [m|] eqn:E; [|discriminate].
  apply match_duration_chars in E. rewrite forallb_forall in E.
  specialize (E _ (encode_contains_rpar _ Hin)). discriminate E.
Qed.

(* ================= ASCII prefixes decode to themselves ================= *)

Lemma utf8_decode_ascii_cons c r : (c < 128)%N -> utf8_decode (c :: r) = c :: utf8_decode r.
Proof.
  intros H. unfold utf8_decode, decode_widths. cbn [length decode_fuel].
  unfold decode_rune. destruct (c <? 128)%N eqn:E; [|lia]. reflexivity.
Qed.

Lemma has_prefix_decode_length style t : Forall (fun c => (c < 128)%N) style -> has_prefix style t = true ->
  length style <= length (utf8_decode t).
Proof.
  intros Ha H. apply has_prefix_spec in H as [r ->].
  induction Ha as [|c style Hc Ha IH]; cbn [app length]; [lia|].
  rewrite utf8_decode_ascii_cons by exact Hc. cbn [length]. lia.
Qed.

Lemma indentations_ascii st : In st indentations -> Forall (fun c => (c < 128)%N) st.
Proof.
  unfold indentations. intros [<-|[<-|[<-|[<-|[]]]]]; repeat constructor.
Qed.

Lemma find_indentation_in s st : find_indentation s = Some st -> In st indentations.
Proof. unfold find_indentation. intros H. apply find_some in H as [H _]. exact H. Qed.

(* ================= spans ================= *)

(* a span inside a line of n runes, at most one past its end *)
Definition span_ok (n : nat) (e : perr) : Prop :=
  (0 <= pe_pos e /\ 0 <= pe_len e /\ pe_pos e + pe_len e <= Z.of_nat n + 1)%Z.

Definition at_line (ln n : nat) (e : perr) : Prop := pe_line e = ln /\ span_ok n e.

Lemma at_line_mk ln n pos len c : (0 <= pos)%Z -> (0 <= len)%Z -> (pos + len <= Z.of_nat n + 1)%Z ->
  at_line ln n (mk_err ln pos len c).
Proof. intros H1 H2 H3. split; [reflexivity|]. unfold span_ok; cbn [mk_err pe_pos pe_len]. lia. Qed.

(* ---- headline ---- *)
Definition headline_ok (ln n : nat) (r : headline_result) : Prop :=
  match r with
  | HeadNone e => at_line ln n e
  | HeadRec _ _ es => Forall (at_line ln n) es
  end.

Lemma after_props_ok ln cs d should p : p <= length cs ->
  headline_ok ln (length cs)
    (let p := skip_while is_space_or_tab cs p in
     if (Z.of_nat p <? zlen cs)%Z
     then HeadRec d should [mk_err ln (Z.of_nat p) (zlen cs - Z.of_nat p) ErrorUnrecognisedTextInHeadline]
     else HeadRec d should []).
Proof.
  intros Hp. pose proof (skip_while_bounds is_space_or_tab cs p Hp) as Hb.
  cbv zeta. unfold zlen. destruct (_ <? _)%Z eqn:E; cbn [headline_ok]; [|constructor].
  constructor; [|constructor]. apply at_line_mk; lia.
Qed.

Lemma parse_headline_ok ln cs : headline_ok ln (length cs) (parse_headline ln cs).
Proof.
  unfold parse_headline.
  destruct (is_space_or_tab (peek cs 0)) eqn:E0.
  { cbn [headline_ok]. apply at_line_mk; unfold zlen; lia. }
  destruct (peek_until is_space_or_tab cs 0) as [date_text m0] eqn:Edt.
  apply peek_until_spec in Edt as (Hdt & _); [|lia].
  destruct (parse_date (str date_text)) as [d| |]; [|cbn [headline_ok]; apply at_line_mk; unfold zlen; lia ..].
  pose proof (skip_while_bounds is_space_or_tab cs (length date_text) ltac:(lia)) as Hp.
  set (p := skip_while is_space_or_tab cs (length date_text)) in *.
  destruct (peek cs p =? ch_lpar)%N eqn:Elp; [|apply after_props_ok; lia].
  apply peek_eqb_lt in Elp; [|discriminate].
  pose proof (skip_while_bounds is_space_or_tab cs (S p) ltac:(lia)) as Hq.
  set (q := skip_while is_space_or_tab cs (S p)) in *.
  destruct (peek_until (fun c => (c =? ch_rpar)%N) cs q) as [all_props has_close] eqn:Eap.
  apply peek_until_spec in Eap as (Hap1 & Hap2 & Hap3 & Hap4 & Hap5); [|lia].
  destruct has_close; cbn [negb].
  2:{ cbn [headline_ok]. constructor; [|constructor]. apply at_line_mk; unfold zlen; lia. }
  destruct (Hap2 eq_refl) as [Hap2a Hap2b]. destruct (Hap5 eq_refl) as (c1 & r1 & Hs1 & Hc1). clear Hap2 Hap3 Hap5.
  destruct (Nat.eqb (length all_props) 0) eqn:Elen.
  { cbn [headline_ok]. constructor; [|constructor]. apply at_line_mk; lia. }
  apply Nat.eqb_neq in Elen.
  destruct (peek_until (fun c => (c =? ch_excl)%N) cs q) as [st_text has_excl] eqn:Est.
  apply peek_until_spec in Est as (Hst1 & Hst2 & Hst3 & Hst4 & Hst5); [|lia].
  destruct has_excl; cbn [negb].
  2:{ cbn [headline_ok]. constructor; [|constructor]. specialize (Hst3 eq_refl). apply at_line_mk; unfold zlen; lia. }
  destruct (Hst2 eq_refl) as [Hst2a Hst2b]. destruct (Hst5 eq_refl) as (c2 & r2 & Hs2 & Hc2). clear Hst2 Hst3 Hst5.
  destruct (parser_duration (str st_text)) as [dur|] eqn:Edur.
  2:{ cbn [headline_ok]. constructor; [|constructor]. apply at_line_mk; unfold zlen; lia. }
  (* the closing parenthesis comes after the exclamation mark *)
  apply duration_no_rpar in Edur. apply N.eqb_eq in Hc1, Hc2. subst c1 c2.
  assert (Hlt : length st_text < length all_props).
  { rewrite Hs1 in Hs2. apply (two_splits _ _ _ _ _ _ Hs2 Edur). discriminate. }
  set (p3 := q + length st_text + 1).
  assert (Hp4 : p3 <= skip_while is_space_or_tab cs p3 <= q + length all_props).
  { split; [apply skip_while_bounds; lia|]. apply skip_while_stop; [lia|lia|].
    apply N.eqb_eq in Hap2b. rewrite Hap2b. reflexivity. }
  set (p4 := skip_while is_space_or_tab cs p3) in *.
  destruct (peek cs p4 =? ch_rpar)%N eqn:Erp; cbn [negb].
  2:{ cbn [headline_ok]. constructor; [|constructor]. apply at_line_mk; unfold zlen; lia. }
  apply after_props_ok. lia.
Qed.

(* ---- entry value ---- *)
Definition entry_value_ok (ln n p0 : nat) (r : entry_value_result) : Prop :=
  match r with
  | EvErr e => at_line ln n e
  | EvDur _ p => p0 <= p <= n
  | EvRange _ p => p0 <= p <= n
  | EvOpen _ sp p => sp = p0 /\ p0 <= p <= n
  end.

Lemma parse_entry_value_ok ln cs p0 : p0 <= length cs ->
  entry_value_ok ln (length cs) p0 (parse_entry_value ln cs p0).
Proof.
  intros Hp0. unfold parse_entry_value.
  destruct (peek_until is_space_or_tab cs p0) as [dur_cand m0] eqn:Edc.
  apply peek_until_spec in Edc as (Hdc & _); [|lia].
  destruct (parser_duration (str dur_cand)) as [d|]; [cbn [entry_value_ok]; lia|].
  destruct (peek_until is_dash_or_space cs p0) as [start_cand m1] eqn:Esc.
  apply peek_until_spec in Esc as (Hsc & _); [|lia].
  destruct (Nat.eqb (length start_cand) 0); [cbn [entry_value_ok]; apply at_line_mk; unfold zlen; lia|].
  destruct (parse_time (str start_cand)) as [start| |];
    [|cbn [entry_value_ok]; apply at_line_mk; unfold zlen; lia ..].
  set (p1 := p0 + length start_cand) in *.
  pose proof (skip_while_bounds is_space cs p1 ltac:(lia)) as Hp2.
  set (p2 := skip_while is_space cs p1) in *.
  destruct (peek cs p2 =? ch_minus)%N eqn:Em; cbn [negb];
    [|cbn [entry_value_ok]; apply at_line_mk; lia].
  apply peek_eqb_lt in Em; [|discriminate].
  pose proof (skip_while_bounds is_space cs (S p2) ltac:(lia)) as Hp3.
  set (p3 := skip_while is_space cs (S p2)) in *.
  destruct (peek cs p3 =? ch_q)%N eqn:Eq.
  - apply peek_eqb_lt in Eq; [|discriminate].
    destruct (peek_until is_space_or_tab cs (S p3)) as [rep m2] eqn:Erep.
    apply peek_until_spec in Erep as (Hrep & _); [|lia].
    destruct (forallb _ rep); cbn [entry_value_ok]; [lia|apply at_line_mk; unfold zlen; lia].
  - destruct (peek_until is_space_or_tab cs p3) as [end_cand m2] eqn:Eec.
    apply peek_until_spec in Eec as (Hec & _); [|lia].
    destruct (Nat.eqb (length end_cand) 0); [cbn [entry_value_ok]; apply at_line_mk; lia|].
    destruct (parse_time (str end_cand)) as [e| |];
      [|cbn [entry_value_ok]; apply at_line_mk; unfold zlen; lia ..].
    destruct (new_range start e _) as [r| |]; cbn [entry_value_ok]; [lia|apply at_line_mk; lia ..].
Qed.

(* ================= errors inside a block ================= *)

(* the error names a line of [all] and a span inside that line *)
Definition err_ok (all : list line) (e : perr) : Prop :=
  exists l, nth_error all (pe_line e) = Some l /\ span_ok (length (utf8_decode (l_text l))) e.

(* [ls] are the lines of [all] from index [ln] on (possibly not up to the end) *)
Definition located (all : list line) (ln : nat) (ls : list line) : Prop :=
  forall i l, nth_error ls i = Some l -> nth_error all (ln + i) = Some l.

Lemma located_cons all ln l r : located all ln (l :: r) -> nth_error all ln = Some l /\ located all (S ln) r.
Proof.
  intros H. split.
  - specialize (H 0 l eq_refl). rewrite Nat.add_0_r in H. exact H.
  - intros i x Hx. specialize (H (S i) x Hx). rewrite Nat.add_succ_r in H. exact H.
Qed.

Lemma located_nil all ln : located all ln [].
Proof. intros i l H. destruct i; discriminate H. Qed.

Definition line_le (a b : perr) : Prop := pe_line a <= pe_line b.

(* the errors collected so far: all fine, all on lines lo .. ln-1, in ascending order *)
Definition good (all : list line) (lo ln : nat) (errs : list perr) : Prop :=
  lo <= ln /\ Forall (err_ok all) errs /\ Forall (fun e => lo <= pe_line e < ln) errs /\ StronglySorted line_le errs.

Lemma sorted_snoc {A} (R : A -> A -> Prop) l e : StronglySorted R l -> Forall (fun a => R a e) l ->
  StronglySorted R (l ++ [e]).
Proof.
  intros Hs Hf. induction Hs as [|a l Hs IH Ha]; cbn [app].
  - constructor; constructor.
  - inversion Hf as [|? ? Hae Hf']; subst. constructor; [exact (IH Hf')|].
    apply Forall_app. split; [exact Ha|constructor; [exact Hae|constructor]].
Qed.

Lemma good_nil all lo ln : lo <= ln -> good all lo ln [].
Proof. intros H. split; [exact H|]. repeat split; constructor. Qed.

Lemma good_mono all lo ln ln2 errs : good all lo ln errs -> ln <= ln2 -> good all lo ln2 errs.
Proof.
  intros (H0 & H1 & H2 & H3) Hle. split; [lia|]. split; [exact H1|]. split; [|exact H3].
  eapply Forall_impl; [|exact H2]. cbn. intros; lia.
Qed.

Lemma good_snoc all lo ln ln2 errs e : good all lo ln errs -> err_ok all e -> ln <= pe_line e < ln2 ->
  good all lo ln2 (errs ++ [e]).
Proof.
  intros (H0 & H1 & H2 & H3) He Hln. split; [lia|]. split; [|split].
  - apply Forall_app. split; [exact H1|constructor; [exact He|constructor]].
  - apply Forall_app. split; [|constructor; [lia|constructor]].
    eapply Forall_impl; [|exact H2]. cbn. intros; lia.
  - apply sorted_snoc; [exact H3|]. eapply Forall_impl; [|exact H2]. unfold line_le. cbn. intros; lia.
Qed.

Lemma at_line_err_ok all ln l e : nth_error all ln = Some l -> at_line ln (length (utf8_decode (l_text l))) e ->
  err_ok all e /\ pe_line e = ln.
Proof. intros Hn [Hl Hs]. split; [|exact Hl]. exists l. rewrite Hl. split; assumption. Qed.

Lemma whole_line_err_ok all ln l c : nth_error all ln = Some l ->
  err_ok all (mk_err ln 0 (zlen (utf8_decode (l_text l))) c).
Proof.
  intros Hn. apply (at_line_err_ok all ln l); [exact Hn|]. apply at_line_mk; unfold zlen; lia.
Qed.

(* ---- continuation lines of an entry summary ---- *)
Lemma parse_entry_summary_more_ok all style : forall ls ln acc acc' serr rest' ln',
  parse_entry_summary_more style ln ls acc = (acc', serr, rest', ln') ->
  located all ln ls ->
  located all ln' rest' /\ ln <= ln' /\
  match serr with Some e => err_ok all e /\ ln <= pe_line e < ln' | None => True end.
Proof.
  induction ls as [|l rest IH]; intros ln acc acc' serr rest' ln' H Hloc; cbn [parse_entry_summary_more] in H.
  - injection H as <- <- <- <-. split; [apply located_nil|]. split; [lia|exact I].
  - destruct (located_cons _ _ _ _ Hloc) as [Hl Hrest].
    destruct (has_prefix (style ++ style) (l_text l)).
    + destruct (_ || _).
      * injection H as <- <- <- <-. split; [exact Hrest|]. split; [lia|].
        split; [apply whole_line_err_ok; exact Hl|cbn [mk_err pe_line]; lia].
      * apply IH in H; [|exact Hrest]. destruct H as (H1 & H2 & H3). split; [exact H1|]. split; [lia|].
        destruct serr; [|exact I]. destruct H3 as [H3 H4]. split; [exact H3|lia].
    + injection H as <- <- <- <-. split; [exact Hloc|]. split; [lia|exact I].
Qed.

(* ---- entries ---- *)
Lemma parse_entries_ok all lo style : Forall (fun c => (c < 128)%N) style ->
  forall fuel ln ls es errs es' errs',
  parse_entries fuel style ln ls es errs = (es', errs') ->
  located all ln ls -> good all lo ln errs -> exists ln', good all lo ln' errs'.
Proof.
  intros Hst. induction fuel as [|k IH]; intros ln ls es errs es' errs' H Hloc Hg; cbn [parse_entries] in H.
  { injection H as <- <-. exists ln; exact Hg. }
  destruct ls as [|l rest]. { injection H as <- <-. exists ln; exact Hg. }
  destruct (located_cons _ _ _ _ Hloc) as [Hl Hrest].
  set (cs := utf8_decode (l_text l)) in *.
  destruct (negb (has_prefix style (l_text l)) || is_space_or_tab (peek cs (length style))) eqn:Eind.
  { injection H as <- <-. exists (S ln). apply (good_snoc all lo ln); [exact Hg| |cbn [mk_err pe_line]; lia].
    apply whole_line_err_ok; exact Hl. }
  apply orb_false_iff in Eind as [Epre _]. apply negb_false_iff in Epre.
  pose proof (has_prefix_decode_length _ _ Hst Epre) as Hp0. fold cs in Hp0.
  pose proof (parse_entry_value_ok ln cs (length style) Hp0) as Hev.
  destruct (parse_entry_value ln cs (length style)) as [e|d pos|r pos|o sp pos]; cbn [entry_value_ok] in Hev.
  - (* value error *)
    apply IH in H; [exact H|exact Hrest|].
    destruct (at_line_err_ok all ln l e Hl Hev) as [He Hle].
    apply (good_snoc all lo ln); [exact Hg|exact He|lia].
  - destruct (parse_entry_summary_more style (S ln) rest _) as [[[summary serr] rest'] ln'] eqn:Esm.
    apply (parse_entry_summary_more_ok all) in Esm as (Hloc' & Hln' & Hserr); [|exact Hrest].
    destruct serr as [e|].
    + destruct Hserr as [He Hle]. apply IH in H; [exact H|exact Hloc'|].
      apply (good_snoc all lo ln); [exact Hg|exact He|lia].
    + apply IH in H; [exact H|exact Hloc'|]. apply (good_mono all lo ln); [exact Hg|lia].
  - destruct (parse_entry_summary_more style (S ln) rest _) as [[[summary serr] rest'] ln'] eqn:Esm.
    apply (parse_entry_summary_more_ok all) in Esm as (Hloc' & Hln' & Hserr); [|exact Hrest].
    destruct serr as [e|].
    + destruct Hserr as [He Hle]. apply IH in H; [exact H|exact Hloc'|].
      apply (good_snoc all lo ln); [exact Hg|exact He|lia].
    + apply IH in H; [exact H|exact Hloc'|]. apply (good_mono all lo ln); [exact Hg|lia].
  - destruct (parse_entry_summary_more style (S ln) rest _) as [[[summary serr] rest'] ln'] eqn:Esm.
    apply (parse_entry_summary_more_ok all) in Esm as (Hloc' & Hln' & Hserr); [|exact Hrest].
    destruct serr as [e|].
    + destruct Hserr as [He Hle]. apply IH in H; [exact H|exact Hloc'|].
      apply (good_snoc all lo ln); [exact Hg|exact He|lia].
    + destruct (has_open_entry es).
      * apply IH in H; [exact H|exact Hloc'|].
        apply (good_snoc all lo ln); [exact Hg| |cbn [mk_err pe_line]; lia].
        apply (at_line_err_ok all ln l); [exact Hl|]. fold cs.
        destruct Hev as [-> Hpos].
        destruct (is_space_or_tab (peek cs pos)) eqn:Esp.
        -- apply peek_space_lt in Esp. apply at_line_mk; lia.
        -- apply at_line_mk; lia.
      * apply IH in H; [exact H|exact Hloc'|]. apply (good_mono all lo ln); [exact Hg|lia].
Qed.

(* ---- record summary lines ---- *)
Lemma parse_summary_lines_ok all lo : forall ls ln acc errs summary errs' style rest1 ln1,
  parse_summary_lines ln ls acc errs = (summary, errs', style, rest1, ln1) ->
  located all ln ls -> good all lo ln errs ->
  located all ln1 rest1 /\ good all lo ln1 errs' /\ (forall st, style = Some st -> In st indentations).
Proof.
  induction ls as [|l rest IH]; intros ln acc errs summary errs' style rest1 ln1 H Hloc Hg;
    cbn [parse_summary_lines] in H.
  - injection H as <- <- <- <- <-. split; [apply located_nil|]. split; [exact Hg|discriminate].
  - destruct (located_cons _ _ _ _ Hloc) as [Hl Hrest].
    destruct (find_indentation (l_text l)) as [st|] eqn:Efi.
    + injection H as <- <- <- <- <-. split; [exact Hloc|]. split; [exact Hg|].
      intros st' [= <-]. exact (find_indentation_in _ _ Efi).
    + match type of H with (if ?c then _ else _) = _ => destruct c end.
      * apply IH in H; [exact H|exact Hrest|].
        apply (good_snoc all lo ln); [exact Hg| |cbn [mk_err pe_line]; lia]. apply whole_line_err_ok; exact Hl.
      * apply IH in H; [exact H|exact Hrest|]. apply (good_mono all lo ln); [exact Hg|lia].
Qed.

(* ================= one block ================= *)

Lemma headline_errs_good all ln l es : nth_error all ln = Some l ->
  Forall (at_line ln (length (utf8_decode (l_text l)))) es -> good all ln (S ln) es.
Proof.
  intros Hl H. induction H as [|e es He H IH]; [apply good_nil; lia|].
  destruct IH as (I0 & I1 & I2 & I3). destruct (at_line_err_ok all ln l e Hl He) as [Hok Hln].
  split; [exact I0|]. repeat split; constructor; try assumption; [lia|].
  eapply Forall_impl; [|exact H]. intros a [Ha _]. unfold line_le. lia.
Qed.

(* the error names a SIGNIFICANT line of [all] and a span inside that line *)
Definition err_ok_sig (all : list line) (e : perr) : Prop :=
  exists l, nth_error all (pe_line e) = Some l /\ is_blank l = false /\
            span_ok (length (utf8_decode (l_text l))) e.

Lemma err_ok_sig_ok all e : err_ok_sig all e -> err_ok all e.
Proof. intros (l & H1 & _ & H2). exists l. split; assumption. Qed.

Definition record_result_ok (b : block) (r : record + list perr) : Prop :=
  match r with
  | inl _ => True
  | inr errs => errs <> [] /\ Forall (err_ok_sig (b_lines b)) errs /\ StronglySorted line_le errs
  end.

Lemma parse_record_ok b head sig tail : shape (b_lines b) head sig tail ->
  exists r, parse_record b = Ok r /\ record_result_ok b r.
Proof.
  intros Hsh. unfold parse_record. rewrite (shape_significant_lines b head sig tail Hsh).
  destruct Hsh as (Hb & Hne & _ & Hsig & _). destruct sig as [|hl rest]; [congruence|].
  (* the parser only ever looks at head ++ sig *)
  set (all := head ++ hl :: rest).
  set (lo := length head).
  assert (Hloc : located all lo (hl :: rest)).
  { intros i l Hi. unfold all, lo. rewrite nth_error_app2 by lia. replace (_ + i - _) with i by lia. exact Hi. }
  destruct (located_cons _ _ _ _ Hloc) as [Hhl Hrest].
  pose proof (parse_headline_ok lo (utf8_decode (l_text hl))) as Hh.
  assert (Hg0 : exists d should errs0,
     match parse_headline lo (utf8_decode (l_text hl)) with
     | HeadNone e => (dummy_date, None, [e])
     | HeadRec d s es => (d, s, es)
     end = (d, should, errs0) /\ good all lo (S lo) errs0).
  { destruct (parse_headline _ _) as [e|d s es]; cbn [headline_ok] in Hh.
    - exists dummy_date, None, [e]. split; [reflexivity|]. apply (headline_errs_good all _ hl); [exact Hhl|].
      constructor; [exact Hh|constructor].
    - exists d, s, es. split; [reflexivity|]. apply (headline_errs_good all _ hl); [exact Hhl|exact Hh]. }
  destruct Hg0 as (d & should & errs0 & -> & Hg0).
  destruct (parse_summary_lines (S lo) rest [] errs0) as [[[[summary errs1] style] rest1] ln1] eqn:Esl.
  apply (parse_summary_lines_ok all lo) in Esl as (Hloc1 & Hg1 & Hst); [|exact Hrest|exact Hg0].
  assert (Hg2 : exists entries errs2 ln2,
     match style with
     | Some st => parse_entries (length rest1) st ln1 rest1 [] errs1
     | None => ([], errs1)
     end = (entries, errs2) /\ good all lo ln2 errs2).
  { destruct style as [st|].
    - destruct (parse_entries (length rest1) st ln1 rest1 [] errs1) as [entries errs2] eqn:Epe.
      apply (parse_entries_ok all lo st) in Epe as [ln2 Hg2]; [|apply indentations_ascii; apply Hst; reflexivity|exact Hloc1|exact Hg1].
      exists entries, errs2, ln2. split; [reflexivity|exact Hg2].
    - exists [], errs1, ln1. split; [reflexivity|exact Hg1]. }
  destruct Hg2 as (entries & errs2 & ln2 & -> & (_ & G1 & G2 & G3)).
  assert (G : Forall (err_ok_sig (b_lines b)) errs2).
  { rewrite Forall_forall in *. intros e He. destruct (G1 e He) as (l & Hl & Hspan). specialize (G2 e He).
    exists l. split; [|split; [|exact Hspan]].
    - rewrite Hb. change (head ++ (hl :: rest) ++ tail) with (head ++ ((hl :: rest) ++ tail)).
      rewrite app_assoc. fold all. rewrite nth_error_app1; [exact Hl|]. apply nth_error_Some. congruence.
    - unfold all in Hl. rewrite nth_error_app2 in Hl by (unfold lo in G2; lia).
      apply nth_error_In in Hl. exact (Hsig l Hl). }
  destruct errs2 as [|e errs2].
  - eexists. split; [reflexivity|exact I].
  - eexists. split; [reflexivity|]. cbn [record_result_ok]. split; [discriminate|]. split; assumption.
Qed.

(* C06: parse_record does not panic on a block with a significant line *)
Lemma parse_record_no_crash ls b : In b (blocks_of_lines ls) -> forall c, parse_record b <> Crash c.
Proof.
  intros Hin c. apply blocks_fuel_shape in Hin as (head & sig & tail & Hsh).
  destruct (parse_record_ok b head sig tail Hsh) as (r & Hr & _). rewrite Hr. discriminate.
Qed.

(* ================= the serial engine ================= *)

Definition block_errors (b : block) : list rerr :=
  match parse_record b with Ok (inr errs) => map (report b) errs | _ => [] end.

Definition block_records (b : block) : list record :=
  match parse_record b with Ok (inl r) => [r] | _ => [] end.

Definition shaped (b : block) : Prop := exists head sig tail, shape (b_lines b) head sig tail.

Lemma parse_blocks_spec bs : Forall shaped bs -> forall rs es,
  parse_blocks bs rs es = Ok (rs ++ flat_map block_records bs, es ++ flat_map block_errors bs).
Proof.
  intros H. induction H as [|b bs (head & sig & tail & Hsh) H IH]; intros rs es; cbn [parse_blocks flat_map].
  - rewrite !app_nil_r. reflexivity.
  - destruct (parse_record_ok b head sig tail Hsh) as (r & Hr & _).
    unfold block_records, block_errors. rewrite Hr. destruct r as [r|errs].
    + rewrite IH. cbn [app]. rewrite <- app_assoc. reflexivity.
    + rewrite IH. cbn [app]. rewrite <- app_assoc. reflexivity.
Qed.

Lemma no_errors_all_records bs : Forall shaped bs -> flat_map block_errors bs = [] ->
  length (flat_map block_records bs) = length bs.
Proof.
  intros H. induction H as [|b bs (head & sig & tail & Hsh) H IH]; cbn [flat_map length]; [reflexivity|].
  intros He. apply app_eq_nil in He as [He1 He2]. rewrite app_length, (IH He2).
  destruct (parse_record_ok b head sig tail Hsh) as (r & Hr & Hok).
  unfold block_records, block_errors in *. rewrite Hr in *. destruct r as [r|errs]; [reflexivity|].
  destruct Hok as [Hne _]. destruct errs; [congruence|discriminate He1].
Qed.

Lemma blocks_of_lines_shaped ls : Forall shaped (blocks_of_lines ls).
Proof. apply Forall_forall. intros b Hb. exact (blocks_fuel_shape _ _ _ _ Hb). Qed.

Lemma parse_lines_blocks_spec bs : Forall shaped bs ->
  parse_lines_blocks bs =
    match flat_map block_errors bs with
    | [] => Ok (Parsed (flat_map block_records bs) bs)
    | es => Ok (Failed es)
    end.
Proof.
  intros H. unfold parse_lines_blocks. rewrite (parse_blocks_spec bs H). cbn [app].
  destruct (flat_map block_errors bs); reflexivity.
Qed.

(* C06: parsing is total and returns records (one per block) XOR at least one error *)
Theorem parse_text_total s :
  (exists rs bs, parse_text s = Ok (Parsed rs bs) /\ length rs = length bs /\ bs = blocks_of s) \/
  (exists es, parse_text s = Ok (Failed es) /\ es <> []).
Proof.
  unfold parse_text, blocks_of. pose proof (blocks_of_lines_shaped (lines_of s)) as Hsh.
  rewrite (parse_lines_blocks_spec _ Hsh).
  destruct (flat_map block_errors _) as [|e es] eqn:E.
  - left. eexists _, _. split; [reflexivity|]. split; [|reflexivity]. apply no_errors_all_records; assumption.
  - right. eexists. split; [reflexivity|discriminate].
Qed.

Corollary parse_text_never_crashes s : (forall c, parse_text s <> Crash c) /\ (forall e, parse_text s <> Err e).
Proof.
  destruct (parse_text_total s) as [(rs & bs & H & _)|(es & H & _)]; rewrite H; split; discriminate.
Qed.

(* ================= C10: where the reported errors are ================= *)

Lemma failed_errors s es : parse_text s = Ok (Failed es) -> es = flat_map block_errors (blocks_of s).
Proof.
  unfold parse_text, blocks_of. rewrite (parse_lines_blocks_spec _ (blocks_of_lines_shaped (lines_of s))).
  destruct (flat_map block_errors _); [discriminate|]. intros [= <-]. reflexivity.
Qed.

(* every error of a block is the report of an in-range parser error *)
Lemma block_errors_in b e : shaped b -> In e (block_errors b) ->
  exists pe, e = report b pe /\ err_ok_sig (b_lines b) pe.
Proof.
  intros (head & sig & tail & Hsh) Hin. destruct (parse_record_ok b head sig tail Hsh) as (r & Hr & Hok).
  unfold block_errors in Hin. rewrite Hr in Hin. destruct r as [r|errs]; [destruct Hin|].
  apply in_map_iff in Hin as (pe & <- & Hpe). exists pe. split; [reflexivity|].
  destruct Hok as (_ & Hall & _). rewrite Forall_forall in Hall. exact (Hall pe Hpe).
Qed.

Theorem errors_located s es : parse_text s = Ok (Failed es) ->
  Forall (fun e =>
    re_line e < length (lines_of s) /\
    (exists l, nth_error (lines_of s) (re_line e) = Some l /\ l_text l = re_text e) /\
    (0 <= re_pos e /\ 0 <= re_len e /\
     re_pos e + re_len e <= Z.of_nat (length (utf8_decode (re_text e))) + 1)%Z) es.
Proof.
  intros H. apply failed_errors in H. subst es. apply Forall_forall. intros e He.
  apply in_flat_map in He as (b & Hb & He).
  pose proof (blocks_of_lines_shaped (lines_of s)) as Hsh. rewrite Forall_forall in Hsh.
  apply (block_errors_in b e (Hsh b Hb)) in He as (pe & -> & (l & Hl & _ & Hspan)).
  unfold blocks_of in Hb. destruct (in_split _ _ Hb) as (pre & post & Hsplit).
  pose proof (block_lines_located _ _ _ _ _ _ Hsplit Hl) as Hloc.
  unfold report; cbn [re_line re_pos re_len re_text]. unfold overall_line_index. rewrite Hl.
  split; [apply nth_error_Some; congruence|]. split; [exists l; split; [exact Hloc|reflexivity]|].
  exact Hspan.
Qed.

(* an error never points at a blank line *)
Theorem errors_on_significant_lines s es : parse_text s = Ok (Failed es) ->
  Forall (fun e => is_blank_text (re_text e) = false) es.
Proof.
  intros H. apply failed_errors in H. subst es. apply Forall_forall. intros e He.
  apply in_flat_map in He as (b & Hb & He).
  pose proof (blocks_of_lines_shaped (lines_of s)) as Hsh. rewrite Forall_forall in Hsh.
  apply (block_errors_in b e (Hsh b Hb)) in He as (pe & -> & (l & Hl & Hsig & _)).
  unfold report; cbn [re_text]. rewrite Hl. exact Hsig.
Qed.

(* ---- ascending order ---- *)
Lemma sorted_app (a b : list nat) : StronglySorted le a -> StronglySorted le b ->
  (forall x y, In x a -> In y b -> x <= y) -> StronglySorted le (a ++ b).
Proof.
  intros Ha Hb Hab. induction Ha as [|x a Ha IH Hx]; cbn [app]; [exact Hb|].
  constructor.
  - apply IH. intros u v Hu Hv. apply Hab; [right; exact Hu|exact Hv].
  - apply Forall_app. split; [exact Hx|]. apply Forall_forall. intros y Hy. apply Hab; [left; reflexivity|exact Hy].
Qed.

Lemma report_lines_sorted b errs : StronglySorted line_le errs ->
  StronglySorted le (map re_line (map (report b) errs)).
Proof.
  intros H. induction H as [|e errs H IH He]; cbn [map]; constructor; [exact IH|].
  rewrite map_map. apply Forall_forall. intros n Hn. apply in_map_iff in Hn as (e' & <- & He').
  rewrite Forall_forall in He. specialize (He e' He'). unfold line_le in He.
  unfold report, overall_line_index; cbn [re_line]. lia.
Qed.

Lemma block_error_lines_range b : shaped b ->
  Forall (fun n => b_preceding b <= n < b_preceding b + length (b_lines b)) (map re_line (block_errors b)).
Proof.
  intros Hsh. apply Forall_forall. intros n Hn. apply in_map_iff in Hn as (e & <- & He).
  apply (block_errors_in b e Hsh) in He as (pe & -> & (l & Hl & _)).
  unfold report, overall_line_index; cbn [re_line].
  assert (pe_line pe < length (b_lines b)) by (apply nth_error_Some; congruence). lia.
Qed.

Lemma block_error_lines_sorted b : shaped b -> StronglySorted le (map re_line (block_errors b)).
Proof.
  intros (head & sig & tail & Hsh). destruct (parse_record_ok b head sig tail Hsh) as (r & Hr & Hok).
  unfold block_errors. rewrite Hr. destruct r as [r|errs]; [constructor|].
  apply report_lines_sorted. apply Hok.
Qed.

Lemma consecutive_errors_sorted bs : Forall shaped bs -> forall p, consecutive p bs ->
  StronglySorted le (map re_line (flat_map block_errors bs)) /\
  Forall (fun n => p <= n) (map re_line (flat_map block_errors bs)).
Proof.
  intros H. induction H as [|b bs Hb H IH]; intros p Hc; cbn [flat_map map].
  - split; constructor.
  - cbn [consecutive] in Hc. destruct Hc as [Hp Hc]. destruct (IH _ Hc) as [IH1 IH2].
    pose proof (block_error_lines_range b Hb) as Hr. rewrite Forall_forall in Hr, IH2.
    rewrite map_app. split.
    + apply sorted_app; [exact (block_error_lines_sorted b Hb)|exact IH1|].
      intros x y Hx Hy. specialize (Hr x Hx). specialize (IH2 y Hy). lia.
    + apply Forall_app. split; apply Forall_forall; intros n Hn.
      * specialize (Hr n Hn). lia.
      * specialize (IH2 n Hn). lia.
Qed.

Theorem errors_ascending_strong s es : parse_text s = Ok (Failed es) -> StronglySorted le (map re_line es).
Proof.
  intros H. apply failed_errors in H. subst es. unfold blocks_of.
  apply (consecutive_errors_sorted _ (blocks_of_lines_shaped (lines_of s)) 0).
  apply blocks_fuel_consecutive.
Qed.

Theorem errors_ascending s es : parse_text s = Ok (Failed es) -> Sorted le (map re_line es).
Proof. intros H. apply StronglySorted_Sorted. exact (errors_ascending_strong s es H). Qed.

(* the same thing said with indices: an earlier error never names a later line *)
Lemma sorted_nth (l : list nat) : StronglySorted le l -> forall i j, i <= j -> j < length l ->
  nth i l 0 <= nth j l 0.
Proof.
  intros Hs. induction Hs as [|x l Hs IH Hx]; intros i j Hij Hj; cbn [length] in Hj; [lia|].
  destruct j as [|j]; [replace i with 0 by lia; lia|]. destruct i as [|i]; cbn [nth].
  - rewrite Forall_forall in Hx. apply Hx. apply nth_In. lia.
  - apply IH; lia.
Qed.

Theorem errors_ascending_nth s es i j : parse_text s = Ok (Failed es) -> i <= j -> j < length es ->
  nth i (map re_line es) 0 <= nth j (map re_line es) 0.
Proof.
  intros H Hij Hj. apply sorted_nth; [exact (errors_ascending_strong s es H)|exact Hij|].
  rewrite map_length. exact Hj.
Qed.

(* texts for the non-vacuity examples *)
(* "\n2020-01-01 (8h\n x\n    8:00-7:00\n    1h foo\n        \n\n\n2020-01-02 x\n    8:00-? \n    9:00 - ??":
   five errors in two blocks, one of them one past the end of its line *)
Definition example_faulty : bytes :=
  ([10] ++ b!"2020-01-01 (8h" ++ [10] ++ b!" x" ++ [10] ++ b!"    8:00-7:00" ++ [10] ++ b!"    1h foo" ++ [10]
   ++ b!"        " ++ [10;10;10] ++ b!"2020-01-02 x" ++ [10] ++ b!"    8:00-? " ++ [10] ++ b!"    9:00 - ??")%N.

(* ================= the result, block by block ================= *)

Lemma no_errors_records_blockwise bs : Forall shaped bs -> flat_map block_errors bs = [] ->
  Forall2 (fun r b => parse_record b = Ok (inl r)) (flat_map block_records bs) bs.
Proof.
  intros H. induction H as [|b bs (head & sig & tail & Hsh) H IH]; cbn [flat_map]; [constructor|].
  intros He. apply app_eq_nil in He as [He1 He2].
  destruct (parse_record_ok b head sig tail Hsh) as (r & Hr & Hok).
  unfold block_records, block_errors in *. rewrite Hr in *. destruct r as [r|errs].
  - cbn [app]. constructor; [exact Hr|exact (IH He2)].
  - destruct Hok as [Hne _]. destruct errs; [congruence|discriminate He1].
Qed.

(* the i-th record is what parse() makes of the i-th block; the errors are those of the blocks, in block order *)
Theorem parse_text_blockwise s :
  (forall rs bs, parse_text s = Ok (Parsed rs bs) ->
     bs = blocks_of s /\ Forall2 (fun r b => parse_record b = Ok (inl r)) rs bs) /\
  (forall es, parse_text s = Ok (Failed es) ->
     es = flat_map (fun b => match parse_record b with Ok (inr errs) => map (report b) errs | _ => [] end)
                   (blocks_of s)).
Proof.
  split; [|exact (failed_errors s)].
  intros rs bs. unfold parse_text, blocks_of.
  pose proof (blocks_of_lines_shaped (lines_of s)) as Hsh.
  rewrite (parse_lines_blocks_spec _ Hsh).
  destruct (flat_map block_errors _) eqn:E; [|discriminate]. intros [= <- <-].
  split; [reflexivity|]. apply no_errors_records_blockwise; assumption.
Qed.

(* PeekUntil: what it returns is a prefix of the rest of the line *)
Lemma peek_until_app p cs pos : exists rest, fst (peek_until p cs pos) ++ rest = skipn pos cs.
Proof.
  unfold peek_until. destruct (until p (skipn pos cs)) as [a m] eqn:E. apply until_spec in E as [_ H].
  cbn [fst]. destruct m.
  - destruct H as (c & r & -> & _). exists (c :: r). reflexivity.
  - exists []. rewrite H. apply app_nil_r.
Qed.
