(* PeriodPattern: NewYear/Month/Quarter/WeekFromString and NewPeriodFromPatternString. *)
From Klog Require Import Base.Prelude Model.Calendar Model.Period Proofs.Sweep Proofs.CalendarSweep Proofs.Calendar Proofs.Period.
From Coq Require Import ZifyBool.
Open Scope Z_scope.

(* ================= period patterns ================= *)

(* s is a string of exactly n ASCII digits with value v *)
Definition is_num (n : nat) (s : bytes) (v : Z) : Prop :=
  length s = n /\ forallb is_digit s = true /\ v = digits_val s.

Lemma digit_val_range x : is_digit x = true -> 0 <= digit_val x <= 9.
Proof. unfold is_digit, digit_val. lia. Qed.

Lemma digits_val_1 a : digits_val [a] = digit_val a.
Proof. unfold digits_val. cbn [fold_left]. lia. Qed.
Lemma digits_val_2 a b : digits_val [a; b] = digit_val a * 10 + digit_val b.
Proof. unfold digits_val. cbn [fold_left]. lia. Qed.
Lemma digits_val_4 a b c d : digits_val [a; b; c; d] = ((digit_val a * 10 + digit_val b) * 10 + digit_val c) * 10 + digit_val d.
Proof. unfold digits_val. cbn [fold_left]. lia. Qed.

Lemma is_num_1 s v : is_num 1 s v <-> exists a, s = [a] /\ is_digit a = true /\ v = digit_val a.
Proof.
  unfold is_num. split.
  - intros (L & F & E). destruct s as [|a [|b r]]; try discriminate. exists a. cbn [forallb] in F. rewrite digits_val_1 in E.
    split; [reflexivity|]. split; [lia | exact E].
  - intros (a & -> & D & ->). cbn [length forallb]. rewrite digits_val_1, D. auto.
Qed.

Lemma is_num_2 s v : is_num 2 s v <-> exists a b, s = [a; b] /\ is_digit a = true /\ is_digit b = true /\ v = digit_val a * 10 + digit_val b.
Proof.
  unfold is_num. split.
  - intros (L & F & E). destruct s as [|a [|b [|c r]]]; try discriminate. exists a, b. cbn [forallb] in F. rewrite digits_val_2 in E.
    split; [reflexivity|]. repeat split; try lia; exact E.
  - intros (a & b & -> & D1 & D2 & ->). cbn [length forallb]. rewrite digits_val_2, D1, D2. auto.
Qed.

Lemma is_num_4 s v : is_num 4 s v <->
  exists a b c d, s = [a; b; c; d] /\ is_digit a = true /\ is_digit b = true /\ is_digit c = true /\ is_digit d = true
                  /\ v = digits_val [a; b; c; d].
Proof.
  unfold is_num. split.
  - intros (L & F & E). destruct s as [|a [|b [|c [|d [|e r]]]]]; try discriminate. exists a, b, c, d. cbn [forallb] in F.
    split; [reflexivity|]. repeat split; try lia; exact E.
  - intros (a & b & c & d & -> & D1 & D2 & D3 & D4 & ->). cbn [length forallb]. rewrite D1, D2, D3, D4. auto.
Qed.

Lemma year4_range a b c d : is_digit a = true -> is_digit b = true -> is_digit c = true -> is_digit d = true ->
  0 <= digits_val [a; b; c; d] <= 9999.
Proof.
  intros Ha Hb Hc Hd. rewrite digits_val_4.
  pose proof (digit_val_range a Ha). pose proof (digit_val_range b Hb).
  pose proof (digit_val_range c Hc). pose proof (digit_val_range d Hd). lia.
Qed.

Lemma new_date_some y m d c : new_date y m d = Some c -> c = mk y m d /\ valid c.
Proof. unfold new_date. destruct (valid_ymd y m d) eqn:E; [|discriminate]. intros [= <-]. split; [reflexivity | exact E]. Qed.

Lemma new_date_none y m d : new_date y m d = None -> ~ valid (mk y m d).
Proof. unfold new_date, valid, valid_cdate, mk. cbn [c_year c_month c_day]. destruct (valid_ymd y m d); [discriminate | intros _ H; discriminate]. Qed.

(* ---- the four constructors ---- *)

Lemma year_from_string_spec s :
  (forall c, year_from_string s = Ok c <-> exists y, is_num 4 s y /\ c = mk y 1 1)
  /\ (forall k, year_from_string s <> Crash k).
Proof.
  split.
  - intros c. split.
    + intros H. destruct s as [|a [|b [|x [|d [|e r]]]]]; try discriminate. cbn [year_from_string] in H.
      destruct (is_digit a && is_digit b && is_digit x && is_digit d) eqn:E; [|discriminate].
      destruct (new_date (digits_val [a; b; x; d]) 1 1) eqn:En; [|discriminate].
      injection H as <-. apply new_date_some in En as [-> _].
      eexists; split; [|reflexivity]. apply is_num_4. exists a, b, x, d. repeat split; try reflexivity; lia.
    + intros (y & N & ->). apply is_num_4 in N as (a & b & x & d & -> & Da & Db & Dx & Dd & ->).
      cbn [year_from_string]. rewrite Da, Db, Dx, Dd. cbn [andb].
      rewrite new_date_valid; [reflexivity|]. pose proof (year4_range a b x d Da Db Dx Dd).
      apply valid_mk; unfold days_in_month; eval_closed; lia.
  - intros k H. destruct s as [|a [|b [|x [|d [|e r]]]]]; try discriminate. cbn [year_from_string] in H.
    destruct (is_digit a && is_digit b && is_digit x && is_digit d); [|discriminate].
    destruct (new_date (digits_val [a; b; x; d]) 1 1); discriminate.
Qed.

Lemma month_from_string_spec s :
  (forall c, month_from_string s = Ok c <->
     exists ys ms y m, s = ys ++ [ch_dash] ++ ms /\ is_num 4 ys y /\ is_num 2 ms m /\ 1 <= m <= 12 /\ c = mk y m 1)
  /\ (forall k, month_from_string s <> Crash k).
Proof.
  split.
  - intros c. split.
    + intros H. destruct s as [|a [|b [|x [|d [|h [|m1 [|m2 [|e r]]]]]]]]; try discriminate. cbn [month_from_string] in H.
      destruct (is_digit a && is_digit b && is_digit x && is_digit d && (h =? ch_dash)%N && is_digit m1 && is_digit m2) eqn:E; [|discriminate].
      destruct (new_date (digits_val [a; b; x; d]) (digits_val [m1; m2]) 1) eqn:En; [|discriminate].
      injection H as <-. apply new_date_some in En as [-> V]. apply valid_fields in V as (_ & Vm & _). cbn [c_month mk] in Vm.
      assert (h = ch_dash) by lia. subst h.
      exists [a; b; x; d], [m1; m2], (digits_val [a; b; x; d]), (digits_val [m1; m2]). split; [reflexivity|].
      split; [apply is_num_4; exists a, b, x, d; repeat split; try reflexivity; lia|].
      split; [apply is_num_2; exists m1, m2; repeat split; try lia; apply digits_val_2|].
      split; [exact Vm | reflexivity].
    + intros (ys & ms & y & m & -> & Ny & Nm & Hm & ->).
      apply is_num_4 in Ny as (a & b & x & d & -> & Da & Db & Dx & Dd & ->).
      apply is_num_2 in Nm as (m1 & m2 & -> & D1 & D2 & ->).
      cbn [app month_from_string]. rewrite Da, Db, Dx, Dd, D1, D2. change (ch_dash =? ch_dash)%N with true. cbn [andb].
      rewrite digits_val_2. rewrite new_date_valid; [reflexivity|]. pose proof (year4_range a b x d Da Db Dx Dd).
      pose proof (dim_bounds (digits_val [a; b; x; d]) (digit_val m1 * 10 + digit_val m2)).
      apply valid_mk; lia.
  - intros k H. destruct s as [|a [|b [|x [|d [|h [|m1 [|m2 [|e r]]]]]]]]; try discriminate. cbn [month_from_string] in H.
    destruct (is_digit a && is_digit b && is_digit x && is_digit d && (h =? ch_dash)%N && is_digit m1 && is_digit m2); [|discriminate].
    destruct (new_date (digits_val [a; b; x; d]) (digits_val [m1; m2]) 1); discriminate.
Qed.

Lemma quarter_from_string_spec s :
  (forall c, quarter_from_string s = Ok c <->
     exists ys qs y q, s = ys ++ [ch_dash; ch_Q] ++ qs /\ is_num 4 ys y /\ is_num 1 qs q /\ 1 <= q <= 4 /\ c = mk y (q * 3) 1)
  /\ (forall k, quarter_from_string s <> Crash k).
Proof.
  split.
  - intros c. split.
    + intros H. destruct s as [|a [|b [|x [|d [|h [|qq [|q1 [|e r]]]]]]]]; try discriminate. cbn [quarter_from_string] in H.
      destruct (is_digit a && is_digit b && is_digit x && is_digit d && (h =? ch_dash)%N && (qq =? ch_Q)%N && is_digit q1) eqn:E; [|discriminate].
      destruct ((digits_val [q1] <? 1) || (4 <? digits_val [q1])) eqn:Eq; [discriminate|].
      destruct (new_date (digits_val [a; b; x; d]) (digits_val [q1] * 3) 1) eqn:En; [|discriminate].
      injection H as <-. apply new_date_some in En as [-> V].
      assert (h = ch_dash) by lia. assert (qq = ch_Q) by lia. subst h qq.
      exists [a; b; x; d], [q1], (digits_val [a; b; x; d]), (digits_val [q1]). split; [reflexivity|].
      split; [apply is_num_4; exists a, b, x, d; repeat split; try reflexivity; lia|].
      split; [apply is_num_1; exists q1; repeat split; try lia; apply digits_val_1|].
      split; [lia | reflexivity].
    + intros (ys & qs & y & q & -> & Ny & Nq & Hq & ->).
      apply is_num_4 in Ny as (a & b & x & d & -> & Da & Db & Dx & Dd & ->).
      apply is_num_1 in Nq as (q1 & -> & D1 & ->).
      cbn [app quarter_from_string]. rewrite Da, Db, Dx, Dd, D1.
      change (ch_dash =? ch_dash)%N with true. change (ch_Q =? ch_Q)%N with true. cbn [andb].
      rewrite digits_val_1.
      destruct ((digit_val q1 <? 1) || (4 <? digit_val q1)) eqn:Eq; [lia|].
      rewrite new_date_valid; [reflexivity|]. pose proof (year4_range a b x d Da Db Dx Dd).
      pose proof (dim_bounds (digits_val [a; b; x; d]) (digit_val q1 * 3)).
      apply valid_mk; lia.
  - intros k H. destruct s as [|a [|b [|x [|d [|h [|qq [|q1 [|e r]]]]]]]]; try discriminate. cbn [quarter_from_string] in H.
    destruct (is_digit a && is_digit b && is_digit x && is_digit d && (h =? ch_dash)%N && (qq =? ch_Q)%N && is_digit q1); [|discriminate].
    destruct ((digits_val [q1] <? 1) || (4 <? digits_val [q1])); [discriminate|].
    destruct (new_date (digits_val [a; b; x; d]) (digits_val [q1] * 3) 1); discriminate.
Qed.

(* the regexp part of NewWeekFromString *)
Lemma week_from_string_spec s :
  (exists ys ws y w, s = ys ++ [ch_dash; ch_W] ++ ws /\ is_num 4 ys y /\ (is_num 1 ws w \/ is_num 2 ws w)
                     /\ week_from_string s = week_from_numbers y w)
  \/ ((~ exists ys ws y w, s = ys ++ [ch_dash; ch_W] ++ ws /\ is_num 4 ys y /\ (is_num 1 ws w \/ is_num 2 ws w))
      /\ week_from_string s = Err EInvalidPeriod).
Proof.
  destruct s as [|a [|b [|x [|d [|h [|ww [|w1 r]]]]]]];
    try (right; split; [intros (ys & ws & y & w & E & Ny & Nw); apply is_num_4 in Ny as (a' & b' & x' & d' & -> & _); destruct Nw as [Nw|Nw]; [apply is_num_1 in Nw as (? & -> & _) | apply is_num_2 in Nw as (? & ? & -> & _)]; cbn [app] in E; discriminate | reflexivity]).
  destruct r as [|w2 [|e r]].
  - cbn [week_from_string].
    destruct (is_digit a && is_digit b && is_digit x && is_digit d && (h =? ch_dash)%N && (ww =? ch_W)%N && is_digit w1) eqn:E.
    + left. assert (h = ch_dash) by lia. assert (ww = ch_W) by lia. subst h ww.
      exists [a; b; x; d], [w1], (digits_val [a; b; x; d]), (digits_val [w1]). split; [reflexivity|].
      split; [apply is_num_4; exists a, b, x, d; repeat split; try reflexivity; lia|].
      split; [left; apply is_num_1; exists w1; repeat split; try lia; apply digits_val_1 | reflexivity].
    + right. split; [|reflexivity]. intros (ys & ws & y & w & Es & Ny & Nw).
      apply is_num_4 in Ny as (a' & b' & x' & d' & -> & Da & Db & Dx & Dd & _).
      destruct Nw as [Nw|Nw].
      * apply is_num_1 in Nw as (w1' & -> & D1 & _). cbn [app] in Es. injection Es as -> -> -> -> -> -> ->.
        rewrite Da, Db, Dx, Dd, D1 in E. discriminate.
      * apply is_num_2 in Nw as (w1' & w2' & -> & _). cbn [app] in Es. discriminate.
  - cbn [week_from_string].
    destruct (is_digit a && is_digit b && is_digit x && is_digit d && (h =? ch_dash)%N && (ww =? ch_W)%N && is_digit w1 && is_digit w2) eqn:E.
    + left. assert (h = ch_dash) by lia. assert (ww = ch_W) by lia. subst h ww.
      exists [a; b; x; d], [w1; w2], (digits_val [a; b; x; d]), (digits_val [w1; w2]). split; [reflexivity|].
      split; [apply is_num_4; exists a, b, x, d; repeat split; try reflexivity; lia|].
      split; [right; apply is_num_2; exists w1, w2; repeat split; try lia; apply digits_val_2 | reflexivity].
    + right. split; [|reflexivity]. intros (ys & ws & y & w & Es & Ny & Nw).
      apply is_num_4 in Ny as (a' & b' & x' & d' & -> & Da & Db & Dx & Dd & _).
      destruct Nw as [Nw|Nw].
      * apply is_num_1 in Nw as (w1' & -> & D1 & _). cbn [app] in Es. discriminate.
      * apply is_num_2 in Nw as (w1' & w2' & -> & D1 & D2 & _). cbn [app] in Es. injection Es as -> -> -> -> -> -> -> ->.
        rewrite Da, Db, Dx, Dd, D1, D2 in E. discriminate.
  - right. split; [|reflexivity]. intros (ys & ws & y & w & Es & Ny & Nw).
    apply is_num_4 in Ny as (a' & b' & x' & d' & -> & _).
    destruct Nw as [Nw|Nw].
    + apply is_num_1 in Nw as (w1' & -> & _). cbn [app] in Es. discriminate.
    + apply is_num_2 in Nw as (w1' & w2' & -> & _). cbn [app] in Es. discriminate.
Qed.


(* Monday of ISO week w of ISO year y *)
Definition iso_monday (y w : Z) : Z := week1_monday y + 7 * (w - 1).

Lemma week1_9999 : week1_monday 9999 = D1 - 361 /\ weeks_in_year 9999 = 52.
Proof. split; reflexivity. Qed.
Lemma week1_0 : week1_monday 0 = D0 + 2.
Proof. reflexivity. Qed.

Lemma week1_ge_D0 y : 0 <= y -> D0 + 2 <= week1_monday y.
Proof.
  intros Hy. destruct (Z.eq_dec y 0) as [->|N]; [rewrite week1_0; lia|].
  pose proof (week1_monday_bounds y) as [B _]. pose proof (year_start_mono 0 y ltac:(lia)). pose proof D0_ok. lia.
Qed.

Lemma monday_of_cfd_monday z : (z + 3) mod 7 = 0 -> monday_of (civil_from_days z) = z.
Proof. intros H. unfold monday_of, weekday. destruct (days_cfd z) as [_ ->]. Z.div_mod_to_equations; lia. Qed.

Lemma iso_monday_is_monday y w : (iso_monday y w + 3) mod 7 = 0.
Proof. unfold iso_monday. pose proof (week1_monday_bounds y) as [_ M]. Z.div_mod_to_equations; lia. Qed.

(* the closure of NewWeekFromString before recover(): the Monday of ISO week (y, w), a panic when that Monday or
   the Sunday after it lies beyond 9999-12-31 *)
Lemma week_reference_spec y w : 0 <= y <= 9999 -> 1 <= w <= 99 ->
  week_reference y w =
    if iso_monday y w + 6 <=? D1 then Ok (civil_from_days (iso_monday y w)) else Crash CUnrepresentableDate.
Proof.
  intros Hy Hw. unfold week_reference.
  assert (V0 : valid (mk y 7 1)) by (apply valid_mk; unfold days_in_month; eval_closed; lia).
  rewrite (new_date_valid _ _ _ V0). pose proof (valid_days _ V0) as [W0 R0].
  pose proof (weekday_range (mk y 7 1)) as Wr.
  rewrite week_since_spec by (try exact V0; change (Z.of_nat 7) with 7; lia).
  pose proof (monday_of_spec (mk y 7 1)) as [B0 M0].
  (* the Monday on or before July 1st: inside the calendar and inside ISO year y *)
  assert (J7 : days_of (mk y 7 1) = days_from_civil y 1 1 + (if is_leap y then 182 else 181)).
  { unfold days_of, mk; cbn [c_year c_month c_day]. rewrite (days_ymd y 7 1) by lia.
    unfold cum_days, cum_table. eval_closed. destruct (is_leap y); lia. }
  pose proof (year_start_mono 0 y ltac:(lia)) as Y0. pose proof D0_ok as HD0.
  set (M := monday_of (mk y 7 1)) in *.
  assert (HM : D0 <= M) by (destruct (is_leap y); lia).
  destruct (D0 <=? M) eqn:E2; [|lia]. cbn [bind].
  pose proof (week1_monday_bounds y) as [B1 _]. pose proof (week1_monday_bounds (y + 1)) as [B2 _].
  pose proof (year_start_step y) as Ys. pose proof (year_len_bounds y) as Yl.
  assert (HMy : week1_monday y <= M < week1_monday (y + 1)) by (unfold year_len in *; destruct (is_leap y); lia).
  destruct (cfd_valid_days M ltac:(lia)) as [Vr Er]. pose proof (valid_days _ Vr) as [Wr' _].
  assert (EMr : monday_of (civil_from_days M) = M) by (apply monday_of_cfd_monday; exact M0).
  rewrite (iso_week_of_monday (civil_from_days M) y Wr') by (rewrite EMr; exact HMy). cbn [snd].
  rewrite EMr.
  (* the target day number *)
  assert (Ez : M + (w - ((M - week1_monday y) / 7 + 1)) * 7 = iso_monday y w).
  { unfold iso_monday. pose proof (week1_monday_bounds y) as [_ M1]. Z.div_mod_to_equations. lia. }
  rewrite plus_days_spec by exact Wr'. rewrite Er, Ez.
  pose proof (week1_ge_D0 y ltac:(lia)) as G0.
  assert (Hlo : D0 <= iso_monday y w) by (unfold iso_monday; lia).
  destruct ((D0 <=? iso_monday y w) && (iso_monday y w <=? D1)) eqn:E4; cbn [bind].
  - destruct (days_cfd (iso_monday y w)) as [Wz Ez'].
    rewrite plus_days_spec by exact Wz. rewrite Ez'.
    destruct ((D0 <=? iso_monday y w + 6) && (iso_monday y w + 6 <=? D1)) eqn:E6; cbn [bind];
      destruct (iso_monday y w + 6 <=? D1) eqn:E5; try reflexivity; lia.
  - destruct (iso_monday y w + 6 <=? D1) eqn:E5; [lia|reflexivity].
Qed.

(* the week ends inside the calendar unless it is week 52 or later of year 9999 *)
Lemma iso_monday_end y w : 0 <= y <= 9999 -> 1 <= w <= 99 ->
  (iso_monday y w + 6 <=? D1) = negb ((y =? 9999) && (52 <=? w)).
Proof.
  intros Hy Hw. unfold iso_monday. destruct (Z.eq_dec y 9999) as [->|Ny].
  - destruct week1_9999 as [W9 _]. rewrite W9. lia.
  - pose proof (week1_monday_bounds y) as [B _]. pose proof (year_start_mono (y + 1) 9999 ltac:(lia)).
    pose proof (year_start_step y) as Ys. pose proof (year_len_bounds y) as Yl.
    assert (days_from_civil 9999 1 1 = D1 - 364) by reflexivity. lia.
Qed.

(* the body of NewWeekFromString (with the fix 9e99f6b: never a panic) *)
Lemma week_from_numbers_spec y w : 0 <= y <= 9999 -> 0 <= w <= 99 ->
  week_from_numbers y w =
    if w <? 1 then Err EInvalidPeriod
    else if (y =? 9999) && (52 <=? w) then Err EInvalidPeriod
    else if w <=? weeks_in_year y then Ok (civil_from_days (iso_monday y w))
    else Err EInvalidPeriod.
Proof.
  intros Hy Hw. unfold week_from_numbers. destruct (w <? 1) eqn:E1; [reflexivity|].
  rewrite week_reference_spec by lia. rewrite iso_monday_end by lia.
  destruct ((y =? 9999) && (52 <=? w)) eqn:E3; cbn [negb recover_week]; [reflexivity|].
  pose proof (week1_step y) as [S Rw]. pose proof (week1_step (y + 1)) as [S' Rw'].
  destruct (days_cfd (iso_monday y w)) as [Wz _].
  assert (EMz : monday_of (civil_from_days (iso_monday y w)) = iso_monday y w) by (apply monday_of_cfd_monday; apply iso_monday_is_monday).
  destruct (w <=? weeks_in_year y) eqn:E5.
  - rewrite (iso_week_of_monday _ y Wz) by (rewrite EMz; unfold iso_monday; lia). cbn [snd]. rewrite EMz.
    replace ((iso_monday y w - week1_monday y) / 7 + 1) with w by (unfold iso_monday; Z.div_mod_to_equations; lia).
    rewrite Z.eqb_refl. reflexivity.
  - rewrite (iso_week_of_monday _ (y + 1) Wz) by (rewrite EMz; unfold iso_monday; lia). cbn [snd]. rewrite EMz.
    replace ((iso_monday y w - week1_monday (y + 1)) / 7 + 1) with (w - weeks_in_year y) by (unfold iso_monday; Z.div_mod_to_equations; lia).
    destruct (w - weeks_in_year y =? w) eqn:E6; [lia|]. reflexivity.
Qed.

(* a week pattern's Monday gives a representable week except for 9999-W52 *)
Lemma iso_monday_representable y w : 0 <= y <= 9999 -> 1 <= w <= weeks_in_year y -> ~ (y = 9999 /\ w = 52) ->
  D0 <= iso_monday y w /\ iso_monday y w + 6 <= D1.
Proof.
  intros Hy Hw Hn. pose proof (week1_ge_D0 y ltac:(lia)). pose proof (week1_step y) as [S Rw]. unfold iso_monday.
  split; [lia|]. destruct (Z.eq_dec y 9999) as [->|Ny].
  - destruct week1_9999 as [W9 W52]. lia.
  - pose proof (week1_monday_bounds (y + 1)) as [B _]. pose proof (year_start_mono (y + 1) 9999 ltac:(lia)).
    assert (days_from_civil 9999 1 1 = D1 - 364) by reflexivity. lia.
Qed.


(* s is YYYY-Ww or YYYY-Www *)
Definition week_str (s : bytes) (y w : Z) : Prop :=
  exists ys ws, s = ys ++ [ch_dash; ch_W] ++ ws /\ is_num 4 ys y /\ (is_num 1 ws w \/ is_num 2 ws w).

(* what a period pattern denotes, independently of the parser: the calendar period it names *)
Definition names_period (s : bytes) (since until : cdate) : Prop :=
  (exists y, is_num 4 s y /\ since = mk y 1 1 /\ until = mk y 12 31)
  \/ (exists ys ms y m, s = ys ++ [ch_dash] ++ ms /\ is_num 4 ys y /\ is_num 2 ms m /\ 1 <= m <= 12
        /\ since = mk y m 1 /\ until = mk y m (days_in_month y m))
  \/ (exists ys qs y q, s = ys ++ [ch_dash; ch_Q] ++ qs /\ is_num 4 ys y /\ is_num 1 qs q /\ 1 <= q <= 4
        /\ since = mk y (3 * q - 2) 1 /\ until = mk y (3 * q) (days_in_month y (3 * q)))
  \/ (exists y w, week_str s y w /\ valid since /\ valid until /\ weekday since = 1 /\ iso_week since = (y, w)
        /\ days_of until = days_of since + 6).

Lemma is_num4_range s y : is_num 4 s y -> 0 <= y <= 9999.
Proof. intros H. apply is_num_4 in H as (a & b & c & d & _ & Da & Db & Dc & Dd & ->). apply year4_range; assumption. Qed.

Lemma is_num12_range s w : is_num 1 s w \/ is_num 2 s w -> 0 <= w <= 99.
Proof.
  intros [H|H].
  - apply is_num_1 in H as (a & _ & Da & ->). pose proof (digit_val_range a Da). lia.
  - apply is_num_2 in H as (a & b & _ & Da & Db & ->). pose proof (digit_val_range a Da). pose proof (digit_val_range b Db). lia.
Qed.

Lemma year_period_of_mk y : 0 <= y <= 9999 -> period_of KYear (mk y 1 1) = Ok (mk y 1 1, mk y 12 31).
Proof. intros Hy. cbn [period_of]. rewrite year_period_spec by (apply valid_mk; unfold days_in_month; eval_closed; lia). reflexivity. Qed.

Lemma month_period_of_mk y m : 0 <= y <= 9999 -> 1 <= m <= 12 ->
  period_of KMonth (mk y m 1) = Ok (mk y m 1, mk y m (days_in_month y m)).
Proof.
  intros Hy Hm. cbn [period_of]. pose proof (dim_bounds y m). rewrite month_period_spec by (apply valid_mk; lia). reflexivity.
Qed.

Lemma quarter_period_of_mk y q : 0 <= y <= 9999 -> 1 <= q <= 4 ->
  period_of KQuarter (mk y (q * 3) 1) = Ok (mk y (3 * q - 2) 1, mk y (3 * q) (days_in_month y (3 * q))).
Proof.
  intros Hy Hq. cbn [period_of]. pose proof (dim_bounds y (q * 3)).
  rewrite quarter_period_spec by (apply valid_mk; lia).
  assert (E : quarter (mk y (q * 3) 1) = q) by (unfold quarter, mk; cbn [c_month]; Z.div_mod_to_equations; lia).
  rewrite E. reflexivity.
Qed.

(* the week constructor followed by Period() *)
Definition week_outcome (y w : Z) : outcome period :=
  if w <? 1 then Err EInvalidPeriod
  else if (y =? 9999) && (52 <=? w) then Err EInvalidPeriod
  else if w <=? weeks_in_year y
       then Ok (civil_from_days (iso_monday y w), civil_from_days (iso_monday y w + 6))
       else Err EInvalidPeriod.

Lemma week_pattern_outcome y w : 0 <= y <= 9999 -> 0 <= w <= 99 ->
  match week_from_numbers y w with
  | Ok d => period_of KWeek d
  | Err _ => Err EInvalidPeriod
  | Crash c => Crash c
  end = week_outcome y w.
Proof.
  intros Hy Hw. rewrite week_from_numbers_spec by assumption. unfold week_outcome.
  destruct (w <? 1) eqn:E1; [reflexivity|].
  destruct ((y =? 9999) && (52 <=? w)) eqn:E2; [reflexivity|].
  destruct (w <=? weeks_in_year y) eqn:E4; [|reflexivity].
  assert (EM : monday_of (civil_from_days (iso_monday y w)) = iso_monday y w) by (apply monday_of_cfd_monday; apply iso_monday_is_monday).
  destruct (iso_monday_representable y w Hy ltac:(lia) ltac:(lia)) as [R1 R2].
  destruct (cfd_valid_days (iso_monday y w) ltac:(lia)) as [V _]. cbn [period_of].
  rewrite week_period_spec by exact V. rewrite EM.
  destruct ((D0 <=? iso_monday y w) && (iso_monday y w + 6 <=? D1)) eqn:E5; [reflexivity|lia].
Qed.

(* ---- NewPeriodFromPatternString on each shape ---- *)

Lemma pattern_year s y : is_num 4 s y -> period_from_pattern s = Ok (mk y 1 1, mk y 12 31).
Proof.
  intros N. pose proof (is_num4_range _ _ N) as Hy.
  unfold period_from_pattern. unfold try_pattern at 1.
  destruct (year_from_string_spec s) as [Y _]. rewrite (proj2 (Y (mk y 1 1))) by (exists y; auto).
  apply year_period_of_mk; exact Hy.
Qed.

Lemma not_digit_Q : is_digit ch_Q = false. Proof. reflexivity. Qed.
Lemma not_digit_W : is_digit ch_W = false. Proof. reflexivity. Qed.
Lemma not_digit_dash : is_digit ch_dash = false. Proof. reflexivity. Qed.

Lemma pattern_month ys ms y m : is_num 4 ys y -> is_num 2 ms m ->
  period_from_pattern (ys ++ [ch_dash] ++ ms) =
    if (1 <=? m) && (m <=? 12) then Ok (mk y m 1, mk y m (days_in_month y m)) else Err EInvalidPeriod.
Proof.
  intros Ny Nm. pose proof (is_num4_range _ _ Ny) as Hy.
  apply is_num_4 in Ny as (a & b & x & d & -> & Da & Db & Dx & Dd & Ey).
  apply is_num_2 in Nm as (m1 & m2 & -> & D1 & D2 & Em).
  cbn [app]. unfold period_from_pattern. unfold try_pattern at 1. cbn [year_from_string].
  unfold try_pattern at 1. cbn [month_from_string]. rewrite Da, Db, Dx, Dd, D1, D2. change (ch_dash =? ch_dash)%N with true. cbn [andb].
  rewrite digits_val_2, <- Em, <- Ey.
  destruct ((1 <=? m) && (m <=? 12)) eqn:E.
  - pose proof (dim_bounds y m). rewrite new_date_valid by (apply valid_mk; lia). apply month_period_of_mk; lia.
  - destruct (new_date y m 1) eqn:En.
    + apply new_date_some in En as [-> V]. apply valid_fields in V. cbn [c_month mk] in V. lia.
    + unfold try_pattern at 1. cbn [quarter_from_string]. change (m1 =? ch_Q)%N with (m1 =? 81)%N.
      assert (Hq : (m1 =? 81)%N = false) by (unfold is_digit in D1; lia). rewrite Hq, !andb_false_r. cbn [andb].
      unfold try_pattern. cbn [week_from_string].
      assert (Hw : (m1 =? ch_W)%N = false) by (unfold is_digit, ch_W in *; lia). rewrite Hw, !andb_false_r. cbn [andb]. reflexivity.
Qed.

Lemma pattern_quarter ys qs y q : is_num 4 ys y -> is_num 1 qs q ->
  period_from_pattern (ys ++ [ch_dash; ch_Q] ++ qs) =
    if (1 <=? q) && (q <=? 4) then Ok (mk y (3 * q - 2) 1, mk y (3 * q) (days_in_month y (3 * q))) else Err EInvalidPeriod.
Proof.
  intros Ny Nq. pose proof (is_num4_range _ _ Ny) as Hy.
  apply is_num_4 in Ny as (a & b & x & d & -> & Da & Db & Dx & Dd & Ey).
  apply is_num_1 in Nq as (q1 & -> & D1 & Eq).
  cbn [app]. unfold period_from_pattern. unfold try_pattern at 1. cbn [year_from_string].
  unfold try_pattern at 1. cbn [month_from_string]. rewrite not_digit_Q, !andb_false_r. cbn [andb].
  unfold try_pattern at 1. cbn [quarter_from_string]. rewrite Da, Db, Dx, Dd, D1.
  change (ch_dash =? ch_dash)%N with true. change (ch_Q =? ch_Q)%N with true. cbn [andb].
  rewrite digits_val_1, <- Eq, <- Ey.
  destruct ((1 <=? q) && (q <=? 4)) eqn:E.
  - destruct ((q <? 1) || (4 <? q)) eqn:E2; [lia|].
    pose proof (dim_bounds y (q * 3)). rewrite new_date_valid by (apply valid_mk; lia). apply quarter_period_of_mk; lia.
  - destruct ((q <? 1) || (4 <? q)) eqn:E2; [|lia].
    unfold try_pattern. cbn [week_from_string]. change (ch_Q =? ch_W)%N with false. rewrite !andb_false_r. cbn [andb]. reflexivity.
Qed.

Lemma pattern_week s y w : week_str s y w -> period_from_pattern s = week_outcome y w.
Proof.
  intros (ys & ws & -> & Ny & Nw). pose proof (is_num4_range _ _ Ny) as Hy. pose proof (is_num12_range _ _ Nw) as Hw.
  rewrite <- (week_pattern_outcome y w Hy Hw).
  apply is_num_4 in Ny as (a & b & x & d & -> & Da & Db & Dx & Dd & Ey).
  destruct Nw as [Nw|Nw].
  - apply is_num_1 in Nw as (w1 & -> & D1 & Ew).
    cbn [app]. unfold period_from_pattern. unfold try_pattern at 1. cbn [year_from_string].
    unfold try_pattern at 1. cbn [month_from_string]. rewrite not_digit_W, !andb_false_r. cbn [andb].
    unfold try_pattern at 1. cbn [quarter_from_string]. change (ch_W =? ch_Q)%N with false. rewrite !andb_false_r. cbn [andb].
    unfold try_pattern. cbn [week_from_string]. rewrite Da, Db, Dx, Dd, D1.
    change (ch_dash =? ch_dash)%N with true. change (ch_W =? ch_W)%N with true. cbn [andb].
    rewrite digits_val_1, <- Ew, <- Ey. reflexivity.
  - apply is_num_2 in Nw as (w1 & w2 & -> & D1 & D2 & Ew).
    cbn [app]. unfold period_from_pattern. unfold try_pattern at 1. cbn [year_from_string].
    unfold try_pattern at 1. cbn [month_from_string].
    unfold try_pattern at 1. cbn [quarter_from_string].
    unfold try_pattern. cbn [week_from_string]. rewrite Da, Db, Dx, Dd, D1, D2.
    change (ch_dash =? ch_dash)%N with true. change (ch_W =? ch_W)%N with true. cbn [andb].
    rewrite digits_val_2, <- Ew, <- Ey. reflexivity.
Qed.

(* a string of none of the four shapes is rejected *)
Lemma pattern_other s :
  (forall y, ~ is_num 4 s y) ->
  (forall ys ms y m, ~ (s = ys ++ [ch_dash] ++ ms /\ is_num 4 ys y /\ is_num 2 ms m)) ->
  (forall ys qs y q, ~ (s = ys ++ [ch_dash; ch_Q] ++ qs /\ is_num 4 ys y /\ is_num 1 qs q)) ->
  (forall y w, ~ week_str s y w) ->
  period_from_pattern s = Err EInvalidPeriod.
Proof.
  intros H1 H2 H3 H4. unfold period_from_pattern, try_pattern.
  destruct (year_from_string_spec s) as [Y Yc]. destruct (month_from_string_spec s) as [M Mc].
  destruct (quarter_from_string_spec s) as [Q Qc].
  destruct (year_from_string s) as [c|e|k] eqn:Ey.
  - exfalso. destruct (proj1 (Y c) eq_refl) as (y & N & _). exact (H1 y N).
  - destruct (month_from_string s) as [c|e'|k] eqn:Em.
    + exfalso. destruct (proj1 (M c) eq_refl) as (ys & ms & y & m & E & Ny & Nm & _). exact (H2 ys ms y m (conj E (conj Ny Nm))).
    + destruct (quarter_from_string s) as [c|e''|k] eqn:Eq.
      * exfalso. destruct (proj1 (Q c) eq_refl) as (ys & qs & y & q & E & Ny & Nq & _). exact (H3 ys qs y q (conj E (conj Ny Nq))).
      * destruct (week_from_string_spec s) as [(ys & ws & y & w & E & Ny & Nw & _)|[_ ->]]; [|reflexivity].
        exfalso. apply (H4 y w). exists ys, ws. auto.
      * exfalso. exact (Qc k eq_refl).
    + exfalso. exact (Mc k eq_refl).
  - exfalso. exact (Yc k eq_refl).
Qed.


Definition shape_month (s : bytes) (y m : Z) : Prop :=
  exists ys ms, s = ys ++ [ch_dash] ++ ms /\ is_num 4 ys y /\ is_num 2 ms m.
Definition shape_quarter (s : bytes) (y q : Z) : Prop :=
  exists ys qs, s = ys ++ [ch_dash; ch_Q] ++ qs /\ is_num 4 ys y /\ is_num 1 qs q.

Lemma pattern_shape s :
  period_from_pattern s = Err EInvalidPeriod
  \/ (exists y, is_num 4 s y) \/ (exists y m, shape_month s y m) \/ (exists y q, shape_quarter s y q)
  \/ (exists y w, week_str s y w).
Proof.
  destruct (year_from_string_spec s) as [Y Yc]. destruct (month_from_string_spec s) as [M Mc].
  destruct (quarter_from_string_spec s) as [Q Qc].
  destruct (year_from_string s) as [c|e|k] eqn:Ey.
  - right; left. destruct (proj1 (Y c) eq_refl) as (y & N & _). exists y. exact N.
  - destruct (month_from_string s) as [c|e'|k] eqn:Em.
    + right; right; left. destruct (proj1 (M c) eq_refl) as (ys & ms & y & m & E & Ny & Nm & _). exists y, m, ys, ms. auto.
    + destruct (quarter_from_string s) as [c|e''|k] eqn:Eq.
      * right; right; right; left. destruct (proj1 (Q c) eq_refl) as (ys & qs & y & q & E & Ny & Nq & _). exists y, q, ys, qs. auto.
      * destruct (week_from_string_spec s) as [(ys & ws & y & w & E & Ny & Nw & _)|[_ Ew]].
        -- right; right; right; right. exists y, w, ys, ws. auto.
        -- left. unfold period_from_pattern, try_pattern. rewrite Ey, Em, Eq, Ew. reflexivity.
      * exfalso. exact (Qc k eq_refl).
    + exfalso. exact (Mc k eq_refl).
  - exfalso. exact (Yc k eq_refl).
Qed.

Lemma week_outcome_ok y w since until : 0 <= y <= 9999 ->
  week_outcome y w = Ok (since, until) ->
  valid since /\ valid until /\ weekday since = 1 /\ iso_week since = (y, w) /\ days_of until = days_of since + 6.
Proof.
  intros Hy H. unfold week_outcome in H.
  destruct (w <? 1) eqn:E1; [discriminate|].
  destruct ((y =? 9999) && (52 <=? w)) eqn:E2; [discriminate|].
  destruct (w <=? weeks_in_year y) eqn:E3; [|discriminate].
  apply ok_pair_inj in H as [<- <-].
  destruct (iso_monday_representable y w Hy ltac:(lia) ltac:(lia)) as [R1 R2].
  destruct (cfd_valid_days (iso_monday y w) ltac:(lia)) as [V1 D1']. destruct (cfd_valid_days (iso_monday y w + 6) ltac:(lia)) as [V2 D2'].
  pose proof (iso_monday_is_monday y w) as Mm.
  pose proof (monday_of_cfd_monday _ Mm) as EM. pose proof (valid_days _ V1) as [W1 _].
  pose proof (week1_step y) as [S Rw].
  split; [exact V1|]. split; [exact V2|].
  split; [unfold weekday; rewrite D1'; Z.div_mod_to_equations; lia|].
  split; [|lia].
  rewrite (iso_week_of_monday _ y W1) by (rewrite EM; unfold iso_monday; lia). rewrite EM. f_equal.
  unfold iso_monday. Z.div_mod_to_equations. lia.
Qed.

Lemma week_outcome_of_names y w since until : 0 <= y <= 9999 ->
  valid since -> valid until -> weekday since = 1 -> iso_week since = (y, w) -> days_of until = days_of since + 6 ->
  week_outcome y w = Ok (since, until).
Proof.
  intros Hy Vs Vu Wd Iw Du. pose proof (valid_days _ Vs) as [Ws Rs]. pose proof (valid_days _ Vu) as [Wu Ru].
  pose proof (iso_week_char since Ws) as [_ Ec]. pose proof (iso_week_range since Ws) as Rw. rewrite Iw in Ec, Rw. cbn [fst snd] in *.
  assert (Em : iso_monday y w = days_of since) by (unfold iso_monday; unfold monday_of in Ec; lia).
  unfold week_outcome. destruct (w <? 1) eqn:E1; [lia|].
  destruct ((y =? 9999) && (52 <=? w)) eqn:E2.
  - exfalso. assert (y = 9999) by lia. subst y. destruct week1_9999 as [W9 W52]. unfold iso_monday in Em. lia.
  - destruct (w <=? weeks_in_year y) eqn:E3; [|lia]. rewrite Em, <- Du. rewrite !cfd_days by assumption. reflexivity.
Qed.

(* a pattern denotes exactly the period it names *)
Theorem pattern_spec s since until : period_from_pattern s = Ok (since, until) <-> names_period s since until.
Proof.
  split.
  - intros H. destruct (pattern_shape s) as [E|[(y & N)|[(y & m & ys & ms & -> & Ny & Nm)|[(y & q & ys & qs & -> & Ny & Nq)|(y & w & Sw)]]]].
    + rewrite E in H. discriminate.
    + rewrite (pattern_year s y N) in H. apply ok_pair_inj in H as [<- <-]. left. exists y. auto.
    + rewrite (pattern_month ys ms y m Ny Nm) in H. destruct ((1 <=? m) && (m <=? 12)) eqn:E; [|discriminate].
      apply ok_pair_inj in H as [<- <-]. right; left. exists ys, ms, y, m. split; [reflexivity|]. split; [exact Ny|]. split; [exact Nm|]. split; [lia|]. split; reflexivity.
    + rewrite (pattern_quarter ys qs y q Ny Nq) in H. destruct ((1 <=? q) && (q <=? 4)) eqn:E; [|discriminate].
      apply ok_pair_inj in H as [<- <-]. right; right; left. exists ys, qs, y, q. split; [reflexivity|]. split; [exact Ny|]. split; [exact Nq|]. split; [lia|]. split; reflexivity.
    + rewrite (pattern_week s y w Sw) in H. right; right; right. exists y, w. split; [exact Sw|].
      destruct Sw as (ys & ws & _ & Ny & _). apply (week_outcome_ok y w); [apply (is_num4_range _ _ Ny) | exact H].
  - intros [(y & N & -> & ->)|[(ys & ms & y & m & -> & Ny & Nm & Hm & -> & ->)|[(ys & qs & y & q & -> & Ny & Nq & Hq & -> & ->)|(y & w & Sw & Vs & Vu & Wd & Iw & Du)]]].
    + apply pattern_year; exact N.
    + rewrite (pattern_month ys ms y m Ny Nm). destruct ((1 <=? m) && (m <=? 12)) eqn:E; [reflexivity|lia].
    + rewrite (pattern_quarter ys qs y q Ny Nq). destruct ((1 <=? q) && (q <=? 4)) eqn:E; [reflexivity|lia].
    + rewrite (pattern_week s y w Sw). destruct Sw as (ys & ws & _ & Ny & _).
      apply week_outcome_of_names; try assumption. apply (is_num4_range _ _ Ny).
Qed.

Lemma week_outcome_no_crash y w k : week_outcome y w <> Crash k.
Proof.
  unfold week_outcome. destruct (w <? 1); [discriminate|]. destruct ((y =? 9999) && (52 <=? w)); [discriminate|].
  destruct (w <=? weeks_in_year y); discriminate.
Qed.

(* since the fix 9e99f6b NewPeriodFromPatternString never panics, whatever the string *)
Theorem pattern_total s k : period_from_pattern s <> Crash k.
Proof.
  intros H. destruct (pattern_shape s) as [E|[(y & N)|[(y & m & ys & ms & -> & Ny & Nm)|[(y & q & ys & qs & -> & Ny & Nq)|(y & w & Sw)]]]].
  - rewrite E in H. discriminate.
  - rewrite (pattern_year s y N) in H. discriminate.
  - rewrite (pattern_month ys ms y m Ny Nm) in H. destruct ((1 <=? m) && (m <=? 12)); discriminate.
  - rewrite (pattern_quarter ys qs y q Ny Nq) in H. destruct ((1 <=? q) && (q <=? 4)); discriminate.
  - rewrite (pattern_week s y w Sw) in H. exact (week_outcome_no_crash y w k H).
Qed.

(* the week patterns of year 9999 from W52 on (W52 would end on 10000-01-02, the others do not exist) are rejected *)
Theorem pattern_9999_rejected s w : week_str s 9999 w -> 52 <= w -> period_from_pattern s = Err EInvalidPeriod.
Proof.
  intros Sw Hw. rewrite (pattern_week s 9999 w Sw). unfold week_outcome.
  destruct (w <? 1) eqn:E1; [reflexivity|]. destruct ((9999 =? 9999) && (52 <=? w)) eqn:E2; [reflexivity|lia].
Qed.

(* everything that names no period is rejected *)
Theorem pattern_reject s :
  (forall since until, ~ names_period s since until) -> period_from_pattern s = Err EInvalidPeriod.
Proof.
  intros Hn.
  destruct (pattern_shape s) as [E|[(y & N)|[(y & m & ys & ms & -> & Ny & Nm)|[(y & q & ys & qs & -> & Ny & Nq)|(y & w & Sw)]]]].
  - exact E.
  - exfalso. apply (Hn (mk y 1 1) (mk y 12 31)). left. exists y. auto.
  - rewrite (pattern_month ys ms y m Ny Nm). destruct ((1 <=? m) && (m <=? 12)) eqn:E; [|reflexivity].
    exfalso. apply (Hn (mk y m 1) (mk y m (days_in_month y m))). right; left.
    exists ys, ms, y, m. split; [reflexivity|]. split; [exact Ny|]. split; [exact Nm|]. split; [lia|]. split; reflexivity.
  - rewrite (pattern_quarter ys qs y q Ny Nq). destruct ((1 <=? q) && (q <=? 4)) eqn:E; [|reflexivity].
    exfalso. apply (Hn (mk y (3 * q - 2) 1) (mk y (3 * q) (days_in_month y (3 * q)))). right; right; left.
    exists ys, qs, y, q. split; [reflexivity|]. split; [exact Ny|]. split; [exact Nq|]. split; [lia|]. split; reflexivity.
  - rewrite (pattern_week s y w Sw).
    destruct (week_outcome y w) as [[since until]|e|k] eqn:Ew.
    + exfalso. apply (Hn since until). right; right; right. exists y, w. split; [exact Sw|].
      destruct Sw as (ys & ws & _ & Ny & _). apply (week_outcome_ok y w); [apply (is_num4_range _ _ Ny) | exact Ew].
    + unfold week_outcome in Ew. destruct (w <? 1); [injection Ew as <-; reflexivity|].
      destruct ((y =? 9999) && (52 <=? w)); [injection Ew as <-; reflexivity|]. destruct (w <=? weeks_in_year y); [discriminate|].
      injection Ew as <-. reflexivity.
    + exfalso. exact (week_outcome_no_crash y w k Ew).
Qed.

(* number of ISO weeks of a year by the usual rule: 53 iff 1 January is a Thursday, or a Wednesday in a leap year *)
Lemma weeks_in_year_rule y :
  weeks_in_year y = if (weekday (mk y 1 1) =? 4) || ((weekday (mk y 1 1) =? 3) && is_leap y) then 53 else 52.
Proof.
  pose proof (week1_step y) as [S R]. pose proof (year_start_step y) as Ys. unfold year_len in Ys.
  unfold week1_monday, monday_of, weekday, days_of, mk in *. cbn [c_year c_month c_day] in *.
  rewrite (days_day y 1 4) in S. rewrite (days_day (y + 1) 1 4), Ys in S.
  set (J := days_from_civil y 1 1) in *. clearbody J.
  set (n := weeks_in_year y) in *. clearbody n.
  destruct (is_leap y);
    match goal with |- _ = if ?b then _ else _ => destruct b eqn:E end;
    Z.div_mod_to_equations; lia.
Qed.
