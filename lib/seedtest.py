#!/usr/bin/env python3
"""seedtest.py <patch.diff> <Cxx> [<Cyy> ...] — apply a seeded change to a scratch copy of /repo and run checks on it.

Nothing in /repo or /verif is touched: the scratch worktree lives under /tmp/seedrun, build output and
evidence/replays of the run go to /tmp/seedrun/out-<n>. Prints one line per property: CAUGHT / MISSED."""
import sys, os, subprocess, shutil, tempfile, json, time
ROOT = os.path.dirname(os.path.dirname(os.path.abspath(__file__)))
patch = os.path.abspath(sys.argv[1]); props = sys.argv[2:]
tier = os.environ.get("VERIF_TIER", "quick")
base = tempfile.mkdtemp(prefix="seedrun-", dir="/tmp")
wt = os.path.join(base, "repo")
subprocess.run(["git", "-C", "/repo", "worktree", "add", "-q", "--detach", wt, "HEAD"], check=True)
try:
    r = subprocess.run(["git", "-C", wt, "apply", "--whitespace=nowarn", patch], stdout=subprocess.PIPE, stderr=subprocess.STDOUT, text=True)
    if r.returncode != 0:
        print("PATCH-DOES-NOT-APPLY", r.stdout.strip()); sys.exit(2)
    env = dict(os.environ, VERIF_REPO=wt, VERIF_BUILD=os.path.join(base, "build"), VERIF_OUT=os.path.join(base, "out"))
    # the extracted driver does not depend on the implementation: reuse it
    os.makedirs(env["VERIF_BUILD"], exist_ok=True)
    for f in ("driver",):
        if os.path.exists(os.path.join(ROOT, "build", f)):
            shutil.copy(os.path.join(ROOT, "build", f), env["VERIF_BUILD"])
    if os.path.isdir(os.path.join(ROOT, "build", "extract")):
        shutil.copytree(os.path.join(ROOT, "build", "extract"), os.path.join(env["VERIF_BUILD"], "extract"))
    for p in props:
        t0 = time.time()
        r = subprocess.run(["python3", os.path.join(ROOT, "check.py"), p, "--tier", tier], cwd=ROOT, env=env, stdout=subprocess.PIPE, stderr=subprocess.STDOUT, text=True)
        viol = [l for l in r.stdout.split("\n") if l.startswith("VIOLATION")]
        first = ""
        if viol:
            path = viol[0].split("replay=")[1].split(" ")[0]
            try:
                o = json.load(open(path)); first = (o.get("why") or o.get("kind") or "")[:200]
            except Exception:
                pass
        print("%s %s exit=%d violations=%d %.0fs %s %s" % ("CAUGHT" if r.returncode == 1 and viol else "MISSED", p, r.returncode, len(viol), time.time() - t0,
                                                     "no-failing-input-found" if viol and "no-failing-input-found" in viol[0] else "", first))
        if os.environ.get("SEED_KEEP"):
            print("   output kept in", base)
finally:
    subprocess.run(["git", "-C", "/repo", "worktree", "remove", "--force", wt])
    if not os.environ.get("SEED_KEEP"):
        shutil.rmtree(base, ignore_errors=True)
