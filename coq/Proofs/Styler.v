(* Lemmas about Model/Styler.v (C18): the SGR matcher, themes, style boundaries, content neutrality. *)
From Klog Require Import Base.Prelude Base.Utf8 Model.Styler.
From Coq Require Import Arith.
Open Scope N_scope.

(* ---------- complete sequences ---------- *)

(* a string the regexp `\x1b\[[\d;]*m` matches entirely: an SGR sequence, parameters optional *)
Definition sgr_seq (m : bytes) : Prop :=
  exists ds, forallb is_param ds = true /\ m = c_esc :: c_lbr :: ds ++ [c_m].

(* a concatenation of complete sequences *)
Inductive sgrs : bytes -> Prop :=
| sgrs_nil : sgrs []
| sgrs_cons m s : sgr_seq m -> sgrs s -> sgrs (m ++ s).

Lemma is_param_m : is_param c_m = false. Proof. reflexivity. Qed.
Lemma is_param_esc : is_param c_esc = false. Proof. reflexivity. Qed.
Lemma is_param_lbr : is_param c_lbr = false. Proof. reflexivity. Qed.

Lemma params_len_all ds c r :
  forallb is_param ds = true -> is_param c = false -> params_len (ds ++ c :: r) = length ds.
Proof.
  induction ds as [|d ds IH]; simpl; intros H Hc.
  - now rewrite Hc.
  - apply andb_true_iff in H as [Hd H]. rewrite Hd. f_equal. now apply IH.
Qed.

Lemma params_len_firstn s : forallb is_param (firstn (params_len s) s) = true.
Proof.
  induction s as [|c r IH]; simpl; [reflexivity|].
  destruct (is_param c) eqn:E; simpl; [now rewrite E|reflexivity].
Qed.

Lemma params_len_le s : (params_len s <= length s)%nat.
Proof. induction s as [|c r IH]; simpl; [lia|]. destruct (is_param c); simpl; lia. Qed.

Lemma sgr_seq_length m : sgr_seq m -> (3 <= length m)%nat.
Proof. intros (ds & _ & ->). cbn [length]. rewrite app_length. cbn [length]. lia. Qed.

Lemma sgr_seq_nonnil m : sgr_seq m -> m <> [].
Proof. intros H ->. apply sgr_seq_length in H. simpl in H. lia. Qed.

(* the match at the head of m ++ r is m *)
Lemma sgr_len_seq m r : sgr_seq m -> sgr_len (m ++ r) = length m.
Proof.
  intros (ds & Hds & ->). cbn [app sgr_len]. rewrite !N.eqb_refl. cbn [andb].
  rewrite <- app_assoc. cbn [app]. rewrite (params_len_all ds c_m r Hds is_param_m).
  rewrite nth_error_app2 by lia. rewrite Nat.sub_diag. cbn [nth_error]. rewrite N.eqb_refl.
  cbn [length]. rewrite app_length. cbn [length]. lia.
Qed.

(* a non-zero sgr_len is the length of a complete sequence at the head *)
Lemma sgr_len_inv s n : sgr_len s = S n -> exists m r, s = m ++ r /\ sgr_seq m /\ length m = S n.
Proof.
  destruct s as [|e [|b r]]; cbn [sgr_len]; try discriminate.
  destruct ((e =? c_esc) && (b =? c_lbr)) eqn:E; [|discriminate].
  apply andb_true_iff in E as [He Hb]. apply N.eqb_eq in He, Hb. subst e b.
  destruct (nth_error r (params_len r)) as [c|] eqn:Hn; [|discriminate].
  destruct (c =? c_m) eqn:Hc; [|discriminate]. apply N.eqb_eq in Hc. subst c.
  intros [= <-].
  pose proof (nth_error_split r (params_len r) Hn) as (l1 & l2 & Hr & Hl).
  assert (Hf : firstn (params_len r) r = l1).
  { rewrite Hr at 2. rewrite <- Hl. rewrite firstn_app, Nat.sub_diag, firstn_all. simpl. now rewrite app_nil_r. }
  exists (c_esc :: c_lbr :: l1 ++ [c_m]), l2. split; [|split].
  - rewrite Hr at 1. cbn [app]. now rewrite <- app_assoc.
  - exists l1. split; [|reflexivity]. rewrite <- Hf. apply params_len_firstn.
  - cbn [length]. rewrite app_length. cbn [length]. lia.
Qed.

(* ---------- unfolding strip ---------- *)

Lemma strip_aux_skipn k s : strip_aux k s = strip (skipn k s).
Proof.
  revert k; induction s as [|c r IH]; intros [|k]; try reflexivity.
  cbn [strip_aux skipn]. apply IH.
Qed.

Lemma strip_nil : strip [] = [].
Proof. reflexivity. Qed.

Lemma strip_cons c r :
  strip (c :: r) = match sgr_len (c :: r) with
                   | O => c :: strip r
                   | S n => strip (skipn n r)
                   end.
Proof.
  unfold strip at 1. cbn [strip_aux]. destruct (sgr_len (c :: r)); [reflexivity|]. apply strip_aux_skipn.
Qed.

Lemma strip_seq m r : sgr_seq m -> strip (m ++ r) = strip r.
Proof.
  intros H. pose proof (sgr_len_seq m r H) as Hl. pose proof (sgr_seq_length m H) as H3.
  destruct m as [|c m']; [simpl in H3; lia|]. cbn [app] in *. rewrite strip_cons, Hl. cbn [length].
  f_equal. rewrite skipn_app, skipn_all, Nat.sub_diag. reflexivity.
Qed.

Lemma strip_no_match c r : sgr_len (c :: r) = O -> strip (c :: r) = c :: strip r.
Proof. intros H. now rewrite strip_cons, H. Qed.

Lemma strip_sgrs s r : sgrs s -> strip (s ++ r) = strip r.
Proof. induction 1 as [|m s Hm _ IH]; [reflexivity|]. now rewrite <- app_assoc, strip_seq. Qed.

Lemma strip_sgrs_nil s : sgrs s -> strip s = [].
Proof. intros H. rewrite <- (app_nil_r s). now rewrite strip_sgrs. Qed.

Lemma sgrs_app a b : sgrs a -> sgrs b -> sgrs (a ++ b).
Proof. induction 1; intros Hb; [exact Hb|]. rewrite <- app_assoc. constructor; auto. Qed.

Lemma sgrs_one m : sgr_seq m -> sgrs m.
Proof. intros H. rewrite <- (app_nil_r m). constructor; [exact H|constructor]. Qed.

(* a non-empty concatenation of sequences starts with ESC *)
Lemma sgrs_head s : sgrs s -> s <> [] -> exists t, s = c_esc :: t.
Proof.
  induction 1 as [|m s Hm Hs IH]; [congruence|]. intros _.
  destruct Hm as (ds & _ & ->). eexists. reflexivity.
Qed.

(* decision procedure for sgrs, used to check concrete themes by computation *)
Fixpoint sgrsb_fuel (fuel : nat) (s : bytes) : bool :=
  match fuel with
  | O => is_nil s
  | S k => match s with
           | [] => true
           | _ => match sgr_len s with O => false | S n => sgrsb_fuel k (skipn (S n) s) end
           end
  end.
Definition sgrsb (s : bytes) : bool := sgrsb_fuel (length s) s.

Lemma sgrsb_fuel_sound fuel s : sgrsb_fuel fuel s = true -> sgrs s.
Proof.
  revert s; induction fuel as [|k IH]; intros s; cbn [sgrsb_fuel].
  - destruct s; [constructor|discriminate].
  - destruct s as [|c r]; [constructor|].
    destruct (sgr_len (c :: r)) as [|n] eqn:E; [discriminate|]. intros H.
    apply sgr_len_inv in E as (m & r' & Hs & Hm & Hl). rewrite Hs in *.
    rewrite <- Hl in H. rewrite skipn_app, skipn_all, Nat.sub_diag in H. cbn [skipn app] in H.
    constructor; auto.
Qed.

Lemma sgrsb_sound s : sgrsb s = true -> sgrs s.
Proof. apply sgrsb_fuel_sound. Qed.

(* ---------- themes ---------- *)

(* every unit a styler can emit is a concatenation of complete sequences *)
Definition theme_ok (th : theme) : Prop :=
  sgrs (th_reset th) /\ sgrs (th_underlined th) /\ sgrs (th_bold th) /\
  forall c, c <> 0 -> lookup c (th_codes th) <> [] ->
    sgrs (th_fg_prefix th ++ lookup c (th_codes th) ++ th_suffix th) /\
    sgrs (th_bg_prefix th ++ lookup c (th_codes th) ++ th_suffix th).

Definition theme_okb (th : theme) : bool :=
  sgrsb (th_reset th) && sgrsb (th_underlined th) && sgrsb (th_bold th) &&
  forallb (fun kv => is_nil (snd kv) ||
                     (sgrsb (th_fg_prefix th ++ snd kv ++ th_suffix th) &&
                      sgrsb (th_bg_prefix th ++ snd kv ++ th_suffix th))) (th_codes th).

Lemma lookup_in k l : lookup k l <> [] -> In (k, lookup k l) l.
Proof.
  induction l as [|[k' v] r IH]; simpl; [congruence|].
  destruct (k =? k') eqn:E; intros H.
  - apply N.eqb_eq in E. subst. now left.
  - right. auto.
Qed.

Lemma theme_okb_sound th : theme_okb th = true -> theme_ok th.
Proof.
  unfold theme_okb, theme_ok. rewrite !andb_true_iff. intros [[[H1 H2] H3] H4].
  repeat split; try now apply sgrsb_sound.
  - pose proof (lookup_in _ _ H0) as Hin. rewrite forallb_forall in H4. specialize (H4 _ Hin). simpl in H4.
    destruct (lookup c (th_codes th)); [congruence|]. simpl in H4.
    apply andb_true_iff in H4 as [H4 _]. now apply sgrsb_sound.
  - pose proof (lookup_in _ _ H0) as Hin. rewrite forallb_forall in H4. specialize (H4 _ Hin). simpl in H4.
    destruct (lookup c (th_codes th)); [congruence|]. simpl in H4.
    apply andb_true_iff in H4 as [_ H4]. now apply sgrsb_sound.
Qed.

Lemma no_colour_ok : theme_ok no_colour.
Proof. apply theme_okb_sound. vm_compute. reflexivity. Qed.
Lemma dark_ok : theme_ok dark.
Proof. apply theme_okb_sound. vm_compute. reflexivity. Qed.
Lemma light_ok : theme_ok light.
Proof. apply theme_okb_sound. vm_compute. reflexivity. Qed.
Lemma basic_ok : theme_ok basic.
Proof. apply theme_okb_sound. vm_compute. reflexivity. Qed.

Lemma new_styler_ok name th : new_styler name = Ok th -> theme_ok th.
Proof.
  unfold new_styler.
  destruct (bytes_eqb name b!"no_colour"); [intros [= <-]; apply no_colour_ok|].
  destruct (bytes_eqb name b!"dark"); [intros [= <-]; apply dark_ok|].
  destruct (bytes_eqb name b!"light"); [intros [= <-]; apply light_ok|].
  destruct (bytes_eqb name b!"basic"); [intros [= <-]; apply basic_ok|discriminate].
Qed.

Lemma colour_seq_sgrs th c :
  theme_ok th -> sgrs (colour_seq th (th_fg_prefix th) c) /\ sgrs (colour_seq th (th_bg_prefix th) c).
Proof.
  intros (_ & _ & _ & H). unfold colour_seq.
  destruct (c =? 0) eqn:E0; cbn [negb andb]; [split; constructor|].
  destruct (lookup c (th_codes th)) as [|x l] eqn:El; cbn [is_nil negb]; [split; constructor|].
  apply N.eqb_neq in E0. specialize (H c E0). rewrite El in H. apply H. congruence.
Qed.

(* seqs_wellformed *)
Lemma seqs_sgrs th p : theme_ok th -> sgrs (seqs th p).
Proof.
  intros H. pose proof (colour_seq_sgrs th (p_color p) H) as [Hf _].
  pose proof (colour_seq_sgrs th (p_background p) H) as [_ Hb].
  destruct H as (Hr & Hu & Hbo & _). unfold seqs.
  repeat apply sgrs_app; auto.
  - destruct (p_underlined p); [auto|constructor].
  - destruct (p_bold p); [auto|constructor].
Qed.

Lemma seqs_strip th p : theme_ok th -> strip (seqs th p) = [].
Proof. intros H. apply strip_sgrs_nil, seqs_sgrs, H. Qed.

Lemma mark_sgrs th m : theme_ok th -> sgrs (mark_bytes th m).
Proof. intros H. destruct m; simpl; [now apply seqs_sgrs|apply H]. Qed.

Lemma mark_no_colour m : mark_bytes no_colour m = [].
Proof. destruct m as [[c b bo u]|]; [|reflexivity]. unfold mark_bytes, seqs, colour_seq. simpl.
  rewrite !andb_false_r. destruct u, bo; reflexivity. Qed.

(* ---------- sequences straddling a position ---------- *)

(* a non-empty suffix of a and a non-empty prefix of b together are one complete sequence *)
Definition spans (a b : bytes) : Prop :=
  exists a' p q b', a = a' ++ p /\ b = q ++ b' /\ p <> [] /\ q <> [] /\ sgr_seq (p ++ q).

Lemma spans_left x a b : spans a b -> spans (x ++ a) b.
Proof. intros (a' & p & q & b' & -> & -> & H). exists (x ++ a'), p, q, b'. rewrite app_assoc. auto. Qed.

Lemma spans_nil_l b : ~ spans [] b.
Proof. intros (a' & p & q & b' & H & _ & Hp & _). destruct a', p; simpl in H; congruence. Qed.

Lemma spans_nil_r a : ~ spans a [].
Proof. intros (a' & p & q & b' & _ & H & _ & Hq & _). destruct q; simpl in H; congruence. Qed.

(* the bytes of a sequence after its first are never ESC *)
Lemma sgr_seq_tail x t : sgr_seq (x :: t) -> ~ In c_esc t.
Proof.
  intros (ds & Hds & [= -> ->]). intros [H|H]; [discriminate|].
  apply in_app_or in H as [H|[H|[]]]; [|discriminate].
  rewrite forallb_forall in Hds. apply Hds in H. discriminate.
Qed.

Lemma spans_esc_r a t : ~ spans a (c_esc :: t).
Proof.
  intros (a' & p & q & b' & _ & Hb & Hp & Hq & Hs).
  destruct q as [|y q]; [congruence|]. cbn [app] in Hb. injection Hb as <- _.
  destruct p as [|x p]; [congruence|]. cbn [app] in Hs. apply sgr_seq_tail in Hs.
  apply Hs, in_or_app. right. now left.
Qed.

(* no match straddles the position: strip distributes *)
Lemma strip_app_nospan_len n : forall a b, (length a <= n)%nat -> ~ spans a b -> strip (a ++ b) = strip a ++ strip b.
Proof.
  induction n as [|n IH]; intros a b Hl Hs.
  - destruct a; [reflexivity|simpl in Hl; lia].
  - destruct a as [|c r]; [reflexivity|]. cbn [length] in Hl.
    destruct (sgr_len (c :: r)) as [|k] eqn:E.
    + (* no match at the head of a *)
      destruct (sgr_len ((c :: r) ++ b)) as [|k'] eqn:E'.
      * cbn [app] in *. rewrite (strip_no_match _ _ E), (strip_no_match _ _ E'). cbn [app]. f_equal.
        apply IH; [lia|]. intros H. apply Hs. apply (spans_left [c]) in H. exact H.
      * exfalso. apply sgr_len_inv in E' as (m & r' & Heq & Hm & Hlm).
        apply app_eq_app in Heq as (l & [[Ha Hr]|[Hm' Hb]]).
        -- rewrite Ha, (sgr_len_seq _ _ Hm), Hlm in E. discriminate.
        -- destruct l as [|y l].
           ++ rewrite app_nil_r in Hm'. subst m. rewrite <- (app_nil_r (c :: r)) in E.
              rewrite (sgr_len_seq _ _ Hm), Hlm in E. discriminate.
           ++ apply Hs. exists [], (c :: r), (y :: l), r'. repeat split; try congruence.
    + (* a match at the head of a *)
      apply sgr_len_inv in E as (m & r' & Heq & Hm & Hlm). rewrite Heq, <- app_assoc, (strip_seq m r' Hm), (strip_seq m (r' ++ b) Hm).
      apply IH.
      * apply (f_equal (@length _)) in Heq. rewrite app_length in Heq. cbn [length] in Heq. lia.
      * intros H. apply Hs. rewrite Heq. now apply spans_left.
Qed.

Lemma strip_app_nospan a b : ~ spans a b -> strip (a ++ b) = strip a ++ strip b.
Proof. apply (strip_app_nospan_len (length a)). lia. Qed.

(* a non-empty run of complete sequences separates what is before from what is after *)
Lemma strip_app_sgrs a s b : sgrs s -> s <> [] -> strip (a ++ s ++ b) = strip a ++ strip b.
Proof.
  intros Hs Hne. destruct (sgrs_head s Hs Hne) as (t & Ht).
  rewrite strip_app_nospan.
  - now rewrite strip_sgrs.
  - rewrite Ht. cbn [app]. apply spans_esc_r.
Qed.

(* ---------- text without ESC ---------- *)

Definition esc_free (s : bytes) : Prop := ~ In c_esc s.

Lemma sgr_len_esc c r n : sgr_len (c :: r) = S n -> c = c_esc.
Proof.
  destruct r as [|b r]; cbn [sgr_len]; [discriminate|].
  destruct (c =? c_esc) eqn:E; [intros _; now apply N.eqb_eq|discriminate].
Qed.

Lemma strip_esc_free s : esc_free s -> strip s = s.
Proof.
  induction s as [|c r IH]; intros H; [reflexivity|].
  destruct (sgr_len (c :: r)) as [|n] eqn:E.
  - rewrite (strip_no_match _ _ E). f_equal. apply IH. intros Hin. apply H. now right.
  - apply sgr_len_esc in E. exfalso. apply H. now left.
Qed.

Lemma spans_esc_free a b : esc_free a -> ~ spans a b.
Proof.
  intros H (a' & p & q & b' & -> & _ & Hp & _ & (ds & _ & Hs)).
  destruct p as [|x p]; [congruence|]. cbn [app] in Hs. injection Hs as -> _.
  apply H, in_or_app. right. now left.
Qed.

(* strip is not idempotent: removing a sequence can join the two halves of another one *)
Definition idem_witness : bytes := c_esc :: c_lbr :: c_esc :: b!"[0m3m".

Lemma strip_not_idempotent : strip (strip idem_witness) <> strip idem_witness.
Proof. vm_compute. discriminate. Qed.

Lemma strip_idempotent_esc_free s : esc_free (strip s) -> strip (strip s) = strip s.
Proof. apply strip_esc_free. Qed.

(* ---------- documents and boundaries ---------- *)

Section PieceInd.
  Variable P : piece -> Prop.
  Hypothesis HP : forall t, P (Plain t).
  Hypothesis HS : forall p kids, Forall P kids -> P (Styled p kids).
  Fixpoint piece_ind' (x : piece) : P x :=
    match x with
    | Plain t => HP t
    | Styled p kids =>
      HS p kids ((fix go (l : list piece) : Forall P l :=
                    match l with
                    | [] => Forall_nil P
                    | k :: r => Forall_cons k (piece_ind' k) (go r)
                    end) kids)
    end.
End PieceInd.

Lemma rend_app th l1 l2 : rend th (l1 ++ l2) = rend th l1 ++ rend th l2.
Proof. apply flat_map_app. Qed.

Lemma text_of_app l1 l2 : text_of (l1 ++ l2) = text_of l1 ++ text_of l2.
Proof. apply flat_map_app. Qed.

Lemma rend_no_colour l : rend no_colour l = text_of l.
Proof.
  induction l as [|[t|m] r IH]; simpl; [reflexivity| |].
  - now rewrite <- IH.
  - now rewrite mark_no_colour, <- IH.
Qed.

(* render is the concatenation of the tokens *)
Lemma render_flatten th : forall x outer, render th outer x = rend th (flatten outer x).
Proof.
  induction x as [t|p kids IH] using piece_ind'; intros outer; [simpl; now rewrite app_nil_r|].
  cbn [render flatten].
  set (body := (fix go (l : list piece) : bytes :=
                  match l with [] => [] | k :: r => render th (Some p) k ++ go r end) kids).
  set (toks := (fix go (l : list piece) : list tok :=
                  match l with [] => [] | k :: r => flatten (Some p) k ++ go r end) kids).
  assert (Hb : body = rend th toks).
  { subst body toks. induction IH as [|k r Hk _ IHr]; [reflexivity|]. rewrite rend_app, <- IHr, Hk. reflexivity. }
  change (M (MSeqs p) :: toks ++ M MReset :: match outer with None => [] | Some q => [M (MSeqs q)] end)
    with ([M (MSeqs p)] ++ toks ++ [M MReset] ++ match outer with None => [] | Some q => [M (MSeqs q)] end).
  rewrite !rend_app. rewrite <- Hb. unfold format_and_restore, format.
  destruct outer; simpl; rewrite ?app_nil_r, <- ?app_assoc; reflexivity.
Qed.

Lemma render_doc_flatten th doc : render_doc th doc = rend th (flatten_doc doc).
Proof.
  unfold render_doc, render_list, flatten_doc. induction doc as [|x r IH]; [reflexivity|].
  simpl. now rewrite rend_app, render_flatten, IH.
Qed.

Lemma render_doc_no_colour doc : render_doc no_colour doc = text_of (flatten_doc doc).
Proof. now rewrite render_doc_flatten, rend_no_colour. Qed.

(* no complete sequence straddles a style mark of the token list (acc = unstyled text to the left) *)
Definition safe_toks (acc : bytes) (l : list tok) : Prop :=
  forall l1 m l2, l = l1 ++ M m :: l2 -> ~ spans (acc ++ text_of l1) (text_of l2).

(* boundary_safe: in the unstyled output, no SGR-shaped byte sequence begins before a style
   boundary of the document and ends after it *)
Definition boundary_safe (doc : list piece) : Prop := safe_toks [] (flatten_doc doc).

Lemma strip_rend th : theme_ok th -> forall l acc, safe_toks acc l ->
  strip (acc ++ rend th l) = strip (acc ++ text_of l).
Proof.
  intros Hth. induction l as [|[t|m] r IH]; intros acc Hs; [reflexivity| |].
  - cbn [rend text_of flat_map tok_bytes]. rewrite !app_assoc. apply IH.
    intros l1 m l2 ->. rewrite <- app_assoc. apply (Hs (T t :: l1) m l2). reflexivity.
  - cbn [rend text_of flat_map tok_bytes].
    fold (rend th r). fold (text_of r). cbn [app].
    destruct (mark_bytes th m) as [|x s] eqn:Em.
    + cbn [app]. apply IH. intros l1 m' l2 ->. apply (Hs (M m :: l1) m' l2). reflexivity.
    + rewrite strip_app_sgrs; [|rewrite <- Em; now apply mark_sgrs|discriminate].
      rewrite <- (app_nil_l (rend th r)), IH, app_nil_l.
      * symmetry. apply strip_app_nospan. specialize (Hs [] m r eq_refl). cbn [text_of flat_map] in Hs.
        now rewrite app_nil_r in Hs.
      * intros l1 m' l2 ->. intros H. apply (Hs (M m :: l1) m' l2 eq_refl).
        cbn [text_of flat_map app]. fold (text_of l1). cbn [app] in H. now apply spans_left.
Qed.

(* content neutrality *)
Lemma strip_render th doc : theme_ok th -> boundary_safe doc ->
  strip (render_doc th doc) = strip (render_doc no_colour doc).
Proof.
  intros Hth Hs. rewrite render_doc_flatten, render_doc_no_colour.
  apply (strip_rend th Hth (flatten_doc doc) [] Hs).
Qed.

Lemma strip_render_any th1 th2 doc : theme_ok th1 -> theme_ok th2 -> boundary_safe doc ->
  strip (render_doc th1 doc) = strip (render_doc th2 doc).
Proof. intros H1 H2 Hs. rewrite (strip_render th1), (strip_render th2); auto. Qed.

(* without the hypothesis the statement is false *)
Definition unsafe_doc : list piece :=
  [Plain (c_esc :: b!"[3"); Styled (mk_props 5 0 false false) [Plain b!"1mX"]].

Lemma strip_render_unsafe : strip (render_doc dark unsafe_doc) <> strip (render_doc no_colour unsafe_doc).
Proof. vm_compute. discriminate. Qed.

(* ---------- documents whose own text has no ESC ---------- *)

Fixpoint esc_free_toks (l : list tok) : Prop :=
  match l with
  | [] => True
  | T t :: r => esc_free t /\ esc_free_toks r
  | M _ :: r => esc_free_toks r
  end.

Lemma esc_free_text l : esc_free_toks l -> esc_free (text_of l).
Proof.
  induction l as [|[t|m] r IH]; simpl; intros H; [intros []| |auto].
  destruct H as [Ht Hr]. intros Hin. apply in_app_or in Hin as [Hin|Hin]; [now apply Ht|now apply IH].
Qed.

Lemma esc_free_toks_app l1 l2 : esc_free_toks (l1 ++ l2) <-> esc_free_toks l1 /\ esc_free_toks l2.
Proof. induction l1 as [|[t|m] r IH]; simpl; tauto. Qed.

Inductive esc_free_piece : piece -> Prop :=
| efp_plain t : esc_free t -> esc_free_piece (Plain t)
| efp_styled p kids : Forall esc_free_piece kids -> esc_free_piece (Styled p kids).

Lemma esc_free_flatten : forall x outer, esc_free_piece x -> esc_free_toks (flatten outer x).
Proof.
  induction x as [t|p kids IH] using piece_ind'; intros outer H; inversion H; subst; [simpl; auto|].
  cbn [flatten esc_free_toks].
  apply esc_free_toks_app. split.
  - clear H. induction IH as [|k r Hk _ IHr]; [exact I|]. inversion H1; subst.
    apply esc_free_toks_app. split; auto.
  - destruct outer; simpl; auto.
Qed.

Lemma esc_free_flatten_doc doc : Forall esc_free_piece doc -> esc_free_toks (flatten_doc doc).
Proof.
  induction 1 as [|x r Hx _ IH]; [exact I|]. unfold flatten_doc. simpl.
  apply esc_free_toks_app. split; [now apply esc_free_flatten|exact IH].
Qed.

Lemma esc_free_boundary_safe doc : Forall esc_free_piece doc -> boundary_safe doc.
Proof.
  intros H l1 m l2 Heq. apply esc_free_flatten_doc in H. rewrite Heq in H.
  apply esc_free_toks_app in H as [H1 _]. apply spans_esc_free. simpl. now apply esc_free_text.
Qed.

(* for such documents stripping the styled output gives back exactly the unstyled output *)
Lemma strip_render_esc_free th doc : theme_ok th -> Forall esc_free_piece doc ->
  strip (render_doc th doc) = render_doc no_colour doc.
Proof.
  intros Hth H. rewrite (strip_render th doc Hth (esc_free_boundary_safe doc H)).
  apply strip_esc_free. rewrite render_doc_no_colour. apply esc_free_text, esc_free_flatten_doc, H.
Qed.

(* ---------- the boolean checkers decide the predicates ---------- *)

Lemma forallb_app_l {A} (f : A -> bool) l1 l2 : forallb f (l1 ++ l2) = true -> forallb f l1 = true.
Proof. rewrite forallb_app. now intros [H _]%andb_true_iff. Qed.

(* a non-empty proper prefix of a complete sequence *)
Lemma prefix_partial p q : p <> [] -> q <> [] -> sgr_seq (p ++ q) -> partialb p = true.
Proof.
  intros Hp Hq (ds & Hds & Heq).
  destruct p as [|e p0]; [congruence|]. cbn [app] in Heq. injection Heq as -> Heq.
  cbn [partialb]. rewrite N.eqb_refl. cbn [andb].
  destruct p0 as [|b ds0]; [reflexivity|]. cbn [app] in Heq. injection Heq as -> Heq.
  rewrite N.eqb_refl. cbn [andb].
  apply app_eq_app in Heq as (l & [[H1 H2]|[H1 H2]]).
  - destruct l as [|x l]; [rewrite app_nil_r in H1; now subst|].
    destruct l; cbn [app] in H2; [|destruct l; discriminate].
    injection H2 as _ H2. congruence.
  - rewrite H1 in Hds. now apply forallb_app_l in Hds.
Qed.

Lemma spansb_spans a b : spansb a b = true -> spans a b.
Proof.
  induction a as [|c r IH]; cbn [spansb]; [discriminate|].
  intros [H|H]%orb_true_iff.
  - apply andb_true_iff in H as [_ H]. unfold completesb in H.
    destruct (sgr_len ((c :: r) ++ b)) as [|n] eqn:E; [discriminate|].
    apply Nat.ltb_lt in H. apply sgr_len_inv in E as (m & r' & Heq & Hm & Hlm).
    apply app_eq_app in Heq as (l & [[H1 H2]|[H1 H2]]).
    + apply (f_equal (@length _)) in H1. rewrite app_length in H1. lia.
    + destruct l as [|y l].
      * rewrite app_nil_r in H1. subst m. lia.
      * exists [], (c :: r), (y :: l), r'. repeat split; try congruence.
  - apply (spans_left [c]). auto.
Qed.

Lemma spans_spansb a b : spans a b -> spansb a b = true.
Proof.
  intros (a' & p & q & b' & -> & -> & Hp & Hq & Hs).
  induction a' as [|x a' IH]; cbn [app].
  - destruct p as [|e p0]; [congruence|]. cbn [spansb]. apply orb_true_iff. left.
    rewrite (prefix_partial (e :: p0) q Hp Hq Hs). cbn [andb]. unfold completesb.
    rewrite app_assoc, (sgr_len_seq _ b' Hs).
    destruct q as [|y q]; [congruence|]. rewrite app_length. cbn [length].
    cbn [Nat.add]. apply Nat.ltb_lt. lia.
  - cbn [spansb]. apply orb_true_iff. right. exact IH.
Qed.

Lemma spansb_false a b : spansb a b = false -> ~ spans a b.
Proof. intros H Hs. apply spans_spansb in Hs. congruence. Qed.

(* a does not end inside an incomplete sequence *)
Definition closed (a : bytes) : Prop := danglingb a = false.

Lemma closed_nospan a b : closed a -> ~ spans a b.
Proof.
  unfold closed. intros Hc (a' & p & q & b' & -> & _ & Hp & Hq & Hs).
  pose proof (prefix_partial p q Hp Hq Hs) as Hpp.
  induction a' as [|x a' IH]; cbn [app] in Hc.
  - destruct p; [congruence|]. cbn [danglingb] in Hc. rewrite Hpp in Hc. discriminate.
  - cbn [danglingb] in Hc. apply orb_false_iff in Hc as [_ Hc]. auto.
Qed.

Lemma strip_app_closed a b : closed a -> strip (a ++ b) = strip a ++ strip b.
Proof. intros H. apply strip_app_nospan, closed_nospan, H. Qed.

Lemma safe_from_spec l : forall acc, safe_from acc l = true <-> safe_toks acc l.
Proof.
  induction l as [|[t|m0] r IH]; intros acc; cbn [safe_from].
  - split; [|reflexivity]. intros _ l1 m l2 H. destruct l1; discriminate.
  - rewrite IH. split; intros H l1 m l2 Heq.
    + destruct l1 as [|k l1]; [discriminate|]. cbn [app] in Heq. injection Heq as Hk Hr. subst k r.
      cbn [text_of flat_map]. fold (text_of l1). rewrite app_assoc. now apply (H l1 m l2).
    + subst r. specialize (H (T t :: l1) m l2 eq_refl). cbn [text_of flat_map] in H. fold (text_of l1) in H.
      now rewrite app_assoc in H.
  - rewrite andb_true_iff, negb_true_iff, IH. split.
    + intros [H1 H2] l1 m l2 Heq. destruct l1 as [|k l1].
      * cbn [app] in Heq. injection Heq as _ Hr. subst r. cbn [text_of flat_map]. rewrite app_nil_r. now apply spansb_false.
      * cbn [app] in Heq. injection Heq as Hk Hr. subst k r. cbn [text_of flat_map app]. fold (text_of l1). now apply (H2 l1 m l2).
    + intros H. split.
      * destruct (spansb acc (text_of r)) eqn:E; [|reflexivity]. exfalso.
        apply (H [] m0 r eq_refl). cbn [text_of flat_map]. rewrite app_nil_r. now apply spansb_spans.
      * intros l1 m l2 ->. apply (H (M m0 :: l1) m l2 eq_refl).
Qed.

Lemma boundary_safeb_spec doc : boundary_safeb doc = true <-> boundary_safe doc.
Proof. apply safe_from_spec. Qed.

(* ---------- boundary_safe is also necessary ---------- *)

Lemma params_len_allp ds : forallb is_param ds = true -> params_len ds = length ds.
Proof.
  induction ds as [|d ds IH]; [reflexivity|]. cbn [forallb params_len].
  intros [Hd H]%andb_true_iff. rewrite Hd. cbn [length]. f_equal. auto.
Qed.

Lemma partial_shape p : partialb p = true -> exists q0, p = c_esc :: q0 /\ esc_free q0 /\ sgr_len p = O.
Proof.
  destruct p as [|e q0]; [discriminate|]. cbn [partialb].
  intros [He H]%andb_true_iff. apply N.eqb_eq in He. subst e. exists q0. split; [reflexivity|].
  destruct q0 as [|b ds]; [split; [intros []|reflexivity]|].
  apply andb_true_iff in H as [Hb Hds]. apply N.eqb_eq in Hb. subst b. split.
  - intros [H|H]; [discriminate|]. rewrite forallb_forall in Hds. apply Hds in H. discriminate.
  - cbn [sgr_len]. rewrite !N.eqb_refl. cbn [andb]. rewrite (params_len_allp _ Hds).
    replace (nth_error ds (length ds)) with (@None N); [reflexivity|].
    symmetry. apply nth_error_None. lia.
Qed.

Lemma strip_partial p : partialb p = true -> strip p = p.
Proof.
  intros H. apply partial_shape in H as (q0 & -> & Hq & Hl).
  rewrite (strip_no_match _ _ Hl). f_equal. now apply strip_esc_free.
Qed.

(* a straddling sequence is removed from a ++ b but survives in a and in b *)
Lemma strip_len_spans a b : spans a b ->
  (length (strip (a ++ b)) < length (strip a) + length (strip b))%nat.
Proof.
  intros (a' & p & q & b' & -> & -> & Hp & Hq & Hs).
  pose proof (prefix_partial p q Hp Hq Hs) as Hpp.
  assert (E1 : strip ((a' ++ p) ++ q ++ b') = strip a' ++ strip b').
  { rewrite <- app_assoc, (app_assoc p q b'). apply strip_app_sgrs; [now apply sgrs_one|].
    destruct p; [congruence|discriminate]. }
  assert (E2 : strip (a' ++ p) = strip a' ++ p).
  { rewrite strip_app_nospan, (strip_partial _ Hpp); [reflexivity|].
    destruct (partial_shape _ Hpp) as (q0 & -> & _). apply spans_esc_r. }
  assert (E3 : strip (q ++ b') = q ++ strip b').
  { assert (Hf : esc_free q).
    { destruct p as [|x p]; [congruence|]. cbn [app] in Hs. apply sgr_seq_tail in Hs.
      intros Hin. apply Hs, in_or_app. now right. }
    rewrite strip_app_nospan, (strip_esc_free _ Hf); [reflexivity|now apply spans_esc_free]. }
  rewrite E1, E2, E3, !app_length.
  destruct p; [congruence|]. destruct q; [congruence|]. cbn [length]. lia.
Qed.

Lemma strip_len_app a b : (length (strip (a ++ b)) <= length (strip a) + length (strip b))%nat.
Proof.
  destruct (spansb a b) eqn:E.
  - apply spansb_spans, strip_len_spans in E. lia.
  - apply spansb_false in E. rewrite (strip_app_nospan _ _ E), app_length. lia.
Qed.

Definition unsafe_toks (acc : bytes) (l : list tok) : Prop :=
  exists l1 m l2, l = l1 ++ M m :: l2 /\ spans (acc ++ text_of l1) (text_of l2).

Lemma safe_from_false l : forall acc, safe_from acc l = false -> unsafe_toks acc l.
Proof.
  induction l as [|[t|m0] r IH]; intros acc; cbn [safe_from]; [discriminate| |].
  - intros H. apply IH in H as (l1 & m & l2 & -> & H). exists (T t :: l1), m, l2. split; [reflexivity|].
    cbn [text_of flat_map]. fold (text_of l1). now rewrite app_assoc.
  - intros [H|H]%andb_false_iff.
    + apply negb_false_iff in H. exists [], m0, r. split; [reflexivity|].
      cbn [text_of flat_map]. rewrite app_nil_r. now apply spansb_spans.
    + apply IH in H as (l1 & m & l2 & -> & H). exists (M m0 :: l1), m, l2. split; [reflexivity|exact H].
Qed.

Lemma mark_nonnil th m : th_reset th <> [] -> mark_bytes th m <> [].
Proof.
  intros H. destruct m; cbn [mark_bytes]; [|exact H]. unfold seqs.
  destruct (th_reset th); [congruence|discriminate].
Qed.

Lemma strip_rend_le th : theme_ok th -> th_reset th <> [] -> forall l acc,
  (length (strip (acc ++ text_of l)) <= length (strip (acc ++ rend th l)))%nat.
Proof.
  intros Hth Hr. induction l as [|[t|m] r IH]; intros acc; [apply le_n| |].
  - cbn [rend text_of flat_map tok_bytes]. rewrite !app_assoc. apply IH.
  - cbn [rend text_of flat_map tok_bytes app]. fold (rend th r). fold (text_of r).
    rewrite (strip_app_sgrs acc _ (rend th r) (mark_sgrs th m Hth) (mark_nonnil th m Hr)), app_length.
    pose proof (strip_len_app acc (text_of r)). pose proof (IH []). cbn [app] in *. lia.
Qed.

Lemma strip_rend_lt th : theme_ok th -> th_reset th <> [] -> forall l acc, unsafe_toks acc l ->
  (length (strip (acc ++ text_of l)) < length (strip (acc ++ rend th l)))%nat.
Proof.
  intros Hth Hr. induction l as [|[t|m0] r IH]; intros acc (l1 & m & l2 & Heq & Hsp).
  - destruct l1; discriminate.
  - destruct l1 as [|k l1]; [discriminate|]. cbn [app] in Heq. injection Heq as Hk Hrr. subst k r.
    cbn [rend text_of flat_map tok_bytes]. rewrite !app_assoc. apply IH.
    exists l1, m, l2. split; [reflexivity|]. cbn [text_of flat_map] in Hsp. fold (text_of l1) in Hsp.
    now rewrite app_assoc in Hsp.
  - cbn [rend text_of flat_map tok_bytes app]. fold (rend th r). fold (text_of r).
    rewrite (strip_app_sgrs acc _ (rend th r) (mark_sgrs th m0 Hth) (mark_nonnil th m0 Hr)), app_length.
    pose proof (strip_rend_le th Hth Hr r []) as Hle. cbn [app] in Hle.
    pose proof (strip_len_app acc (text_of r)) as Hsub.
    assert (Hcase : spans acc (text_of r) \/ unsafe_toks [] r).
    { destruct l1 as [|k l1]; cbn [app] in Heq.
      - injection Heq as _ Hrr. subst r. left. cbn [text_of flat_map] in Hsp. now rewrite app_nil_r in Hsp.
      - injection Heq as Hk Hrr. subst k r. cbn [text_of flat_map app] in Hsp. fold (text_of l1) in Hsp.
        destruct Hsp as (a' & p & q & b' & Ha & Hb & Hp & Hq & Hs).
        apply app_eq_app in Ha as (l & [[H1 H2]|[H1 H2]]).
        + destruct l as [|y l].
          * right. exists l1, m, l2. split; [reflexivity|]. cbn [app] in *. subst p.
            exists [], (text_of l1), q, b'. repeat split; auto.
          * left. rewrite text_of_app. cbn [text_of flat_map app]. fold (text_of l2).
            exists a', (y :: l), (text_of l1 ++ q), b'. repeat split; try congruence.
            -- rewrite Hb. now rewrite app_assoc.
            -- destruct (text_of l1); [cbn [app]; exact Hq|discriminate].
            -- rewrite app_assoc, <- H2. exact Hs.
        + right. exists l1, m, l2. split; [reflexivity|]. cbn [app].
          exists l, p, q, b'. repeat split; auto. }
    destruct Hcase as [H|H].
    + apply strip_len_spans in H. lia.
    + apply IH in H. cbn [app] in H. lia.
Qed.

(* if a sequence straddles a boundary, every theme that emits something at every boundary
   (a non-empty reset) makes the stripped outputs differ *)
Lemma boundary_safe_necessary th doc : theme_ok th -> th_reset th <> [] -> ~ boundary_safe doc ->
  strip (render_doc th doc) <> strip (render_doc no_colour doc).
Proof.
  intros Hth Hr Hn. destruct (boundary_safeb doc) eqn:E; [apply boundary_safeb_spec in E; contradiction|].
  apply safe_from_false in E. apply (strip_rend_lt th Hth Hr) in E. cbn [app] in E.
  rewrite render_doc_flatten, render_doc_no_colour. intros Heq. rewrite Heq in E. lia.
Qed.

Lemma boundary_safe_iff doc :
  boundary_safe doc <->
  forall th, theme_ok th -> strip (render_doc th doc) = strip (render_doc no_colour doc).
Proof.
  split; [intros H th Hth; now apply strip_render|].
  intros H. destruct (boundary_safeb doc) eqn:E; [now apply boundary_safeb_spec|]. exfalso.
  assert (Hn : ~ boundary_safe doc) by (intros Hs; apply boundary_safeb_spec in Hs; congruence).
  apply (boundary_safe_necessary dark doc dark_ok) in Hn; [|discriminate]. apply Hn, H, dark_ok.
Qed.

(* ---------- strip removes every SGR sequence ---------- *)

(* whatever its parameters, also none (ESC [ m): removed, and it shows zero characters *)
Lemma strip_removes_sgr m : sgr_seq m -> strip m = [] /\ vis_len m = 0%nat /\ forall r, strip (m ++ r) = strip r.
Proof.
  intros H. assert (E : strip m = []) by (apply strip_sgrs_nil; now apply sgrs_one).
  split; [exact E|]. split; [unfold vis_len; now rewrite E|]. intros r. now apply strip_seq.
Qed.

Lemma sgr_seq_reset : sgr_seq (c_esc :: b!"[m").
Proof. exists []. split; reflexivity. Qed.
