"""C02 — total, should-total and diff follow the specification's evaluation rules."""
import sys, os, datetime
sys.path.insert(0, os.path.dirname(os.path.dirname(os.path.abspath(__file__))))
from check import Suite
import specgen
from props.parsing import docs

EXPECT = {}

def gen_total(tier, rng):
    n = 4000 if tier == "quick" else 400000
    out = []
    for d in docs(rng, n, max_records=6, max_entries=8):
        if not d.records:
            continue
        # keep numbers inside int64 (beyond it: known finding K1)
        if any(abs(e.minutes()) > 10**14 for r in d.records for e in r.entries):
            continue
        # reference instant: on, one day after, or far from the date of some record
        r0 = rng.choice(d.records)
        y, m, dd = r0.ymd
        ok_date = 1 <= y <= 9998
        use_now = rng.random() < 0.6 and ok_date
        if ok_date:
            base = datetime.date(y, m, dd) + datetime.timedelta(days=rng.choice([0, 0, 1, 1, 2, -1]))
        else:
            base = datetime.date(2020, 6, 15)
        h, mi = rng.randrange(24), rng.randrange(60)
        opens = [e.a.off for r in d.records for e in r.entries if e.kind == "open"]
        if use_now and opens and rng.random() < 0.4:
            # the very minute an open range started (a range of length zero is a range), or the minute before / after
            o = (rng.choice(opens) + rng.choice([0, 0, 0, -1, 1])) % 1440
            h, mi = o // 60, o % 60
        req = "eval-total %d %d %d %d %d %d %s" % (base.year, base.month, base.day, h, mi, 1 if use_now else 0, d.render().hex())
        # what the specification says
        total = sum(r.total() for r in d.records)
        should = sum(r.should.mins() for r in d.records if r.should is not None)
        status = "ok"
        if use_now:
            now_off = h * 60 + mi
            for r in d.records:
                for e in r.entries:
                    if e.kind == "open":
                        try:
                            rd = datetime.date(*r.ymd)
                        except ValueError:
                            rd = None
                        if rd == base: end = now_off
                        elif rd is not None and (base - rd).days == 1: end = now_off + 1440
                        else: status = "err"; continue
                        if end < e.a.off: status = "err"
                        else: total += end - e.a.off
        EXPECT[req] = "err uncloseable" if status == "err" else "ok %d %d %d %d" % (total, should, total - should, len(d.records))
        out.append(req)
    # several open ranges closed by one --now: yesterday's and today's records in either order, duplicate dates
    for _ in range(1500 if tier == "quick" else 100000):
        base = datetime.date(rng.choice([2020, 2021, 2024]), rng.randint(1, 12), rng.randint(1, 28))
        h, mi = rng.randrange(24), rng.randrange(60)
        now_off = h * 60 + mi
        recs = []
        for _k in range(rng.choice([2, 2, 3, 4])):
            delta = rng.choice([0, 0, -1, -1, -2, 1])
            d = base + datetime.timedelta(days=delta)
            start = rng.choice([0, rng.randrange(1440), max(0, now_off - 5), min(1439, now_off + 5), now_off, now_off, max(0, now_off - 1), min(1439, now_off + 1)])
            shifted = rng.random() < 0.15
            recs.append((d, delta, start, shifted, rng.random() < 0.8, rng.randrange(0, 120)))
        text = ""; total = 0; status = "ok"
        for d, delta, start, shifted, has_open, extra in recs:
            text += "%04d-%02d-%02d\n    %dm\n" % (d.year, d.month, d.day, extra)
            total += extra
            if has_open:
                st = start - 1440 if shifted else start
                text += "    %s%d:%02d - ?\n" % ("<" if shifted else "", start // 60, start % 60)
                if delta == 0: end = now_off
                elif delta == -1: end = now_off + 1440
                else: status = "err"; end = None
                if end is not None:
                    if end < st: status = "err"
                    else: total += end - st
            text += "\n"
        req = "eval-total %d %d %d %d %d 1 %s" % (base.year, base.month, base.day, h, mi, text.encode().hex())
        EXPECT[req] = "err uncloseable" if status == "err" else "ok %d 0 %d %d" % (total, total, len(recs))
        out.append(req)
    return out

def gen_total_dst(tier, rng):
    out = []
    days = [datetime.date(2024, 3, 30), datetime.date(2024, 3, 31), datetime.date(2024, 4, 1), datetime.date(2024, 10, 26), datetime.date(2024, 10, 27), datetime.date(2024, 10, 28)]
    for base in days:
        minutes = sorted(set(list(range(0, 1440, 15)) + list(range(0, 185)) + list(range(1380, 1440))))
        if tier == "quick": minutes = minutes[::3] + [30, 45, 90, 150, 1410]
        for mnt in minutes:
            if base == datetime.date(2024, 3, 31) and 120 <= mnt < 180:
                continue       # that hour does not exist on the day the clocks go forward
            for delta in (0, -1, -2):
                d = base + datetime.timedelta(days=delta)
                start = rng.choice([0, 600, 1320, 1439, max(0, mnt - 1)])
                text = "%04d-%02d-%02d\n    %d:%02d - ?\n    5m\n" % (d.year, d.month, d.day, start // 60, start % 60)
                req = "eval-total %d %d %d %d %d 1 %s" % (base.year, base.month, base.day, mnt // 60, mnt % 60, text.encode().hex())
                if delta == -2: want = "err uncloseable"
                else:
                    end = mnt + (1440 if delta == -1 else 0)
                    want = "err uncloseable" if end < start else "ok %d 0 %d 1" % (5 + end - start, 5 + end - start)
                EXPECT[req] = want
                out.append(req)
    return out

def gen_total_cfg(tier, rng):
    """the same evaluations with a configuration file present (default should-total, rounding, date format, clock convention):
       settings for what klog writes must not change what it reports"""
    out = []
    for req in gen_total(tier, rng)[: (1500 if tier == "quick" else 100000)]:
        r2 = "eval-total-cfg" + req[len("eval-total"):]
        if req in EXPECT: EXPECT[r2] = EXPECT[req]
        out.append(r2)
    return out

def oracle_total(req, out):
    want = EXPECT.get(req)
    if want is None: return None
    if out != want:
        return "klog total reports %r, the evaluation rules of the specification give %r" % (out, want)
    return None

def suites():
    return [
        Suite("total", gen_total, oracle=oracle_total,
              rule="`klog total --diff [--now]` on conforming documents (mixed +/-/0 durations, all shift combinations, open ranges, duplicate dates, missing/negative should-totals) at an instant on / one day after / away from a record's date; non-trivial = a total was reported",
              nontrivial=lambda r, o: o.startswith("ok")),
        Suite("total-with-config", gen_total_cfg, oracle=oracle_total, model=False,
              rule="oracle-only: the same requests with a config.ini (default_should_total, default_rounding, date_format, time_convention) in klog's config folder: the reported total, should-total and diff must not change",
              nontrivial=lambda r, o: o.startswith("ok")),
        Suite("total-dst", gen_total_dst, oracle=oracle_total, env={"TZ": "Europe/Berlin"},
              rule="`klog total --now` with the process in TZ=Europe/Berlin on the days around the daylight-saving switches of 2024 (30 March - 1 April, 26 - 28 October) at every quarter of an hour and every minute of the hours after midnight: yesterday is the previous calendar day, not `24 hours ago`",
              nontrivial=lambda r, o: o.startswith("ok")),
    ]
