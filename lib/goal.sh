#!/bin/bash
# goal.sh <file.v> <line>: show the proof state after <line> lines of the file
f=$1; n=$2
head -n $n $f > /tmp/_goal.v; echo "Show." >> /tmp/_goal.v
cd /verif/coq && coqc -Q . Klog /tmp/_goal.v 2>&1 | grep -v "pending proofs" | head -${3:-60}
