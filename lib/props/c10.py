"""C10 — syntax errors are reported at the right place and can always be displayed."""
import sys, os
sys.path.insert(0, os.path.dirname(os.path.dirname(os.path.abspath(__file__))))
from check import Suite
import specgen
from props.parsing import *

FAULT = {}

def gen_faulted(tier, rng):
    n = 10000 if tier == "quick" else 300000
    out = []
    for d in docs(rng, n):
        f = specgen.inject_fault(d, rng)
        if f is None:
            continue
        r = req_parse(f[0])
        FAULT[r] = (f[1], f[2])
        out.append(r)
    return out

def oracle_faulted(req, out):
    v = errors_located(req, out)
    if v: return v
    if req in FAULT:
        f = out.split(" ")
        if f[0] != "errors":
            return None          # acceptance of faulted texts is C01's business
        first = int(f[2].split(":")[0])
        if first != FAULT[req][0]:
            return "first error on line %d, but the text stops conforming on line %d (%s)" % (first, FAULT[req][0], FAULT[req][1])
    return None

def several_faults(rng, n):
    """texts with SEVERAL faults, in one record and across records, built so that a later line's fault is found by an earlier
       stage of the parser than an earlier line's (errors must still come out in ascending line order): a second open range
       whose summary has a malformed continuation line, a bad headline above bad entries, a wrong indentation below a bad entry"""
    out = []
    blanks = ["\u00a0", "\u3000", " \u00a0", "\u2003"]
    for _ in range(n):
        ind = rng.choice(["    ", "  ", "\t", "   "])
        eol = rng.choice(["\n", "\n", "\r\n"])
        k = rng.randrange(6)
        L = ["2020-01-01"]
        if k == 0:
            L += [ind + "8:00-?", ind + "9:00-? Foo", ind + ind + rng.choice(blanks)]
        elif k == 1:
            L += [ind + "8:00 - ?", ind + "1h", ind + "10:00 - ?? again", ind + ind + "more", ind + ind + rng.choice(blanks), ind + "x"]
        elif k == 2:
            L = ["2020-01-01 oops", ind + "8:00 - 7:00", ind + "1h60m", ind + ind + rng.choice(blanks)]
        elif k == 3:
            L += [ind + "25:00 - 26:00", (" " if ind != "\t" else "\t ") + ind + "1h", ind + "8:00 - ? a", ind + "9:00 - ? b"]
        elif k == 4:
            L += ["summary", rng.choice(blanks) + "bad summary", ind + "8:00-?", ind + "9:00-?", ind + ind + rng.choice(blanks)]
        else:
            L += [ind + "1h ok", ind + ind + rng.choice(blanks), ind + "8:00 -", ind + "<8:00> - 9:00"]
        if rng.random() < 0.5:
            L = ["2019-12-31", ind + "2h", ""] + L
        if rng.random() < 0.5:
            L += ["", "2020-13-01", ind + "1h"]
        out.append((eol.join(L) + (eol if rng.random() < 0.8 else "")).encode())
    return out

def gen_malformed(tier, rng):
    out = [req_parse(b) for b in several_faults(rng, 600 if tier == "quick" else 40000)]
    return out + [req_parse(b) for b in byte_stream(tier, rng, 3000 if tier == "quick" else 200000, 1000 if tier == "quick" else 100000, 3) if len(b) < 20000]

def gen_render(tier, rng):
    n = 800 if tier == "quick" else 30000
    out = []
    for d in docs(rng, n, max_records=3):
        f = specgen.inject_fault(d, rng)
        if f: out.append("render-errors " + f[0].hex())
    for b in byte_stream(tier, rng, n, n // 2, 2):
        if len(b) < 3000: out.append("render-errors " + (b.hex() if b else "-"))
    return out

def oracle_render(req, out):
    if out.startswith("ok") or out == "valid":
        return None
    return "terminal / JSON rendering of the errors disagrees with the reported positions or failed: " + out[:200]

def suites():
    return [
        Suite("faulted", gen_faulted, oracle=oracle_faulted,
              rule="one rule-violating edit at a random line of a conforming document; checks existence/quote/span/order of every error and the line of the first; non-trivial = rejected",
              nontrivial=lambda r, o: o.startswith("errors")),
        Suite("malformed", gen_malformed, oracle=errors_located,
              rule="token strings, mutated documents, random bytes; every reported error must be located inside the text; non-trivial = rejected",
              nontrivial=lambda r, o: o.startswith("errors")),
        Suite("renderings", gen_render, oracle=oracle_render, model=False,
              rule="PrettifyParsingError and `klog json` on invalid texts, serial and parallel: line number, caret offset/count, line/column/length must equal the reported positions; non-trivial = >= 1 error rendered",
              nontrivial=lambda r, o: o.startswith("ok")),
    ]
