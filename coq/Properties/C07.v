(* C07 — property theorems (being built). *)
From Klog Require Import Base.Prelude Model.Lines Model.Parser Model.Parallel.
