"""C14 — tags are recognised, matched and totalled as the specification defines.

Suites (request formats: coq/Model/SuiteTags.v, harness/suite_tags.go):
  recognise   tags-find      Summary.Tags() on summary lines: exhaustive short strings over a 14-symbol alphabet + random
  match       tags-contains  NewTagFromString(query) + TagSet.Contains
  totals      tags-agg       service.AggregateTotalsByTags over small sets of records

The oracles below are written from Specification.md ("Tag") and the property text, not from the Go code or the
Coq model: an independent scanner (spec_tags), an independent matcher and an independent aggregation."""
import sys, os, itertools, unicodedata
sys.path.insert(0, os.path.dirname(os.path.dirname(os.path.abspath(__file__))))
from common import hx, unhx
from check import Suite

I64 = 2**63 - 1

# ----------------------------------------------------------------------------- the specification, executable

def is_letter(ch):
    # "letter": A character as defined by the Unicode Letter category (L)
    return unicodedata.category(ch).startswith("L")


def is_name_char(ch):
    # The tag name MUST only contain "letters", "digits" (0-9), or the characters `_` or `-`.
    return is_letter(ch) or ch in "0123456789_-"


def lower1(ch):
    # "interpreted as if it was all lower-case": the simple per-character mapping of UnicodeData.txt.
    # Python's str.lower() is the full mapping; the two differ only for U+0130, whose simple mapping is U+0069.
    if ch == "\u0130":
        return "i"
    l = ch.lower()
    return l if len(l) == 1 else ch


def unknown_to_oracle(*texts):
    """the oracle abstains on code points that are unassigned in Python's (older) Unicode data: whether they are
       letters is decided by the Unicode version of the Go toolchain (model and implementation are still compared)"""
    return any(unicodedata.category(c) == "Cn" for t in texts for c in t)


def norm_name(name):
    return "".join(lower1(c) for c in name)


def tag_at(line, i):
    """the tag starting at line[i] == '#', or None: (name as written, value, end of its extent)"""
    n = len(line)
    if line[i] != "#":
        return None
    j = i + 1
    while j < n and is_name_char(line[j]):
        j += 1
    if j == i + 1:
        return None                       # a tag name must not be empty
    name, value, end = line[i + 1:j], "", j
    if j < n and line[j] == "=":
        end = j + 1                       # `#tag=`: an empty value is the same as an absent one
        k = j + 1
        if k < n and line[k] in "\"'":
            close = line.find(line[k], k + 1)
            # no matching closing quote on the same line: the value is absent
            if close >= 0 and "\n" not in line[k + 1:close]:
                value, end = line[k + 1:close], close + 1
        else:
            m = k
            while m < n and is_name_char(line[m]):
                m += 1
            value, end = line[k:m], m
    return name, value, end


def spec_tags(line):
    """the tags of one summary line, left to right, not overlapping: [(normalised name, value)]"""
    out, i = [], 0
    while i < len(line):
        t = tag_at(line, i) if line[i] == "#" else None
        if t:
            out.append((norm_name(t[0]), t[1]))
            i = t[2]
        else:
            i += 1
    return out


def spec_summary_tags(lines):
    return [t for l in lines for t in spec_tags(l)]


def spec_matches(tags, q):
    """a tag with value also matches its bare name; names case-insensitive (already normalised), values literal"""
    return any(n == q[0] and (q[1] == "" or v == q[1]) for n, v in tags)


def dec(b):
    return b.decode("utf-8", "surrogateescape")


def enc(s):
    return s.encode("utf-8", "surrogateescape")


def lines_of(tok):
    return [] if tok == "_" else [dec(unhx(h)) for h in tok.split(",")]


def tok_of(lines):
    return "_" if not lines else ",".join(hx(enc(l)) for l in lines)


def pair(s):
    n, v = s.split(":")
    return dec(unhx(n)), dec(unhx(v))


def field(out, key):
    for f in out.split(" ")[1:]:
        if f.startswith(key + "="):
            return f[len(key) + 1:]
    return None

# ----------------------------------------------------------------------------- oracles

def oracle_find(req, out):
    _, _kind, ltok = req.split(" ")
    lines = lines_of(ltok)
    if not out.startswith("ok "):
        return "Summary.Tags() did not return: %s" % out
    if unknown_to_oracle(*lines):
        return None
    want = spec_summary_tags(lines)
    o = field(out, "o")
    got = [pair(x) for x in o.split(",")] if o else []
    if got != want:
        return "summary %r: the specification's tags are %r, klog found %r" % (lines, want, got)
    # the lookup set: every tag and, for a tag with value, its bare name
    l = field(out, "l")
    gl = [pair(x) for x in l.split(",")] if l else []
    wl = sorted(set(want) | set((n, "") for n, _ in want), key=lambda t: enc(t[0]) + b"=" + enc(t[1]))
    if gl != wl:
        return "summary %r: lookup set should be %r, is %r" % (lines, wl, gl)
    # ToStrings(): each printed tag reads back, by the specification, as exactly that tag
    s = field(out, "s")
    gs = [dec(unhx(x)) for x in s.split(",")] if s else []
    if len(gs) != len(want):
        return "ToStrings() has %d items for %d tags" % (len(gs), len(want))
    for txt, t in zip(gs, want):
        back = tag_at(txt, 0) if txt.startswith("#") else None
        if not back or back[2] != len(txt) or (norm_name(back[0]), back[1]) != t:
            return "tag %r is printed as %r, which does not read back as that tag" % (t, txt)
    return None


def oracle_contains(req, out):
    _, qtok, ltok = req.split(" ")
    q = dec(unhx(qtok))
    lines = lines_of(ltok)
    if out == "crash":
        return "crash on query %r" % q
    if unknown_to_oracle(q, *lines):
        return None
    full = q if q.startswith("#") else "#" + q
    t = tag_at(full, 0)
    valid = t is not None and t[2] == len(full)
    f = out.split(" ")
    if not valid:
        return None if f[0] == "err" else "query %r is not a tag but was accepted as %s" % (q, out)
    if f[0] != "ok":
        return "query %r is a tag but was rejected" % q
    want_q = (norm_name(t[0]), t[1])
    if pair(f[1]) != want_q:
        return "query %r denotes %r, klog read %r" % (q, want_q, pair(f[1]))
    want = spec_matches(spec_summary_tags(lines), want_q)
    if (f[3] == "1") != want:
        return "summary %r %s tag %r by the specification, klog says %s" % (lines, "matches" if want else "does not match", want_q, f[3])
    return None


def parse_agg(req):
    toks = req.split(" ")[1:]
    recs, i = [], 0
    while i < len(toks):
        if toks[i] == "R":
            recs.append((lines_of(toks[i + 1]), []))
            i += 2
        else:
            recs[-1][1].append((int(toks[i + 1]), lines_of(toks[i + 2])))
            i += 3
    return recs


def spec_totals(recs):
    """per tag and per tag=value: (sum of the durations, number) of the entries that carry it; each entry at most once.
       Also reports whether some running total leaves the int64 range."""
    tot, overflow = {}, False
    for rlines, entries in recs:
        rt = spec_summary_tags(rlines)
        for mins, elines in entries:
            carried = rt + spec_summary_tags(elines)
            keys = set(carried) | set((n, "") for n, _ in carried)
            for k in keys:
                s, c = tot.get(k, (0, 0))
                if abs(s + mins) > I64 or abs(mins) > I64:
                    overflow = True
                tot[k] = (s + mins, c + 1)
    return tot, overflow


def oracle_agg(req, out):
    recs = parse_agg(req)
    if unknown_to_oracle(*[l for r in recs for l in r[0] + [x for e in r[1] for x in e[1]]]):
        return None
    tot, overflow = spec_totals(recs)
    if out == "crash":
        return "klog tags crashes%s" % (" (a running total leaves the int64 range)" if overflow else "")
    if not out.startswith("ok"):
        return "unexpected output %s" % out
    got = []
    for item in out.split(" ")[1:]:
        n, v, m, c = item.split(":")
        got.append(((dec(unhx(n)), dec(unhx(v))), (int(m), int(c))))
    want = sorted(tot.items(), key=lambda kv: enc(kv[0][0]) + b"=" + enc(kv[0][1]))
    if got != want:
        return "per-tag totals should be %r, klog reports %r" % (want, got)
    return None


def k14_total_overflow(req, out):
    """known finding: AggregateTotalsByTags panics ('Integer overflow', Duration.Plus/safemath) when a tag's running
       total leaves the int64 range; matches only such requests"""
    if not req.startswith("tags-agg") or out != "crash":
        return False
    return spec_totals(parse_agg(req))[1]

# ----------------------------------------------------------------------------- generators

ALPHABET = ["#", "=", "\"", "'", "a", "A", "\u00df", "\u8aad", "1", "_", "-", " ", ".", "\u00a0"]

# letters whose category and simple lower-case mapping are the same in every Unicode version since 8.0
LETTERS = list("abcxyzABCXYZ") + list("\u00e4\u00f6\u00fc\u00c4\u00d6\u00dc\u00df\u00e9\u00c9\u00f1\u00d1\u00e7\u00c7\u00f8\u00d8\u00e5\u00c5") + \
    list("\u03b1\u03b2\u03b3\u03c3\u03c2\u0391\u0392\u0393\u03a3\u03a9\u03c9") + list("\u0436\u0416\u0434\u0414\u044f\u042f\u0451\u0401") + \
    list("\u8aad\u66f8\u65e5\u672c\u8a9e\u3042\u3044\u30a2\u30a4\ud55c\uae00") + list("\u05d0\u05d1\u05e2\u0631\u0628\u064a\u0939") + \
    ["\u01c5", "\u01c4", "\u01c6", "\u1e9e", "\u0531", "\u0561", "\u13a0", "\uab70", "\U00010400", "\U00010428", "\U0001d400", "\u2126", "\u212a",
     "\u00aa", "\u00b5", "\u02b0", "\u1d2c", "\uff21", "\uff41"]
# characters that are not letters: blanks, punctuation, non-ASCII digits, combining marks, letter-like numbers and symbols, format characters
NONLETTERS = list(" \t.,;:!?()[]{}<>/\\|@$%^&*+~`") + ["\u00a0", "\u2003", "\u3000", "\r"] + ["\u0663", "\u0968", "\uff11"] + \
    ["\u0301", "\u0308", "\u2160", "\u2170", "\u24b6", "\u24d0", "\u00b2", "\u00bd", "\u2014", "\u00ab", "\u201c", "\u201d", "\u2019",
     "\uff03", "\uff1d", "\ufe5f", "\U0001f600", "\ufffd", "\u200b", "\ufeff", "\u00ad", "\u00d7", "\u00f7", "\u0345"]
SPECIAL = list("##==\"\"''__--0123456789")
BADBYTES = [b"\xff", b"\xc0", b"\x80", b"\xe8\xaa", b"\xed\xa0\x80", b"\xf4\x90\x80\x80", b"\xc3", b"\xc0\xaf", b"\xf0\x9f"]


def rand_text(rng, n, bad=0.0):
    out = []
    for _ in range(n):
        x = rng.random()
        if x < bad:
            out.append(rng.choice(BADBYTES))
        elif x < 0.40:
            out.append(rng.choice(SPECIAL).encode())
        elif x < 0.75:
            out.append(rng.choice(LETTERS).encode())
        else:
            out.append(rng.choice(NONLETTERS).encode())
    return b"".join(out)


NAMES = ["a", "A", "ab", "Ab", "AB", "a-b", "a_b", "\u00df", "\u1e9e", "\u8aad", "\u03a3", "\u03c3", "\u0436", "\u0416", "1", "x1",
         "\u00c4\u00d6", "\u00e4\u00f6", "tag", "TAG", "Tag", "t"]
VALUES = ["", "1", "v", "V", "x-y", "\u8aad", "\u00df", "\u1e9e", "a b", "A b", "it's", "say \"hi\"", "=", "#a", "v w", "1.5", "\u00e9", "\u00c9"]


def rand_tag(rng):
    n, v = rng.choice(NAMES), rng.choice(VALUES)
    if v == "":
        return "#" + n + rng.choice(["", "", "=", "=\"\"", "=''", "=\"", "='x"])
    if all(is_name_char(c) for c in v):
        return "#" + n + "=" + rng.choice([v, '"%s"' % v, "'%s'" % v])
    if '"' in v:
        return "#%s='%s'" % (n, v)
    if "'" in v:
        return "#%s=\"%s\"" % (n, v)
    return "#%s=%s" % (n, rng.choice(['"%s"' % v, "'%s'" % v]))


WORDS = ["", " ", "foo", "bar.", "(", ")", ",", " and ", "#", "=", "\"", "'", "# ", "x#", "=1", "  ", "é", "-"]


def rand_tagged_line(rng, ntags):
    parts = [rng.choice(WORDS)]
    for _ in range(ntags):
        parts.append(rand_tag(rng))
        parts.append(rng.choice(WORDS + [" ", " ", " "]))
    return "".join(parts)


def rand_lines(rng, maxlines=3, maxtags=3):
    k = rng.choice([0, 1, 1, 1, 2, maxlines])
    return [rand_tagged_line(rng, rng.randrange(maxtags + 1)) for _ in range(k)]


# hand-written cases: klog's own test (summary_test.go TestRecognisesAllTags) and the boundary cases the property names
FIXED_SUMMARIES = [
    ["Hello #world, I feel", "(super #GREAT) today #123_test: #234-foo!",
     "#\u592a\u967d #\u03bb\u03bf\u03c5\u03bb\u03bf\u03cd\u03b4\u03b9 #\u092a\u0939\u093e\u0921 #\u043c\u0438\u0440 #L\u00e9ift #\u0393\u0395\u0399\u0391-\u03a3\u0391\u03a3"],
    ["Hello #world, I feel #great #TODAY"], ["#a#b"], ["#a=#b"], ["#a=b#c=d"], ["#a=\"x\"y\""], ["#a='x\"y'"], ["#a=\"it's\" #b='say \"hi\"'"],
    ["#a=b=c"], ["#a="], ["#a= b"], ["#a=\"\""], ["#a=''"], ["#a=\"\"\"x\"\""], ["##a"], ["#"], ["# a"], ["#=x"], ["#-"], ["#_"], ["#1"],
    ["#a=\"x", "y\""], ["#a='x", "#b"], ["#a=\"x #b"], ["#a='x' #a=\"x\" #a=x #A=x"], ["#a=\u00e9"], ["#e\u0301t\u00e9"], ["#a=\"\u00a0\""],
    ["#gym", "#home-office", "#\u8aad\u3080", "#ticket=891", "#project=\"22/48.3\""], ["#Office day (#coding, #meetings)"],
    ["#project=\"2022/7.2\" or #call=\"Liz Jones\""], ["email a#b.c #x"], ["#tag=\t"], ["#tag\t=x"], ["#a=\"x\ty\""], ["#a\r"], ["#a=\"b\r\""],
]


def gen_recognise(tier, rng):
    out = ["tags-find %s %s" % (k, tok_of(ls)) for ls in FIXED_SUMMARIES for k in "re"]
    maxlen = 4 if tier == "quick" else 6
    hexes = [hx(a) for a in ALPHABET]
    out.append("tags-find r -")
    for n in range(1, maxlen + 1):
        for t in itertools.product(hexes, repeat=n):
            out.append("tags-find r " + "".join(t))
    # UTF-8 decoding as the regexp engine sees it: `#` + every 2-byte string, and the 3/4-byte sequences around the
    # overlong / surrogate / out-of-range boundaries (valid ones are letters or not, invalid ones are never letters)
    step = 7 if tier == "quick" else 1
    for b0 in range(0, 256, step):
        for b1 in range(256):
            out.append("tags-find r " + hx(b"#" + bytes([b0, b1]) + b"z"))
    for b0 in (0xE0, 0xE1, 0xEC, 0xED, 0xEE, 0xEF, 0xF0, 0xF1, 0xF3, 0xF4, 0xF5):
        for b1 in range(0x7F, 0xC1, 1 if tier != "quick" else 3):
            for tail in (b"\x80", b"\xbf", b"\x80\x80", b"\xbf\xbf", b"\x41", b"\x80\x41", b""):
                out.append("tags-find r " + hx(b"#a" + bytes([b0, b1]) + tail + b"=" + bytes([b0, b1]) + tail))
    nrand = 6000 if tier == "quick" else 200000
    for i in range(nrand):
        kind = rng.choice("re")
        k = rng.randrange(4)
        if k == 0:      # arbitrary text, valid UTF-8
            lines = [rand_text(rng, rng.randrange(1, 40)) for _ in range(rng.choice([1, 1, 2, 3]))]
        elif k == 1:    # arbitrary text with invalid bytes
            lines = [rand_text(rng, rng.randrange(1, 30), bad=0.12) for _ in range(rng.choice([1, 1, 2]))]
        elif k == 2:    # tag-dense lines
            lines = [enc(l) for l in rand_lines(rng, 3, 5)]
        else:           # the small alphabet, longer
            lines = ["".join(rng.choice(ALPHABET) for _ in range(rng.randrange(5, 16))).encode()]
        out.append("tags-find %s %s" % (kind, "_" if not lines else ",".join(hx(l) for l in lines)))
    return out


def mutate_query(rng, q):
    k = rng.randrange(8)
    if k == 0:
        return q.swapcase()
    if k == 1:
        return q.lstrip("#")
    if k == 2 and "=" in q:
        return q.split("=")[0]
    if k == 3:
        return q + rng.choice(["", "=", " ", "x", "=v", "#b", "=\"", "\"", "'"])
    if k == 4:
        return rng.choice(["", "#", " ", "x "]) + q
    if k == 5:
        i = rng.randrange(len(q) + 1)
        return q[:i] + rng.choice(ALPHABET + LETTERS[:20]) + q[i:]
    return q


def gen_match(tier, rng):
    out = []
    n = 6000 if tier == "quick" else 150000
    fixed = ["", "#", "##tag", "a#tag", "a #tag", "#tag#tag", "#tag #tag", "#t^a*g", "#tag?", "#tag:tag", "#tag=foo=bar", "#tag='foo", "#tag='It's great'",
             "#tag=\"foo", "#tag=\"", "#tag=", "#tag=\"\"", "#tag=''", "tag", "TAG=Value", "#tag=\"v a l u e\"", "#tag='foo=bar'", "=", "#=", "#-", "#_=_", "\u8aad=\u66f8"]
    for q in fixed:
        out.append("tags-contains %s %s" % (hx(q), tok_of(["#tag=foo=bar and #TAG #Tag=\"v a l u e\" #\u8aad=\u66f8 #_=_"])))
    for _ in range(n):
        lines = rand_lines(rng, 2, 4)
        k = rng.randrange(10)
        if k < 7:
            q = mutate_query(rng, rand_tag(rng))
        elif k < 9:
            q = dec(rand_text(rng, rng.randrange(0, 8)))
        else:
            q = dec(rand_text(rng, rng.randrange(1, 8), bad=0.2))
        out.append("tags-contains %s %s" % (hx(enc(q)), tok_of(lines)))
    return out


def gen_totals(tier, rng):
    out = ["tags-agg", "tags-agg R _", "tags-agg R " + hx("#a") , "tags-agg R %s E 60 %s E 30 _ E 5 -" % (hx("#a #A #a=1"), hx("#a=1 #a='1' #A=\"1\" #a")),
           "tags-agg R _ E %d %s E 1 %s" % (I64, hx("#a"), hx("#a")), "tags-agg R %s E %d _ E -1 %s E -1 _" % (hx("#a=x"), -I64, hx("#b")),
           "tags-agg R _ E %d %s E 1 %s E -1 %s" % (I64, hx("#a"), hx("#b"), hx("#a"))]
    n = 6000 if tier == "quick" else 150000
    for i in range(n):
        toks = ["tags-agg"]
        for _ in range(rng.choice([1, 1, 2, 3, 4])):
            toks += ["R", tok_of(rand_lines(rng, 3, 3))]
            for _ in range(rng.choice([0, 1, 2, 2, 3, 5])):
                m = rng.choice([0, 1, 15, 30, 60, 90, -30, -60, rng.randrange(-600, 600)])
                if rng.random() < 0.004:
                    m = rng.choice([I64, -I64, I64 // 2 + 1, -(I64 // 2) - 1])
                toks += ["E", str(m), tok_of(rand_lines(rng, 3, 3))]
        out.append(" ".join(toks))
    return out


def suites():
    return [
        Suite("recognise", gen_recognise, oracle=oracle_find, exhaustive=lambda t: True,
              nontrivial=lambda req, out: out.startswith("ok o=") and not out.startswith("ok o= "),
              rule="every string of <= 4 (quick) / <= 6 (thorough) symbols over # = \" ' a A ß 読 1 _ - space . U+00A0, plus random longer "
                   "multi-line record/entry summaries (Unicode letters and non-letters, invalid UTF-8); non-trivial = at least one tag found"),
        Suite("match", gen_match, oracle=oracle_contains,
              rule="hand-written and random query strings (mutated tags, arbitrary text, invalid UTF-8) against random tagged summaries; non-trivial = query accepted"),
        Suite("totals", gen_totals, oracle=oracle_agg,
              nontrivial=lambda req, out: out.startswith("ok "),
              rule="1-4 records x 0-5 duration entries with multi-line record and entry summaries built from a small pool of redundant, "
                   "differently cased / quoted tags; non-trivial = at least one tag total reported"),
    ]
