(* Query: lemmas about Model/Query.v — service.Filter against a declarative selection, composition of the
   date / tag / entry-type clauses, the meaning of every FilterArgs flag, sorting. *)
From Klog Require Import Base.Prelude Base.Utf8 Model.Calendar Model.Values Model.Record Model.Tags Model.Period Model.Query
  Proofs.Calendar Proofs.Period Proofs.TagsUtf8 Proofs.Tags.
From Coq Require Import ZifyBool Permutation Sorted.
Open Scope Z_scope.

Notation found := (found_tags go_is_letter go_to_lower).

(* ===================================================================== *)
(* Part A — dates                                                        *)
(* ===================================================================== *)

(* a is not later than b: year, month, day compared in this order. No validity is needed: it is what
   Date.IsAfterOrEqual computes on any three numbers; on calendar dates it is the order of the days
   ([date_le_days]). *)
Definition date_le (a b : cdate) : Prop :=
  c_year a < c_year b \/
  (c_year a = c_year b /\ (c_month a < c_month b \/ (c_month a = c_month b /\ c_day a <= c_day b))).

Lemma cdate_geb_le a b : cdate_geb b a = true <-> date_le a b.
Proof. unfold cdate_geb, date_le. destruct (c_year b =? c_year a) eqn:Ey; destruct (c_month b =? c_month a) eqn:Em; cbn [negb]; lia. Qed.

Lemma date_leb_le a b : date_leb a b = true <-> date_le a b.
Proof. apply cdate_geb_le. Qed.

Lemma cdate_eqb_iff a b : cdate_eqb a b = true <-> a = b.
Proof.
  split; [apply cdate_eqb_eq|]. intros <-. unfold cdate_eqb. rewrite !Z.eqb_refl. reflexivity.
Qed.

Lemma date_le_refl a : date_le a a.
Proof. unfold date_le. lia. Qed.

Lemma date_le_trans a b c : date_le a b -> date_le b c -> date_le a c.
Proof. unfold date_le. lia. Qed.

Lemma date_le_total a b : date_le a b \/ date_le b a.
Proof. unfold date_le. lia. Qed.

Lemma date_le_antisym a b : date_le a b -> date_le b a -> a = b.
Proof.
  unfold date_le. intros H1 H2. destruct a as [y m d], b as [y' m' d']. cbn [c_year c_month c_day] in *.
  assert (y = y' /\ m = m' /\ d = d') as (-> & -> & ->) by lia. reflexivity.
Qed.

(* on calendar dates: the order of the day numbers *)
Lemma date_le_days a b : valid a -> valid b -> (date_le a b <-> days_of a <= days_of b).
Proof. intros Ha Hb. rewrite <- cdate_geb_le. apply date_order; assumption. Qed.

(* the three date clauses of a query, as a predicate on the date of a record *)
Definition date_ok (q : filter_qry) (d : cdate) : Prop :=
  (forall a, q_at_date q = Some a -> d = a) /\
  (forall b, q_before_or_equal q = Some b -> date_le d b) /\
  (forall a, q_after_or_equal q = Some a -> date_le a d).

Definition at_ok (q : filter_qry) (d : cdate) : bool :=
  match q_at_date q with Some a => cdate_eqb a d | None => true end.
Definition upper_ok (q : filter_qry) (d : cdate) : bool :=
  match q_before_or_equal q with Some b => cdate_geb b d | None => true end.
Definition lower_ok (q : filter_qry) (d : cdate) : bool :=
  match q_after_or_equal q with Some a => cdate_geb d a | None => true end.
Definition date_okb (q : filter_qry) (d : cdate) : bool := at_ok q d && upper_ok q d && lower_ok q d.

Lemma date_okb_spec q d : date_okb q d = true <-> date_ok q d.
Proof.
  unfold date_okb, date_ok, at_ok, upper_ok, lower_ok. rewrite !andb_true_iff.
  destruct (q_at_date q) as [a|]; destruct (q_before_or_equal q) as [b|]; destruct (q_after_or_equal q) as [c|];
    rewrite ?cdate_eqb_iff, ?cdate_geb_le; split.
  all: try (intros [[H1 H2] H3]; repeat split; intros x [= <-]; auto; fail).
  all: try (intros (H1 & H2 & H3); repeat split; auto; try (symmetry; apply H1; reflexivity); fail).
  all: try (intros _; repeat split; intros x; discriminate).
Qed.

(* ===================================================================== *)
(* Part B — tags and entry types                                         *)
(* ===================================================================== *)

(* every queried tag is carried by one of the tags found ([carries], Proofs/Tags.v: same name, and the query
   has no value or the very same value) *)
Definition carries_all (ts qs : list tag) : bool := forallb (carries ts) qs.

Definition record_carries (q : filter_qry) (r : record) : bool := carries_all (found (rec_summary r)) (q_tags q).
Definition entry_tags_ok (q : filter_qry) (r : record) (e : entry) : bool :=
  carries_all (found (rec_summary r) ++ found (e_summary e)) (q_tags q).

(* what each entry type means *)
Definition type_is (t : entry_type) (e : entry) : Prop :=
  match t with
  | ETRange => exists r, e_value e = VRange r
  | ETOpenRange => exists o, e_value e = VOpen o
  | ETDuration => exists d, e_value e = VDuration d
  | ETPositiveDuration => exists d, e_value e = VDuration d /\ 0 <= d_mins d
  | ETNegativeDuration => exists d, e_value e = VDuration d /\ d_mins d < 0
  end.

Lemma type_matches_spec t e : type_matches t e = true <-> type_is t e.
Proof.
  unfold type_matches, type_is, entry_minutes. destruct (e_value e) as [d|r|o]; destruct t; split;
    try discriminate; try (intros _; eauto; fail); try (intros [x H]; discriminate H); try (intros (x & H & _); discriminate H).
  - intros H. exists d. split; [reflexivity | lia].
  - intros (d' & [= <-] & H). lia.
  - intros H. exists d. split; [reflexivity | lia].
  - intros (d' & [= <-] & H). lia.
Qed.

Definition type_ok (q : filter_qry) (e : entry) : bool :=
  match q_entry_type q with None => true | Some t => type_matches t e end.

(* an entry matches: the tags of its record's summary and of its own summary together carry every queried tag,
   and it is of the queried type *)
Definition entry_matches (q : filter_qry) (r : record) (e : entry) : bool := entry_tags_ok q r e && type_ok q e.

Lemma carries_app_l ts ts' k : carries ts k = true -> carries (ts ++ ts') k = true.
Proof. unfold carries. rewrite existsb_app. intros ->. reflexivity. Qed.

Lemma carries_all_app_l ts ts' qs : carries_all ts qs = true -> carries_all (ts ++ ts') qs = true.
Proof. unfold carries_all. rewrite !forallb_forall. intros H k Hk. apply carries_app_l. auto. Qed.

Lemma record_carries_entry q r e : record_carries q r = true -> entry_tags_ok q r e = true.
Proof. apply carries_all_app_l. Qed.

Lemma forallb_ext' {A} (f g : A -> bool) l : (forall x, f x = g x) -> forallb f l = forallb g l.
Proof. intros H. induction l as [|x l IH]; simpl; [reflexivity|]. rewrite H, IH. reflexivity. Qed.

(* the model reads Summary.Tags() as [summary_tags]: the Go function (second regexp run, NewTagOrPanic) returns exactly
   that set on every input and never panics *)
Lemma summary_tags_total lines : go_summary_tags_o lines = Ok (q_summary_tags lines).
Proof. apply go_summary_tags. Qed.

(* isSubsetOf on Summary.Tags() / on the merged set, in terms of the tags found *)
Lemma subset_record qs lines : is_subset_of qs (q_summary_tags lines) = carries_all (found lines) qs.
Proof.
  unfold is_subset_of, carries_all. apply forallb_ext'. intros k. unfold summary_tags.
  apply contains_put_all. apply found_norm; [exact go_lower_idem | exact go_lower_scalar].
Qed.

Lemma subset_entry qs r e :
  is_subset_of qs (q_merge [q_summary_tags (rec_summary r); q_summary_tags (e_summary e)])
  = carries_all (found (rec_summary r) ++ found (e_summary e)) qs.
Proof.
  unfold is_subset_of, carries_all. apply forallb_ext'. intros k. unfold ts_contains.
  exact (entry_keys_existsb go_is_letter go_to_lower go_lower_idem go_lower_scalar r e k).
Qed.

(* ===================================================================== *)
(* Part C — service.Filter is the declarative selection                  *)
(* ===================================================================== *)

Fixpoint filter_map {A B} (f : A -> option B) (l : list A) : list B :=
  match l with
  | [] => []
  | x :: r => match f x with Some y => y :: filter_map f r | None => filter_map f r end
  end.

Definition is_none {A} (o : option A) : bool := match o with None => true | Some _ => false end.

(* what becomes of one record: dropped unless its date satisfies the date clauses; kept as it is when there is no
   type clause and its own summary carries every queried tag; otherwise kept with exactly its matching
   entries, and dropped when there is none *)
Definition select (q : filter_qry) (r : record) : option record :=
  if date_okb q (rdate r) then
    if is_none (q_entry_type q) && record_carries q r then Some r
    else match filter (entry_matches q r) (rec_entries r) with
         | [] => None
         | es => Some (set_entries r es)
         end
  else None.

Lemma filter_ext' {A} (f g : A -> bool) l : (forall x, In x l -> f x = g x) -> filter f l = filter g l.
Proof.
  induction l as [|x l IH]; intros H; simpl; [reflexivity|].
  rewrite (H x (or_introl eq_refl)), IH; [reflexivity|]. intros y Hy. apply H. right. exact Hy.
Qed.

Lemma filter_filter {A} (f g : A -> bool) l : filter g (filter f l) = filter (fun x => f x && g x) l.
Proof.
  induction l as [|x l IH]; simpl; [reflexivity|]. destruct (f x); simpl; [|exact IH]. destruct (g x); rewrite IH; reflexivity.
Qed.

Lemma set_entries_twice r a b : set_entries (set_entries r a) b = set_entries r b.
Proof. reflexivity. Qed.

Lemma set_entries_same r : set_entries r (rec_entries r) = r.
Proof. destruct r; reflexivity. Qed.

Lemma some_if_nonempty {A B} (l : list A) (f : list A -> B) :
  match l with [] => None | _ :: _ => Some (f l) end = match l with [] => None | es => Some (f es) end.
Proof. destruct l; reflexivity. Qed.

(* the date tests of the loop body *)
Lemma filter_record_dates q r :
  filter_record q r =
  if date_okb q (rdate r) then
    match (match q_tags q with [] => Some r | _ => reduce_to_tags (q_tags q) r end) with
    | None => None
    | Some r1 => match q_entry_type q with None => Some r1 | Some t => reduce_to_entry_types t r1 end
    end
  else None.
Proof.
  unfold filter_record, date_okb, at_ok, upper_ok, lower_ok.
  destruct (q_at_date q) as [a|]; [destruct (cdate_eqb a (rdate r)); cbn [negb andb]; [|reflexivity]|];
  (destruct (q_before_or_equal q) as [b|]; [destruct (cdate_geb b (rdate r)); cbn [negb andb]; [|reflexivity]|]);
  (destruct (q_after_or_equal q) as [c|]; [destruct (cdate_geb (rdate r) c); cbn [negb andb]; reflexivity|]); reflexivity.
Qed.

Lemma reduce_to_tags_eq qs r :
  reduce_to_tags qs r =
  if carries_all (found (rec_summary r)) qs then Some r
  else match filter (fun e => carries_all (found (rec_summary r) ++ found (e_summary e)) qs) (rec_entries r) with
       | [] => None
       | es => Some (set_entries r es)
       end.
Proof.
  unfold reduce_to_tags. rewrite subset_record.
  destruct (carries_all (found (rec_summary r)) qs); [reflexivity|].
  rewrite (filter_ext' _ (fun e => carries_all (found (rec_summary r) ++ found (e_summary e)) qs)); [reflexivity|].
  intros e _. apply subset_entry.
Qed.

Theorem filter_record_select q r : filter_record q r = select q r.
Proof.
  rewrite filter_record_dates. unfold select. destruct (date_okb q (rdate r)); [|reflexivity].
  unfold record_carries, entry_matches, entry_tags_ok, type_ok.
  destruct (q_tags q) as [|t0 ts] eqn:Et.
  - (* no tag clause *)
    cbn [carries_all forallb]. destruct (q_entry_type q) as [t|]; cbn [is_none andb]; [|reflexivity].
    unfold reduce_to_entry_types. reflexivity.
  - rewrite reduce_to_tags_eq. set (qs := t0 :: ts).
    destruct (carries_all (found (rec_summary r)) qs) eqn:Ec.
    + (* the record's own summary carries all tags *)
      destruct (q_entry_type q) as [t|]; cbn [is_none andb]; [|reflexivity].
      unfold reduce_to_entry_types.
      rewrite (filter_ext' (type_matches t) (fun e => carries_all (found (rec_summary r) ++ found (e_summary e)) qs && type_matches t e)); [reflexivity|].
      intros e _. rewrite (carries_all_app_l _ _ _ Ec). reflexivity.
    + rewrite andb_false_r.
      destruct (q_entry_type q) as [t|].
      * rewrite <- filter_filter.
        destruct (filter (fun e => carries_all (found (rec_summary r) ++ found (e_summary e)) qs) (rec_entries r)) as [|e1 es1]; [reflexivity|].
        unfold reduce_to_entry_types. cbn [set_entries rec_entries]. reflexivity.
      * rewrite (filter_ext' (fun e => carries_all (found (rec_summary r) ++ found (e_summary e)) qs && true)
                             (fun e => carries_all (found (rec_summary r) ++ found (e_summary e)) qs));
          [|intros e _; apply andb_true_r].
        destruct (filter (fun e => carries_all (found (rec_summary r) ++ found (e_summary e)) qs) (rec_entries r)); reflexivity.
Qed.

Theorem filter_spec q rs : filter_records q rs = filter_map (select q) rs.
Proof.
  induction rs as [|r rs IH]; simpl; [reflexivity|]. rewrite filter_record_select, IH. reflexivity.
Qed.

(* ---- what [select] says, clause by clause ---- *)

(* the tags found in the summaries carry the queried tag k: some tag has k's name and, when k has a value, k's value *)
Lemma carries_all_spec ts qs :
  carries_all ts qs = true <-> forall k, In k qs -> exists t, In t ts /\ tag_matches t k = true.
Proof.
  unfold carries_all, carries. rewrite forallb_forall. split; intros H k Hk.
  - apply existsb_exists. apply H. exact Hk.
  - apply existsb_exists. apply H. exact Hk.
Qed.

Lemma entry_matches_spec q r e :
  entry_matches q r e = true <->
  (forall k, In k (q_tags q) -> exists t, In t (found (rec_summary r) ++ found (e_summary e)) /\ tag_matches t k = true) /\
  (forall t, q_entry_type q = Some t -> type_is t e).
Proof.
  unfold entry_matches, entry_tags_ok, type_ok. rewrite andb_true_iff, carries_all_spec.
  destruct (q_entry_type q) as [t|].
  - rewrite type_matches_spec. split; intros [H1 H2]; (split; [exact H1|]).
    + intros t' [= <-]. exact H2.
    + apply H2. reflexivity.
  - split; intros [H1 _]; (split; [exact H1|]); [intros t; discriminate | reflexivity].
Qed.

(* the record is kept *)
Definition keeps (q : filter_qry) (r : record) : Prop :=
  (exists e, In e (rec_entries r) /\ entry_matches q r e = true) \/
  (q_entry_type q = None /\ record_carries q r = true).

Lemma filter_nil_iff {A} (f : A -> bool) l : filter f l = [] <-> forall x, In x l -> f x = false.
Proof.
  induction l as [|x l IH]; simpl; [split; [intros _ y [] | reflexivity]|].
  destruct (f x) eqn:E; split.
  - discriminate.
  - intros H. specialize (H x (or_introl eq_refl)). congruence.
  - intros H y [<- | Hy]; [exact E | apply IH; assumption].
  - intros H. apply IH. intros y Hy. apply H. right. exact Hy.
Qed.

Theorem select_some q r r' : select q r = Some r' ->
  date_ok q (rdate r) /\ keeps q r /\
  rec_entries r' = filter (entry_matches q r) (rec_entries r) /\
  rec_date r' = rec_date r /\ rec_summary r' = rec_summary r /\ rec_should r' = rec_should r.
Proof.
  unfold select. destruct (date_okb q (rdate r)) eqn:Ed; [|discriminate]. apply date_okb_spec in Ed.
  destruct (is_none (q_entry_type q) && record_carries q r) eqn:Ew.
  - intros [= <-]. apply andb_true_iff in Ew as [En Ec].
    assert (Hn : q_entry_type q = None) by (destruct (q_entry_type q); [discriminate | reflexivity]).
    split; [exact Ed|]. split; [right; auto|]. split; [|auto].
    symmetry. rewrite (filter_ext' _ (fun _ => true)).
    + induction (rec_entries r) as [|e l IH]; simpl; [reflexivity | rewrite IH; reflexivity].
    + intros e _. unfold entry_matches, type_ok. rewrite Hn, (record_carries_entry q r e Ec). reflexivity.
  - destruct (filter (entry_matches q r) (rec_entries r)) as [|e1 es] eqn:Ef; [discriminate|]. intros [= <-].
    split; [exact Ed|]. split; [|cbn [set_entries rec_entries rec_date rec_summary rec_should]; auto].
    left. exists e1. assert (Hin : In e1 (filter (entry_matches q r) (rec_entries r))) by (rewrite Ef; left; reflexivity).
    apply filter_In in Hin. exact Hin.
Qed.

Theorem select_none q r : select q r = None <-> ~ (date_ok q (rdate r) /\ keeps q r).
Proof.
  unfold select. destruct (date_okb q (rdate r)) eqn:Ed.
  - apply date_okb_spec in Ed.
    destruct (is_none (q_entry_type q) && record_carries q r) eqn:Ew.
    + apply andb_true_iff in Ew as [En Ec].
      assert (Hn : q_entry_type q = None) by (destruct (q_entry_type q); [discriminate | reflexivity]).
      split; [discriminate|]. intros H. exfalso. apply H. split; [exact Ed | right; auto].
    + destruct (filter (entry_matches q r) (rec_entries r)) as [|e1 es] eqn:Ef.
      * split; [|reflexivity]. intros _ [_ [(e & Hin & Hm) | [Hn Hc]]].
        -- rewrite filter_nil_iff in Ef. rewrite (Ef e Hin) in Hm. discriminate.
        -- rewrite Hn, Hc in Ew. discriminate.
      * split; [discriminate|]. intros H. exfalso. apply H. split; [exact Ed|]. left. exists e1.
        assert (Hin : In e1 (filter (entry_matches q r) (rec_entries r))) by (rewrite Ef; left; reflexivity).
        apply filter_In in Hin. exact Hin.
  - split; [|reflexivity]. intros _ [H _]. apply date_okb_spec in H. congruence.
Qed.

(* the result lists, in the order of the input, what [select] makes of the records it keeps *)
Lemma filter_map_sub {A B} (f : A -> option B) l :
  Forall2 (fun x y => f x = Some y) (filter (fun x => negb (is_none (f x))) l) (filter_map f l).
Proof.
  induction l as [|x l IH]; simpl; [constructor|]. destruct (f x) eqn:E; simpl; [constructor; assumption | exact IH].
Qed.

Theorem filter_keeps_order q rs :
  Forall2 (fun r r' => select q r = Some r')
          (filter (fun r => negb (is_none (select q r))) rs) (filter_records q rs).
Proof. rewrite filter_spec. apply filter_map_sub. Qed.

(* ===================================================================== *)
(* Part D — combining clauses = composing / intersecting the filters     *)
(* ===================================================================== *)

Definition date_part (q : filter_qry) : filter_qry :=
  {| q_tags := []; q_before_or_equal := q_before_or_equal q; q_after_or_equal := q_after_or_equal q;
     q_at_date := q_at_date q; q_entry_type := None |}.
Definition tag_part (q : filter_qry) : filter_qry :=
  {| q_tags := q_tags q; q_before_or_equal := None; q_after_or_equal := None; q_at_date := None; q_entry_type := None |}.
Definition type_part (q : filter_qry) : filter_qry :=
  {| q_tags := []; q_before_or_equal := None; q_after_or_equal := None; q_at_date := None; q_entry_type := q_entry_type q |}.

Definition obind {A B} (o : option A) (f : A -> option B) : option B := match o with Some x => f x | None => None end.

Lemma filter_map_compose {A B C} (f : A -> option B) (g : B -> option C) l :
  filter_map g (filter_map f l) = filter_map (fun x => obind (f x) g) l.
Proof.
  induction l as [|x l IH]; simpl; [reflexivity|]. destruct (f x) as [y|]; simpl; [|exact IH].
  destruct (g y); rewrite IH; reflexivity.
Qed.

Lemma filter_map_ext {A B} (f g : A -> option B) l : (forall x, f x = g x) -> filter_map f l = filter_map g l.
Proof. intros H. induction l as [|x l IH]; simpl; [reflexivity|]. rewrite H, IH. reflexivity. Qed.

(* the part of [select] after the date test depends on the tags and the type only *)
Definition select_entries (qs : list tag) (ty : option entry_type) (r : record) : option record :=
  let q := {| q_tags := qs; q_before_or_equal := None; q_after_or_equal := None; q_at_date := None; q_entry_type := ty |} in
  if is_none ty && record_carries q r then Some r
  else match filter (entry_matches q r) (rec_entries r) with
       | [] => None
       | es => Some (set_entries r es)
       end.

Lemma select_split q r :
  select q r = if date_okb q (rdate r) then select_entries (q_tags q) (q_entry_type q) r else None.
Proof. reflexivity. Qed.

Lemma no_dates_ok qs ty d :
  date_okb {| q_tags := qs; q_before_or_equal := None; q_after_or_equal := None; q_at_date := None; q_entry_type := ty |} d = true.
Proof. reflexivity. Qed.

Lemma select_date_part q r : select (date_part q) r = if date_okb q (rdate r) then Some r else None.
Proof. reflexivity. Qed.

Lemma select_tag_part q r : select (tag_part q) r = select_entries (q_tags q) None r.
Proof. reflexivity. Qed.

Lemma select_type_part q r : select (type_part q) r = select_entries [] (q_entry_type q) r.
Proof. reflexivity. Qed.

Lemma select_entries_rdate qs ty r r' : select_entries qs ty r = Some r' -> rdate r' = rdate r.
Proof.
  unfold select_entries. destruct (is_none ty && _); [intros [= <-]; reflexivity|].
  destruct (filter _ _); [discriminate|]. intros [= <-]. reflexivity.
Qed.

Lemma carries_all_nil ts : carries_all ts [] = true.
Proof. reflexivity. Qed.

Notation etags r e := (found (rec_summary r) ++ found (e_summary e)).

Definition nonempty_entries (r : record) (es : list entry) : option record :=
  match es with [] => None | _ => Some (set_entries r es) end.

Lemma nonempty_entries_eq r es : match es with [] => None | e :: l => Some (set_entries r (e :: l)) end = nonempty_entries r es.
Proof. destruct es; reflexivity. Qed.

(* the three shapes of [select_entries] *)
Lemma select_entries_type_only ty r :
  select_entries [] ty r =
  match ty with None => Some r | Some t => nonempty_entries r (filter (type_matches t) (rec_entries r)) end.
Proof.
  unfold select_entries, record_carries, entry_matches, entry_tags_ok, type_ok. cbn [q_tags q_entry_type].
  destruct ty as [t|]; cbn [is_none andb]; [|reflexivity].
  rewrite nonempty_entries_eq. f_equal.
Qed.

Lemma select_entries_tags_only qs r :
  select_entries qs None r =
  if carries_all (found (rec_summary r)) qs then Some r
  else nonempty_entries r (filter (fun e => carries_all (etags r e) qs) (rec_entries r)).
Proof.
  unfold select_entries, record_carries, entry_matches, entry_tags_ok, type_ok. cbn [q_tags q_entry_type is_none andb].
  destruct (carries_all (found (rec_summary r)) qs); [reflexivity|].
  rewrite nonempty_entries_eq. f_equal. apply filter_ext'. intros e _. apply andb_true_r.
Qed.

Lemma select_entries_both qs t r :
  select_entries qs (Some t) r =
  nonempty_entries r (filter (fun e => carries_all (etags r e) qs && type_matches t e) (rec_entries r)).
Proof.
  unfold select_entries, record_carries, entry_matches, entry_tags_ok, type_ok. cbn [q_tags q_entry_type is_none andb].
  rewrite nonempty_entries_eq. reflexivity.
Qed.

(* tag clause, then type clause *)
Lemma select_tags_then_type qs ty r :
  obind (select_entries qs None r) (select_entries [] ty) = select_entries qs ty r.
Proof.
  destruct ty as [t|].
  - rewrite select_entries_tags_only, select_entries_both.
    destruct (carries_all (found (rec_summary r)) qs) eqn:Ec; cbn [obind].
    + rewrite select_entries_type_only. f_equal. apply filter_ext'. intros e _.
      rewrite (carries_all_app_l _ _ _ Ec). reflexivity.
    + rewrite <- filter_filter.
      destruct (filter (fun e => carries_all (etags r e) qs) (rec_entries r)) as [|e1 es1]; [reflexivity|].
      cbn [nonempty_entries obind]. rewrite select_entries_type_only. reflexivity.
  - destruct (select_entries qs None r) as [r1|]; cbn [obind]; [|reflexivity].
    rewrite select_entries_type_only. reflexivity.
Qed.

Lemma filter_comm {A} (f g : A -> bool) l : filter g (filter f l) = filter f (filter g l).
Proof. rewrite !filter_filter. apply filter_ext'. intros x _. apply andb_comm. Qed.

(* type clause, then tag clause *)
Lemma select_type_then_tags qs ty r :
  obind (select_entries [] ty r) (select_entries qs None) = select_entries qs ty r.
Proof.
  rewrite select_entries_type_only. destruct ty as [t|]; cbn [obind]; [|reflexivity].
  rewrite select_entries_both.
  destruct (filter (type_matches t) (rec_entries r)) as [|e2 es2] eqn:E2; cbn [nonempty_entries obind].
  - rewrite (proj2 (filter_nil_iff _ _)); [reflexivity|].
    intros e He. rewrite (proj1 (filter_nil_iff _ _) E2 e He). apply andb_false_r.
  - rewrite select_entries_tags_only. cbn [set_entries rec_summary rec_entries]. rewrite <- E2.
    destruct (carries_all (found (rec_summary r)) qs) eqn:Ec.
    + rewrite (filter_ext' (fun e => carries_all (etags r e) qs && type_matches t e) (type_matches t))
        by (intros e _; rewrite (carries_all_app_l _ _ _ Ec); reflexivity).
      rewrite E2. reflexivity.
    + rewrite filter_comm, filter_filter. reflexivity.
Qed.

(* date clauses commute with everything: they look at the date only, which no clause changes *)
Lemma select_date_then q qs ty r :
  obind (select (date_part q) r) (select_entries qs ty) = if date_okb q (rdate r) then select_entries qs ty r else None.
Proof. rewrite select_date_part. destruct (date_okb q (rdate r)); reflexivity. Qed.

Lemma select_then_date q qs ty r :
  obind (select_entries qs ty r) (select (date_part q)) = if date_okb q (rdate r) then select_entries qs ty r else None.
Proof.
  destruct (select_entries qs ty r) as [r'|] eqn:E; cbn [obind].
  - rewrite select_date_part, (select_entries_rdate _ _ _ _ E). reflexivity.
  - destruct (date_okb q (rdate r)); reflexivity.
Qed.

(* THEOREM 2: all clauses together = the type filter after the tag filter after the date filter *)
Theorem filter_conj q rs :
  filter_records q rs = filter_records (type_part q) (filter_records (tag_part q) (filter_records (date_part q) rs)).
Proof.
  rewrite !filter_spec, !filter_map_compose. apply filter_map_ext. intros r.
  rewrite select_split. rewrite select_date_part.
  destruct (date_okb q (rdate r)); cbn [obind]; [|reflexivity].
  rewrite select_tag_part.
  transitivity (obind (select_entries (q_tags q) None r) (select_entries [] (q_entry_type q))).
  - symmetry. apply select_tags_then_type.
  - destruct (select_entries (q_tags q) None r); reflexivity.
Qed.

(* ... and the three filters commute pairwise (for clauses taken from any queries) *)
Theorem filter_date_tag_commute qa qb rs :
  filter_records (date_part qa) (filter_records (tag_part qb) rs) = filter_records (tag_part qb) (filter_records (date_part qa) rs).
Proof.
  rewrite !filter_spec, !filter_map_compose. apply filter_map_ext. intros r.
  rewrite select_tag_part. rewrite select_then_date.
  transitivity (obind (select (date_part qa) r) (select_entries (q_tags qb) None)).
  - symmetry. apply select_date_then.
  - destruct (select (date_part qa) r); reflexivity.
Qed.

Theorem filter_date_type_commute qa qb rs :
  filter_records (date_part qa) (filter_records (type_part qb) rs) = filter_records (type_part qb) (filter_records (date_part qa) rs).
Proof.
  rewrite !filter_spec, !filter_map_compose. apply filter_map_ext. intros r.
  rewrite select_type_part. rewrite select_then_date.
  transitivity (obind (select (date_part qa) r) (select_entries [] (q_entry_type qb))).
  - symmetry. apply select_date_then.
  - destruct (select (date_part qa) r); reflexivity.
Qed.

Theorem filter_tag_type_commute qa qb rs :
  filter_records (tag_part qa) (filter_records (type_part qb) rs) = filter_records (type_part qb) (filter_records (tag_part qa) rs).
Proof.
  rewrite !filter_spec, !filter_map_compose. apply filter_map_ext. intros r.
  change (select (tag_part qa)) with (select_entries (q_tags qa) None).
  change (select (type_part qb)) with (select_entries [] (q_entry_type qb)).
  rewrite select_type_then_tags, select_tags_then_type. reflexivity.
Qed.

(* intersection, clause by clause: an entry matches the whole query iff it matches each part; a date satisfies
   the whole query iff it satisfies each part *)
Theorem entry_matches_conj q r e :
  entry_matches q r e = entry_matches (date_part q) r e && entry_matches (tag_part q) r e && entry_matches (type_part q) r e.
Proof.
  unfold entry_matches, entry_tags_ok, type_ok. cbn [date_part tag_part type_part q_tags q_entry_type carries_all forallb].
  rewrite !andb_true_r. reflexivity.
Qed.

Theorem date_ok_conj q d : date_ok q d <-> date_ok (date_part q) d /\ date_ok (tag_part q) d /\ date_ok (type_part q) d.
Proof.
  unfold date_ok. cbn [date_part tag_part type_part q_at_date q_before_or_equal q_after_or_equal].
  split.
  - intros H. split; [exact H|]. split; (split; [|split]); intros x; discriminate.
  - intros [H _]. exact H.
Qed.

(* ===================================================================== *)
(* Part E — FilterArgs.ApplyFilter: what every flag means                *)
(* ===================================================================== *)

(* the relative shortcut that decides: the first one set, in the order of the closure shortcutPeriod;
   (kind, true) is last-<kind> *)
Definition shortcut_flag (a : filter_args) : option (kind * bool) :=
  if a_this_week a || a_this_week_alias a then Some (KWeek, false)
  else if a_last_week a || a_last_week_alias a then Some (KWeek, true)
  else if a_this_month a || a_this_month_alias a then Some (KMonth, false)
  else if a_last_month a || a_last_month_alias a then Some (KMonth, true)
  else if a_this_quarter a || a_this_quarter_alias a then Some (KQuarter, false)
  else if a_last_quarter a || a_last_quarter_alias a then Some (KQuarter, true)
  else if a_this_year a || a_this_year_alias a then Some (KYear, false)
  else if a_last_year a || a_last_year_alias a then Some (KYear, true)
  else None.

Definition shortcut_outcome (today : cdate) (f : option (kind * bool)) : outcome (option period) :=
  match f with
  | None => Ok None
  | Some (k, false) => let* p := period_of k today in Ok (Some p)
  | Some (k, true) => let* p := previous_period k today in Ok (Some p)
  end.

Lemma shortcut_period_eq today a : shortcut_period today a = shortcut_outcome today (shortcut_flag a).
Proof.
  unfold shortcut_period, shortcut_flag.
  repeat match goal with |- context [if ?b || ?c then _ else _] =>
    destruct (b || c); [cbv beta iota delta [shortcut_outcome]; reflexivity|] end.
  reflexivity.
Qed.

(* the date PlusDays(n) yields, as a specification: the calendar date n days later *)
Definition day_after (d d' : cdate) (n : Z) : Prop := valid d' /\ days_of d' = days_of d + n.

Lemma bind_ok {A B} (x : outcome A) (f : A -> outcome B) y : bind x f = Ok y -> exists a, x = Ok a /\ f a = Ok y.
Proof. destruct x; cbn [bind]; try discriminate. eauto. Qed.

(* the five steps of ApplyFilter that can panic, one after the other *)
Lemma apply_filter_args_parts today a q : apply_filter_args today a = Ok q ->
  exists after1 before1 at1 at2 sp,
    match a_after a with
    | Some d => let* d' := plus_days d 1 in Ok (Some d')
    | None => Ok (match a_period a with Some p => Some (fst p) | None => a_since a end)
    end = Ok after1 /\
    match a_before a with
    | Some d => let* d' := plus_days d (-1) in Ok (Some d')
    | None => Ok (match a_period a with Some p => Some (snd p) | None => a_until a end)
    end = Ok before1 /\
    (if a_yesterday a then let* d := plus_days today (-1) in Ok (Some d)
     else Ok (if a_today a then Some today else a_date a)) = Ok at1 /\
    (if a_tomorrow a then let* d := plus_days today 1 in Ok (Some d) else Ok at1) = Ok at2 /\
    shortcut_outcome today (shortcut_flag a) = Ok sp /\
    q = {| q_tags := a_tags a;
           q_before_or_equal := match sp with Some p => Some (snd p) | None => before1 end;
           q_after_or_equal := match sp with Some p => Some (fst p) | None => after1 end;
           q_at_date := at2; q_entry_type := a_entry_type a |}.
Proof.
  intros H. unfold apply_filter_args in H. cbv zeta in H.
  apply bind_ok in H as (after1 & Ha & H). apply bind_ok in H as (before1 & Hb & H).
  apply bind_ok in H as (at1 & Hy & H). apply bind_ok in H as (at2 & Ht & H). apply bind_ok in H as (sp & Hs & H).
  rewrite shortcut_period_eq in Hs. injection H as <-.
  exists after1, before1, at1, at2, sp. repeat split; assumption.
Qed.

(* every field of the query, flag by flag: later assignments of ApplyFilter win *)
Theorem apply_filter_args_fields today a q : apply_filter_args today a = Ok q ->
  q_tags q = a_tags a /\ q_entry_type q = a_entry_type a /\
  (exists sp, shortcut_outcome today (shortcut_flag a) = Ok sp /\
     match sp with
     | Some p => q_after_or_equal q = Some (fst p) /\ q_before_or_equal q = Some (snd p)
     | None =>
       match a_after a with
       | Some d => exists d', plus_days d 1 = Ok d' /\ q_after_or_equal q = Some d'
       | None => q_after_or_equal q = match a_period a with Some p => Some (fst p) | None => a_since a end
       end /\
       match a_before a with
       | Some d => exists d', plus_days d (-1) = Ok d' /\ q_before_or_equal q = Some d'
       | None => q_before_or_equal q = match a_period a with Some p => Some (snd p) | None => a_until a end
       end
     end) /\
  (if a_tomorrow a then exists d, plus_days today 1 = Ok d /\ q_at_date q = Some d
   else if a_yesterday a then exists d, plus_days today (-1) = Ok d /\ q_at_date q = Some d
   else if a_today a then q_at_date q = Some today
   else q_at_date q = a_date a).
Proof.
  intros H. destruct (apply_filter_args_parts today a q H) as (after1 & before1 & at1 & at2 & sp & Ha & Hb & Hy & Ht & Hs & ->).
  cbn [q_tags q_entry_type q_after_or_equal q_before_or_equal q_at_date].
  split; [reflexivity|]. split; [reflexivity|]. split.
  - exists sp. split; [exact Hs|]. destruct sp as [p|]; [split; reflexivity|]. split.
    + destruct (a_after a) as [d|].
      * apply bind_ok in Ha as (d' & E & [= <-]). eauto.
      * injection Ha as <-. reflexivity.
    + destruct (a_before a) as [d|].
      * apply bind_ok in Hb as (d' & E & [= <-]). eauto.
      * injection Hb as <-. reflexivity.
  - destruct (a_tomorrow a).
    + apply bind_ok in Ht as (d & E & [= <-]). eauto.
    + injection Ht as <-. destruct (a_yesterday a).
      * apply bind_ok in Hy as (d & E & [= <-]). eauto.
      * injection Hy as <-. destruct (a_today a); reflexivity.
Qed.

(* ---- when the query is defined: exactly when no needed neighbour date / period lies outside the calendar ---- *)

Definition first_date : cdate := mk 0 1 1.

Definition args_representable (today : cdate) (a : filter_args) : Prop :=
  (forall d, a_after a = Some d -> d <> last_date) /\
  (forall d, a_before a = Some d -> d <> first_date) /\
  (a_yesterday a = true -> today <> first_date) /\
  (a_tomorrow a = true -> today <> last_date) /\
  match shortcut_flag a with
  | Some (k, false) => ~ period_edge k today
  | Some (k, true) => ~ previous_edge k today
  | None => True
  end.

Definition args_valid (a : filter_args) : Prop :=
  (forall d, a_after a = Some d -> valid d) /\ (forall d, a_before a = Some d -> valid d).

Lemma plus_one_ok d : valid d -> d <> last_date -> exists d', plus_days d 1 = Ok d' /\ day_after d d' 1.
Proof.
  intros Hv Hn. pose proof (valid_not_last d Hv Hn) as Hl. pose proof (valid_days _ Hv) as [Hw Hr].
  rewrite plus_days_ok by (assumption || lia). eexists; split; [reflexivity|].
  apply cfd_valid_days. lia.
Qed.

Lemma valid_not_first d : valid d -> d <> first_date -> D0 < days_of d.
Proof.
  intros Hv Hn. pose proof (valid_days _ Hv) as [Hw Hr].
  destruct (Z.eq_dec (days_of d) D0) as [E|E]; [|lia].
  exfalso. apply Hn. apply days_inj; [exact Hw | unfold wf_date, first_date, mk; cbn; lia | rewrite E; reflexivity].
Qed.

Lemma minus_one_ok d : valid d -> d <> first_date -> exists d', plus_days d (-1) = Ok d' /\ day_after d d' (-1).
Proof.
  intros Hv Hn. pose proof (valid_not_first d Hv Hn) as Hl. pose proof (valid_days _ Hv) as [Hw Hr].
  rewrite plus_days_ok by (assumption || lia). eexists; split; [reflexivity|].
  apply cfd_valid_days. lia.
Qed.

Lemma plus_days_ok_inv d n d' : valid d -> plus_days d n = Ok d' -> day_after d d' n.
Proof. intros Hv H. apply (proj1 (plus_days_full_spec d n Hv)) in H. exact H. Qed.

Lemma plus_one_last : plus_days last_date 1 = Crash CUnrepresentableDate.
Proof. reflexivity. Qed.
Lemma minus_one_first : plus_days first_date (-1) = Crash CUnrepresentableDate.
Proof. reflexivity. Qed.

Lemma shortcut_outcome_ok today f : valid today ->
  match f with Some (k, false) => ~ period_edge k today | Some (k, true) => ~ previous_edge k today | None => True end ->
  exists sp, shortcut_outcome today f = Ok sp.
Proof.
  intros Hv H. destruct f as [[k [|]]|]; cbn [shortcut_outcome].
  - destruct (previous_period_adjacent k today Hv H) as (s & u & -> & _). eexists; reflexivity.
  - destruct (period_tiles k today Hv H) as (s & u & -> & _). eexists; reflexivity.
  - eexists; reflexivity.
Qed.

Lemma shortcut_outcome_ok_inv today f sp : valid today -> shortcut_outcome today f = Ok sp ->
  match f with Some (k, false) => ~ period_edge k today | Some (k, true) => ~ previous_edge k today | None => True end.
Proof.
  intros Hv H. destruct f as [[k [|]]|]; cbn [shortcut_outcome] in H; [| |exact I].
  - intros E. pose proof (previous_edge_crash k today Hv E) as C. destruct (previous_period k today); discriminate.
  - intros E. rewrite (period_edge_crash k today Hv E) in H. discriminate.
Qed.

Theorem apply_filter_args_defined today a : valid today -> args_valid a ->
  ((exists q, apply_filter_args today a = Ok q) <-> args_representable today a).
Proof.
  intros Hv [Va Vb]. unfold args_representable. split.
  - intros [q H]. destruct (apply_filter_args_parts today a q H) as (after1 & before1 & at1 & at2 & sp & Ha & Hb & Hy & Ht & Hs & _).
    repeat split.
    + intros d Ed ->. rewrite Ed, plus_one_last in Ha. discriminate.
    + intros d Ed ->. rewrite Ed, minus_one_first in Hb. discriminate.
    + intros Ey ->. rewrite Ey, minus_one_first in Hy. discriminate.
    + intros Et ->. rewrite Et, plus_one_last in Ht. discriminate.
    + exact (shortcut_outcome_ok_inv today _ sp Hv Hs).
  - intros (Ha & Hb & Hy & Ht & Hs). unfold apply_filter_args. rewrite shortcut_period_eq.
    destruct (shortcut_outcome_ok today _ Hv Hs) as [sp ->].
    destruct (a_after a) as [da|] eqn:Ea.
    + destruct (plus_one_ok da (Va da eq_refl) (Ha da eq_refl)) as (da' & -> & _). cbn [bind].
      destruct (a_before a) as [db|] eqn:Eb.
      * destruct (minus_one_ok db (Vb db eq_refl) (Hb db eq_refl)) as (db' & -> & _). cbn [bind].
        destruct (a_yesterday a); [destruct (minus_one_ok today Hv (Hy eq_refl)) as (dy & -> & _)|]; cbn [bind];
        (destruct (a_tomorrow a); [destruct (plus_one_ok today Hv (Ht eq_refl)) as (dt' & -> & _)|]; cbn [bind]); eexists; reflexivity.
      * cbn [bind].
        destruct (a_yesterday a); [destruct (minus_one_ok today Hv (Hy eq_refl)) as (dy & -> & _)|]; cbn [bind];
        (destruct (a_tomorrow a); [destruct (plus_one_ok today Hv (Ht eq_refl)) as (dt' & -> & _)|]; cbn [bind]); eexists; reflexivity.
    + cbn [bind]. destruct (a_before a) as [db|] eqn:Eb.
      * destruct (minus_one_ok db (Vb db eq_refl) (Hb db eq_refl)) as (db' & -> & _). cbn [bind].
        destruct (a_yesterday a); [destruct (minus_one_ok today Hv (Hy eq_refl)) as (dy & -> & _)|]; cbn [bind];
        (destruct (a_tomorrow a); [destruct (plus_one_ok today Hv (Ht eq_refl)) as (dt' & -> & _)|]; cbn [bind]); eexists; reflexivity.
      * cbn [bind].
        destruct (a_yesterday a); [destruct (minus_one_ok today Hv (Hy eq_refl)) as (dy & -> & _)|]; cbn [bind];
        (destruct (a_tomorrow a); [destruct (plus_one_ok today Hv (Ht eq_refl)) as (dt' & -> & _)|]; cbn [bind]); eexists; reflexivity.
Qed.


(* ---- the meaning of the bounds on calendar dates ---- *)

Lemma lower_ok_days q a d : q_after_or_equal q = Some a -> valid a -> valid d ->
  (lower_ok q d = true <-> days_of a <= days_of d).
Proof. intros E Va Vd. unfold lower_ok. rewrite E. apply date_order; assumption. Qed.

Lemma upper_ok_days q b d : q_before_or_equal q = Some b -> valid b -> valid d ->
  (upper_ok q d = true <-> days_of d <= days_of b).
Proof. intros E Vb Vd. unfold upper_ok. rewrite E. apply date_order; assumption. Qed.

Lemma lower_ok_none q d : q_after_or_equal q = None -> lower_ok q d = true.
Proof. intros E. unfold lower_ok. rewrite E. reflexivity. Qed.

Lemma upper_ok_none q d : q_before_or_equal q = None -> upper_ok q d = true.
Proof. intros E. unfold upper_ok. rewrite E. reflexivity. Qed.

Lemma at_ok_some q a d : q_at_date q = Some a -> (at_ok q d = true <-> d = a).
Proof. intros E. unfold at_ok. rewrite E, cdate_eqb_iff. split; congruence. Qed.

Lemma valid_days_inj a b : valid a -> valid b -> days_of a = days_of b -> a = b.
Proof. intros Ha Hb. apply valid_days in Ha as [Wa _]. apply valid_days in Hb as [Wb _]. apply days_inj; assumption. Qed.

(* the part of [apply_filter_args_fields] about the bounds when no relative shortcut is given *)
Lemma fields_no_shortcut today a q : apply_filter_args today a = Ok q -> shortcut_flag a = None ->
  match a_after a with
  | Some d => exists d', plus_days d 1 = Ok d' /\ q_after_or_equal q = Some d'
  | None => q_after_or_equal q = match a_period a with Some p => Some (fst p) | None => a_since a end
  end /\
  match a_before a with
  | Some d => exists d', plus_days d (-1) = Ok d' /\ q_before_or_equal q = Some d'
  | None => q_before_or_equal q = match a_period a with Some p => Some (snd p) | None => a_until a end
  end.
Proof.
  intros H Hs. destruct (apply_filter_args_fields today a q H) as (_ & _ & (sp & Es & Hsp) & _).
  rewrite Hs in Es. injection Es as <-. exact Hsp.
Qed.

(* --since D: the records dated D or later (no --after, --period or relative shortcut given) *)
Theorem args_since today a q D : apply_filter_args today a = Ok q ->
  shortcut_flag a = None -> a_after a = None -> a_period a = None -> a_since a = Some D -> valid D ->
  forall d, valid d -> (lower_ok q d = true <-> days_of D <= days_of d).
Proof.
  intros H Hs Ha Hp Hd VD d Vd. destruct (fields_no_shortcut today a q H Hs) as [L _].
  rewrite Ha, Hp, Hd in L. apply lower_ok_days; assumption.
Qed.

(* --until D: the records dated D or earlier *)
Theorem args_until today a q D : apply_filter_args today a = Ok q ->
  shortcut_flag a = None -> a_before a = None -> a_period a = None -> a_until a = Some D -> valid D ->
  forall d, valid d -> (upper_ok q d = true <-> days_of d <= days_of D).
Proof.
  intros H Hs Hb Hp Hd VD d Vd. destruct (fields_no_shortcut today a q H Hs) as [_ U].
  rewrite Hb, Hp, Hd in U. apply upper_ok_days; assumption.
Qed.

(* --after D: the records dated strictly later than D (it replaces --since and the start of --period) *)
Theorem args_after today a q D : apply_filter_args today a = Ok q ->
  shortcut_flag a = None -> a_after a = Some D -> valid D ->
  forall d, valid d -> (lower_ok q d = true <-> days_of D < days_of d).
Proof.
  intros H Hs Ha VD d Vd. destruct (fields_no_shortcut today a q H Hs) as [L _].
  rewrite Ha in L. destruct L as (D' & E & L). destruct (plus_days_ok_inv D 1 D' VD E) as [VD' ED'].
  rewrite (lower_ok_days q D' d L VD' Vd). lia.
Qed.

(* --before D: the records dated strictly earlier than D *)
Theorem args_before today a q D : apply_filter_args today a = Ok q ->
  shortcut_flag a = None -> a_before a = Some D -> valid D ->
  forall d, valid d -> (upper_ok q d = true <-> days_of d < days_of D).
Proof.
  intros H Hs Hb VD d Vd. destruct (fields_no_shortcut today a q H Hs) as [_ U].
  rewrite Hb in U. destruct U as (D' & E & U). destruct (plus_days_ok_inv D (-1) D' VD E) as [VD' ED'].
  rewrite (upper_ok_days q D' d U VD' Vd). lia.
Qed.

(* no clause for a bound: no restriction *)
Theorem args_no_lower today a q : apply_filter_args today a = Ok q ->
  shortcut_flag a = None -> a_after a = None -> a_period a = None -> a_since a = None -> forall d, lower_ok q d = true.
Proof.
  intros H Hs Ha Hp Hd d. destruct (fields_no_shortcut today a q H Hs) as [L _].
  rewrite Ha, Hp, Hd in L. apply lower_ok_none. exact L.
Qed.

Theorem args_no_upper today a q : apply_filter_args today a = Ok q ->
  shortcut_flag a = None -> a_before a = None -> a_period a = None -> a_until a = None -> forall d, upper_ok q d = true.
Proof.
  intros H Hs Hb Hp Hd d. destruct (fields_no_shortcut today a q H Hs) as [_ U].
  rewrite Hb, Hp, Hd in U. apply upper_ok_none. exact U.
Qed.

Theorem args_no_bounds today a q : apply_filter_args today a = Ok q ->
  shortcut_flag a = None -> a_period a = None ->
  (a_after a = None -> a_since a = None -> forall d, lower_ok q d = true) /\
  (a_before a = None -> a_until a = None -> forall d, upper_ok q d = true).
Proof.
  intros H Hs Hp. split.
  - intros Ha Hd. exact (args_no_lower today a q H Hs Ha Hp Hd).
  - intros Hb Hd. exact (args_no_upper today a q H Hs Hb Hp Hd).
Qed.

(* --period P with P = [since, until]: the records dated within it *)
Theorem args_period today a q s u : apply_filter_args today a = Ok q ->
  shortcut_flag a = None -> a_after a = None -> a_before a = None -> a_period a = Some (s, u) -> valid s -> valid u ->
  forall d, valid d -> (lower_ok q d && upper_ok q d = true <-> days_of s <= days_of d <= days_of u).
Proof.
  intros H Hs Ha Hb Hp Vs Vu d Vd. destruct (fields_no_shortcut today a q H Hs) as [L U].
  rewrite Ha, Hp in L. rewrite Hb, Hp in U. cbn [fst snd] in L, U.
  rewrite andb_true_iff, (lower_ok_days q s d L Vs Vd), (upper_ok_days q u d U Vu Vd). tauto.
Qed.

(* ---- --date, --today, --yesterday, --tomorrow ---- *)

Lemma fields_at today a q : apply_filter_args today a = Ok q ->
  if a_tomorrow a then exists d, plus_days today 1 = Ok d /\ q_at_date q = Some d
  else if a_yesterday a then exists d, plus_days today (-1) = Ok d /\ q_at_date q = Some d
  else if a_today a then q_at_date q = Some today
  else q_at_date q = a_date a.
Proof. intros H. apply (apply_filter_args_fields today a q H). Qed.

Theorem args_date today a q D : apply_filter_args today a = Ok q ->
  a_tomorrow a = false -> a_yesterday a = false -> a_today a = false -> a_date a = Some D ->
  forall d, at_ok q d = true <-> d = D.
Proof.
  intros H Ht Hy Hn Hd d. pose proof (fields_at today a q H) as F. rewrite Ht, Hy, Hn, Hd in F. apply at_ok_some. exact F.
Qed.

Theorem args_today today a q : apply_filter_args today a = Ok q ->
  a_tomorrow a = false -> a_yesterday a = false -> a_today a = true ->
  forall d, at_ok q d = true <-> d = today.
Proof.
  intros H Ht Hy Hn d. pose proof (fields_at today a q H) as F. rewrite Ht, Hy, Hn in F. apply at_ok_some. exact F.
Qed.

Theorem args_yesterday today a q : apply_filter_args today a = Ok q -> valid today ->
  a_tomorrow a = false -> a_yesterday a = true ->
  forall d, valid d -> (at_ok q d = true <-> days_of d = days_of today - 1).
Proof.
  intros H Vt Ht Hy d Vd. pose proof (fields_at today a q H) as F. rewrite Ht, Hy in F. destruct F as (y & E & F).
  destruct (plus_days_ok_inv today (-1) y Vt E) as [Vy Ey]. rewrite (at_ok_some q y d F). split.
  - intros ->. lia.
  - intros Hd. apply valid_days_inj; [assumption | assumption | lia].
Qed.

Theorem args_tomorrow today a q : apply_filter_args today a = Ok q -> valid today ->
  a_tomorrow a = true ->
  forall d, valid d -> (at_ok q d = true <-> days_of d = days_of today + 1).
Proof.
  intros H Vt Ht d Vd. pose proof (fields_at today a q H) as F. rewrite Ht in F. destruct F as (y & E & F).
  destruct (plus_days_ok_inv today 1 y Vt E) as [Vy Ey]. rewrite (at_ok_some q y d F). split.
  - intros ->. lia.
  - intros Hd. apply valid_days_inj; [assumption | assumption | lia].
Qed.

Theorem args_no_at today a q : apply_filter_args today a = Ok q ->
  a_tomorrow a = false -> a_yesterday a = false -> a_today a = false -> a_date a = None -> forall d, at_ok q d = true.
Proof.
  intros H Ht Hy Hn Hd d. pose proof (fields_at today a q H) as F. rewrite Ht, Hy, Hn, Hd in F.
  unfold at_ok. rewrite F. reflexivity.
Qed.

(* ---- the relative shortcuts ---- *)

(* the dates of a period are exactly the dates whose period it is *)
Lemma period_members k c s u : valid c -> period_of k c = Ok (s, u) ->
  valid s /\ valid u /\ first_last_ok k s u /\
  forall d, valid d -> (days_of s <= days_of d <= days_of u <-> period_of k d = Ok (s, u)).
Proof.
  intros Vc E.
  assert (Ne : ~ period_edge k c) by (intros X; rewrite (period_edge_crash k c Vc X) in E; discriminate).
  destruct (period_tiles k c Vc Ne) as (s1 & u1 & E1 & Vs & Vu & _ & FL & All).
  rewrite E in E1. apply ok_pair_inj in E1 as [<- <-].
  split; [exact Vs|]. split; [exact Vu|]. split; [exact FL|].
  intros d Vd. split; [apply All; exact Vd|].
  intros Ed.
  assert (Nd : ~ period_edge k d) by (intros X; rewrite (period_edge_crash k d Vd X) in Ed; discriminate).
  destruct (period_tiles k d Vd Nd) as (s2 & u2 & E2 & _ & _ & B & _).
  rewrite Ed in E2. apply ok_pair_inj in E2 as [<- <-]. exact B.
Qed.

Lemma fields_shortcut today a q f : apply_filter_args today a = Ok q -> shortcut_flag a = Some f ->
  exists p, shortcut_outcome today (Some f) = Ok (Some p) /\
            q_after_or_equal q = Some (fst p) /\ q_before_or_equal q = Some (snd p).
Proof.
  intros H Hs. destruct (apply_filter_args_fields today a q H) as (_ & _ & (sp & Es & Hsp) & _).
  rewrite Hs in Es. destruct f as [k [|]]; cbn [shortcut_outcome] in Es |- *.
  - destruct (previous_period k today) as [p| |]; cbn [bind] in Es |- *; try discriminate. injection Es as <-. exists p. tauto.
  - destruct (period_of k today) as [p| |]; cbn [bind] in Es |- *; try discriminate. injection Es as <-. exists p. tauto.
Qed.

(* --this-week / --this-month / --this-quarter / --this-year: the records of the period that contains the clock's
   date — the dates whose period is the clock's period *)
Theorem args_this today a q k : apply_filter_args today a = Ok q -> valid today ->
  shortcut_flag a = Some (k, false) ->
  exists s u, period_of k today = Ok (s, u) /\ valid s /\ valid u /\ first_last_ok k s u /\
    days_of s <= days_of today <= days_of u /\
    forall d, valid d ->
      (lower_ok q d && upper_ok q d = true <-> days_of s <= days_of d <= days_of u) /\
      (lower_ok q d && upper_ok q d = true <-> period_of k d = period_of k today).
Proof.
  intros H Vt Hs. destruct (fields_shortcut today a q (k, false) H Hs) as ([s u] & Es & L & U).
  cbn [shortcut_outcome] in Es. destruct (period_of k today) as [p| |] eqn:Ep; cbn [bind] in Es; try discriminate.
  injection Es as ->. cbn [fst snd] in L, U.
  destruct (period_members k today s u Vt Ep) as (Vs & Vu & FL & Mem).
  exists s, u. split; [reflexivity|]. split; [exact Vs|]. split; [exact Vu|]. split; [exact FL|].
  split; [apply (Mem today Vt); exact Ep|].
  intros d Vd.
  assert (R : lower_ok q d && upper_ok q d = true <-> days_of s <= days_of d <= days_of u).
  { rewrite andb_true_iff, (lower_ok_days q s d L Vs Vd), (upper_ok_days q u d U Vu Vd). tauto. }
  split; [exact R|]. rewrite R. apply Mem. exact Vd.
Qed.

(* --last-week / ... / --last-year: the records of the period that ends on the day before the clock's period begins *)
Theorem args_last today a q k : apply_filter_args today a = Ok q -> valid today ->
  shortcut_flag a = Some (k, true) ->
  exists s' u', previous_period k today = Ok (s', u') /\ valid s' /\ valid u' /\ first_last_ok k s' u' /\
    period_of k u' = Ok (s', u') /\ days_of u' < days_of today /\
    (forall s u, period_of k today = Ok (s, u) -> next_day u' = s /\ days_of u' + 1 = days_of s) /\
    forall d, valid d ->
      (lower_ok q d && upper_ok q d = true <-> days_of s' <= days_of d <= days_of u') /\
      (lower_ok q d && upper_ok q d = true <-> period_of k d = Ok (s', u')).
Proof.
  intros H Vt Hs. destruct (fields_shortcut today a q (k, true) H Hs) as ([s' u'] & Es & L & U).
  cbn [shortcut_outcome] in Es. destruct (previous_period k today) as [p| |] eqn:Ep; cbn [bind] in Es; try discriminate.
  injection Es as ->. cbn [fst snd] in L, U.
  assert (Ne : ~ previous_edge k today).
  { intros X. pose proof (previous_edge_crash k today Vt X) as C. rewrite Ep in C. discriminate. }
  destruct (previous_period_adjacent k today Vt Ne) as (s1 & u1 & E1 & Vs & Vu & B & FL & Pu & Adj).
  rewrite Ep in E1. apply ok_pair_inj in E1 as [<- <-].
  destruct (period_members k u' s' u' Vu Pu) as (_ & _ & _ & Mem).
  exists s', u'. split; [reflexivity|]. split; [exact Vs|]. split; [exact Vu|]. split; [exact FL|].
  split; [exact Pu|]. split; [lia|]. split; [exact Adj|].
  intros d Vd.
  assert (R : lower_ok q d && upper_ok q d = true <-> days_of s' <= days_of d <= days_of u').
  { rewrite andb_true_iff, (lower_ok_days q s' d L Vs Vd), (upper_ok_days q u' d U Vu Vd). tauto. }
  split; [exact R|]. rewrite R. apply Mem. exact Vd.
Qed.

(* tags and entry type are handed through unchanged *)
Theorem args_tags_type today a q : apply_filter_args today a = Ok q ->
  q_tags q = a_tags a /\ q_entry_type q = a_entry_type a.
Proof. intros H. destruct (apply_filter_args_fields today a q H) as (Ht & He & _). auto. Qed.

(* ---- the decoders deliver what the theorems above talk about ---- *)

Lemma decode_period a v a' : decode_flag a b!"period" v = Ok a' ->
  exists p, period_from_pattern v = Ok p /\ a_period a' = Some p /\ a_tags a' = a_tags a /\ a_since a' = a_since a /\ a_until a' = a_until a.
Proof.
  unfold decode_flag. cbn [bytes_eqb bytes_of_string N_of_ascii N.eqb Pos.eqb andb].
  destruct v as [|c v]; [discriminate|]. destruct (period_from_pattern (c :: v)) as [p| |]; try discriminate.
  intros [= <-]. exists p. auto.
Qed.

(* ===================================================================== *)
(* Part F — sorting                                                      *)
(* ===================================================================== *)

(* x may stand before y *)
Definition ordered (asc : bool) (x y : record) : Prop :=
  if asc then date_le (rdate x) (rdate y) else date_le (rdate y) (rdate x).

Definition sorted_by_date (asc : bool) (l : list record) : Prop := StronglySorted (ordered asc) l.

(* THE SPECIFICATION of `--sort`: the same records (as a multiset: nothing added, dropped or altered), ordered by
   date. It does not say in which order records of equal date come: Go's sort.Slice is free there. *)
Definition sort_spec (asc : bool) (rs out : list record) : Prop := Permutation rs out /\ sorted_by_date asc out.

Lemma goes_before_spec asc x y : goes_before asc x y = true <-> ordered asc x y.
Proof. unfold goes_before, ordered. destruct asc; apply date_leb_le. Qed.

Lemma ordered_refl asc x : ordered asc x x.
Proof. unfold ordered. destruct asc; apply date_le_refl. Qed.

Lemma ordered_trans asc x y z : ordered asc x y -> ordered asc y z -> ordered asc x z.
Proof. unfold ordered. destruct asc; intros H1 H2; eapply date_le_trans; eassumption. Qed.

Lemma ordered_total asc x y : ordered asc x y \/ ordered asc y x.
Proof. unfold ordered. destruct asc; apply date_le_total. Qed.

Lemma goes_before_false asc x y : goes_before asc x y = false -> ordered asc y x.
Proof.
  intros H. destruct (ordered_total asc x y) as [O|O]; [|exact O].
  apply goes_before_spec in O. congruence.
Qed.

Lemma insert_record_perm asc x l : Permutation (x :: l) (insert_record asc x l).
Proof.
  induction l as [|y l IH]; simpl; [apply Permutation_refl|].
  destruct (goes_before asc x y); [apply Permutation_refl|].
  eapply Permutation_trans; [apply perm_swap|]. apply perm_skip. exact IH.
Qed.

Lemma insert_record_In asc x l z : In z (insert_record asc x l) <-> z = x \/ In z l.
Proof.
  split.
  - intros H. apply (Permutation_in z (Permutation_sym (insert_record_perm asc x l))) in H. destruct H; auto.
  - intros H. apply (Permutation_in z (insert_record_perm asc x l)). destruct H; [left; auto | right; assumption].
Qed.

Lemma insert_record_sorted asc x l : sorted_by_date asc l -> sorted_by_date asc (insert_record asc x l).
Proof.
  unfold sorted_by_date. induction l as [|y l IH]; intros Hs; simpl.
  - constructor; constructor.
  - inversion Hs as [|y' l' Hl Hy]; subst. destruct (goes_before asc x y) eqn:E.
    + apply goes_before_spec in E. constructor; [exact Hs|]. constructor; [exact E|].
      rewrite Forall_forall in Hy |- *. intros z Hz. eapply ordered_trans; [exact E | apply Hy; exact Hz].
    + apply goes_before_false in E. constructor; [apply IH; exact Hl|].
      rewrite Forall_forall in Hy |- *. intros z Hz. apply insert_record_In in Hz as [-> | Hz]; [exact E | apply Hy; exact Hz].
Qed.

Theorem sort_records_spec asc rs : sort_spec asc rs (sort_records asc rs).
Proof.
  unfold sort_spec, sort_records. induction rs as [|r rs [IHp IHs]]; simpl.
  - split; [constructor | constructor].
  - split.
    + eapply Permutation_trans; [apply perm_skip; exact IHp | apply insert_record_perm].
    + apply insert_record_sorted. exact IHs.
Qed.

(* nothing is altered: the very same records, each as often as before *)
Theorem sort_preserves asc rs :
  Permutation rs (sort_records asc rs) /\ length (sort_records asc rs) = length rs /\
  forall r, In r (sort_records asc rs) <-> In r rs.
Proof.
  destruct (sort_records_spec asc rs) as [P _]. split; [exact P|]. split.
  - symmetry. apply Permutation_length. exact P.
  - intros r. split; apply Permutation_in; [apply Permutation_sym|]; exact P.
Qed.

(* the executable sort is moreover stable: records of one date keep their relative order *)
Definition on_date (d : cdate) (r : record) : bool := cdate_eqb (rdate r) d.

Lemma insert_record_on_date asc d x l :
  filter (on_date d) (insert_record asc x l) = filter (on_date d) (x :: l).
Proof.
  induction l as [|y l IH]; [reflexivity|]. cbn [insert_record].
  destruct (goes_before asc x y) eqn:E; [reflexivity|].
  cbn [filter] in IH |- *. rewrite IH.
  destruct (on_date d x) eqn:Ex; destruct (on_date d y) eqn:Ey; try reflexivity.
  (* both on date d: then x may stand before y *)
  exfalso. unfold on_date in Ex, Ey. apply cdate_eqb_iff in Ex, Ey.
  assert (O : ordered asc x y) by (unfold ordered; rewrite Ex, Ey; destruct asc; apply date_le_refl).
  apply goes_before_spec in O. congruence.
Qed.

Theorem sort_records_stable asc rs d : filter (on_date d) (sort_records asc rs) = filter (on_date d) rs.
Proof.
  unfold sort_records. induction rs as [|r rs IH]; [reflexivity|]. cbn [fold_right].
  rewrite insert_record_on_date. cbn [filter]. rewrite IH. reflexivity.
Qed.

(* ---- what the specification determines: the sequence of dates, and for every date the multiset of records ---- *)

Definition dates_sorted (asc : bool) (l : list cdate) : Prop :=
  StronglySorted (fun a b => if asc then date_le a b else date_le b a) l.

Lemma sorted_dates asc l : sorted_by_date asc l -> dates_sorted asc (map rdate l).
Proof.
  unfold sorted_by_date, dates_sorted. induction 1 as [|x l Hs IH Hx]; simpl; constructor; [exact IH|].
  rewrite Forall_forall in Hx |- *. intros d Hd. apply in_map_iff in Hd as (y & <- & Hy).
  specialize (Hx y Hy). unfold ordered in Hx. exact Hx.
Qed.

Lemma sorted_perm_eq asc (l1 : list cdate) : forall l2,
  dates_sorted asc l1 -> dates_sorted asc l2 -> Permutation l1 l2 -> l1 = l2.
Proof.
  unfold dates_sorted. induction l1 as [|a l1 IH]; intros l2 H1 H2 P.
  - apply Permutation_nil in P. subst. reflexivity.
  - destruct l2 as [|b l2]; [apply Permutation_sym, Permutation_nil in P; discriminate|].
    inversion H1 as [|? ? S1 F1]; subst. inversion H2 as [|? ? S2 F2]; subst.
    assert (E : a = b).
    { assert (Ia : In a (b :: l2)) by (apply (Permutation_in a P); left; reflexivity).
      assert (Ib : In b (a :: l1)) by (apply (Permutation_in b (Permutation_sym P)); left; reflexivity).
      destruct Ia as [->|Ia]; [reflexivity|]. destruct Ib as [->|Ib]; [reflexivity|].
      rewrite Forall_forall in F1, F2. specialize (F1 b Ib). specialize (F2 a Ia).
      destruct asc; apply date_le_antisym; assumption. }
    subst b. f_equal. apply IH; [exact S1 | exact S2|]. apply Permutation_cons_inv with (a := a). exact P.
Qed.

Lemma Permutation_filter' {A} (f : A -> bool) l l' : Permutation l l' -> Permutation (filter f l) (filter f l').
Proof.
  induction 1 as [|x l l' P IH|x y l|l l' l'' P1 IH1 P2 IH2]; simpl.
  - constructor.
  - destruct (f x); [apply perm_skip|]; exact IH.
  - destruct (f x), (f y); try apply Permutation_refl. apply perm_swap.
  - eapply Permutation_trans; eassumption.
Qed.

Theorem sort_spec_determines asc rs o1 o2 : sort_spec asc rs o1 -> sort_spec asc rs o2 ->
  map rdate o1 = map rdate o2 /\ forall d, Permutation (filter (on_date d) o1) (filter (on_date d) o2).
Proof.
  intros [P1 S1] [P2 S2].
  assert (P : Permutation o1 o2) by (eapply Permutation_trans; [apply Permutation_sym; exact P1 | exact P2]).
  split.
  - apply (sorted_perm_eq asc); [apply sorted_dates; exact S1 | apply sorted_dates; exact S2 | apply Permutation_map; exact P].
  - intros d. apply Permutation_filter'. exact P.
Qed.

(* SortArgs.ApplySort *)
Theorem apply_sort_spec s rs :
  (s = [] -> apply_sort s rs = rs) /\
  (s <> [] -> sort_spec (bytes_eqb (map ascii_lower s) b!"asc") rs (apply_sort s rs)).
Proof.
  split.
  - intros ->. reflexivity.
  - intros Hn. destruct s as [|c s]; [congruence|]. unfold apply_sort. apply sort_records_spec.
Qed.

(* ===================================================================== *)
(* Part G — the whole pipeline of `klog print|json [filter flags] [--sort]` *)
(* ===================================================================== *)

Theorem run_query_spec today a s rs out : run_query today a s rs = Ok out ->
  exists q, apply_filter_args today a = Ok q /\
    (s = [] -> out = filter_map (select q) rs) /\
    (s <> [] -> sort_spec (bytes_eqb (map ascii_lower s) b!"asc") (filter_map (select q) rs) out).
Proof.
  unfold run_query. intros H. apply bind_ok in H as (q & Hq & H). injection H as <-.
  exists q. split; [exact Hq|]. rewrite filter_spec. apply apply_sort_spec.
Qed.
