(* Report: lemmas about Model/Report.v (C12).
   1. hashes as numbers, period keys, monotonicity                     (uses Proofs/Period.v)
   2. sorting: permutation, sortedness, sorted permutations have the same date sequence
   3. groupByDate: characterisation of the groups
   4. allDatesRange
   5. sums over filtered lists, the int64 guard
   6. report_sorted = report_spec; rows_sum, rows_chronological, sort invariance
   7. today, print --with-totals
   8. records that come out of the parser carry valid dates
   9. the statements of Properties/C12.v; 10. the views behind a filter *)
From Klog Require Import Base.Prelude Base.Utf8 Model.Calendar Model.Values Model.Record Model.Lines Model.Parser Model.Eval
  Model.Period Model.Tags Model.Query Model.Report Proofs.Calendar Proofs.Period Proofs.Values Proofs.Eval Proofs.Parser.
From Coq Require Import ZifyBool Permutation Sorted.
Open Scope Z_scope.

(* ================= 1. hashes and period keys ================= *)

(* the value of the aggregator's hash on a valid date (Proofs/Period.v *_hash_val) *)
Definition hv (a : agg) (c : cdate) : Z :=
  match a with
  | ADay => c_day c + 64 * c_month c + 2048 * c_year c
  | AWeek => snd (iso_week c) + 128 * week_year_code (fst (iso_week c))
  | AMonth => c_month c + 32 * c_year c
  | AQuarter => quarter c + 8 * c_year c
  | AYear => c_year c
  end.

Lemma agg_hash_val a c : valid c -> agg_hash a c = Ok (hv a c).
Proof.
  intros Hv. destruct a; cbn [agg_hash hv].
  - apply day_hash_val; exact Hv.
  - apply week_hash_val; exact Hv.
  - apply month_hash_val; exact Hv.
  - apply quarter_hash_val; exact Hv.
  - apply year_hash_val; exact Hv.
Qed.

(* the calendar period a date lies in, as a number that grows with time:
   day number / day number of the Monday / months, quarters, years since year 0 *)
Definition pk (a : agg) (c : cdate) : Z :=
  match a with
  | ADay => days_of c
  | AWeek => monday_of c
  | AMonth => 12 * c_year c + c_month c
  | AQuarter => 4 * c_year c + quarter c
  | AYear => c_year c
  end.

(* same bucket <-> same calendar period *)
Lemma hv_eq_iff_pk a x y : valid x -> valid y -> (hv a x = hv a y <-> pk a x = pk a y).
Proof.
  intros Vx Vy.
  pose proof (valid_fields _ Vx) as (Hyx & Hmx & Hdx). pose proof (valid_fields _ Vy) as (Hyy & Hmy & Hdy).
  pose proof (valid_days _ Vx) as [Wx _]. pose proof (valid_days _ Vy) as [Wy _].
  destruct a; cbn [hv pk].
  - pose proof (dim_bounds (c_year x) (c_month x)). pose proof (dim_bounds (c_year y) (c_month y)).
    split.
    + intros E. assert (x = y) as ->; [|reflexivity].
      rewrite (eta_cdate x), (eta_cdate y). unfold mk. f_equal; lia.
    + intros E. apply days_inj in E; [subst; reflexivity|assumption|assumption].
  - rewrite <- (iso_week_iff x y Wx Wy).
    pose proof (iso_year_near x Wx). pose proof (iso_year_near y Wy).
    pose proof (iso_week_range x Wx). pose proof (iso_week_range y Wy).
    pose proof (week1_step (fst (iso_week x))) as [_ ?]. pose proof (week1_step (fst (iso_week y))) as [_ ?].
    destruct (iso_week x) as [yx wx], (iso_week y) as [yy wy]. cbn [fst snd] in *. unfold week_year_code.
    split.
    + intros HH. destruct (yx <? 0) eqn:Ea; destruct (yy <? 0) eqn:Eb; f_equal; lia.
    + intros [= -> ->]. reflexivity.
  - lia.
  - pose proof (quarter_spec x Hmx). pose proof (quarter_spec y Hmy). lia.
  - lia.
Qed.

Lemma monday_of_mono x y : days_of x <= days_of y -> monday_of x <= monday_of y.
Proof.
  intros H. unfold monday_of, weekday.
  pose proof (Z.mod_pos_bound (days_of x + 3) 7 ltac:(lia)).
  pose proof (Z.mod_pos_bound (days_of y + 3) 7 ltac:(lia)).
  pose proof (Z.div_mod (days_of x + 3) 7 ltac:(lia)). pose proof (Z.div_mod (days_of y + 3) 7 ltac:(lia)).
  assert ((days_of x + 3) / 7 <= (days_of y + 3) / 7) by (apply Z.div_le_mono; lia).
  lia.
Qed.

(* later dates lie in the same or a later period *)
Lemma pk_mono a x y : valid x -> valid y -> days_of x <= days_of y -> pk a x <= pk a y.
Proof.
  intros Vx Vy H.
  pose proof (valid_fields _ Vx) as (Hyx & Hmx & Hdx). pose proof (valid_fields _ Vy) as (Hyy & Hmy & Hdy).
  pose proof (valid_days _ Vx) as [Wx _]. pose proof (valid_days _ Vy) as [Wy _].
  apply (days_le_lex x y Wx Wy) in H.
  destruct a; cbn [pk].
  - apply (days_le_lex x y Wx Wy). exact H.
  - apply monday_of_mono. apply (days_le_lex x y Wx Wy). exact H.
  - lia.
  - pose proof (quarter_spec x Hmx). pose proof (quarter_spec y Hmy).
    destruct H as [H|[Hye H]]; [lia|]. assert (quarter x <= quarter y); [|lia].
    unfold quarter. apply Z.div_le_mono; lia.
  - lia.
Qed.

(* the period key against the periods of klog/service/period (Proofs/Period.v [same_period]) *)
Definition kind_of (a : agg) : option kind :=
  match a with ADay => None | AWeek => Some KWeek | AMonth => Some KMonth | AQuarter => Some KQuarter | AYear => Some KYear end.

Lemma pk_same_period a k x y : valid x -> valid y -> kind_of a = Some k -> (pk a x = pk a y <-> same_period k x y).
Proof.
  intros Vx Vy.
  pose proof (valid_fields _ Vx) as (Hyx & Hmx & Hdx). pose proof (valid_fields _ Vy) as (Hyy & Hmy & Hdy).
  destruct a; cbn [kind_of]; intros [= <-]; cbn [pk same_period]; try tauto.
  - lia.
  - pose proof (quarter_spec x Hmx). pose proof (quarter_spec y Hmy). lia.
Qed.

Lemma pk_day x y : valid x -> valid y -> (pk ADay x = pk ADay y <-> x = y).
Proof.
  intros Vx Vy. pose proof (valid_days _ Vx) as [Wx _]. pose proof (valid_days _ Vy) as [Wy _]. cbn [pk].
  split; [apply days_inj; assumption|intros ->; reflexivity].
Qed.

(* ================= 2. sorting ================= *)

Definition vrec (r : record) : Prop := valid (rdate r).
Definition dle (x y : record) : Prop := days_of (rdate x) <= days_of (rdate y).
Definition sorted (l : list record) : Prop := StronglySorted dle l.

Lemma insert_perm r l : Permutation (insert_by_date r l) (r :: l).
Proof.
  induction l as [|x l IH]; cbn [insert_by_date]; [apply Permutation_refl|].
  destruct (cdate_geb (rdate x) (rdate r)); [apply Permutation_refl|].
  eapply Permutation_trans; [apply perm_skip; exact IH|apply perm_swap].
Qed.

Theorem sort_perm rs : Permutation (sort_by_date rs) rs.
Proof.
  induction rs as [|r rs IH]; cbn [sort_by_date]; [constructor|].
  eapply Permutation_trans; [apply insert_perm|apply perm_skip; exact IH].
Qed.

Lemma Forall_perm {A} (P : A -> Prop) l l' : Permutation l l' -> Forall P l -> Forall P l'.
Proof. intros Hp H. rewrite Forall_forall in *. intros x Hx. apply H. eapply Permutation_in; [apply Permutation_sym; exact Hp|exact Hx]. Qed.

Lemma insert_sorted r l : vrec r -> Forall vrec l -> sorted l -> sorted (insert_by_date r l).
Proof.
  intros Vr Vl Hs. induction l as [|x l IH]; cbn [insert_by_date].
  - constructor; constructor.
  - inversion Vl as [|? ? Vx Vl']; subst. inversion Hs as [|? ? Hs' Hx]; subst.
    destruct (cdate_geb (rdate x) (rdate r)) eqn:E.
    + apply (date_order (rdate x) (rdate r) Vx Vr) in E.
      constructor; [exact Hs|]. constructor; [exact E|].
      eapply Forall_impl; [|exact Hx]. intros y Hy. unfold dle in *. lia.
    + assert (Hlt : days_of (rdate x) < days_of (rdate r)).
      { destruct (Z_lt_le_dec (days_of (rdate x)) (days_of (rdate r))) as [H|H]; [exact H|].
        apply (date_order (rdate x) (rdate r) Vx Vr) in H. congruence. }
      constructor; [apply IH; assumption|].
      eapply Forall_perm; [apply Permutation_sym, insert_perm|].
      constructor; [unfold dle; lia|exact Hx].
Qed.

Theorem sort_sorted rs : Forall vrec rs -> sorted (sort_by_date rs).
Proof.
  induction rs as [|r rs IH]; intros H; cbn [sort_by_date]; [constructor|].
  inversion H; subst. apply insert_sorted; [assumption| |apply IH; assumption].
  eapply Forall_perm; [apply Permutation_sym, sort_perm|assumption].
Qed.

(* a sorted list of integers is determined by its elements *)
Lemma sorted_perm_eq (l1 l2 : list Z) : Permutation l1 l2 -> StronglySorted Z.le l1 -> StronglySorted Z.le l2 -> l1 = l2.
Proof.
  revert l2; induction l1 as [|a l1 IH]; intros l2 Hp H1 H2.
  - apply Permutation_nil in Hp. congruence.
  - destruct l2 as [|b l2]; [apply Permutation_sym, Permutation_nil in Hp; discriminate|].
    inversion H1 as [|? ? H1' Ha]; subst. inversion H2 as [|? ? H2' Hb]; subst.
    assert (a = b).
    { assert (Ia : In a (b :: l2)) by (eapply Permutation_in; [exact Hp|left; reflexivity]).
      assert (Ib : In b (a :: l1)) by (eapply Permutation_in; [apply Permutation_sym; exact Hp|left; reflexivity]).
      rewrite Forall_forall in Ha, Hb.
      destruct Ia as [->|Ia]; [reflexivity|]. destruct Ib as [->|Ib]; [reflexivity|].
      specialize (Ha _ Ib). specialize (Hb _ Ia). lia. }
    subst b. f_equal. apply IH; [eapply Permutation_cons_inv; exact Hp|assumption|assumption].
Qed.

Lemma sorted_days l : sorted l -> StronglySorted Z.le (map (fun r => days_of (rdate r)) l).
Proof.
  induction 1 as [|x l Hs IH Hx]; cbn [map]; constructor; [exact IH|].
  rewrite Forall_map. exact Hx.
Qed.

Lemma map_days_inj (l1 l2 : list record) : Forall vrec l1 -> Forall vrec l2 ->
  map (fun r => days_of (rdate r)) l1 = map (fun r => days_of (rdate r)) l2 -> map rdate l1 = map rdate l2.
Proof.
  revert l2; induction l1 as [|x l1 IH]; intros [|y l2] V1 V2 H; cbn [map] in *; try discriminate; [reflexivity|].
  inversion V1; subst. inversion V2; subst. injection H as Hd Hr. f_equal; [|apply IH; assumption].
  apply days_inj; [apply valid_days; assumption|apply valid_days; assumption|exact Hd].
Qed.

(* whatever a sorting algorithm does with records of equal date: the sequence of dates is the same *)
Theorem sorted_perm_dates s1 s2 : Forall vrec s1 -> Permutation s1 s2 -> sorted s1 -> sorted s2 ->
  map rdate s1 = map rdate s2.
Proof.
  intros V1 Hp H1 H2. apply map_days_inj; [exact V1|eapply Forall_perm; eassumption|].
  apply sorted_perm_eq; [apply Permutation_map; exact Hp|apply sorted_days; exact H1|apply sorted_days; exact H2].
Qed.

(* ================= 3. groupByDate ================= *)

Lemma combine_map {A B} (f : A -> B) l : combine (map f l) l = map (fun x => (f x, x)) l.
Proof. induction l as [|x l IH]; cbn [map combine]; [reflexivity|]. rewrite IH. reflexivity. Qed.

Lemma mem_z_in h l : mem_z h l = true <-> In h l.
Proof.
  unfold mem_z. rewrite existsb_exists. split.
  - intros (x & Hx & E). apply Z.eqb_eq in E. subst. exact Hx.
  - intros H. exists h. split; [exact H|apply Z.eqb_refl].
Qed.

Lemma mem_z_false h l : mem_z h l = false <-> ~ In h l.
Proof. rewrite <- mem_z_in. destruct (mem_z h l); split; congruence. Qed.

Lemma filter_nil {A} (p : A -> bool) l : (forall x, In x l -> p x = false) -> filter p l = [].
Proof.
  induction l as [|x l IH]; intros H; cbn [filter]; [reflexivity|].
  rewrite (H x (or_introl eq_refl)). apply IH. intros y Hy. apply H. right. exact Hy.
Qed.

Definition new_group (h : Z) (r : record) : group := {| g_hash := h; g_date := rdate r; g_recs := [r] |}.
Definition grow (g : group) (r : record) : group := {| g_hash := g_hash g; g_date := g_date g; g_recs := g_recs g ++ [r] |}.

Lemma add_new h r gs : ~ In h (map g_hash gs) -> add_to_groups h r gs = gs ++ [new_group h r].
Proof.
  induction gs as [|g gs IH]; intros H; cbn [add_to_groups app]; [reflexivity|].
  cbn [map] in H. destruct (g_hash g =? h) eqn:E; [exfalso; apply H; left; lia|].
  rewrite IH; [reflexivity|]. intros Hin. apply H. right. exact Hin.
Qed.

Lemma add_existing h r gs : In h (map g_hash gs) ->
  exists g1 g g2, gs = g1 ++ g :: g2 /\ g_hash g = h /\ ~ In h (map g_hash g1) /\
                  add_to_groups h r gs = g1 ++ grow g r :: g2.
Proof.
  induction gs as [|g gs IH]; intros H; [destruct H|]. cbn [add_to_groups].
  destruct (g_hash g =? h) eqn:E.
  - exists [], g, gs. cbn [app map]. repeat split; [lia|intros []].
  - destruct H as [H|H]; [cbn in H; lia|]. destruct (IH H) as (g1 & g0 & g2 & -> & Hh & Hn & Ha).
    exists (g :: g1), g0, g2. cbn [app map]. repeat split; [exact Hh| |rewrite Ha; reflexivity].
    intros [Hx|Hx]; [lia|exact (Hn Hx)].
Qed.

Lemma group_snoc l h r : group_by_date (l ++ [(h, r)]) = add_to_groups h r (group_by_date l).
Proof. unfold group_by_date. rewrite fold_left_app. reflexivity. Qed.

Section Groups.
  Variable kf : record -> Z.

  Definition groups (s : list record) : list group := group_by_date (map (fun r => (kf r, r)) s).

  (* the records that open a new group, in order *)
  Fixpoint firsts (seen : list Z) (s : list record) : list record :=
    match s with
    | [] => []
    | r :: rest => if mem_z (kf r) seen then firsts seen rest else r :: firsts (kf r :: seen) rest
    end.

  Lemma firsts_snoc l : forall seen r,
    firsts seen (l ++ [r]) = firsts seen l ++ (if mem_z (kf r) seen || mem_z (kf r) (map kf l) then [] else [r]).
  Proof.
    induction l as [|x l IH]; intros seen r; cbn [app firsts map].
    - destruct (mem_z (kf r) seen); reflexivity.
    - destruct (mem_z (kf x) seen) eqn:Ex.
      + rewrite IH. f_equal.
        replace (mem_z (kf r) (kf x :: map kf l)) with ((kf r =? kf x) || mem_z (kf r) (map kf l)) by reflexivity.
        destruct (kf r =? kf x) eqn:E; [|reflexivity].
        apply Z.eqb_eq in E. rewrite E, Ex. reflexivity.
      + cbn [app]. rewrite IH. f_equal. f_equal.
        replace (mem_z (kf r) (kf x :: seen)) with ((kf r =? kf x) || mem_z (kf r) seen) by reflexivity.
        replace (mem_z (kf r) (kf x :: map kf l)) with ((kf r =? kf x) || mem_z (kf r) (map kf l)) by reflexivity.
        destruct (kf r =? kf x), (mem_z (kf r) seen), (mem_z (kf r) (map kf l)); reflexivity.
  Qed.

  Record ginv (s : list record) (gs : list group) : Prop := {
    gi_perm : Permutation (List.concat (map g_recs gs)) s;
    gi_nodup : NoDup (map g_hash gs);
    gi_content : Forall (fun g => g_recs g = filter (fun r => kf r =? g_hash g) s) gs;
    gi_first : Forall (fun g => exists r0 rest, g_recs g = r0 :: rest /\ g_date g = rdate r0 /\ kf r0 = g_hash g) gs;
    gi_keys : map g_hash gs = map kf (firsts [] s);
    gi_dates : map g_date gs = map rdate (firsts [] s)
  }.

  Lemma firsts_keys seen s h : In h (map kf (firsts seen s)) <-> In h (map kf s) /\ ~ In h seen.
  Proof.
    revert seen; induction s as [|x s IH]; intros seen; cbn [firsts map].
    - cbn. tauto.
    - destruct (mem_z (kf x) seen) eqn:E.
      + apply mem_z_in in E. rewrite IH. cbn [In]. split; [tauto|]. intros [[<-|H] Hn]; tauto.
      + apply mem_z_false in E. cbn [map In]. rewrite IH. cbn [In]. split.
        * intros [<-|[H Hn]]; [tauto|]. split; [tauto|]. intros Hs. apply Hn. right. exact Hs.
        * intros [[<-|H] Hn]; [tauto|]. destruct (Z.eq_dec (kf x) h) as [->|Hne]; [tauto|]. right. split; [exact H|].
          intros [Hx|Hx]; tauto.
  Qed.

  Lemma filter_snoc {A} (p : A -> bool) l x : filter p (l ++ [x]) = filter p l ++ (if p x then [x] else []).
  Proof. rewrite filter_app. reflexivity. Qed.

  Theorem groups_inv s : ginv s (groups s).
  Proof.
    induction s as [|r s IH] using rev_ind.
    - split; cbn; constructor.
    - unfold groups in *. rewrite map_app. cbn [map]. rewrite group_snoc.
      set (gs := group_by_date (map (fun r0 => (kf r0, r0)) s)) in *.
      destruct IH as [Ip In_ Ic If Ik Id].
      assert (Hmem : mem_z (kf r) (map kf s) = true <-> In (kf r) (map g_hash gs)).
      { rewrite mem_z_in, Ik, firsts_keys. cbn [In]. tauto. }
      destruct (mem_z (kf r) (map kf s)) eqn:Em.
      + (* the record joins an existing group *)
        assert (Hin : In (kf r) (map g_hash gs)) by (apply Hmem; reflexivity).
        destruct (add_existing (kf r) r gs Hin) as (g1 & g & g2 & Egs & Hh & Hn1 & Ea).
        rewrite Ea. rewrite Egs in *.
        assert (Hn2 : ~ In (kf r) (map g_hash g2)).
        { rewrite map_app in In_. cbn [map] in In_. apply NoDup_remove_2 in In_. rewrite Hh in In_.
          intros H. apply In_. apply in_or_app. right. exact H. }
        split.
        * rewrite map_app, concat_app in *. cbn [map List.concat grow g_recs] in *.
          rewrite <- app_assoc.
          eapply Permutation_trans; [|apply Permutation_app_tail; exact Ip].
          rewrite <- !app_assoc. apply Permutation_app_head. apply Permutation_app_head.
          apply Permutation_app_comm.
        * rewrite map_app in *. cbn [map grow g_hash] in *. exact In_.
        * rewrite Forall_app in *. destruct Ic as [Ic1 Ic2]. inversion Ic2 as [|? ? Icg Ic2']; subst.
          split; [|constructor].
          -- rewrite Forall_forall in *. intros x Hx. rewrite filter_snoc, (Ic1 x Hx).
             destruct (kf r =? g_hash x) eqn:E; [|rewrite app_nil_r; reflexivity].
             exfalso. apply Hn1. apply in_map_iff. exists x. split; [lia|exact Hx].
          -- cbn [grow g_recs g_hash]. rewrite filter_snoc, Icg. rewrite Hh, Z.eqb_refl. reflexivity.
          -- rewrite Forall_forall in *. intros x Hx. rewrite filter_snoc, (Ic2' x Hx).
             destruct (kf r =? g_hash x) eqn:E; [|rewrite app_nil_r; reflexivity].
             exfalso. apply Hn2. apply in_map_iff. exists x. split; [lia|exact Hx].
        * rewrite Forall_app in *. destruct If as [If1 If2]. inversion If2 as [|? ? Ifg If2']; subst.
          split; [exact If1|constructor; [|exact If2']].
          destruct Ifg as (r0 & rest & E1 & E2 & E3). exists r0, (rest ++ [r]). cbn [grow g_recs g_date g_hash].
          rewrite E1. repeat split; assumption.
        * rewrite firsts_snoc. cbn [mem_z existsb orb]. rewrite Em. rewrite app_nil_r.
          rewrite map_app in *. cbn [map grow g_hash] in *. exact Ik.
        * rewrite firsts_snoc. cbn [mem_z existsb orb]. rewrite Em. rewrite app_nil_r.
          rewrite map_app in *. cbn [map grow g_date] in *. exact Id.
      + (* the record opens a new group *)
        assert (Hnin : ~ In (kf r) (map g_hash gs)).
        { intros H. apply Hmem in H. congruence. }
        rewrite (add_new _ _ _ Hnin).
        split.
        * rewrite map_app, concat_app. cbn [map List.concat new_group g_recs app].
          apply Permutation_app; [exact Ip|apply Permutation_refl].
        * rewrite map_app. cbn [map new_group g_hash].
          eapply Permutation_NoDup; [apply Permutation_cons_append|]. constructor; assumption.
        * rewrite Forall_app. split; [|constructor; [|constructor]].
          -- rewrite Forall_forall in *. intros x Hx. rewrite filter_snoc, (Ic x Hx).
             destruct (kf r =? g_hash x) eqn:E; [|rewrite app_nil_r; reflexivity].
             exfalso. apply Hnin. apply in_map_iff. exists x. split; [lia|exact Hx].
          -- cbn [new_group g_recs g_hash]. rewrite filter_snoc, Z.eqb_refl.
             rewrite filter_nil; [reflexivity|]. intros x Hx.
             destruct (kf x =? kf r) eqn:E; [|reflexivity]. exfalso.
             apply mem_z_false in Em. apply Em. apply in_map_iff. exists x. split; [lia|exact Hx].
        * rewrite Forall_app. split; [exact If|]. constructor; [|constructor].
          exists r, []. cbn [new_group g_recs g_date g_hash]. repeat split.
        * rewrite firsts_snoc. cbn [mem_z existsb orb]. rewrite Em.
          rewrite !map_app. cbn [map new_group g_hash]. rewrite Ik. reflexivity.
        * rewrite firsts_snoc. cbn [mem_z existsb orb]. rewrite Em.
          rewrite !map_app. cbn [map new_group g_date]. rewrite Id. reflexivity.
  Qed.

  (* recordGroups[h] is the list of the records with that hash, in order (nil if there is none) *)
  Lemma find_group_spec s h : find_group h (groups s) = filter (fun r => kf r =? h) s.
  Proof.
    destruct (groups_inv s) as [Ip In_ Ic If Ik Id]. unfold find_group.
    destruct (find (fun g => g_hash g =? h) (groups s)) as [g|] eqn:E.
    - apply find_some in E as [Hg Hh]. apply Z.eqb_eq in Hh. rewrite Forall_forall in Ic.
      rewrite (Ic g Hg), Hh. reflexivity.
    - symmetry. apply filter_nil. intros x Hx. destruct (kf x =? h) eqn:Ex; [|reflexivity]. exfalso.
      apply Z.eqb_eq in Ex.
      assert (Hk : In h (map g_hash (groups s))).
      { rewrite Ik. apply firsts_keys. split; [|intros []]. apply in_map_iff. exists x. split; assumption. }
      apply in_map_iff in Hk as (g & Hh & Hg). apply (find_none _ _ E) in Hg. lia.
  Qed.
End Groups.

(* ================= 4. allDatesRange ================= *)

Fixpoint seqZ (start : Z) (n : nat) : list Z :=
  match n with O => [] | S k => start :: seqZ (start + 1) k end.

Lemma seqZ_in start n z : In z (seqZ start n) <-> start <= z < start + Z.of_nat n.
Proof.
  revert start; induction n as [|n IH]; intros start; cbn [seqZ In].
  - lia.
  - rewrite IH. lia.
Qed.

Lemma seqZ_sorted start n : StronglySorted Z.le (seqZ start n).
Proof.
  revert start; induction n as [|n IH]; intros start; cbn [seqZ]; constructor; [apply IH|].
  rewrite Forall_forall. intros z Hz. apply seqZ_in in Hz. lia.
Qed.

(* every date from `from` to `to`, in order *)
Definition range_dates (from to : cdate) : list cdate :=
  map civil_from_days (seqZ (days_of from) (S (Z.to_nat (days_of to - days_of from)))).

Lemma dates_loop_spec fuel : forall last to, valid last -> valid to ->
  Z.of_nat fuel = days_of to - days_of last ->
  dates_loop fuel last to = Ok (map civil_from_days (seqZ (days_of last) (S fuel))).
Proof.
  induction fuel as [|k IH]; intros last to Vl Vt Hf; cbn [dates_loop].
  - assert (E : cdate_geb last to = true) by (apply date_order; [assumption|assumption|lia]).
    rewrite E. cbn [seqZ map]. rewrite cfd_days by (apply valid_days; exact Vl). reflexivity.
  - destruct (cdate_geb last to) eqn:E.
    + apply (date_order last to Vl Vt) in E. lia.
    + pose proof (valid_days _ Vl) as [Wl Rl]. pose proof (valid_days _ Vt) as [Wt Rt].
      rewrite plus_days_ok by (try assumption; lia). cbn [bind].
      destruct (cfd_valid_days (days_of last + 1) ltac:(lia)) as [Vn Dn].
      rewrite (IH _ to Vn Vt) by lia. cbn [bind]. rewrite Dn.
      cbn [seqZ map]. rewrite cfd_days by exact Wl. reflexivity.
Qed.

Lemma all_dates_range_spec from to : valid from -> valid to -> days_of from <= days_of to ->
  all_dates_range from to = Ok (range_dates from to).
Proof.
  intros Vf Vt H. unfold all_dates_range, range_dates. apply dates_loop_spec; [assumption|assumption|lia].
Qed.

Lemma range_dates_in from to d : valid from -> valid to -> days_of from <= days_of to ->
  (In d (range_dates from to) <-> valid d /\ days_of from <= days_of d <= days_of to).
Proof.
  intros Vf Vt H. unfold range_dates. rewrite in_map_iff.
  pose proof (valid_days _ Vf) as [_ Rf]. pose proof (valid_days _ Vt) as [_ Rt]. split.
  - intros (z & <- & Hz). apply seqZ_in in Hz. destruct (cfd_valid_days z ltac:(lia)) as [V E]. rewrite E. split; [exact V|lia].
  - intros [Vd Hd]. exists (days_of d). split; [apply cfd_days; apply valid_days; exact Vd|]. apply seqZ_in. lia.
Qed.

Lemma range_dates_valid from to : valid from -> valid to -> days_of from <= days_of to -> Forall valid (range_dates from to).
Proof. intros Vf Vt H. rewrite Forall_forall. intros d Hd. apply (range_dates_in from to d Vf Vt H) in Hd. tauto. Qed.

Definition days_sorted (ds : list cdate) : Prop := StronglySorted (fun x y => days_of x <= days_of y) ds.

Lemma range_dates_sorted from to : days_sorted (range_dates from to).
Proof.
  unfold range_dates, days_sorted.
  generalize (seqZ_sorted (days_of from) (S (Z.to_nat (days_of to - days_of from)))).
  generalize (seqZ (days_of from) (S (Z.to_nat (days_of to - days_of from)))). intros l H.
  induction H as [|z l Hs IH Hz]; cbn [map]; constructor; [exact IH|].
  rewrite Forall_map. eapply Forall_impl; [|exact Hz]. intros y Hy. cbn beta.
  destruct (days_cfd z) as [_ ->]. destruct (days_cfd y) as [_ ->]. exact Hy.
Qed.

(* ================= 5. sums over parts of a list; the int64 guard ================= *)

Definition wsum (w : record -> Z) (s : list record) : Z := zsum (map w s).
Definition rec_total (r : record) : Z := zsum (map spec_minutes (rec_entries r)).

Lemma spec_total_wsum s : spec_total s = wsum rec_total s.
Proof.
  unfold wsum. induction s as [|r s IH]; [reflexivity|]. rewrite spec_total_cons, IH. reflexivity.
Qed.

Lemma spec_should_wsum s : spec_should s = wsum should_minutes s.
Proof. reflexivity. Qed.

Lemma wsum_app w a b : wsum w (a ++ b) = wsum w a + wsum w b.
Proof. unfold wsum. rewrite map_app, zsum_app. reflexivity. Qed.

Lemma wsum_perm w a b : Permutation a b -> wsum w a = wsum w b.
Proof. intros H. apply zsum_perm, Permutation_map, H. Qed.

Lemma wsum_filter_split w (p q pq : record -> bool) s :
  (forall r, In r s -> pq r = p r || q r /\ p r && q r = false) ->
  wsum w (filter pq s) = wsum w (filter p s) + wsum w (filter q s).
Proof.
  unfold wsum. induction s as [|r s IH]; intros H; cbn [filter]; [reflexivity|].
  destruct (H r (or_introl eq_refl)) as [E1 E2].
  assert (IH' : zsum (map w (filter pq s)) = zsum (map w (filter p s)) + zsum (map w (filter q s))).
  { apply IH. intros x Hx. apply H. right. exact Hx. }
  rewrite E1. destruct (p r), (q r); cbn [orb andb] in *; try discriminate; cbn [map zsum fold_right] in *;
    fold (zsum (map w (filter pq s))); fold (zsum (map w (filter p s))); fold (zsum (map w (filter q s))); lia.
Qed.

Lemma filter_ext_in' {A} (p q : A -> bool) l : (forall x, In x l -> p x = q x) -> filter p l = filter q l.
Proof.
  induction l as [|x l IH]; intros H; cbn [filter]; [reflexivity|].
  rewrite (H x (or_introl eq_refl)). rewrite IH; [reflexivity|]. intros y Hy. apply H. right. exact Hy.
Qed.

(* the guard: all minutes and all should-totals, in absolute value, add up to at most 2^63 - 1 *)
Definition gsize (s : list record) : Z :=
  abs_sum (map spec_minutes (all_entries s)) + abs_sum (map should_minutes s).
Definition views_guard (s : list record) : Prop := gsize s <= 9223372036854775807.

Lemma gsize_app a b : gsize (a ++ b) = gsize a + gsize b.
Proof. unfold gsize. rewrite all_entries_app, !map_app, !abs_sum_app. lia. Qed.

Lemma gsize_nonneg s : 0 <= gsize s.
Proof. unfold gsize. pose proof (abs_sum_nonneg (map spec_minutes (all_entries s))). pose proof (abs_sum_nonneg (map should_minutes s)). lia. Qed.

Lemma gsize_perm a b : Permutation a b -> gsize a = gsize b.
Proof.
  intros H. unfold gsize.
  rewrite (abs_sum_perm _ _ (Permutation_map spec_minutes (all_entries_perm _ _ H))).
  rewrite (abs_sum_perm _ _ (Permutation_map should_minutes H)). reflexivity.
Qed.

Lemma gsize_filter p s : gsize (filter p s) <= gsize s.
Proof.
  induction s as [|r s IH]; cbn [filter]; [lia|].
  change (r :: s) with ([r] ++ s). rewrite gsize_app. pose proof (gsize_nonneg [r]).
  destruct (p r); [change (r :: filter p s) with ([r] ++ filter p s); rewrite gsize_app|]; lia.
Qed.

Lemma guard_perm a b : Permutation a b -> views_guard a -> views_guard b.
Proof. unfold views_guard. intros H. rewrite (gsize_perm _ _ H). tauto. Qed.

Lemma guard_filter p s : views_guard s -> views_guard (filter p s).
Proof. unfold views_guard. pose proof (gsize_filter p s). lia. Qed.

Lemma guard_app a b : views_guard (a ++ b) -> views_guard a /\ views_guard b.
Proof. unfold views_guard. rewrite gsize_app. pose proof (gsize_nonneg a). pose proof (gsize_nonneg b). lia. Qed.

Lemma zsum_abs_le xs : Z.abs (zsum xs) <= abs_sum xs.
Proof. unfold abs_sum, zsum. induction xs as [|x xs IH]; cbn [map fold_right]; lia. Qed.

Lemma guard_abs_fit s : views_guard s -> abs_fit s.
Proof. unfold views_guard, gsize, abs_fit. pose proof (abs_sum_nonneg (map should_minutes s)). lia. Qed.

(* the value cells as the property text defines them *)
Definition cells_spec (df : bool) (rs : list record) : cells :=
  {| c_total := spec_total rs;
     c_sd := if df then Some (spec_should rs, spec_total rs - spec_should rs) else None |}.

Lemma eval3_spec rs : views_guard rs ->
  total rs = Ok (spec_total rs) /\ should_total_sum rs = Ok (spec_should rs) /\
  diff (spec_should rs) (spec_total rs) = Ok (spec_total rs - spec_should rs) /\
  Z.abs (spec_total rs) + Z.abs (spec_should rs) <= gsize rs.
Proof.
  intros G. unfold views_guard, gsize in G.
  pose proof (abs_sum_nonneg (map spec_minutes (all_entries rs))) as N1.
  pose proof (abs_sum_nonneg (map should_minutes rs)) as N2.
  pose proof (zsum_abs_le (map spec_minutes (all_entries rs))) as B1. fold (spec_total rs) in B1.
  pose proof (zsum_abs_le (map should_minutes rs)) as B2. fold (spec_should rs) in B2.
  split; [apply total_spec, abs_fit_no_overflow; unfold abs_fit; lia|].
  split; [apply should_total_ok, abs_sums_fit; cbn [Z.abs]; lia|].
  split; [|unfold gsize; lia].
  apply (proj1 (diff_spec _ _)). unfold fits. lia.
Qed.

Lemma eval_cells_spec df rs : views_guard rs -> eval_cells df rs = Ok (cells_spec df rs).
Proof.
  intros G. destruct (eval3_spec rs G) as (Et & Es & Ed & _). unfold eval_cells, cells_spec.
  rewrite Et. cbn [bind]. destruct df; [|reflexivity]. rewrite Es. cbn [bind]. rewrite Ed. reflexivity.
Qed.

(* ================= 6. the report ================= *)

Definition kf_of (a : agg) (r : record) : Z := hv a (rdate r).
Definition in_bucket (a : agg) (h : Z) (r : record) : bool := kf_of a r =? h.

(* the row of the period that contains date d: empty when no record falls into it *)
Definition row_spec (a : agg) (df : bool) (s : list record) (d : cdate) : row :=
  {| row_date := d;
     row_cells := match filter (in_bucket a (hv a d)) s with
                  | [] => None
                  | rs => Some (cells_spec df rs)
                  end |}.

(* one row per period, for the first date of the list that lies in it *)
Fixpoint rows_spec (a : agg) (df : bool) (s : list record) (seen : list Z) (dates : list cdate) : list row :=
  match dates with
  | [] => []
  | d :: rest => if mem_z (hv a d) seen then rows_spec a df s seen rest
                 else row_spec a df s d :: rows_spec a df s (hv a d :: seen) rest
  end.

Definition report_dates (fill : bool) (s : list record) : list cdate :=
  match s with
  | [] => []
  | first :: _ => if fill then range_dates (rdate first) (rdate (last s first)) else map rdate s
  end.

Definition report_spec (a : agg) (fill df : bool) (s : list record) : report :=
  {| rep_rows := rows_spec a df s [] (report_dates fill s); rep_grand := cells_spec df s |}.

Lemma map_outcome_ok {A B} (f : A -> outcome B) (g : A -> B) l :
  (forall x, In x l -> f x = Ok (g x)) -> map_outcome f l = Ok (map g l).
Proof.
  induction l as [|x l IH]; intros H; cbn [map_outcome map]; [reflexivity|].
  rewrite (H x (or_introl eq_refl)). cbn [bind]. rewrite IH; [reflexivity|]. intros y Hy. apply H. right. exact Hy.
Qed.

Lemma rows_loop_spec a df s : views_guard s -> forall dates seen,
  rows_loop df (groups (kf_of a) s) seen (map (fun d => (hv a d, d)) dates) = Ok (rows_spec a df s seen dates).
Proof.
  intros G. induction dates as [|d rest IH]; intros seen; cbn [map rows_loop rows_spec]; [reflexivity|].
  destruct (mem_z (hv a d) seen); [apply IH|].
  rewrite find_group_spec. fold (in_bucket a (hv a d)). unfold row_spec.
  pose proof (guard_filter (in_bucket a (hv a d)) s G) as Gf.
  destruct (filter (in_bucket a (hv a d)) s) as [|r0 rs0] eqn:Ef.
  - cbn [bind]. rewrite IH. reflexivity.
  - rewrite (eval_cells_spec df _ Gf). cbn [bind]. rewrite IH. reflexivity.
Qed.

(* skipping the dates whose period was already seen: only the first date of each period matters *)
Lemma rows_spec_firsts a df s0 s : forall seen,
  rows_spec a df s0 seen (map rdate (firsts (kf_of a) seen s)) = rows_spec a df s0 seen (map rdate s).
Proof.
  induction s as [|r s IH]; intros seen; cbn [firsts map rows_spec]; [reflexivity|].
  unfold kf_of at 1. destruct (mem_z (hv a (rdate r)) seen) eqn:E.
  - apply IH.
  - cbn [map rows_spec]. rewrite E. f_equal. apply IH.
Qed.

Lemma sorted_first_le_last r s : sorted (r :: s) -> days_of (rdate r) <= days_of (rdate (last (r :: s) r)).
Proof.
  intros H. inversion H as [|? ? _ Hr]; subst.
  destruct s as [|x s]; [cbn; lia|].
  assert (Hin : In (last (r :: x :: s) r) (x :: s)).
  { change (last (r :: x :: s) r) with (last (x :: s) r).
    destruct (exists_last (l := x :: s) ltac:(discriminate)) as (l' & z & E). rewrite E, last_last.
    apply in_or_app. right. left. reflexivity. }
  rewrite Forall_forall in Hr. exact (Hr _ Hin).
Qed.

Lemma last_in {A} (l : list A) d : l <> [] -> In (last l d) l.
Proof.
  intros H. destruct (exists_last H) as (l' & z & ->). rewrite last_last. apply in_or_app. right. left. reflexivity.
Qed.

(* Report.Run after sorting, as a function of the sorted records *)
Theorem report_sorted_spec a fill df s : s <> [] -> Forall vrec s -> sorted s -> views_guard s ->
  report_sorted a fill df s = Ok (Some (report_spec a fill df s)).
Proof.
  intros Hne V Hs G. destruct s as [|first s']; [congruence|].
  unfold report_sorted. set (s := first :: s') in *.
  rewrite (map_outcome_ok _ (kf_of a)) by (intros x Hx; apply agg_hash_val; rewrite Forall_forall in V; exact (V x Hx)).
  cbn [bind]. rewrite combine_map. fold (groups (kf_of a) s).
  destruct (groups_inv (kf_of a) s) as [_ _ _ _ _ Id].
  assert (Vf : valid (rdate first)) by (inversion V; assumption).
  assert (Vl : valid (rdate (last s first))).
  { rewrite Forall_forall in V. apply V. apply last_in. discriminate. }
  assert (Hd : (if fill then all_dates_range (rdate first) (rdate (last s first)) else Ok (map g_date (groups (kf_of a) s)))
               = Ok (if fill then range_dates (rdate first) (rdate (last s first)) else map rdate (firsts (kf_of a) [] s))).
  { destruct fill; [|rewrite Id; reflexivity].
    apply all_dates_range_spec; [assumption|assumption|apply sorted_first_le_last; exact Hs]. }
  rewrite Hd. cbn [bind].
  assert (Vd : Forall valid (if fill then range_dates (rdate first) (rdate (last s first)) else map rdate (firsts (kf_of a) [] s))).
  { destruct fill.
    - apply range_dates_valid; [assumption|assumption|apply sorted_first_le_last; exact Hs].
    - rewrite <- Id. destruct (groups_inv (kf_of a) s) as [Ip _ _ If _ _].
      rewrite Forall_forall in *. intros d Hin. apply in_map_iff in Hin as (g & <- & Hg).
      destruct (If g Hg) as (r0 & rest & E1 & E2 & _). rewrite E2. apply V.
      eapply Permutation_in; [exact Ip|]. apply in_concat. exists (g_recs g). split; [apply in_map; exact Hg|].
      rewrite E1. left. reflexivity. }
  rewrite (map_outcome_ok _ (fun d => (hv a d, d))).
  2:{ intros d Hin. rewrite Forall_forall in Vd. rewrite (agg_hash_val a d (Vd d Hin)). reflexivity. }
  cbn [bind]. rewrite (rows_loop_spec a df s G). cbn [bind].
  rewrite (eval_cells_spec df s G). cbn [bind]. unfold report_spec, report_dates. fold s.
  destruct fill; [reflexivity|]. rewrite rows_spec_firsts. reflexivity.
Qed.

(* ---- what a row holds: the records whose date lies in the row's period, and no others ---- *)

Lemma in_bucket_iff a d r : valid d -> vrec r -> (in_bucket a (hv a d) r = true <-> pk a (rdate r) = pk a d).
Proof.
  intros Vd Vr. unfold in_bucket, kf_of. rewrite Z.eqb_eq. apply hv_eq_iff_pk; assumption.
Qed.

Definition row_total (r : row) : Z := match row_cells r with Some c => c_total c | None => 0 end.
Definition row_should (r : row) : Z := match row_cells r with Some {| c_sd := Some (s, _) |} => s | _ => 0 end.
Definition row_diff (r : row) : Z := match row_cells r with Some {| c_sd := Some (_, d) |} => d | _ => 0 end.

Lemma row_spec_total a df s d : row_total (row_spec a df s d) = wsum rec_total (filter (in_bucket a (hv a d)) s).
Proof.
  unfold row_total, row_spec. cbn [row_cells].
  destruct (filter (in_bucket a (hv a d)) s) eqn:E; [reflexivity|]. cbn [cells_spec c_total]. apply spec_total_wsum.
Qed.

Lemma row_spec_should a s d : row_should (row_spec a true s d) = wsum should_minutes (filter (in_bucket a (hv a d)) s).
Proof.
  unfold row_should, row_spec. cbn [row_cells].
  destruct (filter (in_bucket a (hv a d)) s) eqn:E; reflexivity.
Qed.

Lemma row_spec_diff a s d : row_diff (row_spec a true s d) = row_total (row_spec a true s d) - row_should (row_spec a true s d).
Proof.
  unfold row_diff, row_total, row_should, row_spec. cbn [row_cells].
  destruct (filter (in_bucket a (hv a d)) s) eqn:E; reflexivity.
Qed.

(* the buckets still to come: hash among those of the dates, and not seen yet *)
Definition pending (a : agg) (seen : list Z) (dates : list cdate) (r : record) : bool :=
  mem_z (kf_of a r) (map (hv a) dates) && negb (mem_z (kf_of a r) seen).

Lemma rows_spec_wsum a df s (w : record -> Z) (f : row -> Z) :
  (forall d, f (row_spec a df s d) = wsum w (filter (in_bucket a (hv a d)) s)) ->
  forall dates seen, zsum (map f (rows_spec a df s seen dates)) = wsum w (filter (pending a seen dates) s).
Proof.
  intros Hf. induction dates as [|d rest IH]; intros seen; cbn [rows_spec].
  - rewrite filter_nil; [reflexivity|]. intros x _. reflexivity.
  - destruct (mem_z (hv a d) seen) eqn:E.
    + rewrite IH. f_equal. apply filter_ext_in'. intros r _. unfold pending. cbn [map].
      replace (mem_z (kf_of a r) (hv a d :: map (hv a) rest)) with ((kf_of a r =? hv a d) || mem_z (kf_of a r) (map (hv a) rest)) by reflexivity.
      destruct (kf_of a r =? hv a d) eqn:E2; [|reflexivity].
      apply Z.eqb_eq in E2. rewrite E2, E. cbn. rewrite andb_false_r. reflexivity.
    + cbn [map zsum fold_right]. fold (zsum (map f (rows_spec a df s (hv a d :: seen) rest))).
      rewrite IH, Hf. symmetry. apply wsum_filter_split. intros r _. unfold pending, in_bucket. cbn [map].
      replace (mem_z (kf_of a r) (hv a d :: map (hv a) rest)) with ((kf_of a r =? hv a d) || mem_z (kf_of a r) (map (hv a) rest)) by reflexivity.
      replace (mem_z (kf_of a r) (hv a d :: seen)) with ((kf_of a r =? hv a d) || mem_z (kf_of a r) seen) by reflexivity.
      destruct (kf_of a r =? hv a d) eqn:E2.
      * apply Z.eqb_eq in E2. rewrite E2, E. cbn. rewrite andb_false_r. split; reflexivity.
      * cbn. split; reflexivity.
Qed.

Lemma pending_all a dates s : (forall r, In r s -> In (kf_of a r) (map (hv a) dates)) -> filter (pending a [] dates) s = s.
Proof.
  intros H. induction s as [|r s IH]; cbn [filter]; [reflexivity|].
  unfold pending at 1. cbn [mem_z existsb negb]. rewrite andb_true_r.
  rewrite (proj2 (mem_z_in _ _) (H r (or_introl eq_refl))). f_equal. apply IH. intros x Hx. apply H. right. exact Hx.
Qed.

(* a sorted list runs from its first to its last element *)
Lemma sorted_bounds first s' r : sorted (first :: s') -> In r (first :: s') ->
  days_of (rdate first) <= days_of (rdate r) <= days_of (rdate (last (first :: s') first)).
Proof.
  intros Hs Hr. split.
  - inversion Hs as [|? ? _ Hf]; subst. destruct Hr as [<-|Hr]; [lia|]. rewrite Forall_forall in Hf. exact (Hf r Hr).
  - revert Hs Hr. generalize (first :: s'). intros l Hl Hin.
    induction l as [|x l IH]; [destruct Hin|].
    inversion Hl as [|? ? Hl' Hx]; subst. destruct l as [|y l].
    + destruct Hin as [<-|[]]. cbn. lia.
    + change (last (x :: y :: l) first) with (last (y :: l) first).
      destruct Hin as [<-|Hin].
      * rewrite Forall_forall in Hx. apply Hx. apply last_in. discriminate.
      * apply IH; assumption.
Qed.

(* every record's date is among the dates the rows are made from *)
Lemma report_dates_cover fill s : Forall vrec s -> sorted s -> forall r, In r s -> In (rdate r) (report_dates fill s).
Proof.
  intros V Hs r Hr. destruct s as [|first s']; [destruct Hr|].
  unfold report_dates. destruct fill; [|apply in_map; exact Hr].
  assert (Vf : valid (rdate first)) by (inversion V; assumption).
  assert (Vl : valid (rdate (last (first :: s') first))).
  { rewrite Forall_forall in V. apply V. apply last_in. discriminate. }
  apply range_dates_in; [assumption|assumption|apply sorted_first_le_last; exact Hs|].
  rewrite Forall_forall in V. split; [exact (V r Hr)|]. apply sorted_bounds; assumption.
Qed.

(* a date of the list has a row, unless its period was seen before *)
Lemma rows_spec_cover a df s d0 : forall dates seen, In d0 dates -> ~ In (hv a d0) seen ->
  exists row, In row (rows_spec a df s seen dates) /\ hv a (row_date row) = hv a d0.
Proof.
  induction dates as [|d rest IH]; intros seen Hin Hns; [destruct Hin|]. cbn [rows_spec].
  destruct (mem_z (hv a d) seen) eqn:E.
  - destruct Hin as [->|Hin]; [apply mem_z_in in E; contradiction|]. apply IH; assumption.
  - destruct (Z.eq_dec (hv a d) (hv a d0)) as [He|Hne'].
    + exists (row_spec a df s d). split; [left; reflexivity|exact He].
    + destruct Hin as [->|Hin]; [congruence|].
      destruct (IH (hv a d :: seen) Hin) as (row & Hrow & E2).
      * intros [Hx|Hx]; [congruence|contradiction].
      * exists row. split; [right; exact Hrow|exact E2].
Qed.

Theorem rows_spec_sum a fill df s (w : record -> Z) (f : row -> Z) : Forall vrec s -> sorted s ->
  (forall d, f (row_spec a df s d) = wsum w (filter (in_bucket a (hv a d)) s)) ->
  zsum (map f (rows_spec a df s [] (report_dates fill s))) = wsum w s.
Proof.
  intros V Hs Hf. rewrite (rows_spec_wsum a df s w f Hf). f_equal. apply pending_all.
  intros r Hr. unfold kf_of. apply in_map. apply report_dates_cover; assumption.
Qed.

(* ---- chronological order ---- *)

Lemma rows_spec_chrono a df s : forall dates sd, Forall valid dates -> Forall valid sd -> days_sorted dates ->
  (forall x d, In x sd -> In d dates -> days_of x <= days_of d) ->
  StronglySorted Z.lt (map (fun r => pk a (row_date r)) (rows_spec a df s (map (hv a) sd) dates)) /\
  Forall (fun r => In (row_date r) dates /\ forall x, In x sd -> pk a x < pk a (row_date r)) (rows_spec a df s (map (hv a) sd) dates).
Proof.
  induction dates as [|d rest IH]; intros sd Vd Vs Hsort Hle; cbn [rows_spec map].
  - split; constructor.
  - inversion Vd as [|? ? Vd1 Vd']; subst. inversion Hsort as [|? ? Hsort' Hd]; subst.
    destruct (mem_z (hv a d) (map (hv a) sd)) eqn:E.
    + destruct (IH sd Vd' Vs Hsort') as [S F]; [intros x y Hx Hy; apply Hle; [exact Hx|right; exact Hy]|].
      split; [exact S|]. eapply Forall_impl; [|exact F]. intros r [H1 H2]. split; [right; exact H1|exact H2].
    + change (hv a d :: map (hv a) sd) with (map (hv a) (d :: sd)).
      destruct (IH (d :: sd)) as [S F]; [assumption|constructor; assumption|assumption| |].
      { intros x y [<-|Hx] Hy; [rewrite Forall_forall in Hd; exact (Hd y Hy)|apply Hle; [exact Hx|right; exact Hy]]. }
      assert (Hnew : forall x, In x sd -> pk a x < pk a d).
      { intros x Hx. rewrite Forall_forall in Vs.
        pose proof (pk_mono a x d (Vs x Hx) Vd1 (Hle x d Hx (or_introl eq_refl))) as Hm.
        assert (pk a x <> pk a d); [|lia]. intros Heq. apply (hv_eq_iff_pk a x d (Vs x Hx) Vd1) in Heq.
        apply mem_z_false in E. apply E. rewrite <- Heq. apply in_map. exact Hx. }
      cbn [map]. split.
      * constructor; [exact S|]. rewrite Forall_map. eapply Forall_impl; [|exact F].
        intros r [_ H2]. cbn [row_spec row_date]. apply H2. left. reflexivity.
      * constructor; [cbn [row_spec row_date]; split; [left; reflexivity|exact Hnew]|].
        eapply Forall_impl; [|exact F]. intros r [H1 H2]. split; [right; exact H1|]. intros x Hx. apply H2. right. exact Hx.
Qed.

Lemma sorted_map_dates s : sorted s -> days_sorted (map rdate s).
Proof. induction 1 as [|x l Hs IH Hx]; cbn [map]; constructor; [exact IH|]. rewrite Forall_map. exact Hx. Qed.

Lemma report_dates_sorted fill s : sorted s -> days_sorted (report_dates fill s).
Proof.
  intros Hs. destruct s as [|first s']; [constructor|]. unfold report_dates.
  destruct fill; [apply range_dates_sorted|apply sorted_map_dates; exact Hs].
Qed.

Lemma report_dates_valid fill s : Forall vrec s -> sorted s -> Forall valid (report_dates fill s).
Proof.
  intros V Hs. destruct s as [|first s']; [constructor|]. unfold report_dates. set (s := first :: s') in *.
  destruct fill; [|rewrite Forall_map; exact V].
  apply range_dates_valid; [inversion V; assumption| |apply sorted_first_le_last; exact Hs].
  rewrite Forall_forall in V. apply V. apply last_in. discriminate.
Qed.

(* ---- sorting among equal dates cannot be observed ---- *)

Lemma filter_perm {A} (p : A -> bool) l l' : Permutation l l' -> Permutation (filter p l) (filter p l').
Proof.
  induction 1; cbn [filter].
  - constructor.
  - destruct (p x); [apply perm_skip|]; assumption.
  - destruct (p x), (p y); try apply Permutation_refl. apply perm_swap.
  - eapply Permutation_trans; eassumption.
Qed.

Lemma cells_spec_perm df a b : Permutation a b -> cells_spec df a = cells_spec df b.
Proof.
  intros H. unfold cells_spec. rewrite (spec_total_perm _ _ H).
  unfold spec_should. rewrite (zsum_perm _ _ (Permutation_map should_minutes H)). reflexivity.
Qed.

Lemma row_spec_perm a df s1 s2 d : Permutation s1 s2 -> row_spec a df s1 d = row_spec a df s2 d.
Proof.
  intros H. unfold row_spec. f_equal.
  pose proof (filter_perm (in_bucket a (hv a d)) _ _ H) as Hp.
  destruct (filter (in_bucket a (hv a d)) s1) as [|x l1] eqn:E1; destruct (filter (in_bucket a (hv a d)) s2) as [|y l2] eqn:E2.
  - reflexivity.
  - apply Permutation_nil in Hp. discriminate.
  - apply Permutation_sym, Permutation_nil in Hp. discriminate.
  - f_equal. apply cells_spec_perm. exact Hp.
Qed.

Lemma rows_spec_perm a df s1 s2 : Permutation s1 s2 -> forall dates seen, rows_spec a df s1 seen dates = rows_spec a df s2 seen dates.
Proof.
  intros H. induction dates as [|d rest IH]; intros seen; cbn [rows_spec]; [reflexivity|].
  destruct (mem_z (hv a d) seen); [apply IH|]. rewrite (row_spec_perm a df s1 s2 d H), IH. reflexivity.
Qed.

Lemma map_last {A B} (f : A -> B) l d : l <> [] -> f (last l d) = last (map f l) (f d).
Proof.
  intros H. destruct (exists_last H) as (l' & z & ->). rewrite map_app. cbn [map]. rewrite !last_last. reflexivity.
Qed.

Lemma report_dates_by_dates fill s1 s2 : map rdate s1 = map rdate s2 -> report_dates fill s1 = report_dates fill s2.
Proof.
  intros H. destruct s1 as [|x1 l1], s2 as [|x2 l2]; try discriminate; [reflexivity|].
  unfold report_dates. destruct fill; [|exact H].
  rewrite (map_last rdate (x1 :: l1) x1) by discriminate. rewrite (map_last rdate (x2 :: l2) x2) by discriminate.
  rewrite H. cbn [map] in H. injection H as H0 _. rewrite H0. reflexivity.
Qed.

Theorem report_spec_sort_invariant a fill df s1 s2 : Forall vrec s1 -> Permutation s1 s2 -> sorted s1 -> sorted s2 ->
  report_spec a fill df s1 = report_spec a fill df s2.
Proof.
  intros V Hp H1 H2. unfold report_spec.
  rewrite (report_dates_by_dates fill s1 s2 (sorted_perm_dates s1 s2 V Hp H1 H2)).
  rewrite (rows_spec_perm a df s1 s2 Hp). rewrite (cells_spec_perm df s1 s2 Hp). reflexivity.
Qed.

(* ================= 7. the theorems of Properties/C12.v ================= *)

Definition max64 : Z := 9223372036854775807.

(* ---- closing open ranges keeps dates and should-totals ---- *)
Lemma end_open_range_some es t es' : end_open_range es t = Some es' -> True.
Proof. trivial. Qed.

Lemma close_loop_dates today before t rs : forall rs', close_loop today before t rs = Ok rs' ->
  map rec_date rs' = map rec_date rs.
Proof.
  induction rs as [|r rs IH]; intros rs' H; cbn [close_loop] in H.
  - injection H as <-. reflexivity.
  - destruct (open_range_of r).
    + destruct (if cdate_eqb (dt (rec_date r)) today then Ok t
                else if cdate_eqb (dt (rec_date r)) before
                     then match time_plus t 1440 with Ok t0 => Ok t0 | Err _ => Err EUncloseable | Crash c => Crash c end
                     else Err EUncloseable) as [e| |]; cbn [bind] in H; try discriminate.
      destruct (end_open_range (rec_entries r) e); [|discriminate].
      destruct (close_loop today before t rs) as [rest| |]; cbn [bind] in H; try discriminate.
      injection H as <-. cbn [map rec_date]. f_equal. apply IH. reflexivity.
    + destruct (close_loop today before t rs) as [rest| |]; cbn [bind] in H; try discriminate.
      injection H as <-. cbn [map]. f_equal. apply IH. reflexivity.
Qed.

Lemma apply_now_dates f today h m rs rs' : apply_now f today h m rs = Ok rs' -> map rec_date rs' = map rec_date rs.
Proof.
  unfold apply_now, close_open_ranges. destruct f; [|intros [= <-]; reflexivity].
  destruct (plus_days today (-1)); cbn [bind]; try discriminate.
  destruct (new_time h m 0 true); cbn [bind]; try discriminate. apply close_loop_dates.
Qed.

Lemma vrec_by_dates rs rs' : map rec_date rs' = map rec_date rs -> Forall vrec rs -> Forall vrec rs'.
Proof.
  revert rs; induction rs' as [|x rs' IH]; intros [|y rs] H V; cbn [map] in H; try discriminate; constructor.
  - injection H as H0 _. inversion V; subst. unfold vrec, rdate in *. rewrite H0. assumption.
  - injection H as _ H1. inversion V; subst. eapply IH; eassumption.
Qed.

(* ---- groups_partition ---- *)

Definition same_pk (a : agg) (d : cdate) (r : record) : bool := pk a (rdate r) =? pk a d.

Theorem groups_partition a s : Forall vrec s ->
  exists hs, map_outcome (fun r => agg_hash a (rdate r)) s = Ok hs /\
  let gs := group_by_date (combine hs s) in
  Permutation (List.concat (map g_recs gs)) s /\
  (forall g r, In g gs -> (In r (g_recs g) <-> In r s /\ pk a (rdate r) = pk a (g_date g))) /\
  (forall g g', In g gs -> In g' gs -> pk a (g_date g) = pk a (g_date g') -> g = g') /\
  (forall g, In g gs -> g_recs g <> [] /\ valid (g_date g) /\ agg_hash a (g_date g) = Ok (g_hash g)).
Proof.
  intros V. exists (map (kf_of a) s). split.
  { apply map_outcome_ok. intros x Hx. apply agg_hash_val. rewrite Forall_forall in V. exact (V x Hx). }
  cbv zeta. rewrite combine_map. fold (groups (kf_of a) s).
  destruct (groups_inv (kf_of a) s) as [Ip In_ Ic If Ik Id]. rewrite Forall_forall in V, Ic, If.
  assert (Hg : forall g, In g (groups (kf_of a) s) -> valid (g_date g) /\ hv a (g_date g) = g_hash g /\ g_recs g <> []).
  { intros g Hg. destruct (If g Hg) as (r0 & rest & E1 & E2 & E3).
    assert (In r0 s).
    { eapply Permutation_in; [exact Ip|]. apply in_concat. exists (g_recs g). split; [apply in_map; exact Hg|rewrite E1; left; reflexivity]. }
    rewrite E2. split; [apply V; assumption|]. split; [exact E3|rewrite E1; discriminate]. }
  split; [exact Ip|]. split; [|split].
  - intros g r Hin. destruct (Hg g Hin) as (Vg & Hh & _). rewrite (Ic g Hin), filter_In, Z.eqb_eq.
    split; intros [Hr He]; (split; [exact Hr|]).
    + apply (hv_eq_iff_pk a); [apply V; exact Hr|exact Vg|]. unfold kf_of in He. lia.
    + unfold kf_of. rewrite <- Hh. apply (hv_eq_iff_pk a); [apply V; exact Hr|exact Vg|exact He].
  - intros g g' Hin Hin' He. destruct (Hg g Hin) as (Vg & Hh & _). destruct (Hg g' Hin') as (Vg' & Hh' & _).
    apply (hv_eq_iff_pk a _ _ Vg Vg') in He. rewrite Hh, Hh' in He.
    (* equal keys in a duplicate-free key list: the same position *)
    clear - In_ Hin Hin' He. induction (groups (kf_of a) s) as [|x l IH]; [destruct Hin|].
    cbn [map] in In_. inversion In_ as [|? ? Hx Hl]; subst.
    destruct Hin as [<-|Hin], Hin' as [<-|Hin'].
    + reflexivity.
    + exfalso. apply Hx. rewrite He. apply in_map. exact Hin'.
    + exfalso. apply Hx. rewrite <- He. apply in_map. exact Hin.
    + apply IH; assumption.
  - intros g Hin. destruct (Hg g Hin) as (Vg & Hh & Hne). split; [exact Hne|]. split; [exact Vg|].
    rewrite (agg_hash_val a _ Vg), Hh. reflexivity.
Qed.

(* the period key against klog's own periods (service/period): same key <-> the date lies between since and until *)
Theorem pk_period_range a k x y : kind_of a = Some k -> valid x -> valid y -> ~ period_edge k x ->
  (pk a x = pk a y <-> exists s u, period_of k x = Ok (s, u) /\ days_of s <= days_of y <= days_of u).
Proof.
  intros Hk Vx Vy Ex. destruct (period_tiles k x Vx Ex) as (s & u & Ep & Vs & Vu & Bx & _ & Hall).
  rewrite (pk_same_period a k x y Vx Vy Hk). split.
  - intros Hsp. exists s, u. split; [exact Ep|].
    pose proof (proj2 (representable_iff k x Vx) Ex) as Rx.
    rewrite (period_spec k x Vx Rx) in Ep. injection Ep as <- <-.
    assert (Hy : pstart k y = pstart k x /\ pend k y = pend k x /\ representable k y).
    { destruct k; cbn [same_period pstart pend representable] in *.
      - rewrite <- Hsp. auto.
      - destruct Hsp as [-> ->]. auto.
      - destruct Hsp as [-> ->]. auto.
      - rewrite Hsp. auto. }
    destruct Hy as (E1 & E2 & Ry). rewrite <- E1, <- E2. apply (pstart_pend_bounds k y Vy Ry).
  - intros (s' & u' & Ep' & By). rewrite Ep in Ep'. injection Ep' as <- <-.
    pose proof (Hall y Vy By) as Ey.
    assert (Ey' : ~ period_edge k y).
    { intros He. rewrite (period_edge_crash k y Vy He) in Ey. discriminate. }
    apply (same_period_iff_period_eq k x y Vx Vy Ex Ey'). congruence.
Qed.

(* ---- the report as a whole ---- *)

Lemma rows_spec_in a df s : forall dates seen row, In row (rows_spec a df s seen dates) ->
  exists d, In d dates /\ row = row_spec a df s d.
Proof.
  induction dates as [|d rest IH]; intros seen row H; cbn [rows_spec] in H; [destruct H|].
  destruct (mem_z (hv a d) seen).
  - destruct (IH _ _ H) as (d' & Hd & E). exists d'. split; [right; exact Hd|exact E].
  - destruct H as [<-|H]; [exists d; split; [left; reflexivity|reflexivity]|].
    destruct (IH _ _ H) as (d' & Hd & E). exists d'. split; [right; exact Hd|exact E].
Qed.

(* what the property text says a row is: the cells of the records of rs whose date lies in the period of d *)
Definition period_cells (a : agg) (df : bool) (rs : list record) (d : cdate) : option cells :=
  match filter (same_pk a d) rs with
  | [] => None
  | l => Some (cells_spec df l)
  end.

Lemma row_spec_period_cells a df s rs d : Forall vrec s -> valid d -> Permutation s rs ->
  row_cells (row_spec a df s d) = period_cells a df rs d.
Proof.
  intros V Vd Hp. unfold row_spec, period_cells. cbn [row_cells].
  assert (E : filter (in_bucket a (hv a d)) s = filter (same_pk a d) s).
  { apply filter_ext_in'. intros r Hr. rewrite Forall_forall in V.
    pose proof (in_bucket_iff a d r Vd (V r Hr)) as Hi. unfold same_pk.
    destruct (in_bucket a (hv a d) r); destruct (pk a (rdate r) =? pk a d) eqn:E2; try reflexivity.
    - destruct Hi as [Hi _]. specialize (Hi eq_refl). lia.
    - destruct Hi as [_ Hi]. apply Z.eqb_eq in E2. specialize (Hi E2). discriminate. }
  rewrite E. pose proof (filter_perm (same_pk a d) _ _ Hp) as Hf.
  destruct (filter (same_pk a d) s) as [|x l1] eqn:E1; destruct (filter (same_pk a d) rs) as [|y l2] eqn:E2.
  - reflexivity.
  - apply Permutation_nil in Hf. discriminate.
  - apply Permutation_sym, Permutation_nil in Hf. discriminate.
  - f_equal. apply cells_spec_perm. exact Hf.
Qed.

Record report_facts (a : agg) (fill df : bool) (rs : list record) (rep : report) : Prop := {
  (* rows sum to the grand total, which is the total of all records *)
  rf_sum_total : zsum (map row_total (rep_rows rep)) = c_total (rep_grand rep);
  rf_grand_total : c_total (rep_grand rep) = spec_total rs;
  rf_total_cmd : total rs = Ok (c_total (rep_grand rep));
  rf_grand_cells : rep_grand rep = cells_spec df rs;
  (* with --diff the should and diff columns add up as well *)
  rf_sum_should : df = true -> zsum (map row_should (rep_rows rep)) = spec_should rs;
  rf_sum_diff : df = true -> zsum (map row_diff (rep_rows rep)) = spec_total rs - spec_should rs;
  (* a row holds exactly the records whose date lies in its period; it is empty iff there is none *)
  rf_row_cells : Forall (fun row => valid (row_date row) /\ row_cells row = period_cells a df rs (row_date row)) (rep_rows rep);
  (* every record has its row *)
  rf_cover : forall r, In r rs -> exists row, In row (rep_rows rep) /\ pk a (row_date row) = pk a (rdate r);
  (* chronological, one row per period *)
  rf_chrono : StronglySorted Z.lt (map (fun row => pk a (row_date row)) (rep_rows rep));
  (* without --fill no row is empty *)
  rf_nofill : fill = false -> Forall (fun row => row_cells row <> None) (rep_rows rep);
  (* with --fill every period between two records has its row ... *)
  rf_fill : fill = true -> forall r1 r2 d, In r1 rs -> In r2 rs -> valid d ->
            days_of (rdate r1) <= days_of d <= days_of (rdate r2) ->
            exists row, In row (rep_rows rep) /\ pk a (row_date row) = pk a d;
  (* ... and no row lies outside the first and the last record's date *)
  rf_within : Forall (fun row => exists r1 r2, In r1 rs /\ In r2 rs /\
                days_of (rdate r1) <= days_of (row_date row) <= days_of (rdate r2)) (rep_rows rep)
}.

Lemma report_spec_facts a fill df rs s : s <> [] -> Forall vrec s -> sorted s -> views_guard s -> Permutation s rs ->
  report_facts a fill df rs (report_spec a fill df s).
Proof.
  intros Hne V Hs G Hp.
  assert (Grs : views_guard rs) by (eapply guard_perm; eassumption).
  destruct (eval3_spec rs Grs) as (Et & Es & Ed & _).
  assert (Ec : cells_spec df s = cells_spec df rs) by (apply cells_spec_perm; exact Hp).
  split; unfold report_spec; cbn [rep_rows rep_grand].
  - rewrite (rows_spec_sum a fill df s rec_total row_total V Hs (row_spec_total a df s)).
    cbn [cells_spec c_total]. symmetry. apply spec_total_wsum.
  - rewrite Ec. reflexivity.
  - rewrite Ec. exact Et.
  - exact Ec.
  - intros ->. rewrite (rows_spec_sum a fill true s should_minutes row_should V Hs (row_spec_should a s)).
    rewrite <- spec_should_wsum. unfold spec_should. apply zsum_perm, Permutation_map, Hp.
  - intros ->.
    assert (Hd : forall l, Forall (fun row => exists d, row = row_spec a true s d) l ->
                 zsum (map row_diff l) = zsum (map row_total l) - zsum (map row_should l)).
    { induction 1 as [|row l (d & ->) Hl IH]; [reflexivity|]. cbn [map zsum fold_right].
      fold (zsum (map row_diff l)). fold (zsum (map row_total l)). fold (zsum (map row_should l)).
      rewrite row_spec_diff, IH. lia. }
    rewrite Hd.
    + rewrite (rows_spec_sum a fill true s rec_total row_total V Hs (row_spec_total a true s)).
      rewrite (rows_spec_sum a fill true s should_minutes row_should V Hs (row_spec_should a s)).
      rewrite <- spec_total_wsum, <- spec_should_wsum. rewrite (spec_total_perm _ _ Hp).
      unfold spec_should. rewrite (zsum_perm _ _ (Permutation_map should_minutes Hp)). reflexivity.
    + rewrite Forall_forall. intros row Hrow. destruct (rows_spec_in _ _ _ _ _ _ Hrow) as (d & _ & E). exists d. exact E.
  - rewrite Forall_forall. intros row Hrow. destruct (rows_spec_in _ _ _ _ _ _ Hrow) as (d & Hd & ->).
    pose proof (report_dates_valid fill s V Hs) as Vd. rewrite Forall_forall in Vd.
    cbn [row_spec row_date]. split; [exact (Vd d Hd)|].
    apply (row_spec_period_cells a df s rs d V (Vd d Hd) Hp).
  - intros r Hr. assert (Hr' : In r s) by (eapply Permutation_in; [apply Permutation_sym; exact Hp|exact Hr]).
    pose proof (report_dates_cover fill s V Hs r Hr') as Hc.
    pose proof (report_dates_valid fill s V Hs) as Vd.
    destruct (rows_spec_cover a df s (rdate r) _ [] Hc) as (row & Hrow & E); [intros []|].
    exists row. split; [exact Hrow|].
    destruct (rows_spec_in _ _ _ _ _ _ Hrow) as (d & Hd & ->). cbn [row_spec row_date] in *.
    rewrite Forall_forall in Vd, V. apply (hv_eq_iff_pk a); [exact (Vd d Hd)|exact (V r Hr')|exact E].
  - change (@nil Z) with (map (hv a) []).
    apply (rows_spec_chrono a df s (report_dates fill s) []); [apply report_dates_valid; assumption|constructor|apply report_dates_sorted; assumption|].
    intros x d [].
  - intros ->. rewrite Forall_forall. intros row Hrow. destruct (rows_spec_in _ _ _ _ _ _ Hrow) as (d & Hd & ->).
    destruct s as [|first s']; [congruence|]. unfold report_dates in Hd. apply in_map_iff in Hd as (r & <- & Hr).
    unfold row_spec. cbn [row_cells].
    destruct (filter (in_bucket a (hv a (rdate r))) (first :: s')) eqn:E; [|discriminate].
    exfalso. assert (Hin : In r (filter (in_bucket a (hv a (rdate r))) (first :: s'))).
    { apply filter_In. split; [exact Hr|]. unfold in_bucket, kf_of. apply Z.eqb_refl. }
    rewrite E in Hin. destruct Hin.
  - intros -> r1 r2 d H1 H2 Vd Hb.
    assert (H1' : In r1 s) by (eapply Permutation_in; [apply Permutation_sym; exact Hp|exact H1]).
    assert (H2' : In r2 s) by (eapply Permutation_in; [apply Permutation_sym; exact Hp|exact H2]).
    destruct s as [|first s']; [congruence|].
    pose proof (sorted_bounds first s' r1 Hs H1') as B1. pose proof (sorted_bounds first s' r2 Hs H2') as B2.
    assert (Vf : valid (rdate first)) by (inversion V; assumption).
    assert (Vl : valid (rdate (last (first :: s') first))).
    { rewrite Forall_forall in V. apply V. apply last_in. discriminate. }
    assert (Hin : In d (report_dates true (first :: s'))).
    { unfold report_dates. apply range_dates_in; [assumption|assumption|apply sorted_first_le_last; exact Hs|]. split; [exact Vd|lia]. }
    destruct (rows_spec_cover a df (first :: s') d _ [] Hin) as (row & Hrow & E); [intros []|].
    exists row. split; [exact Hrow|].
    destruct (rows_spec_in _ _ _ _ _ _ Hrow) as (d' & Hd' & ->). cbn [row_spec row_date] in *.
    pose proof (report_dates_valid true (first :: s') V Hs) as Vds. rewrite Forall_forall in Vds.
    apply (hv_eq_iff_pk a); [exact (Vds d' Hd')|exact Vd|exact E].
  - rewrite Forall_forall. intros row Hrow. destruct (rows_spec_in _ _ _ _ _ _ Hrow) as (d & Hd & ->). cbn [row_spec row_date].
    destruct s as [|first s']; [congruence|]. unfold report_dates in Hd.
    assert (Hfirst : In first rs) by (eapply Permutation_in; [exact Hp|left; reflexivity]).
    assert (Hlast : In (last (first :: s') first) rs) by (eapply Permutation_in; [exact Hp|apply last_in; discriminate]).
    destruct fill.
    + assert (Vf : valid (rdate first)) by (inversion V; assumption).
      assert (Vl : valid (rdate (last (first :: s') first))).
      { rewrite Forall_forall in V. apply V. apply last_in. discriminate. }
      apply (range_dates_in _ _ d Vf Vl (sorted_first_le_last _ _ Hs)) in Hd as [_ Hd].
      exists first, (last (first :: s') first). auto.
    + apply in_map_iff in Hd as (r & <- & Hr).
      assert (In r rs) by (eapply Permutation_in; [exact Hp|exact Hr]).
      exists r, r. split; [assumption|]. split; [assumption|lia].
Qed.

(* klog report [--now], whole command: every fact above, with rs' the records after closing open ranges *)
Theorem report_cmd_facts a fill df now_flag today h m rs rs' :
  rs <> [] -> Forall vrec rs -> apply_now now_flag today h m rs = Ok rs' -> views_guard rs' ->
  exists rep, report_cmd a fill df now_flag today h m rs = Ok (Some rep) /\ report_facts a fill df rs' rep.
Proof.
  intros Hne V Hn G. pose proof (apply_now_dates _ _ _ _ _ _ Hn) as Hd.
  assert (V' : Forall vrec rs') by (eapply vrec_by_dates; eassumption).
  assert (Hne' : rs' <> []) by (intros ->; destruct rs; [congruence|discriminate]).
  pose proof (sort_perm rs') as Hp.
  assert (Hs : sorted (sort_by_date rs')) by (apply sort_sorted; exact V').
  assert (Vs : Forall vrec (sort_by_date rs')) by (eapply Forall_perm; [apply Permutation_sym; exact Hp|exact V']).
  assert (Gs : views_guard (sort_by_date rs')) by (eapply guard_perm; [apply Permutation_sym; exact Hp|exact G]).
  assert (Hns : sort_by_date rs' <> []) by (intros E; rewrite E in Hp; apply Permutation_nil in Hp; congruence).
  exists (report_spec a fill df (sort_by_date rs')). split.
  - unfold report_cmd. destruct rs; [congruence|]. rewrite Hn. cbn [bind]. apply report_sorted_spec; assumption.
  - apply report_spec_facts; assumption.
Qed.

(* the order a sorting algorithm leaves among records of equal date cannot be seen in the report *)
Theorem report_sort_invariant a fill df rs s : Forall vrec rs -> views_guard rs -> Permutation rs s -> sorted s ->
  report_sorted a fill df s = report_sorted a fill df (sort_by_date rs).
Proof.
  intros V G Hp Hs. destruct rs as [|r rs].
  - apply Permutation_nil in Hp. subst. reflexivity.
  - set (l := r :: rs) in *.
    assert (Hne : s <> []) by (intros ->; apply Permutation_sym, Permutation_nil in Hp; discriminate).
    assert (Vs : Forall vrec s) by (eapply Forall_perm; eassumption).
    pose proof (sort_perm l) as Hq.
    assert (Hne2 : sort_by_date l <> []) by (intros E; rewrite E in Hq; apply Permutation_nil in Hq; discriminate).
    rewrite (report_sorted_spec a fill df s Hne Vs Hs (guard_perm _ _ Hp G)).
    rewrite (report_sorted_spec a fill df (sort_by_date l) Hne2).
    + f_equal. f_equal. apply report_spec_sort_invariant; [exact Vs| |exact Hs|apply sort_sorted; exact V].
      eapply Permutation_trans; [apply Permutation_sym; exact Hp|apply Permutation_sym; exact Hq].
    + eapply Forall_perm; [apply Permutation_sym; exact Hq|exact V].
    + apply sort_sorted; exact V.
    + eapply guard_perm; [apply Permutation_sym; exact Hq|exact G].
Qed.

(* klog total prints the report's grand total *)
Theorem total_cmd_spec now_flag today h m rs rs' : apply_now now_flag today h m rs = Ok rs' -> views_guard rs' ->
  total_cmd now_flag today h m rs = Ok (spec_total rs', spec_should rs', spec_total rs' - spec_should rs', Z.of_nat (length rs')).
Proof.
  intros Hn G. destruct (eval3_spec rs' G) as (Et & Es & Ed & _).
  unfold total_cmd. rewrite Hn. cbn [bind]. rewrite Et. cbn [bind]. rewrite Es. cbn [bind]. rewrite Ed. reflexivity.
Qed.

(* ---- klog today ---- *)

Lemma filter_split_perm {A} (p : A -> bool) l : Permutation (filter p l ++ filter (fun x => negb (p x)) l) l.
Proof.
  induction l as [|x l IH]; cbn [filter]; [constructor|].
  destruct (p x); cbn [negb app].
  - apply perm_skip. exact IH.
  - eapply Permutation_trans; [apply Permutation_sym, Permutation_middle|]. apply perm_skip. exact IH.
Qed.

Lemma at_iff d r : cdate_eqb (rdate r) d = true <-> rdate r = d.
Proof. apply cdate_eqb_iff. Qed.

(* splitIntoCurrentAndOther: current = the records dated today, or failing those the records dated yesterday *)
Theorem today_split_spec today yesterday rs cur other isy :
  split_today today yesterday rs = (cur, other, isy) ->
  Permutation (cur ++ other) rs /\
  (forall r, In r cur <-> In r rs /\ rdate r = (if isy then yesterday else today)) /\
  (isy = true -> forall r, In r rs -> rdate r <> today) /\
  (cur = [] -> forall r, In r rs -> rdate r <> today /\ rdate r <> yesterday).
Proof.
  unfold split_today.
  set (pt := fun r : record => cdate_eqb (rdate r) today).
  set (py := fun r : record => cdate_eqb (rdate r) yesterday).
  change (fun r : record => negb (cdate_eqb (rdate r) today) && cdate_eqb (rdate r) yesterday)
    with (fun r : record => negb (pt r) && py r).
  change (fun r : record => negb (cdate_eqb (rdate r) today) && negb (cdate_eqb (rdate r) yesterday))
    with (fun r : record => negb (pt r) && negb (py r)).
  set (T := filter pt rs).
  set (Y := filter (fun r => negb (pt r) && py r) rs).
  set (O := filter (fun r => negb (pt r) && negb (py r)) rs).
  assert (Hpt : forall r, pt r = true <-> rdate r = today) by (intros r; apply at_iff).
  assert (Hpy : forall r, py r = true <-> rdate r = yesterday) by (intros r; apply at_iff).
  assert (HT : forall r, In r T <-> In r rs /\ rdate r = today).
  { intros r. unfold T. rewrite filter_In, Hpt. tauto. }
  assert (HY : forall r, In r Y <-> In r rs /\ rdate r <> today /\ rdate r = yesterday).
  { intros r. unfold Y. rewrite filter_In, andb_true_iff, negb_true_iff, Hpy.
    split; intros (H1 & H2 & H3); (split; [exact H1|split; [|exact H3]]).
    - intros E. apply Hpt in E. congruence.
    - destruct (pt r) eqn:E; [apply Hpt in E; contradiction|reflexivity]. }
  assert (HP : Permutation (T ++ O ++ Y) rs).
  { eapply Permutation_trans; [|apply (filter_split_perm pt rs)]. apply Permutation_app_head.
    assert (EY : Y = filter py (filter (fun x => negb (pt x)) rs)).
    { unfold Y. clear. induction rs as [|x l IH]; cbn [filter]; [reflexivity|]. destruct (pt x); cbn [negb andb filter]; [exact IH|].
      destruct (py x); rewrite IH; reflexivity. }
    assert (EO : O = filter (fun x => negb (py x)) (filter (fun x => negb (pt x)) rs)).
    { unfold O. clear. induction rs as [|x l IH]; cbn [filter]; [reflexivity|]. destruct (pt x); cbn [negb andb filter]; [exact IH|].
      destruct (py x); cbn [negb]; rewrite IH; reflexivity. }
    rewrite EY, EO. eapply Permutation_trans; [apply Permutation_app_comm|]. apply filter_split_perm. }
  clearbody T Y O.
  destruct T as [|t T'].
  - destruct Y as [|y Y'].
    + intros [= <- <- <-]. cbn [app] in *. rewrite app_nil_r in HP. split; [exact HP|]. split; [|split].
      * intros r. split; [intros []|]. intros [Hr Hd]. apply (HT r). tauto.
      * discriminate.
      * intros _ r Hr. split; intros Hd.
        -- apply (HT r). tauto.
        -- apply (HY r). split; [exact Hr|]. split; [|exact Hd]. intros Hd2. apply (HT r). tauto.
    + intros [= <- <- <-]. split; [|split; [|split]].
      * cbn [app] in HP. eapply Permutation_trans; [apply Permutation_app_comm|exact HP].
      * intros r. rewrite HY. split; [tauto|]. intros [Hr Hd]. split; [exact Hr|]. split; [|exact Hd].
        intros Hd2. apply (HT r). tauto.
      * intros _ r Hr Hd. apply (HT r). tauto.
      * discriminate.
  - intros [= <- <- <-]. split; [exact HP|]. split; [|split].
    + exact HT.
    + discriminate.
    + discriminate.
Qed.

Lemma time_plus_no_crash t d : add64 (time_offset t) d <> None -> forall c, time_plus t d <> Crash c.
Proof.
  intros H c. unfold time_plus. destruct (add64 (time_offset t) d) as [mins|]; [|congruence].
  destruct ((2 * 1440 <=? mins) || (mins <? -1440)); [discriminate|].
  destruct (mins <? 0); [|destruct (1440 <? mins)]; unfold new_time;
    repeat match goal with |- context [if ?b then _ else _] => destruct b end; discriminate.
Qed.

Lemma end_time_ok h m d : valid_clock h m -> Z.abs d + 1439 <= max64 ->
  exists e, end_time (clock h m 0) d = Ok e.
Proof.
  intros Hc Hd. unfold max64 in Hd. unfold end_time, dur_plus.
  assert (E : add64 0 (- d) = Some (- d)).
  { unfold add64. replace (sm_ok 0) with true by reflexivity.
    replace (sm_ok (- d)) with true by (unfold sm_ok, sm_min, max_int64; lia).
    cbn [andb]. replace (0 + - d) with (- d) by lia.
    replace (sm_ok (- d)) with true by (unfold sm_ok, sm_min, max_int64; lia). reflexivity. }
  rewrite E. cbn [bind].
  assert (Hadd : add64 (time_offset (clock h m 0)) (- d) <> None).
  { rewrite clock_offset by lia. destruct Hc as [Hh Hm]. unfold add64.
    replace (sm_ok (60 * h + m + 1440 * 0)) with true by (unfold sm_ok, sm_min, max_int64; lia).
    replace (sm_ok (- d)) with true by (unfold sm_ok, sm_min, max_int64; lia).
    replace (sm_ok (60 * h + m + 1440 * 0 + - d)) with true by (unfold sm_ok, sm_min, max_int64; lia).
    discriminate. }
  pose proof (time_plus_no_crash (clock h m 0) (- d) Hadd) as Hn.
  destruct (time_plus (clock h m 0) (- d)) as [t|e|c]; [eexists; reflexivity|eexists; reflexivity|].
  exfalso. exact (Hn c eq_refl).
Qed.

Definition triple (rs : list record) : Z * Z * Z := (spec_total rs, spec_should rs, spec_total rs - spec_should rs).
Definition add3 (x y : Z * Z * Z) : Z * Z * Z :=
  let '(a, b, c) := x in let '(a', b', c') := y in (a + a', b + b', c + c').

(* klog today [--now]: the two rows are the figures of the two parts, and add up to klog total's figures *)
Theorem today_cmd_spec now_flag today yesterday h m rs rs' :
  valid_clock h m -> plus_days today (-1) = Ok yesterday ->
  apply_now now_flag today h m rs = Ok rs' -> gsize rs' + 1439 <= max64 ->
  exists v cur other,
    today_cmd now_flag today h m rs = Ok v /\
    split_today today yesterday rs' = (cur, other, tv_yesterday v) /\
    Permutation (cur ++ other) rs' /\
    tv_has_current v = negb (match cur with [] => true | _ => false end) /\
    tv_current v = triple cur /\ tv_other v = triple other /\
    tv_all v = add3 (tv_current v) (tv_other v) /\
    tv_all v = triple rs'.
Proof.
  intros Hc Hy Hn G. unfold max64 in G.
  destruct (split_today today yesterday rs') as [[cur other] isy] eqn:Es.
  destruct (today_split_spec _ _ _ _ _ _ Es) as (Hp & _).
  assert (Gr : views_guard rs') by (unfold views_guard; lia).
  assert (Gco : views_guard (cur ++ other)) by (eapply guard_perm; [apply Permutation_sym; exact Hp|exact Gr]).
  destruct (guard_app _ _ Gco) as [Gc Go].
  destruct (eval3_spec cur Gc) as (Ect & Ecs & Ecd & Bc).
  destruct (eval3_spec other Go) as (Eot & Eos & Eod & Bo).
  assert (Hsz : gsize cur + gsize other = gsize rs') by (rewrite <- gsize_app; apply gsize_perm; exact Hp).
  assert (Ht : spec_total rs' = spec_total cur + spec_total other).
  { rewrite <- (spec_total_perm _ _ Hp). apply spec_total_app. }
  assert (Hs : spec_should rs' = spec_should cur + spec_should other).
  { unfold spec_should. rewrite <- (zsum_perm _ _ (Permutation_map should_minutes Hp)), map_app, zsum_app. reflexivity. }
  destruct (end_time_ok h m (spec_total cur - spec_should cur) Hc ltac:(unfold max64; lia)) as (ce & Ece).
  destruct (end_time_ok h m (spec_total rs' - spec_should rs') Hc ltac:(unfold max64; lia)) as (ge & Ege).
  eexists. exists cur, other. split.
  - unfold today_cmd. rewrite Hn. cbn [bind]. rewrite Hy. cbn [bind]. rewrite (new_time_clock h m Hc). cbn [bind].
    rewrite Es. unfold eval3. rewrite Ect. cbn [bind]. rewrite Ecs. cbn [bind]. rewrite Ecd. cbn [bind].
    rewrite Ece. cbn [bind]. rewrite Eot. cbn [bind]. rewrite Eos. cbn [bind]. rewrite Eod. cbn [bind].
    unfold dur_plus, add64.
    replace (sm_ok (spec_total cur)) with true by (unfold sm_ok, sm_min, max_int64; lia).
    replace (sm_ok (spec_total other)) with true by (unfold sm_ok, sm_min, max_int64; lia).
    replace (sm_ok (spec_total cur + spec_total other)) with true by (unfold sm_ok, sm_min, max_int64; lia).
    cbn [andb bind].
    replace (sm_ok (spec_should cur)) with true by (unfold sm_ok, sm_min, max_int64; lia).
    replace (sm_ok (spec_should other)) with true by (unfold sm_ok, sm_min, max_int64; lia).
    replace (sm_ok (spec_should cur + spec_should other)) with true by (unfold sm_ok, sm_min, max_int64; lia).
    cbn [andb bind].
    rewrite (proj1 (diff_spec (spec_should cur + spec_should other) (spec_total cur + spec_total other))) by (unfold fits; lia).
    cbn [bind]. rewrite <- Ht, <- Hs, Ege. cbn [bind]. reflexivity.
  - cbn [tv_yesterday tv_has_current tv_current tv_other tv_all]. split; [reflexivity|]. split; [exact Hp|].
    split; [destruct cur; reflexivity|]. split; [reflexivity|]. split; [reflexivity|]. unfold triple, add3.
    split; [f_equal; [f_equal|]; lia|reflexivity].
Qed.

(* ---- klog print --with-totals ---- *)

Lemma total_single r : abs_fit [r] -> total [r] = Ok (rec_total r).
Proof.
  intros H. rewrite (total_spec _ (abs_fit_no_overflow _ H)). rewrite spec_total_wsum. unfold wsum. cbn [map zsum fold_right]. f_equal. lia.
Qed.

Theorem with_totals_spec rs : abs_fit rs ->
  exists l, with_totals rs = Ok l /\
    l = map (fun r => (rec_total r, map entry_minutes (rec_entries r))) rs /\
    Forall2 (fun r p => total [r] = Ok (fst p) /\ snd p = map entry_minutes (rec_entries r) /\ fst p = zsum (snd p)) rs l /\
    zsum (map fst l) = spec_total rs /\
    total rs = Ok (zsum (map fst l)).
Proof.
  intros H. exists (map (fun r => (rec_total r, map entry_minutes (rec_entries r))) rs).
  assert (Hall : forall r, In r rs -> total [r] = Ok (rec_total r)).
  { clear - H. induction rs as [|x rs IH]; intros r Hin; [destruct Hin|]. destruct Hin as [<-|Hr].
    - apply total_single. change (x :: rs) with ([x] ++ rs) in H. apply abs_fit_app in H. tauto.
    - apply IH; [|exact Hr]. change (x :: rs) with ([x] ++ rs) in H. apply abs_fit_app in H. tauto. }
  split; [|split; [reflexivity|split; [|split]]].
  - unfold with_totals. apply map_outcome_ok. intros r Hr. rewrite (Hall r Hr). reflexivity.
  - clear H. induction rs as [|x rs IH]; cbn [map]; constructor.
    + cbn [fst snd]. split; [apply Hall; left; reflexivity|]. split; [reflexivity|].
      unfold rec_total. rewrite map_entry_minutes. reflexivity.
    + apply IH. intros r Hr. apply Hall. right. exact Hr.
  - rewrite map_map. cbn [fst]. symmetry. apply spec_total_wsum.
  - rewrite map_map. cbn [fst]. change (zsum (map (fun x => rec_total x) rs)) with (wsum rec_total rs).
    rewrite <- spec_total_wsum. apply total_spec, abs_fit_no_overflow, H.
Qed.

(* ================= 8. parsed records ================= *)

(* ---- records that come out of the parser carry valid dates ---- *)

Lemma app_ne {A} (l : list A) x : l ++ [x] <> [].
Proof. destruct l; discriminate. Qed.

Lemma parse_entries_errs_ne fuel : forall style ln ls es errs, errs <> [] ->
  snd (parse_entries fuel style ln ls es errs) <> [].
Proof.
  induction fuel as [|k IH]; intros style ln ls es errs H; cbn [parse_entries]; [exact H|].
  destruct ls as [|l rest]; [exact H|]. cbv zeta.
  destruct (negb (has_prefix style (l_text l)) || is_space_or_tab (peek (utf8_decode (l_text l)) (length style))); [apply app_ne|].
  destruct (parse_entry_value ln (utf8_decode (l_text l)) (length style)) as [e|d p|r p|o sp p].
  - apply IH. apply app_ne.
  - destruct (parse_entry_summary_more style (S ln) rest _) as [[[summary serr] rest'] ln'].
    destruct serr; apply IH; [apply app_ne|exact H].
  - destruct (parse_entry_summary_more style (S ln) rest _) as [[[summary serr] rest'] ln'].
    destruct serr; apply IH; [apply app_ne|exact H].
  - destruct (parse_entry_summary_more style (S ln) rest _) as [[[summary serr] rest'] ln'].
    destruct serr; [apply IH; apply app_ne|]. destruct (has_open_entry es); apply IH; [apply app_ne|exact H].
Qed.

Lemma parse_summary_lines_errs_ne ls : forall ln acc errs a e' st r n,
  parse_summary_lines ln ls acc errs = (a, e', st, r, n) -> errs <> [] -> e' <> [].
Proof.
  induction ls as [|l rest IH]; intros ln acc errs a e' st r n H Hne; cbn [parse_summary_lines] in H.
  - injection H as <- <- <- <- <-. exact Hne.
  - destruct (find_indentation (l_text l)); [injection H as <- <- <- <- <-; exact Hne|]. cbv zeta in H.
    destruct (match utf8_decode (l_text l) with [] => true | c :: _ => is_zs c || (c =? 9)%N end).
    + eapply IH; [exact H|apply app_ne].
    + eapply IH; [exact H|exact Hne].
Qed.

Lemma parse_date_valid s d : parse_date s = Ok d -> valid (dt d).
Proof.
  unfold parse_date. do 11 (destruct s as [|? s]; try discriminate).
  destruct (_ && _); [|discriminate]. destruct (Nat.eqb _ 1); [discriminate|].
  destruct (valid_ymd _ _ _) eqn:E; [|discriminate]. intros [= <-]. exact E.
Qed.

Lemma parse_headline_valid ln cs d sh es : parse_headline ln cs = HeadRec d sh es -> valid (dt d).
Proof.
  unfold parse_headline. destruct (is_space_or_tab (peek cs 0)); [discriminate|].
  destruct (peek_until is_space_or_tab cs 0) as [date_text b].
  destruct (parse_date (str date_text)) as [d0| |] eqn:Ed; try discriminate.
  apply parse_date_valid in Ed. cbv zeta.
  repeat match goal with
         | |- context [if ?b then _ else _] => destruct b
         | |- context [let '(_, _) := ?x in _] => destruct x
         | |- context [match parser_duration ?x with _ => _ end] => destruct (parser_duration x)
         end; intros [= <- _ _]; exact Ed.
Qed.

Theorem parse_record_valid b r : parse_record b = Ok (inl r) -> vrec r.
Proof.
  unfold parse_record. destruct (significant_lines b) as [[sig head] tl]. destruct sig as [|hl rest]; [discriminate|].
  destruct (parse_headline head (utf8_decode (l_text hl))) as [e|d sh es] eqn:Eh.
  - (* no date: the error of the headline survives to the end *)
    destruct (parse_summary_lines (S head) rest [] [e]) as [[[[summary errs1] style] rest1] ln1] eqn:Es.
    pose proof (parse_summary_lines_errs_ne _ _ _ _ _ _ _ _ _ Es ltac:(discriminate)) as Hne.
    destruct style as [st|].
    + pose proof (parse_entries_errs_ne (length rest1) st ln1 rest1 [] errs1 Hne) as Hne2.
      destruct (parse_entries (length rest1) st ln1 rest1 [] errs1) as [entries errs2]. cbn [snd] in Hne2.
      destruct errs2; [congruence|discriminate].
    + destruct errs1; [congruence|discriminate].
  - apply parse_headline_valid in Eh.
    destruct (parse_summary_lines (S head) rest [] es) as [[[[summary errs1] style] rest1] ln1].
    destruct (match style with Some st => parse_entries (length rest1) st ln1 rest1 [] errs1 | None => ([], errs1) end) as [entries errs2].
    destruct errs2; [|discriminate]. intros [= <-]. exact Eh.
Qed.

Theorem parsed_records_valid s rs bs : parse_text s = Ok (Parsed rs bs) -> Forall vrec rs.
Proof.
  intros H. destruct (proj1 (parse_text_blockwise s) rs bs H) as [_ HF]. clear H.
  induction HF as [|r b rs' bs' Hr HF IH]; constructor; [|exact IH]. eapply parse_record_valid; exact Hr.
Qed.

(* ================= 9. the statements of Properties/C12.v, spelled out ================= *)

Lemma sorted_lt_inj {A} (f : A -> Z) l x y : StronglySorted Z.lt (map f l) -> In x l -> In y l -> f x = f y -> x = y.
Proof.
  induction l as [|z l IH]; intros Hs Hx Hy E; [destruct Hx|]. cbn [map] in Hs.
  inversion Hs as [|? ? Hs' Hz]; subst. rewrite Forall_map, Forall_forall in Hz.
  destruct Hx as [<-|Hx], Hy as [<-|Hy].
  - reflexivity.
  - specialize (Hz _ Hy). lia.
  - specialize (Hz _ Hx). lia.
  - apply IH; assumption.
Qed.

Theorem rows_sum a fill df now_flag today h m rs rs' :
  rs <> [] -> Forall vrec rs -> apply_now now_flag today h m rs = Ok rs' -> views_guard rs' ->
  exists rep, report_cmd a fill df now_flag today h m rs = Ok (Some rep) /\
    zsum (map row_total (rep_rows rep)) = c_total (rep_grand rep) /\
    rep_grand rep = cells_spec df rs' /\
    total_cmd now_flag today h m rs
      = Ok (spec_total rs', spec_should rs', spec_total rs' - spec_should rs', Z.of_nat (length rs')) /\
    (df = true -> zsum (map row_should (rep_rows rep)) = spec_should rs' /\
                  zsum (map row_diff (rep_rows rep)) = spec_total rs' - spec_should rs') /\
    Forall (fun row => row_cells row = None ->
              row_total row = 0 /\ forall r, In r rs' -> pk a (rdate r) <> pk a (row_date row)) (rep_rows rep) /\
    (fill = false -> Forall (fun row => row_cells row <> None) (rep_rows rep)).
Proof.
  intros Hne V Hn G. destruct (report_cmd_facts a fill df now_flag today h m rs rs' Hne V Hn G) as (rep & E & F).
  exists rep. split; [exact E|]. destruct F.
  split; [assumption|]. split; [assumption|]. split; [apply total_cmd_spec; assumption|].
  split; [intros Hd; split; auto|]. split; [|assumption].
  eapply Forall_impl; [|exact rf_row_cells0]. intros row [_ Hc] Hnone. split; [unfold row_total; rewrite Hnone; reflexivity|].
  intros r Hr Hpk. rewrite Hnone in Hc. unfold period_cells in Hc.
  assert (Hin : In r (filter (same_pk a (row_date row)) rs')).
  { apply filter_In. split; [exact Hr|]. unfold same_pk. apply Z.eqb_eq. exact Hpk. }
  destruct (filter (same_pk a (row_date row)) rs'); [destruct Hin|discriminate].
Qed.

Theorem rows_partition a fill df now_flag today h m rs rs' :
  rs <> [] -> Forall vrec rs -> apply_now now_flag today h m rs = Ok rs' -> views_guard rs' ->
  exists rep, report_cmd a fill df now_flag today h m rs = Ok (Some rep) /\
    (forall r, In r rs' -> exists row, In row (rep_rows rep) /\ pk a (row_date row) = pk a (rdate r) /\
       forall row', In row' (rep_rows rep) -> pk a (row_date row') = pk a (rdate r) -> row' = row) /\
    Forall (fun row => valid (row_date row) /\ row_cells row = period_cells a df rs' (row_date row)) (rep_rows rep).
Proof.
  intros Hne V Hn G. destruct (report_cmd_facts a fill df now_flag today h m rs rs' Hne V Hn G) as (rep & E & F).
  exists rep. split; [exact E|]. destruct F. split; [|assumption].
  intros r Hr. destruct (rf_cover0 r Hr) as (row & Hrow & Hpk). exists row. split; [exact Hrow|]. split; [exact Hpk|].
  intros row' Hrow' Hpk'. apply (sorted_lt_inj (fun row => pk a (row_date row)) (rep_rows rep)); try assumption. lia.
Qed.

Theorem rows_chronological a fill df now_flag today h m rs rs' :
  rs <> [] -> Forall vrec rs -> apply_now now_flag today h m rs = Ok rs' -> views_guard rs' ->
  exists rep, report_cmd a fill df now_flag today h m rs = Ok (Some rep) /\
    StronglySorted Z.lt (map (fun row => pk a (row_date row)) (rep_rows rep)) /\
    Forall (fun row => exists r1 r2, In r1 rs' /\ In r2 rs' /\
              days_of (rdate r1) <= days_of (row_date row) <= days_of (rdate r2)) (rep_rows rep) /\
    (fill = true -> forall r1 r2 d, In r1 rs' -> In r2 rs' -> valid d ->
       days_of (rdate r1) <= days_of d <= days_of (rdate r2) ->
       exists row, In row (rep_rows rep) /\ pk a (row_date row) = pk a d).
Proof.
  intros Hne V Hn G. destruct (report_cmd_facts a fill df now_flag today h m rs rs' Hne V Hn G) as (rep & E & F).
  exists rep. split; [exact E|]. destruct F. auto.
Qed.

Theorem sort_spec rs : Forall vrec rs -> Permutation (sort_by_date rs) rs /\ sorted (sort_by_date rs).
Proof. intros V. split; [apply sort_perm|apply sort_sorted; exact V]. Qed.

(* ================= 10. filtered input ================= *)

(* ---- the views behind a filter: service.Filter keeps the date of every record it lets through ---- *)

Lemma reduce_to_tags_date qs r r' : reduce_to_tags qs r = Some r' -> rec_date r' = rec_date r.
Proof.
  unfold reduce_to_tags. cbv zeta. destruct (is_subset_of _ _); [intros [= <-]; reflexivity|].
  destruct (filter _ (rec_entries r)); [discriminate|]. intros [= <-]. reflexivity.
Qed.

Lemma reduce_to_entry_types_date t r r' : reduce_to_entry_types t r = Some r' -> rec_date r' = rec_date r.
Proof.
  unfold reduce_to_entry_types. destruct (filter _ (rec_entries r)); [discriminate|]. intros [= <-]. reflexivity.
Qed.

Lemma filter_record_date q r r' : filter_record q r = Some r' -> rec_date r' = rec_date r.
Proof.
  unfold filter_record.
  destruct (match q_at_date q with Some a => _ | None => false end); [discriminate|].
  destruct (match q_before_or_equal q with Some b => _ | None => false end); [discriminate|].
  destruct (match q_after_or_equal q with Some a => _ | None => false end); [discriminate|].
  destruct (match q_tags q with [] => Some r | _ :: _ => reduce_to_tags (q_tags q) r end) as [r1|] eqn:E1; [|discriminate].
  assert (H1 : rec_date r1 = rec_date r).
  { destruct (q_tags q); [injection E1 as <-; reflexivity|apply reduce_to_tags_date in E1; exact E1]. }
  destruct (q_entry_type q) as [t|]; [|intros [= <-]; exact H1].
  intros H. apply reduce_to_entry_types_date in H. congruence.
Qed.

Theorem filter_records_vrec q rs : Forall vrec rs -> Forall vrec (filter_records q rs).
Proof.
  induction rs as [|r rs IH]; intros V; cbn [filter_records]; [constructor|].
  inversion V; subst. destruct (filter_record q r) as [r'|] eqn:E; [|apply IH; assumption].
  constructor; [|apply IH; assumption]. apply filter_record_date in E. unfold vrec, Report.rdate in *. rewrite E. assumption.
Qed.
