(* Lemmas about Model/Period.v (stub). *)
From Klog Require Import Base.Prelude Model.Period.
