(* Suite "styler": requests evaluated by the model for the correspondence check (stub). *)
From Klog Require Import Base.Prelude Model.Show Model.Styler.
Definition suite_styler (cmd : bytes) (args : list bytes) : option bytes := None.
