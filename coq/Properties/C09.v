(* C09 — printing a file yields an equivalent canonical file (round trip, fixed point).
   Property theorems only; each is closed by [exact <lemma>] and followed by Print Assumptions.
   print_records is the unstyled serialiser (Model/Serialiser.v); canon / normalise / wf_records / no_trailing_cr are
   defined in Spec/Spec.v. All statements are proved at full strength (they rest on C01_parse_conforming). *)
From Klog Require Import Base.Prelude Base.Utf8 Model.Calendar Model.Values Model.Record Model.Lines Model.Parser Model.Serialiser
  Spec.Spec Proofs.SpecValues Proofs.Print.
Open Scope Z_scope.

(* the printed text is the rendering of the canonical specification document: four-space indentation, LF, one blank line
   between records, should-total only when non-zero, canonical literals *)
Theorem C09_print_is_canonical_render : forall rs, wf_records rs -> print_records rs = render (canon rs).
Proof. exact print_is_canonical_render. Qed.
Print Assumptions C09_print_is_canonical_render.

(* the printed text is a valid file and parses to the same records: dates, summaries, entry kinds, values and notation
   flags unchanged; only a zero should-total is dropped (and an entry without summary lines reads as one empty line) *)
Theorem C09_print_parse_roundtrip : forall rs, wf_records rs -> no_trailing_cr rs = true ->
  parse_text (print_records rs) = Ok (Parsed (normalise rs) (blocks_of (print_records rs))).
Proof. exact print_parse_roundtrip. Qed.
Print Assumptions C09_print_parse_roundtrip.

(* the guard no_trailing_cr is needed: a summary line ending in CR does not survive (finding K2).
   Witness: the record 2020-01-01 with the summary line "foo\r", printed as "2020-01-01\nfoo\r\n", read back as "foo" *)
Theorem C09_print_parse_cr_refuted : exists rs, wf_records rs /\
  forall bs, parse_text (print_records rs) <> Ok (Parsed (normalise rs) bs).
Proof. exact print_parse_cr_refuted. Qed.
Print Assumptions C09_print_parse_cr_refuted.

(* printing what was read back reproduces the text: print is a fixed point after one round *)
Theorem C09_print_idempotent : forall rs, print_records (normalise rs) = print_records rs.
Proof. exact print_idempotent. Qed.
Print Assumptions C09_print_idempotent.

Theorem C09_normalise_idempotent : forall rs, normalise (normalise rs) = normalise rs.
Proof. exact normalise_idempotent. Qed.
Print Assumptions C09_normalise_idempotent.

(* parse . print . parse = parse, for every document of the specification *)
Theorem C09_parse_print_parse : forall d, wf d -> no_trailing_cr (denote d) = true ->
  parse_text (render d) = Ok (Parsed (denote d) (blocks_of (render d))) /\
  parse_text (print_records (denote d)) = Ok (Parsed (normalise (denote d)) (blocks_of (print_records (denote d)))).
Proof. exact parse_print_parse_both. Qed.
Print Assumptions C09_parse_print_parse.

(* literal normalisation: printing the value of any time literal gives the canonical spelling of that same value;
   durations: parse (print d) = the same minutes with the notation flags ToString shows *)
Theorem C09_literal_normalisation_time : forall t, wf_time t = true ->
  exists t', parse_time (render_time t) = Ok t' /\ print_time t' = render_time (canon_time t') /\ denote_time (canon_time t') = t'.
Proof. exact literal_normalisation_time. Qed.
Print Assumptions C09_literal_normalisation_time.

Theorem C09_literal_normalisation_duration : forall d, wf_dur d = true ->
  exists d', parse_duration (render_dur d) = Ok d' /\ print_duration d' = render_dur (canon_dur d').
Proof. exact literal_normalisation_duration. Qed.
Print Assumptions C09_literal_normalisation_duration.

Theorem C09_literal_normalisation_examples :
  (exists t, parse_time b!"08:00" = Ok t /\ print_time t = b!"8:00")
  /\ (exists t, parse_time b!"24:00" = Ok t /\ print_time t = b!"0:00>")
  /\ (exists t, parse_time b!"<24:00" = Ok t /\ print_time t = b!"0:00")
  /\ (exists t, parse_time b!"12:05am" = Ok t /\ print_time t = b!"12:05am")
  /\ (exists d, parse_duration b!"90m" = Ok d /\ print_duration d = b!"1h30m")
  /\ (exists d, parse_duration b!"+0h" = Ok d /\ print_duration d = b!"+0m")
  /\ (exists d, parse_duration b!"-00h05m" = Ok d /\ print_duration d = b!"-5m").
Proof. exact literal_normalisation_examples. Qed.
Print Assumptions C09_literal_normalisation_examples.

(* ---------- non-vacuity ---------- *)

Definition example_records : list record :=
  [ {| rec_date := {| dt := {| c_year := 2024; c_month := 2; c_day := 29 |}; dt_dashes := false |};
       rec_should := Some 0;
       rec_summary := [b!"Leap day #work"];
       rec_entries :=
         [ {| e_value := VRange {| r_start := {| t_hour := 23; t_min := 30; t_shift := -1; t_24h := false |};
                                   r_end := {| t_hour := 0; t_min := 0; t_shift := 1; t_24h := true |}; r_spaces := true |};
              e_summary := [b!"8:00-9:00 1h"; b!"  more"] |};
           {| e_value := VDuration {| d_mins := -65; d_plus := false; d_zsign := 0 |}; e_summary := [] |};
           {| e_value := VOpen {| o_start := {| t_hour := 9; t_min := 0; t_shift := 0; t_24h := true |}; o_spaces := false; o_extra := 2 |};
              e_summary := [[]] |} ] |};
    {| rec_date := {| dt := {| c_year := 0; c_month := 1; c_day := 1 |}; dt_dashes := true |};
       rec_should := Some (-90); rec_summary := [];
       rec_entries := [ {| e_value := VDuration {| d_mins := 0; d_plus := true; d_zsign := 1 |}; e_summary := [[]] |} ] |} ].

Example C09_nonvacuous :
  wf_records example_records /\ no_trailing_cr example_records = true
  /\ print_records example_records =
     b!"2024/02/29" ++ [10%N] ++ b!"Leap day #work" ++ [10%N]
     ++ b!"    <11:30pm - 0:00> 8:00-9:00 1h" ++ [10%N] ++ b!"          more" ++ [10%N]
     ++ b!"    -1h5m" ++ [10%N] ++ b!"    9:00-???" ++ [10%N] ++ [10%N]
     ++ b!"0000-01-01 (-1h30m!)" ++ [10%N] ++ b!"    +0m" ++ [10%N]
  /\ normalise example_records <> example_records.
Proof.
  split; [vm_compute; reflexivity|]. split; [vm_compute; reflexivity|]. split; [vm_compute; reflexivity|].
  intros H. vm_compute in H. discriminate.
Qed.
