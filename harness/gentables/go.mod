module gentables

go 1.24
