(* Reconcile: the reconciler's operations edit the line list minimally (C03). About Model/Reconcile.v.
     - [insert_splice] and its consequences: all original lines survive in order, only the line before the insertion
       point may change and only by gaining a line ending, the inserted lines are contiguous
     - [replace_placeholder_spec], [replace_value_token_spec]: exactly one token of the line is rewritten
     - the shape of the result of every operation ([append_entry_shape], [start_open_range_shape],
       [close_open_range_shape], [extend_pause_shape], [append_pause_shape], [new_record_shape])
     - [edit]: the relation "minimal edit" and [*_minimal]: every operation is one *)
From Klog Require Import Base.Prelude Base.Utf8 Model.Calendar Model.Values Model.Record Model.Lines Model.Parser
  Model.Reconcile Proofs.Lines Proofs.Style.
From Coq Require Import ZifyBool.
Open Scope Z_scope.

(* ---------------------------------------------------------------- list helpers *)

Lemma zlen_app {A} (a b : list A) : zlen (a ++ b) = zlen a + zlen b.
Proof. unfold zlen. rewrite app_length. lia. Qed.

Lemma zlen_nonneg {A} (a : list A) : 0 <= zlen a.
Proof. unfold zlen. lia. Qed.

Lemma split_at {A} (n : nat) (l : list A) : (n <= length l)%nat ->
  exists pre post, l = pre ++ post /\ length pre = n /\ firstn n l = pre /\ skipn n l = post.
Proof.
  intros H. exists (firstn n l), (skipn n l). rewrite firstn_skipn, firstn_length, Nat.min_l by exact H. auto.
Qed.

Lemma split_nth {A} (n : nat) (l : list A) : (n < length l)%nat ->
  exists pre x post, l = pre ++ x :: post /\ length pre = n /\ firstn n l = pre /\ skipn n l = x :: post.
Proof.
  intros H. destruct (split_at n l ltac:(lia)) as (pre & post & E & Hl & Hf & Hs).
  destruct post as [|x post].
  - rewrite app_nil_r in E. subst l. lia.
  - exists pre, x, post. auto.
Qed.

(* ---------------------------------------------------------------- giving the last line an ending *)

(* a line without an ending gets one; any other line is left alone *)
Definition gain (eol : bytes) (l : line) : line :=
  match l_ending l with [] => {| l_text := l_text l; l_ending := eol |} | _ => l end.

Lemma gain_text eol l : l_text (gain eol l) = l_text l.
Proof. unfold gain. destruct (l_ending l); reflexivity. Qed.

Lemma gain_ending eol l : l_ending l <> [] -> gain eol l = l.
Proof. unfold gain. destruct (l_ending l); [contradiction|reflexivity]. Qed.

Lemma gain_open eol l : l_ending l = [] -> gain eol l = {| l_text := l_text l; l_ending := eol |}.
Proof. unfold gain. intros ->. reflexivity. Qed.

Lemma give_ending_nil eol : give_ending_to_last eol [] = [].
Proof. reflexivity. Qed.

Lemma give_ending_snoc eol pre l : give_ending_to_last eol (pre ++ [l]) = pre ++ [gain eol l].
Proof.
  induction pre as [|x pre IH]; [reflexivity|].
  cbn [app]. destruct (pre ++ [l]) as [|y r] eqn:E; [destruct pre; discriminate E|].
  change (give_ending_to_last eol (x :: y :: r)) with (x :: give_ending_to_last eol (y :: r)).
  rewrite IH. reflexivity.
Qed.

Lemma firstn_skipn_succ {A} (pre : list A) x post :
  firstn (S (length pre)) (pre ++ x :: post) = pre ++ [x] /\ skipn (S (length pre)) (pre ++ x :: post) = post.
Proof.
  replace (pre ++ x :: post) with ((pre ++ [x]) ++ post) by (rewrite <- app_assoc; reflexivity).
  assert (H : length (pre ++ [x]) = S (length pre)) by (rewrite app_length; cbn; lia).
  rewrite <- H. rewrite firstn_app, skipn_app, Nat.sub_diag, firstn_all, skipn_all. cbn [firstn skipn].
  rewrite app_nil_r. auto.
Qed.

Lemma list_snoc_cases {A} (l : list A) : l = [] \/ exists pre x, l = pre ++ [x].
Proof. destruct l as [|x l] using rev_ind; [left; reflexivity|right; exists l, x; reflexivity]. Qed.

Lemma give_ending_app eol a b : b <> [] -> give_ending_to_last eol (a ++ b) = a ++ give_ending_to_last eol b.
Proof.
  intros Hb. destruct (list_snoc_cases b) as [->|(p & x & ->)]; [contradiction|].
  rewrite app_assoc, !give_ending_snoc, app_assoc. reflexivity.
Qed.

(* ---------------------------------------------------------------- insert *)

(* insert_splice, by decomposition of the line list at the insertion point *)
Theorem insert_splice st idx texts ls ls' : insert st idx texts ls = Ok ls' ->
  exists pre post, ls = pre ++ post /\ zlen pre = idx /\
    ls' = give_ending_to_last (sp_val (st_eol st)) pre ++ map (mk_inserted st) texts ++ post.
Proof.
  intros H. apply insert_inv in H as [Hi ->].
  destruct (split_at (Z.to_nat idx) ls ltac:(unfold zlen in Hi; lia)) as (pre & post & E & Hl & -> & ->).
  exists pre, post. split; [exact E|]. split; [unfold zlen; lia|reflexivity].
Qed.

Lemma insert_crash_iff st idx texts ls : (exists c, insert st idx texts ls = Crash c) <-> ~ (0 <= idx <= zlen ls).
Proof.
  unfold insert. destruct ((idx <? 0) || (zlen ls <? idx)) eqn:E; split.
  - intros _. lia.
  - intros _. eexists. reflexivity.
  - intros [c Hc]. discriminate.
  - intros H. lia.
Qed.

Lemma insert_not_err st idx texts ls e : insert st idx texts ls <> Err e.
Proof. unfold insert. destruct ((idx <? 0) || (zlen ls <? idx)); discriminate. Qed.

(* the consequences, position by position *)
Theorem insert_positions st idx texts ls ls' : insert st idx texts ls = Ok ls' ->
  let i := Z.to_nat idx in let n := length texts in
  length ls' = (length ls + n)%nat /\
  (* before the insertion point: untouched, except that line idx-1 gets an ending if it had none *)
  (forall k, (S k < i)%nat -> nth_error ls' k = nth_error ls k) /\
  (forall k l, S k = i -> nth_error ls k = Some l -> nth_error ls' k = Some (gain (sp_val (st_eol st)) l)) /\
  (* the inserted lines: contiguous, in order *)
  (forall k t, nth_error texts k = Some t -> nth_error ls' (i + k) = Some (mk_inserted st t)) /\
  (* after them: untouched, shifted by n *)
  (forall k, (i <= k)%nat -> nth_error ls' (k + n) = nth_error ls k).
Proof.
  intros H i n. pose proof H as H0. apply insert_splice in H as (pre & post & -> & Hl & ->).
  assert (Hi : length pre = i) by (unfold zlen in Hl; unfold i; lia).
  assert (Hg : length (give_ending_to_last (sp_val (st_eol st)) pre) = i) by (rewrite give_ending_length; exact Hi).
  split; [|split; [|split; [|split]]].
  - rewrite !app_length, map_length, give_ending_length. unfold n. lia.
  - intros k Hk. destruct (list_snoc_cases pre) as [->|(p & x & ->)]; [cbn in Hi; lia|].
    rewrite give_ending_snoc. rewrite app_length in Hi. cbn [List.length] in Hi.
    rewrite <- !app_assoc. rewrite !nth_error_app1 by lia. reflexivity.
  - intros k l Hk Hn. destruct (list_snoc_cases pre) as [->|(p & x & ->)]; [cbn in Hi; lia|].
    rewrite give_ending_snoc. rewrite app_length in Hi. cbn [List.length] in Hi.
    rewrite <- !app_assoc in *. rewrite nth_error_app2 in * by lia.
    replace (k - length p)%nat with O in * by lia. cbn [app nth_error] in *. congruence.
  - intros k t Hk. exact (insert_uses_style _ _ _ _ _ _ _ H0 Hk).
  - intros k Hk. rewrite nth_error_app2 by lia. rewrite nth_error_app2 by (rewrite map_length; fold n; lia).
    rewrite map_length, Hg. fold n. rewrite nth_error_app2 by lia. f_equal. lia.
Qed.

(* every original line survives with its text; its ending changes only from nothing to the style's ending *)
Corollary insert_preserves_texts st idx texts ls ls' : insert st idx texts ls = Ok ls' ->
  exists pre post, ls = pre ++ post /\
    exists pre', ls' = pre' ++ map (mk_inserted st) texts ++ post /\
      map l_text pre' = map l_text pre /\ length pre' = length pre.
Proof.
  intros H. apply insert_splice in H as (pre & post & -> & Hl & ->).
  exists pre, post. split; [reflexivity|]. exists (give_ending_to_last (sp_val (st_eol st)) pre).
  split; [reflexivity|]. split; [|apply give_ending_length].
  destruct (list_snoc_cases pre) as [->|(p & x & ->)]; [reflexivity|].
  rewrite give_ending_snoc, !map_app. cbn [map]. rewrite gain_text. reflexivity.
Qed.

(* ---------------------------------------------------------------- update_line *)

Lemma update_line_spec ls i f ls' : update_line ls i f = Ok ls' ->
  exists pre l post, ls = pre ++ l :: post /\ zlen pre = i /\
    ls' = pre ++ {| l_text := f (l_text l); l_ending := l_ending l |} :: post.
Proof.
  unfold update_line. destruct ((i <? 0) || (zlen ls <=? i)) eqn:E; [discriminate|]. intros [= <-].
  destruct (split_nth (Z.to_nat i) ls ltac:(unfold zlen in E; lia)) as (pre & l & post & -> & Hl & -> & ->).
  exists pre, l, post. split; [reflexivity|]. split; [unfold zlen; lia|reflexivity].
Qed.

Lemma update_line_ok ls i f : 0 <= i < zlen ls -> exists ls', update_line ls i f = Ok ls'.
Proof. intros H. unfold update_line. destruct ((i <? 0) || (zlen ls <=? i)) eqn:E; [lia|]. eexists. reflexivity. Qed.

Lemma update_line_not_err ls i f e : update_line ls i f <> Err e.
Proof. unfold update_line. destruct ((i <? 0) || (zlen ls <=? i)); discriminate. Qed.

(* ---------------------------------------------------------------- the two token rewrites *)

Definition is_q (c : N) : bool := (c =? ch_q)%N.
Definition is_blank_char (c : N) : bool := (c =? 32)%N || (c =? 9)%N.

Lemma span_all {A} (p : A -> bool) a b : forallb p a = true -> (match b with [] => True | x :: _ => p x = false end) ->
  span p (a ++ b) = (a, b).
Proof.
  intros Ha Hb. induction a as [|x a IH]; cbn [app span].
  - destruct b as [|y b]; [reflexivity|]. cbn [span]. rewrite Hb. reflexivity.
  - cbn [forallb] in Ha. apply andb_true_iff in Ha as [Hx Ha]. rewrite Hx, (IH Ha). reflexivity.
Qed.

Lemma span_spec {A} (p : A -> bool) l a b : span p l = (a, b) ->
  l = a ++ b /\ forallb p a = true /\ match b with [] => True | x :: _ => p x = false end.
Proof.
  revert a b. induction l as [|x l IH]; intros a b H; cbn [span] in H.
  - injection H as <- <-. auto.
  - destruct (p x) eqn:E.
    + destruct (span p l) as [a' b'] eqn:E2. injection H as <- <-. destruct (IH _ _ eq_refl) as (-> & Ha & Hb).
      split; [reflexivity|]. split; [cbn [forallb]; rewrite E, Ha; reflexivity|exact Hb].
    + injection H as <- <-. split; [reflexivity|]. split; [reflexivity|exact E].
Qed.

(* the leftmost maximal run of question marks is replaced, nothing else; a text without one is left alone *)
Theorem replace_placeholder_app pre qs post repl :
  forallb (fun c => negb (is_q c)) pre = true -> qs <> [] -> forallb is_q qs = true ->
  (match post with [] => True | x :: _ => is_q x = false end) ->
  replace_placeholder (pre ++ qs ++ post) repl = pre ++ repl ++ post.
Proof.
  intros Hpre Hne Hqs Hpost. induction pre as [|c pre IH]; cbn [app].
  - destruct qs as [|q qs]; [contradiction|]. cbn [forallb] in Hqs. apply andb_true_iff in Hqs as [Hq Hqs].
    cbn [app replace_placeholder]. unfold is_q in Hq. rewrite Hq.
    change (fun x : N => (x =? ch_q)%N) with is_q. rewrite (span_all is_q qs post Hqs Hpost). reflexivity.
  - cbn [forallb] in Hpre. apply andb_true_iff in Hpre as [Hc Hpre]. cbn [replace_placeholder].
    unfold is_q in Hc. apply negb_true_iff in Hc. rewrite Hc, (IH Hpre). reflexivity.
Qed.

Theorem replace_placeholder_none s repl : forallb (fun c => negb (is_q c)) s = true -> replace_placeholder s repl = s.
Proof.
  induction s as [|c s IH]; [reflexivity|]. cbn [forallb]. intros H. apply andb_true_iff in H as [Hc H].
  cbn [replace_placeholder]. unfold is_q in Hc. apply negb_true_iff in Hc. rewrite Hc, (IH H). reflexivity.
Qed.

(* every text decomposes in one of the two ways *)
Definition placeholder_split (s pre qs post : bytes) : Prop :=
  s = pre ++ qs ++ post /\ forallb (fun c => negb (is_q c)) pre = true /\ qs <> [] /\ forallb is_q qs = true /\
  match post with [] => True | x :: _ => is_q x = false end.

Lemma placeholder_cases s :
  forallb (fun c => negb (is_q c)) s = true \/ exists pre qs post, placeholder_split s pre qs post.
Proof.
  induction s as [|c s IH]; [left; reflexivity|].
  destruct (is_q c) eqn:E.
  - right. destruct (span is_q s) as [a b] eqn:Es. destruct (span_spec _ _ _ _ Es) as (-> & Ha & Hb).
    exists [], (c :: a), b. split; [reflexivity|]. split; [reflexivity|]. split; [discriminate|].
    split; [cbn [forallb]; rewrite E, Ha; reflexivity|exact Hb].
  - destruct IH as [IH|(pre & qs & post & -> & H1 & H2 & H3 & H4)].
    + left. cbn [forallb]. rewrite E, IH. reflexivity.
    + right. exists (c :: pre), qs, post. split; [reflexivity|]. split; [cbn [forallb]; rewrite E, H1; reflexivity|]. auto.
Qed.

Theorem replace_placeholder_spec s repl :
  (forallb (fun c => negb (is_q c)) s = true /\ replace_placeholder s repl = s) \/
  (exists pre qs post, placeholder_split s pre qs post /\ replace_placeholder s repl = pre ++ repl ++ post).
Proof.
  destruct (placeholder_cases s) as [H|(pre & qs & post & H)].
  - left. split; [exact H|apply replace_placeholder_none; exact H].
  - right. exists pre, qs, post. split; [exact H|]. destruct H as (-> & H1 & H2 & H3 & H4).
    apply replace_placeholder_app; assumption.
Qed.

(* the value token: the leading blanks stay, the run of non-blanks after them is replaced, the rest stays *)
Definition token_split (s lead tok rest : bytes) : Prop :=
  s = lead ++ tok ++ rest /\ forallb is_blank_char lead = true /\ forallb (fun c => negb (is_blank_char c)) tok = true /\
  (match rest with [] => True | x :: _ => is_blank_char x = true end) /\ (tok = [] -> rest = []).

Lemma token_cases s : exists lead tok rest, token_split s lead tok rest.
Proof.
  destruct (span is_blank_char s) as [lead r] eqn:E1. destruct (span_spec _ _ _ _ E1) as (-> & Hl & Hr).
  destruct (span (fun c => negb (is_blank_char c)) r) as [tok rest] eqn:E2. destruct (span_spec _ _ _ _ E2) as (-> & Ht & Hrest).
  exists lead, tok, rest. split; [reflexivity|]. split; [exact Hl|]. split; [exact Ht|].
  split.
  - destruct rest as [|x rest]; [exact I|]. apply negb_false_iff in Hrest. exact Hrest.
  - intros ->. cbn [app] in Hr. destruct rest as [|x rest]; [reflexivity|]. rewrite Hr in Hrest. discriminate.
Qed.

Theorem replace_value_token_app lead tok rest repl : token_split (lead ++ tok ++ rest) lead tok rest ->
  replace_value_token (lead ++ tok ++ rest) repl = lead ++ repl ++ rest.
Proof.
  intros (_ & Hl & Ht & Hr & He). unfold replace_value_token.
  change (fun c : N => (c =? 32)%N || (c =? 9)%N) with is_blank_char.
  rewrite (span_all is_blank_char lead (tok ++ rest) Hl).
  - change (fun c : N => negb ((c =? 32)%N || (c =? 9)%N)) with (fun c => negb (is_blank_char c)).
    rewrite (span_all (fun c => negb (is_blank_char c)) tok rest Ht); [reflexivity|].
    destruct rest as [|x rest]; [exact I|]. rewrite Hr. reflexivity.
  - destruct tok as [|t tok].
    + rewrite (He eq_refl). exact I.
    + cbn [app forallb] in *. apply andb_true_iff in Ht as [Ht _]. apply negb_true_iff in Ht. exact Ht.
Qed.

Theorem replace_value_token_spec s repl :
  exists lead tok rest, token_split s lead tok rest /\ replace_value_token s repl = lead ++ repl ++ rest.
Proof.
  destruct (token_cases s) as (lead & tok & rest & H). exists lead, tok, rest. split; [exact H|].
  pose proof H as (-> & _). apply replace_value_token_app. exact H.
Qed.

(* ---------------------------------------------------------------- minimal edits *)

(* [edit ch c n before after]: [after] is [before] with
     - every original line still there, in the original order;
     - at most [c] of them with a rewritten text, and then rewritten as [ch] allows; the line ending is kept;
     - a line WITHOUT line ending may have gained one, but only when lines were added directly after it;
     - everything else in [after] is added lines, forming at most [n] contiguous blocks. *)
Section Edit.
  Variable ch : bytes -> bytes -> Prop.

  Definition blk_count (Q : list line) : nat := match Q with [] => O | _ => 1%nat end.

  (* the body: every original line [l] becomes [l'] followed by a (possibly empty) block [Q] of added lines *)
  Inductive edit_body : nat -> nat -> list line -> list line -> Prop :=
  | eb_nil : edit_body 0 0 [] []
  | eb_cons (chg : bool) l l' Q b a c n :
      (if chg then ch (l_text l) (l_text l') else l_text l' = l_text l) ->
      (l_ending l' = l_ending l \/ (l_ending l = [] /\ Q <> [])) ->
      edit_body c n b a ->
      edit_body ((if chg then 1 else 0) + c) (blk_count Q + n) (l :: b) (l' :: Q ++ a).

  (* ... preceded by a (possibly empty) block [P] added before the first line *)
  Definition edit (c n : nat) (before after : list line) : Prop :=
    exists P a' c' n', after = P ++ a' /\ edit_body c' n' before a' /\ (c' <= c)%nat /\ (blk_count P + n' <= n)%nat.

  Lemma edit_body_refl l : edit_body 0 0 l l.
  Proof.
    induction l as [|x l IH]; [constructor|].
    exact (eb_cons false x x [] l l 0 0 eq_refl (or_introl eq_refl) IH).
  Qed.

  Lemma edit_refl l : edit 0 0 l l.
  Proof. exists [], l, O, O. split; [reflexivity|]. split; [apply edit_body_refl|]. cbn; lia. Qed.

  Lemma edit_weaken c n c' n' b a : edit c n b a -> (c <= c')%nat -> (n <= n')%nat -> edit c' n' b a.
  Proof. intros (P & a' & c0 & n0 & E & H & Hc & Hn) H1 H2. exists P, a', c0, n0. repeat split; try assumption; lia. Qed.

  Lemma edit_body_app c1 n1 b1 a1 c2 n2 b2 a2 : edit_body c1 n1 b1 a1 -> edit_body c2 n2 b2 a2 ->
    edit_body (c1 + c2) (n1 + n2) (b1 ++ b2) (a1 ++ a2).
  Proof.
    intros H1 H2. induction H1 as [|chg l l' Q b a c n Ht He H1 IH]; [exact H2|].
    cbn [app]. rewrite <- app_assoc, <- !Nat.add_assoc. exact (eb_cons chg l l' Q _ _ _ _ Ht He IH).
  Qed.

  Lemma edit_body_app_inv x : forall y d c n, edit_body c n (x ++ y) d ->
    exists d1 d2 c1 n1 c2 n2, d = d1 ++ d2 /\ edit_body c1 n1 x d1 /\ edit_body c2 n2 y d2 /\ c = (c1 + c2)%nat /\ n = (n1 + n2)%nat.
  Proof.
    induction x as [|l x IH]; intros y d c n H.
    - exists [], d, O, O, c, n. split; [reflexivity|]. split; [constructor|]. auto.
    - cbn [app] in H. inversion H as [|chg l0 l' Q b a c0 n0 Ht He H' Ec En Eb Ea]; subst.
      destruct (IH _ _ _ _ H') as (d1 & d2 & c1 & n1 & c2 & n2 & -> & B1 & B2 & -> & ->).
      exists (l' :: Q ++ d1), d2, ((if chg then 1 else 0) + c1)%nat, (blk_count Q + n1)%nat, c2, n2.
      split; [cbn [app]; rewrite <- app_assoc; reflexivity|]. split; [exact (eb_cons chg l l' Q _ _ _ _ Ht He B1)|].
      split; [exact B2|]. split; lia.
  Qed.

  Lemma edit_body_nonempty c n b a : edit_body c n b a -> b <> [] -> a <> [].
  Proof. intros H Hb. destruct H; [contradiction|discriminate]. Qed.

  Lemma edit_body_nil c n a : edit_body c n [] a -> a = [] /\ c = O /\ n = O.
  Proof. intros H. inversion H. auto. Qed.

  Lemma blk_count_app_l P d : (blk_count (P ++ d) <= blk_count P + blk_count d)%nat.
  Proof. destruct P; cbn; [lia|]. lia. Qed.

  (* a single line rewritten *)
  Lemma edit_update pre l post t' : ch (l_text l) t' ->
    edit 1 0 (pre ++ l :: post) (pre ++ {| l_text := t'; l_ending := l_ending l |} :: post).
  Proof.
    intros H. exists [], (pre ++ {| l_text := t'; l_ending := l_ending l |} :: post), 1%nat, O.
    split; [reflexivity|]. split; [|cbn; lia].
    refine (edit_body_app 0 0 pre pre 1 0 (l :: post) (_ :: post) (edit_body_refl pre) _).
    exact (eb_cons true l {| l_text := t'; l_ending := l_ending l |} [] post post 0 0 H (or_introl eq_refl) (edit_body_refl post)).
  Qed.

  (* a block spliced in, the line before it gaining an ending if it had none *)
  Lemma edit_insertion eol pre blk post : blk <> [] ->
    edit 0 1 (pre ++ post) (give_ending_to_last eol pre ++ blk ++ post).
  Proof.
    intros Hb. destruct (list_snoc_cases pre) as [->|(p & x & ->)].
    - exists blk, post, O, O. split; [reflexivity|]. split; [apply edit_body_refl|]. destruct blk; [contradiction|cbn; lia].
    - rewrite give_ending_snoc. exists [], ((p ++ [gain eol x]) ++ blk ++ post), O, 1%nat.
      split; [reflexivity|]. split; [|cbn; lia].
      rewrite <- !app_assoc. cbn [app].
      refine (edit_body_app 0 0 p p 0 1 (x :: post) (gain eol x :: blk ++ post) (edit_body_refl p) _).
      replace 1%nat with (blk_count blk + 0)%nat by (destruct blk; [contradiction|reflexivity]).
      refine (eb_cons false x (gain eol x) blk post post 0 0 (gain_text eol x) _ (edit_body_refl post)).
      unfold gain. destruct (l_ending x) eqn:E; [right; split; [reflexivity|exact Hb]|left; exact E].
  Qed.

  (* composition *)
  Hypothesis ch_trans : forall x y z, ch x y -> ch y z -> ch x z.

  Lemma edit_body_trans c1 n1 a b : edit_body c1 n1 a b -> forall c2 n2 d, edit_body c2 n2 b d ->
    exists c n, edit_body c n a d /\ (c <= c1 + c2)%nat /\ (n <= n1 + n2)%nat.
  Proof.
    induction 1 as [|chg l l' Q b a c n Ht He H1 IH]; intros c2 n2 d H2.
    - apply edit_body_nil in H2 as (-> & -> & ->). exists O, O. split; [constructor|lia].
    - inversion H2 as [|chg2 l0 l'' Q2 b2 a2 c0 n0 Ht2 He2 H2' Ec En Eb Ea]; subst.
      destruct (edit_body_app_inv _ _ _ _ _ H2') as (r1 & r2 & cq & nq & cr & nr & -> & BQ & BR & -> & ->).
      destruct (IH _ _ _ BR) as (c' & n' & B & Hc & Hn).
      exists ((if chg || chg2 then 1 else 0) + c')%nat, (blk_count (Q2 ++ r1) + n')%nat.
      split; [|split].
      + rewrite app_assoc. apply (eb_cons (chg || chg2) l l'' (Q2 ++ r1)); [| |exact B].
        * destruct chg, chg2; cbn [orb].
          -- exact (ch_trans _ _ _ Ht Ht2).
          -- rewrite Ht2. exact Ht.
          -- rewrite <- Ht. exact Ht2.
          -- congruence.
        * destruct He2 as [He2|[He2 HQ2]].
          -- destruct He as [He|[He HQ]]; [left; congruence|].
             right. split; [exact He|]. intros E. apply app_eq_nil in E as [_ E].
             exact (edit_body_nonempty _ _ _ _ BQ HQ E).
          -- destruct He as [He|[He HQ]].
             ++ right. split; [congruence|]. intros E. apply app_eq_nil in E as [E _]. exact (HQ2 E).
             ++ right. split; [exact He|]. intros E. apply app_eq_nil in E as [E _]. exact (HQ2 E).
      + destruct chg, chg2; cbn [orb]; lia.
      + assert (blk_count (Q2 ++ r1) <= blk_count Q2 + blk_count Q)%nat.
        { destruct Q as [|q Q].
          - apply edit_body_nil in BQ as (-> & _). rewrite app_nil_r. lia.
          - destruct Q2; cbn; [|lia]. destruct r1; cbn; lia. }
        lia.
  Qed.

  Theorem edit_trans c1 n1 c2 n2 a b d : edit c1 n1 a b -> edit c2 n2 b d -> edit (c1 + c2) (n1 + n2) a d.
  Proof.
    intros (P1 & b' & c1' & n1' & -> & B1 & Hc1 & Hn1) (P2 & d' & c2' & n2' & -> & B2 & Hc2 & Hn2).
    destruct (edit_body_app_inv _ _ _ _ _ B2) as (d1 & d2 & cp & np & cb & nb & -> & BP & BB & -> & ->).
    destruct (edit_body_trans _ _ _ _ B1 _ _ _ BB) as (c & n & B & Hc & Hn).
    exists (P2 ++ d1), d2, c, n. split; [rewrite app_assoc; reflexivity|]. split; [exact B|]. split; [lia|].
    assert (blk_count (P2 ++ d1) <= blk_count P2 + blk_count P1)%nat.
    { destruct P1 as [|p P1].
      - apply edit_body_nil in BP as (-> & _). rewrite app_nil_r. lia.
      - destruct P2; cbn; [|lia]. destruct d1; cbn; lia. }
    lia.
  Qed.

  (* what the relation means, line by line: the original lines are a subsequence of the result, each with its text
     (or an allowed rewrite of it) and its ending (or, if it had none, any) *)
  Inductive embeds : list line -> list line -> Prop :=
  | em_nil a : embeds [] a
  | em_skip x b a : embeds b a -> embeds b (x :: a)
  | em_line l l' b a :
      (l_text l' = l_text l \/ ch (l_text l) (l_text l')) -> (l_ending l' = l_ending l \/ l_ending l = []) ->
      embeds b a -> embeds (l :: b) (l' :: a).

  Lemma embeds_prefix P b a : embeds b a -> embeds b (P ++ a).
  Proof. intros H. induction P as [|x P IH]; [exact H|]. cbn [app]. apply em_skip. exact IH. Qed.

  Theorem edit_embeds c n b a : edit c n b a -> embeds b a.
  Proof.
    intros (P & a' & c' & n' & -> & B & _). apply embeds_prefix. clear P c n.
    induction B as [|chg l l' Q b a c n Ht He B IH]; [constructor|].
    apply em_line; [destruct chg; [right; exact Ht|left; exact Ht]|destruct He as [He|[He _]]; [left; exact He|right; exact He]|].
    apply embeds_prefix. exact IH.
  Qed.

  Lemma edit_length c n b a : edit c n b a -> (length b <= length a)%nat.
  Proof.
    intros (P & a' & c' & n' & -> & B & _). rewrite app_length.
    assert (length b <= length a')%nat; [|lia]. clear P c n.
    induction B as [|chg l l' Q b a c n Ht He B IH]; [cbn; lia|]. cbn [List.length]. rewrite app_length. lia.
  Qed.
End Edit.

(* with no rewrite allowed (c = 0) every original line keeps its text *)
Lemma edit_body_zero ch n b a : edit_body ch 0 n b a -> edit_body (fun _ _ => False) 0 n b a.
Proof.
  intros H. remember O as c eqn:Ec. induction H as [|chg l l' Q b a c n Ht He B IH]; [constructor|].
  destruct chg; [discriminate Ec|]. cbn [Nat.add] in Ec. subst c.
  exact (eb_cons _ false l l' Q b a 0 n Ht He (IH eq_refl)).
Qed.

(* ---------------------------------------------------------------- the rewrites the operations perform *)

Inductive rewrite1 : bytes -> bytes -> Prop :=
| rw_placeholder s pre qs post repl : placeholder_split s pre qs post -> rewrite1 s (pre ++ repl ++ post)
| rw_token s lead tok rest repl : token_split s lead tok rest -> rewrite1 s (lead ++ repl ++ rest)
| rw_append s add : rewrite1 s (s ++ add).

Inductive rewrites : bytes -> bytes -> Prop :=
| rws_one x y : rewrite1 x y -> rewrites x y
| rws_trans x y z : rewrites x y -> rewrites y z -> rewrites x z.

Lemma rewrites_refl x : rewrites x x.
Proof. apply rws_one. rewrite <- (app_nil_r x) at 2. apply rw_append. Qed.

Lemma rewrites_placeholder s repl : rewrites s (replace_placeholder s repl).
Proof.
  destruct (replace_placeholder_spec s repl) as [[_ ->]|(pre & qs & post & H & ->)]; [apply rewrites_refl|].
  apply rws_one. exact (rw_placeholder s pre qs post repl H).
Qed.

Lemma rewrites_token s repl : rewrites s (replace_value_token s repl).
Proof.
  destruct (replace_value_token_spec s repl) as (lead & tok & rest & H & ->).
  apply rws_one. exact (rw_token s lead tok rest repl H).
Qed.

Notation medit := (edit rewrites).

Lemma medit_trans c1 n1 c2 n2 a b d : medit c1 n1 a b -> medit c2 n2 b d -> medit (c1 + c2) (n1 + n2) a d.
Proof. apply edit_trans. exact rws_trans. Qed.

Lemma medit_of_update ls i f ls' : update_line ls i f = Ok ls' -> (forall t, rewrites t (f t)) -> medit 1 0 ls ls'.
Proof. intros H Hf. apply update_line_spec in H as (pre & l & post & -> & _ & ->). apply edit_update. apply Hf. Qed.

Lemma medit_of_insert st idx texts ls ls' : insert st idx texts ls = Ok ls' -> texts <> [] -> medit 0 1 ls ls'.
Proof.
  intros H Ht. apply insert_splice in H as (pre & post & -> & _ & ->). apply edit_insertion.
  destruct texts; [contradiction|discriminate].
Qed.

(* ---------------------------------------------------------------- the operations *)

Lemma lift_lines_ok r o r' : lift_lines r o = ROk r' -> exists ls, o = Ok ls /\ r' = with_lines r ls.
Proof. unfold lift_lines. destruct o as [ls| |]; [|discriminate|discriminate]. intros [= <-]. exists ls. auto. Qed.

Lemma lift_lines_not_err r o e : lift_lines r o <> RErr e.
Proof. unfold lift_lines. destruct o; discriminate. Qed.

Lemma to_multiline_nonempty v s : to_multiline v s <> [].
Proof. unfold to_multiline. destruct s; discriminate. Qed.

(* AppendEntry: one contiguous block at the record's end; nothing else *)
Theorem append_entry_shape r new r' : append_entry r new = ROk r' ->
  exists pre post, rc_lines r = pre ++ post /\ zlen pre = rc_last r /\
    r' = with_lines r (give_ending_to_last (sp_val (st_eol (rc_style r))) pre
                       ++ map (mk_inserted (rc_style r)) (to_multiline [] new) ++ post).
Proof.
  unfold append_entry. intros H. apply lift_lines_ok in H as (ls & H & ->).
  apply insert_splice in H as (pre & post & E & Hl & ->). exists pre, post. auto.
Qed.

Theorem append_entry_minimal r new r' : append_entry r new = ROk r' -> medit 0 1 (rc_lines r) (rc_lines r').
Proof.
  unfold append_entry. intros H. apply lift_lines_ok in H as (ls & H & ->). cbn [with_lines rc_lines].
  exact (medit_of_insert _ _ _ _ _ H (to_multiline_nonempty _ _)).
Qed.

(* StartOpenRange: the same, the inserted entry being the open range in the record's style *)
Theorem start_open_range_shape r start fmt summary r' : start_open_range r start fmt summary = ROk r' ->
  find_open_index (rc_record r) = -1 /\
  exists st, match apply_reformat fmt (time_format_of (rc_style r)) with
             | None => Ok start
             | Some f => parse_time (print_time (set_time_format start f))
             end = Ok st /\
  let o := {| o_start := st; o_spaces := sp_val (st_spaces (rc_style r)); o_extra := sp_val (st_extra (rc_style r)) |} in
  exists pre post, rc_lines r = pre ++ post /\ zlen pre = rc_last r /\
    r' = with_lines r (give_ending_to_last (sp_val (st_eol (rc_style r))) pre
                       ++ map (mk_inserted (rc_style r)) (to_multiline (print_open_range o) summary) ++ post).
Proof.
  unfold start_open_range. destruct (find_open_index (rc_record r) =? -1) eqn:E; [|discriminate]. cbn [negb].
  intros H. split; [lia|].
  destruct (match apply_reformat fmt (time_format_of (rc_style r)) with None => Ok start | Some f => _ end) as [st| |];
    [|discriminate|discriminate].
  exists st. split; [reflexivity|]. cbn zeta.
  apply lift_lines_ok in H as (ls & H & ->).
  apply insert_splice in H as (pre & post & E2 & Hl & ->). exists pre, post. auto.
Qed.

Theorem start_open_range_minimal r start fmt summary r' : start_open_range r start fmt summary = ROk r' ->
  medit 0 1 (rc_lines r) (rc_lines r').
Proof.
  intros H. apply start_open_range_shape in H as (_ & st & _ & pre & post & -> & _ & ->). cbn [with_lines rc_lines].
  apply edit_insertion. pose proof (to_multiline_nonempty (print_open_range {| o_start := st; o_spaces := sp_val (st_spaces (rc_style r)); o_extra := sp_val (st_extra (rc_style r)) |}) summary) as Hn.
  destruct (to_multiline _ summary); [contradiction|discriminate].
Qed.

(* concatenateSummary: text appended to one line (the entry's last), further lines inserted directly after it *)
Definition sep_for (a0 : bytes) : bytes := match a0 with [] => [] | _ => [32%N] end.

Theorem concatenate_summary_shape r ei el add r' : concatenate_summary r ei el add = ROk r' ->
  exists e, nth_error (rec_entries (rc_record r)) (Z.to_nat ei) = Some e /\
  let last_line := el + zlen (e_summary e) - 1 in
  match add with
  | [] => r' = r
  | a0 :: more =>
    exists pre l post, rc_lines r = pre ++ l :: post /\ zlen pre = last_line /\
    let l' := {| l_text := l_text l ++ sep_for a0 ++ a0; l_ending := l_ending l |} in
    match more with
    | [] => r' = with_lines r (pre ++ l' :: post)
    | _ => r' = with_lines r ((pre ++ [gain (sp_val (st_eol (rc_style r))) l'])
                               ++ map (mk_inserted (rc_style r)) (map (fun s => (s, 2%nat)) more) ++ post)
    end
  end.
Proof.
  unfold concatenate_summary. destruct (nth_error (rec_entries (rc_record r)) (Z.to_nat ei)) as [e|]; [|discriminate].
  intros H. exists e. split; [reflexivity|]. cbn zeta.
  destruct add as [|a0 more]; [injection H as <-; reflexivity|].
  destruct (update_line (rc_lines r) (el + zlen (e_summary e) - 1) _) as [ls| |] eqn:U; [|discriminate|discriminate].
  apply update_line_spec in U as (pre & l & post & E & Hl & ->).
  exists pre, l, post. split; [exact E|]. split; [exact Hl|]. cbn zeta. fold (sep_for a0).
  destruct more as [|a1 more]; [injection H as <-; reflexivity|].
  apply lift_lines_ok in H as (ls & H & ->). f_equal.
  apply insert_inv in H as [Hi ->].
  assert (Hn : Z.to_nat (el + zlen (e_summary e) - 1 + 1) = S (length pre)) by (unfold zlen in *; lia).
  rewrite Hn.
  match goal with |- context [pre ++ ?x :: post] => set (l1 := x) end.
  destruct (firstn_skipn_succ pre l1 post) as [-> ->]. rewrite give_ending_snoc. reflexivity.
Qed.

Theorem concatenate_summary_minimal r ei el add r' : concatenate_summary r ei el add = ROk r' ->
  medit 1 1 (rc_lines r) (rc_lines r').
Proof.
  unfold concatenate_summary. destruct (nth_error (rec_entries (rc_record r)) (Z.to_nat ei)) as [e|]; [|discriminate].
  destruct add as [|a0 more]; [intros [= <-]; apply (edit_weaken _ 0 0); [apply edit_refl|lia|lia]|].
  destruct (update_line (rc_lines r) _ _) as [ls| |] eqn:U; [|discriminate|discriminate].
  assert (M1 : medit 1 0 (rc_lines r) ls).
  { apply (medit_of_update _ _ _ _ U). intros t. apply rws_one. apply rw_append. }
  destruct more as [|a1 more].
  - intros [= <-]. cbn [with_lines rc_lines]. apply (edit_weaken _ 1 0); [exact M1|lia|lia].
  - intros H. apply lift_lines_ok in H as (ls' & H & ->). cbn [with_lines rc_lines].
    apply (medit_trans 1 0 0 1 _ _ _ M1). apply (medit_of_insert _ _ _ _ _ H). discriminate.
Qed.

(* CloseOpenRange: the placeholder on the value line, then concatenateSummary *)
Definition end_text_of (r : reconciler) (end_ : time) (fmt : reformat bool) : bytes :=
  match apply_reformat fmt (time_format_of (rc_style r)) with
  | None => print_time end_
  | Some f => print_time (set_time_format end_ f)
  end.

Theorem close_open_range_shape r end_ fmt add r' : close_open_range r end_ fmt add = ROk r' ->
  let oi := find_open_index (rc_record r) in
  oi <> -1 /\
  exists es', end_first_open (rec_entries (rc_record r)) end_ = Some (Some es') /\
  let value_line := rc_last r - count_lines (skipn (Z.to_nat oi) es') in
  exists pre l post, rc_lines r = pre ++ l :: post /\ zlen pre = value_line /\
  let l1 := {| l_text := replace_placeholder (l_text l) (end_text_of r end_ fmt); l_ending := l_ending l |} in
  let r1 := with_lines (with_record r (set_entries (rc_record r) es')) (pre ++ l1 :: post) in
  concatenate_summary r1 oi value_line add = ROk r'.
Proof.
  unfold close_open_range. cbn zeta. destruct (find_open_index (rc_record r) =? -1) eqn:E; [discriminate|].
  intros H. split; [lia|].
  destruct (end_first_open (rec_entries (rc_record r)) end_) as [[es'|]|]; [|discriminate|discriminate].
  exists es'. split; [reflexivity|]. fold (end_text_of r end_ fmt) in H.
  destruct (update_line _ _ _) as [ls| |] eqn:U; [|discriminate|discriminate].
  cbn [with_record rc_lines] in U. apply update_line_spec in U as (pre & l & post & El & Hl & ->).
  exists pre, l, post. split; [exact El|]. split; [exact Hl|]. exact H.
Qed.

Theorem close_open_range_minimal r end_ fmt add r' : close_open_range r end_ fmt add = ROk r' ->
  medit 2 1 (rc_lines r) (rc_lines r').
Proof.
  intros H. apply close_open_range_shape in H as (_ & es' & _ & pre & l & post & -> & _ & H).
  apply concatenate_summary_minimal in H. cbn [with_lines rc_lines] in H.
  refine (medit_trans 1 0 1 1 _ _ _ _ H). apply edit_update. apply rewrites_placeholder.
Qed.

(* ExtendPause: the value token of one line *)
Theorem extend_pause_shape r inc r' : extend_pause r inc = ROk r' ->
  find_open_index (rc_record r) <> -1 /\
  let pi := find_last_idx is_pause (rec_entries (rc_record r)) 0 (-1) in
  pi <> -1 /\
  exists pe ext, nth_error (rec_entries (rc_record r)) (Z.to_nat pi) = Some pe /\
    dur_plus (entry_minutes pe) inc = Ok ext /\
    (ext = 0 -> r' = r) /\
    (ext <> 0 ->
     exists pre l post, rc_lines r = pre ++ l :: post /\
       zlen pre = rc_last r - count_lines (skipn (Z.to_nat pi) (rec_entries (rc_record r))) /\
       r' = with_lines r (pre ++ {| l_text := replace_value_token (l_text l) (print_duration (mk_dur ext));
                                    l_ending := l_ending l |} :: post)).
Proof.
  unfold extend_pause. destruct (find_open_index (rc_record r) =? -1) eqn:E; [discriminate|].
  cbn zeta. destruct (find_last_idx is_pause (rec_entries (rc_record r)) 0 (-1) =? -1) eqn:E2; [discriminate|].
  intros H. split; [lia|]. split; [lia|].
  destruct (nth_error (rec_entries (rc_record r)) _) as [pe|]; [|discriminate].
  destruct (dur_plus (entry_minutes pe) inc) as [ext| |] eqn:Ed; [|discriminate|discriminate].
  exists pe, ext. split; [reflexivity|]. split; [exact Ed|].
  destruct (ext =? 0) eqn:E3.
  - injection H as <-. split; [reflexivity|]. intros Hne. lia.
  - split; [intros He; lia|]. intros _. apply lift_lines_ok in H as (ls & U & ->).
    apply update_line_spec in U as (pre & l & post & El & Hl & ->). exists pre, l, post. auto.
Qed.

Theorem extend_pause_minimal r inc r' : extend_pause r inc = ROk r' -> medit 1 0 (rc_lines r) (rc_lines r').
Proof.
  intros H. apply extend_pause_shape in H as (_ & _ & pe & ext & _ & _ & H0 & H1).
  destruct (Z.eq_dec ext 0) as [E|E].
  - rewrite (H0 E). apply (edit_weaken _ 0 0); [apply edit_refl|lia|lia].
  - destruct (H1 E) as (pre & l & post & -> & _ & ->). cbn [with_lines rc_lines]. apply edit_update. apply rewrites_token.
Qed.

(* AppendPause is an AppendEntry *)
Theorem append_pause_shape tags_of r summary append_tags r' : append_pause tags_of r summary append_tags = ROk r' ->
  find_open_index (rc_record r) <> -1 /\ exists new, append_entry r new = ROk r'.
Proof.
  unfold append_pause. cbn zeta. destruct (find_open_index (rc_record r) =? -1) eqn:E; [discriminate|].
  intros H. split; [lia|]. eexists. exact H.
Qed.

Theorem append_pause_minimal tags_of r summary append_tags r' : append_pause tags_of r summary append_tags = ROk r' ->
  medit 0 1 (rc_lines r) (rc_lines r').
Proof. intros H. apply append_pause_shape in H as (_ & new & H). exact (append_entry_minimal _ _ _ H). Qed.

(* the creators: an existing record's reconciler starts from the file's lines as they are; a new record is one
   contiguous block (with its separating blank line) *)
Theorem at_record_lines d rs bs rc : reconciler_at_record d rs bs = Some rc -> rc_lines rc = flatten_blocks bs.
Proof. intros H. apply reconciler_at_record_style in H as (i & r & b & _ & _ & _ & _ & H & _). exact H. Qed.

Theorem new_record_minimal d fmt should summary rs bs rc : reconciler_for_new_record d fmt should summary rs bs = Ok rc ->
  medit 0 1 (flatten_blocks bs) (rc_lines rc).
Proof.
  unfold reconciler_for_new_record. cbn zeta.
  set (st := elect default_style rs bs).
  destruct rs as [|r0 rs'].
  - destruct (insert st 0 _ (flatten_blocks bs)) as [ls| |] eqn:I; cbn [bind]; [|discriminate|discriminate].
    intros [= <-]. cbn [rc_lines]. apply (medit_of_insert _ _ _ _ _ I). discriminate.
  - destruct (negb (cdate_geb (dt d) (dt (rec_date r0)))).
    + destruct (insert st 0 _ (flatten_blocks bs)) as [ls| |] eqn:I; cbn [bind]; [|discriminate|discriminate].
      intros [= <-]. cbn [rc_lines]. apply (medit_of_insert _ _ _ _ _ I). discriminate.
    + destruct (nth_error bs _) as [b|]; [|discriminate].
      destruct (insert st (index_of_last_significant b) _ (flatten_blocks bs)) as [ls| |] eqn:I; cbn [bind]; [|discriminate|discriminate].
      intros [= <-]. cbn [rc_lines]. apply (medit_of_insert _ _ _ _ _ I). discriminate.
Qed.
