(* Tags: model definitions (stub, to be filled in). *)
From Klog Require Import Base.Prelude.
