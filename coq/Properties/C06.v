(* C06 — no file content can crash klog: parsing is total.
   Property theorems only; each is closed by [exact <lemma>] and followed by Print Assumptions.
   The model is the parser after the fixes F1, F2, F3, F9, F10 (see Model/Lines.v, Model/Parser.v); every
   panic site of the Go code is an explicit [Crash] of the model, so "never Crash" is "no reachable panic".
   render_errors_total is C10_renderings_total (Properties/C10.v). evaluate_total is proved for the commands
   listed at C06_evaluate_total_partial. *)
From Klog Require Import Base.Prelude Base.Utf8 Model.Record Model.Lines Model.Parser Proofs.Lines Proofs.Parser.
From Klog Require Import Model.Calendar Model.Eval Model.Tags Model.Report Proofs.Eval Proofs.Report Proofs.ParserEval.
Open Scope nat_scope.

(* lines[0] of a block always exists: parse() does not panic on any block the splitter produces *)
Theorem C06_parse_record_no_crash : forall (ls : list line) (b : block),
  In b (blocks_of_lines ls) -> forall c, parse_record b <> Crash c.
Proof. exact parse_record_no_crash. Qed.
Print Assumptions C06_parse_record_no_crash.

(* for EVERY byte string the parser returns either records, one block per record (all blocks of the text),
   and no errors — or no records and at least one error *)
Theorem C06_parse_text_total : forall s : bytes,
  (exists rs bs, parse_text s = Ok (Parsed rs bs) /\ length rs = length bs /\ bs = blocks_of s) \/
  (exists es, parse_text s = Ok (Failed es) /\ es <> []).
Proof. exact parse_text_total. Qed.
Print Assumptions C06_parse_text_total.

(* in particular: never a panic, never a bare error *)
Theorem C06_parse_text_never_crashes : forall s : bytes,
  (forall c, parse_text s <> Crash c) /\ (forall e, parse_text s <> Err e).
Proof. exact parse_text_never_crashes. Qed.
Print Assumptions C06_parse_text_never_crashes.

(* what is returned: the i-th record is what parse() makes of the i-th block of the text; the errors are those
   of the faulty blocks, in block order, with the block's line offset added *)
Theorem C06_parse_text_blockwise : forall s : bytes,
  (forall rs bs, parse_text s = Ok (Parsed rs bs) ->
     bs = blocks_of s /\ Forall2 (fun r b => parse_record b = Ok (inl r)) rs bs) /\
  (forall es, parse_text s = Ok (Failed es) ->
     es = flat_map (fun b => match parse_record b with Ok (inr errs) => map (Parser.report b) errs | _ => [] end)
                   (blocks_of s)).
Proof. exact parse_text_blockwise. Qed.
Print Assumptions C06_parse_text_blockwise.

(* ---- evaluation of what the parser returned ---- *)

(* the three evaluation functions return exactly under their int64 guards (Proofs/Eval.v: every summand and every
   partial sum, in the order of the file, within +-(2^63-1)); otherwise they panic with "integer overflow" *)
Theorem C06_evaluate_guards_exact : forall rs : list record,
  ((exists t, total rs = Ok t) <-> no_overflow rs) /\
  ((exists sh, should_total_sum rs = Ok sh) <-> should_no_overflow rs) /\
  (forall sh t, (exists d, diff sh t = Ok d) <-> (fits t /\ fits sh /\ fits (t - sh)%Z)).
Proof. exact evaluate_guards_exact. Qed.
Print Assumptions C06_evaluate_guards_exact.

(* for every text the parser accepts, no modelled read-only command panics as long as
   gsize rs = (sum of |minutes| over all entries) + (sum of |should-total| over all records) fits an int64.
   Covered (model, Go): service.Total / ShouldTotalSum / Diff (Model/Eval.v); `klog total --diff`, `klog report
   --aggregate day|week|month|quarter|year [--fill] [--diff]`, `klog print --with-totals`, `klog today`
   (Model/Report.v; `today` needs 1439 minutes of head room for the end-time forecast); `klog tags`
   (Model/Tags.v go_aggregate_o). `klog print` (Model/Serialiser.v print_records : list record -> bytes) has no
   panic site at all: it is a total function by construction, there is nothing to prove.
   PARTIAL — not covered: the --now variants (closing open ranges can fail; C02_close_first_day_refuted),
   filters and --period arguments (C13/C15), `klog json` (Model/JsonView.v has no no-crash lemma yet),
   the terminal layout of the tables. *)
Theorem C06_evaluate_total_partial : forall (s : bytes) (rs : list record) (bs : list block),
  parse_text s = Ok (Parsed rs bs) -> (gsize rs <= max_int64)%Z ->
  (total rs = Ok (spec_total rs) /\ should_total_sum rs = Ok (spec_should rs) /\
   diff (spec_should rs) (spec_total rs) = Ok (spec_total rs - spec_should rs)%Z) /\
  (forall today h m, exists v, total_cmd false today h m rs = Ok v) /\
  (forall a fill df today h m, exists v, report_cmd a fill df false today h m rs = Ok v) /\
  (exists v, with_totals rs = Ok v) /\
  (exists v, go_aggregate_o rs = Ok v) /\
  (forall today yesterday h m, valid_clock h m -> plus_days today (-1) = Ok yesterday ->
     (gsize rs + 1439 <= max_int64)%Z -> exists v, today_cmd false today h m rs = Ok v).
Proof. exact evaluate_total. Qed.
Print Assumptions C06_evaluate_total_partial.

(* K1: without the guard it is false — the parser accepts
   "2020-01-01\n    9223372036854775807m\n    9223372036854775807m" (each entry fits an int64) and
   service.Total, hence `klog total`, panics with an integer overflow *)
Theorem C06_evaluate_total_refuted :
  exists s rs bs, parse_text s = Ok (Parsed rs bs) /\
    Forall fits (map spec_minutes (all_entries rs)) /\
    total rs = Crash CIntegerOverflow /\
    (forall today h m, total_cmd false today h m rs = Crash CIntegerOverflow).
Proof. exact evaluate_total_refuted. Qed.
Print Assumptions C06_evaluate_total_refuted.

(* non-vacuity of the guard: example_text parses to records of 60 minutes in total, gsize = 60 *)
Example C06_evaluate_nonvacuous :
  exists rs bs, parse_text example_text = Ok (Parsed rs bs) /\ gsize rs = 60%Z /\ total rs = Ok 60%Z.
Proof. eexists _, _. split; [vm_compute; reflexivity|]. split; vm_compute; reflexivity. Qed.

(* non-vacuity: both alternatives occur — example_text (invalid UTF-8, CRLF, lone CR, no final newline)
   parses to 2 records with 2 blocks, example_faulty to 5 errors *)
Example C06_nonvacuous :
  (exists rs bs, parse_text example_text = Ok (Parsed rs bs) /\ length rs = 2 /\ length bs = 2) /\
  (exists es, parse_text example_faulty = Ok (Failed es) /\ length es = 5).
Proof. split; [eexists _, _|eexists]; vm_compute; repeat split. Qed.
