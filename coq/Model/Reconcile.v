(* Reconcile: klog/parser/reconciling/* — style detection and election, the text reconciler and its
   operations. Definitions only.
   Models the code after the fixes F4 (deterministic tie-break of the style election: first voter wins),
   F5 (indentation and line ending are read off the record's significant lines only) and
   F7 (ExtendPause rewrites the entry's value token, nothing else). *)
From Klog Require Import Base.Prelude Base.Utf8 Model.Calendar Model.Values Model.Record Model.Lines Model.Parser.
Open Scope Z_scope.

(* ---------------- style ---------------- *)
Record sprop (A : Type) := { sp_val : A; sp_explicit : bool }.
Arguments sp_val {A}. Arguments sp_explicit {A}.
Definition sset {A} (v : A) : sprop A := {| sp_val := v; sp_explicit := true |}.
Definition sdef {A} (v : A) : sprop A := {| sp_val := v; sp_explicit := false |}.

Record style := {
  st_eol : sprop bytes; st_indent : sprop bytes; st_dashes : sprop bool;
  st_24h : sprop bool; st_spaces : sprop bool; st_extra : sprop nat }.

Definition default_style : style :=
  {| st_eol := sdef [10%N]; st_indent := sdef [32; 32; 32; 32]%N; st_dashes := sdef true;
     st_24h := sdef true; st_spaces := sdef true; st_extra := sdef O |}.

(* the last range / open range of the record decides the entry-related facts *)
Fixpoint entry_style (es : list entry) (c24 : sprop bool) (spc : sprop bool) (ext : sprop nat)
  : sprop bool * sprop bool * sprop nat :=
  match es with
  | [] => (c24, spc, ext)
  | e :: r =>
    match e_value e with
    | VRange rg => entry_style r (sset (t_24h (r_start rg))) (sset (r_spaces rg)) ext
    | VOpen o => entry_style r (sset (t_24h (o_start o))) (sset (o_spaces o)) (sset (o_extra o))
    | VDuration _ => entry_style r c24 spc ext
    end
  end.

Definition first_some_indent (ls : list line) : option bytes :=
  match filter (fun l => match find_indentation (original l) with Some _ => true | None => false end) ls with
  | l :: _ => find_indentation (original l)
  | [] => None
  end.

(* determine(record, block) *)
Definition determine (r : record) (b : block) : style :=
  let '(c24, spc, ext) := entry_style (rec_entries r) (st_24h default_style) (st_spaces default_style) (st_extra default_style) in
  let '(sig, _, _) := significant_lines b in
  {| st_eol := match sig with
               | l :: _ => match l_ending l with [] => st_eol default_style | e => sset e end
               | [] => st_eol default_style
               end;
     st_indent := match first_some_indent sig with Some i => sset i | None => st_indent default_style end;
     st_dashes := sset (dt_dashes (rec_date r));
     st_24h := c24; st_spaces := spc; st_extra := ext |}.

(* election: votes in casting order; the most voted value wins, ties go to the value that was voted for first *)
Section Election.
  Context {A : Type} (eqb : A -> A -> bool).
  Definition count_votes (v : A) (votes : list A) : nat := length (filter (eqb v) votes).
  Fixpoint tally_loop (cands : list A) (votes : list A) (best : A) (max : nat) : A :=
    match cands with
    | [] => best
    | c :: r => let n := count_votes c votes in
                if Nat.ltb max n then tally_loop r votes c n else tally_loop r votes best max
    end.
  Definition tally_up (votes : list A) (default : A) : A := tally_loop votes votes default O.
  Definition ascertain (votes : list A) (base : sprop A) : sprop A :=
    if sp_explicit base then base else sset (tally_up votes (sp_val base)).
  Definition votes_of (ps : list (sprop A)) : list A :=
    flat_map (fun p => if sp_explicit p then [sp_val p] else []) ps.
End Election.

Definition elect (base : style) (rs : list record) (bs : list block) : style :=
  let ss := map (fun rb => determine (fst rb) (snd rb)) (combine rs bs) in
  {| st_eol := ascertain bytes_eqb (votes_of (map st_eol ss)) (st_eol base);
     st_indent := ascertain bytes_eqb (votes_of (map st_indent ss)) (st_indent base);
     st_dashes := ascertain Bool.eqb (votes_of (map st_dashes ss)) (st_dashes base);
     st_24h := ascertain Bool.eqb (votes_of (map st_24h ss)) (st_24h base);
     st_spaces := ascertain Bool.eqb (votes_of (map st_spaces ss)) (st_spaces base);
     st_extra := ascertain Nat.eqb (votes_of (map st_extra ss)) (st_extra base) |}.

(* ReformatDirective *)
Inductive reformat (A : Type) := NoReformat | ReformatExplicitly (v : A) | ReformatAuto.
Arguments NoReformat {A}. Arguments ReformatExplicitly {A} v. Arguments ReformatAuto {A}.
Definition apply_reformat {A} (d : reformat A) (auto : A) : option A :=
  match d with NoReformat => None | ReformatExplicitly v => Some v | ReformatAuto => Some auto end.

(* ---------------- reconciler ---------------- *)
Record reconciler := {
  rc_record : record; rc_style : style; rc_last : Z; rc_lines : list line; rc_pointer : nat }.

Definition with_lines (r : reconciler) (ls : list line) : reconciler :=
  {| rc_record := rc_record r; rc_style := rc_style r; rc_last := rc_last r; rc_lines := ls; rc_pointer := rc_pointer r |}.
Definition with_record (r : reconciler) (rec : record) : reconciler :=
  {| rc_record := rec; rc_style := rc_style r; rc_last := rc_last r; rc_lines := rc_lines r; rc_pointer := rc_pointer r |}.

(* insertableText: (text, indentation level) *)
Definition itext := (bytes * nat)%type.

Definition mk_inserted (st : style) (t : itext) : line :=
  new_line (repeat_bytes (sp_val (st_indent st)) (snd t) ++ fst t ++ sp_val (st_eol st)).

Fixpoint give_ending_to_last (eol : bytes) (ls : list line) : list line :=
  match ls with
  | [] => []
  | [l] => [match l_ending l with [] => {| l_text := l_text l; l_ending := eol |} | _ => l end]
  | l :: r => l :: give_ending_to_last eol r
  end.

(* Reconciler.insert: an index outside [0, len] is an index-out-of-range panic *)
Definition insert (st : style) (idx : Z) (texts : list itext) (ls : list line) : outcome (list line) :=
  if (idx <? 0) || (zlen ls <? idx) then Crash CIndexOutOfRange else
  let i := Z.to_nat idx in
  Ok (give_ending_to_last (sp_val (st_eol st)) (firstn i ls) ++ map (mk_inserted st) texts ++ skipn i ls).

(* toMultilineEntryTexts *)
Definition to_multiline (value : bytes) (summary : list bytes) : list itext :=
  match summary with
  | [] => [(value, 1%nat)]
  | s0 :: more =>
    ((value ++ (match value, s0 with _ :: _, _ :: _ => [32%N] | _, _ => [] end) ++ s0), 1%nat)
    :: map (fun s => (s, 2%nat)) more
  end.

(* countLines *)
Definition count_lines (es : list entry) : Z := fold_left (fun a e => a + zlen (e_summary e)) es 0.

(* findLastEntry: index of the last entry satisfying p, or -1 *)
Fixpoint find_last_idx (p : entry -> bool) (es : list entry) (i : Z) (cand : Z) : Z :=
  match es with
  | [] => cand
  | e :: r => find_last_idx p r (i + 1) (if p e then i else cand)
  end.
Definition find_open_index (r : record) : Z := find_last_idx is_open (rec_entries r) 0 (-1).

Inductive rerror :=
| RAlreadyOpen | RNoOpenRange | RChronological | RNoOpenForPause | RNoPause
| RSummaryConflict | RResumeConflict | RNoSuchEntry.

(* operations return Ok (new reconciler), a logical error, or a crash *)
Inductive rresult := ROk (r : reconciler) | RErr (e : rerror) | RCrash.

Definition lift_lines (r : reconciler) (o : outcome (list line)) : rresult :=
  match o with Ok ls => ROk (with_lines r ls) | _ => RCrash end.

(* AppendEntry *)
Definition append_entry (r : reconciler) (new_entry : list bytes) : rresult :=
  lift_lines r (insert (rc_style r) (rc_last r) (to_multiline [] new_entry) (rc_lines r)).

Definition time_format_of (st : style) : bool := sp_val (st_24h st).

Definition set_time_format (t : time) (f : bool) : time :=
  {| t_hour := t_hour t; t_min := t_min t; t_shift := t_shift t; t_24h := f |}.

(* StartOpenRange *)
Definition start_open_range (r : reconciler) (start : time) (fmt : reformat bool) (summary : list bytes) : rresult :=
  if negb (find_open_index (rc_record r) =? -1) then RErr RAlreadyOpen else
  let start' :=
    match apply_reformat fmt (time_format_of (rc_style r)) with
    | None => Ok start
    | Some f => parse_time (print_time (set_time_format start f))     (* re-parsed; a failure is a panic *)
    end in
  match start' with
  | Ok st =>
    let o := {| o_start := st; o_spaces := sp_val (st_spaces (rc_style r)); o_extra := sp_val (st_extra (rc_style r)) |} in
    lift_lines r (insert (rc_style r) (rc_last r) (to_multiline (print_open_range o) summary) (rc_lines r))
  | _ => RCrash
  end.

(* replace the leftmost run of question marks by [repl] (the Go code uses a lazy-prefix regexp) *)
Fixpoint replace_placeholder (s : bytes) (repl : bytes) : bytes :=
  match s with
  | [] => []
  | c :: r =>
    if (c =? ch_q)%N then repl ++ snd (span (fun x => (x =? ch_q)%N) r)
    else c :: replace_placeholder r repl
  end.

Definition update_line (ls : list line) (i : Z) (f : bytes -> bytes) : outcome (list line) :=
  if (i <? 0) || (zlen ls <=? i) then Crash CIndexOutOfRange else
  let n := Z.to_nat i in
  Ok (firstn n ls ++ match skipn n ls with
                     | l :: r => {| l_text := f (l_text l); l_ending := l_ending l |} :: r
                     | [] => []
                     end).

(* Record.EndOpenRange on the first open range *)
Fixpoint end_first_open (es : list entry) (end_ : time) : option (option (list entry)) :=
  (* None: no open range; Some None: start/end not chronological; Some (Some es'): closed *)
  match es with
  | [] => None
  | e :: r =>
    match e_value e with
    | VOpen o =>
      match new_range (o_start o) end_ true with
      | Ok rg => Some (Some ({| e_value := VRange rg; e_summary := e_summary e |} :: r))
      | _ => Some None
      end
    | _ => match end_first_open r end_ with
           | Some (Some r') => Some (Some (e :: r'))
           | x => x
           end
    end
  end.

Definition set_entries (rec : record) (es : list entry) : record :=
  {| rec_date := rec_date rec; rec_should := rec_should rec; rec_summary := rec_summary rec; rec_entries := es |}.

(* concatenateSummary *)
Definition concatenate_summary (r : reconciler) (entry_index : Z) (entry_line : Z) (add : list bytes) : rresult :=
  match nth_error (rec_entries (rc_record r)) (Z.to_nat entry_index) with
  | None => RCrash
  | Some e =>
    let last_line := entry_line + zlen (e_summary e) - 1 in
    match add with
    | [] => ROk r
    | a0 :: more =>
      match update_line (rc_lines r) last_line (fun t => t ++ (match a0 with [] => [] | _ => [32%N] end) ++ a0) with
      | Ok ls =>
        match more with
        | [] => ROk (with_lines r ls)
        | _ => lift_lines r (insert (rc_style r) (last_line + 1) (map (fun s => (s, 2%nat)) more) ls)
        end
      | _ => RCrash
      end
    end
  end.

(* CloseOpenRange *)
Definition close_open_range (r : reconciler) (end_ : time) (fmt : reformat bool) (add : list bytes) : rresult :=
  let oi := find_open_index (rc_record r) in
  if oi =? -1 then RErr RNoOpenRange else
  match end_first_open (rec_entries (rc_record r)) end_ with
  | Some (Some es') =>
    let r1 := with_record r (set_entries (rc_record r) es') in
    let value_line := rc_last r - count_lines (skipn (Z.to_nat oi) es') in
    let end_text :=
      match apply_reformat fmt (time_format_of (rc_style r)) with
      | None => print_time end_
      | Some f => print_time (set_time_format end_ f)
      end in
    match update_line (rc_lines r1) value_line (fun t => replace_placeholder t end_text) with
    | Ok ls => concatenate_summary (with_lines r1 ls) oi value_line add
    | _ => RCrash
    end
  | _ => RErr RChronological
  end.

(* ---- pauses ---- *)
(* tags of a summary as printed by Tag.ToString, in original order: supplied by the tag model *)
Definition tags_printer := list bytes -> list bytes.

Definition summary_append (s : list bytes) (text : bytes) : list bytes :=
  match s with
  | [] => [text]
  | _ => removelast s ++ [last s [] ++ (match last s [] with [] => [] | _ => [32%N] end) ++ text]
  end.

(* AppendPause *)
Definition append_pause (tags_of : tags_printer) (r : reconciler) (summary : list bytes) (append_tags : bool) : rresult :=
  let oi := find_open_index (rc_record r) in
  if oi =? -1 then RErr RNoOpenForPause else
  let summary := match summary with [] => [[]] | _ => summary end in
  let s0 := hd [] summary in
  let value := b!"-0m" ++ (match s0 with [] => [] | _ => [32%N] end) in
  let summary := (value ++ s0) :: tl summary in
  let summary :=
    if append_tags then
      match nth_error (rec_entries (rc_record r)) (Z.to_nat oi) with
      | Some oe => summary_append summary (join [32%N] (tags_of (e_summary oe)))
      | None => summary
      end
    else summary in
  append_entry r summary.

Definition is_pause (e : entry) : bool :=
  match e_value e with VDuration d => d_mins d <=? 0 | _ => false end.

(* the value token of an entry line: from the end of the leading blanks to the next blank *)
Definition replace_value_token (line : bytes) (repl : bytes) : bytes :=
  let '(lead, rest) := span (fun c => (c =? 32)%N || (c =? 9)%N) line in
  let '(_, after) := span (fun c => negb ((c =? 32)%N || (c =? 9)%N)) rest in
  lead ++ repl ++ after.

(* ExtendPause(increment in minutes) *)
Definition extend_pause (r : reconciler) (increment : Z) : rresult :=
  if find_open_index (rc_record r) =? -1 then RErr RNoOpenForPause else
  let pi := find_last_idx is_pause (rec_entries (rc_record r)) 0 (-1) in
  if pi =? -1 then RErr RNoPause else
  match nth_error (rec_entries (rc_record r)) (Z.to_nat pi) with
  | None => RCrash
  | Some pe =>
    match dur_plus (entry_minutes pe) increment with
    | Ok ext =>
      let line := rc_last r - count_lines (skipn (Z.to_nat pi) (rec_entries (rc_record r))) in
      if ext =? 0 then ROk r
      else lift_lines r (update_line (rc_lines r) line (fun t => replace_value_token t (print_duration (mk_dur ext))))
    | _ => RCrash
    end
  end.

(* ---------------- creators ---------------- *)
Definition index_of_last_significant (b : block) : Z :=
  let '(sig, head, _) := significant_lines b in
  Z.of_nat (overall_line_index b (head + length sig)).

Fixpoint find_record_idx (d : cdate) (rs : list record) (i : nat) : option nat :=
  match rs with
  | [] => None
  | r :: rest => if cdate_eqb (dt (rec_date r)) d then Some i else find_record_idx d rest (S i)
  end.

(* NewReconcilerAtRecord *)
Definition reconciler_at_record (d : cdate) (rs : list record) (bs : list block) : option reconciler :=
  match find_record_idx d rs O with
  | None => None
  | Some i =>
    match nth_error rs i, nth_error bs i with
    | Some r, Some b =>
      Some {| rc_record := r; rc_style := elect (determine r b) rs bs;
              rc_last := index_of_last_significant b; rc_lines := flatten_blocks bs; rc_pointer := i |}
    | _, _ => None
    end
  end.

(* position of a new record dated [d]: (block index to insert after, or None = before the first) *)
Fixpoint new_record_position (d : cdate) (rs : list record) (i : nat) : nat :=
  match rs with
  | [] => i
  | [r] => i
  | r :: ((r2 :: _) as rest) =>
    if cdate_geb d (dt (rec_date r)) && negb (cdate_geb d (dt (rec_date r2))) then i
    else new_record_position d rest (S i)
  end.

(* NewReconcilerForNewRecord; the resulting reconciler or a crash (insert out of range cannot happen) *)
Definition reconciler_for_new_record (d : date) (fmt : reformat bool) (should : option Z) (summary : list bytes)
  (rs : list record) (bs : list block) : outcome reconciler :=
  let rec := {| rec_date := d; rec_should := should; rec_summary := summary; rec_entries := [] |} in
  let st := elect default_style rs bs in
  let date_text :=
    match apply_reformat fmt (sp_val (st_dashes st)) with
    | None => print_date d
    | Some f => print_date {| dt := dt d; dt_dashes := f |}
    end in
  let headline := date_text ++ (match should with
                                | Some m => b!" (" ++ print_duration (mk_dur m) ++ b!"!)"
                                | None => [] end) in
  let record_text : list itext := (headline, O) :: map (fun s => (s, O)) summary in
  let blank : itext := ([], O) in
  let lines := flatten_blocks bs in
  match rs with
  | [] =>
    let* ls := insert st 0 record_text lines in
    Ok {| rc_record := rec; rc_style := st; rc_last := 1; rc_lines := ls; rc_pointer := O |}
  | r0 :: _ =>
    if negb (cdate_geb (dt d) (dt (rec_date r0))) then
      let* ls := insert st 0 (record_text ++ [blank]) lines in
      Ok {| rc_record := rec; rc_style := st; rc_last := 1; rc_lines := ls; rc_pointer := O |}
    else
      let i := new_record_position (dt d) rs O in
      match nth_error bs i with
      | None => Crash CIndexOutOfRange
      | Some b =>
        let at_ := index_of_last_significant b in
        let* ls := insert st at_ (blank :: record_text) lines in
        Ok {| rc_record := rec; rc_style := st; rc_last := at_ + 2; rc_lines := ls; rc_pointer := S i |}
      end
  end.

(* MakeResult: serialise, re-parse as a safeguard *)
Definition make_result (r : reconciler) : option (bytes * list record) :=
  let text := text_of_lines (rc_lines r) in
  match parse_text text with
  | Ok (Parsed rs _) => Some (text, rs)
  | _ => None
  end.
