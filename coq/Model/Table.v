(* Table: model of klog/app/cli/terminalformat/table.go (C18). Definitions only.
   A table is built by NewTable and a sequence of Cell / CellL / CellR / Skip / Fill calls, and printed
   by Collect. Cell lengths are rune counts after StripAllAnsiSequences. *)
From Klog Require Import Base.Prelude Base.Utf8 Model.Styler.
Open Scope nat_scope.

Record cell := mk_cell { c_value : bytes; c_len : nat; c_fill : bool; c_right : bool }.

Record table := mk_table {
  t_cells : list cell;      (* in insertion order *)
  t_cols : nat;             (* numberOfColumns *)
  t_longest : list nat;     (* longestCell, one entry per column *)
  t_cur : nat;              (* currentColumn *)
  t_sep : bytes             (* columnSeparator *)
}.

(* NewTable: panics unless numberOfColumns > 1 *)
Definition new_table (cols : Z) (sep : bytes) : outcome table :=
  if (cols <=? 1)%Z then Crash CExplicitPanic
  else Ok (mk_table [] (Z.to_nat cols) (repeat 0 (Z.to_nat cols)) 0 sep).

(* if c.len > longestCell[i] { longestCell[i] = c.len } *)
Fixpoint bump (i : nat) (v : nat) (l : list nat) : list nat :=
  match l, i with
  | [], _ => []
  | x :: r, O => (if Nat.ltb x v then v else x) :: r
  | x :: r, S k => x :: bump k v r
  end.

(* Table.Cell *)
Definition add_cell (t : table) (text : bytes) (fill right : bool) : table :=
  let c := mk_cell text (vis_len text) fill right in
  mk_table (t_cells t ++ [c]) (t_cols t) (bump (t_cur t) (c_len c) (t_longest t))
           (if Nat.leb (t_cols t) (S (t_cur t)) then 0 else S (t_cur t)) (t_sep t).

Inductive op :=
| OCellL (text : bytes)
| OCellR (text : bytes)
| OSkip (n : Z)
| OFill (text : bytes).

Fixpoint skip_cells (n : nat) (t : table) : table :=
  match n with O => t | S k => skip_cells k (add_cell t [] false false) end.

Definition apply_op (t : table) (o : op) : table :=
  match o with
  | OCellL x => add_cell t x false false
  | OCellR x => add_cell t x false true
  | OSkip n => skip_cells (Z.to_nat n) t
  | OFill x => add_cell t x true false
  end.

Definition build (cols : Z) (sep : bytes) (ops : list op) : outcome table :=
  let* t := new_table cols sep in Ok (fold_left apply_op ops t).

(* what Collect passes to fn for one cell (without separators); strings.Repeat panics on a negative count *)
Definition cell_text (w : nat) (c : cell) : outcome bytes :=
  if c_fill c then Ok (repeat_bytes (c_value c) w)
  else if Nat.ltb w (c_len c) then Crash CNegativeRepeat
  else let pad := repeat 32%N (w - c_len c) in
       Ok (if c_right c then pad ++ c_value c else c_value c ++ pad).

(* the loop of Collect from cell index i on *)
Fixpoint collect_from (cols : nat) (longest : list nat) (sep : bytes) (i : nat) (cs : list cell)
  : outcome bytes :=
  match cs with
  | [] => Ok []
  | c :: r =>
    let col := Nat.modulo i cols in
    let* x := cell_text (nth col longest 0) c in
    let* rest := collect_from cols longest sep (S i) r in
    Ok ((if Nat.ltb 0 i && Nat.eqb col 0 then [10%N] else [])
        ++ (if Nat.ltb 0 col then sep else []) ++ x ++ rest)
  end.

(* Table.Collect, with fn = append to the output *)
Definition collect (t : table) : outcome bytes :=
  let* body := collect_from (t_cols t) (t_longest t) (t_sep t) 0 (t_cells t) in
  Ok (body ++ [10%N]).

(* ---------- the rows of a table (used to state the alignment theorem) ---------- *)

(* cut a list into consecutive rows of n (the last may be shorter); fuel = length l *)
Fixpoint chunk_fuel {A} (fuel n : nat) (l : list A) : list (list A) :=
  match fuel with
  | O => []
  | S k => match l with
           | [] => []
           | _ => firstn n l :: chunk_fuel k n (skipn n l)
           end
  end.
Definition chunk {A} (n : nat) (l : list A) : list (list A) := chunk_fuel (length l) n l.

(* one row: cells joined by the separator, each rendered at its column's width *)
Fixpoint row_text (longest : list nat) (sep : bytes) (col : nat) (cs : list cell) : outcome bytes :=
  match cs with
  | [] => Ok []
  | c :: r =>
    let* x := cell_text (nth col longest 0) c in
    let* rest := row_text longest sep (S col) r in
    Ok ((if Nat.ltb 0 col then sep else []) ++ x ++ rest)
  end.

Fixpoint all_ok {A} (l : list (outcome A)) : outcome (list A) :=
  match l with
  | [] => Ok []
  | x :: r => let* a := x in let* b := all_ok r in Ok (a :: b)
  end.

Definition rows (t : table) : outcome (list bytes) :=
  all_ok (map (row_text (t_longest t) (t_sep t) 0) (chunk (t_cols t) (t_cells t))).

Definition nl : bytes := [10%N].

Fixpoint sum (l : list nat) : nat := match l with [] => 0 | x :: r => x + sum r end.
