(* SpecReject — layer L4 of C01: texts that break a MUST rule are rejected with at least one error and no records.
   Part 1: errors are never dropped (every stage of parse_record only appends to the error list), so an error found
           anywhere in a block makes the block fail; every block of a text has significant lines, so parsing never
           crashes, and the text as a whole fails as soon as one block does.
   Part 2: documents with one line of one record replaced (fault injection), and the fault classes. *)
From Klog Require Import Base.Prelude Base.Utf8 Model.Calendar Model.Values Model.Record Model.Lines Model.Parser
  Proofs.TagsUtf8 Spec.Spec Proofs.SpecValues Proofs.SpecEntry Proofs.SpecRecord Proofs.SpecDoc.
From Coq Require Import ZifyBool.
Open Scope Z_scope.

(* ================= errors are never dropped ================= *)

Definition extends {A} (a b : list A) : Prop := exists x, b = a ++ x.

Lemma extends_refl {A} (a : list A) : extends a a.
Proof. exists []. symmetry. apply app_nil_r. Qed.
Lemma extends_trans {A} (a b c : list A) : extends a b -> extends b c -> extends a c.
Proof. intros [x ->] [y ->]. exists (x ++ y). symmetry. apply app_assoc. Qed.
Lemma extends_snoc {A} (a : list A) e : extends a (a ++ [e]).
Proof. exists [e]. reflexivity. Qed.
Lemma extends_nonempty {A} (a b : list A) : extends a b -> a <> [] -> b <> [].
Proof. intros [x ->] H E. apply app_eq_nil in E as [E _]. congruence. Qed.

Lemma parse_summary_lines_extends ls : forall ln acc errs,
  extends errs (snd (fst (fst (fst (parse_summary_lines ln ls acc errs))))).
Proof.
  induction ls as [|l rest IH]; intros ln acc errs; cbn [parse_summary_lines].
  - apply extends_refl.
  - destruct (find_indentation (l_text l)); [apply extends_refl|].
    destruct (match utf8_decode (l_text l) with [] => true | c :: _ => is_zs c || (c =? 9)%N end).
    + eapply extends_trans; [apply extends_snoc|apply IH].
    + apply IH.
Qed.

Lemma parse_entry_summary_more_rest style : forall ls ln acc,
  (length (snd (fst (parse_entry_summary_more style ln ls acc))) <= length ls)%nat.
Proof.
  induction ls as [|l rest IH]; intros ln acc; cbn [parse_entry_summary_more]; [cbn; lia|].
  destruct (has_prefix (style ++ style) (l_text l)); [|cbn; lia].
  destruct (Nat.eqb (length (skipn (2 * length style) (utf8_decode (l_text l)))) 0 || all_blank_runes (skipn (2 * length style) (utf8_decode (l_text l)))).
  - cbn [fst snd length]. lia.
  - specialize (IH (S ln) (acc ++ [str (skipn (2 * length style) (utf8_decode (l_text l)))])). cbn [length]. lia.
Qed.

Lemma parse_entries_extends fuel : forall style ln ls es errs,
  extends errs (snd (parse_entries fuel style ln ls es errs)).
Proof.
  induction fuel as [|k IH]; intros style ln ls es errs; [apply extends_refl|].
  destruct ls as [|l rest]; [apply extends_refl|].
  rewrite parse_entries_step. cbv zeta.
  destruct (negb (has_prefix style (l_text l)) || is_space_or_tab (peek (utf8_decode (l_text l)) (length style))); [apply extends_snoc|].
  destruct (parse_entry_value ln (utf8_decode (l_text l)) (length style)) as [e|d p|r p|o sp p].
  - eapply extends_trans; [apply extends_snoc|apply IH].
  - destruct (parse_entry_summary_more style (S ln) rest _) as [[[summary serr] rest'] ln'].
    destruct serr; [eapply extends_trans; [apply extends_snoc|apply IH]|apply IH].
  - destruct (parse_entry_summary_more style (S ln) rest _) as [[[summary serr] rest'] ln'].
    destruct serr; [eapply extends_trans; [apply extends_snoc|apply IH]|apply IH].
  - destruct (parse_entry_summary_more style (S ln) rest _) as [[[summary serr] rest'] ln'].
    destruct serr; [eapply extends_trans; [apply extends_snoc|apply IH]|].
    destruct (has_open_entry es); [eapply extends_trans; [apply extends_snoc|apply IH]|apply IH].
Qed.

(* the stages of parse_record, named *)
Definition headline_errs (hr : headline_result) : list perr := match hr with HeadNone e => [e] | HeadRec _ _ es => es end.

Lemma parse_record_shape b hl rest head tail : significant_lines b = (hl :: rest, head, tail) ->
  let errs0 := headline_errs (parse_headline head (utf8_decode (l_text hl))) in
  let '(summary, errs1, style, rest1, ln1) := parse_summary_lines (S head) rest [] errs0 in
  let errs2 := match style with Some st => snd (parse_entries (length rest1) st ln1 rest1 [] errs1) | None => errs1 end in
  (errs2 = [] /\ exists r, parse_record b = Ok (inl r)) \/ (errs2 <> [] /\ parse_record b = Ok (inr errs2)).
Proof.
  intros Hsig. cbv zeta. unfold parse_record. rewrite Hsig.
  destruct (parse_headline head (utf8_decode (l_text hl))) as [e|d s es]; cbn [headline_errs].
  - destruct (parse_summary_lines (S head) rest [] [e]) as [[[[summary errs1] style] rest1] ln1].
    destruct style as [st|].
    + destruct (parse_entries (length rest1) st ln1 rest1 [] errs1) as [entries errs2]. cbn [snd].
      destruct errs2; [left; split; [reflexivity|eexists; reflexivity]|right; split; [discriminate|reflexivity]].
    + destruct errs1; [left; split; [reflexivity|eexists; reflexivity]|right; split; [discriminate|reflexivity]].
  - destruct (parse_summary_lines (S head) rest [] es) as [[[[summary errs1] style] rest1] ln1].
    destruct style as [st|].
    + destruct (parse_entries (length rest1) st ln1 rest1 [] errs1) as [entries errs2]. cbn [snd].
      destruct errs2; [left; split; [reflexivity|eexists; reflexivity]|right; split; [discriminate|reflexivity]].
    + destruct errs1; [left; split; [reflexivity|eexists; reflexivity]|right; split; [discriminate|reflexivity]].
Qed.

(* a block with significant lines never crashes: a record, or a non-empty list of errors *)
Definition block_fails (b : block) : Prop := exists errs, parse_record b = Ok (inr errs) /\ errs <> [].
Definition block_total (b : block) : Prop := (exists r, parse_record b = Ok (inl r)) \/ block_fails b.

Lemma parse_record_total b hl rest head tail : significant_lines b = (hl :: rest, head, tail) -> block_total b.
Proof.
  intros Hsig. pose proof (parse_record_shape b hl rest head tail Hsig) as H. cbv zeta in H.
  destruct (parse_summary_lines (S head) rest [] _) as [[[[summary errs1] style] rest1] ln1].
  destruct H as [[_ H]|[Hne H]]; [left; exact H|right; eexists; split; [exact H|exact Hne]].
Qed.

(* an error in the headline makes the block fail *)
Lemma headline_error_fails b hl rest head tail : significant_lines b = (hl :: rest, head, tail) ->
  headline_errs (parse_headline head (utf8_decode (l_text hl))) <> [] -> block_fails b.
Proof.
  intros Hsig He. pose proof (parse_record_shape b hl rest head tail Hsig) as H. cbv zeta in H.
  pose proof (parse_summary_lines_extends rest (S head) [] (headline_errs (parse_headline head (utf8_decode (l_text hl))))) as X1.
  destruct (parse_summary_lines (S head) rest [] _) as [[[[summary errs1] style] rest1] ln1]. cbn [fst snd] in X1.
  pose proof (extends_nonempty _ _ X1 He) as N1.
  assert (N2 : match style with Some st => snd (parse_entries (length rest1) st ln1 rest1 [] errs1) | None => errs1 end <> []).
  { destruct style as [st|]; [|exact N1]. apply (extends_nonempty errs1); [apply parse_entries_extends|exact N1]. }
  destruct H as [[E _]|[_ H]]; [congruence|]. eexists; split; [exact H|exact N2].
Qed.

(* ================= the document level ================= *)

Lemma parse_blocks_total bs : Forall block_total bs -> forall rs es,
  exists rs' es', parse_blocks bs rs es = Ok (rs', es') /\ extends es es' /\ (Exists block_fails bs -> es' <> []).
Proof.
  induction 1 as [|b bs Hb _ IH]; intros rs es.
  - exists rs, es. split; [reflexivity|]. split; [apply extends_refl|]. intros E. inversion E.
  - cbn [parse_blocks]. destruct Hb as [[r Hr]|(errs & Hr & Hne)]; rewrite Hr.
    + destruct (IH (rs ++ [r]) es) as (rs' & es' & P & X & F). exists rs', es'. split; [exact P|]. split; [exact X|].
      intros E. inversion E as [? ? Hf|? ? Hf]; subst; [|exact (F Hf)].
      destruct Hf as (errs & Hr' & _). congruence.
    + destruct (IH rs (es ++ map (report b) errs)) as (rs' & es' & P & X & F). exists rs', es'. split; [exact P|].
      split; [eapply extends_trans; [|exact X]; eexists; reflexivity|].
      intros _. apply (extends_nonempty (es ++ map (report b) errs)); [exact X|].
      destruct errs; [congruence|]. cbn [map]. intros E. apply app_eq_nil in E as [_ E]. discriminate.
Qed.

(* what the lines of a raw document have to do with its groups *)
Definition raw_group_of (g : group) (tg : list text * list text) : Prop :=
  map l_text (fst g) = map utf8_encode (fst tg) /\ map l_text (snd g) = map utf8_encode (snd tg).

Lemma split_raw_groups tgs : forall L,
  map l_text L = map utf8_encode (flat_map (fun g => fst g ++ snd g) tgs) ->
  exists gs, L = flat_map group_lines gs /\ Forall2 raw_group_of gs tgs.
Proof.
  induction tgs as [|tg tgs IH]; intros L M.
  - destruct L; [|discriminate]. exists []. split; [reflexivity|constructor].
  - cbn [flat_map] in M. rewrite !map_app in M.
    apply map_eq_app in M as (L1 & L2 & -> & M1 & M2).
    apply map_eq_app in M1 as (La & Lb & -> & Ma & Mb).
    destruct (IH L2 M2) as (gs & -> & F).
    exists ((La, Lb) :: gs). split; [reflexivity|]. constructor; [split; assumption|exact F].
Qed.

Lemma nonblank_lines_of_texts ls ts : map l_text ls = map utf8_encode ts ->
  forallb (fun t => negb (blank_text t)) ts = true -> forallb (fun l => negb (is_blank l)) ls = true.
Proof.
  revert ls. induction ts as [|t ts IH]; intros ls M B; destruct ls as [|l ls]; try discriminate; [reflexivity|].
  assert (Ml : l_text l = utf8_encode t) by (cbn [map] in M; congruence).
  assert (Mr : map l_text ls = map utf8_encode ts) by (cbn [map] in M; congruence).
  cbn [forallb] in *. apply andb_true_iff in B as [Bt B]. rewrite (is_blank_of_text l t Ml), Bt. exact (IH ls Mr B).
Qed.

Lemma raw_gaps_ok_cons tg tgs : raw_gaps_ok (tg :: tgs) = true ->
  forallb blank_text (snd tg) = true /\ (tgs = [] \/ snd tg <> []) /\ raw_gaps_ok tgs = true.
Proof.
  destruct tgs as [|tg2 tgs']; cbn [raw_gaps_ok]; intros G.
  - repeat split; [exact G|left; reflexivity].
  - apply andb_true_iff in G as [G G2]. apply andb_true_iff in G as [G N]. repeat split; try assumption.
    right. destruct (snd tg); [discriminate|discriminate].
Qed.

Definition sig_ok (tg : list text * list text) : bool :=
  negb (Nat.eqb (length (fst tg)) 0) && forallb (fun t => negb (blank_text t)) (fst tg).

Lemma raw_groups_ok gs tgs : Forall2 raw_group_of gs tgs ->
  forallb sig_ok tgs = true -> raw_gaps_ok tgs = true -> groups_ok gs = true.
Proof.
  induction 1 as [|g tg gs tgs [Hs Hg] F IH]; intros W G; [reflexivity|].
  cbn [forallb] in W. apply andb_true_iff in W as [Wr W].
  destruct (raw_gaps_ok_cons tg tgs G) as (Gb & Gn & G').
  specialize (IH W G'). unfold sig_ok in Wr. apply andb_true_iff in Wr as [Wne Wnb].
  assert (Hg1 : forall b, (b = true \/ snd g <> []) -> group_ok b g = true).
  { intros b Hb. unfold group_ok.
    rewrite (nonblank_lines_of_texts _ _ Hs Wnb), (blank_lines_of_texts _ _ Hg Gb).
    assert (L : length (fst g) = length (fst tg)) by (rewrite <- (map_length l_text), Hs, map_length; reflexivity).
    rewrite L, Wne. cbn [andb].
    destruct Hb as [-> | Hb]; [reflexivity|]. destruct (snd g); [congruence|]. cbn [length Nat.eqb negb]. apply orb_true_r. }
  destruct gs as [|g2 gs'].
  - cbn [groups_ok]. apply Hg1. left. reflexivity.
  - change (groups_ok (g :: g2 :: gs')) with (group_ok false g && groups_ok (g2 :: gs')). rewrite IH, andb_true_r.
    apply Hg1. right. destruct Gn as [-> | Gn]; [inversion F|].
    intros E. apply Gn. rewrite E in Hg. destruct (snd tg); [reflexivity|discriminate].
Qed.

(* a list of line texts that makes any block holding them as its significant lines fail *)
Definition sig_fails (ts : list text) : Prop :=
  forall b head sig tail, b_lines b = head ++ sig ++ tail ->
  forallb is_blank head = true -> forallb is_blank tail = true ->
  map l_text sig = map utf8_encode ts -> block_fails b.

Lemma significant_lines_group p head g : forallb is_blank head = true -> group_ok true g = true \/ group_ok false g = true ->
  significant_lines {| b_preceding := p; b_lines := head ++ fst g ++ snd g |} = (fst g, length head, length (snd g)).
Proof.
  intros Hh Hg. assert (G : exists b, group_ok b g = true) by (destruct Hg; eexists; eassumption). destruct G as [b0 G].
  apply group_ok_inv in G as (A & B & C & _).
  unfold significant_lines. cbn [b_lines].
  assert (S0 : match fst g ++ snd g with l :: _ => is_blank l = false | [] => True end).
  { destruct (fst g) as [|l r]; [congruence|]. cbn [forallb] in B. apply andb_true_iff in B as [B _]. apply negb_true_iff in B. exact B. }
  rewrite (take_blank_app head _ Hh S0).
  assert (B0 : match snd g with l :: _ => is_blank l = true | [] => True end).
  { destruct (snd g) as [|l r]; [trivial|]. cbn [forallb] in C. apply andb_true_iff in C as [C _]. exact C. }
  rewrite (take_significant_app (fst g) _ B B0). reflexivity.
Qed.

Lemma groups_ok_each gs : groups_ok gs = true -> Forall (fun g => group_ok true g = true \/ group_ok false g = true) gs.
Proof.
  induction gs as [|g gs IH]; intros H; [constructor|]. destruct (groups_ok_cons g gs H) as [Hg Hgs].
  constructor; [destruct gs; [left|right]; exact Hg|apply IH; exact Hgs].
Qed.

Lemma expect_blocks_total gs : groups_ok gs = true -> forall p head, forallb is_blank head = true ->
  Forall block_total (expect_blocks p head gs).
Proof.
  intros H. pose proof (groups_ok_each gs H) as E. clear H. induction E as [|g gs Hg _ IH]; intros p head Hh; [constructor|].
  cbn [expect_blocks]. constructor; [|apply IH; reflexivity].
  pose proof (significant_lines_group p head g Hh Hg) as S0.
  assert (Ne : exists hl rest, fst g = hl :: rest).
  { assert (G : exists b, group_ok b g = true) by (destruct Hg; eexists; eassumption). destruct G as [b0 G].
    apply group_ok_inv in G as (A & _). destruct (fst g) as [|hl rest]; [congruence|]. eexists; eexists; reflexivity. }
  destruct Ne as (hl & rest & Eg). rewrite Eg in S0 at 2. exact (parse_record_total _ _ _ _ _ S0).
Qed.

Lemma expect_blocks_fails gs tgs : Forall2 raw_group_of gs tgs -> groups_ok gs = true ->
  Exists (fun tg => sig_fails (fst tg)) tgs ->
  forall p head, forallb is_blank head = true -> Exists block_fails (expect_blocks p head gs).
Proof.
  intros F. induction F as [|g tg gs tgs [Hs Hg] F IH]; intros H E p head Hh; [inversion E|].
  destruct (groups_ok_cons g gs H) as [Hg1 Hgs]. cbn [expect_blocks].
  inversion E as [? ? Hf|? ? Hf]; subst.
  - apply Exists_cons_hd. apply (Hf {| b_preceding := p; b_lines := head ++ fst g ++ snd g |} head (fst g) (snd g) eq_refl Hh); [|exact Hs].
    apply group_ok_inv in Hg1 as (_ & _ & C & _). exact C.
  - apply Exists_cons_tl. apply IH; [exact Hgs|exact Hf|reflexivity].
Qed.

(* L4, general form: a raw document one of whose record places holds failing lines is rejected, with at least one error
   and no records *)
Theorem reject_raw rd : raw_ok rd = true -> Exists (fun tg => sig_fails (fst tg)) (rd_groups rd) ->
  exists es, parse_text (render_raw rd) = Ok (Failed es) /\ es <> [].
Proof.
  intros W E. unfold raw_ok in W. apply andb_true_iff in W as [W U]. apply andb_true_iff in W as [W G].
  apply andb_true_iff in W as [W Sg]. apply andb_true_iff in W as [Wl T].
  unfold parse_text, blocks_of, render_raw.
  rewrite (lines_of_text_of_lines (raw_doc_lines rd)) by (apply lines_ok_attach; assumption).
  pose proof (map_l_text_attach (rd_crlf rd) (rd_final_newline rd) (raw_texts rd) 0) as M. fold (raw_doc_lines rd) in M.
  unfold raw_texts in M. rewrite map_app in M. apply map_eq_app in M as (Llead & L2 & EL & Ml & M2).
  destruct (split_raw_groups (rd_groups rd) L2 M2) as (gs & -> & F).
  rewrite EL. unfold blocks_of_lines.
  assert (Hlead : forallb is_blank Llead = true) by (apply (blank_lines_of_texts _ _ Ml Wl)).
  pose proof (raw_groups_ok gs _ F Sg G) as Gok.
  rewrite (blocks_fuel_groups gs Gok _ 0 Llead Hlead (le_n _)).
  unfold parse_lines_blocks.
  destruct (parse_blocks_total _ (expect_blocks_total gs Gok 0 Llead Hlead) [] []) as (rs' & es' & P & _ & Fl).
  rewrite P. specialize (Fl (expect_blocks_fails gs _ F Gok E 0 Llead Hlead)).
  destruct es' as [|e es']; [congruence|]. eexists; split; [reflexivity|discriminate].
Qed.

(* ================= fault classes ================= *)

Lemma sig_significant b head sig tail hl_t ts : b_lines b = head ++ sig ++ tail ->
  forallb is_blank head = true -> forallb is_blank tail = true ->
  map l_text sig = map utf8_encode (hl_t :: ts) -> forallb (fun t => negb (blank_text t)) (hl_t :: ts) = true ->
  exists hl rest, sig = hl :: rest /\ l_text hl = utf8_encode hl_t /\ map l_text rest = map utf8_encode ts
                  /\ significant_lines b = (hl :: rest, length head, length tail).
Proof.
  intros Hb Hh Ht M Nb. pose proof (nonblank_lines_of_texts _ _ M Nb) as Hs.
  cbn [map] in M. apply map_eq_cons in M as (hl & rest & -> & Mh & Mr).
  exists hl, rest. repeat split; try assumption.
  assert (Htail : match tail with l :: _ => is_blank l = true | [] => True end).
  { destruct tail; [trivial|]. cbn [forallb] in Ht. apply andb_true_iff in Ht as [Ht _]. exact Ht. }
  assert (Hsig0 : is_blank hl = false).
  { cbn [forallb] in Hs. apply andb_true_iff in Hs as [Hs _]. apply negb_true_iff in Hs. exact Hs. }
  unfold significant_lines. rewrite Hb.
  rewrite (take_blank_app head ((hl :: rest) ++ tail) Hh Hsig0).
  rewrite (take_significant_app (hl :: rest) tail Hs Htail). reflexivity.
Qed.

(* ---- A: the headline does not begin with a date (malformed, or not a Gregorian date) ---- *)

Lemma bad_date_fails dtxt rest others :
  text_ok (dtxt ++ rest) = true ->
  forallb (fun t => negb (blank_text t)) ((dtxt ++ rest) :: others) = true ->
  match dtxt with c :: _ => is_space_or_tab c = false | [] => False end ->
  forallb (fun c => negb (is_space_or_tab c)) dtxt = true ->
  match rest with c :: _ => is_space_or_tab c = true | [] => True end ->
  (forall d, parse_date (utf8_encode dtxt) <> Ok d) ->
  sig_fails ((dtxt ++ rest) :: others).
Proof.
  intros Tok Nb Hd0 Hd Hr Hp b head sig tail Hb Hh Ht M.
  destruct (sig_significant b head sig tail _ _ Hb Hh Ht M Nb) as (hl & rs & -> & Mh & Mr & Sg).
  apply (headline_error_fails b hl rs _ _ Sg). rewrite Mh, (decode_encode _ Tok).
  unfold parse_headline.
  destruct dtxt as [|c0 r0]; [contradiction|].
  rewrite (peek_at_cons ((c0 :: r0) ++ rest) 0 [] c0 (r0 ++ rest) eq_refl eq_refl), Hd0.
  rewrite (peek_until_at is_space_or_tab ((c0 :: r0) ++ rest) 0 [] (c0 :: r0) rest eq_refl eq_refl Hd Hr).
  cbv iota beta. unfold str.
  destruct (parse_date (utf8_encode (c0 :: r0))) as [d| |]; [exfalso; exact (Hp d eq_refl)|discriminate|discriminate].
Qed.

Lemma Exists_replace_nth {A} (P : A -> Prop) l k x y : nth_error l k = Some x -> P y -> Exists P (replace_nth k y l).
Proof.
  revert k. induction l as [|z l IH]; intros k H Py; [destruct k; discriminate|].
  destruct k as [|k]; cbn [replace_nth]; [apply Exists_cons_hd; exact Py|apply Exists_cons_tl, (IH k H Py)].
Qed.

Lemma nth_error_replace_nth {A} (l : list A) k x y : nth_error l k = Some x -> nth_error (replace_nth k y l) k = Some y.
Proof.
  revert k. induction l as [|z l IH]; intros k H; [destruct k; discriminate|].
  destruct k as [|k]; [reflexivity|]. cbn [replace_nth nth_error]. apply IH. exact H.
Qed.

Lemma forallb_nth_error {A} (p : A -> bool) l k x : forallb p l = true -> nth_error l k = Some x -> p x = true.
Proof. intros H E. rewrite forallb_forall in H. apply H. eapply nth_error_In. exact E. Qed.

(* the group that an injection puts in place of record k *)
Lemma inject_group k j t d rg : nth_error (do_records d) k = Some rg ->
  rd_groups (inject_raw k j t d) = replace_nth k (replace_nth j t (record_texts (fst rg)), snd rg)
                                     (map (fun rg => (record_texts (fst rg), snd rg)) (do_records d)).
Proof.
  intros H. unfold inject_raw, raw_of. cbn [rd_groups rd_lead].
  rewrite (map_nth_error (fun rg => (record_texts (fst rg), snd rg)) k (do_records d) H). reflexivity.
Qed.

(* L4, class "malformed or non-Gregorian date": the date of record k's headline is replaced by a text without blanks
   that is no date literal of the specification *)
Theorem reject_bad_date d k rg dtxt :
  nth_error (do_records d) k = Some rg ->
  let t := dtxt ++ skipn 10 (headline_text (fst rg)) in
  raw_ok (inject_raw k 0 t d) = true ->
  match dtxt with c :: _ => is_space_or_tab c = false | [] => False end ->
  forallb (fun c => negb (is_space_or_tab c)) dtxt = true ->
  (forall x, parse_date (utf8_encode dtxt) <> Ok x) ->
  match skipn 10 (headline_text (fst rg)) with c :: _ => is_space_or_tab c = true | [] => True end ->
  exists es, parse_text (inject k 0 t d) = Ok (Failed es) /\ es <> [].
Proof.
  intros Hk t Rok Hd0 Hd Hp Hr. apply (reject_raw _ Rok).
  rewrite (inject_group k 0 t d rg Hk).
  apply (Exists_replace_nth _ _ k (record_texts (fst rg), snd rg)).
  { apply (map_nth_error (fun rg => (record_texts (fst rg), snd rg)) k (do_records d) Hk). }
  cbn [fst]. unfold record_texts. cbn [replace_nth].
  pose proof Rok as Rok'. unfold raw_ok in Rok'. apply andb_true_iff in Rok' as [W _]. apply andb_true_iff in W as [W _].
  apply andb_true_iff in W as [W Sg]. apply andb_true_iff in W as [_ T].
  rewrite (inject_group k 0 t d rg Hk) in Sg.
  pose proof (forallb_nth_error _ _ k _ Sg (nth_error_replace_nth _ k (record_texts (fst rg), snd rg) _
               (map_nth_error (fun rg => (record_texts (fst rg), snd rg)) k (do_records d) Hk))) as Sk.
  cbn [fst] in Sk. apply andb_true_iff in Sk as [_ Nb]. unfold record_texts in Nb. cbn [replace_nth] in Nb.
  assert (Tok : text_ok t = true).
  { unfold raw_texts in T. rewrite forallb_app in T. apply andb_true_iff in T as [_ T].
    rewrite forallb_forall in T. apply T. apply in_flat_map.
    exists (replace_nth 0 t (record_texts (fst rg)), snd rg). split.
    - rewrite (inject_group k 0 t d rg Hk). eapply nth_error_In. apply nth_error_replace_nth with (x := (record_texts (fst rg), snd rg)).
      apply (map_nth_error (fun rg => (record_texts (fst rg), snd rg)) k (do_records d) Hk).
    - cbn [fst snd]. unfold record_texts. cbn [replace_nth]. left. reflexivity. }
  apply bad_date_fails; assumption.
Qed.

(* ---- B: a fault on an entry line; the entries before it parse as usual ---- *)

Lemma no_double_prefix_app ind a b : a <> [] -> no_double_prefix ind a -> no_double_prefix ind (a ++ b).
Proof. destruct a; [congruence|]. intros _ H. exact H. Qed.

Lemma parse_entries_prefix i es : forallb wf_entry es = true ->
  forall fuel ln ls rest acc errs,
  map l_text ls = map utf8_encode (flat_map (entry_texts (indent_text i)) es) ->
  no_double_prefix (indent_text i) rest ->
  (length ls + length rest <= fuel)%nat ->
  (count_open es + (if has_open_entry acc then 1 else 0) <= 1)%nat ->
  exists fuel', (length rest <= fuel')%nat /\
    parse_entries fuel (indent_text i) ln (ls ++ rest) acc errs
    = parse_entries fuel' (indent_text i) (ln + length ls) rest (acc ++ map denote_entry es) errs.
Proof.
  induction es as [|e es IH]; intros W fuel ln ls rest acc errs M R Hf Ho.
  - destruct ls; [|discriminate]. exists fuel. cbn [app length map] in *. rewrite app_nil_r, Nat.add_0_r. split; [lia|reflexivity].
  - cbn [forallb] in W. apply andb_true_iff in W as [We W].
    cbn [flat_map] in M. unfold entry_texts at 1 in M. cbn [app map] in M.
    destruct ls as [|l ls]; [discriminate|]. injection M as Ml M.
    rewrite map_app in M. apply map_eq_app in M as (ls_m & ls_r & -> & Mm & Mr).
    rewrite map_map in Mm.
    destruct fuel as [|k]; [cbn [length] in Hf; lia|].
    rewrite count_open_cons in Ho.
    assert (R' : no_double_prefix (indent_text i) (ls_r ++ rest)).
    { destruct ls_r as [|lr ls_r'] eqn:E; [exact R|]. rewrite <- E in *.
      apply no_double_prefix_app; [rewrite E; discriminate|apply (no_double_prefix_entries i es ls_r W Mr)]. }
    cbn [app]. rewrite <- app_assoc.
    rewrite (entry_step i e We k ln l ls_m (ls_r ++ rest) acc errs Ml Mm R').
    + destruct (IH W k (S ln + length (se_more e))%nat ls_r rest (acc ++ [denote_entry e]) errs Mr R) as (fuel' & Hf' & P).
      * cbn [length] in Hf. rewrite !app_length in Hf. lia.
      * unfold has_open_entry in *. rewrite existsb_app. cbn [existsb]. rewrite is_open_denote, orb_false_r.
        destruct (existsb is_open acc); destruct (is_open_value (se_value e)); cbn [orb] in *; lia.
      * exists fuel'. split; [exact Hf'|]. rewrite P. cbn [map length]. rewrite <- app_assoc. cbn [app].
        assert (Lm : length ls_m = length (se_more e)) by (rewrite <- (map_length l_text), Mm, map_length; reflexivity).
        rewrite app_length, Lm. f_equal. lia.
    + intros Hop. rewrite Hop in Ho. destruct (has_open_entry acc); [lia|reflexivity].
Qed.

(* the good part of a record up to (not including) the entries: what parse_record has computed when it reaches them *)
Lemma record_prefix_errs r b hl rest head tail ls_e : wf_record r = true ->
  significant_lines b = (hl :: rest, head, tail) ->
  l_text hl = utf8_encode (headline_text r) ->
  forall ls_s, rest = ls_s ++ ls_e -> map l_text ls_s = map utf8_encode (sr_summary r) ->
  match ls_e with l :: _ => find_indentation (l_text l) = Some (indent_text (sr_indent r)) | [] => False end ->
  snd (parse_entries (length ls_e) (indent_text (sr_indent r)) (S head + length (sr_summary r)) ls_e [] []) <> [] ->
  block_fails b.
Proof.
  intros W Hsig Mh ls_s -> Ms Hind Herr.
  destruct (wf_record_inv r W) as (W' & H3 & H2 & H1 & H0 & H).
  pose proof (parse_record_shape b hl (ls_s ++ ls_e) head tail Hsig) as Sh. cbv zeta in Sh.
  rewrite Mh, (decode_encode _ (headline_text_ok r W)), (parse_headline_spec head r W' H3 H2) in Sh. cbn [headline_errs] in Sh.
  rewrite (parse_summary_lines_spec (sr_summary r) H1 ls_s (S head) ls_e [] Ms) in Sh.
  destruct ls_e as [|le ls_e']; [contradiction|]. rewrite Hind in Sh.
  destruct Sh as [[E _]|[Hne P]]; [congruence|]. eexists; split; [exact P|exact Hne].
Qed.

(* an entry line on which the parser reports an error *)
Definition entry_line_errs (ind : text) (t : text) : Prop :=
  has_prefix ind (utf8_encode t) = false \/ is_space_or_tab (peek t (length ind)) = true
  \/ forall ln, exists e, parse_entry_value ln t (length ind) = EvErr e.

Lemma bad_entry_line_errs ind t k ln l rest es errs : text_ok t = true -> l_text l = utf8_encode t ->
  entry_line_errs ind t -> snd (parse_entries (S k) ind ln (l :: rest) es errs) <> [].
Proof.
  intros Tok Ml H. rewrite parse_entries_step. cbv zeta. rewrite Ml, (decode_encode _ Tok).
  destruct H as [H|[H|H]].
  - rewrite H. cbn [negb orb snd]. intros E. apply app_eq_nil in E as [_ E]. discriminate.
  - rewrite H, orb_true_r. cbn [snd]. intros E. apply app_eq_nil in E as [_ E]. discriminate.
  - destruct (negb (has_prefix ind (utf8_encode t)) || is_space_or_tab (peek t (length ind))).
    + cbn [snd]. intros E. apply app_eq_nil in E as [_ E]. discriminate.
    + destruct (H ln) as [e ->].
      apply (extends_nonempty (errs ++ [e])); [apply parse_entries_extends|].
      intros E. apply app_eq_nil in E as [_ E]. discriminate.
Qed.

(* L4, block level: record r with the value line of one entry (the one after the entries es1) replaced by the line t *)
Definition line_errs_after (ind : text) (acc : list entry) (t : text) : Prop :=
  forall k ln l rest errs, l_text l = utf8_encode t -> snd (parse_entries (S k) ind ln (l :: rest) acc errs) <> [].

Lemma bad_entry_fails_gen r es1 e es2 t : wf_record r = true -> sr_entries r = es1 ++ e :: es2 ->
  let ind := indent_text (sr_indent r) in
  (exists c x, utf8_encode t = ind ++ c :: x /\ is_space_or_tab c = false) ->     (* indented once: not a continuation line *)
  line_errs_after ind (map denote_entry es1) t ->
  forall others,
  forallb (fun t => negb (blank_text t))
    (headline_text r :: sr_summary r ++ flat_map (entry_texts ind) es1 ++ t :: others) = true ->
  sig_fails (headline_text r :: sr_summary r ++ flat_map (entry_texts ind) es1 ++ t :: others).
Proof.
  intros W Ee ind (c & x & Eb & Hc) Herr others Nb b head sig tail Hb Hh Ht M.
  destruct (sig_significant b head sig tail _ _ Hb Hh Ht M Nb) as (hl & rs & -> & Mh & Mr & Sg).
  destruct (wf_record_inv r W) as (W' & H3 & H2 & H1 & H0 & H).
  rewrite map_app in Mr. apply map_eq_app in Mr as (ls_s & ls_e & -> & Ms & Me).
  rewrite map_app in Me. apply map_eq_app in Me as (ls_g & ls_b & -> & Mg & Mb).
  cbn [map] in Mb. apply map_eq_cons in Mb as (lb & ls_x & -> & Mlb & Mx).
  rewrite Ee, forallb_app in H0. apply andb_true_iff in H0 as [H01 _].
  assert (Ho1 : (count_open es1 <= 1)%nat).
  { rewrite Ee in H. unfold count_open in *. rewrite filter_app, app_length in H. lia. }
  assert (Rb : no_double_prefix ind (lb :: ls_x)).
  { unfold no_double_prefix. rewrite Mlb, Eb, has_prefix_app_same. apply has_prefix_indent_head. exact Hc. }
  apply (record_prefix_errs r b hl _ _ _ (ls_g ++ lb :: ls_x) W Sg Mh ls_s eq_refl Ms).
  - destruct ls_g as [|lg ls_g'].
    + cbn [app]. rewrite Mlb, Eb. apply find_indentation_entry. exact Hc.
    + destruct es1 as [|e1 es1']; [discriminate|]. cbn [flat_map entry_texts app map] in Mg. injection Mg as Mlg _.
      cbn [forallb] in H01. apply andb_true_iff in H01 as [We1 _].
      destruct (entry_line_bytes (sr_indent r) e1 We1) as (c1 & x1 & Eb1 & Hc1).
      cbn [app]. rewrite Mlg.
      change (find_indentation (utf8_encode (indent_text (sr_indent r) ++ render_value (se_value e1) ++ first_tail e1))
              = Some (indent_text (sr_indent r))).
      rewrite Eb1. apply find_indentation_entry. exact Hc1.
  - destruct (parse_entries_prefix (sr_indent r) es1 H01 (length (ls_g ++ lb :: ls_x)) (S (length head) + length (sr_summary r))
                ls_g (lb :: ls_x) [] [] Mg Rb) as (fuel' & Hf' & P).
    + rewrite app_length. lia.
    + cbn [has_open_entry existsb]. lia.
    + rewrite P. destruct fuel' as [|k']; [cbn [length] in Hf'; lia|].
      apply (Herr k' _ lb ls_x [] Mlb).
Qed.

Lemma bad_entry_fails r es1 e es2 t : wf_record r = true -> sr_entries r = es1 ++ e :: es2 ->
  let ind := indent_text (sr_indent r) in
  text_ok t = true ->
  (exists c x, utf8_encode t = ind ++ c :: x /\ is_space_or_tab c = false) ->
  entry_line_errs ind t ->
  forall others,
  forallb (fun t => negb (blank_text t))
    (headline_text r :: sr_summary r ++ flat_map (entry_texts ind) es1 ++ t :: others) = true ->
  sig_fails (headline_text r :: sr_summary r ++ flat_map (entry_texts ind) es1 ++ t :: others).
Proof.
  intros W Ee ind Tok Hshape Herr. apply (bad_entry_fails_gen r es1 e es2 t W Ee Hshape).
  intros k ln l rest errs Ml. apply (bad_entry_line_errs ind t k ln l rest _ errs Tok Ml Herr).
Qed.

(* ---- B1: reversed range ---- *)

Lemma parse_entry_value_reversed ln pre a sp1 sp2 b tail :
  wf_time a = true -> wf_time b = true -> timeline b < timeline a -> tail_ok tail ->
  exists e, parse_entry_value ln (pre ++ render_value (SRange a sp1 sp2 b) ++ tail) (length pre) = EvErr e.
Proof.
  intros Wa Wb Hab T. cbn [render_value].
  pose proof (render_time_plain b Wb) as Pl. pose proof (render_time_shape b Wb) as Sh.
  pose proof (render_time_ascii b Wb) as As. pose proof (time_shape_head _ Sh) as Hd.
  replace (pre ++ (render_time a ++ spaces sp1 ++ [45%N] ++ spaces sp2 ++ render_time b) ++ tail)
    with (pre ++ render_time a ++ spaces sp1 ++ [45%N] ++ spaces sp2 ++ (render_time b ++ tail)) by app_eq.
  rewrite entry_value_range_start; [|exact Wa|destruct (render_time b); [contradiction|apply Hd]].
  cbv zeta.
  set (cs := pre ++ render_time a ++ spaces sp1 ++ [45%N] ++ spaces sp2 ++ render_time b ++ tail).
  set (p3 := (length pre + length (render_time a) + sp1 + 1 + sp2)%nat).
  rewrite (peek_at cs p3 (pre ++ render_time a ++ spaces sp1 ++ [45%N] ++ spaces sp2) (render_time b ++ tail)
             ltac:(unfold cs; app_eq) ltac:(unfold p3, spaces; len_eq)).
  destruct (render_time b) as [|c0 r0] eqn:Erb; [contradiction|]. destruct Hd as (_ & Hq & _).
  cbn [app]. rewrite Hq. rewrite <- Erb in *.
  rewrite (peek_until_at is_space_or_tab cs p3 (pre ++ render_time a ++ spaces sp1 ++ [45%N] ++ spaces sp2) (render_time b) tail
             ltac:(unfold cs; rewrite Erb; app_eq) ltac:(unfold p3, spaces; len_eq)
             (plain_not_space_or_tab _ Pl) (tail_stops tail T)).
  cbv iota beta. assert (Ne : Nat.eqb (length (render_time b)) 0 = false) by (rewrite Erb; reflexivity). rewrite Ne. cbv iota.
  unfold str. rewrite (utf8_encode_ascii _ As), (parse_render_time b Wb).
  unfold new_range, time_geb. rewrite !timeline_offset by assumption.
  destruct (timeline b >=? timeline a) eqn:E; [lia|]. eexists; reflexivity.
Qed.

Lemma entry_value_line_shape i v tail : wf_value v = true -> text_ok tail = true ->
  let t := indent_text i ++ render_value v ++ tail in
  text_ok t = true /\ (exists c x, utf8_encode t = indent_text i ++ c :: x /\ is_space_or_tab c = false)
  /\ has_prefix (indent_text i) (utf8_encode t) = true /\ is_space_or_tab (peek t (length (indent_text i))) = false.
Proof.
  intros Wv Tt t. destruct (render_value_text_ok v Wv) as [Tv As]. pose proof (render_value_head v Wv) as Hd.
  assert (Tok : text_ok t = true).
  { unfold t. rewrite !text_ok_app, Tv, Tt. replace (text_ok (indent_text i)) with true by (destruct i; reflexivity). reflexivity. }
  destruct (render_value v) as [|c r] eqn:Ev; [contradiction|].
  cbn [ascii forallb] in As. apply andb_true_iff in As as [Hc _].
  assert (Eb : utf8_encode t = indent_text i ++ c :: utf8_encode (r ++ tail)).
  { unfold t. rewrite ?Ev. rewrite utf8_encode_app, (utf8_encode_ascii _ (indent_ascii i)). cbn [app]. rewrite (encode_cons_ascii _ _ Hc). reflexivity. }
  split; [exact Tok|]. split; [eexists; eexists; split; [exact Eb|exact Hd]|].
  split; [rewrite Eb; apply has_prefix_app|].
  rewrite (peek_at_cons t _ (indent_text i) c (r ++ tail) eq_refl eq_refl). exact Hd.
Qed.

(* ---- B2: a second open range ---- *)

Lemma second_open_errs i a sp1 sp2 extra tail acc : wf_time a = true -> tail_ok tail -> text_ok tail = true ->
  has_open_entry acc = true ->
  line_errs_after (indent_text i) acc (indent_text i ++ render_value (SOpen a sp1 sp2 extra) ++ tail).
Proof.
  intros Wa T Tt Hop k ln l rest errs Ml.
  destruct (entry_value_line_shape i (SOpen a sp1 sp2 extra) tail Wa Tt) as (Tok & _ & Hp & Hk).
  rewrite parse_entries_step. cbv zeta. rewrite Ml, (decode_encode _ Tok), Hp, Hk. cbn [negb orb].
  rewrite (parse_entry_value_spec ln (indent_text i) (SOpen a sp1 sp2 extra) tail Wa T). cbn [denote_value ev_of]. cbv iota beta.
  destruct (parse_entry_summary_more _ _ _ _) as [[[summary serr] rest'] ln'].
  destruct serr as [e|].
  - apply (extends_nonempty (errs ++ [e])); [apply parse_entries_extends|]. intros E. apply app_eq_nil in E as [_ E]. discriminate.
  - rewrite Hop.
    match goal with |- snd (parse_entries _ _ _ _ _ (errs ++ [?e])) <> [] =>
      apply (extends_nonempty (errs ++ [e])); [apply parse_entries_extends|] end.
    intros E. apply app_eq_nil in E as [_ E]. discriminate.
Qed.

Lemma has_open_denote es : has_open_entry (map denote_entry es) = negb (Nat.eqb (count_open es) 0).
Proof.
  unfold has_open_entry, count_open. induction es as [|e es IH]; [reflexivity|]. cbn [map existsb filter].
  rewrite is_open_denote, IH. destruct (is_open_value (se_value e)); reflexivity.
Qed.

(* ================= the fault classes at document level ================= *)

Lemma replace_nth_app {A} (a : list A) x y b : replace_nth (length a) x (a ++ y :: b) = a ++ x :: b.
Proof. induction a as [|z a IH]; [reflexivity|]. cbn [length app replace_nth]. rewrite IH. reflexivity. Qed.

(* the index, within a record's lines, of the value line of the entry that follows the entries es1 *)
Definition entry_line_index (r : s_record) (es1 : list s_entry) : nat :=
  S (length (sr_summary r) + length (flat_map (entry_texts (indent_text (sr_indent r))) es1)).

Lemma record_texts_split r es1 e es2 t : sr_entries r = es1 ++ e :: es2 ->
  let ind := indent_text (sr_indent r) in
  replace_nth (entry_line_index r es1) t (record_texts r)
  = headline_text r :: sr_summary r ++ flat_map (entry_texts ind) es1 ++ t ::
      (map (fun x => ind ++ ind ++ x) (se_more e) ++ flat_map (entry_texts ind) es2).
Proof.
  intros Ee ind. unfold record_texts, entry_line_index. rewrite Ee. cbn [replace_nth]. f_equal.
  rewrite flat_map_app. cbn [flat_map].
  change (entry_texts (indent_text (sr_indent r)) e)
    with ((ind ++ render_value (se_value e) ++ first_tail e) :: map (fun x => ind ++ ind ++ x) (se_more e)).
  rewrite <- app_comm_cons. fold ind.
  rewrite app_assoc, <- app_length. rewrite replace_nth_app, <- app_assoc. reflexivity.
Qed.

Section EntryFault.
  Variables (d : s_doc) (k : nat) (rg : s_record * list text) (es1 : list s_entry) (e : s_entry) (es2 : list s_entry) (t : text).
  Hypothesis W : wf d.
  Hypothesis Hk : nth_error (do_records d) k = Some rg.
  Hypothesis Ee : sr_entries (fst rg) = es1 ++ e :: es2.
  Let r := fst rg.
  Let ind := indent_text (sr_indent r).
  Let j := entry_line_index r es1.
  Hypothesis Rok : raw_ok (inject_raw k j t d) = true.

  Lemma wf_record_k : wf_record r = true.
  Proof.
    unfold wf, wf_doc in W. apply andb_true_iff in W as [W' _]. apply andb_true_iff in W' as [W' _]. apply andb_true_iff in W' as [_ Wr].
    apply (forallb_nth_error _ _ k rg Wr Hk).
  Qed.

  Lemma injected_nonblank : forallb (fun t => negb (blank_text t)) (replace_nth j t (record_texts r)) = true.
  Proof.
    pose proof Rok as Rok'. unfold raw_ok in Rok'. apply andb_true_iff in Rok' as [W' _]. apply andb_true_iff in W' as [W' _].
    apply andb_true_iff in W' as [_ Sg]. rewrite (inject_group k j t d rg Hk) in Sg.
    pose proof (forallb_nth_error _ _ k _ Sg (nth_error_replace_nth _ k (record_texts (fst rg), snd rg) _
                 (map_nth_error (fun rg => (record_texts (fst rg), snd rg)) k (do_records d) Hk))) as Sk.
    cbn [fst] in Sk. apply andb_true_iff in Sk as [_ Nb]. exact Nb.
  Qed.

  Lemma reject_entry_gen :
    (exists c x, utf8_encode t = ind ++ c :: x /\ is_space_or_tab c = false) ->
    line_errs_after ind (map denote_entry es1) t ->
    exists es, parse_text (inject k j t d) = Ok (Failed es) /\ es <> [].
  Proof.
    intros Hshape Herr. apply (reject_raw _ Rok).
    rewrite (inject_group k j t d rg Hk).
    apply (Exists_replace_nth _ _ k (record_texts (fst rg), snd rg)).
    { apply (map_nth_error (fun rg => (record_texts (fst rg), snd rg)) k (do_records d) Hk). }
    cbn [fst]. pose proof injected_nonblank as Nb. fold r. unfold j in *.
    rewrite (record_texts_split r es1 e es2 t Ee) in *.
    apply (bad_entry_fails_gen r es1 e es2 t wf_record_k Ee Hshape Herr). exact Nb.
  Qed.
End EntryFault.

(* L4, class "reversed range": the value line of an entry is replaced by a range whose end lies before its start *)
Theorem reject_reversed_range d k rg es1 e es2 a sp1 sp2 b tail :
  wf d -> nth_error (do_records d) k = Some rg -> sr_entries (fst rg) = es1 ++ e :: es2 ->
  wf_time a = true -> wf_time b = true -> timeline b < timeline a -> tail_ok tail -> text_ok tail = true ->
  let t := indent_text (sr_indent (fst rg)) ++ render_value (SRange a sp1 sp2 b) ++ tail in
  let j := entry_line_index (fst rg) es1 in
  raw_ok (inject_raw k j t d) = true ->
  exists es, parse_text (inject k j t d) = Ok (Failed es) /\ es <> [].
Proof.
  intros W Hk Ee Wa Wb Hab T Tt t j Rok.
  (* the range is well-formed as a piece of text (times are), only not chronological *)
  assert (Sh : text_ok t = true /\ (exists c x, utf8_encode t = indent_text (sr_indent (fst rg)) ++ c :: x /\ is_space_or_tab c = false)).
  { pose proof (render_time_text_ok a Wa) as Ta. pose proof (render_time_text_ok b Wb) as Tb.
    pose proof (render_time_ascii a Wa) as Aa. pose proof (time_shape_head _ (render_time_shape a Wa)) as Hd.
    assert (Tok : text_ok t = true).
    { unfold t. cbn [render_value]. rewrite !text_ok_app, Ta, Tb, Tt. unfold spaces. rewrite !text_ok_repeat by reflexivity.
      replace (text_ok (indent_text (sr_indent (fst rg)))) with true by (destruct (sr_indent (fst rg)); reflexivity). reflexivity. }
    split; [exact Tok|]. unfold t. cbn [render_value].
    destruct (render_time a) as [|c r0] eqn:Ea; [contradiction|]. destruct Hd as (Hd & _).
    cbn [ascii forallb] in Aa. apply andb_true_iff in Aa as [Hc _].
    rewrite utf8_encode_app, (utf8_encode_ascii _ (indent_ascii _)). cbn [app]. rewrite (encode_cons_ascii _ _ Hc).
    eexists; eexists; split; [reflexivity|exact Hd]. }
  destruct Sh as [Tok Hshape].
  apply (reject_entry_gen d k rg es1 e es2 t W Hk Ee Rok Hshape).
  intros k0 ln l rest errs Ml.
  apply (bad_entry_line_errs _ t k0 ln l rest _ errs Tok Ml).
  right. right. intros ln0. apply (parse_entry_value_reversed ln0 _ a sp1 sp2 b tail Wa Wb Hab T).
Qed.

(* L4, class "second open range": the value line of an entry that comes after an open range is replaced by an open range *)
Theorem reject_second_open d k rg es1 e es2 a sp1 sp2 extra tail :
  wf d -> nth_error (do_records d) k = Some rg -> sr_entries (fst rg) = es1 ++ e :: es2 ->
  count_open es1 <> 0%nat ->
  wf_time a = true -> tail_ok tail -> text_ok tail = true ->
  let t := indent_text (sr_indent (fst rg)) ++ render_value (SOpen a sp1 sp2 extra) ++ tail in
  let j := entry_line_index (fst rg) es1 in
  raw_ok (inject_raw k j t d) = true ->
  exists es, parse_text (inject k j t d) = Ok (Failed es) /\ es <> [].
Proof.
  intros W Hk Ee Ho Wa T Tt t j Rok.
  destruct (entry_value_line_shape (sr_indent (fst rg)) (SOpen a sp1 sp2 extra) tail Wa Tt) as (Tok & Hshape & _).
  apply (reject_entry_gen d k rg es1 e es2 t W Hk Ee Rok Hshape).
  apply second_open_errs; try assumption.
  rewrite has_open_denote. destruct (count_open es1); [congruence|reflexivity].
Qed.

(* known finding K3 *)
Lemma zs_blank_line_witness : exists s es,
  s = b!"2020-01-01" ++ [10; 194; 160; 10]%N ++ b!"2020-01-02" ++ [10%N] /\
  blank_char 160 = true /\ parse_text s = Ok (Failed es) /\ es <> [].
Proof.
  eexists. eexists. split; [reflexivity|]. split; [reflexivity|]. split; [vm_compute; reflexivity|discriminate].
Qed.

(* ---- C: a record summary line that starts with a blank character ---- *)

Lemma summary_error_fails b hl rest head tail : significant_lines b = (hl :: rest, head, tail) ->
  snd (fst (fst (fst (parse_summary_lines (S head) rest [] (headline_errs (parse_headline head (utf8_decode (l_text hl)))))))) <> [] ->
  block_fails b.
Proof.
  intros Hsig He. pose proof (parse_record_shape b hl rest head tail Hsig) as H. cbv zeta in H.
  destruct (parse_summary_lines (S head) rest [] _) as [[[[summary errs1] style] rest1] ln1]. cbn [fst snd] in He.
  assert (N2 : match style with Some st => snd (parse_entries (length rest1) st ln1 rest1 [] errs1) | None => errs1 end <> []).
  { destruct style as [st|]; [|exact He]. apply (extends_nonempty errs1); [apply parse_entries_extends|exact He]. }
  destruct H as [[E _]|[_ H]]; [congruence|]. eexists; split; [exact H|exact N2].
Qed.

Lemma blank_summary_fails r s1 s s2 t : wf_record r = true -> sr_summary r = s1 ++ s :: s2 ->
  text_ok t = true ->
  match t with c :: _ => blank_char c = true | [] => False end ->
  find_indentation (utf8_encode t) = None ->
  forall others,
  forallb (fun t => negb (blank_text t)) (headline_text r :: s1 ++ t :: others) = true ->
  sig_fails (headline_text r :: s1 ++ t :: others).
Proof.
  intros W Es Tok Hc Hfi others Nb b head sig tail Hb Hh Ht M.
  destruct (sig_significant b head sig tail _ _ Hb Hh Ht M Nb) as (hl & rs & -> & Mh & Mr & Sg).
  destruct (wf_record_inv r W) as (W' & H3 & H2 & H1 & H0 & H).
  rewrite map_app in Mr. apply map_eq_app in Mr as (ls_s & ls_b & -> & Ms & Mb).
  cbn [map] in Mb. apply map_eq_cons in Mb as (lb & ls_x & -> & Mlb & Mx).
  rewrite Es, forallb_app in H1. apply andb_true_iff in H1 as [H11 _].
  apply (summary_error_fails b hl _ _ _ Sg).
  rewrite Mh, (decode_encode _ (headline_text_ok r W)), (parse_headline_spec (length head) r W' H3 H2). cbn [headline_errs].
  rewrite (parse_summary_lines_spec s1 H11 ls_s (S (length head)) (lb :: ls_x) [] Ms).
  rewrite Mlb, Hfi. cbn [parse_summary_lines]. rewrite Mlb, Hfi, (decode_encode _ Tok).
  destruct t as [|c t']; [contradiction|]. rewrite <- blank_char_is_zs, Hc.
  match goal with |- snd (fst (fst (fst (parse_summary_lines _ _ _ ([] ++ [?e]))))) <> [] =>
    apply (extends_nonempty ([] ++ [e])); [apply parse_summary_lines_extends|discriminate] end.
Qed.

(* the index, within a record's lines, of the summary line that follows the summary lines s1 *)
Definition summary_line_index (s1 : list text) : nat := S (length s1).

(* L4, class "summary line starting with a blank character" *)
Theorem reject_blank_summary d k rg s1 s s2 t :
  wf d -> nth_error (do_records d) k = Some rg -> sr_summary (fst rg) = s1 ++ s :: s2 ->
  match t with c :: _ => blank_char c = true | [] => False end ->
  find_indentation (utf8_encode t) = None ->
  raw_ok (inject_raw k (summary_line_index s1) t d) = true ->
  exists es, parse_text (inject k (summary_line_index s1) t d) = Ok (Failed es) /\ es <> [].
Proof.
  intros W Hk Es Hc Hfi Rok. apply (reject_raw _ Rok).
  rewrite (inject_group k _ t d rg Hk).
  apply (Exists_replace_nth _ _ k (record_texts (fst rg), snd rg)).
  { apply (map_nth_error (fun rg => (record_texts (fst rg), snd rg)) k (do_records d) Hk). }
  cbn [fst].
  assert (Wr : wf_record (fst rg) = true).
  { unfold wf, wf_doc in W. apply andb_true_iff in W as [W' _]. apply andb_true_iff in W' as [W' _]. apply andb_true_iff in W' as [_ Wr].
    apply (forallb_nth_error _ _ k rg Wr Hk). }
  pose proof Rok as Rok'. unfold raw_ok in Rok'. apply andb_true_iff in Rok' as [W' _]. apply andb_true_iff in W' as [W' _].
  apply andb_true_iff in W' as [W' Sg]. apply andb_true_iff in W' as [_ T].
  rewrite (inject_group k _ t d rg Hk) in Sg.
  pose proof (forallb_nth_error _ _ k _ Sg (nth_error_replace_nth _ k (record_texts (fst rg), snd rg) _
               (map_nth_error (fun rg => (record_texts (fst rg), snd rg)) k (do_records d) Hk))) as Sk.
  cbn [fst] in Sk. apply andb_true_iff in Sk as [_ Nb].
  assert (Esplit : replace_nth (summary_line_index s1) t (record_texts (fst rg))
           = headline_text (fst rg) :: s1 ++ t :: (s2 ++ flat_map (entry_texts (indent_text (sr_indent (fst rg)))) (sr_entries (fst rg)))).
  { unfold record_texts, summary_line_index. rewrite Es. cbn [replace_nth]. f_equal.
    rewrite <- app_assoc. cbn [app]. apply replace_nth_app. }
  assert (Tok : text_ok t = true).
  { unfold raw_texts in T. rewrite forallb_app in T. apply andb_true_iff in T as [_ T].
    rewrite forallb_forall in T. apply T. apply in_flat_map.
    exists (replace_nth (summary_line_index s1) t (record_texts (fst rg)), snd rg). split.
    - rewrite (inject_group k _ t d rg Hk). eapply nth_error_In. apply nth_error_replace_nth with (x := (record_texts (fst rg), snd rg)).
      apply (map_nth_error (fun rg => (record_texts (fst rg), snd rg)) k (do_records d) Hk).
    - cbn [fst snd]. rewrite Esplit. apply in_or_app. left. right. apply in_or_app. right. left. reflexivity. }
  change (forallb (fun t => negb (blank_text t)) (replace_nth (summary_line_index s1) t (record_texts (fst rg))) = true) in Nb.
  change (sig_fails (replace_nth (summary_line_index s1) t (record_texts (fst rg)))).
  rewrite Esplit in Nb |- *. apply (blank_summary_fails (fst rg) s1 s s2 t Wr Es Tok Hc Hfi). exact Nb.
Qed.
