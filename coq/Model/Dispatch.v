(* Dispatch: the single entry point of the extracted model. One request line in, one result line out. *)
From Klog Require Import Base.Prelude Model.Show Model.SuiteValues.

Definition first_some (l : list (option bytes)) : bytes :=
  match flat_map (fun o => match o with Some x => [x] | None => [] end) l with
  | x :: _ => x
  | [] => b!"?unknown-request"
  end.

Definition dispatch (line : bytes) : bytes :=
  match tokens line with
  | cmd :: args => first_some [suite_values cmd args]
  | [] => b!"?empty"
  end.
