(* C05 — a mutating command either leaves a valid file or leaves the file untouched.
   Property theorems only; each is closed by [exact <lemma>] and followed by Print Assumptions.
   Model: Model/Commands.v — [exec now cfg c file] returns the file after the command and the reported result;
   [exec_simple] is the command up to the write; [reconcile_file] is app.ReconcileFile without I/O
   (parse -> creators -> steps -> MakeResult safeguard); [run_steps], [parses] are in Proofs/Commands.v.
   These theorems are about the model's control flow; that the implementation's control flow is the model's is what
   the commands-faults suite checks (file bytes, error class and exit code of the real commands).
   Not modelled: the process exit code (the harness reads it off klog.Run) and a crash during os.WriteFile. *)
From Klog Require Import Base.Prelude Model.Calendar Model.Values Model.Record Model.Lines Model.Parser
  Model.Reconcile Model.Commands Proofs.Commands.
Open Scope Z_scope.

(* 1. success: what is written parses without errors *)
Theorem C05_exec_ok_valid : forall now cfg c file file', exec_simple now cfg c file = COk file' ->
  exists rs bs, parse_text file' = Ok (Parsed rs bs).
Proof. exact exec_ok_valid. Qed.
Print Assumptions C05_exec_ok_valid.

Theorem C05_exec_success_valid : forall now cfg c file file', exec now cfg c file = (file', COk tt) ->
  exists rs bs, parse_text file' = Ok (Parsed rs bs).
Proof. exact exec_success_valid. Qed.
Print Assumptions C05_exec_success_valid.

(* whatever the command and its outcome — `pause` with all its ticks included, which writes once per step and keeps
   what earlier steps wrote: the file afterwards is the file before, or one that parses *)
Theorem C05_exec_written_valid : forall now cfg c file,
  fst (exec now cfg c file) = file \/ exists rs bs, parse_text (fst (exec now cfg c file)) = Ok (Parsed rs bs).
Proof. exact exec_written_valid. Qed.
Print Assumptions C05_exec_written_valid.

(* 2. failure: every command but pause writes at most once, at the very end — a reported error or a panic leaves the
      file's bytes exactly as they were *)
Theorem C05_exec_err_no_write : forall now cfg c file file' res, is_pause_cmd c = false ->
  exec now cfg c file = (file', res) -> res <> COk tt -> file' = file.
Proof. exact exec_err_no_write. Qed.
Print Assumptions C05_exec_err_no_write.

(* the only way to success: the target parsed, a creator yielded a reconciler, EVERY step succeeded, and the written
   text is the final reconciler's lines, which passed the safeguard re-parse *)
Theorem C05_reconcile_file_ok : forall file mk steps file', reconcile_file file mk steps = COk file' ->
  exists rs bs r0 r rs', parse_text file = Ok (Parsed rs bs) /\ mk rs bs = COk r0 /\
    run_steps rs steps (COk r0) = COk r /\ file' = text_of_lines (rc_lines r) /\
    make_result r = Some (file', rs') /\ exists bs', parse_text file' = Ok (Parsed rs' bs').
Proof. exact reconcile_file_ok. Qed.
Print Assumptions C05_reconcile_file_ok.

(* 3. the failure classes *)
(* unparseable target *)
Theorem C05_unparseable : forall file mk steps es, parse_text file = Ok (Failed es) ->
  reconcile_file file mk steps = CErr CEParse.
Proof. exact reconcile_file_unparseable. Qed.
Print Assumptions C05_unparseable.

(* ... at command level: the error is "parse" unless resolving the arguments (date, time) already failed, which does
   not depend on the file at all *)
Theorem C05_exec_unparseable : forall now cfg c file es, parse_text file = Ok (Failed es) -> is_pause_cmd c = false ->
  exec_simple now cfg c file = CErr CEParse \/
  (forall file2, exec_simple now cfg c file2 = exec_simple now cfg c file) /\ forall f, exec_simple now cfg c file <> COk f.
Proof. exact exec_unparseable. Qed.
Print Assumptions C05_exec_unparseable.

(* no matching record: no creator applies *)
Theorem C05_no_creator : forall cs, Forall (fun o => o = None) cs -> first_creator cs = CErr CENoSuchRecord.
Proof. exact first_creator_none. Qed.
Print Assumptions C05_no_creator.

Theorem C05_creator_error : forall file mk steps rs bs e, parse_text file = Ok (Parsed rs bs) -> mk rs bs = CErr e ->
  reconcile_file file mk steps = CErr e.
Proof. exact reconcile_file_no_creator. Qed.
Print Assumptions C05_creator_error.

Theorem C05_switch_no_record : forall now cfg a s file d t rs bs,
  at_date now (a_date a) = Ok d -> at_time now cfg a = COk t ->
  parse_text file = Ok (Parsed rs bs) -> reconciler_at_record (dt d) rs bs = None ->
  exec now cfg (Switch a s) file = (file, CErr CENoSuchRecord).
Proof. exact switch_no_record. Qed.
Print Assumptions C05_switch_no_record.

(* a logical error in step k of an n-step command: the command reports that error and returns no file *)
Theorem C05_step_fails : forall file mk s1 step s2 rs bs r0 rk e,
  parse_text file = Ok (Parsed rs bs) -> mk rs bs = COk r0 ->
  run_steps rs s1 (COk r0) = COk rk -> step rs rk = CErr e ->
  reconcile_file file mk (s1 ++ step :: s2) = CErr e.
Proof. exact reconcile_file_step_fails. Qed.
Print Assumptions C05_step_fails.

Theorem C05_step_crashes : forall file mk s1 step s2 rs bs r0 rk,
  parse_text file = Ok (Parsed rs bs) -> mk rs bs = COk r0 ->
  run_steps rs s1 (COk r0) = COk rk -> step rs rk = CCrash ->
  reconcile_file file mk (s1 ++ step :: s2) = CCrash.
Proof. exact reconcile_file_step_crashes. Qed.
Print Assumptions C05_step_crashes.

(* switch: the stop half succeeded, the start half fails — nothing is written *)
Theorem C05_switch_second_step_fails : forall now cfg a s file d t rs bs r0 r1 e,
  at_date now (a_date a) = Ok d -> at_time now cfg a = COk t ->
  parse_text file = Ok (Parsed rs bs) -> reconciler_at_record (dt d) rs bs = Some r0 ->
  close_open_range r0 t (time_format cfg a) [] = ROk r1 ->
  (let+ summary := resolve_summary s (rc_record r1) None in
   lift_r (start_open_range r1 t (time_format cfg a) summary)) = CErr e ->
  exec now cfg (Switch a s) file = (file, CErr e).
Proof. exact switch_second_step_fails. Qed.
Print Assumptions C05_switch_second_step_fails.

(* a result that would not be a valid file is refused *)
Theorem C05_invalid_result : forall file mk steps rs bs r0 r,
  parse_text file = Ok (Parsed rs bs) -> mk rs bs = COk r0 -> run_steps rs steps (COk r0) = COk r ->
  ~ (exists rs' bs', parse_text (text_of_lines (rc_lines r)) = Ok (Parsed rs' bs')) ->
  reconcile_file file mk steps = CErr CEInvalidResult.
Proof. exact reconcile_file_invalid_result. Qed.
Print Assumptions C05_invalid_result.

(* ---- non-vacuity ---- *)
Definition ex_now : clock := {| now_date := {| c_year := 2020; c_month := 1; c_day := 1 |}; now_h := 9; now_m := 30 |}.
Definition ex_cfg : config := {| cfg_round := None; cfg_should := None; cfg_dashes := None; cfg_24h := None |}.
Definition ex_file : bytes := b!"2020-01-01
    8:00 - ?
".
(* `track` with a text that is not an entry: refused by the safeguard, file untouched *)
Example ex_invalid_entry : exec ex_now ex_cfg (Track DDefault [b!"not an entry"]) ex_file = (ex_file, CErr CEInvalidResult).
Proof. vm_cast_no_check (@eq_refl (bytes * cresult unit) (ex_file, CErr CEInvalidResult)). Qed.
(* `switch --resume-nth 7`: the stop half would succeed, the start half fails — file untouched *)
Example ex_switch_fails :
  exec ex_now ex_cfg (Switch {| a_date := DDefault; a_time := None; a_round := None |}
                             {| s_text := None; s_resume := false; s_nth := 7 |}) ex_file = (ex_file, CErr CEManipulation).
Proof. vm_cast_no_check (@eq_refl (bytes * cresult unit) (ex_file, CErr CEManipulation)). Qed.
(* an unparseable target *)
Example ex_unparseable : exec ex_now ex_cfg (Track DDefault [b!"1h"]) b!"2020-01-01
  not an entry
" = (b!"2020-01-01
  not an entry
", CErr CEParse).
Proof. vm_cast_no_check (@eq_refl (bytes * cresult unit) (b!"2020-01-01
  not an entry
", CErr CEParse)). Qed.
Example ex_success : exec ex_now ex_cfg (Track DDefault [b!"1h"]) ex_file = (b!"2020-01-01
    8:00 - ?
    1h
", COk tt).
Proof. vm_cast_no_check (@eq_refl (bytes * cresult unit) (b!"2020-01-01
    8:00 - ?
    1h
", COk tt)). Qed.
