(* Suite "eval" (C02): klog total [--now] [--diff] on a file at a given instant. *)
From Klog Require Import Base.Prelude Base.Utf8 Model.Calendar Model.Values Model.Record Model.Lines Model.Parser
  Model.Eval Model.Show Model.ShowRecord.
Open Scope Z_scope.

Definition suite_eval (cmd : bytes) (args : list bytes) : option bytes :=
  if bytes_eqb cmd b!"eval-total" then
    match args with
    | [y; mo; d; h; mi; now; s] =>
      match parse_text (arg_bytes s) with
      | Ok (Parsed rs _) =>
        let today := {| c_year := parse_int y; c_month := parse_int mo; c_day := parse_int d |} in
        let rs' := if bytes_eqb now b!"1" then close_open_ranges today (parse_int h) (parse_int mi) rs else Ok rs in
        Some (match rs' with
              | Ok rs2 =>
                match total rs2, should_total_sum rs2 with
                | Ok t, Ok sh =>
                  match diff sh t with
                  | Ok df => words [b!"ok"; dec t; dec sh; dec df; dec (Z.of_nat (length rs2))]
                  | _ => b!"crash"
                  end
                | _, _ => b!"crash"
                end
              | Err _ => b!"err uncloseable"
              | Crash _ => b!"crash"
              end)
      | Ok (Failed _) => Some b!"invalid"
      | _ => Some b!"crash"
      end
    | _ => None
    end
  else None.
