(* C06 evaluate_total: the read-only evaluations that are modelled today do not panic on what the parser returns,
   under the int64 guard. This file only assembles facts proved elsewhere:
   Proofs/Eval.v (total, should-total, diff: exact guards), Proofs/Report.v (klog total, klog report, klog today,
   print --with-totals, parsed records carry valid dates), Proofs/Tags.v (klog tags). *)
From Klog Require Import Base.Prelude Base.Utf8 Model.Calendar Model.Values Model.Record Model.Lines Model.Parser
  Model.Eval Model.Tags Model.Report Model.Serialiser.
From Klog Require Import Proofs.Lines Proofs.Parser Proofs.Eval Proofs.Period Proofs.Tags Proofs.Report.
From Coq Require Import ZifyBool.
Open Scope Z_scope.

(* the guard of `klog tags` is the entry part of the guard of the views *)
Lemma sum_abs_entries_abs_sum es : sum_abs_entries es = abs_sum (map spec_minutes es).
Proof.
  unfold sum_abs_entries, abs_sum, zsum. induction es as [|e es IH]; cbn [map fold_right]; [reflexivity|].
  rewrite IH, entry_minutes_spec. reflexivity.
Qed.

Lemma sum_abs_abs_sum rs : sum_abs rs = abs_sum (map spec_minutes (all_entries rs)).
Proof.
  unfold sum_abs. induction rs as [|r rs IH]; cbn [map fold_right]; [reflexivity|].
  rewrite IH, sum_abs_entries_abs_sum. change (all_entries (r :: rs)) with (rec_entries r ++ all_entries rs).
  rewrite map_app, abs_sum_app. reflexivity.
Qed.

Lemma sum_abs_le_gsize rs : sum_abs rs <= gsize rs.
Proof.
  rewrite sum_abs_abs_sum. unfold gsize. pose proof (abs_sum_nonneg (map should_minutes rs)). lia.
Qed.

(* the exact guards of the three evaluation functions: Ok exactly under the guard, otherwise the overflow panic *)
Theorem evaluate_guards_exact rs :
  ((exists t, total rs = Ok t) <-> no_overflow rs) /\
  ((exists sh, should_total_sum rs = Ok sh) <-> should_no_overflow rs) /\
  (forall sh t, (exists d, diff sh t = Ok d) <-> (fits t /\ fits sh /\ fits (t - sh))).
Proof.
  split; [|split].
  - destruct (total_dichotomy rs) as [[H E]|[H E]]; rewrite E; split; try tauto.
    + intros _; eexists; reflexivity.
    + intros [t Ht]; discriminate.
  - destruct (should_total_spec rs) as [[H E]|[H E]]; rewrite E; split; try tauto.
    + intros _; eexists; reflexivity.
    + intros [t Ht]; discriminate.
  - intros sh t. destruct (diff_spec sh t) as [D1 D2]. split.
    + intros [d Hd].
      assert (Hc : (fits t /\ fits sh /\ fits (t - sh)) \/ ~ (fits t /\ fits sh /\ fits (t - sh))) by (unfold fits; lia).
      destruct Hc as [Hc|Hc]; [exact Hc|]. rewrite (D2 Hc) in Hd. discriminate.
    + intros H. eexists. exact (D1 H).
Qed.

(* gsize rs = sum of |minutes| of all entries + sum of |should-total| of all records (Proofs/Report.v) *)
Theorem evaluate_total s rs bs : parse_text s = Ok (Parsed rs bs) ->
  gsize rs <= max_int64 ->
  (* service.Total, ShouldTotalSum, Diff *)
  (total rs = Ok (spec_total rs) /\ should_total_sum rs = Ok (spec_should rs) /\
   diff (spec_should rs) (spec_total rs) = Ok (spec_total rs - spec_should rs)) /\
  (* klog total --diff (without --now) *)
  (forall today h m, exists v, total_cmd false today h m rs = Ok v) /\
  (* klog report --aggregate a [--fill] [--diff] (without --now) *)
  (forall a fill df today h m, exists v, report_cmd a fill df false today h m rs = Ok v) /\
  (* klog print --with-totals *)
  (exists v, with_totals rs = Ok v) /\
  (* klog tags *)
  (exists v, go_aggregate_o rs = Ok v) /\
  (* klog today (without --now) at a valid clock reading of a day that has a day before it *)
  (forall today yesterday h m, valid_clock h m -> plus_days today (-1) = Ok yesterday ->
     gsize rs + 1439 <= max_int64 -> exists v, today_cmd false today h m rs = Ok v).
Proof.
  intros Hp G. assert (Gv : views_guard rs) by exact G.
  pose proof (parsed_records_valid s rs bs Hp) as V.
  destruct (eval3_spec rs Gv) as (Et & Es & Ed & _).
  split; [repeat split; assumption|].
  split; [intros today h m; eexists; exact (total_cmd_spec false today h m rs rs eq_refl Gv)|].
  split.
  { intros a fill df today h m. destruct rs as [|r rs']; [eexists; reflexivity|].
    destruct (report_cmd_facts a fill df false today h m (r :: rs') (r :: rs') ltac:(discriminate) V eq_refl Gv)
      as (rep & E & _). eexists; exact E. }
  split.
  { assert (Ha : abs_fit rs).
    { unfold abs_fit. unfold views_guard, gsize in Gv. pose proof (abs_sum_nonneg (map should_minutes rs)). lia. }
    destruct (with_totals_spec rs Ha) as (l & E & _). eexists; exact E. }
  split.
  { apply (tag_totals_no_overflow go_is_letter go_to_lower go_dq_not_letter go_sq_not_letter).
    pose proof (sum_abs_le_gsize rs). unfold max_int64 in *. lia. }
  intros today yesterday h m Hc Hy G2.
  destruct (today_cmd_spec false today yesterday h m rs rs Hc Hy eq_refl G2) as (v & _ & _ & E & _).
  eexists; exact E.
Qed.

(* K1: the guard is needed — a text the parser accepts whose total panics:
   "2020-01-01\n    9223372036854775807m\n    9223372036854775807m" (every single entry fits an int64) *)
Definition k1_text : bytes :=
  (b!"2020-01-01" ++ [10] ++ b!"    9223372036854775807m" ++ [10] ++ b!"    9223372036854775807m")%N.

Theorem evaluate_total_refuted :
  exists s rs bs, parse_text s = Ok (Parsed rs bs) /\
    Forall fits (map spec_minutes (all_entries rs)) /\
    total rs = Crash CIntegerOverflow /\
    (forall today h m, total_cmd false today h m rs = Crash CIntegerOverflow).
Proof.
  eexists k1_text, _, _. split; [vm_compute; reflexivity|].
  split; [repeat constructor; cbn; unfold fits; lia|].
  split; [vm_compute; reflexivity|]. intros; vm_compute; reflexivity.
Qed.
