(* Period: lemmas about Model/Period.v (Week/Month/Quarter/Year Period(), Previous(), Hash()). *)
From Klog Require Import Base.Prelude Model.Calendar Model.Period Proofs.Sweep Proofs.CalendarSweep Proofs.Calendar.
From Coq Require Import ZifyBool.
Open Scope Z_scope.

Definition valid (c : cdate) : Prop := valid_cdate c = true.
Definition last_date : cdate := mk 9999 12 31.

Lemma valid_last : days_of last_date = D1. Proof. reflexivity. Qed.

Lemma valid_not_last c : valid c -> c <> last_date -> days_of c < D1.
Proof.
  intros Hv Hn. apply valid_days in Hv as [Hw Hd].
  destruct (Z.eq_dec (days_of c) D1) as [E|E]; [|lia].
  exfalso. apply Hn. apply days_inj; [exact Hw | unfold wf_date, last_date, mk; cbn; lia | rewrite E; reflexivity].
Qed.

Lemma plus_days_next c : valid c -> c <> last_date -> plus_days c 1 = Ok (next_day c) /\ valid (next_day c).
Proof.
  intros Hv Hn. pose proof (valid_not_last c Hv Hn) as Hl. apply valid_days in Hv as [Hw Hd].
  rewrite plus_days_ok by (assumption || lia).
  rewrite <- (days_next c Hw). rewrite cfd_days by (apply wf_next; exact Hw).
  split; [reflexivity|]. unfold valid. rewrite <- (cfd_days (next_day c)) by (apply wf_next; exact Hw).
  apply valid_cfd. rewrite days_next by exact Hw. lia.
Qed.

(* the date at day number z, when z is inside the calendar *)
Lemma cfd_valid_days z : D0 <= z <= D1 -> valid (civil_from_days z) /\ days_of (civil_from_days z) = z.
Proof. intros H. split; [apply valid_cfd; exact H | apply days_cfd]. Qed.

(* ================= Week ================= *)

Lemma week_since_spec fuel : forall c, valid c -> weekday c - 1 <= Z.of_nat fuel ->
  week_since fuel c = if D0 <=? monday_of c then Ok (civil_from_days (monday_of c)) else Crash CUnrepresentableDate.
Proof.
  induction fuel as [|k IH]; intros c Hv Hf; pose proof (weekday_range c) as Hr;
    pose proof (valid_days c Hv) as [Hw Hd]; cbn [week_since].
  - destruct (weekday c =? 1) eqn:E; [|lia].
    unfold monday_of. replace (days_of c - (weekday c - 1)) with (days_of c) by lia.
    rewrite cfd_days by exact Hw. destruct (D0 <=? days_of c) eqn:E2; [reflexivity|lia].
  - destruct (weekday c =? 1) eqn:E.
    + unfold monday_of. replace (days_of c - (weekday c - 1)) with (days_of c) by lia.
      rewrite cfd_days by exact Hw. destruct (D0 <=? days_of c) eqn:E2; [reflexivity|lia].
    + rewrite plus_days_spec by exact Hw.
      destruct ((D0 <=? days_of c + -1) && (days_of c + -1 <=? D1)) eqn:E2; cbn [bind].
      * destruct (cfd_valid_days (days_of c + -1) ltac:(lia)) as [Hv' Hd'].
        assert (Hwd : weekday (civil_from_days (days_of c + -1)) = weekday c - 1).
        { unfold weekday in *. rewrite Hd'. Z.div_mod_to_equations; lia. }
        rewrite IH by (assumption || lia).
        unfold monday_of. rewrite Hwd, Hd'. replace (days_of c + -1 - (weekday c - 1 - 1)) with (days_of c - (weekday c - 1)) by lia.
        reflexivity.
      * unfold monday_of. destruct (D0 <=? days_of c - (weekday c - 1)) eqn:E3; [lia|reflexivity].
Qed.

Lemma week_until_spec fuel : forall c, valid c -> 7 - weekday c <= Z.of_nat fuel ->
  week_until fuel c = if monday_of c + 6 <=? D1 then Ok (civil_from_days (monday_of c + 6)) else Crash CUnrepresentableDate.
Proof.
  induction fuel as [|k IH]; intros c Hv Hf; pose proof (weekday_range c) as Hr;
    pose proof (valid_days c Hv) as [Hw Hd]; cbn [week_until].
  - destruct (weekday c =? 7) eqn:E; [|lia].
    unfold monday_of. replace (days_of c - (weekday c - 1) + 6) with (days_of c) by lia.
    rewrite cfd_days by exact Hw. destruct (days_of c <=? D1) eqn:E2; [reflexivity|lia].
  - destruct (weekday c =? 7) eqn:E.
    + unfold monday_of. replace (days_of c - (weekday c - 1) + 6) with (days_of c) by lia.
      rewrite cfd_days by exact Hw. destruct (days_of c <=? D1) eqn:E2; [reflexivity|lia].
    + rewrite plus_days_spec by exact Hw.
      destruct ((D0 <=? days_of c + 1) && (days_of c + 1 <=? D1)) eqn:E2; cbn [bind].
      * destruct (cfd_valid_days (days_of c + 1) ltac:(lia)) as [Hv' Hd'].
        assert (Hwd : weekday (civil_from_days (days_of c + 1)) = weekday c + 1).
        { unfold weekday in *. rewrite Hd'. Z.div_mod_to_equations; lia. }
        rewrite IH by (assumption || lia).
        unfold monday_of. rewrite Hwd, Hd'. replace (days_of c + 1 - (weekday c + 1 - 1) + 6) with (days_of c - (weekday c - 1) + 6) by lia.
        reflexivity.
      * unfold monday_of. destruct (days_of c - (weekday c - 1) + 6 <=? D1) eqn:E3; [lia|reflexivity].
Qed.

Lemma week_period_spec c : valid c ->
  week_period c = if (D0 <=? monday_of c) && (monday_of c + 6 <=? D1)
                  then Ok (civil_from_days (monday_of c), civil_from_days (monday_of c + 6))
                  else Crash CUnrepresentableDate.
Proof.
  intros Hv. pose proof (weekday_range c). unfold week_period.
  rewrite week_since_spec, week_until_spec by (try assumption; change (Z.of_nat 7) with 7; lia).
  destruct (D0 <=? monday_of c); destruct (monday_of c + 6 <=? D1); reflexivity.
Qed.


(* comparing a date with a given (y, m, d): day-number order is year/month/day order *)
Lemma days_le_lex a b : wf_date a -> wf_date b ->
  (days_of a <= days_of b <->
   c_year a < c_year b \/ (c_year a = c_year b /\ (c_month a < c_month b \/ (c_month a = c_month b /\ c_day a <= c_day b)))).
Proof.
  intros Ha Hb. rewrite <- (cdate_geb_days b a Hb Ha). unfold cdate_geb.
  destruct (c_year b =? c_year a) eqn:E1; cbn [negb]; [|lia].
  destruct (c_month b =? c_month a) eqn:E2; cbn [negb]; lia.
Qed.

Lemma wf_mk y m d : 1 <= m <= 12 -> 1 <= d <= days_in_month y m -> wf_date (mk y m d).
Proof. intros. unfold wf_date, mk; cbn [c_year c_month c_day]. lia. Qed.

Lemma valid_mk y m d : 0 <= y <= 9999 -> 1 <= m <= 12 -> 1 <= d <= days_in_month y m -> valid (mk y m d).
Proof. intros. unfold valid. apply valid_wf. split; [apply wf_mk; assumption | exact H]. Qed.

Lemma valid_fields c : valid c -> 0 <= c_year c <= 9999 /\ 1 <= c_month c <= 12 /\ 1 <= c_day c <= days_in_month (c_year c) (c_month c).
Proof. intros H. apply valid_wf in H as [[Hm Hd] Hy]. auto. Qed.

Lemma new_date_valid y m d : valid (mk y m d) -> new_date y m d = Some (mk y m d).
Proof. unfold valid, valid_cdate, new_date, mk; cbn [c_year c_month c_day]. intros ->. reflexivity. Qed.

Lemma eta_cdate c : c = mk (c_year c) (c_month c) (c_day c).
Proof. destruct c; reflexivity. Qed.

(* ================= Month ================= *)

Lemma is_last_date_spec c : is_last_date c = true <-> c = last_date.
Proof.
  unfold is_last_date, last_date, mk. split.
  - intros H. rewrite (eta_cdate c). unfold mk. f_equal; lia.
  - intros ->. reflexivity.
Qed.

Lemma month_until_spec fuel : forall y m d, valid (mk y m d) -> days_in_month y m - d < Z.of_nat fuel ->
  month_until fuel (mk y m d) = Ok (mk y m (days_in_month y m)).
Proof.
  induction fuel as [|k IH]; intros y m d Hv Hf; pose proof (valid_fields _ Hv) as (Hy & Hm & Hd);
    cbn [c_year c_month c_day mk] in Hy, Hm, Hd; cbn [month_until].
  - lia.
  - destruct (is_last_date (mk y m d)) eqn:El.
    + apply is_last_date_spec in El. unfold last_date, mk in El. injection El as -> -> ->. reflexivity.
    + assert (Hn : mk y m d <> last_date) by (intro X; apply is_last_date_spec in X; congruence).
      destruct (plus_days_next _ Hv Hn) as [-> Hvn]. cbn [bind].
      unfold next_day in *. cbn [c_year c_month c_day mk] in *.
      destruct (d <? days_in_month y m) eqn:E1; cbn [c_year c_month c_day] in *.
      * rewrite Z.eqb_refl. cbn [negb]. apply (IH y m (d + 1)); [exact Hvn | lia].
      * assert (d = days_in_month y m) by lia. subst d.
        destruct (m <? 12) eqn:E2; cbn [c_year c_month c_day].
        -- destruct (m + 1 =? m) eqn:E3; [lia|]. reflexivity.
        -- destruct (1 =? m) eqn:E3; [lia|]. reflexivity.
Qed.

Lemma month_period_spec c : valid c ->
  month_period c = Ok (mk (c_year c) (c_month c) 1, mk (c_year c) (c_month c) (days_in_month (c_year c) (c_month c))).
Proof.
  intros Hv. pose proof (valid_fields _ Hv) as (Hy & Hm & Hd). pose proof (dim_bounds (c_year c) (c_month c)).
  unfold month_period.
  rewrite (new_date_valid _ _ 1) by (apply valid_mk; lia).
  rewrite (new_date_valid _ _ 28) by (apply valid_mk; lia).
  rewrite month_until_spec; [reflexivity | apply valid_mk; lia | change (Z.of_nat 4) with 4; lia].
Qed.

(* going back n days from day d of a month, d <= n < d + 28, lands in the month before *)
Lemma days_back y m d n : 1 <= m <= 12 -> 1 <= d -> d <= n < d + 28 ->
  days_from_civil y m d - n =
    if m =? 1 then days_from_civil (y - 1) 12 (31 + d - n)
    else days_from_civil y (m - 1) (days_in_month y (m - 1) + d - n).
Proof.
  intros Hm Hd Hn. destruct (m =? 1) eqn:E.
  - assert (m = 1) by lia. subst m. pose proof (days_year_start (y - 1)) as S. replace (y - 1 + 1) with y in S by lia.
    rewrite (days_day y 1 d), S, (days_day (y - 1) 12 (31 + d - n)). lia.
  - pose proof (days_month_start y (m - 1) ltac:(lia)) as S. replace (m - 1 + 1) with m in S by lia.
    rewrite (days_day y m d), S, (days_day y (m - 1) (days_in_month y (m - 1) + d - n)). lia.
Qed.

(* the month before *)
Definition prev_month (c : cdate) : Z * Z :=
  if c_month c =? 1 then (c_year c - 1, 12) else (c_year c, c_month c - 1).

Lemma month_previous_spec c : valid c -> ~ (c_year c = 0 /\ c_month c = 1) ->
  exists p, month_previous c = Ok p /\ valid p /\ (c_year p, c_month p) = prev_month c.
Proof.
  intros Hv Hne. pose proof (valid_fields _ Hv) as (Hy & Hm & Hd). pose proof (valid_days _ Hv) as [Hw Hr].
  pose proof (dim_bounds (c_year c) (c_month c)) as Hb.
  pose proof (dim_bounds (c_year c) (c_month c - 1)) as Hb'.
  (* the first day of the month is at least 31 days after 0000-01-01 unless it is 0000-01 *)
  assert (Hfirst : D0 + 31 <= days_from_civil (c_year c) (c_month c) 1).
  { change (D0 + 31) with (days_of (mk 0 2 1)).
    change (days_from_civil (c_year c) (c_month c) 1) with (days_of (mk (c_year c) (c_month c) 1)).
    apply days_le_lex; [apply wf_mk; cbn; lia | apply wf_mk; lia |]. unfold mk; cbn [c_year c_month c_day]. lia. }
  assert (Hz : days_of c = days_from_civil (c_year c) (c_month c) 1 + (c_day c - 1)) by (unfold days_of; apply days_day).
  unfold month_previous. cbn [month_prev_loop].
  (* target date in the previous month for a step of n days *)
  assert (Hback : forall d n, 1 <= d -> d <= n < d + 28 -> d <= days_in_month (c_year c) (c_month c) ->
     let p := if c_month c =? 1 then mk (c_year c - 1) 12 (31 + d - n)
              else mk (c_year c) (c_month c - 1) (days_in_month (c_year c) (c_month c - 1) + d - n) in
     civil_from_days (days_from_civil (c_year c) (c_month c) d - n) = p /\ valid p /\ (c_year p, c_month p) = prev_month c
     /\ c_month p <> c_month c).
  { intros d n H1 H2 H3. cbv zeta. rewrite days_back by lia. unfold prev_month.
    destruct (c_month c =? 1) eqn:E.
    - assert (Hvp : valid (mk (c_year c - 1) 12 (31 + d - n))) by (apply valid_mk; unfold days_in_month; eval_closed; lia).
      split; [apply (cfd_days (mk (c_year c - 1) 12 (31 + d - n))); apply valid_wf in Hvp; tauto|].
      split; [exact Hvp|]. cbn [c_year c_month mk]. split; [reflexivity | lia].
    - assert (Hvp : valid (mk (c_year c) (c_month c - 1) (days_in_month (c_year c) (c_month c - 1) + d - n))) by (apply valid_mk; lia).
      split; [apply (cfd_days (mk (c_year c) (c_month c - 1) (days_in_month (c_year c) (c_month c - 1) + d - n))); apply valid_wf in Hvp; tauto|].
      split; [exact Hvp|]. cbn [c_year c_month mk]. split; [reflexivity | lia]. }
  rewrite plus_days_ok by (assumption || lia).
  cbn [bind].
  destruct (Z_le_gt_dec (c_day c) 25) as [L|G].
  - (* one step of 25 days leaves the month *)
    destruct (Hback (c_day c) 25 ltac:(lia) ltac:(lia) ltac:(lia)) as (E1 & V1 & P1 & N1). cbv zeta in *.
    replace (days_of c + -25) with (days_from_civil (c_year c) (c_month c) (c_day c) - 25) by (unfold days_of; lia).
    rewrite E1. match goal with |- context[negb (c_month ?p =? _)] => destruct (c_month p =? c_month c) eqn:E2 end; [lia|].
    cbn [negb]. eexists; split; [reflexivity|]. split; assumption.
  - (* day 26..31: the first step stays inside the month, the second leaves it *)
    assert (E0 : civil_from_days (days_of c + -25) = mk (c_year c) (c_month c) (c_day c - 25)).
    { replace (days_of c + -25) with (days_of (mk (c_year c) (c_month c) (c_day c - 25))).
      - apply cfd_days. apply wf_mk; lia.
      - unfold days_of at 1. cbn [c_year c_month c_day mk]. rewrite (days_day _ _ (c_day c - 25)). lia. }
    rewrite E0. cbn [c_month mk]. rewrite Z.eqb_refl. cbn [negb].
    assert (Hw0 : wf_date (mk (c_year c) (c_month c) (c_day c - 25))) by (apply wf_mk; lia).
    rewrite plus_days_ok; [|exact Hw0|].
    2:{ unfold days_of. cbn [c_year c_month c_day mk]. rewrite (days_day _ _ (c_day c - 25)). lia. }
    cbn [bind].
    destruct (Hback (c_day c - 25) 25 ltac:(lia) ltac:(lia) ltac:(lia)) as (E1 & V1 & P1 & N1). cbv zeta in *.
    replace (days_of (mk (c_year c) (c_month c) (c_day c - 25)) + -25) with (days_from_civil (c_year c) (c_month c) (c_day c - 25) - 25)
      by (unfold days_of; cbn [c_year c_month c_day mk]; lia).
    rewrite E1. match goal with |- context[negb (c_month ?p =? _)] => destruct (c_month p =? c_month c) eqn:E2 end; [lia|].
    cbn [negb]. eexists; split; [reflexivity|]. split; assumption.
Qed.


(* the day after the last day of a month is the first day of the next month *)
Lemma days_month_end y m : 1 <= m <= 12 ->
  days_from_civil y m (days_in_month y m) + 1 =
    if m <? 12 then days_from_civil y (m + 1) 1 else days_from_civil (y + 1) 1 1.
Proof.
  intros Hm. rewrite (days_day y m (days_in_month y m)). destruct (m <? 12) eqn:E.
  - rewrite days_month_start by lia. lia.
  - assert (m = 12) by lia. subst m. rewrite days_year_start. unfold days_in_month. eval_closed. lia.
Qed.

(* ================= Quarter ================= *)

Definition q_first (y q : Z) : cdate := mk y (3 * q - 2) 1.
Definition q_last (y q : Z) : cdate := mk y (3 * q) (days_in_month y (3 * q)).

Ltac quarter_split q H :=
  let Hc := fresh "Hc" in
  assert (Hc : q = 1 \/ q = 2 \/ q = 3 \/ q = 4) by lia; destruct Hc as [->|[->|[->| ->]]].

Lemma q_first_last_valid y q : 0 <= y <= 9999 -> 1 <= q <= 4 -> valid (q_first y q) /\ valid (q_last y q).
Proof.
  intros Hy Hq. pose proof (dim_bounds y (3 * q - 2)). pose proof (dim_bounds y (3 * q)).
  split; apply valid_mk; lia.
Qed.

Lemma quarter_period_spec c : valid c ->
  quarter_period c = Ok (q_first (c_year c) (quarter c), q_last (c_year c) (quarter c)).
Proof.
  intros Hv. pose proof (valid_fields _ Hv) as (Hy & Hm & Hd). pose proof (quarter_spec c Hm) as [Hq _].
  unfold quarter_period, q_first, q_last. cbv zeta.
  set (q := quarter c) in *. clearbody q.
  quarter_split q Hq; eval_closed; unfold days_in_month; eval_closed;
    rewrite !new_date_valid by (apply valid_mk; unfold days_in_month; eval_closed; lia); reflexivity.
Qed.

(* length of a quarter *)
Lemma quarter_len y q : 1 <= q <= 4 -> 89 <= days_of (q_last y q) - days_of (q_first y q) <= 91.
Proof.
  intros Hq. unfold days_of, q_first, q_last, mk. cbn [c_year c_month c_day].
  rewrite (days_ymd y (3 * q)), (days_ymd y (3 * q - 2)) by lia.
  unfold cum_days, cum_table, days_in_month. quarter_split q Hq; eval_closed; destruct (is_leap y); lia.
Qed.

(* a date between the first and the last day of a quarter lies in that quarter *)
Lemma in_quarter c y q : wf_date c -> 1 <= q <= 4 ->
  days_of (q_first y q) <= days_of c <= days_of (q_last y q) -> c_year c = y /\ quarter c = q.
Proof.
  intros Hw Hq [H1 H2]. pose proof (dim_bounds y (3 * q)). pose proof (dim_bounds y (3 * q - 2)).
  apply days_le_lex in H1; [|apply wf_mk; lia | exact Hw].
  apply days_le_lex in H2; [|exact Hw | apply wf_mk; lia].
  unfold q_first, q_last, mk in *. cbn [c_year c_month c_day] in *. destruct Hw as [Hm _].
  unfold quarter. split; [lia|]. Z.div_mod_to_equations. lia.
Qed.

Definition prev_quarter (c : cdate) : Z * Z :=
  if quarter c =? 1 then (c_year c - 1, 4) else (c_year c, quarter c - 1).

Lemma q_last_next y q : 1 <= q <= 4 ->
  days_of (q_last y q) + 1 = if q =? 4 then days_of (q_first (y + 1) 1) else days_of (q_first y (q + 1)).
Proof.
  intros Hq. unfold days_of, q_last, q_first, mk. cbn [c_year c_month c_day].
  rewrite days_month_end by lia. quarter_split q Hq; eval_closed; reflexivity.
Qed.

Lemma quarter_previous_spec c : valid c -> ~ (c_year c = 0 /\ quarter c = 1) ->
  exists p, quarter_previous c = Ok p /\ valid p /\ (c_year p, quarter p) = prev_quarter c.
Proof.
  intros Hv Hne. pose proof (valid_fields _ Hv) as (Hy & Hm & Hd). pose proof (valid_days _ Hv) as [Hw Hr].
  pose proof (quarter_spec c Hm) as [Hq Hqm].
  set (y := c_year c) in *. set (q := quarter c) in *.
  set (y' := fst (prev_quarter c)). set (q' := snd (prev_quarter c)).
  assert (Hp : (0 <= y' <= 9999 /\ 1 <= q' <= 4) /\ days_of (q_last y' q') + 1 = days_of (q_first y q)).
  { unfold y', q', prev_quarter. fold q y. destruct (q =? 1) eqn:E; cbn [fst snd].
    - split; [lia|]. rewrite q_last_next by lia. eval_closed. replace (y - 1 + 1) with y by lia. replace q with 1 by lia. reflexivity.
    - split; [lia|]. rewrite q_last_next by lia. destruct (q - 1 =? 4) eqn:E2; [lia|]. replace (q - 1 + 1) with q by lia. reflexivity. }
  destruct Hp as [[Hy' Hq'] Hadj].
  destruct (q_first_last_valid y' q' Hy' Hq') as [Vf Vl].
  pose proof (valid_days _ Vf) as [_ Rf]. pose proof (valid_days _ Vl) as [_ Rl].
  pose proof (quarter_len y q Hq) as L. pose proof (quarter_len y' q' Hq') as L'.
  (* c lies in its own quarter *)
  assert (Hin : days_of (q_first y q) <= days_of c <= days_of (q_last y q)).
  { destruct (q_first_last_valid y q Hy Hq) as [Vf0 Vl0].
    apply valid_days in Vf0 as [Wf0 _]. apply valid_days in Vl0 as [Wl0 _].
    split; apply days_le_lex; try assumption;
      unfold q_first, q_last, mk; cbn [c_year c_month c_day]; fold y.
    - lia.
    - destruct (Z.eq_dec (c_month c) (3 * q)) as [Em|Em]; [rewrite <- Em; lia | lia]. }
  (* anything in the previous quarter's day range is a valid date of that quarter *)
  assert (Hprev : forall z, days_of (q_first y' q') <= z <= days_of (q_last y' q') ->
            valid (civil_from_days z) /\ (c_year (civil_from_days z), quarter (civil_from_days z)) = prev_quarter c
            /\ quarter (civil_from_days z) <> q).
  { intros z Hz. destruct (cfd_valid_days z ltac:(lia)) as [V E]. split; [exact V|].
    pose proof (valid_days _ V) as [W _].
    destruct (in_quarter _ y' q' W Hq' ltac:(rewrite E; exact Hz)) as [A B]. rewrite A, B.
    split; [unfold y', q'; destruct (prev_quarter c); reflexivity|].
    unfold q', prev_quarter. fold q. destruct (q =? 1) eqn:E1; cbn [snd]; lia. }
  unfold quarter_previous. fold q. cbn [quarter_prev_loop].
  rewrite plus_days_ok by (assumption || lia). cbn [bind].
  destruct (Z_lt_le_dec (days_of c + -80) (days_of (q_first y q))) as [Lt|Ge].
  - destruct (Hprev (days_of c + -80) ltac:(lia)) as (V & P & N).
    destruct (quarter (civil_from_days (days_of c + -80)) =? q) eqn:E; [lia|]. cbn [negb].
    eexists; split; [reflexivity|]. split; assumption.
  - destruct (cfd_valid_days (days_of c + -80) ltac:(lia)) as [V0 E0]. pose proof (valid_days _ V0) as [W0 _].
    destruct (in_quarter _ y q W0 Hq ltac:(rewrite E0; lia)) as [_ B]. rewrite B, Z.eqb_refl. cbn [negb].
    rewrite plus_days_ok by (try exact W0; rewrite E0; lia). cbn [bind]. rewrite E0.
    destruct (Hprev (days_of c + -80 + -80) ltac:(lia)) as (V & P & N).
    destruct (quarter (civil_from_days (days_of c + -80 + -80)) =? q) eqn:E; [lia|]. cbn [negb].
    eexists; split; [reflexivity|]. split; assumption.
Qed.

(* ================= Year ================= *)

Lemma year_period_spec c : valid c -> year_period c = Ok (mk (c_year c) 1 1, mk (c_year c) 12 31).
Proof.
  intros Hv. pose proof (valid_fields _ Hv) as (Hy & _). unfold year_period.
  rewrite !new_date_valid by (apply valid_mk; unfold days_in_month; eval_closed; lia). reflexivity.
Qed.

Lemma year_previous_spec c : valid c -> 1 <= c_year c -> year_previous c = Ok (mk (c_year c - 1) 1 1).
Proof.
  intros Hv H1. pose proof (valid_fields _ Hv) as (Hy & _). unfold year_previous.
  rewrite new_date_valid by (apply valid_mk; unfold days_in_month; eval_closed; lia). reflexivity.
Qed.

Lemma year_previous_crash c : c_year c = 0 -> year_previous c = Crash CExplicitPanic.
Proof. intros H. unfold year_previous. rewrite H. reflexivity. Qed.


(* ================= the four kinds together ================= *)

(* first and last day of the period of kind k that contains c *)
Definition pstart (k : kind) (c : cdate) : cdate :=
  match k with
  | KWeek => civil_from_days (monday_of c)
  | KMonth => mk (c_year c) (c_month c) 1
  | KQuarter => q_first (c_year c) (quarter c)
  | KYear => mk (c_year c) 1 1
  end.

Definition pend (k : kind) (c : cdate) : cdate :=
  match k with
  | KWeek => civil_from_days (monday_of c + 6)
  | KMonth => mk (c_year c) (c_month c) (days_in_month (c_year c) (c_month c))
  | KQuarter => q_last (c_year c) (quarter c)
  | KYear => mk (c_year c) 12 31
  end.

(* the period lies inside 0000-01-01 .. 9999-12-31 (always true except for the first and the last week) *)
Definition representable (k : kind) (c : cdate) : Prop :=
  match k with
  | KWeek => D0 <= monday_of c /\ monday_of c + 6 <= D1
  | _ => True
  end.

Lemma period_spec k c : valid c -> representable k c -> period_of k c = Ok (pstart k c, pend k c).
Proof.
  intros Hv Hr. destruct k; cbn [period_of pstart pend].
  - rewrite week_period_spec by exact Hv. cbn [representable] in Hr.
    destruct ((D0 <=? monday_of c) && (monday_of c + 6 <=? D1)) eqn:E; [reflexivity|lia].
  - apply month_period_spec; exact Hv.
  - apply quarter_period_spec; exact Hv.
  - apply year_period_spec; exact Hv.
Qed.

Lemma period_crash k c : valid c -> ~ representable k c -> period_of k c = Crash CUnrepresentableDate.
Proof.
  intros Hv Hr. destruct k; cbn [representable] in Hr; try tauto. cbn [period_of].
  rewrite week_period_spec by exact Hv.
  destruct ((D0 <=? monday_of c) && (monday_of c + 6 <=? D1)) eqn:E; [lia|reflexivity].
Qed.

Lemma pstart_pend_bounds k c : valid c -> representable k c ->
  valid (pstart k c) /\ valid (pend k c) /\ days_of (pstart k c) <= days_of c <= days_of (pend k c).
Proof.
  intros Hv Hr. pose proof (valid_fields _ Hv) as (Hy & Hm & Hd). pose proof (valid_days _ Hv) as [Hw Hz].
  destruct k; cbn [pstart pend representable] in *.
  - pose proof (monday_of_spec c) as [B _].
    destruct (cfd_valid_days (monday_of c) ltac:(lia)) as [V1 E1].
    destruct (cfd_valid_days (monday_of c + 6) ltac:(lia)) as [V2 E2].
    rewrite E1, E2. split; [exact V1|]. split; [exact V2|]. lia.
  - pose proof (dim_bounds (c_year c) (c_month c)).
    assert (V1 : valid (mk (c_year c) (c_month c) 1)) by (apply valid_mk; lia).
    assert (V2 : valid (mk (c_year c) (c_month c) (days_in_month (c_year c) (c_month c)))) by (apply valid_mk; lia).
    split; [exact V1|]. split; [exact V2|]. apply valid_days in V1 as [W1 _]. apply valid_days in V2 as [W2 _].
    split; apply days_le_lex; try assumption; unfold mk; cbn [c_year c_month c_day]; lia.
  - pose proof (quarter_spec c Hm) as [Hq Hqm].
    destruct (q_first_last_valid (c_year c) (quarter c) Hy Hq) as [V1 V2].
    split; [exact V1|]. split; [exact V2|]. apply valid_days in V1 as [W1 _]. apply valid_days in V2 as [W2 _].
    split; apply days_le_lex; try assumption; unfold q_first, q_last, mk; cbn [c_year c_month c_day]; [lia|].
    destruct (Z.eq_dec (c_month c) (3 * quarter c)) as [Em|Em]; [rewrite <- Em; lia | lia].
  - pose proof (dim_bounds (c_year c) (c_month c)).
    assert (V1 : valid (mk (c_year c) 1 1)) by (apply valid_mk; unfold days_in_month; eval_closed; lia).
    assert (V2 : valid (mk (c_year c) 12 31)) by (apply valid_mk; unfold days_in_month; eval_closed; lia).
    split; [exact V1|]. split; [exact V2|]. apply valid_days in V1 as [W1 _]. apply valid_days in V2 as [W2 _].
    split; apply days_le_lex; try assumption; unfold mk; cbn [c_year c_month c_day]; lia.
Qed.

(* every date between the first and the last day has the same period *)
Lemma period_same k c c' : valid c -> representable k c -> valid c' ->
  days_of (pstart k c) <= days_of c' <= days_of (pend k c) ->
  pstart k c' = pstart k c /\ pend k c' = pend k c /\ representable k c'.
Proof.
  intros Hv Hr Hv' Hin. pose proof (valid_fields _ Hv) as (Hy & Hm & Hd). pose proof (valid_days _ Hv') as [Hw' Hz'].
  destruct k; cbn [pstart pend representable] in *.
  - destruct (days_cfd (monday_of c)) as [_ E1]. destruct (days_cfd (monday_of c + 6)) as [_ E2].
    rewrite E1, E2 in Hin. pose proof (monday_of_spec c) as [_ Mc].
    assert (E : monday_of c' = monday_of c).
    { unfold monday_of at 1, weekday. symmetry.
      replace (days_of c' - ((days_of c' + 3) mod 7 + 1 - 1)) with (days_of c' - (days_of c' + 3) mod 7) by lia.
      apply monday_unique; assumption. }
    rewrite E. auto.
  - pose proof (dim_bounds (c_year c) (c_month c)).
    destruct Hin as [H1 H2].
    apply days_le_lex in H1; [|apply wf_mk; lia | exact Hw'].
    apply days_le_lex in H2; [|exact Hw' | apply wf_mk; lia].
    unfold mk in H1, H2. cbn [c_year c_month c_day] in H1, H2.
    assert (c_year c' = c_year c /\ c_month c' = c_month c) as [-> ->] by lia. auto.
  - pose proof (quarter_spec c Hm) as [Hq _].
    destruct (in_quarter c' (c_year c) (quarter c) Hw' Hq Hin) as [-> ->]. auto.
  - destruct Hin as [H1 H2].
    apply days_le_lex in H1; [|apply wf_mk; unfold days_in_month; eval_closed; lia | exact Hw'].
    apply days_le_lex in H2; [|exact Hw' | apply wf_mk; unfold days_in_month; eval_closed; lia].
    unfold mk in H1, H2. cbn [c_year c_month c_day] in H1, H2.
    assert (c_year c' = c_year c) as -> by lia. auto.
Qed.

(* what "first day" and "last day" of a period of kind k mean *)
Definition first_last_ok (k : kind) (s u : cdate) : Prop :=
  match k with
  | KWeek => weekday s = 1 /\ weekday u = 7 /\ days_of u = days_of s + 6
  | KMonth => c_year s = c_year u /\ c_month s = c_month u /\ c_day s = 1
              /\ c_day u = days_in_month (c_year u) (c_month u)
  | KQuarter => c_year s = c_year u /\ quarter s = quarter u /\ c_month s = 3 * quarter s - 2 /\ c_day s = 1
                /\ c_month u = 3 * quarter u /\ c_day u = days_in_month (c_year u) (c_month u)
  | KYear => c_year s = c_year u /\ c_month s = 1 /\ c_day s = 1 /\ c_month u = 12 /\ c_day u = 31
  end.

Lemma pstart_pend_first_last k c : valid c -> first_last_ok k (pstart k c) (pend k c).
Proof.
  intros Hv. pose proof (valid_fields _ Hv) as (Hy & Hm & Hd).
  destruct k; cbn [pstart pend first_last_ok].
  - destruct (days_cfd (monday_of c)) as [_ E1]. destruct (days_cfd (monday_of c + 6)) as [_ E2].
    pose proof (monday_of_spec c) as [_ Mc]. unfold weekday. rewrite E1, E2.
    split; [|split; [|lia]]; Z.div_mod_to_equations; lia.
  - unfold mk; cbn [c_year c_month c_day]. auto.
  - pose proof (quarter_spec c Hm) as [Hq _]. unfold q_first, q_last, mk, quarter; cbn [c_year c_month c_day].
    repeat split; try reflexivity; Z.div_mod_to_equations; lia.
  - unfold mk; cbn [c_year c_month c_day]. auto.
Qed.

(* ---- Previous() ---- *)
Definition prev_representable (k : kind) (c : cdate) : Prop :=
  match k with
  | KWeek => D0 + 7 <= monday_of c
  | KMonth => ~ (c_year c = 0 /\ c_month c = 1)
  | KQuarter => ~ (c_year c = 0 /\ quarter c = 1)
  | KYear => 1 <= c_year c
  end.

Lemma previous_spec k c : valid c -> prev_representable k c ->
  exists p, previous_of k c = Ok p /\ valid p /\ representable k p
            /\ days_of (pend k p) + 1 = days_of (pstart k c).
Proof.
  intros Hv Hp. pose proof (valid_fields _ Hv) as (Hy & Hm & Hd). pose proof (valid_days _ Hv) as [Hw Hz].
  destruct k; cbn [previous_of prev_representable pstart pend representable] in *.
  - pose proof (monday_of_spec c) as [B Mc]. unfold week_previous.
    rewrite plus_days_ok by (assumption || lia).
    destruct (cfd_valid_days (days_of c + -7) ltac:(lia)) as [V E].
    eexists; split; [reflexivity|]. split; [exact V|].
    assert (EM : monday_of (civil_from_days (days_of c + -7)) = monday_of c - 7).
    { unfold monday_of, weekday. rewrite E. Z.div_mod_to_equations; lia. }
    rewrite EM. split; [lia|].
    destruct (days_cfd (monday_of c - 7 + 6)) as [_ ->]. destruct (days_cfd (monday_of c)) as [_ ->]. lia.
  - destruct (month_previous_spec c Hv Hp) as (p & E & V & P). exists p. split; [exact E|]. split; [exact V|]. split; [exact I|].
    unfold prev_month in P. unfold days_of, mk. cbn [c_year c_month c_day].
    pose proof (valid_fields _ V) as (_ & Hpm & _).
    rewrite days_month_end by exact Hpm.
    destruct (c_month c =? 1) eqn:E1; injection P as -> ->.
    + eval_closed. replace (c_year c - 1 + 1) with (c_year c) by lia. replace (c_month c) with 1 by lia. reflexivity.
    + destruct (c_month c - 1 <? 12) eqn:E2; [|lia]. replace (c_month c - 1 + 1) with (c_month c) by lia. reflexivity.
  - destruct (quarter_previous_spec c Hv Hp) as (p & E & V & P). exists p. split; [exact E|]. split; [exact V|]. split; [exact I|].
    pose proof (valid_fields _ V) as (_ & Hpm & _). pose proof (quarter_spec p Hpm) as [Hpq _].
    pose proof (quarter_spec c Hm) as [Hq _].
    rewrite q_last_next by exact Hpq. unfold prev_quarter in P.
    destruct (quarter c =? 1) eqn:E1; injection P as -> ->.
    + eval_closed. replace (c_year c - 1 + 1) with (c_year c) by lia. replace (quarter c) with 1 by lia. reflexivity.
    + destruct (quarter c - 1 =? 4) eqn:E2; [lia|]. replace (quarter c - 1 + 1) with (quarter c) by lia. reflexivity.
  - rewrite year_previous_spec by assumption. eexists; split; [reflexivity|].
    split; [apply valid_mk; unfold days_in_month; eval_closed; lia|]. split; [exact I|].
    unfold mk, days_of; cbn [c_year c_month c_day].
    pose proof (days_month_end (c_year c - 1) 12 ltac:(lia)) as S. revert S. unfold days_in_month. eval_closed.
    replace (c_year c - 1 + 1) with (c_year c) by lia. tauto.
Qed.


(* ---- the unrepresentable periods, as dates ---- *)
Definition week_edge (c : cdate) : Prop :=
  (c_year c = 0 /\ c_month c = 1 /\ c_day c <= 2) \/ (c_year c = 9999 /\ c_month c = 12 /\ 27 <= c_day c).

Definition period_edge (k : kind) (c : cdate) : Prop :=
  match k with KWeek => week_edge c | _ => False end.

Definition previous_edge (k : kind) (c : cdate) : Prop :=
  match k with
  | KWeek => c_year c = 0 /\ c_month c = 1 /\ c_day c <= 9
  | KMonth => c_year c = 0 /\ c_month c = 1
  | KQuarter => c_year c = 0 /\ c_month c <= 3
  | KYear => c_year c = 0
  end.

Lemma days_ge_date c y m d : wf_date c -> wf_date (mk y m d) ->
  (days_from_civil y m d <= days_of c <->
   y < c_year c \/ (y = c_year c /\ (m < c_month c \/ (m = c_month c /\ d <= c_day c)))).
Proof. intros Hc Hd. apply (days_le_lex (mk y m d) c Hd Hc). Qed.

Lemma days_le_date c y m d : wf_date c -> wf_date (mk y m d) ->
  (days_of c <= days_from_civil y m d <->
   c_year c < y \/ (c_year c = y /\ (c_month c < m \/ (c_month c = m /\ c_day c <= d)))).
Proof. intros Hc Hd. apply (days_le_lex c (mk y m d) Hc Hd). Qed.

Lemma representable_iff k c : valid c -> (representable k c <-> ~ period_edge k c).
Proof.
  intros Hv. destruct k; cbn [representable period_edge]; try tauto.
  pose proof (valid_fields _ Hv) as (Hy & Hm & Hd). pose proof (valid_days _ Hv) as [Hw Hz].
  assert (R : (D0 <= monday_of c /\ monday_of c + 6 <= D1) <-> (D0 + 2 <= days_of c <= D1 - 5)).
  { unfold monday_of, weekday, D0, D1. Z.div_mod_to_equations. lia. }
  rewrite R. change (D0 + 2) with (days_from_civil 0 1 3). change (D1 - 5) with (days_from_civil 9999 12 26).
  rewrite (days_ge_date c 0 1 3 Hw) by (apply wf_mk; unfold days_in_month; eval_closed; lia).
  rewrite (days_le_date c 9999 12 26 Hw) by (apply wf_mk; unfold days_in_month; eval_closed; lia).
  pose proof (dim_bounds (c_year c) (c_month c)). unfold week_edge. lia.
Qed.

Lemma prev_representable_iff k c : valid c -> (prev_representable k c <-> ~ previous_edge k c).
Proof.
  intros Hv. pose proof (valid_fields _ Hv) as (Hy & Hm & Hd). pose proof (valid_days _ Hv) as [Hw Hz].
  destruct k; cbn [prev_representable previous_edge].
  - assert (R : D0 + 7 <= monday_of c <-> D0 + 9 <= days_of c).
    { unfold monday_of, weekday, D0. Z.div_mod_to_equations. lia. }
    rewrite R. change (D0 + 9) with (days_from_civil 0 1 10).
    rewrite (days_ge_date c 0 1 10 Hw) by (apply wf_mk; unfold days_in_month; eval_closed; lia). lia.
  - tauto.
  - pose proof (quarter_spec c Hm). lia.
  - lia.
Qed.

Lemma classic_repr k c : valid c -> representable k c \/ ~ representable k c.
Proof. intros _. destruct k; cbn [representable]; try (left; exact I). lia. Qed.

(* ---- the final form of the tiling theorems ---- *)
Theorem period_tiles k c : valid c -> ~ period_edge k c ->
  exists s u, period_of k c = Ok (s, u) /\ valid s /\ valid u /\ days_of s <= days_of c <= days_of u
    /\ first_last_ok k s u
    /\ (forall c', valid c' -> days_of s <= days_of c' <= days_of u -> period_of k c' = Ok (s, u)).
Proof.
  intros Hv He. apply representable_iff in He; [|exact Hv].
  exists (pstart k c), (pend k c).
  destruct (pstart_pend_bounds k c Hv He) as (V1 & V2 & B).
  split; [apply period_spec; assumption|]. split; [exact V1|]. split; [exact V2|]. split; [exact B|].
  split; [apply pstart_pend_first_last; exact Hv|].
  intros c' Hv' Hin. destruct (period_same k c c' Hv He Hv' Hin) as (E1 & E2 & R).
  rewrite period_spec by assumption. rewrite E1, E2. reflexivity.
Qed.

Theorem period_edge_crash k c : valid c -> period_edge k c -> period_of k c = Crash CUnrepresentableDate.
Proof.
  intros Hv He. apply period_crash; [exact Hv|]. intro R. apply representable_iff in R; [|exact Hv]. tauto.
Qed.

Theorem previous_period_adjacent k c : valid c -> ~ previous_edge k c ->
  exists s' u', previous_period k c = Ok (s', u') /\ valid s' /\ valid u' /\ days_of s' <= days_of u' < days_of c
    /\ first_last_ok k s' u'
    /\ period_of k u' = Ok (s', u')
    /\ (forall s u, period_of k c = Ok (s, u) -> next_day u' = s /\ days_of u' + 1 = days_of s).
Proof.
  intros Hv He. apply prev_representable_iff in He; [|exact Hv].
  destruct (previous_spec k c Hv He) as (p & Ep & Vp & Rp & Adj).
  exists (pstart k p), (pend k p).
  destruct (pstart_pend_bounds k p Vp Rp) as (V1 & V2 & B).
  unfold previous_period. rewrite Ep. cbn [bind].
  split; [apply period_spec; assumption|]. split; [exact V1|]. split; [exact V2|].
  assert (Hlt : days_of (pend k p) < days_of c).
  { destruct (classic_repr k c Hv) as [R|R].
    - destruct (pstart_pend_bounds k c Hv R) as (_ & _ & Bc). lia.
    - (* only the last week: its Monday is still a date *)
      destruct k; cbn [representable] in R; try tauto. cbn [pstart] in Adj.
      destruct (days_cfd (monday_of c)) as [_ E]. rewrite E in Adj. pose proof (monday_of_spec c). lia. }
  split; [lia|].
  split; [apply pstart_pend_first_last; exact Vp|].
  split.
  - destruct (period_same k p (pend k p) Vp Rp V2 ltac:(lia)) as (E1 & E2 & R).
    rewrite period_spec by assumption. rewrite E1, E2. reflexivity.
  - intros s u Hp.
    assert (R : representable k c).
    { destruct (classic_repr k c Hv) as [R|R]; [exact R|]. rewrite period_crash in Hp by assumption. discriminate. }
    rewrite period_spec in Hp by assumption. injection Hp as <- <-.
    destruct (pstart_pend_bounds k c Hv R) as (Vs & _ & _).
    apply valid_days in V2 as [W2 _]. apply valid_days in Vs as [Ws _].
    split; [|exact Adj]. apply days_inj; [apply wf_next; exact W2 | exact Ws |]. rewrite days_next by exact W2. exact Adj.
Qed.


(* ---- Previous() where there is no previous period inside the calendar: a panic, by enumeration of year 0000 ---- *)
Definition previous_edge_b (k : kind) (c : cdate) : bool :=
  match k with
  | KWeek => (c_year c =? 0) && (c_month c =? 1) && (c_day c <=? 9)
  | KMonth => (c_year c =? 0) && (c_month c =? 1)
  | KQuarter => (c_year c =? 0) && (c_month c <=? 3)
  | KYear => c_year c =? 0
  end.

Definition prev_edge_check1 (k : kind) (c : cdate) : bool :=
  negb (previous_edge_b k c) || is_crash (previous_period k c).

Definition prev_edge_check (y m d : Z) : bool :=
  negb (valid_ymd y m d) ||
  (prev_edge_check1 KWeek (mk y m d) && prev_edge_check1 KMonth (mk y m d)
   && prev_edge_check1 KQuarter (mk y m d) && prev_edge_check1 KYear (mk y m d)).

Lemma prev_edge_sweep : sweep3 prev_edge_check 1 12 31 0 1 1 = true.
Proof. vm_cast_no_check (eq_refl true). Qed.

Theorem previous_edge_crash k c : valid c -> previous_edge k c -> is_crash (previous_period k c) = true.
Proof.
  intros Hv He. pose proof (valid_fields _ Hv) as (Hy & Hm & Hd). pose proof (dim_bounds (c_year c) (c_month c)).
  assert (Y0 : c_year c = 0) by (destruct k; cbn [previous_edge] in He; tauto).
  assert (C : prev_edge_check (c_year c) (c_month c) (c_day c) = true).
  { apply (sweep3_sound prev_edge_check 1 12 31 0 1 1 prev_edge_sweep); change (Z.of_nat 1) with 1; change (Z.of_nat 12) with 12; change (Z.of_nat 31) with 31; lia. }
  unfold prev_edge_check in C. rewrite <- eta_cdate in C.
  unfold valid, valid_cdate in Hv. rewrite Hv in C. cbn [negb orb] in C.
  assert (C1 : prev_edge_check1 k c = true) by (destruct k; lia).
  unfold prev_edge_check1 in C1.
  assert (B : previous_edge_b k c = true) by (destruct k; cbn [previous_edge previous_edge_b] in *; lia).
  rewrite B in C1. exact C1.
Qed.

(* ================= Hash ================= *)

Lemma land_low_high a b n : 0 <= n -> 0 <= a < 2 ^ n -> Z.land a (Z.shiftl b n) = 0.
Proof.
  intros Hn Ha. apply Z.bits_inj'. intros i Hi. rewrite Z.land_spec, Z.bits_0.
  destruct (Z_lt_le_dec i n) as [L|G].
  - rewrite (Z.shiftl_spec_low b n i L). apply andb_false_r.
  - destruct (Z.eq_dec a 0) as [->|Na]; [rewrite Z.bits_0; reflexivity|].
    rewrite (Z.bits_above_log2 a i); [reflexivity | lia |].
    apply Z.lt_le_trans with n; [|exact G]. apply Z.log2_lt_pow2; lia.
Qed.

Lemma lor_low_high a b n : 0 <= n -> 0 <= a < 2 ^ n -> Z.lor a (Z.shiftl b n) = a + b * 2 ^ n.
Proof.
  intros Hn Ha. rewrite <- Z.shiftl_mul_pow2 by exact Hn.
  rewrite <- Z.lxor_lor by (apply land_low_high; assumption).
  symmetry. apply Z.add_nocarry_lxor. apply land_low_high; assumption.
Qed.

Lemma lor_low_mul a b n : 0 <= n -> 0 <= a < 2 ^ n -> Z.lor a (b * 2 ^ n) = a + b * 2 ^ n.
Proof. intros Hn Ha. rewrite <- (lor_low_high a b n Hn Ha). rewrite Z.shiftl_mul_pow2 by exact Hn. reflexivity. Qed.

(* one populate step on a field value that fits *)
Lemma populate_small b v maxv : 0 <= bm_consumed b -> bm_consumed b + max_bits maxv <= 32 ->
  0 <= bm_value b < 2 ^ bm_consumed b -> 0 <= v -> v * 2 ^ bm_consumed b < two32 ->
  bm_populate b v maxv = Ok {| bm_value := bm_value b + v * 2 ^ bm_consumed b; bm_consumed := bm_consumed b + max_bits maxv |}.
Proof.
  intros Hc Hm Hv Hv0 Hs. unfold bm_populate.
  destruct (32 <? bm_consumed b + max_bits maxv) eqn:E; [lia|].
  f_equal. f_equal.
  assert (P : 0 < 2 ^ bm_consumed b) by (apply Z.pow_pos_nonneg; lia).
  assert (Hv32 : v < two32) by nia.
  unfold to_uint32. rewrite (Z.mod_small v two32) by lia.
  rewrite Z.shiftl_mul_pow2 by exact Hc. rewrite Z.mod_small by nia.
  apply lor_low_mul; assumption.
Qed.

Ltac hash_side :=
  cbn [bm_new bm_value bm_consumed];
  repeat (match goal with |- context[max_bits ?n] =>
            let v := eval vm_compute in (max_bits n) in change (max_bits n) with v end);
  repeat (match goal with |- context[2 ^ ?n] =>
            let v := eval vm_compute in (2 ^ n) in
            match v with Zpos _ => idtac end; change (2 ^ n) with v end);
  change two32 with 4294967296; lia.

Lemma max_bits_vals : max_bits 31 = 6 /\ max_bits 12 = 5 /\ max_bits 10000 = 15 /\ max_bits 53 = 7 /\ max_bits 4 = 3.
Proof. repeat split; reflexivity. Qed.

(* the hashes as numbers *)
Lemma day_hash_val c : valid c -> day_hash c = Ok (c_day c + 64 * c_month c + 2048 * c_year c).
Proof.
  intros Hv. pose proof (valid_fields _ Hv) as (Hy & Hm & Hd). pose proof (dim_bounds (c_year c) (c_month c)).
  unfold day_hash.
  rewrite (populate_small bm_new (c_day c) 31) by hash_side. cbn [bm_new bm_value bm_consumed bind].
  change (0 + max_bits 31) with 6. change (2 ^ 0) with 1.
  rewrite populate_small; cbn [bm_value bm_consumed]; try hash_side.
  cbn [bind]. change (6 + max_bits 12) with 11. change (2 ^ 6) with 64.
  rewrite populate_small; cbn [bm_value bm_consumed]; try hash_side.
  cbn [bm_result bind bm_value]. change (2 ^ 11) with 2048. f_equal. lia.
Qed.

Lemma month_hash_val c : valid c -> month_hash c = Ok (c_month c + 32 * c_year c).
Proof.
  intros Hv. pose proof (valid_fields _ Hv) as (Hy & Hm & Hd).
  unfold month_hash.
  rewrite (populate_small bm_new (c_month c) 12) by hash_side. cbn [bm_new bm_value bm_consumed bind].
  change (0 + max_bits 12) with 5. change (2 ^ 0) with 1.
  rewrite populate_small; cbn [bm_value bm_consumed]; try hash_side.
  cbn [bm_result bind bm_value]. change (2 ^ 5) with 32. f_equal. lia.
Qed.

Lemma quarter_hash_val c : valid c -> quarter_hash c = Ok (quarter c + 8 * c_year c).
Proof.
  intros Hv. pose proof (valid_fields _ Hv) as (Hy & Hm & Hd). pose proof (quarter_spec c Hm) as [Hq _].
  unfold quarter_hash.
  rewrite (populate_small bm_new (quarter c) 4) by hash_side. cbn [bm_new bm_value bm_consumed bind].
  change (0 + max_bits 4) with 3. change (2 ^ 0) with 1.
  rewrite populate_small; cbn [bm_value bm_consumed]; try hash_side.
  cbn [bm_result bind bm_value]. change (2 ^ 3) with 8. f_equal. lia.
Qed.

Lemma year_hash_val c : valid c -> year_hash c = Ok (c_year c).
Proof.
  intros Hv. pose proof (valid_fields _ Hv) as (Hy & Hm & Hd).
  unfold year_hash.
  rewrite (populate_small bm_new (c_year c) 10000) by hash_side. cbn [bm_new bm_value bm_consumed bind bm_result].
  change (2 ^ 0) with 1. f_equal. lia.
Qed.

(* the ISO year of 0000-01-01 and 0000-01-02 is -1: uint32(-1) << 7 wraps to 2^32 - 128 *)
Definition week_year_code (y : Z) : Z := if y <? 0 then 33554431 else y.

Lemma week_hash_val c : valid c ->
  week_hash c = Ok (snd (iso_week c) + 128 * week_year_code (fst (iso_week c))).
Proof.
  intros Hv. pose proof (valid_fields _ Hv) as (Hy & Hm & Hd). pose proof (valid_days _ Hv) as [Hw _].
  pose proof (iso_year_near c Hw) as Yn. pose proof (iso_week_range c Hw) as Wr.
  pose proof (week1_step (fst (iso_week c))) as [_ Ww].
  unfold week_hash. destruct (iso_week c) as [y w]. cbn [fst snd] in *.
  rewrite (populate_small bm_new w 53) by hash_side. cbn [bm_new bm_value bm_consumed bind].
  change (0 + max_bits 53) with 7. change (2 ^ 0) with 1. unfold week_year_code.
  destruct (y <? 0) eqn:E.
  - assert (y = -1) by lia. subst y. unfold bm_populate. cbn [bm_value bm_consumed].
    change (32 <? 7 + max_bits 10000) with false. cbv iota. cbn [bm_result bind bm_value].
    change (Z.shiftl (to_uint32 (-1)) 7 mod two32) with (33554431 * 2 ^ 7).
    rewrite lor_low_mul by (change (2 ^ 7) with 128; lia). change (2 ^ 7) with 128. f_equal. lia.
  - rewrite populate_small; cbn [bm_value bm_consumed]; try hash_side.
    cbn [bm_result bind bm_value]. change (2 ^ 7) with 128. f_equal. lia.
Qed.

(* two dates fall into the same report bucket exactly when they lie in the same period *)
Definition same_period (k : kind) (a b : cdate) : Prop :=
  match k with
  | KWeek => monday_of a = monday_of b
  | KMonth => c_year a = c_year b /\ c_month a = c_month b
  | KQuarter => c_year a = c_year b /\ quarter a = quarter b
  | KYear => c_year a = c_year b
  end.

Theorem hash_eq_iff_same_period k a b : valid a -> valid b ->
  exists ha hb, hash_of k a = Ok ha /\ hash_of k b = Ok hb /\ (ha = hb <-> same_period k a b).
Proof.
  intros Va Vb. pose proof (valid_fields _ Va) as (Hya & Hma & Hda). pose proof (valid_fields _ Vb) as (Hyb & Hmb & Hdb).
  destruct k; cbn [hash_of same_period].
  - rewrite (week_hash_val a Va), (week_hash_val b Vb). eexists; eexists; split; [reflexivity|]. split; [reflexivity|].
    pose proof (valid_days _ Va) as [Wa _]. pose proof (valid_days _ Vb) as [Wb _].
    rewrite <- (iso_week_iff a b Wa Wb).
    pose proof (iso_year_near a Wa). pose proof (iso_year_near b Wb).
    pose proof (iso_week_range a Wa). pose proof (iso_week_range b Wb).
    pose proof (week1_step (fst (iso_week a))) as [_ ?]. pose proof (week1_step (fst (iso_week b))) as [_ ?].
    destruct (iso_week a) as [ya wa], (iso_week b) as [yb wb]. cbn [fst snd] in *. unfold week_year_code.
    split.
    + intros HH. destruct (ya <? 0) eqn:Ea; destruct (yb <? 0) eqn:Eb; f_equal; lia.
    + intros [= -> ->]. reflexivity.
  - rewrite (month_hash_val a Va), (month_hash_val b Vb). eexists; eexists; split; [reflexivity|]. split; [reflexivity|]. lia.
  - rewrite (quarter_hash_val a Va), (quarter_hash_val b Vb). eexists; eexists; split; [reflexivity|]. split; [reflexivity|].
    pose proof (quarter_spec a Hma). pose proof (quarter_spec b Hmb). lia.
  - rewrite (year_hash_val a Va), (year_hash_val b Vb). eexists; eexists; split; [reflexivity|]. split; [reflexivity|]. lia.
Qed.

Theorem day_hash_eq_iff a b : valid a -> valid b ->
  exists ha hb, day_hash a = Ok ha /\ day_hash b = Ok hb /\ (ha = hb <-> a = b).
Proof.
  intros Va Vb. pose proof (valid_fields _ Va) as (Hya & Hma & Hda). pose proof (valid_fields _ Vb) as (Hyb & Hmb & Hdb).
  pose proof (dim_bounds (c_year a) (c_month a)). pose proof (dim_bounds (c_year b) (c_month b)).
  rewrite (day_hash_val a Va), (day_hash_val b Vb). eexists; eexists; split; [reflexivity|]. split; [reflexivity|].
  split.
  - intros E. rewrite (eta_cdate a), (eta_cdate b). unfold mk. f_equal; lia.
  - intros ->. reflexivity.
Qed.

Lemma ok_pair_inj {A B : Type} (a a' : A) (b b' : B) : @Ok (A * B) (a, b) = Ok (a', b') -> a = a' /\ b = b'.
Proof. intros H. inversion H. auto. Qed.

Lemma mk_inj y m d y' m' d' : mk y m d = mk y' m' d' -> y = y' /\ m = m' /\ d = d'.
Proof. unfold mk. intros H. inversion H. auto. Qed.

(* same bucket = same period in the sense of Period(): for dates whose period is representable *)
Theorem same_period_iff_period_eq k a b : valid a -> valid b -> ~ period_edge k a -> ~ period_edge k b ->
  (same_period k a b <-> period_of k a = period_of k b).
Proof.
  intros Va Vb Ea Eb. apply representable_iff in Ea; [|exact Va]. apply representable_iff in Eb; [|exact Vb].
  rewrite !period_spec by assumption.
  pose proof (valid_fields _ Va) as (Hya & Hma & Hda). pose proof (valid_fields _ Vb) as (Hyb & Hmb & Hdb).
  destruct k; cbn [same_period pstart pend].
  - split.
    + intros ->. reflexivity.
    + intros E. apply ok_pair_inj in E as [E _].
      destruct (days_cfd (monday_of a)) as [_ Ha]. destruct (days_cfd (monday_of b)) as [_ Hb].
      rewrite <- Ha, <- Hb, E. reflexivity.
  - split.
    + intros [-> ->]. reflexivity.
    + intros E. apply ok_pair_inj in E as [E _]. apply mk_inj in E. tauto.
  - split.
    + intros [-> ->]. reflexivity.
    + intros E. apply ok_pair_inj in E as [E _]. unfold q_first in E. apply mk_inj in E.
      pose proof (quarter_spec a Hma). pose proof (quarter_spec b Hmb). lia.
  - split.
    + intros ->. reflexivity.
    + intros E. apply ok_pair_inj in E as [E _]. apply mk_inj in E. tauto.
Qed.

(* ================= the calendar theorems in the form stated in Properties/C15.v ================= *)

Theorem civil_days_roundtrip :
  (forall c, valid c -> civil_from_days (days_of c) = c) /\
  (forall z, days_of (mk 0 1 1) <= z <= days_of (mk 9999 12 31) ->
             valid (civil_from_days z) /\ days_of (civil_from_days z) = z).
Proof.
  split.
  - intros c Hv. apply cfd_days. apply valid_days in Hv. tauto.
  - intros z Hz. apply cfd_valid_days. exact Hz.
Qed.

Theorem days_next_day c : valid c -> c <> mk 9999 12 31 ->
  valid (next_day c) /\ days_of (next_day c) = days_of c + 1.
Proof.
  intros Hv Hn. destruct (plus_days_next c Hv Hn) as [_ V]. split; [exact V|].
  apply days_next. apply valid_days in Hv. tauto.
Qed.

Theorem date_order a b : valid a -> valid b -> (cdate_geb a b = true <-> days_of b <= days_of a).
Proof. intros Ha Hb. apply valid_days in Ha as [Wa _]. apply valid_days in Hb as [Wb _]. apply cdate_geb_days; assumption. Qed.

Theorem plus_days_full_spec c n : valid c ->
  (forall r, plus_days c n = Ok r <-> (valid r /\ days_of r = days_of c + n)) /\
  (plus_days c n = Crash CUnrepresentableDate <-> ~ exists r, valid r /\ days_of r = days_of c + n) /\
  (forall e, plus_days c n <> Err e).
Proof.
  intros Hv. pose proof (valid_days _ Hv) as [Hw Hr]. rewrite plus_days_spec by exact Hw.
  destruct ((D0 <=? days_of c + n) && (days_of c + n <=? D1)) eqn:E.
  - destruct (cfd_valid_days (days_of c + n) ltac:(lia)) as [V Ed].
    split; [|split].
    + intros r. split.
      * intros [= <-]. split; assumption.
      * intros [Vr Er]. f_equal. apply valid_days in Vr as [Wr _]. rewrite <- Er. apply cfd_days. exact Wr.
    + split; [discriminate|]. intros H. exfalso. apply H. eexists; split; eassumption.
    + discriminate.
  - split; [|split].
    + intros r. split; [discriminate|]. intros [Vr Er]. apply valid_days in Vr as [_ Rr]. lia.
    + split; [|reflexivity]. intros _ (r & Vr & Er). apply valid_days in Vr as [_ Rr]. lia.
    + discriminate.
Qed.

Theorem weekday_spec :
  (forall c, 1 <= weekday c <= 7) /\
  weekday (mk 1970 1 1) = 4 /\
  (forall c, valid c -> c <> mk 9999 12 31 -> weekday (next_day c) = weekday c mod 7 + 1).
Proof.
  split; [exact weekday_range|]. split; [exact weekday_epoch|].
  intros c Hv _. apply weekday_next. apply valid_days in Hv. tauto.
Qed.

Theorem iso_week_spec :
  (forall a b, valid a -> valid b -> (iso_week a = iso_week b <-> monday_of a = monday_of b)) /\
  (forall c, valid c -> monday_of c <= days_of c <= monday_of c + 6 /\ weekday c = days_of c - monday_of c + 1) /\
  (forall y, iso_week (mk y 1 4) = (y, 1)) /\
  (forall a b, valid a -> valid b -> days_of b = days_of a + 7 ->
     let y := fst (iso_week a) in let w := snd (iso_week a) in
     1 <= w <= weeks_in_year y /\ 52 <= weeks_in_year y <= 53 /\
     ((w < weeks_in_year y /\ iso_week b = (y, w + 1)) \/ (w = weeks_in_year y /\ iso_week b = (y + 1, 1)))) /\
  (forall c, valid c -> c_year c - 1 <= fst (iso_week c) <= c_year c + 1).
Proof.
  split; [|split; [|split; [|split]]].
  - intros a b Ha Hb. apply valid_days in Ha as [Wa _]. apply valid_days in Hb as [Wb _]. apply iso_week_iff; assumption.
  - intros c _. pose proof (monday_of_spec c) as [B _]. split; [exact B|]. unfold monday_of. lia.
  - exact iso_week_jan4.
  - intros a b Ha Hb H. cbv zeta. apply valid_days in Ha as [Wa _]. apply valid_days in Hb as [Wb _].
    split; [apply iso_week_range; exact Wa|]. split; [apply week1_step|]. apply iso_week_succ; assumption.
  - intros c Hv. apply iso_year_near. apply valid_days in Hv. tauto.
Qed.

Theorem quarter_valid_spec c : valid c -> 1 <= quarter c <= 4 /\ 3 * quarter c - 2 <= c_month c <= 3 * quarter c.
Proof. intros Hv. apply quarter_spec. apply valid_fields in Hv. tauto. Qed.
