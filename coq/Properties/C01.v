(* C01 — the parser accepts exactly spec-conforming files and extracts the denoted data.
   Property theorems only; each is closed by [exact <lemma>] and followed by Print Assumptions.
   The specification is the formal object Spec/Spec.v (syntax tree, wf, render, denote).

   LAYER REACHED: L3 — the acceptance half is closed at full strength (C01_parse_conforming: every well-formed
   specification document is accepted and parses to exactly the denoted records). The layers below it (L0 value
   literals, L1 entry value line, L2 record) are kept as theorems of their own. The rejection half (L4) is stated for
   the fault classes proved so far; see the end of the file. *)
From Klog Require Import Base.Prelude Base.Utf8 Model.Calendar Model.Values Model.Record Model.Lines Model.Parser
  Spec.Spec Proofs.SpecValues Proofs.SpecEntry Proofs.SpecRecord Proofs.SpecDoc.
Open Scope Z_scope.

(* ---------- L0: value literals ---------- *)

(* every time literal of the specification (optional leading zero, 24-hour / am / pm, 24:00 and <24:00, shifts) *)
Theorem C01_time_literal : forall t, wf_time t = true -> parse_time (render_time t) = Ok (denote_time t).
Proof. exact parse_render_time. Qed.
Print Assumptions C01_time_literal.

(* every date literal: all Gregorian dates 0000-9999, both separators *)
Theorem C01_date_literal : forall d, wf_date d = true -> parse_date (render_date d) = Ok (denote_date d).
Proof. exact parse_render_date. Qed.
Print Assumptions C01_date_literal.

(* every duration literal (sign x optional hours x optional minutes, any leading zeros, minutes < 60 when hours are
   present) whose amount fits int64 *)
Theorem C01_duration_literal : forall d, wf_dur d = true -> parse_duration (render_dur d) = Ok (denote_dur d).
Proof. exact parse_render_dur. Qed.
Print Assumptions C01_duration_literal.

(* the int64 guard of wf_dur is exact: beyond it the value constructor panics (finding K5) *)
Theorem C01_duration_literal_guard_exact : forall d, dur_shape d = true -> max_int64 < dur_amount d ->
  exists c, parse_duration (render_dur d) = Crash c.
Proof. exact parse_render_dur_overflow. Qed.
Print Assumptions C01_duration_literal_guard_exact.

(* ---------- L1: the value on an entry line ---------- *)

(* after any prefix (the indentation), followed by the end of the line or one space and arbitrary text *)
Theorem C01_entry_value : forall ln pre v tail, wf_value v = true -> tail_ok tail ->
  parse_entry_value ln (pre ++ render_value v ++ tail) (length pre)
  = ev_of (denote_value v) (length pre) (length pre + length (render_value v)).
Proof. exact parse_entry_value_spec. Qed.
Print Assumptions C01_entry_value.

(* ---------- L2: one record ---------- *)

(* a block whose significant lines are the lines of a specification record (headline with optional should-total and
   trailing blanks, summary lines, entries indented in one of the four styles, continuation lines), with any blank lines
   before and after and any line endings *)
Theorem C01_record : forall r b head sig tail, wf_record r = true ->
  b_lines b = head ++ sig ++ tail ->
  forallb is_blank head = true -> forallb is_blank tail = true ->
  map l_text sig = map utf8_encode (record_texts r) ->
  parse_record b = Ok (inl (denote_record r)).
Proof. exact parse_record_spec. Qed.
Print Assumptions C01_record.

(* ---------- L3: the document — acceptance and extraction in one statement ---------- *)

Theorem C01_parse_conforming : forall d, wf d ->
  parse_text (render d) = Ok (Parsed (denote d) (blocks_of (render d))).
Proof. exact parse_conforming. Qed.
Print Assumptions C01_parse_conforming.

(* ---------- non-vacuity ---------- *)

Example C01_time_nonvacuous :
  wf_time {| st_shift := -1; st_hh := 24; st_pad := false; st_mm := 0; st_clock := C24 |} = true
  /\ render_time {| st_shift := -1; st_hh := 24; st_pad := false; st_mm := 0; st_clock := C24 |} = b!"<24:00"
  /\ wf_time {| st_shift := 1; st_hh := 9; st_pad := true; st_mm := 5; st_clock := CPm |} = true
  /\ render_time {| st_shift := 1; st_hh := 9; st_pad := true; st_mm := 5; st_clock := CPm |} = b!"09:05pm>".
Proof. repeat split; reflexivity. Qed.

Example C01_duration_nonvacuous :
  wf_dur {| du_sign := SMinus; du_h := Some b!"007"; du_m := Some b!"05" |} = true
  /\ render_dur {| du_sign := SMinus; du_h := Some b!"007"; du_m := Some b!"05" |} = b!"-007h05m"
  /\ d_mins (denote_dur {| du_sign := SMinus; du_h := Some b!"007"; du_m := Some b!"05" |}) = -425.
Proof. repeat split; reflexivity. Qed.

Example C01_entry_value_nonvacuous :
  let v := SRange {| st_shift := -1; st_hh := 11; st_pad := false; st_mm := 30; st_clock := CPm |} 0 2
                  {| st_shift := 0; st_hh := 24; st_pad := false; st_mm := 0; st_clock := C24 |} in
  wf_value v = true /\ render_value v = b!"<11:30pm-  24:00" /\ tail_ok b!" 8:00-9:00 1h".
Proof. repeat split; reflexivity. Qed.

(* a three-record document: all entry kinds, two indentation styles, CRLF on some lines, no final newline *)
Definition t_ (s h m : Z) (c : clock) : s_time := {| st_shift := s; st_hh := h; st_pad := false; st_mm := m; st_clock := c |}.
Definition example_doc : s_doc :=
  {| do_lead := [b!" "];
     do_records :=
       [ ({| sr_date := {| sd_year := 2024; sd_month := 2; sd_day := 29; sd_dash := true |};
             sr_should := Some (1%nat, {| du_sign := SNone; du_h := Some b!"8"; du_m := None |});
             sr_trail := b!" ";
             sr_summary := [b!"Leap day #work"];
             sr_indent := I4;
             sr_entries := [ {| se_value := SRange (t_ (-1) 11 30 CPm) 1 1 (t_ 0 24 0 C24); se_first := Some b!"8:00-9:00 1h"; se_more := [b!"  more"] |};
                             {| se_value := SDur {| du_sign := SMinus; du_h := Some b!"01"; du_m := Some b!"05" |}; se_first := None; se_more := [] |};
                             {| se_value := SOpen (t_ 0 9 0 C24) 0 2 2; se_first := Some []; se_more := [] |} ] |}, [[]; b!"	"]);
         ({| sr_date := {| sd_year := 0; sd_month := 1; sd_day := 1; sd_dash := false |};
             sr_should := None; sr_trail := []; sr_summary := []; sr_indent := ITab;
             sr_entries := [ {| se_value := SDur {| du_sign := SPlus; du_h := None; du_m := Some b!"0" |}; se_first := None; se_more := [] |} ] |}, [[]]);
         ({| sr_date := {| sd_year := 9999; sd_month := 12; sd_day := 31; sd_dash := true |};
             sr_should := None; sr_trail := []; sr_summary := []; sr_indent := I2; sr_entries := [] |}, []) ];
     do_crlf := fun i => Nat.even i;
     do_final_newline := false |}.

Example C01_conforming_nonvacuous :
  wf example_doc
  /\ length (denote example_doc) = 3%nat
  /\ render example_doc =
     b!" " ++ [13; 10]%N ++ b!"2024-02-29  (8h!) " ++ [10%N] ++ b!"Leap day #work" ++ [13; 10]%N
     ++ b!"    <11:30pm - 24:00 8:00-9:00 1h" ++ [10%N] ++ b!"          more" ++ [13; 10]%N
     ++ b!"    -01h05m" ++ [10%N] ++ b!"    9:00-  ??? " ++ [13; 10]%N ++ [10%N] ++ [9; 13; 10]%N
     ++ b!"0000/01/01" ++ [10%N] ++ [9%N] ++ b!"+0m" ++ [13; 10]%N ++ [10%N] ++ b!"9999-12-31".
Proof. split; [vm_compute; reflexivity|]. split; vm_compute; reflexivity. Qed.
