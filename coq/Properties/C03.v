(* C03 — mutating commands touch only the lines they are defined to change.
   Property theorems only; each is closed by [exact <lemma>] and followed by Print Assumptions.
   Model: Model/Reconcile.v (insert, update_line, replace_placeholder, replace_value_token, the operations and the two
   creators) after fix F7, and Model/Commands.v (exec_simple, pause_reconcile).
   The relation (Proofs/Reconcile.v):
     edit ch c n before after   every line of [before] is in [after], in the original order, with its text and its
                                line ending — except that at most [c] lines have their text rewritten as [ch] allows,
                                and that a line WITHOUT ending may gain one when lines are added directly after it;
                                everything else in [after] is added lines, in at most [n] contiguous blocks
     rewrites                   compositions of: the leftmost run of `?` replaced / the value token (first token after
                                the leading blanks) replaced / text appended at the end
   C03_edit_embeds spells the relation out line by line; the *_shape theorems give the exact result of every
   operation, of which the edit statements are the summary.
   Stated on line lists: the file that is written is [text_of_lines after], the lines the reconciler starts from are
   the file's own lines (C03_start_lines), or none for a file of blank lines only — the one case in which the
   property allows wholesale replacement. *)
From Klog Require Import Base.Prelude Model.Calendar Model.Values Model.Record Model.Lines Model.Parser
  Model.Reconcile Model.Commands Proofs.Style Proofs.Reconcile Proofs.Commands.
Open Scope Z_scope.

(* 1. insert: the old lines with the block of new lines spliced in at [idx]; the line before the block gets the
      style's line ending if it had none *)
Theorem C03_insert_splice : forall st idx texts ls ls', insert st idx texts ls = Ok ls' ->
  exists pre post, ls = pre ++ post /\ zlen pre = idx /\
    ls' = give_ending_to_last (sp_val (st_eol st)) pre ++ map (mk_inserted st) texts ++ post.
Proof. exact insert_splice. Qed.
Print Assumptions C03_insert_splice.

Theorem C03_insert_defined : forall st idx texts ls, 0 <= idx <= zlen ls ->
  insert st idx texts ls =
    Ok (give_ending_to_last (sp_val (st_eol st)) (firstn (Z.to_nat idx) ls) ++ map (mk_inserted st) texts ++ skipn (Z.to_nat idx) ls).
Proof. exact insert_ok. Qed.
Print Assumptions C03_insert_defined.

Theorem C03_give_ending : forall eol pre l,
  give_ending_to_last eol [] = [] /\
  give_ending_to_last eol (pre ++ [l]) = pre ++ [gain eol l] /\
  l_text (gain eol l) = l_text l /\ (l_ending l <> [] -> gain eol l = l) /\
  (l_ending l = [] -> gain eol l = {| l_text := l_text l; l_ending := eol |}).
Proof. intros. split; [reflexivity|]. split; [apply give_ending_snoc|]. split; [apply gain_text|]. split; [apply gain_ending|apply gain_open]. Qed.
Print Assumptions C03_give_ending.

(* position by position: all original lines survive in order; only line idx-1 may change, and only by gaining an
   ending; the inserted lines are contiguous *)
Theorem C03_insert_positions : forall st idx texts ls ls', insert st idx texts ls = Ok ls' ->
  let i := Z.to_nat idx in let n := length texts in
  length ls' = (length ls + n)%nat /\
  (forall k, (S k < i)%nat -> nth_error ls' k = nth_error ls k) /\
  (forall k l, S k = i -> nth_error ls k = Some l -> nth_error ls' k = Some (gain (sp_val (st_eol st)) l)) /\
  (forall k t, nth_error texts k = Some t -> nth_error ls' (i + k) = Some (mk_inserted st t)) /\
  (forall k, (i <= k)%nat -> nth_error ls' (k + n) = nth_error ls k).
Proof. exact insert_positions. Qed.
Print Assumptions C03_insert_positions.

(* 2. the two token rewrites *)
Theorem C03_replace_placeholder : forall pre qs post repl,
  forallb (fun c => negb (is_q c)) pre = true -> qs <> [] -> forallb is_q qs = true ->
  (match post with [] => True | x :: _ => is_q x = false end) ->
  replace_placeholder (pre ++ qs ++ post) repl = pre ++ repl ++ post.
Proof. exact replace_placeholder_app. Qed.
Print Assumptions C03_replace_placeholder.

Theorem C03_replace_placeholder_total : forall s repl,
  (forallb (fun c => negb (is_q c)) s = true /\ replace_placeholder s repl = s) \/
  (exists pre qs post, placeholder_split s pre qs post /\ replace_placeholder s repl = pre ++ repl ++ post).
Proof. exact replace_placeholder_spec. Qed.
Print Assumptions C03_replace_placeholder_total.

(* after F7: exactly the first token after the leading blanks is rewritten *)
Theorem C03_replace_value_token : forall s repl,
  exists lead tok rest, token_split s lead tok rest /\ replace_value_token s repl = lead ++ repl ++ rest.
Proof. exact replace_value_token_spec. Qed.
Print Assumptions C03_replace_value_token.

(* 3. what [edit] means, line by line *)
Theorem C03_edit_embeds : forall ch c n b a, edit ch c n b a -> embeds ch b a.
Proof. exact edit_embeds. Qed.
Print Assumptions C03_edit_embeds.

Theorem C03_edit_trans : forall c1 n1 c2 n2 a b d,
  edit rewrites c1 n1 a b -> edit rewrites c2 n2 b d -> edit rewrites (c1 + c2) (n1 + n2) a d.
Proof. exact medit_trans. Qed.
Print Assumptions C03_edit_trans.

(* 4. the operations *)
Theorem C03_append_entry_minimal : forall r new r', append_entry r new = ROk r' -> edit rewrites 0 1 (rc_lines r) (rc_lines r').
Proof. exact append_entry_minimal. Qed.
Print Assumptions C03_append_entry_minimal.

Theorem C03_append_entry_shape : forall r new r', append_entry r new = ROk r' ->
  exists pre post, rc_lines r = pre ++ post /\ zlen pre = rc_last r /\
    r' = with_lines r (give_ending_to_last (sp_val (st_eol (rc_style r))) pre
                       ++ map (mk_inserted (rc_style r)) (to_multiline [] new) ++ post).
Proof. exact append_entry_shape. Qed.
Print Assumptions C03_append_entry_shape.

Theorem C03_start_open_range_minimal : forall r start fmt summary r', start_open_range r start fmt summary = ROk r' ->
  edit rewrites 0 1 (rc_lines r) (rc_lines r').
Proof. exact start_open_range_minimal. Qed.
Print Assumptions C03_start_open_range_minimal.

(* close: the placeholder on the value line; text appended to the entry's last line; further summary lines inserted
   directly after it — at most two rewritten lines, at most one block *)
Theorem C03_close_open_range_minimal : forall r end_ fmt add r', close_open_range r end_ fmt add = ROk r' ->
  edit rewrites 2 1 (rc_lines r) (rc_lines r').
Proof. exact close_open_range_minimal. Qed.
Print Assumptions C03_close_open_range_minimal.

Theorem C03_close_open_range_shape : forall r end_ fmt add r', close_open_range r end_ fmt add = ROk r' ->
  let oi := find_open_index (rc_record r) in
  oi <> -1 /\
  exists es', end_first_open (rec_entries (rc_record r)) end_ = Some (Some es') /\
  let value_line := rc_last r - count_lines (skipn (Z.to_nat oi) es') in
  exists pre l post, rc_lines r = pre ++ l :: post /\ zlen pre = value_line /\
  let l1 := {| l_text := replace_placeholder (l_text l) (end_text_of r end_ fmt); l_ending := l_ending l |} in
  let r1 := with_lines (with_record r (set_entries (rc_record r) es')) (pre ++ l1 :: post) in
  concatenate_summary r1 oi value_line add = ROk r'.
Proof. exact close_open_range_shape. Qed.
Print Assumptions C03_close_open_range_shape.

Theorem C03_concatenate_summary_shape : forall r ei el add r', concatenate_summary r ei el add = ROk r' ->
  exists e, nth_error (rec_entries (rc_record r)) (Z.to_nat ei) = Some e /\
  let last_line := el + zlen (e_summary e) - 1 in
  match add with
  | [] => r' = r
  | a0 :: more =>
    exists pre l post, rc_lines r = pre ++ l :: post /\ zlen pre = last_line /\
    let l' := {| l_text := l_text l ++ sep_for a0 ++ a0; l_ending := l_ending l |} in
    match more with
    | [] => r' = with_lines r (pre ++ l' :: post)
    | _ => r' = with_lines r ((pre ++ [gain (sp_val (st_eol (rc_style r))) l'])
                               ++ map (mk_inserted (rc_style r)) (map (fun s => (s, 2%nat)) more) ++ post)
    end
  end.
Proof. exact concatenate_summary_shape. Qed.
Print Assumptions C03_concatenate_summary_shape.

Theorem C03_extend_pause_minimal : forall r inc r', extend_pause r inc = ROk r' -> edit rewrites 1 0 (rc_lines r) (rc_lines r').
Proof. exact extend_pause_minimal. Qed.
Print Assumptions C03_extend_pause_minimal.

Theorem C03_extend_pause_shape : forall r inc r', extend_pause r inc = ROk r' ->
  find_open_index (rc_record r) <> -1 /\
  let pi := find_last_idx is_pause (rec_entries (rc_record r)) 0 (-1) in
  pi <> -1 /\
  exists pe ext, nth_error (rec_entries (rc_record r)) (Z.to_nat pi) = Some pe /\
    dur_plus (entry_minutes pe) inc = Ok ext /\
    (ext = 0 -> r' = r) /\
    (ext <> 0 ->
     exists pre l post, rc_lines r = pre ++ l :: post /\
       zlen pre = rc_last r - count_lines (skipn (Z.to_nat pi) (rec_entries (rc_record r))) /\
       r' = with_lines r (pre ++ {| l_text := replace_value_token (l_text l) (print_duration (mk_dur ext));
                                    l_ending := l_ending l |} :: post)).
Proof. exact extend_pause_shape. Qed.
Print Assumptions C03_extend_pause_shape.

Theorem C03_append_pause_minimal : forall tags_of r summary append_tags r', append_pause tags_of r summary append_tags = ROk r' ->
  edit rewrites 0 1 (rc_lines r) (rc_lines r').
Proof. exact append_pause_minimal. Qed.
Print Assumptions C03_append_pause_minimal.

(* the creators *)
Theorem C03_at_record_lines : forall d rs bs rc, reconciler_at_record d rs bs = Some rc -> rc_lines rc = flatten_blocks bs.
Proof. exact at_record_lines. Qed.
Print Assumptions C03_at_record_lines.

Theorem C03_new_record_minimal : forall d fmt should summary rs bs rc,
  reconciler_for_new_record d fmt should summary rs bs = Ok rc -> edit rewrites 0 1 (flatten_blocks bs) (rc_lines rc).
Proof. exact new_record_minimal. Qed.
Print Assumptions C03_new_record_minimal.

(* 5. whole commands: track / start / create add ONE block (a new record and its first entry are one block) and
      rewrite nothing; stop rewrites at most two lines (of one entry) and adds at most one block; switch = stop + start;
      (the budget of pause, (1, 1), is per write: C03_pause_minimal) *)
Theorem C03_exec_minimal : forall now cfg c file file', exec_simple now cfg c file = COk file' ->
  exists rs bs after, parse_text file = Ok (Parsed rs bs) /\ file' = text_of_lines after /\
    edit rewrites (fst (edit_budget c)) (snd (edit_budget c)) (flatten_blocks bs) after.
Proof. exact exec_simple_minimal. Qed.
Print Assumptions C03_exec_minimal.

Theorem C03_pause_minimal : forall now file op file',
  (forall r r', op r = COk r' -> edit rewrites 1 1 (rc_lines r) (rc_lines r')) ->
  pause_reconcile now file op = COk file' ->
  exists rs bs after, parse_text file = Ok (Parsed rs bs) /\ file' = text_of_lines after /\ edit rewrites 1 1 (flatten_blocks bs) after.
Proof. exact pause_reconcile_minimal. Qed.
Print Assumptions C03_pause_minimal.

Theorem C03_pause_ops : forall tags_of summary tags inc r r',
  (lift_r (append_pause tags_of r summary tags) = COk r' -> edit rewrites 1 1 (rc_lines r) (rc_lines r')) /\
  (lift_r (extend_pause r inc) = COk r' -> edit rewrites 1 1 (rc_lines r) (rc_lines r')).
Proof. intros. split; [apply pause_append_op|apply pause_extend_op]. Qed.
Print Assumptions C03_pause_ops.

(* the lines a command starts from are the file's own lines, all of them, unless the file has only blank lines *)
Theorem C03_start_lines : forall file rs bs, parse_text file = Ok (Parsed rs bs) ->
  ((exists l, In l (lines_of file) /\ is_blank l = false) -> flatten_blocks bs = lines_of file) /\
  (Forall (fun l => is_blank l = true) (lines_of file) -> flatten_blocks bs = [] /\ rs = []).
Proof. exact start_lines. Qed.
Print Assumptions C03_start_lines.

(* ---- non-vacuity ---- *)
(* stop with a two-line summary on an open range that already has a continuation line and is the unterminated last
   entry of the file: two lines rewritten (placeholder; text appended to the last continuation line, which also gains
   its line ending), one line added *)
Definition ex_file : bytes := b!"2020-01-01
  8:00 - ??? a
    b".
Definition ex_now : clock := {| now_date := {| c_year := 2020; c_month := 1; c_day := 1 |}; now_h := 9; now_m := 30 |}.
Definition ex_cfg : config := {| cfg_round := None; cfg_should := None; cfg_dashes := None; cfg_24h := None |}.
Example ex_stop :
  exec_simple ex_now ex_cfg (Stop {| a_date := DDefault; a_time := None; a_round := None |} (Some [b!"c"; b!"d"])) ex_file
  = COk b!"2020-01-01
  8:00 - 9:30 a
    b c
    d
".
Proof. vm_cast_no_check (@eq_refl (cresult bytes) (COk b!"2020-01-01
  8:00 - 9:30 a
    b c
    d
")). Qed.

Example ex_placeholder : replace_placeholder b!"  8:00 - ??? a ?" b!"9:30" = b!"  8:00 - 9:30 a ?".
Proof. reflexivity. Qed.
Example ex_token : replace_value_token b!"    -5m foo-bar" b!"-6m" = b!"    -6m foo-bar".
Proof. reflexivity. Qed.
