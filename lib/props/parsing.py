"""generators and oracles shared by the parser properties C01, C06, C08, C09, C10"""
import sys, os, random, itertools
sys.path.insert(0, os.path.dirname(os.path.dirname(os.path.abspath(__file__))))
from common import hx, unhx
import specgen

def req_parse(b): return "parse " + (b.hex() if b else "-")
def req_blocks(b): return "blocks " + (b.hex() if b else "-")
def req_print(b): return "print " + (b.hex() if b else "-")

def docs(rng, n, **kw):
    for _ in range(n):
        yield specgen.Doc(rng, **kw)

# ------------------------------------------------------------------ streams of arbitrary bytes (C06, C08, C10)

TOKENS = [b"2020-01-01", b"2020-02-30", b"    ", b"  ", b"\t", b" ", b"1h", b"-30m", b"-", b"?", b"8:00", b"9:30pm", b"<23:00", b"\n", b"\r\n", b"\r",
          b"(", b"8h!", b"!)", b")", b"#t=", b'"', b"\xc2\xa0", b"\xff", b"\x00", b"99999999999999999999h", b"9223372036854775807m", b"foo",
          b"\xe8\xaa\xad", b"\xef\xbf\xbd", b"24:00", b"\xe3\x80\x80"]

def token_strings(k):
    for n in range(0, k + 1):
        for combo in itertools.product(TOKENS, repeat=n):
            yield b"".join(combo)

def mutate(rng, b):
    b = bytearray(b)
    for _ in range(rng.choice([1, 1, 1, 2, 3])):
        k = rng.randrange(6)
        if k == 0 and b:
            b[rng.randrange(len(b))] = rng.choice([0, 9, 10, 13, 32, 33, 40, 41, 45, 48, 58, 63, 104, 109, 0x80, 0xc2, 0xa0, 0xe2, 0xff, rng.randrange(256)])
        elif k == 1 and b:
            del b[rng.randrange(len(b))]
        elif k == 2:
            b.insert(rng.randrange(len(b) + 1), rng.choice([9, 10, 13, 32, 45, 63, 0xff, 0xc3, rng.randrange(256)]))
        elif k == 3 and b:
            del b[rng.randrange(len(b)):]                       # truncate
        elif k == 4 and len(b) > 2:
            i, j = sorted(rng.sample(range(len(b)), 2)); b[i:i] = b[i:j]   # duplicate a slice
        elif k == 5:
            t = rng.choice(TOKENS); i = rng.randrange(len(b) + 1); b[i:i] = t
    return bytes(b)

def far_right_errors(rng, n):
    """invalid texts whose offending token sits beyond column 80 of a long line (renderings must cope)"""
    out = []
    for _ in range(n):
        pad = " " * rng.choice([60, 70, 77, 90, 150, 400])
        k = rng.randrange(6)
        if k == 0: t = "2020-01-01 (8h!)" + pad + "Home office\n"
        elif k == 1: t = "2020-01-01\n    8:00" + pad + "9:00 Work\n"
        elif k == 2: t = "2020-01-01\n    8:00 -" + pad + "x9:00\n"
        elif k == 3: t = "2020-01-01\n    1h\n    8:00 - ?\n    " + "9:00 -" + pad + "?? again\n"
        elif k == 4: t = "2020-01-01" + pad + "(8h" + pad + "\n"
        else: t = "2020-01-01\n    1h " + "x" * 300 + "\n   " + "y" * 200 + " 1h\n"
        out.append(t.encode())
    return out

def byte_stream(tier, rng, n_mut, n_rand, k):
    out = list(token_strings(k))
    for d in docs(rng, n_mut // 2, max_records=3, max_entries=4):
        base = d.render()
        out.append(mutate(rng, base))
        f = specgen.inject_fault(d, rng)
        out.append(mutate(rng, f[0] if f else base))
        # every truncation point of a small document now and then
        if rng.random() < 0.02:
            out += [base[:i] for i in range(len(base))]
    for _ in range(n_rand):
        n = rng.choice([1, 2, 3, 5, 8, 13, 40, 200])
        out.append(bytes(rng.choice([10, 32, 9, 13, 45, 48, 49, 58, 104, 109, 63, 40, 33, 41, rng.randrange(256)]) for _ in range(n)))
    out += far_right_errors(rng, 30)
    long_line = b"2020-01-01\n    1h " + b"x" * 200000 + b"\n"
    out += [long_line, b"\n" * 50000, b"2020-01-01\n" + b"    1h\n" * 5000]
    return out

# ------------------------------------------------------------------ generic oracles on `parse` output

def parse_shape(out):
    """C06: records and no errors, or no records and at least one error; never a crash"""
    f = out.split(" ")
    if f[0] == "crash" or out.startswith("?process-died") or out == "?not-run":
        return "parsing crashed"
    if f[0] == "ok":
        return None if int(f[1]) == sum(1 for x in f if x == "R") else "record count does not match"
    if f[0] == "errors":
        return None if int(f[1]) >= 1 and len(f) == 2 + int(f[1]) else "invalid input without an error"
    if out == "records-blocks-mismatch":
        return "number of records differs from number of blocks"
    return "unexpected result " + out[:80]

def text_lines(b):
    """(text, ending) of every line, as the specification defines lines (LF or CRLF ends a line)"""
    out = []
    for raw in b.split(b"\n"):
        out.append(raw)
    ends_nl = b.endswith(b"\n")
    lines = []
    for i, raw in enumerate(out):
        last = i == len(out) - 1
        if last:
            if raw != b"" : lines.append((raw, b""))
        else:
            if raw.endswith(b"\r"): lines.append((raw[:-1], b"\r\n"))
            else: lines.append((raw, b"\n"))
    return lines

def rune_len(b):
    # number of runes as Go counts them: every invalid byte counts as one rune
    n = 0; i = 0
    while i < len(b):
        c = b[i]
        w = 1
        if c >= 0xc2 and c <= 0xdf: need = 2
        elif c >= 0xe0 and c <= 0xef: need = 3
        elif c >= 0xf0 and c <= 0xf4: need = 4
        else: need = 1
        if need > 1 and i + need <= len(b):
            try:
                b[i:i + need].decode("utf-8"); w = need
            except UnicodeDecodeError:
                w = 1
        n += 1; i += w
    return n

def errors_located(req, out):
    """C10: each error names an existing line, quotes it, stays within it (+1), ascending order"""
    f = out.split(" ")
    if f[0] != "errors":
        return None
    b = unhx(req.split(" ")[1])
    lines = text_lines(b)
    prev = 0
    for e in f[2:]:
        ln, pos, ln_len, code, text = e.split(":")
        ln, pos, ln_len = int(ln), int(pos), int(ln_len)
        text = unhx(text)
        if not (1 <= ln <= len(lines)):
            return "error names line %d but the text has %d lines" % (ln, len(lines))
        if lines[ln - 1][0] != text:
            return "error on line %d quotes %r but that line is %r" % (ln, text, lines[ln - 1][0])
        n = rune_len(text)
        if pos < 0 or ln_len < 0 or pos + ln_len > n + 1:
            return "error span pos=%d len=%d leaves line %d (%d characters)" % (pos, ln_len, ln, n)
        if ln < prev:
            return "errors not in ascending line order"
        prev = ln
    return None

def blocks_oracle(req, out):
    """C08: concatenating all lines of all blocks reproduces the text; consecutive numbering; one significant run per block"""
    b = unhx(req.split(" ")[1])
    if out == "crash" or out.startswith("?"):
        return "crash while splitting into blocks"
    f = out.split(" ")
    n = int(f[0])
    blank = lambda t: all(c in b" \t" for c in t)
    all_blank = all(blank(t) for t, _ in text_lines(b))
    if all_blank:
        return None if n == 0 else "blank text yields blocks"
    if n == 0:
        return "text with significant lines yields no blocks"
    recon = b""; expect_idx = 0
    for blk in f[1:]:
        idx, ls = blk.split(":", 1)
        if int(idx) != expect_idx:
            return "block starts at line index %s, expected %d" % (idx, expect_idx)
        runs = 0; prev_blank = True
        for l in ls.split(","):
            t, e = l.rsplit("/", 1)
            if e not in ("n", "l", "c"):
                return "a line ends in %r, which is neither LF nor CRLF nor the end of the text" % e
            t = unhx(t); e = {"n": b"", "l": b"\n", "c": b"\r\n"}[e]
            recon += t + e
            if not blank(t) and prev_blank: runs += 1
            prev_blank = blank(t)
            expect_idx += 1
        if runs != 1:
            return "a block holds %d significant runs" % runs
    if recon != b:
        return "blocks do not reproduce the text"
    return None
