(* SpecLiterals — the converses for C16: whatever the value parsers accept is a literal of the specification.
   Together with Proofs/SpecValues.v (every literal is accepted with its value): the accepted strings are EXACTLY the
   specification's literals. *)
From Klog Require Import Base.Prelude Base.Utf8 Model.Calendar Model.Values Proofs.Sweep Proofs.Values Spec.Spec Proofs.SpecValues.
From Coq Require Import ZifyBool.
Open Scope Z_scope.

(* ================= times ================= *)

Definition ampm_text (a : ampm) : bytes := match a with NoAmPm => [] | Am => [ch_a; ch_m] | Pm => [ch_p; ch_m] end.

Definition build_time (m : time_match) : bytes :=
  (if tm_lt m then [ch_lt] else []) ++ tm_hour m ++ [ch_colon] ++ tm_min m ++ ampm_text (tm_ampm m)
  ++ (if tm_gt m then [ch_gt] else []).

Ltac eqb_subst :=
  repeat match goal with
         | H : (_ =? _)%N = true |- _ => apply N.eqb_eq in H; subst
         | H : _ && _ = true |- _ => apply andb_true_iff in H; destruct H
         end.

Lemma match_time_tail_inv lt hd r m : match_time_tail lt hd r = Some m ->
  exists m1 m2, is_digit m1 = true /\ is_digit m2 = true /\ tm_min m = [m1; m2] /\ tm_lt m = lt /\ tm_hour m = hd
    /\ r = tm_min m ++ ampm_text (tm_ampm m) ++ (if tm_gt m then [ch_gt] else []).
Proof.
  unfold match_time_tail. destruct r as [|m1 [|m2 r2]]; try discriminate.
  destruct (is_digit m1 && is_digit m2) eqn:D; [|discriminate]. apply andb_true_iff in D as [D1 D2].
  intros H. exists m1, m2.
  destruct r2 as [|x [|y r']].
  - injection H as <-. cbn. repeat split; assumption.
  - destruct (x =? ch_gt)%N eqn:E; [|discriminate]. injection H as <-. eqb_subst. cbn. repeat split; assumption.
  - destruct ((x =? ch_a)%N && (y =? ch_m)%N) eqn:Ea.
    + destruct r' as [|z r'']; [injection H as <-; eqb_subst; cbn; repeat split; assumption|].
      destruct (z =? ch_gt)%N eqn:E; [|destruct r''; discriminate].
      destruct r''; [|discriminate]. injection H as <-. eqb_subst. cbn. repeat split; assumption.
    + destruct ((x =? ch_p)%N && (y =? ch_m)%N) eqn:Ep.
      * destruct r' as [|z r'']; [injection H as <-; eqb_subst; cbn; repeat split; assumption|].
        destruct (z =? ch_gt)%N eqn:E; [|destruct r''; discriminate].
        destruct r''; [|discriminate]. injection H as <-. eqb_subst. cbn. repeat split; assumption.
      * destruct (x =? ch_gt)%N eqn:E; discriminate.
Qed.

Lemma match_time_inv s m : match_time s = Some m ->
  s = build_time m /\
  (exists m1 m2, is_digit m1 = true /\ is_digit m2 = true /\ tm_min m = [m1; m2]) /\
  ((exists h1, is_digit h1 = true /\ tm_hour m = [h1]) \/ (exists h1 h2, is_digit h1 = true /\ is_digit h2 = true /\ tm_hour m = [h1; h2])).
Proof.
  unfold match_time.
  assert (Core : forall lt s1,
    match s1 with
    | h1 :: c :: r =>
      if is_digit h1 then
        if (c =? ch_colon)%N then match_time_tail lt [h1] r
        else if is_digit c then
          match r with
          | c2 :: r' => if (c2 =? ch_colon)%N then match_time_tail lt [h1; c] r' else None
          | [] => None
          end
        else None
      else None
    | _ => None
    end = Some m ->
    (if lt then [ch_lt] else []) ++ s1 = build_time m /\
    (exists m1 m2, is_digit m1 = true /\ is_digit m2 = true /\ tm_min m = [m1; m2]) /\
    ((exists h1, is_digit h1 = true /\ tm_hour m = [h1]) \/ (exists h1 h2, is_digit h1 = true /\ is_digit h2 = true /\ tm_hour m = [h1; h2]))).
  { intros lt s1 H. destruct s1 as [|h1 [|c r]]; try discriminate.
    destruct (is_digit h1) eqn:D1; [|discriminate].
    destruct (c =? ch_colon)%N eqn:Ec.
    - apply N.eqb_eq in Ec. subst c. apply match_time_tail_inv in H as (m1 & m2 & Dm1 & Dm2 & Emin & Elt & Eh & Er).
      split; [|split; [exists m1, m2; auto|left; exists h1; auto]].
      unfold build_time. rewrite Elt, Eh, Er. reflexivity.
    - destruct (is_digit c) eqn:D2; [|discriminate]. destruct r as [|c2 r']; [discriminate|].
      destruct (c2 =? ch_colon)%N eqn:Ec2; [|discriminate]. apply N.eqb_eq in Ec2. subst c2.
      apply match_time_tail_inv in H as (m1 & m2 & Dm1 & Dm2 & Emin & Elt & Eh & Er).
      split; [|split; [exists m1, m2; auto|right; exists h1, c; auto]].
      unfold build_time. rewrite Elt, Eh, Er. reflexivity. }
  destruct s as [|x r].
  - intros H. discriminate.
  - destruct (x =? ch_lt)%N eqn:E.
    + apply N.eqb_eq in E. subst x. intros H. apply (Core true r H).
    + intros H. apply (Core false (x :: r) H).
Qed.

(* all 132,000 strings of the shape `<?D{1,2}:DD(am|pm)?>?`, by their fields (b = -1: one hour digit) *)
Definition shape_string (lt : bool) (a b mm : Z) (ap : ampm) (gt : bool) : bytes :=
  (if lt then [ch_lt] else []) ++ (if b <? 0 then [dchar a] else [dchar a; dchar b]) ++ [ch_colon] ++ two_digits mm
  ++ ampm_text ap ++ (if gt then [ch_gt] else []).

Definition spelled (lt : bool) (a b mm : Z) (ap : ampm) (gt : bool) : s_time :=
  {| st_shift := if lt then -1 else if gt then 1 else 0;
     st_hh := if b <? 0 then a else 10 * a + b;
     st_pad := negb (b <? 0) && (a =? 0);
     st_mm := mm;
     st_clock := match ap with NoAmPm => C24 | Am => CAm | Pm => CPm end |}.

Definition shape_check (lt : bool) (a b mm : Z) (ap : ampm) (gt : bool) : bool :=
  match parse_time (shape_string lt a b mm ap gt) with
  | Ok t => let st := spelled lt a b mm ap gt in
            wf_time st && bytes_eqb (render_time st) (shape_string lt a b mm ap gt) && time_eqb_full (denote_time st) t
  | _ => true
  end.

Lemma shape_sweep_true :
  forallb (fun lt => range_forallb (fun a => range_forallb (fun b => range_forallb (fun mm =>
    forallb (fun ap => forallb (fun gt => shape_check lt a b mm ap gt) [true; false]) [NoAmPm; Am; Pm])
    0 100) (-1) 11) 0 10) [true; false] = true.
Proof. vm_cast_no_check (eq_refl true). Qed.

Lemma shape_all lt a b mm ap gt : 0 <= a <= 9 -> -1 <= b <= 9 -> 0 <= mm <= 99 -> shape_check lt a b mm ap gt = true.
Proof.
  intros Ha Hb Hm. pose proof shape_sweep_true as S.
  rewrite forallb_forall in S. specialize (S lt ltac:(destruct lt; cbn; auto)).
  apply range_forallb_sound with (z := a) in S; [|lia].
  apply range_forallb_sound with (z := b) in S; [|lia].
  apply range_forallb_sound with (z := mm) in S; [|lia].
  rewrite forallb_forall in S. specialize (S ap ltac:(destruct ap; cbn; auto)).
  rewrite forallb_forall in S. specialize (S gt ltac:(destruct gt; cbn; auto)). exact S.
Qed.

Lemma digit_dchar c : is_digit c = true -> c = dchar (digit_val c) /\ 0 <= digit_val c <= 9.
Proof. unfold is_digit, dchar, digit_val. intros H. split; lia. Qed.

(* C16, times, the converse: an accepted string is a time literal of the specification, with the value it denotes *)
Theorem time_literal_converse s t : parse_time s = Ok t ->
  exists st, wf_time st = true /\ s = render_time st /\ t = denote_time st.
Proof.
  intros H. pose proof H as H0. unfold parse_time in H0. destruct (match_time s) as [m|] eqn:M; [|discriminate]. clear H0.
  destruct (match_time_inv s m M) as (Es & (m1 & m2 & D1 & D2 & Emin) & Eh).
  destruct (digit_dchar m1 D1) as [E1 B1]. destruct (digit_dchar m2 D2) as [E2 B2].
  set (mm := 10 * digit_val m1 + digit_val m2).
  assert (Emm : tm_min m = two_digits mm).
  { rewrite Emin. unfold two_digits, mm. replace ((10 * digit_val m1 + digit_val m2) / 10) with (digit_val m1) by (Z.div_mod_to_equations; lia).
    replace ((10 * digit_val m1 + digit_val m2) mod 10) with (digit_val m2) by (Z.div_mod_to_equations; lia). rewrite <- E1, <- E2. reflexivity. }
  assert (Hs : exists a b, 0 <= a <= 9 /\ -1 <= b <= 9 /\ s = shape_string (tm_lt m) a b mm (tm_ampm m) (tm_gt m)).
  { destruct Eh as [(h1 & Dh1 & Eh)|(h1 & h2 & Dh1 & Dh2 & Eh)].
    - destruct (digit_dchar h1 Dh1) as [Eh1 Bh1]. exists (digit_val h1), (-1). split; [exact Bh1|]. split; [lia|].
      rewrite Es. unfold build_time, shape_string. rewrite Eh, Emm. cbn [Z.ltb Z.compare]. rewrite <- Eh1. reflexivity.
    - destruct (digit_dchar h1 Dh1) as [Eh1 Bh1]. destruct (digit_dchar h2 Dh2) as [Eh2 Bh2].
      exists (digit_val h1), (digit_val h2). split; [exact Bh1|]. split; [lia|].
      rewrite Es. unfold build_time, shape_string. rewrite Eh, Emm. replace (digit_val h2 <? 0) with false by lia.
      rewrite <- Eh1, <- Eh2. reflexivity. }
  destruct Hs as (a & b & Ha & Hb & Hs).
  pose proof (shape_all (tm_lt m) a b mm (tm_ampm m) (tm_gt m) Ha Hb ltac:(unfold mm; lia)) as C.
  unfold shape_check in C. rewrite <- Hs, H in C.
  apply andb_true_iff in C as [C Ct]. apply andb_true_iff in C as [Cw Cr].
  exists (spelled (tm_lt m) a b mm (tm_ampm m) (tm_gt m)). split; [exact Cw|]. split.
  - apply bytes_eqb_eq in Cr. symmetry. exact Cr.
  - apply time_eqb_full_eq in Ct. symmetry. exact Ct.
Qed.

(* ================= dates ================= *)

Lemma four_digits_of_chars y1 y2 y3 y4 : is_digit y1 = true -> is_digit y2 = true -> is_digit y3 = true -> is_digit y4 = true ->
  four_digits (digits_val [y1; y2; y3; y4]) = [y1; y2; y3; y4] /\ 0 <= digits_val [y1; y2; y3; y4] <= 9999.
Proof.
  intros D1 D2 D3 D4.
  destruct (digit_dchar _ D1) as [E1 B1], (digit_dchar _ D2) as [E2 B2], (digit_dchar _ D3) as [E3 B3], (digit_dchar _ D4) as [E4 B4].
  unfold digits_val. cbn [fold_left].
  set (a := digit_val y1) in *. set (b := digit_val y2) in *. set (c := digit_val y3) in *. set (d := digit_val y4) in *.
  split; [|lia]. unfold four_digits.
  replace ((((0 * 10 + a) * 10 + b) * 10 + c) * 10 + d) with (1000 * a + 100 * b + 10 * c + d) by lia.
  replace ((1000 * a + 100 * b + 10 * c + d) / 1000) with a by (Z.div_mod_to_equations; lia).
  replace (((1000 * a + 100 * b + 10 * c + d) / 100) mod 10) with b by (Z.div_mod_to_equations; lia).
  replace (((1000 * a + 100 * b + 10 * c + d) / 10) mod 10) with c by (Z.div_mod_to_equations; lia).
  replace ((1000 * a + 100 * b + 10 * c + d) mod 10) with d by (Z.div_mod_to_equations; lia).
  rewrite <- E1, <- E2, <- E3, <- E4. reflexivity.
Qed.

Lemma two_digits_of_chars m1 m2 : is_digit m1 = true -> is_digit m2 = true ->
  two_digits (digits_val [m1; m2]) = [m1; m2].
Proof.
  intros D1 D2. destruct (digit_dchar _ D1) as [E1 B1], (digit_dchar _ D2) as [E2 B2].
  unfold digits_val. cbn [fold_left]. set (a := digit_val m1) in *. set (b := digit_val m2) in *.
  unfold two_digits. replace ((0 * 10 + a) * 10 + b) with (10 * a + b) by lia.
  replace ((10 * a + b) / 10) with a by (Z.div_mod_to_equations; lia).
  replace ((10 * a + b) mod 10) with b by (Z.div_mod_to_equations; lia).
  rewrite <- E1, <- E2. reflexivity.
Qed.

(* C16, dates, the converse *)
Theorem date_literal_converse s d : parse_date s = Ok d ->
  exists sd, wf_date sd = true /\ s = render_date sd /\ d = denote_date sd.
Proof.
  unfold parse_date.
  destruct s as [|y1 [|y2 [|y3 [|y4 [|s1 [|m1 [|m2 [|s2 [|d1 [|d2 [|x r]]]]]]]]]]]; try discriminate.
  destruct (is_digit y1 && is_digit y2 && is_digit y3 && is_digit y4 && is_sep s1 && is_digit m1 && is_digit m2 && is_sep s2
            && is_digit d1 && is_digit d2) eqn:C; [|discriminate].
  do 9 (apply andb_true_iff in C as [C ?]).
  destruct (four_digits_of_chars y1 y2 y3 y4) as [Ey By]; try assumption.
  pose proof (two_digits_of_chars m1 m2 ltac:(assumption) ltac:(assumption)) as Em.
  pose proof (two_digits_of_chars d1 d2 ltac:(assumption) ltac:(assumption)) as Ed.
  assert (Sep : forall c, is_sep c = true -> c = ch_minus \/ c = ch_slash).
  { intros c Hc. unfold is_sep in Hc. apply orb_true_iff in Hc as [Hc|Hc]; apply N.eqb_eq in Hc; auto. }
  destruct (Sep s1 ltac:(assumption)) as [-> | ->]; destruct (Sep s2 ltac:(assumption)) as [-> | ->];
    cbv beta iota delta [ch_minus ch_slash N.eqb Pos.eqb Nat.add Nat.eqb]; try (intros; discriminate).
  - destruct (valid_ymd (digits_val [y1; y2; y3; y4]) (digits_val [m1; m2]) (digits_val [d1; d2])) eqn:V; [|discriminate].
    intros [= <-].
    exists {| sd_year := digits_val [y1; y2; y3; y4]; sd_month := digits_val [m1; m2]; sd_day := digits_val [d1; d2]; sd_dash := true |}.
    split; [rewrite wf_date_valid_ymd; exact V|]. split; [|reflexivity].
    unfold render_date. cbn [sd_year sd_month sd_day sd_dash]. rewrite Ey, Em, Ed. reflexivity.
  - destruct (valid_ymd (digits_val [y1; y2; y3; y4]) (digits_val [m1; m2]) (digits_val [d1; d2])) eqn:V; [|discriminate].
    intros [= <-].
    exists {| sd_year := digits_val [y1; y2; y3; y4]; sd_month := digits_val [m1; m2]; sd_day := digits_val [d1; d2]; sd_dash := false |}.
    split; [rewrite wf_date_valid_ymd; exact V|]. split; [|reflexivity].
    unfold render_date. cbn [sd_year sd_month sd_day sd_dash]. rewrite Ey, Em, Ed. reflexivity.
Qed.

(* ================= durations ================= *)

Lemma span_spec {A} (p : A -> bool) l a b : span p l = (a, b) -> l = a ++ b /\ forallb p a = true.
Proof.
  revert a b. induction l as [|x l IH]; intros a b H; cbn [span] in H.
  - injection H as <- <-. split; reflexivity.
  - destruct (p x) eqn:E.
    + destruct (span p l) as [a' b'] eqn:S. injection H as <- <-. destruct (IH a' b' eq_refl) as [-> F].
      split; [reflexivity|]. cbn [forallb]. rewrite E, F. reflexivity.
    + injection H as <- <-. split; reflexivity.
Qed.

Definition part_text (ds : bytes) (unit : N) : bytes := match ds with [] => [] | _ => ds ++ [unit] end.

Lemma md_body_inv sg s1 m : md_body sg s1 = Some m ->
  dm_sign m = sg /\ forallb is_digit (dm_h m) = true /\ forallb is_digit (dm_m m) = true
  /\ s1 = part_text (dm_h m) ch_h ++ part_text (dm_m m) ch_m.
Proof.
  unfold md_body. destruct (span is_digit s1) as [ds1 r1] eqn:S1. destruct (span_spec _ _ _ _ S1) as [-> F1].
  destruct ds1 as [|d1 ds1']; destruct r1 as [|c r2]; try discriminate.
  - intros [= <-]. repeat split; reflexivity.
  - destruct (c =? ch_h)%N eqn:Eh.
    + apply N.eqb_eq in Eh. subst c. destruct (span is_digit r2) as [ds2 r3] eqn:S2. destruct (span_spec _ _ _ _ S2) as [-> F2].
      destruct ds2 as [|d2 ds2']; destruct r3 as [|c2 r4]; try discriminate.
      * intros [= <-]. cbn [dm_sign dm_h dm_m part_text]. repeat split; try assumption. rewrite !app_nil_r. reflexivity.
      * destruct r4; [|discriminate]. destruct (c2 =? ch_m)%N eqn:Em; [|discriminate]. apply N.eqb_eq in Em. subst c2.
        intros [= <-]. cbn [dm_sign dm_h dm_m part_text]. repeat split; try assumption. rewrite <- app_assoc. reflexivity.
    + destruct (c =? ch_m)%N eqn:Em; [|discriminate]. apply N.eqb_eq in Em. subst c. destruct r2; [|discriminate].
      intros [= <-]. cbn [dm_sign dm_h dm_m part_text app]. repeat split; try assumption.
Qed.

Lemma match_duration_inv s m : match_duration s = Some m ->
  (dm_sign m = 0 \/ dm_sign m = ch_plus \/ dm_sign m = ch_minus)%N
  /\ forallb is_digit (dm_h m) = true /\ forallb is_digit (dm_m m) = true
  /\ s = (if (dm_sign m =? 0)%N then [] else [dm_sign m]) ++ part_text (dm_h m) ch_h ++ part_text (dm_m m) ch_m.
Proof.
  destruct s as [|x r].
  - intros H. change (match_duration []) with (md_body 0%N []) in H. destruct (md_body_inv _ _ _ H) as (Es & Fh & Fm & E).
    rewrite Es. cbn. auto.
  - destruct ((x =? ch_minus)%N || (x =? ch_plus)%N) eqn:E.
    + rewrite (match_duration_signed x r E). intros H. destruct (md_body_inv _ _ _ H) as (Es & Fh & Fm & Er).
      rewrite Es. apply orb_true_iff in E as [E|E]; apply N.eqb_eq in E; subst x; cbn; rewrite <- Er; auto.
    + rewrite (match_duration_unsigned x r E). intros H. destruct (md_body_inv _ _ _ H) as (Es & Fh & Fm & Er).
      rewrite Es. cbn. auto.
Qed.

(* C16, durations, the converse: whatever NewDurationFromString accepts is a duration literal of the specification whose
   amount fits int64 *)
Theorem duration_literal_converse s d : parse_duration s = Ok d ->
  exists sd, wf_dur sd = true /\ s = render_dur sd /\ d = denote_dur sd.
Proof.
  intros H. pose proof H as H0. unfold parse_duration in H0. destruct (match_duration s) as [m|] eqn:M; [|discriminate].
  destruct (match_duration_inv s m M) as (Hsg & Fh & Fm & Es).
  set (sd := {| du_sign := if (dm_sign m =? ch_minus)%N then SMinus else if (dm_sign m =? ch_plus)%N then SPlus else SNone;
                du_h := match dm_h m with [] => None | hs => Some hs end;
                du_m := match dm_m m with [] => None | ms => Some ms end |}).
  assert (Er : s = render_dur sd).
  { rewrite Es. unfold render_dur, sd. cbn [du_sign du_h du_m]. f_equal.
    - destruct Hsg as [-> | [-> | ->]]; reflexivity.
    - f_equal; [destruct (dm_h m); reflexivity|destruct (dm_m m); reflexivity]. }
  (* shape: read off the branches parse_duration took *)
  assert (Sh : dur_shape sd = true).
  { unfold dur_shape, sd. cbn [du_h du_m]. clear Er. clear sd. revert H0 Fh Fm.
    destruct (dm_h m) as [|hc hr]; destruct (dm_m m) as [|mc mr]; intros H0 Fh Fm; cbn [present orb opt_ok andb].
    - discriminate.
    - unfold integer_ok. rewrite digit_is_digit_forall, Fm. reflexivity.
    - unfold integer_ok. rewrite digit_is_digit_forall, Fh. cbn [opt_value]. reflexivity.
    - unfold integer_ok. change (forallb digit) with (forallb is_digit). rewrite Fh, Fm. cbn [length Nat.eqb negb andb opt_value].
      rewrite integer_value_digits_val.
      destruct (atoi_digits (hc :: hr)) as [h|]; [|discriminate]. destruct (atoi_digits (mc :: mr)) as [mi|] eqn:Am; [|discriminate].
      unfold atoi_digits in Am. destruct (digits_val (mc :: mr) <=? max_int64); [|discriminate]. injection Am as <-.
      cbn [andb] in H0. destruct (60 <=? digits_val (mc :: mr)) eqn:E60; [discriminate|lia]. }
  exists sd. destruct (Z_le_gt_dec (dur_amount sd) max_int64) as [Hb|Hb].
  - assert (W : wf_dur sd = true) by (unfold wf_dur; rewrite Sh; unfold max_int64 in Hb; cbn [andb]; lia).
    split; [exact W|]. split; [exact Er|]. pose proof (parse_render_dur sd W) as P. rewrite <- Er, H in P. congruence.
  - exfalso. destruct (parse_render_dur_overflow sd Sh ltac:(lia)) as [c P]. rewrite <- Er, H in P. discriminate.
Qed.

(* ================= exactly the specification's literals ================= *)

Theorem time_literals s t : parse_time s = Ok t <-> exists st, wf_time st = true /\ s = render_time st /\ t = denote_time st.
Proof. split; [apply time_literal_converse|]. intros (st & W & -> & ->). apply parse_render_time. exact W. Qed.

Theorem date_literals_iff s d : parse_date s = Ok d <-> exists sd, wf_date sd = true /\ s = render_date sd /\ d = denote_date sd.
Proof. split; [apply date_literal_converse|]. intros (sd & W & -> & ->). apply parse_render_date. exact W. Qed.

Theorem duration_literals s d : parse_duration s = Ok d <-> exists sd, wf_dur sd = true /\ s = render_dur sd /\ d = denote_dur sd.
Proof. split; [apply duration_literal_converse|]. intros (sd & W & -> & ->). apply parse_render_dur. exact W. Qed.
