#!/usr/bin/env python3
"""Regenerates /verif/MANIFEST.json from the table below (kept in one place so it stays valid)."""
import json, os
ROOT = os.path.dirname(os.path.dirname(os.path.abspath(__file__)))

TB = ("Trusted: Coq 8.16.1 kernel + vm_compute (no native_compute); extraction with ExtrOcamlBasic only; OCaml 4.13.1; "
      "driver.ml, the Go harness and check.py; Go 1.24 toolchain/stdlib as modelled. The model is hand-written; the "
      "correspondence suites (run on every check against /repo's working tree) are what tie it to the code. ")

CLAIMED = {
 "C16": dict(
   text="Theorems in coq/Properties/C16.v over the executable model of klog's value types (time round trip over all 8,640 values by a lifted sweep, "
        "Plus and range arithmetic for all integers by lia, offset formula); the model is tied to the code by exhaustive correspondence "
        "(all 132,000 time-shaped strings, duration/date/plus/range grids) plus a property oracle written from the specification.",
   design="§4 C16", technique="Coq proof (lia + lifted finite sweep) over hand model; extracted-model-vs-Go differential correspondence",
   note=TB + "Axioms: none (Closed under the global context). Known findings K5, K6 (int64 overflow panics) are printed, not suppressed beyond their exact inputs."),
}

NOT_YET = {}

def main():
    props = [json.loads(l)["id"] for l in open(os.path.join(ROOT, "properties.jsonl"))]
    checks = []
    for pid in props:
        if pid in CLAIMED:
            c = CLAIMED[pid]
            checks.append({
                "property_id": pid,
                "quick_cmd": "python3 check.py %s --tier quick" % pid,
                "thorough_cmd": "python3 check.py %s --tier thorough" % pid,
                "evidence_file": "/verif/evidence/%s.json" % pid,
                "replay_cmd_template": "python3 check.py %s --replay {path}" % pid,
                "engine": "coq-model+correspondence",
                "level_claimed": {"category": "proof", "text": c["text"], "design_ref": c["design"]},
                "level_note": c["note"],
                "technique": c["technique"],
            })
    na = [{"property_id": p, "reason": NOT_YET.get(p, "check not built yet in this session (claimed at level proof in DESIGN.md; will be added as its model and theorems land)")}
          for p in props if p not in CLAIMED]
    m = {
        "version": 1,
        "setup_cmd": "python3 check.py --setup",
        "hooks": {
            "guard": "verif",
            "enable": "go build -tags verif (the harness module /verif/harness replaces github.com/jotaen/klog with /repo)",
            "baseline_off_cmd": "cd /repo && go test -mod=mod -vet=off -count=1 -timeout 25m ./...",
            "source_commits": [],
            "add_only": True,
        },
        "engines": [{"name": "coq-model+correspondence", "path": "/verif/check.py",
                     "serves_properties": sorted(CLAIMED), "kind_free_text":
                     "Coq 8.16.1 development (coq/) with property theorems; model extracted to OCaml (build/driver) and compared with the Go implementation (build/harness) on generated and exhaustive request streams"}],
        "checks": checks,
        "notes": "See DESIGN.md. known_findings.json lists genuine defects (known/fixed).",
        "not_applicable": na,
    }
    json.dump(m, open(os.path.join(ROOT, "MANIFEST.json"), "w"), indent=1)

if __name__ == "__main__":
    main()
