(* Json: Go's encoding/json as klog uses it (bookmarks.json: C19; klog json: C20). Definitions only.

   - [json]            JSON values. Integers are [JNum z]; any other number literal Go's scanner
                       accepts (fraction, exponent, minus zero) is kept verbatim as [JRaw lit].
   - [encode_string]   json.Encoder with SetEscapeHTML(false) on a Go string (encode.go appendString):
                       double quote and backslash get a backslash; short escapes for BS FF LF CR TAB;
                       other bytes below 0x20 become backslash-u-00XX (lower-case hex); U+2028 and U+2029
                       become backslash-u-2028 / backslash-u-2029; every byte that is not part of a valid
                       UTF-8 sequence becomes the SIX characters backslash-u-fffd; everything else is
                       copied verbatim (including 0x7f, <, >, &).
   - [print_json]      the printer, parametrised by the layout; [print_compact] (Marshal / Encoder without
                       indent) and [print_pretty] (Encoder.SetIndent with empty prefix and two spaces, i.e.
                       json.Indent applied to the compact form: empty containers stay [] / {}, one space
                       after the colon). [encoder_output] appends the newline Encoder.Encode writes after
                       every value.
   - [read_string]     decode.go unquote (after the scanner accepted the literal): escapes including
                       backslash-u-XXXX (hex in either case), surrogate pairs, a lone surrogate = U+FFFD,
                       raw non-ASCII coerced to well-formed UTF-8 (invalid byte = EF BF BD), bytes below
                       0x20 rejected.
   - [parse_json]      scanner.go checkValid + a generic decode: RFC 8259 grammar, white space = space,
                       TAB, CR, LF, exactly one top-level value. All syntax errors are
                       [Err json_syntax_error]. Not modelled: the scanner's nesting limit (10,000 levels).
   - [valid_utf8]      utf8.ValidString.
   - [json_ok]         the values for which printing then parsing is the identity (strings and keys are
                       valid UTF-8, no raw number literals). *)
From Klog Require Import Base.Prelude Base.Utf8.
Open Scope N_scope.

Inductive json :=
| JNull
| JBool (b : bool)
| JNum (z : Z)
| JRaw (lit : bytes)
| JStr (s : bytes)
| JArr (l : list json)
| JObj (l : list (bytes * json)).

Definition json_syntax_error : error := EOther 100.

(* ---------- UTF-8 validity (utf8.ValidString) ---------- *)

Definition invalid_rune (rw : N * nat) : bool := (fst rw =? rune_error) && Nat.eqb (snd rw) 1.

Fixpoint valid_utf8_fuel (fuel : nat) (s : bytes) : bool :=
  match s with
  | [] => true
  | _ :: _ =>
    match fuel with
    | O => false
    | S k => let rw := decode_rune s in
             if invalid_rune rw then false else valid_utf8_fuel k (skipn (snd rw) s)
    end
  end.
Definition valid_utf8b (s : bytes) : bool := valid_utf8_fuel (length s) s.
Definition valid_utf8 (s : bytes) : Prop := valid_utf8b s = true.

(* ---------- string encoder ---------- *)

(* one byte below 0x80 *)
Definition esc_ascii (b : N) : bytes :=
  if (b =? 34) || (b =? 92) then [92; b]
  else if b =? 8 then [92; 98]
  else if b =? 12 then [92; 102]
  else if b =? 10 then [92; 110]
  else if b =? 13 then [92; 114]
  else if b =? 9 then [92; 116]
  else if b <? 32 then [92; 117; 48; 48; hex_digit (b / 16); hex_digit (b mod 16)]
  else [b].

Definition esc_fffd : bytes := [92; 117; 102; 102; 102; 100].          (* backslash u f f f d *)
Definition esc_202x (c : N) : bytes := [92; 117; 50; 48; 50; hex_digit (c mod 16)].

Fixpoint encode_body (fuel : nat) (s : bytes) : bytes :=
  match fuel with
  | O => []
  | S k =>
    match s with
    | [] => []
    | b :: r =>
      if b <? 128 then esc_ascii b ++ encode_body k r
      else
        let rw := decode_rune s in
        if invalid_rune rw then esc_fffd ++ encode_body k r
        else if (fst rw =? 8232) || (fst rw =? 8233) then esc_202x (fst rw) ++ encode_body k (skipn (snd rw) s)
        else firstn (snd rw) s ++ encode_body k (skipn (snd rw) s)
    end
  end.

Definition encode_string (s : bytes) : bytes := [34] ++ encode_body (length s) s ++ [34].

(* ---------- printer ---------- *)

Definition print_atom (v : json) : bytes :=
  match v with
  | JNull => b!"null"
  | JBool true => b!"true"
  | JBool false => b!"false"
  | JNum z => dec z
  | JRaw l => l
  | JStr s => encode_string s
  | _ => []
  end.

Section Printer.
  Variable nl : nat -> bytes.   (* what precedes an element at nesting depth d ("" or newline + indentation) *)
  Variable csp : bytes.         (* what follows the colon *)

  Fixpoint print_json (d : nat) (v : json) : bytes :=
    match v with
    | JArr [] => b!"[]"
    | JArr l => [91] ++ join [44] (map (fun x => nl (S d) ++ print_json (S d) x) l) ++ nl d ++ [93]
    | JObj [] => b!"{}"
    | JObj l => [123] ++ join [44] (map (fun kx => nl (S d) ++ encode_string (fst kx) ++ [58] ++ csp
                                                     ++ print_json (S d) (snd kx)) l) ++ nl d ++ [125]
    | _ => print_atom v
    end.
End Printer.

Definition nl_compact (d : nat) : bytes := [].
Definition nl_indent (d : nat) : bytes := 10 :: repeat_bytes [32; 32] d.

Definition print_compact (v : json) : bytes := print_json nl_compact [] 0 v.
Definition print_pretty (v : json) : bytes := print_json nl_indent [32] 0 v.

(* json.Encoder.Encode: the value, then a newline *)
Definition encoder_output (pretty : bool) (v : json) : bytes :=
  (if pretty then print_pretty v else print_compact v) ++ [10].

(* ---------- string decoder ---------- *)

Definition hexv (c : N) : option N :=
  if is_digit c then Some (c - 48)
  else if (97 <=? c) && (c <=? 102) then Some (c - 87)
  else if (65 <=? c) && (c <=? 70) then Some (c - 55)
  else None.

(* getu4 after the backslash-u: four hex digits *)
Definition hex4 (s : bytes) : option (N * bytes) :=
  match s with
  | a :: b :: c :: d :: r =>
    match hexv a, hexv b, hexv c, hexv d with
    | Some x, Some y, Some z, Some w => Some (x * 4096 + y * 256 + z * 16 + w, r)
    | _, _, _, _ => None
    end
  | _ => None
  end.

Definition is_surrogate (v : N) : bool := (55296 <=? v) && (v <? 57344).
Definition is_high (v : N) : bool := (55296 <=? v) && (v <? 56320).
Definition is_low (v : N) : bool := (56320 <=? v) && (v <? 57344).
Definition fffd_bytes : bytes := [239; 191; 189].

Definition prepend (p : bytes) (x : outcome (bytes * bytes)) : outcome (bytes * bytes) :=
  match x with
  | Ok (d, r) => Ok (p ++ d, r)
  | Err e => Err e
  | Crash c => Crash c
  end.

(* [s] starts just after the opening quote; result: decoded contents, text after the closing quote *)
Fixpoint read_string_fuel (fuel : nat) (s : bytes) : outcome (bytes * bytes) :=
  match fuel with
  | O => Err json_syntax_error
  | S k =>
    match s with
    | [] => Err json_syntax_error
    | c :: r =>
      if c =? 34 then Ok ([], r)
      else if c =? 92 then
        match r with
        | [] => Err json_syntax_error
        | e :: r1 =>
          if (e =? 34) || (e =? 92) || (e =? 47) then prepend [e] (read_string_fuel k r1)
          else if e =? 98 then prepend [8] (read_string_fuel k r1)
          else if e =? 102 then prepend [12] (read_string_fuel k r1)
          else if e =? 110 then prepend [10] (read_string_fuel k r1)
          else if e =? 114 then prepend [13] (read_string_fuel k r1)
          else if e =? 116 then prepend [9] (read_string_fuel k r1)
          else if e =? 117 then
            match hex4 r1 with
            | None => Err json_syntax_error
            | Some (v, r2) =>
              if is_surrogate v then
                match r2 with
                | 92 :: 117 :: r3 =>
                  match hex4 r3 with
                  | Some (v2, r4) =>
                    if is_high v && is_low v2
                    then prepend (encode_rune ((v - 55296) * 1024 + (v2 - 56320) + 65536)) (read_string_fuel k r4)
                    else prepend fffd_bytes (read_string_fuel k r2)
                  | None => prepend fffd_bytes (read_string_fuel k r2)
                  end
                | _ => prepend fffd_bytes (read_string_fuel k r2)
                end
              else prepend (encode_rune v) (read_string_fuel k r2)
            end
          else Err json_syntax_error
        end
      else if c <? 32 then Err json_syntax_error
      else if c <? 128 then prepend [c] (read_string_fuel k r)
      else let rw := decode_rune s in
           prepend (encode_rune (fst rw)) (read_string_fuel k (skipn (snd rw) s))
    end
  end.

Definition read_string (s : bytes) : outcome (bytes * bytes) := read_string_fuel (S (length s)) s.

(* a complete string literal, quotes included *)
Definition decode_string (lit : bytes) : outcome bytes :=
  match lit with
  | 34 :: r =>
    match read_string r with
    | Ok (d, []) => Ok d
    | Ok (_, _ :: _) => Err json_syntax_error
    | Err e => Err e
    | Crash c => Crash c
    end
  | _ => Err json_syntax_error
  end.

(* ---------- numbers ---------- *)

Definition is_digit19 (c : N) : bool := (49 <=? c) && (c <=? 57).

(* the three parts of an unsigned number literal of the JSON grammar; each returns (part, rest) *)
Definition scan_int (s : bytes) : option (bytes * bytes) :=
  match s with
  | [] => None
  | c :: r1 =>
    if c =? 48 then Some ([48], r1)
    else if is_digit19 c then let '(ds, r2) := span is_digit r1 in Some (c :: ds, r2)
    else None
  end.

Definition scan_frac (s : bytes) : option (bytes * bytes) :=
  match s with
  | c :: r =>
    if c =? 46 then
      let '(ds, r') := span is_digit r in
      match ds with [] => None | _ => Some (46 :: ds, r') end
    else Some ([], s)
  | [] => Some ([], s)
  end.

Definition scan_exp (s : bytes) : option (bytes * bytes) :=
  match s with
  | e :: r =>
    if (e =? 101) || (e =? 69) then
      let '(sg, r1) := match r with
                       | x :: r' => if (x =? 43) || (x =? 45) then ([x], r') else ([], r)
                       | [] => ([], r)
                       end in
      let '(ds, r2) := span is_digit r1 in
      match ds with [] => None | _ => Some (e :: sg ++ ds, r2) end
    else Some ([], s)
  | [] => Some ([], s)
  end.

(* the longest prefix that is an unsigned number literal: (literal, rest) *)
Definition scan_unsigned (s : bytes) : option (bytes * bytes) :=
  match scan_int s with
  | None => None
  | Some (ip, s2) =>
    match scan_frac s2 with
    | None => None
    | Some (fp, s3) =>
      match scan_exp s3 with
      | None => None
      | Some (ep, s4) => Some (ip ++ fp ++ ep, s4)
      end
    end
  end.

(* optional minus sign, then an unsigned literal *)
Definition scan_number (s : bytes) : option (bytes * bytes) :=
  match s with
  | c :: r =>
    if c =? 45 then
      match scan_unsigned r with
      | Some (l, rest) => Some (45 :: l, rest)
      | None => None
      end
    else scan_unsigned s
  | [] => None
  end.

(* an integer literal in the form the encoder writes it becomes [JNum]; any other literal stays raw *)
Definition number_value (lit : bytes) : json :=
  let '(neg, ds) := match lit with
                    | c :: r => if c =? 45 then (true, r) else (false, lit)
                    | [] => (false, lit)
                    end in
  let z := if neg then (- digits_val ds)%Z else digits_val ds in
  if all_digits ds && bytes_eqb (dec z) lit then JNum z else JRaw lit.

(* ---------- parser ---------- *)

Definition is_ws (c : N) : bool := (c =? 32) || (c =? 9) || (c =? 13) || (c =? 10).

Fixpoint skip_ws (s : bytes) : bytes :=
  match s with
  | c :: r => if is_ws c then skip_ws r else s
  | [] => []
  end.

Definition syntax_err {A} : outcome A := Err json_syntax_error.

Fixpoint parse_value (fuel : nat) (s : bytes) : outcome (json * bytes) :=
  match fuel with
  | O => Crash COutOfFuel
  | S k =>
    match skip_ws s with
    | [] => syntax_err
    | c :: r =>
      if c =? 123 then
        match skip_ws r with
        | c' :: r' => if c' =? 125 then Ok (JObj [], r')
                      else let* (m, r'') := parse_members k r in Ok (JObj m, r'')
        | [] => syntax_err
        end
      else if c =? 91 then
        match skip_ws r with
        | c' :: r' => if c' =? 93 then Ok (JArr [], r')
                      else let* (l, r'') := parse_elements k r in Ok (JArr l, r'')
        | [] => syntax_err
        end
      else if c =? 34 then
        let* (str, r') := read_string r in Ok (JStr str, r')
      else if has_prefix b!"true" (c :: r) then Ok (JBool true, skipn 3 r)
      else if has_prefix b!"false" (c :: r) then Ok (JBool false, skipn 4 r)
      else if has_prefix b!"null" (c :: r) then Ok (JNull, skipn 3 r)
      else
        match scan_number (c :: r) with
        | Some (lit, r') => Ok (number_value lit, r')
        | None => syntax_err
        end
    end
  end

(* after '[' (array not empty): value (',' value)* ']' *)
with parse_elements (fuel : nat) (s : bytes) : outcome (list json * bytes) :=
  match fuel with
  | O => Crash COutOfFuel
  | S k =>
    let* (v, r) := parse_value k s in
    match skip_ws r with
    | 44 :: r' => let* (l, r'') := parse_elements k r' in Ok (v :: l, r'')
    | 93 :: r' => Ok ([v], r')
    | _ => syntax_err
    end
  end

(* after '{' (object not empty): string ':' value (',' string ':' value)* '}' *)
with parse_members (fuel : nat) (s : bytes) : outcome (list (bytes * json) * bytes) :=
  match fuel with
  | O => Crash COutOfFuel
  | S k =>
    match skip_ws s with
    | 34 :: r0 =>
      let* (key, r1) := read_string r0 in
      match skip_ws r1 with
      | 58 :: r2 =>
        let* (v, r) := parse_value k r2 in
        match skip_ws r with
        | 44 :: r' => let* (l, r'') := parse_members k r' in Ok ((key, v) :: l, r'')
        | 125 :: r' => Ok ([(key, v)], r')
        | _ => syntax_err
        end
      | _ => syntax_err
      end
    | _ => syntax_err
    end
  end.

(* one JSON text: white space, one value, white space, end.
   Fuel: one level of nesting costs two units and at least one byte. *)
Definition parse_json (s : bytes) : outcome json :=
  let* (v, r) := parse_value (2 * length s + 2) s in
  match skip_ws r with
  | [] => Ok v
  | _ :: _ => syntax_err
  end.

(* ---------- well-formed values (the domain of the print/parse round trip) ---------- *)

Fixpoint json_ok (v : json) : Prop :=
  match v with
  | JStr s => valid_utf8 s
  | JRaw _ => False
  | JArr l => (fix all (l : list json) : Prop := match l with [] => True | x :: r => json_ok x /\ all r end) l
  | JObj l => (fix all (l : list (bytes * json)) : Prop :=
                 match l with [] => True | kx :: r => (valid_utf8 (fst kx) /\ json_ok (snd kx)) /\ all r end) l
  | _ => True
  end.
