(* Tables whose cells are documents (C18): the output of Collect is itself the rendering of ONE document,
   the same for every theme, so content neutrality of report / tags / today follows from strip_render. *)
From Klog Require Import Base.Prelude Base.Utf8 Model.Styler Model.Table Model.TextSer
  Proofs.Styler Proofs.Table Proofs.TextSer.
From Coq Require Import Arith.
Open Scope nat_scope.

(* Format adds nothing visible, whatever the text *)
Lemma strip_format th p x : theme_ok th -> strip (format th p x) = strip x.
Proof.
  intros Hth. unfold format. rewrite (strip_sgrs _ _ (seqs_sgrs th p Hth)).
  assert (Hr : sgrs (th_reset th)) by apply Hth.
  destruct (th_reset th) as [|c r] eqn:E; [now rewrite app_nil_r|].
  destruct (sgrs_head _ Hr ltac:(discriminate)) as (t & Ht). rewrite Ht.
  rewrite strip_app_nospan by apply spans_esc_r. rewrite <- Ht, (strip_sgrs_nil _ Hr). apply app_nil_r.
Qed.

(* ---------- table operations on documents ---------- *)

Inductive dop :=
| DCell (right : bool) (d : list piece)
| DFill (d : list piece)
| DSkip (n : Z).

Definition dop_op (th : theme) (o : dop) : op :=
  match o with
  | DCell false d => OCellL (render_doc th d)
  | DCell true d => OCellR (render_doc th d)
  | DFill d => OFill (render_doc th d)
  | DSkip n => OSkip n
  end.

Record dcell := mk_dcell { dc_doc : list piece; dc_fill : bool; dc_right : bool }.

Definition dcells_of (o : dop) : list dcell :=
  match o with
  | DCell r d => [mk_dcell d false r]
  | DFill d => [mk_dcell d true false]
  | DSkip n => repeat (mk_dcell [] false false) (Z.to_nat n)
  end.

Definition dcells (ops : list dop) : list dcell := flat_map dcells_of ops.

Definition cell_of (th : theme) (c : dcell) : cell :=
  mk_cell (render_doc th (dc_doc c)) (vis_len (render_doc th (dc_doc c))) (dc_fill c) (dc_right c).

Lemma skip_cells_cells k : forall t,
  t_cells (skip_cells k t) = t_cells t ++ repeat (mk_cell [] (vis_len []) false false) k.
Proof.
  induction k; intros t; cbn [skip_cells repeat]; [now rewrite app_nil_r|].
  rewrite IHk. cbn [add_cell t_cells]. now rewrite <- app_assoc.
Qed.

Lemma map_repeat' {A B} (f : A -> B) x n : map f (repeat x n) = repeat (f x) n.
Proof. induction n; cbn [repeat map]; [reflexivity|now rewrite IHn]. Qed.

Lemma fold_cells th ops : forall t,
  t_cells (fold_left apply_op (map (dop_op th) ops) t) = t_cells t ++ map (cell_of th) (dcells ops).
Proof.
  induction ops as [|o r IH]; intros t; cbn [map fold_left dcells flat_map]; [now rewrite app_nil_r|].
  fold (dcells r). rewrite IH, map_app, app_assoc. f_equal.
  destruct o as [[|] d|d|n]; cbn [dop_op apply_op dcells_of map add_cell t_cells]; try reflexivity.
  rewrite skip_cells_cells. f_equal. rewrite map_repeat'. reflexivity.
Qed.

(* ---------- the document a table prints ---------- *)

Fixpoint repeat_doc (d : list piece) (n : nat) : list piece :=
  match n with O => [] | S k => d ++ repeat_doc d k end.

(* visible length of a cell, measured on the unstyled rendering *)
Definition dc_len (c : dcell) : nat := vis_len (render_doc no_colour (dc_doc c)).

Definition cell_doc (w : nat) (c : dcell) : list piece :=
  if dc_fill c then repeat_doc (dc_doc c) w
  else let pad := Plain (repeat 32%N (w - dc_len c)) in
       if dc_right c then pad :: dc_doc c else dc_doc c ++ [pad].

Fixpoint collect_doc (cols : nat) (L : list nat) (sep : bytes) (i : nat) (cs : list dcell) : list piece :=
  match cs with
  | [] => []
  | c :: r =>
    let col := Nat.modulo i cols in
    (if Nat.ltb 0 i && Nat.eqb col 0 then [Plain nl] else [])
    ++ (if Nat.ltb 0 col then [Plain sep] else [])
    ++ cell_doc (nth col L 0) c ++ collect_doc cols L sep (S i) r
  end.

Definition table_doc (cols : nat) (L : list nat) (sep : bytes) (cs : list dcell) : list piece :=
  collect_doc cols L sep 0 cs ++ [Plain nl].

Lemma render_doc_app th a b : render_doc th (a ++ b) = render_doc th a ++ render_doc th b.
Proof. apply flat_map_app. Qed.

Lemma render_doc_plain th t : render_doc th [Plain t] = t.
Proof. cbn. apply app_nil_r. Qed.

Lemma render_repeat_doc th d n : render_doc th (repeat_doc d n) = repeat_bytes (render_doc th d) n.
Proof. induction n; [reflexivity|]. cbn [repeat_doc repeat_bytes]. now rewrite render_doc_app, IHn. Qed.

(* the width a cell is measured with does not depend on the theme *)
Lemma cell_len_theme th c : theme_ok th -> boundary_safe (dc_doc c) -> c_len (cell_of th c) = dc_len c.
Proof. intros Hth Hs. unfold cell_of, dc_len, vis_len. cbn [c_len]. now rewrite (strip_render th _ Hth Hs). Qed.

Lemma cell_text_doc th w c out : theme_ok th -> boundary_safe (dc_doc c) ->
  cell_text w (cell_of th c) = Ok out -> out = render_doc th (cell_doc w c).
Proof.
  intros Hth Hs. unfold cell_text, cell_doc. rewrite (cell_len_theme th c Hth Hs). cbn [cell_of c_fill c_right c_value].
  destruct (dc_fill c).
  - intros [= <-]. now rewrite render_repeat_doc.
  - destruct (Nat.ltb w (dc_len c)); [discriminate|]. intros [= <-]. destruct (dc_right c).
    + change (Plain (repeat 32%N (w - dc_len c)) :: dc_doc c) with ([Plain (repeat 32%N (w - dc_len c))] ++ dc_doc c).
      now rewrite render_doc_app, render_doc_plain.
    + now rewrite render_doc_app, render_doc_plain.
Qed.

Lemma collect_from_doc th cols L sep : theme_ok th -> forall cs i out,
  Forall (fun c => boundary_safe (dc_doc c)) cs ->
  collect_from cols L sep i (map (cell_of th) cs) = Ok out ->
  out = render_doc th (collect_doc cols L sep i cs).
Proof.
  intros Hth. induction cs as [|c r IH]; intros i out Hs H.
  - cbn in H. injection H as <-. reflexivity.
  - inversion Hs as [|? ? Hc Hr]; subst. cbn [map collect_from] in H.
    apply bind_ok in H as (x & Hx & H). apply bind_ok in H as (y & Hy & H). injection H as <-.
    cbn [collect_doc]. rewrite !render_doc_app.
    rewrite <- (cell_text_doc th _ c x Hth Hc Hx), <- (IH (S i) y Hr Hy).
    destruct (Nat.ltb 0 i && Nat.eqb (i mod cols) 0); destruct (Nat.ltb 0 (i mod cols));
      rewrite ?render_doc_plain; reflexivity.
Qed.

Definition dop_safe (o : dop) : Prop :=
  match o with DCell _ d | DFill d => boundary_safe d | DSkip _ => True end.

Lemma dcells_safe ops : Forall dop_safe ops -> Forall (fun c => boundary_safe (dc_doc c)) (dcells ops).
Proof.
  induction 1 as [|o r Ho _ IH]; [constructor|]. unfold dcells. cbn [flat_map]. apply Forall_app. split; [|exact IH].
  destruct o as [rt d|d|n]; cbn [dcells_of dop_safe] in *.
  - constructor; [exact Ho|constructor].
  - constructor; [exact Ho|constructor].
  - apply Forall_forall. intros c Hc. apply repeat_spec in Hc. subst c. cbn. intros l1 m l2 H. destruct l1; discriminate.
Qed.

Lemma dop_shape th o : theme_ok th -> dop_safe o -> shape (dop_op th o) = shape (dop_op no_colour o).
Proof.
  intros Hth Hs. destruct o as [[|] d|d|n]; cbn [dop_op shape dop_safe] in *; try reflexivity; f_equal;
    unfold vis_len; now rewrite (strip_render th d Hth Hs).
Qed.

(* what Collect prints under any theme is the rendering, under that theme, of ONE document *)
Lemma table_is_doc th cols sep ops t t0 out :
  theme_ok th -> Forall dop_safe ops ->
  build cols sep (map (dop_op th) ops) = Ok t -> collect t = Ok out ->
  build cols sep (map (dop_op no_colour) ops) = Ok t0 ->
  t_longest t = t_longest t0 /\ t_cols t = t_cols t0 /\
  out = render_doc th (table_doc (t_cols t0) (t_longest t0) sep (dcells ops)).
Proof.
  intros Hth Hs B C B0.
  assert (Hl : same_layout t t0).
  { unfold build in B, B0. apply bind_ok in B as (a & Ha & B). apply bind_ok in B0 as (b & Hb & B0).
    rewrite Ha in Hb. injection Hb as <-. injection B as <-. injection B0 as <-.
    apply same_layout_fold; [|repeat split].
    rewrite !map_map. apply map_ext_in. intros o Hin. rewrite Forall_forall in Hs. apply dop_shape; auto. }
  destruct Hl as (L1 & L2 & _ & _). split; [exact L2|]. split; [exact L1|].
  unfold build in B. apply bind_ok in B as (a & Ha & B). injection B as <-.
  destruct (inv_new _ _ _ Ha) as (Hc & Hinv & Hnil).
  pose proof (inv_fold (t_cols a) sep (map (dop_op th) ops) ltac:(lia) a Hinv) as [I1 I2 _ _ _ _].
  unfold collect in C. apply bind_ok in C as (body & Hb & C). injection C as <-.
  rewrite fold_cells, Hnil in Hb. cbn [app] in Hb. rewrite I2 in Hb.
  apply (collect_from_doc th _ _ _ Hth _ _ _ (dcells_safe ops Hs)) in Hb.
  unfold table_doc. rewrite render_doc_app, render_doc_plain, <- L1, <- L2, Hb. reflexivity.
Qed.

(* content neutrality of a table, given that the ONE document is boundary-safe *)
Lemma table_neutral th cols sep ops t t0 out out0 :
  theme_ok th -> Forall dop_safe ops ->
  build cols sep (map (dop_op th) ops) = Ok t -> collect t = Ok out ->
  build cols sep (map (dop_op no_colour) ops) = Ok t0 -> collect t0 = Ok out0 ->
  boundary_safe (table_doc (t_cols t0) (t_longest t0) sep (dcells ops)) ->
  strip out = strip out0.
Proof.
  intros Hth Hs B C B0 C0 Hsafe.
  destruct (table_is_doc th cols sep ops t t0 out Hth Hs B C B0) as (_ & _ & ->).
  destruct (table_is_doc no_colour cols sep ops t0 t0 out0 no_colour_ok Hs B0 C0 B0) as (_ & _ & ->).
  now apply strip_render.
Qed.

(* ---------- the table document is boundary-safe ---------- *)

(* a token list that may follow any closed text, provided a guard byte follows it *)
Definition semi (X : list tok) : Prop :=
  forall acc k, closed acc -> no_cont k -> guarded acc X k.

(* a non-empty ESC-free text that starts with a byte which cannot continue a sequence *)
Definition guard_text (g : bytes) : Prop := g <> [] /\ no_cont g /\ esc_free g.

Lemma guard_text_app a b : esc_free a -> Forall (fun c => is_cont c = false) a -> guard_text b -> guard_text (a ++ b).
Proof.
  intros Ha Hc (Hne & Hn & Hf). split; [destruct a; [exact Hne|discriminate]|]. split.
  - destruct a as [|x a]; [exact Hn|]. cbn. now inversion Hc.
  - intros Hin. apply in_app_or in Hin as [H|H]; [now apply Ha|now apply Hf].
Qed.

Lemma semi_then_good X g : semi X -> guard_text g -> good (X ++ [T g]).
Proof.
  intros HX (Hne & Hn & Hf) acc k Hacc. split.
  - apply guarded_app; [|exact I]. apply HX; [exact Hacc|]. cbn [text_of flat_map]. rewrite app_nil_r.
    destruct g; [congruence|exact Hn].
  - rewrite text_of_app, app_assoc. cbn [text_of flat_map]. rewrite app_nil_r.
    apply closed_app_guard; [now apply esc_free_closed|exact Hn|exact Hne].
Qed.

Lemma good_semi X : good X -> semi X.
Proof. intros H acc k Hacc _. now apply H. Qed.

Lemma semi_safe d : semi (flatten_doc d) -> boundary_safe d.
Proof. intros H. apply guarded_safe. apply H; [reflexivity|exact I]. Qed.

(* ESC-free documents *)
Lemma good_esc_free_toks X : esc_free_toks X -> good X.
Proof.
  induction X as [|[t|m] r IH]; intros H acc k Hacc.
  - apply good_nil. exact Hacc.
  - destruct H as [Ht Hr]. cbn [guarded text_of flat_map]. fold (text_of r).
    assert (Hc : closed (acc ++ t)) by (apply closed_app; [exact Hacc|now apply esc_free_closed]).
    destruct (IH Hr (acc ++ t) k Hc) as [G C]. split; [exact G|now rewrite app_assoc].
  - cbn [esc_free_toks] in H. destruct (IH H acc k Hacc) as [G C]. cbn [guarded text_of flat_map]. fold (text_of r).
    split; [split; [now left|exact G]|exact C].
Qed.

Lemma good_esc_free_doc d : Forall esc_free_piece d -> good (flatten_doc d).
Proof. intros H. apply good_esc_free_toks, esc_free_flatten_doc, H. Qed.

(* an ESC-free text followed by one styled text of ARBITRARY content: the shape of a tag-value cell *)
Lemma semi_styled_tail t0 p v : esc_free t0 -> semi (flatten_doc [Plain t0; Styled p [Plain v]]).
Proof.
  intros H0 acc k Hacc Hk. unfold flatten_doc. cbn [flat_map flatten app]. cbn [guarded].
  assert (Hc : closed (acc ++ t0)) by (apply closed_app; [exact Hacc|now apply esc_free_closed]).
  split; [now left|]. split; [right; exact Hk|exact I].
Qed.

Definition dcell_ok (c : dcell) : Prop :=
  if dc_fill c then Forall esc_free_piece (dc_doc c) else semi (flatten_doc (dc_doc c)).

Lemma spaces_esc_free n : esc_free (repeat 32%N n).
Proof. intros H. apply repeat_spec in H. discriminate. Qed.

Lemma spaces_no_cont n : Forall (fun c => is_cont c = false) (repeat 32%N n).
Proof. apply Forall_forall. intros c H. apply repeat_spec in H. now subst. Qed.

Lemma good_repeat_doc d n : Forall esc_free_piece d -> good (flatten_doc (repeat_doc d n)).
Proof.
  intros H. induction n; [apply good_nil|]. cbn [repeat_doc]. rewrite flatten_doc_app.
  apply good_app; [now apply good_esc_free_doc|exact IHn].
Qed.

(* one cell followed by a guard text *)
Lemma good_cell w c g : dcell_ok c -> guard_text g -> good (flatten_doc (cell_doc w c ++ [Plain g])).
Proof.
  intros Hc Hg. unfold dcell_ok, cell_doc in *. destruct (dc_fill c).
  - rewrite flatten_doc_app. apply good_app; [now apply good_repeat_doc|]. apply good_plain, Hg.
  - destruct (dc_right c).
    + change ((Plain (repeat 32%N (w - dc_len c)) :: dc_doc c) ++ [Plain g])
        with ([Plain (repeat 32%N (w - dc_len c))] ++ (dc_doc c ++ [Plain g])).
      rewrite flatten_doc_app. apply good_app; [apply good_plain, spaces_esc_free|].
      rewrite flatten_doc_app. change (flatten_doc [Plain g]) with [T g]. now apply semi_then_good.
    + rewrite <- app_assoc, flatten_doc_app.
      assert (Hg' : guard_text (repeat 32%N (w - dc_len c) ++ g))
        by (apply guard_text_app; [apply spaces_esc_free|apply spaces_no_cont|exact Hg]).
      pose proof (semi_then_good _ _ Hc Hg') as HG.
      (* the padding and the guard are two adjacent text tokens: same text as one *)
      intros acc k Hacc. destruct (HG acc k Hacc) as [G C]. split.
      * apply guarded_app.
        -- apply Hc; [exact Hacc|]. cbn [flatten_doc flat_map flatten app text_of]. rewrite app_nil_r.
           destruct Hg' as (Hne & Hn & _).
           destruct (repeat 32%N (w - dc_len c) ++ g) as [|x l]; [congruence|exact Hn].
        -- cbn [flatten_doc flat_map flatten app guarded]. exact I.
      * rewrite text_of_app in *. cbn [flatten_doc flat_map flatten app text_of] in *.
        rewrite !app_nil_r in *. exact C.
Qed.

(* the piece that precedes cell i > 0: a line feed in column 0, the separator elsewhere *)
Definition pre (cols : nat) (sep : bytes) (i : nat) : list piece :=
  (if Nat.ltb 0 i && Nat.eqb (Nat.modulo i cols) 0 then [Plain nl] else [])
  ++ (if Nat.ltb 0 (Nat.modulo i cols) then [Plain sep] else []).

Lemma nl_guard : guard_text nl.
Proof. split; [discriminate|]. split; [reflexivity|]. apply esc_freeb_ok. reflexivity. Qed.

Lemma pre_succ cols sep i : guard_text sep -> exists g, guard_text g /\ pre cols sep (S i) = [Plain g].
Proof.
  intros Hs. unfold pre. cbn [Nat.ltb Nat.leb andb]. destruct (S i mod cols) as [|c] eqn:E.
  - exists nl. split; [apply nl_guard|reflexivity].
  - exists sep. split; [exact Hs|reflexivity].
Qed.

Lemma collect_doc_cons cols L sep i c r :
  collect_doc cols L sep i (c :: r) = pre cols sep i ++ cell_doc (nth (i mod cols) L 0) c ++ collect_doc cols L sep (S i) r.
Proof. unfold pre. cbn [collect_doc]. now rewrite <- app_assoc. Qed.

Lemma good_collect_tail cols L sep : guard_text sep -> forall cs i c g, Forall dcell_ok (c :: cs) -> guard_text g ->
  good (flatten_doc (cell_doc (nth (i mod cols) L 0) c ++ collect_doc cols L sep (S i) cs ++ [Plain g])).
Proof.
  intros Hsep. induction cs as [|c' r IH]; intros i c g Hok Hg; inversion Hok as [|? ? Hc Hr]; subst.
  - cbn [collect_doc app]. now apply good_cell.
  - rewrite collect_doc_cons. destruct (pre_succ cols sep i Hsep) as (g' & Hg' & ->).
    set (A := cell_doc (nth (i mod cols) L 0) c).
    set (B := cell_doc (nth (S i mod cols) L 0) c').
    set (R := collect_doc cols L sep (S (S i)) r).
    replace (A ++ ([Plain g'] ++ B ++ R) ++ [Plain g]) with ((A ++ [Plain g']) ++ (B ++ R ++ [Plain g]))
      by (now rewrite <- !app_assoc).
    rewrite flatten_doc_app. apply good_app; [now apply good_cell|]. now apply IH.
Qed.

Lemma mod0 cols : 0 mod cols = 0.
Proof. destruct cols; [reflexivity|apply Nat.mod_0_l; discriminate]. Qed.

(* the document of any table with a guard separator, ESC-free fills and semi-safe cells is boundary-safe *)
Lemma table_doc_safe cols L sep cs : guard_text sep -> Forall dcell_ok cs ->
  boundary_safe (table_doc cols L sep cs).
Proof.
  intros Hsep Hok. apply guarded_safe. unfold table_doc.
  destruct cs as [|c r]; [cbn; exact I|].
  rewrite collect_doc_cons. unfold pre. cbn [Nat.ltb Nat.leb andb]. rewrite mod0.
  cbn [Nat.eqb app]. rewrite <- app_assoc.
  pose proof (good_collect_tail cols L sep Hsep r 0 c nl Hok nl_guard [] [] eq_refl) as [G _].
  rewrite mod0 in G. exact G.
Qed.

(* ---------- the tables klog prints ---------- *)

Definition dop_ok (o : dop) : Prop :=
  match o with
  | DCell _ d => semi (flatten_doc d)
  | DFill d => Forall esc_free_piece d
  | DSkip _ => True
  end.

Lemma dop_ok_safe o : dop_ok o -> dop_safe o.
Proof.
  destruct o as [r d|d|n]; cbn [dop_ok dop_safe]; auto; [apply semi_safe|apply esc_free_boundary_safe].
Qed.

Lemma dcells_ok ops : Forall dop_ok ops -> Forall dcell_ok (dcells ops).
Proof.
  induction 1 as [|o r Ho _ IH]; [constructor|]. unfold dcells. cbn [flat_map]. apply Forall_app. split; [|exact IH].
  destruct o as [rt d|d|n]; cbn [dcells_of dop_ok] in *.
  - constructor; [exact Ho|constructor].
  - constructor; [exact Ho|constructor].
  - apply Forall_forall. intros c Hc. apply repeat_spec in Hc. subst c. unfold dcell_ok. cbn. intros acc k _ _. exact I.
Qed.

(* content neutrality of every table with a guard separator (klog: " "), ESC-free fill patterns
   (klog: "=") and cells that are safe before a guard — whatever bytes the styled texts contain *)
Lemma tables_neutral th cols sep ops t t0 out out0 :
  theme_ok th -> guard_text sep -> Forall dop_ok ops ->
  build cols sep (map (dop_op th) ops) = Ok t -> collect t = Ok out ->
  build cols sep (map (dop_op no_colour) ops) = Ok t0 -> collect t0 = Ok out0 ->
  strip out = strip out0.
Proof.
  intros Hth Hsep Hok B C B0 C0.
  apply (table_neutral th cols sep ops t t0 out out0 Hth); auto.
  - eapply Forall_impl; [|exact Hok]. apply dop_ok_safe.
  - apply table_doc_safe; [exact Hsep|now apply dcells_ok].
Qed.

(* the cell shapes of report, tags and today *)
Lemma semi_esc_free d : Forall esc_free_piece d -> semi (flatten_doc d).
Proof. intros H. now apply good_semi, good_esc_free_doc. Qed.

Lemma semi_styled_any p v : semi (flatten_doc [Styled p [Plain v]]).
Proof.
  intros acc k Hacc Hk. unfold flatten_doc. cbn [flat_map flatten app guarded].
  split; [now left|]. split; [right; exact Hk|exact I].
Qed.

(* ---------- print --with-totals ---------- *)

Definition bar : bytes := b!"  |  ".

(* printWithDurations: a blank line stays blank, every other line gets a prefix and a bar *)
Definition with_totals_doc (pre : list (list piece)) (ls : list line) : list piece :=
  newline :: flat_map (fun pl : list piece * line =>
                         if is_nil (snd pl) then [newline]
                         else fst pl ++ [Plain bar] ++ snd pl ++ [newline]) (combine pre ls)
  ++ [newline].

Lemma with_totals_good pre : Forall (Forall esc_free_piece) pre -> forall ls, Forall line_good ls ->
  good (flatten_doc (flat_map (fun pl : list piece * line =>
                         if is_nil (snd pl) then [newline]
                         else fst pl ++ [Plain bar] ++ snd pl ++ [newline]) (combine pre ls))).
Proof.
  induction 1 as [|p pre Hp _ IH]; intros ls Hls; [apply good_nil|].
  destruct ls as [|l ls]; [apply good_nil|]. inversion Hls as [|? ? Hl Hrest]; subst.
  cbn [combine flat_map fst snd]. rewrite flatten_doc_app. apply good_app; [|now apply IH].
  destruct (is_nil l); [apply good_newline|].
  rewrite !flatten_doc_app. apply good_app; [now apply good_esc_free_doc|].
  apply good_app; [apply good_plain, esc_freeb_ok; reflexivity|]. rewrite <- flatten_doc_app. exact Hl.
Qed.

Lemma print_totals_safe pre rs : Forall (Forall esc_free_piece) pre -> Forall record_ok rs ->
  boundary_safe (with_totals_doc pre (records_lines rs)).
Proof.
  intros Hp Hr. apply guarded_safe. unfold with_totals_doc.
  change (newline :: ?x ++ [newline]) with ([newline] ++ x ++ [newline]).
  assert (G : good (flatten_doc ([newline] ++ flat_map (fun pl : list piece * line =>
                         if is_nil (snd pl) then [newline]
                         else fst pl ++ [Plain bar] ++ snd pl ++ [newline]) (combine pre (records_lines rs)) ++ [newline]))).
  { rewrite !flatten_doc_app. apply good_app; [apply good_newline|].
    apply good_app; [apply with_totals_good; [exact Hp|now apply records_lines_good]|apply good_newline]. }
  apply (G [] []). reflexivity.
Qed.
