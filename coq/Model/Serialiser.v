(* Serialiser: parser.SerialiseRecords with the plain (unstyled) serialiser — what `klog print --no-style`
   emits per record (klog/parser/serialiser.go, app/text_serialiser.go). Definitions only. *)
From Klog Require Import Base.Prelude Model.Calendar Model.Values Model.Record.
Open Scope Z_scope.

Definition canonical_indent : bytes := [32; 32; 32; 32]%N.

Definition print_value (v : evalue) : bytes :=
  match v with
  | VDuration d => print_duration d
  | VRange r => print_range r
  | VOpen o => print_open_range o
  end.

(* lines of one entry: value line (+ first summary line), then continuation lines *)
Definition entry_lines (e : entry) : list bytes :=
  let v := canonical_indent ++ print_value (e_value e) in
  match e_summary e with
  | [] => [v]
  | first :: more =>
    (match first with [] => v | _ => v ++ [32%N] ++ first end)
    :: map (fun l => canonical_indent ++ canonical_indent ++ l) more
  end.

Definition headline_of (r : record) : bytes :=
  print_date (rec_date r) ++
  (if should_minutes r =? 0 then []
   else b!" (" ++ print_duration (mk_dur (should_minutes r)) ++ b!"!)").

Definition record_lines (r : record) : list bytes :=
  headline_of r :: rec_summary r ++ flat_map entry_lines (rec_entries r).

Fixpoint records_lines (rs : list record) : list bytes :=
  match rs with
  | [] => []
  | [r] => record_lines r
  | r :: rest => record_lines r ++ [[]] ++ records_lines rest
  end.

(* Lines.ToString: every line followed by "\n" *)
Definition print_records (rs : list record) : bytes :=
  flat_map (fun l => l ++ [10%N]) (records_lines rs).
