(* C06 — no file content can crash klog: parsing is total.
   Property theorems only; each is closed by [exact <lemma>] and followed by Print Assumptions.
   The model is the parser after the fixes F1, F2, F3, F9, F10 (see Model/Lines.v, Model/Parser.v); every
   panic site of the Go code is an explicit [Crash] of the model, so "never Crash" is "no reachable panic".
   Not here: render_errors_total, evaluate_total (renderer / evaluation models). *)
From Klog Require Import Base.Prelude Base.Utf8 Model.Record Model.Lines Model.Parser Proofs.Lines Proofs.Parser.
Open Scope nat_scope.

(* lines[0] of a block always exists: parse() does not panic on any block the splitter produces *)
Theorem C06_parse_record_no_crash : forall (ls : list line) (b : block),
  In b (blocks_of_lines ls) -> forall c, parse_record b <> Crash c.
Proof. exact parse_record_no_crash. Qed.
Print Assumptions C06_parse_record_no_crash.

(* for EVERY byte string the parser returns either records, one block per record (all blocks of the text),
   and no errors — or no records and at least one error *)
Theorem C06_parse_text_total : forall s : bytes,
  (exists rs bs, parse_text s = Ok (Parsed rs bs) /\ length rs = length bs /\ bs = blocks_of s) \/
  (exists es, parse_text s = Ok (Failed es) /\ es <> []).
Proof. exact parse_text_total. Qed.
Print Assumptions C06_parse_text_total.

(* in particular: never a panic, never a bare error *)
Theorem C06_parse_text_never_crashes : forall s : bytes,
  (forall c, parse_text s <> Crash c) /\ (forall e, parse_text s <> Err e).
Proof. exact parse_text_never_crashes. Qed.
Print Assumptions C06_parse_text_never_crashes.

(* what is returned: the i-th record is what parse() makes of the i-th block of the text; the errors are those
   of the faulty blocks, in block order, with the block's line offset added *)
Theorem C06_parse_text_blockwise : forall s : bytes,
  (forall rs bs, parse_text s = Ok (Parsed rs bs) ->
     bs = blocks_of s /\ Forall2 (fun r b => parse_record b = Ok (inl r)) rs bs) /\
  (forall es, parse_text s = Ok (Failed es) ->
     es = flat_map (fun b => match parse_record b with Ok (inr errs) => map (report b) errs | _ => [] end)
                   (blocks_of s)).
Proof. exact parse_text_blockwise. Qed.
Print Assumptions C06_parse_text_blockwise.

(* non-vacuity: both alternatives occur — example_text (invalid UTF-8, CRLF, lone CR, no final newline)
   parses to 2 records with 2 blocks, example_faulty to 5 errors *)
Example C06_nonvacuous :
  (exists rs bs, parse_text example_text = Ok (Parsed rs bs) /\ length rs = 2 /\ length bs = 2) /\
  (exists es, parse_text example_faulty = Ok (Failed es) /\ length es = 5).
Proof. split; [eexists _, _|eexists]; vm_compute; repeat split. Qed.
