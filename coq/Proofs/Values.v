(* Lemmas about Model/Values.v (C16). *)
From Klog Require Import Base.Prelude Model.Calendar Model.Values Proofs.Sweep.
From Coq Require Import ZifyBool.
Open Scope Z_scope.

Definition valid_time (t : time) : Prop :=
  0 <= t_hour t <= 23 /\ 0 <= t_min t <= 59 /\ -1 <= t_shift t <= 1.

Definition shift_of (t : time) : Z := if t_shift t <? 0 then -1 else if 0 <? t_shift t then 1 else 0.

Lemma offset_spec t : time_offset t = 1440 * shift_of t + 60 * t_hour t + t_min t.
Proof. unfold time_offset, shift_of. destruct (t_shift t <? 0); [lia|]. destruct (0 <? t_shift t); lia. Qed.

Lemma offset_bounds t : valid_time t -> -1440 <= time_offset t < 2880.
Proof. intros (Hh & Hm & Hs). rewrite offset_spec. unfold shift_of.
  destruct (t_shift t <? 0); [lia|]. destruct (0 <? t_shift t); lia. Qed.

Lemma new_time_valid h m s f t : -1 <= s <= 1 -> new_time h m s f = Ok t -> valid_time t.
Proof.
  unfold new_time, valid_time. intros Hs.
  destruct ((h =? 24) && (m =? 0) && (s <=? 0)) eqn:E.
  - destruct ((0 <=? 0) && (0 <=? 23) && (0 <=? m) && (m <=? 59)) eqn:E2; [|discriminate].
    intros [= <-]. simpl. lia.
  - destruct ((0 <=? h) && (h <=? 23) && (0 <=? m) && (m <=? 59)) eqn:E2; [|discriminate].
    intros [= <-]. simpl. lia.
Qed.

(* ---- comparison (Time.IsEqualTo / IsAfterOrEqual): on valid times the offset is injective, so two times are
   equal exactly when day shift, hour and minute coincide; the order is the order of the points in time ---- *)
Lemma time_eq_spec a b : valid_time a -> valid_time b ->
  (time_eqb a b = true <-> shift_of a = shift_of b /\ t_hour a = t_hour b /\ t_min a = t_min b).
Proof.
  intros (Ha1 & Ha2 & _) (Hb1 & Hb2 & _). unfold time_eqb. rewrite !offset_spec.
  assert (Hs : forall t, -1 <= shift_of t <= 1) by (intro t; unfold shift_of; destruct (t_shift t <? 0); [lia|]; destruct (0 <? t_shift t); lia).
  pose proof (Hs a). pose proof (Hs b). split; intros H1; lia.
Qed.

Lemma time_after_or_equal_spec a b :
  time_geb a b = true <-> 1440 * shift_of b + 60 * t_hour b + t_min b <= 1440 * shift_of a + 60 * t_hour a + t_min a.
Proof. unfold time_geb. rewrite !offset_spec. lia. Qed.

Lemma time_order_total a b : time_geb a b = true \/ time_geb b a = true.
Proof. unfold time_geb. lia. Qed.

Lemma time_order_antisym a b : time_geb a b = true -> time_geb b a = true -> time_eqb a b = true.
Proof. unfold time_geb, time_eqb. lia. Qed.

(* ---- range ---- *)
Lemma range_spec a b sp :
  (exists r, new_range a b sp = Ok r /\ range_minutes r = time_offset b - time_offset a /\ r_start r = a /\ r_end r = b)
  <-> time_offset a <= time_offset b.
Proof.
  unfold new_range, time_geb. split.
  - intros (r & H & _). destruct (time_offset b >=? time_offset a) eqn:E; [lia|discriminate].
  - intros H. destruct (time_offset b >=? time_offset a) eqn:E; [|lia].
    eexists; split; [reflexivity|]. unfold range_minutes; simpl. auto.
Qed.

Lemma range_reversed a b sp : time_offset b < time_offset a -> new_range a b sp = Err EIllegalRange.
Proof. unfold new_range, time_geb. intros H. destruct (time_offset b >=? time_offset a) eqn:E; [lia|reflexivity]. Qed.

(* ---- plus ---- *)
Lemma quot_rem_nonneg a : 0 <= a -> a = 60 * go_div a 60 + go_mod a 60 /\ 0 <= go_mod a 60 < 60 /\ 0 <= go_div a 60.
Proof.
  intros H. unfold go_div, go_mod. rewrite Z.quot_div_nonneg, Z.rem_mod_nonneg by lia.
  pose proof (Z.div_mod a 60 ltac:(lia)). pose proof (Z.mod_pos_bound a 60 ltac:(lia)).
  pose proof (Z.div_pos a 60 H ltac:(lia)). lia.
Qed.

Lemma plus_spec t d : valid_time t -> sm_ok d = true -> sm_ok (time_offset t + d) = true ->
  let m := time_offset t + d in
  (-1440 <= m < 2880 -> exists t', time_plus t d = Ok t' /\ valid_time t' /\ time_offset t' = m /\ t_24h t' = t_24h t) /\
  (~ (-1440 <= m < 2880) -> time_plus t d = Err EImpossibleOperation).
Proof.
  intros Hv Hd Hsum m. pose proof (offset_bounds t Hv) as Hb.
  assert (Hadd : add64 (time_offset t) d = Some m).
  { unfold add64. replace (sm_ok (time_offset t)) with true by (unfold sm_ok, sm_min, max_int64; lia).
    rewrite Hd, Hsum. reflexivity. }
  unfold time_plus. rewrite Hadd. clear Hadd Hsum Hb. clearbody m. split.
  - intros Hm.
    destruct ((2 * 1440 <=? m) || (m <? -1440)) eqn:E1; [lia|].
    destruct (m <? 0) eqn:E2.
    + destruct (quot_rem_nonneg (1440 + m) ltac:(lia)) as (Hq & Hr & Hq0).
      unfold new_time.
      destruct ((go_div (1440 + m) 60 =? 24) && (go_mod (1440 + m) 60 =? 0) && (-1 <=? 0)) eqn:E3; [lia|].
      destruct ((0 <=? go_div (1440 + m) 60) && (go_div (1440 + m) 60 <=? 23) && (0 <=? go_mod (1440 + m) 60) && (go_mod (1440 + m) 60 <=? 59)) eqn:E4; [|lia].
      eexists; split; [reflexivity|]. unfold valid_time; rewrite offset_spec; unfold shift_of; cbn [t_hour t_min t_shift t_24h Z.ltb Z.compare]. split; [|split]; try reflexivity; try lia.
    + destruct (1440 <? m) eqn:E5.
      * destruct (quot_rem_nonneg (m - 1440) ltac:(lia)) as (Hq & Hr & Hq0).
        unfold new_time.
        destruct ((go_div (m - 1440) 60 =? 24) && (go_mod (m - 1440) 60 =? 0) && (1 <=? 0)) eqn:E3; [lia|].
        destruct ((0 <=? go_div (m - 1440) 60) && (go_div (m - 1440) 60 <=? 23) && (0 <=? go_mod (m - 1440) 60) && (go_mod (m - 1440) 60 <=? 59)) eqn:E4; [|lia].
        eexists; split; [reflexivity|]. unfold valid_time; rewrite offset_spec; unfold shift_of; cbn [t_hour t_min t_shift t_24h Z.ltb Z.compare]. split; [|split]; try reflexivity; try lia.
      * destruct (quot_rem_nonneg m ltac:(lia)) as (Hq & Hr & Hq0).
        unfold new_time.
        destruct ((go_div m 60 =? 24) && (go_mod m 60 =? 0) && (0 <=? 0)) eqn:E3.
        -- cbn [Z.leb Z.compare andb]. destruct ((0 <=? go_mod m 60) && (go_mod m 60 <=? 59)) eqn:E4; [|lia].
           eexists; split; [reflexivity|]. unfold valid_time; rewrite offset_spec; unfold shift_of; cbn [t_hour t_min t_shift t_24h].
           change (0 + 1) with 1. cbn [Z.ltb Z.compare]. split; [|split]; try reflexivity; try lia.
        -- destruct ((0 <=? go_div m 60) && (go_div m 60 <=? 23) && (0 <=? go_mod m 60) && (go_mod m 60 <=? 59)) eqn:E4; [|lia].
           eexists; split; [reflexivity|]. unfold valid_time; rewrite offset_spec; unfold shift_of; cbn [t_hour t_min t_shift t_24h Z.ltb Z.compare]. split; [|split]; try reflexivity; try lia.
  - intros Hm. destruct ((2 * 1440 <=? m) || (m <? -1440)) eqn:E1; [reflexivity|lia].
Qed.

(* since fix K6 (Time.Plus checks the addition itself) an offset + duration outside the safemath range is an
   ordinary error: the int64 hypothesis of [plus_spec] is not needed *)
Lemma plus_spec_total t d : valid_time t -> sm_ok d = true ->
  let m := time_offset t + d in
  (-1440 <= m < 2880 -> exists t', time_plus t d = Ok t' /\ valid_time t' /\ time_offset t' = m /\ t_24h t' = t_24h t) /\
  (~ (-1440 <= m < 2880) -> time_plus t d = Err EImpossibleOperation).
Proof.
  intros Hv Hd m. destruct (sm_ok (time_offset t + d)) eqn:E.
  - exact (plus_spec t d Hv Hd E).
  - pose proof (offset_bounds t Hv) as Hb. split.
    + intros Hm. subst m. unfold sm_ok, sm_min, max_int64 in E. lia.
    + intros _. unfold time_plus, add64. rewrite E. rewrite !andb_false_r. reflexivity.
Qed.

Lemma plus_overflow_is_error :
  time_plus {| t_hour := 0; t_min := 1; t_shift := 0; t_24h := true |} max_int64 = Err EImpossibleOperation.
Proof. vm_compute. reflexivity. Qed.

(* ---- time round trip: finite sweep over all 8,640 (hour, minute, shift, notation) values ---- *)
Definition time_eqb_full (a b : time) : bool :=
  (t_hour a =? t_hour b) && (t_min a =? t_min b) && (t_shift a =? t_shift b) && Bool.eqb (t_24h a) (t_24h b).

Definition rt_check (h m s : Z) (f : bool) : bool :=
  let t := {| t_hour := h; t_min := m; t_shift := s; t_24h := f |} in
  match parse_time (print_time t) with Ok t' => time_eqb_full t t' | _ => false end.

Definition rt_sweep : bool :=
  range_forallb (fun h => range_forallb (fun m => range_forallb (fun s => rt_check h m s true && rt_check h m s false) (-1) 3) 0 60) 0 24.

Lemma rt_sweep_true : rt_sweep = true.
Proof. vm_cast_no_check (eq_refl true). Qed.

Lemma time_eqb_full_eq a b : time_eqb_full a b = true -> a = b.
Proof.
  destruct a, b; unfold time_eqb_full; simpl. intros H.
  repeat (apply andb_true_iff in H as [H ?]).
  apply Bool.eqb_prop in H0. f_equal; lia || assumption.
Qed.

Lemma rt_all h m s : 0 <= h <= 23 -> 0 <= m <= 59 -> -1 <= s <= 1 ->
  rt_check h m s true = true /\ rt_check h m s false = true.
Proof.
  intros Hh Hm Hs. pose proof rt_sweep_true as H. unfold rt_sweep in H.
  apply range_forallb_sound with (z := h) in H; [|lia].
  apply range_forallb_sound with (z := m) in H; [|lia].
  apply range_forallb_sound with (z := s) in H; [|lia].
  apply andb_true_iff in H. exact H.
Qed.

Lemma time_roundtrip t : valid_time t -> parse_time (print_time t) = Ok t.
Proof.
  intros (Hh & Hm & Hs).
  destruct (rt_all _ _ _ Hh Hm Hs) as [Ha Hb].
  destruct t as [h m s f]; cbn [t_hour t_min t_shift t_24h] in *.
  destruct f; [clear Hb; rename Ha into Hc | clear Ha; rename Hb into Hc];
  unfold rt_check in Hc;
  match type of Hc with (match ?x with _ => _ end) = true => destruct x as [t'| |] eqn:E; try discriminate end;
  apply time_eqb_full_eq in Hc; subst t'; reflexivity.
Qed.
