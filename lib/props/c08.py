"""C08 — reading a file loses nothing: blocks and lines reproduce the text exactly."""
import sys, os
sys.path.insert(0, os.path.dirname(os.path.dirname(os.path.abspath(__file__))))
from check import Suite
from props.parsing import *

def gen_blocks(tier, rng):
    n = 12000 if tier == "quick" else 300000
    out = [req_blocks(d.render()) for d in docs(rng, n)]
    out += [req_blocks(b) for b in byte_stream(tier, rng, n // 2, n // 4, 3 if tier == "quick" else 4) if len(b) < 20000]
    return out

def gen_noop(tier, rng):
    n = 1500 if tier == "quick" else 30000
    return ["noop-reconcile " + d.render().hex() for d in docs(rng, n) if d.records]

def oracle_noop(req, out):
    return None if out == "identical" else "a mutating operation that changes nothing did not write back the identical file: " + out[:100]

def suites():
    return [
        Suite("blocks", gen_blocks, oracle=blocks_oracle,
              rule="conforming documents (mixed LF/CRLF, blank runs, no final newline, invalid UTF-8 in summaries) + the C06 byte streams; non-trivial = at least one block",
              nontrivial=lambda r, o: not o.startswith("0") and not o.startswith("crash")),
        Suite("noop-reconcile", gen_noop, oracle=oracle_noop, model=False,
              rule="a reconciler applied with no operation to every record of a conforming document must serialise the identical text",
              nontrivial=lambda r, o: o == "identical"),
    ]
