(* Calendar: proleptic Gregorian arithmetic as klog/date.go obtains it from
   cloud.google.com/go/civil and the time package. Definitions only. *)
From Klog Require Import Base.Prelude.
Open Scope Z_scope.

Definition is_leap (y : Z) : bool :=
  ((y mod 4 =? 0) && negb (y mod 100 =? 0)) || (y mod 400 =? 0).

Definition days_in_month (y m : Z) : Z :=
  if (m =? 2) then (if is_leap y then 29 else 28)
  else if (m =? 4) || (m =? 6) || (m =? 9) || (m =? 11) then 30
  else 31.

Record cdate := { c_year : Z; c_month : Z; c_day : Z }.

(* civil.Date.IsValid plus klog's 0000..9999 restriction (civil2Date) *)
Definition valid_ymd (y m d : Z) : bool :=
  (0 <=? y) && (y <=? 9999) && (1 <=? m) && (m <=? 12) && (1 <=? d) && (d <=? days_in_month y m).
Definition valid_cdate (c : cdate) : bool := valid_ymd (c_year c) (c_month c) (c_day c).

(* days since 1970-01-01 (Hinnant's algorithm, total on Z) *)
Definition days_from_civil (y m d : Z) : Z :=
  let y' := if m <=? 2 then y - 1 else y in
  let era := y' / 400 in
  let yoe := y' - era * 400 in
  let mp := (m + 9) mod 12 in
  let doy := (153 * mp + 2) / 5 + d - 1 in
  let doe := yoe * 365 + yoe / 4 - yoe / 100 + doy in
  era * 146097 + doe - 719468.

Definition civil_from_days (z : Z) : cdate :=
  let z' := z + 719468 in
  let era := z' / 146097 in
  let doe := z' - era * 146097 in
  let yoe := (doe - doe / 1460 + doe / 36524 - doe / 146096) / 365 in
  let y := yoe + era * 400 in
  let doy := doe - (365 * yoe + yoe / 4 - yoe / 100) in
  let mp := (5 * doy + 2) / 153 in
  let d := doy - (153 * mp + 2) / 5 + 1 in
  let m := if mp <? 10 then mp + 3 else mp - 9 in
  {| c_year := if m <=? 2 then y + 1 else y; c_month := m; c_day := d |}.

Definition days_of (c : cdate) : Z := days_from_civil (c_year c) (c_month c) (c_day c).

(* the Gregorian rule itself: the independent reference for the theorems *)
Definition next_day (c : cdate) : cdate :=
  if c_day c <? days_in_month (c_year c) (c_month c)
  then {| c_year := c_year c; c_month := c_month c; c_day := c_day c + 1 |}
  else if c_month c <? 12
  then {| c_year := c_year c; c_month := c_month c + 1; c_day := 1 |}
  else {| c_year := c_year c + 1; c_month := 1; c_day := 1 |}.

Definition cdate_eqb (a b : cdate) : bool :=
  (c_year a =? c_year b) && (c_month a =? c_month b) && (c_day a =? c_day b).

(* date.IsAfterOrEqual, field by field as in the Go code *)
Definition cdate_geb (a b : cdate) : bool :=
  if negb (c_year a =? c_year b) then c_year a >=? c_year b
  else if negb (c_month a =? c_month b) then c_month a >=? c_month b
  else c_day a >=? c_day b.

(* Date.PlusDays: panics (civil2Date error) outside 0000..9999 *)
Definition plus_days (c : cdate) (n : Z) : outcome cdate :=
  let r := civil_from_days (days_of c + n) in
  if (0 <=? c_year r) && (c_year r <=? 9999) then Ok r else Crash CUnrepresentableDate.

(* Date.Weekday: Monday = 1 .. Sunday = 7; 1970-01-01 was a Thursday *)
Definition weekday (c : cdate) : Z := (days_of c + 3) mod 7 + 1.

(* Date.Quarter *)
Definition quarter (c : cdate) : Z := (c_month c + 2) / 3.

(* Date.WeekNumber = time.Time.ISOWeek: year and week of the Thursday of the date's week.
   Returns (year, week). *)
Definition iso_week (c : cdate) : Z * Z :=
  let thursday := days_of c + (4 - weekday c) in
  let tc := civil_from_days thursday in
  let y := c_year tc in
  let yday := thursday - days_from_civil y 1 1 in
  (y, yday / 7 + 1).
