(* C13 — filters and sorting select exactly the matching data and never alter it.
   Property theorems only; each is closed by [exact <lemma>] (Proofs/Query.v) and followed by Print Assumptions.

   Model: Model/Query.v — service.Filter, reduceRecordToMatchingTags / ...EntryTypes, service.Sort,
   FilterArgs.ApplyFilter, SortArgs.ApplySort (klog/service/query.go, klog/app/cli/util/args.go).
   Dates are [cdate]s, "valid" is a calendar date of 0000-01-01..9999-12-31 and [days_of] its day number
   (Properties/C15.v). Tags: [found] are the tags a summary carries (C14), [tag_matches t k]: the tag t is selected
   by the queried tag k (same name; k has no value or the very same value).

   1. C13_filter_spec, C13_select_kept, C13_select_dropped, C13_entry_matches, C13_filter_keeps_order
   2. C13_filter_conj, C13_filter_*_commute, C13_entry_matches_conj, C13_date_ok_conj
   3. C13_args_* (one theorem per flag), C13_args_fields (which flag wins), C13_args_defined
      refuted: C13_args_every_clause_refuted (several clauses for one bound are not intersected),
               C13_args_total_refuted (a relative shortcut can panic for a clock inside 0000-01-02..9999-12-30)
   4. C13_sort_spec, C13_sort_preserves, C13_sort_stable, C13_sort_spec_determines, C13_apply_sort, C13_run_query *)
From Klog Require Import Base.Prelude Base.Utf8 Model.Calendar Model.Values Model.Record Model.Lines Model.Parser
  Model.Tags Model.Period Model.Query Proofs.Calendar Proofs.Period Proofs.Tags Proofs.Query.
From Coq Require Import Permutation Sorted.
Open Scope Z_scope.

(* ================= 1. service.Filter selects exactly the matching data ================= *)

(* the result of service.Filter is, record by record and in the order of the input, what the declarative
   [select] makes of each record *)
Theorem C13_filter_spec : forall q rs, filter_records q rs = filter_map (select q) rs.
Proof. exact filter_spec. Qed.
Print Assumptions C13_filter_spec.

(* a record that is kept: its date satisfies every date clause; it has a matching entry or (no type clause) its own
   summary carries all queried tags; its entries are exactly the matching ones in their original order; date,
   summary and should-total are untouched *)
Theorem C13_select_kept : forall q r r', select q r = Some r' ->
  date_ok q (rdate r) /\ keeps q r /\
  rec_entries r' = filter (entry_matches q r) (rec_entries r) /\
  rec_date r' = rec_date r /\ rec_summary r' = rec_summary r /\ rec_should r' = rec_should r.
Proof. exact select_some. Qed.
Print Assumptions C13_select_kept.

(* a record is dropped exactly when its date fails a clause or nothing of it matches *)
Theorem C13_select_dropped : forall q r, select q r = None <-> ~ (date_ok q (rdate r) /\ keeps q r).
Proof. exact select_none. Qed.
Print Assumptions C13_select_dropped.

(* an entry matches iff the tags of the record's summary and of its own summary together carry every queried tag,
   and it is of the queried type ([type_is]: range / open range / duration / duration >= 0 / duration < 0) *)
Theorem C13_entry_matches : forall q r e,
  entry_matches q r e = true <->
  (forall k, In k (q_tags q) ->
     exists t, In t (found_tags go_is_letter go_to_lower (rec_summary r) ++ found_tags go_is_letter go_to_lower (e_summary e))
               /\ tag_matches t k = true) /\
  (forall t, q_entry_type q = Some t -> type_is t e).
Proof. exact entry_matches_spec. Qed.
Print Assumptions C13_entry_matches.

(* the two readings of tag sets the model uses are Go's: Summary.Tags() never panics and is [summary_tags] (C14); a
   set built by Put / Merge contains a queried tag iff one of the tags found carries it *)
Theorem C13_summary_tags_total : forall lines, go_summary_tags_o lines = Ok (summary_tags go_is_letter go_to_lower lines).
Proof. exact summary_tags_total. Qed.
Print Assumptions C13_summary_tags_total.

Theorem C13_subset_is_carries : forall qs r e,
  is_subset_of qs (summary_tags go_is_letter go_to_lower (rec_summary r))
    = carries_all (found_tags go_is_letter go_to_lower (rec_summary r)) qs /\
  is_subset_of qs (ts_merge go_to_lower [summary_tags go_is_letter go_to_lower (rec_summary r);
                                         summary_tags go_is_letter go_to_lower (e_summary e)])
    = carries_all (found_tags go_is_letter go_to_lower (rec_summary r) ++ found_tags go_is_letter go_to_lower (e_summary e)) qs.
Proof. exact (fun qs r e => conj (subset_record qs (rec_summary r)) (subset_entry qs r e)). Qed.
Print Assumptions C13_subset_is_carries.

(* the date clauses, on calendar dates, are comparisons of day numbers *)
Theorem C13_date_le_days : forall a b, valid a -> valid b -> (date_le a b <-> days_of a <= days_of b).
Proof. exact date_le_days. Qed.
Print Assumptions C13_date_le_days.

(* order is preserved: the output lists the kept records in input order *)
Theorem C13_filter_keeps_order : forall q rs,
  Forall2 (fun r r' => select q r = Some r')
          (filter (fun r => negb (is_none (select q r))) rs) (filter_records q rs).
Proof. exact filter_keeps_order. Qed.
Print Assumptions C13_filter_keeps_order.

(* ================= 2. combining clauses = intersecting the individual filters ================= *)

Theorem C13_filter_conj : forall q rs,
  filter_records q rs = filter_records (type_part q) (filter_records (tag_part q) (filter_records (date_part q) rs)).
Proof. exact filter_conj. Qed.
Print Assumptions C13_filter_conj.

Theorem C13_filter_date_tag_commute : forall qa qb rs,
  filter_records (date_part qa) (filter_records (tag_part qb) rs) = filter_records (tag_part qb) (filter_records (date_part qa) rs).
Proof. exact filter_date_tag_commute. Qed.
Print Assumptions C13_filter_date_tag_commute.

Theorem C13_filter_date_type_commute : forall qa qb rs,
  filter_records (date_part qa) (filter_records (type_part qb) rs) = filter_records (type_part qb) (filter_records (date_part qa) rs).
Proof. exact filter_date_type_commute. Qed.
Print Assumptions C13_filter_date_type_commute.

Theorem C13_filter_tag_type_commute : forall qa qb rs,
  filter_records (tag_part qa) (filter_records (type_part qb) rs) = filter_records (type_part qb) (filter_records (tag_part qa) rs).
Proof. exact filter_tag_type_commute. Qed.
Print Assumptions C13_filter_tag_type_commute.

Theorem C13_entry_matches_conj : forall q r e,
  entry_matches q r e = entry_matches (date_part q) r e && entry_matches (tag_part q) r e && entry_matches (type_part q) r e.
Proof. exact entry_matches_conj. Qed.
Print Assumptions C13_entry_matches_conj.

Theorem C13_date_ok_conj : forall q d, date_ok q d <-> date_ok (date_part q) d /\ date_ok (tag_part q) d /\ date_ok (type_part q) d.
Proof. exact date_ok_conj. Qed.
Print Assumptions C13_date_ok_conj.

(* ================= 3. the flags of FilterArgs ================= *)

(* [date_okb q d = at_ok q d && upper_ok q d && lower_ok q d] is the test service.Filter applies (C13_select_kept);
   the theorems say what each of the three is for every flag. [shortcut_flag a] is the first relative shortcut set. *)

Theorem C13_args_since : forall today a q D, apply_filter_args today a = Ok q ->
  shortcut_flag a = None -> a_after a = None -> a_period a = None -> a_since a = Some D -> valid D ->
  forall d, valid d -> (lower_ok q d = true <-> days_of D <= days_of d).
Proof. exact args_since. Qed.
Print Assumptions C13_args_since.

Theorem C13_args_until : forall today a q D, apply_filter_args today a = Ok q ->
  shortcut_flag a = None -> a_before a = None -> a_period a = None -> a_until a = Some D -> valid D ->
  forall d, valid d -> (upper_ok q d = true <-> days_of d <= days_of D).
Proof. exact args_until. Qed.
Print Assumptions C13_args_until.

Theorem C13_args_after : forall today a q D, apply_filter_args today a = Ok q ->
  shortcut_flag a = None -> a_after a = Some D -> valid D ->
  forall d, valid d -> (lower_ok q d = true <-> days_of D < days_of d).
Proof. exact args_after. Qed.
Print Assumptions C13_args_after.

Theorem C13_args_before : forall today a q D, apply_filter_args today a = Ok q ->
  shortcut_flag a = None -> a_before a = Some D -> valid D ->
  forall d, valid d -> (upper_ok q d = true <-> days_of d < days_of D).
Proof. exact args_before. Qed.
Print Assumptions C13_args_before.

(* --period P, P = [s, u] as delivered by the decoder (C15_pattern_spec: exactly the named year / month / quarter /
   ISO week) *)
Theorem C13_args_period : forall today a q s u, apply_filter_args today a = Ok q ->
  shortcut_flag a = None -> a_after a = None -> a_before a = None -> a_period a = Some (s, u) -> valid s -> valid u ->
  forall d, valid d -> (lower_ok q d && upper_ok q d = true <-> days_of s <= days_of d <= days_of u).
Proof. exact args_period. Qed.
Print Assumptions C13_args_period.

Theorem C13_args_no_bounds : forall today a q, apply_filter_args today a = Ok q ->
  shortcut_flag a = None -> a_period a = None ->
  (a_after a = None -> a_since a = None -> forall d, lower_ok q d = true) /\
  (a_before a = None -> a_until a = None -> forall d, upper_ok q d = true).
Proof. exact args_no_bounds. Qed.
Print Assumptions C13_args_no_bounds.

Theorem C13_args_date : forall today a q D, apply_filter_args today a = Ok q ->
  a_tomorrow a = false -> a_yesterday a = false -> a_today a = false -> a_date a = Some D ->
  forall d, at_ok q d = true <-> d = D.
Proof. exact args_date. Qed.
Print Assumptions C13_args_date.

Theorem C13_args_today : forall today a q, apply_filter_args today a = Ok q ->
  a_tomorrow a = false -> a_yesterday a = false -> a_today a = true ->
  forall d, at_ok q d = true <-> d = today.
Proof. exact args_today. Qed.
Print Assumptions C13_args_today.

Theorem C13_args_yesterday : forall today a q, apply_filter_args today a = Ok q -> valid today ->
  a_tomorrow a = false -> a_yesterday a = true ->
  forall d, valid d -> (at_ok q d = true <-> days_of d = days_of today - 1).
Proof. exact args_yesterday. Qed.
Print Assumptions C13_args_yesterday.

Theorem C13_args_tomorrow : forall today a q, apply_filter_args today a = Ok q -> valid today ->
  a_tomorrow a = true ->
  forall d, valid d -> (at_ok q d = true <-> days_of d = days_of today + 1).
Proof. exact args_tomorrow. Qed.
Print Assumptions C13_args_tomorrow.

Theorem C13_args_no_at : forall today a q, apply_filter_args today a = Ok q ->
  a_tomorrow a = false -> a_yesterday a = false -> a_today a = false -> a_date a = None -> forall d, at_ok q d = true.
Proof. exact args_no_at. Qed.
Print Assumptions C13_args_no_at.

(* --this-week|month|quarter|year: [s, u] is the period of kind k around the clock's date (first/last day as
   C15's [first_last_ok] defines them), and a date is selected iff its period is the clock's period *)
Theorem C13_args_this : forall today a q k, apply_filter_args today a = Ok q -> valid today ->
  shortcut_flag a = Some (k, false) ->
  exists s u, period_of k today = Ok (s, u) /\ valid s /\ valid u /\ first_last_ok k s u /\
    days_of s <= days_of today <= days_of u /\
    forall d, valid d ->
      (lower_ok q d && upper_ok q d = true <-> days_of s <= days_of d <= days_of u) /\
      (lower_ok q d && upper_ok q d = true <-> period_of k d = period_of k today).
Proof. exact args_this. Qed.
Print Assumptions C13_args_this.

(* --last-week|month|quarter|year: the period [s', u'] that ends on the day before the clock's period begins *)
Theorem C13_args_last : forall today a q k, apply_filter_args today a = Ok q -> valid today ->
  shortcut_flag a = Some (k, true) ->
  exists s' u', previous_period k today = Ok (s', u') /\ valid s' /\ valid u' /\ first_last_ok k s' u' /\
    period_of k u' = Ok (s', u') /\ days_of u' < days_of today /\
    (forall s u, period_of k today = Ok (s, u) -> next_day u' = s /\ days_of u' + 1 = days_of s) /\
    forall d, valid d ->
      (lower_ok q d && upper_ok q d = true <-> days_of s' <= days_of d <= days_of u') /\
      (lower_ok q d && upper_ok q d = true <-> period_of k d = Ok (s', u')).
Proof. exact args_last. Qed.
Print Assumptions C13_args_last.

Theorem C13_args_tags_type : forall today a q, apply_filter_args today a = Ok q ->
  q_tags q = a_tags a /\ q_entry_type q = a_entry_type a.
Proof. exact args_tags_type. Qed.
Print Assumptions C13_args_tags_type.

(* which flag wins when several are given for the same bound: a relative shortcut over --after/--before over
   --period over --since/--until; --tomorrow over --yesterday over --today over --date *)
Theorem C13_args_fields : forall today a q, apply_filter_args today a = Ok q ->
  q_tags q = a_tags a /\ q_entry_type q = a_entry_type a /\
  (exists sp, shortcut_outcome today (shortcut_flag a) = Ok sp /\
     match sp with
     | Some p => q_after_or_equal q = Some (fst p) /\ q_before_or_equal q = Some (snd p)
     | None =>
       match a_after a with
       | Some d => exists d', plus_days d 1 = Ok d' /\ q_after_or_equal q = Some d'
       | None => q_after_or_equal q = match a_period a with Some p => Some (fst p) | None => a_since a end
       end /\
       match a_before a with
       | Some d => exists d', plus_days d (-1) = Ok d' /\ q_before_or_equal q = Some d'
       | None => q_before_or_equal q = match a_period a with Some p => Some (snd p) | None => a_until a end
       end
     end) /\
  (if a_tomorrow a then exists d, plus_days today 1 = Ok d /\ q_at_date q = Some d
   else if a_yesterday a then exists d, plus_days today (-1) = Ok d /\ q_at_date q = Some d
   else if a_today a then q_at_date q = Some today
   else q_at_date q = a_date a).
Proof. exact apply_filter_args_fields. Qed.
Print Assumptions C13_args_fields.

(* the query is defined exactly when every neighbour date / period it needs lies inside the calendar; otherwise
   ApplyFilter panics *)
Theorem C13_args_defined : forall today a, valid today -> args_valid a ->
  ((exists q, apply_filter_args today a = Ok q) <-> args_representable today a).
Proof. exact apply_filter_args_defined. Qed.
Print Assumptions C13_args_defined.

(* REFUTED: "a selected record satisfies every clause given". Several clauses for the same bound are not
   intersected, the one assigned last in ApplyFilter wins: with --since 2020-01-10 --after 2020-01-01 a record of
   2020-01-05 is selected although it is not `since 2020-01-10` (known finding K13a). *)
Theorem C13_args_every_clause_refuted :
  exists today a q D d, apply_filter_args today a = Ok q /\ a_since a = Some D /\ valid D /\ valid d /\
    date_okb q d = true /\ days_of d < days_of D.
Proof.
  exists (mk 2020 6 1), (set_date (set_date no_args FSince (mk 2020 1 10)) FAfter (mk 2020 1 1)).
  eexists. exists (mk 2020 1 10), (mk 2020 1 5).
  split; [vm_compute; reflexivity|]. repeat split; reflexivity.
Qed.
Print Assumptions C13_args_every_clause_refuted.

(* REFUTED: "for a clock date in 0000-01-02..9999-12-30 every query is defined". `--this-week` on 9999-12-28
   panics: the week ends on 10000-01-03 (C15_period_edge_crash reached from the command line; known finding K13b). *)
Theorem C13_args_total_refuted :
  exists today a, valid today /\ today <> first_date /\ today <> last_date /\ args_valid a /\
    apply_filter_args today a = Crash CUnrepresentableDate.
Proof.
  exists (mk 9999 12 28), (set_bool no_args 3%nat).
  split; [reflexivity|]. split; [discriminate|]. split; [discriminate|].
  split; [split; intros d; discriminate|]. vm_compute. reflexivity.
Qed.
Print Assumptions C13_args_total_refuted.

(* ================= 4. sorting ================= *)

(* [sort_spec asc rs out]: out is a permutation of rs (same records, same multiplicities) ordered by date *)
Theorem C13_sort_spec : forall asc rs, sort_spec asc rs (sort_records asc rs).
Proof. exact sort_records_spec. Qed.
Print Assumptions C13_sort_spec.

Theorem C13_sort_preserves : forall asc rs,
  Permutation rs (sort_records asc rs) /\ length (sort_records asc rs) = length rs /\
  forall r, In r (sort_records asc rs) <-> In r rs.
Proof. exact sort_preserves. Qed.
Print Assumptions C13_sort_preserves.

(* the executable sort keeps records of one date in their original order *)
Theorem C13_sort_stable : forall asc rs d, filter (on_date d) (sort_records asc rs) = filter (on_date d) rs.
Proof. exact sort_records_stable. Qed.
Print Assumptions C13_sort_stable.

(* whatever function meets the specification (Go's unstable sort.Slice included): the sequence of dates and, per
   date, the multiset of records are determined — this is what the correspondence compares *)
Theorem C13_sort_spec_determines : forall asc rs o1 o2, sort_spec asc rs o1 -> sort_spec asc rs o2 ->
  map rdate o1 = map rdate o2 /\ forall d, Permutation (filter (on_date d) o1) (filter (on_date d) o2).
Proof. exact sort_spec_determines. Qed.
Print Assumptions C13_sort_spec_determines.

Theorem C13_apply_sort : forall s rs,
  (s = [] -> apply_sort s rs = rs) /\
  (s <> [] -> sort_spec (bytes_eqb (map ascii_lower s) b!"asc") rs (apply_sort s rs)).
Proof. exact apply_sort_spec. Qed.
Print Assumptions C13_apply_sort.

(* the whole pipeline of `klog print|json <filter flags> [--sort s]` *)
Theorem C13_run_query : forall today a s rs out, run_query today a s rs = Ok out ->
  exists q, apply_filter_args today a = Ok q /\
    (s = [] -> out = filter_map (select q) rs) /\
    (s <> [] -> sort_spec (bytes_eqb (map ascii_lower s) b!"asc") (filter_map (select q) rs) out).
Proof. exact run_query_spec. Qed.
Print Assumptions C13_run_query.

(* ================= non-vacuity ================= *)

(* a parsed file, a tag with value in an entry summary, a bare tag in a record summary, all entry types *)
Definition ex_text : bytes :=
  b!"2020-12-31" ++ [10%N] ++ b!"Work #proj=x" ++ [10%N] ++ b!"    1h #a" ++ [10%N] ++ b!"    8:00 - 9:00" ++ [10%N] ++ b!"    -30m #a=1" ++ [10%N]
  ++ [10%N] ++ b!"2021-01-03" ++ [10%N] ++ b!"    9:00 - ? #A" ++ [10%N] ++ b!"    2h" ++ [10%N]
  ++ [10%N] ++ b!"2020-12-27" ++ [10%N] ++ b!"    45m #proj" ++ [10%N].

Definition ex_records : list record :=
  match parse_text ex_text with Ok (Parsed rs _) => rs | _ => [] end.

Definition ex_tag (s : string) : tag :=
  match go_new_tag_from_string (bytes_of_string s) with Ok (Some t) => t | _ => {| t_name := []; t_value := [] |} end.

Definition ex_q (tags : list tag) (ty : option entry_type) : filter_qry :=
  {| q_tags := tags; q_before_or_equal := None; q_after_or_equal := None; q_at_date := None; q_entry_type := ty |}.

(* #a selects one entry of the first record (1h #a, -30m #a=1) and the open range of the second (#A); #proj keeps
   the first record whole (its own summary carries it) and the third; #a + duration-negative leaves one entry *)
Example C13_ex_filter :
  length ex_records = 3%nat /\
  map (fun r => length (rec_entries r)) (filter_records (ex_q [ex_tag "a"] None) ex_records) = [2%nat; 1%nat] /\
  map (fun r => length (rec_entries r)) (filter_records (ex_q [ex_tag "#proj"] None) ex_records) = [3%nat; 1%nat] /\
  map (fun r => length (rec_entries r)) (filter_records (ex_q [ex_tag "a=1"] None) ex_records) = [1%nat] /\
  map (fun r => length (rec_entries r)) (filter_records (ex_q [ex_tag "a"] (Some ETNegativeDuration)) ex_records) = [1%nat] /\
  map (fun r => length (rec_entries r)) (filter_records (ex_q [] (Some ETOpenRange)) ex_records) = [1%nat] /\
  filter_records (ex_q [ex_tag "a"; ex_tag "proj=y"] None) ex_records = [].
Proof. vm_compute. repeat split. Qed.

(* the clock on 2021-01-03 (a Sunday, ISO week 2020-W53): --this-week is 2020-12-28..2021-01-03, --last-week
   2020-12-21..27, --last-month December 2020, --last-quarter 2020-Q4, --last-year 2020; --after/--before shift by one day *)
Example C13_ex_args :
  let today := mk 2021 1 3 in
  let bounds a := match apply_filter_args today a with
                  | Ok q => Some (q_after_or_equal q, q_before_or_equal q, q_at_date q) | _ => None end in
  valid today /\
  bounds (set_bool no_args 3%nat) = Some (Some (mk 2020 12 28), Some (mk 2021 1 3), None) /\
  bounds (set_bool no_args 6%nat) = Some (Some (mk 2020 12 21), Some (mk 2020 12 27), None) /\
  bounds (set_bool no_args 9%nat) = Some (Some (mk 2020 12 1), Some (mk 2020 12 31), None) /\
  bounds (set_bool no_args 13%nat) = Some (Some (mk 2020 10 1), Some (mk 2020 12 31), None) /\
  bounds (set_bool no_args 17%nat) = Some (Some (mk 2020 1 1), Some (mk 2020 12 31), None) /\
  bounds (set_bool no_args 1%nat) = Some (None, None, Some (mk 2021 1 2)) /\
  bounds (set_date (set_date no_args FAfter (mk 2020 12 31)) FBefore (mk 2021 3 1)) = Some (Some (mk 2021 1 1), Some (mk 2021 2 28), None) /\
  args_representable today (set_bool no_args 6%nat) /\ args_valid (set_bool no_args 6%nat).
Proof.
  cbv zeta. split; [reflexivity|]. repeat (split; [vm_compute; reflexivity|]).
  split.
  - unfold args_representable. cbn. repeat split; try discriminate. lia.
  - split; intros d; discriminate.
Qed.

(* sorting the parsed example: ascending by date, nothing lost *)
Example C13_ex_sort :
  map rdate (sort_records true ex_records) = [mk 2020 12 27; mk 2020 12 31; mk 2021 1 3] /\
  map rdate (sort_records false ex_records) = [mk 2021 1 3; mk 2020 12 31; mk 2020 12 27] /\
  map rdate (apply_sort b!"ASC" ex_records) = [mk 2020 12 27; mk 2020 12 31; mk 2021 1 3] /\
  apply_sort [] ex_records = ex_records.
Proof. vm_compute. repeat split. Qed.
