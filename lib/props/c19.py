"""C19 — the bookmark database behaves as a persistent name-to-file map.

Suites (request formats: coq/Model/SuiteBookmarks.v):
  json-strings   json-str     Go string -> encoder literal -> decoded again           (model vs Go, oracle: Python json)
  json-parse     json-parse   JSON text -> token stream                                (model vs Go, oracle: Python json)
  json-print     json-print   JSON text -> Encoder output compact + indented          (model vs Go, oracle: Python json)
  paths          bm-path      filepath.Clean/IsAbs/Dir/Base, hypotheses about Abs     (model vs Go, oracle: flags + posixpath)
  db-codec       bm-tojson / bm-fromjson  ToJson / NewBookmarksCollectionFromJson     (model vs Go, oracle: Python json)
  histories      bm-history   1..40 klog command lines on a scratch config folder     (model vs Go, oracle: plain dict)
  histories-raw  bm-history-raw  the same, the raw database file after every step     (oracle only: Python json reads the file)
"""
import sys, os, json, posixpath
sys.path.insert(0, os.path.dirname(os.path.dirname(os.path.abspath(__file__))))
from common import hx, unhx
from check import Suite


def is_utf8(b):
    try:
        b.decode("utf-8")
        return True
    except UnicodeDecodeError:
        return False


# ----------------------------------------------------------------------------- strings

INTERESTING_RUNES = [0, 1, 7, 8, 9, 10, 12, 13, 0x1f, 0x20, 0x22, 0x26, 0x27, 0x2f, 0x3c, 0x3e, 0x40, 0x5c, 0x7f, 0x80, 0xa0, 0xe9, 0x7ff, 0x800,
                     0x2027, 0x2028, 0x2029, 0x202a, 0xd7ff, 0xe000, 0xfffd, 0xfffe, 0xffff, 0x10000, 0x1f600, 0x10ffff]
BAD_SEQS = [b"\x80", b"\xbf", b"\xc0\x80", b"\xc1\xbf", b"\xc2", b"\xe0\x80\x80", b"\xe0\x9f\xbf", b"\xe2\x80", b"\xe2", b"\xed\xa0\x80", b"\xed\xbf\xbf",
            b"\xf0\x80\x80\x80", b"\xf0\x8f\xbf\xbf", b"\xf0\x9f\x98", b"\xf4\x90\x80\x80", b"\xf5\x80\x80\x80", b"\xff", b"\xfe", b"\xf8\x88\x80\x80\x80",
            b"\xe2\x80\x28", b"\xe2\x28\xa8", b"\xc3\x28"]


def rand_rune(rng):
    k = rng.random()
    if k < 0.35: return rng.randrange(0x20, 0x7f)
    if k < 0.50: return rng.choice(INTERESTING_RUNES)
    if k < 0.60: return rng.randrange(0, 0x20)
    if k < 0.75: return rng.randrange(0x80, 0x800)
    if k < 0.90:
        r = rng.randrange(0x800, 0x10000)
        return r if not 0xd800 <= r < 0xe000 else 0x2028
    return rng.randrange(0x10000, 0x110000)


def rand_text(rng, maxlen=12, bad=0.0):
    out = b""
    for _ in range(rng.randrange(maxlen + 1)):
        if rng.random() < bad:
            out += rng.choice(BAD_SEQS)
        else:
            out += chr(rand_rune(rng)).encode("utf-8")
    return out


def gen_json_str(tier, rng):
    out = ["json-str " + hx(bytes([b])) for b in range(256)]
    out += ["json-str " + hx(chr(r).encode("utf-8")) for r in INTERESTING_RUNES]
    out += ["json-str " + hx(s) for s in BAD_SEQS]
    out += ["json-str " + hx(b"a" + s + b"z") for s in BAD_SEQS]
    out.append("json-str -")
    n = 4500 if tier == "quick" else 400000
    for _ in range(n):
        out.append("json-str " + hx(rand_text(rng, 12, bad=rng.choice([0, 0, 0, 0.15]))))
    return out


def oracle_json_str(req, out):
    s = unhx(req.split(" ")[1])
    f = out.split(" ")
    if f[0] in ("crash", "err"): return "encoder failed on %r" % s
    lit = unhx(f[0])
    try:
        py = json.loads(lit.decode("utf-8"))
    except Exception as e:
        return "the literal %r written for %r is not JSON for Python: %s" % (lit, s, e)
    if not isinstance(py, str): return "literal is not a string"
    if is_utf8(s):
        if py.encode("utf-8", "surrogatepass") != s: return "literal %r does not denote %r" % (lit, s)
        if f[1:] != ["ok", hx(s)]: return "string %r does not survive encode/decode: %s" % (s, out)
    elif f[1] != "ok":
        return "literal not decodable"
    if any(c < 0x20 for c in lit): return "raw control character in literal"
    return None


# ----------------------------------------------------------------------------- JSON texts

def go_escape(s, rng, fancy):
    """a JSON literal for the str s; fancy: random choice among the equivalent spellings"""
    out = ['"']
    for ch in s:
        c = ord(ch)
        k = rng.random() if fancy else 1.0
        if ch in '"\\':
            out.append("\\" + ch if k > 0.2 else "\\u%04x" % c)
        elif c < 0x20:
            short = {8: "\\b", 9: "\\t", 10: "\\n", 12: "\\f", 13: "\\r"}
            out.append(short[c] if c in short and k > 0.3 else "\\u%04x" % c)
        elif ch == "/" and k < 0.3:
            out.append("\\/")
        elif c in (0x2028, 0x2029):
            out.append("\\u%04x" % c if k > 0.2 else ch)
        elif k < 0.12:
            if c >= 0x10000:
                v = c - 0x10000
                fmt = rng.choice(["\\u%04x\\u%04x", "\\u%04X\\u%04X"])
                out.append(fmt % (0xd800 + (v >> 10), 0xdc00 + (v & 0x3ff)))
            else:
                out.append(rng.choice(["\\u%04x", "\\u%04X"]) % c)
        else:
            out.append(ch)
    out.append('"')
    return "".join(out)


def rand_value(rng, depth):
    k = rng.random()
    if depth <= 0 or k < 0.45:
        j = rng.randrange(7)
        if j == 0: return None
        if j == 1: return rng.random() < 0.5
        if j == 2: return rng.choice([0, 1, -1, 7, 10, -10, 59, 60, 1440, 2**31, -2**63, 2**63 - 1, 10**25, rng.randrange(-10**6, 10**6)])
        return rand_text(rng, 8).decode("utf-8")
    if k < 0.72:
        return [rand_value(rng, depth - 1) for _ in range(rng.randrange(4))]
    return [(rand_text(rng, 5).decode("utf-8"), rand_value(rng, depth - 1)) for _ in range(rng.randrange(4))] + [("__obj__", 1)]


def render(v, rng, fancy, ws):
    """JSON text for a value of rand_value (objects are pair lists ending in the __obj__ marker)"""
    w = (lambda: rng.choice(["", "", " ", "\n", "\t", "\r\n  "])) if ws else (lambda: "")
    if v is None: return "null"
    if v is True: return "true"
    if v is False: return "false"
    if isinstance(v, int): return str(v)
    if isinstance(v, str): return go_escape(v, rng, fancy)
    if v and isinstance(v[-1], tuple) and v[-1][0] == "__obj__":
        return "{" + w() + ("," + w()).join(go_escape(k, rng, fancy) + w() + ":" + w() + render(x, rng, fancy, ws) + w() for k, x in v[:-1]) + "}"
    return "[" + w() + ("," + w()).join(render(x, rng, fancy, ws) + w() for x in v) + "]"


EDGE_TEXTS = ["", " ", "null", " null ", "nul", "nulll", "true", "tru", "truex", "false", "fals", "0", "-0", "00", "01", "-", "-1", "1.", "1.5", ".5", "1e5", "1E+5", "1e-5", "1e", "1e+", "1.5e3x",
              "0x10", "+1", "1 2", "[]", "[ ]", "{}", "{ }", "[,]", "[1,]", "[,1]", "[1 2]", "[1,2", "{\"a\"}", "{\"a\":}", "{\"a\":1,}", "{a:1}", "{\"a\":1 \"b\":2}", "{\"a\":1,\"a\":2}",
              "{\"\":{}}", "[[[[[[[[[[]]]]]]]]]]", "[[]", "[]]", "\"", "\"\"", "\"a", "\"\\\"", "\"\\x\"", "\"\\'\"", "\"\\u12\"", "\"\\u123g\"", "\"\\u0041\"", "\"\\U0041\"", "\"\\ud800\"", "\"\\udc00\"",
              "\"\\ud800\\udc00\"", "\"\\udbff\\udfff\"", "\"\\ud800\\ud800\"", "\"\\ud800\\u0041\"", "\"\\ud800x\"", "\"\\ud800\\n\"", "\"\\ud83d\\ude00\"", "\"\\uD83D\\uDE00\"", "\"\\ud800\\u12\"",
              "\"\\ud800\\", "\"a\nb\"", "\"a\tb\"", "\"\x7f\"", "\"\x1f\"", "'a'", "\"a\" \"b\"", "\ufeff1", "NaN", "Infinity", "-Infinity", "[1]x", "[1]\n", "\n[1]", "\x0b1", "\x0c1", "1\x00",
              "tRue", "True", "nullnull", "[true,false,null]", "[truefalse]", "[1.0,2e0,-0.0]", "[-]", "[-a]", "{\"a\":[{\"b\":null}]}", "\"\\/\"", "\"/\"", "\"\\b\\f\\n\\r\\t\"", "\"<>&\"", "\"\\u2028\""]


def gen_json_parse(tier, rng):
    out = ["json-parse " + hx(t.encode("utf-8")) for t in EDGE_TEXTS]
    out += ["json-parse " + hx(b'"' + s + b'"') for s in BAD_SEQS]
    out += ["json-parse " + hx(b'["a' + s + b'",1]') for s in BAD_SEQS]
    n = 2500 if tier == "quick" else 200000
    for _ in range(n):
        t = render(rand_value(rng, 3), rng, True, True).encode("utf-8")
        t = rng.choice(["", "", " ", "\n"]).encode() + t + rng.choice(["", "", "\n", " \t"]).encode()
        k = rng.random()
        if k < 0.35 and t:
            # one-byte mutation
            i = rng.randrange(len(t) + 1)
            c = rng.choice(b'{}[]",:\\ue0-1 tfn\n\xc3\xff\x01')
            j = rng.randrange(3)
            t = t[:i] + bytes([c]) + t[i:] if j == 0 else (t[:i] + t[i + 1:] if j == 1 else t[:i] + bytes([c]) + t[i + 1:])
        out.append("json-parse " + hx(t))
    return out


def py_tokens(text):
    """token stream of a JSON text as Python's json module reads it, or None"""
    class Num(str): pass
    def bad(x): raise ValueError(x)
    try:
        v = json.loads(text, object_pairs_hook=lambda ps: ("obj", ps), parse_int=Num, parse_float=Num, parse_constant=bad)
    except Exception:
        return None
    out = []
    def go(v):
        if v is None: out.append("null")
        elif v is True: out.append("true")
        elif v is False: out.append("false")
        elif isinstance(v, Num): out.append("n" + v)
        elif isinstance(v, str): out.append("s" + hx(v.encode("utf-8", "surrogatepass")))
        elif isinstance(v, tuple):
            out.append("{")
            for k, x in v[1]:
                out.append("s" + hx(k.encode("utf-8", "surrogatepass"))); go(x)
            out.append("}")
        else:
            out.append("[")
            for x in v: go(x)
            out.append("]")
    go(v)
    return out


def has_surrogate_escape(b):
    import re
    return re.search(rb"\\u[dD][89a-fA-F]", b) is not None


def oracle_json_parse(req, out):
    t = unhx(req.split(" ")[1])
    if out == "crash": return "crash on a JSON text"
    if not is_utf8(t) or has_surrogate_escape(t):
        return None  # Python's reading of invalid UTF-8 / lone surrogates differs from Go's by design
    want = py_tokens(t.decode("utf-8"))
    if want is None:
        return None if out == "err" else "text %r is not JSON for Python but was accepted" % t
    if out == "err": return "JSON text %r rejected" % t
    if out.split(" ")[1:] != want: return "text %r read as %s, Python reads %s" % (t, out, want)
    return None


def gen_json_print(tier, rng):
    out = ["json-print " + hx(t.encode("utf-8")) for t in EDGE_TEXTS]
    n = 1500 if tier == "quick" else 100000
    for _ in range(n):
        out.append("json-print " + hx(render(rand_value(rng, 3), rng, rng.random() < 0.5, rng.random() < 0.3).encode("utf-8")))
    return out


def oracle_json_print(req, out):
    t = unhx(req.split(" ")[1])
    if out == "crash": return "crash"
    if not is_utf8(t) or has_surrogate_escape(t): return None
    want = py_tokens(t.decode("utf-8"))
    if want is None: return None if out == "err" else "accepted a text Python rejects"
    f = out.split(" ")
    if f[0] != "ok": return "rejected %r" % t
    for h in f[1:3]:
        o = unhx(h)
        if not o.endswith(b"\n"): return "encoder output does not end in a newline"
        if not is_utf8(o): return "encoder output is not UTF-8"
        got = py_tokens(o.decode("utf-8"))
        if got != want: return "output %r of the encoder does not denote the value of %r" % (o, t)
    return None


# ----------------------------------------------------------------------------- paths

PATH_PARTS = ["a", "b c", ".", "..", "", "...", ".x", "x.", "ü", "日本", 'q"', "\\", "@", "-", " ", "a.klg", "😀"]


def rand_path(rng, bad=False):
    n = rng.randrange(6)
    p = "/".join(rng.choice(PATH_PARTS) for _ in range(n))
    if rng.random() < 0.4: p = "/" + p
    if rng.random() < 0.2: p += "/"
    b = p.encode("utf-8")
    if bad and rng.random() < 0.3: b += rng.choice(BAD_SEQS)
    return b


def gen_paths(tier, rng):
    fixed = ["", ".", "..", "/", "//", "///", "/.", "/..", "/../a", "a/..", "a/../..", "../..", "../a/..", "a//b", "a/./b", "a/b/", "a/b/.", "a/b/..", "/a/b/../../..",
             "./a", "/S/w/x.klg", "/S/w/../w/x.klg", "x.klg", "sub/../x.klg", "a/b/../../../c", "/a/", "//a//", "...", "..a", "a..", "/..a/..", "a/.../b"]
    out = ["bm-path " + hx(p) for p in fixed]
    n = 2000 if tier == "quick" else 200000
    for _ in range(n):
        out.append("bm-path " + hx(rand_path(rng, True)))
    return out


def oracle_path(req, out):
    p = unhx(req.split(" ")[1])
    f = out.split(" ")
    if f[0] == "crash": return "crash"
    if f[5:8] != ["1", "1", "1"]:
        return "filepath.Abs violates a hypothesis of the C19 theorems (absolute / idempotent / keeps valid UTF-8) on %r: %s" % (p, out)
    s = p.decode("latin-1")
    want = posixpath.normpath(s) if s else "."
    if want.startswith("//"): want = want[1:]  # POSIX keeps exactly two leading slashes, Go does not
    if unhx(f[0]).decode("latin-1") != want: return "Clean(%r) = %r, posixpath.normpath says %r" % (p, unhx(f[0]), want)
    return None


# ----------------------------------------------------------------------------- database codec

NAMES = ["work", "default", "", "@", "x y", 'q"uote', "back\\slash", "tab\there", "new\nline", "ünï", "日本", "😀", "a@b", "-x", "--", "\x01", "\x7f", " ", "  lead",
         "Default", "DEFAULT", "defaul", "defaultx", "<&>", "\u2028", "a", "b", "B", "ab", "a b", "é", "e\u0301", "\ufffd", "null", "name", "0",
         "proj", "proj ", "proj\t", "proj\u00a0", " proj", "\tproj", "work ", "a\u3000"]
TARGETS = ["a.klg", "my file.klg", 'q"uote.klg', "ü.klg", "日本.klg", "back\\slash.klg", "sub/b.klg", "emoji😀.klg", " lead.klg", "-dash.klg", "@at.klg",
           "tab\t.klg", "new\nline.klg", "percent%41.klg", "dot.", "..hidden", "...", "<&>.klg", "\u2028.klg", "sub dir/ü/c.klg", "\x7f.klg", "\x01.klg"]


def rand_name(rng, bad=False):
    k = rng.random()
    if k < 0.75: n = rng.choice(NAMES).encode("utf-8")
    else: n = rand_text(rng, 6, bad=0.3 if bad else 0.0)
    return n


def with_ats(rng, n):
    return b"@" * rng.choice([0, 0, 1, 1, 1, 2, 3]) + n


def gen_db(tier, rng):
    out = ["bm-tojson", "bm-fromjson -"]
    n = 1200 if tier == "quick" else 60000
    for _ in range(n):
        pairs = []
        for _ in range(rng.randrange(6)):
            pairs += [hx(with_ats(rng, rand_name(rng, True))), hx(b"/" + rand_path(rng, True).lstrip(b"/"))]
        out.append(("bm-tojson " + " ".join(pairs)).strip())
    edge = ["null", "[]", "[null]", "{}", "1", "\"a\"", "[{}]", "[{\"name\":\"a\"}]", "[{\"path\":\"/a\"}]", "[{\"name\":\"a\",\"path\":\"/a\"}]", "[{\"name\":\"a\",\"path\":\"a\"}]",
            "[{\"NAME\":\"a\",\"Path\":\"/a\"}]", "[{\"name\":\"a\",\"path\":\"/a\",\"extra\":[1,{\"x\":null}]}]", "[{\"name\":1,\"path\":\"/a\"}]", "[{\"name\":null,\"path\":\"/a\"}]",
            "[{\"name\":\"a\",\"path\":\"/a\",\"name\":\"b\"}]", "[{\"name\":\"a\",\"path\":\"/a\"},{\"name\":\"a\",\"path\":\"/b\"}]", "[{\"name\":\"@a\",\"path\":\"/a/../b//c/\"}]",
            "[{\"name\":\"\",\"path\":\"/a\"}]", "[{\"name\":\"@@\",\"path\":\"/\"}]", "[{\"name\":\"b\",\"path\":\"/b\"},{\"name\":\"a\",\"path\":\"/a\"}]", " [ ] ", "[{\"name\":\"a\",\"path\":\"/a\"}] x",
            "[[\"a\",\"/a\"]]", "[\"a\"]", "[{\"name\":\"a\",\"path\":\"/a\"},null]", "[{\"name\":\"a\",\"path\":\"/a\"},1]", "[{\"n\\u0061me\":\"a\",\"path\":\"/a\"}]", "[{\"name\":\"a\",\"path\":[]}]",
            "[{\"name\":\"a\",\"path\":\"/a\"},]", "\n", "[{\"name\":\"a\",\"path\":\"/a\",\"path\":null}]", "[{\"ｎame\":\"a\",\"path\":\"/a\"}]", "[{\"name\":\"\\ud800\",\"path\":\"/\\udc00\"}]"]
    out += ["bm-fromjson " + hx(t.encode("utf-8")) for t in edge]
    for _ in range(n):
        ents = []
        for _ in range(rng.randrange(5)):
            nm = with_ats(rng, rand_name(rng)).decode("utf-8")
            pa = ("/" if rng.random() < 0.9 else "") + rand_path(rng).decode("utf-8").lstrip("/")
            fields = [("name", nm), ("path", pa)]
            if rng.random() < 0.15: fields.append((rng.choice(["x", "Name", "PATH", "nam", "name "]), rng.choice([1, None, "s", []])))
            if rng.random() < 0.1: fields[rng.randrange(2)] = (fields[0][0], rng.choice([None, 3, True]))
            rng.shuffle(fields)
            ents.append(fields + [("__obj__", 1)])
        t = render(ents, rng, rng.random() < 0.4, rng.random() < 0.5).encode("utf-8")
        if rng.random() < 0.15 and t:
            i = rng.randrange(len(t)); t = t[:i] + bytes([rng.choice(b'{}[]",: x')]) + t[i + 1:]
        out.append("bm-fromjson " + hx(t))
    return out


def norm_name(n):
    n = n.lstrip(b"@")
    return n if n else b"default"


def show_map(d):
    return ",".join(hx(k) + "=" + hx(d[k]) for k in sorted(d)) if d else "-"


def oracle_db(req, out):
    f = req.split(" ")
    if out == "crash": return "crash"
    if f[0] == "bm-tojson":
        d = {}
        for i in range(1, len(f) - 1, 2):
            d[norm_name(unhx(f[i]))] = unhx(f[i + 1])
        if not all(is_utf8(k) and is_utf8(v) for k, v in d.items()): return None
        text = unhx(out)
        if not d: return None if text == b"" else "empty collection is not written as the empty file"
        try:
            v = json.loads(text.decode("utf-8"))
        except Exception as e:
            return "ToJson wrote something Python cannot read: %s" % e
        got = [(e["name"].encode("utf-8"), e["path"].encode("utf-8")) for e in v]
        if got != [(k, d[k]) for k in sorted(d)]: return "file %r does not denote the map %r in name order" % (text, d)
        return None
    return None


# ----------------------------------------------------------------------------- histories

BASES = ["work.klg", "my file.klg", 'q"uote.klg', "ü.klg", "日本.klg", "a.klg", "-dash.klg", "@at.klg", "new\nline.klg", "dot.", "<&>.klg", "times"]
DIRS = ["", "2023", "2024", "sub", "sub dir", "ü", "a/b", "a/c", 'q"d', "2023/q1"]


def gen_targets(rng):
    """target files: most histories use a few base names x a few directories (the same base name in several
    directories, several names in one directory); the others take unrelated names from TARGETS"""
    if rng.random() < 0.7:
        bases = rng.sample(BASES, rng.choice([1, 1, 2, 2, 3]))
        dirs = rng.sample(DIRS, rng.choice([2, 2, 3, 3]))
        cells = [(d + "/" + b if d else b) for d in dirs for b in bases]
        rng.shuffle(cells)
        tnames = cells[:rng.randrange(2, 7)]
    else:
        tnames = rng.sample(TARGETS, rng.randrange(1, 6))
    return [(t.encode("utf-8"), rng.choice("vvvvvvvvim")) for t in tnames]


def gen_history(rng, bad, short=0.0):
    targets = gen_targets(rng)
    nt = len(targets)
    pool = [rand_name(rng, bad) for _ in range(rng.randrange(2, 7))]
    def name(): return with_ats(rng, rng.choice(pool) if rng.random() < 0.9 else rand_name(rng, bad))
    def spell(p):
        j = rng.random()
        if j < 0.12: p = b"./" + p
        elif j < 0.22: p = b"zz/../" + p
        elif j < 0.28: p = b".//" + p
        elif j < 0.32: p = p + b"/"
        elif j < 0.36: p = p + b"/."
        return p
    def path():
        k = rng.random()
        if k < 0.85: return spell(rng.choice(targets)[0])
        if k < 0.93: return rng.choice([b"missing.klg", b"no/such.klg", b"", b".", b"sub", b"2023"])
        return rand_text(rng, 6, bad=0.3 if bad else 0).replace(b"\x00", b"0")
    def related(prev):
        """a target related to the previous one: the same file, the same base name in another directory,
        another file in the same directory"""
        d, _, base = prev.rpartition(b"/")
        j = rng.random()
        if j < 0.25: cands = [prev]
        elif j < 0.75: cands = [t for t, _ in targets if t != prev and t.rpartition(b"/")[2] == base]
        else: cands = [t for t, _ in targets if t != prev and t.rpartition(b"/")[0] == d]
        return rng.choice(cands) if cands else rng.choice(targets)[0]
    ops = []
    last = None  # (bare name, target) of the previous set
    nops = rng.randrange(1, 13) if rng.random() < short else rng.randrange(1, 41)
    for _ in range(nops):
        k = rng.random()
        if k < 0.40:
            force = "f" if rng.random() < 0.2 else "n"
            if last is not None and rng.random() < 0.4:
                # set the same bookmark again
                bare, prev = last
                t = related(prev)
                nm = with_ats(rng, bare)
                hasname = not (bare == b"" and rng.random() < 0.5)
                last = (bare, t)
                ops.append("s:%s:%s:%s:%d:%s" % (hx(spell(t)), rng.choice("rrra"), force, hasname, hx(nm) if hasname else "-"))
            else:
                hasname = rng.random() < 0.85
                bare = (rng.choice(pool) if rng.random() < 0.9 else rand_name(rng, bad)) if hasname else b""
                t = rng.choice(targets)[0] if rng.random() < 0.85 else None
                p = spell(t) if t is not None else path()
                if t is not None: last = (bare, t)
                ops.append("s:%s:%s:%s:%d:%s" % (hx(p), rng.choice("rrra"), force, hasname, hx(with_ats(rng, bare)) if hasname else "-"))
        elif k < 0.55: ops.append("u:" + hx(name()))
        elif k < 0.59: ops.append("c")
        elif k < 0.71: ops.append("l")
        elif k < 0.83:
            nm = with_ats(rng, last[0]) if last is not None and rng.random() < 0.4 else name()
            ops.append("i:%s:%s" % (rng.choice("pppdf"), hx(nm)))
        else:
            args = []
            for _ in range(rng.choice([0, 1, 1, 1, 2])):
                j = rng.random()
                if j < 0.7:
                    nm = last[0] if last is not None and rng.random() < 0.4 else name()
                    args.append("n" + hx(b"@" + nm))
                elif j < 0.8: args.append("n" + hx(rng.choice([b"", b" ", b"   "])))
                else: args.append(rng.choice("na") + hx(path()))
            ops.append(":".join(["r"] + args))
    return "%d %s %s" % (nt, " ".join(hx(t) + ":" + s for t, s in targets), " ".join(ops))


def gen_histories(tier, rng):
    n = 300 if tier == "quick" else 50000
    # quick: three quarters of the histories have at most 12 commands; thorough: three in ten
    frac = 0.75 if tier == "quick" else 0.3
    return ["bm-history " + gen_history(rng, bad=(i % 10 == 9), short=frac) for i in range(n)]


def gen_histories_raw(tier, rng):
    n = 40 if tier == "quick" else 3000
    return ["bm-history-raw " + gen_history(rng, bad=False, short=(0.75 if tier == "quick" else 0.3)) for i in range(n)]


CWD = "/S/w"


def py_abs(arg):
    """absolute clean path of a command-line path argument (latin-1 str so that bytes survive)"""
    s = arg.decode("latin-1")
    r = posixpath.normpath(posixpath.join(CWD, s))
    if r.startswith("//"): r = r[1:]
    return r.encode("latin-1")


def go_base(s):
    """filepath.Base as documented: last element; trailing slashes removed first; "" -> ".", only slashes -> "/" """
    if s == "": return "."
    s = s.rstrip("/")
    if s == "": return "/"
    return s.rsplit("/", 1)[-1]


def go_dir(s):
    """filepath.Dir as documented: all but the last element, cleaned ("/" for a file directly below the root)"""
    head = s[:s.rfind("/") + 1]
    r = posixpath.normpath(head) if head else "."
    return r[1:] if r.startswith("//") else r


def parse_history(req):
    f = req.split(" ")
    nt = int(f[1])
    targets = {}
    for i, t in enumerate(f[2:2 + nt]):
        p, st = t.split(":")
        targets.setdefault(py_abs(unhx(p)), (st, 3 ** i))
    return targets, f[2 + nt:]


def history_strings(req):
    targets, ops = parse_history(req)
    out = []
    for t in req.split(" ")[2:2 + int(req.split(" ")[1])]:
        out.append(unhx(t.split(":")[0]))
    for o in ops:
        g = o.split(":")
        if g[0] == "s": out += [unhx(g[1]), unhx(g[5])]
        elif g[0] == "u": out.append(unhx(g[1]))
        elif g[0] == "i": out.append(unhx(g[2]))
        elif g[0] == "r": out += [unhx(x[1:]) for x in g[1:]]
    return out


def oracle_history(req, out, raw=False):
    """the property text, simulated on a plain dict, judged on the implementation's output"""
    if not all(is_utf8(s) for s in history_strings(req)):
        return None  # outside the property's quantifier (valid UTF-8); compared with the model only
    targets, ops = parse_history(req)
    steps = out.split(" ")
    if len(steps) != len(ops): return "expected %d steps, got %d: %s" % (len(ops), len(steps), out[:200])
    d = {}
    def argpath(mode, b): return (CWD + "/").encode() + b if mode == "a" else b
    for i, (o, st) in enumerate(zip(ops, steps)):
        g = o.split(":")
        sf = st.split(":")
        code = sf[0]
        where = "step %d (%s)" % (i + 1, o)
        if code == "crash": return where + ": klog panicked"
        ok = code == "0"
        if g[0] == "s":
            p = py_abs(argpath(g[2], unhx(g[1])))
            n = norm_name(unhx(g[5]))
            allowed = g[3] == "f" or targets.get(p, ("m", 0))[0] == "v"
            if ok:
                d[n] = p          # what set prints is a courtesy message, not fixed by the property
            elif allowed: return where + ": set failed (exit %s) although the target is a valid file or --force was given" % code
        elif g[0] == "u":
            n = norm_name(unhx(g[1]))
            if n in d:
                if not ok: return where + ": unset of the existing bookmark %r failed" % n
                del d[n]
            elif ok: return where + ": unset of the unknown bookmark %r succeeded" % n
        elif g[0] == "c":
            if not ok: return where + ": clear failed"
            d = {}
        elif g[0] == "l":
            if not ok: return where + ": list failed"
            if not raw:
                want = b"".join(b"@" + k + b" -> " + d[k] + b"\n" for k in sorted(d))
                if d and unhx(sf[1]) != want: return where + ": list printed %r, the map in name order is %r" % (unhx(sf[1]), want)
                if not d and b" -> " in unhx(sf[1]): return where + ": list shows bookmarks although the map is empty"
        elif g[0] == "i":
            n = norm_name(unhx(g[2]))
            if n in d:
                if not ok: return where + ": info on the existing bookmark %r failed" % n
                if not raw:
                    s = d[n].decode("latin-1")
                    want = {"p": s, "d": go_dir(s), "f": go_base(s)}[g[1]]
                    if unhx(sf[1]).decode("latin-1") != want + "\n": return where + ": info printed %r, expected %r" % (unhx(sf[1]), want)
            elif ok: return where + ": info on the unknown bookmark %r succeeded" % n
        elif g[0] == "r":
            args = [argpath(x[0], unhx(x[1:])) for x in g[1:]]
            args = [a for a in args if a.strip(b" ") != b""]
            files, bad = [], False
            if not args:
                if b"default" in d: files = [d[b"default"]]
                else: bad = True
            for a in args:
                if a.startswith(b"@"):
                    n = norm_name(a)
                    if n in d: files.append(d[n])
                    else: bad = True
                else: files.append(py_abs(a))
            if not bad and all(targets.get(f, ("m", 0))[0] == "v" for f in files):
                if not ok: return where + ": resolving %r failed (exit %s)" % (args, code)
                if not raw and int(sf[1]) != sum(targets[f][1] for f in files):
                    return where + ": %r evaluated other files than the map says (total %s minutes, expected %d)" % (args, sf[1], sum(targets[f][1] for f in files))
            elif ok: return where + ": resolving %r succeeded although a bookmark or file is missing" % args
        # the database file read back
        if raw:
            text = unhx(sf[1])
            if text == b"": got = {}
            else:
                try:
                    v = json.loads(text.decode("utf-8"))
                    got = {e["name"].encode("utf-8"): e["path"].encode("utf-8") for e in v}
                    if len(got) != len(v): return where + ": duplicate names in the file"
                except Exception as e:
                    return where + ": the database file cannot be read back by Python's json: %s (%r)" % (e, text)
            if got != d: return where + ": the file reads back as %r, the map is %r" % (got, d)
        elif sf[2] != show_map(d):
            return where + ": the database file reads back as %s, the map is %s" % (sf[2], show_map(d))
    return None


def nontrivial_history(req, out):
    return " 0:" in " " + out and len(out.split(" ")) >= 2

def message_projection():
    """what `bookmarks set / unset / clear` print on success, and what `bookmarks list` prints for an empty collection, are courtesy
       messages whose wording no property fixes: they are left out of the comparison with the model (exit code and the
       database read back are compared for every step; for `list` of a non-empty collection and for `info` the text is
       compared in full, because it shows the map)."""
    def f(req, line):
        if not req.startswith("bm-history "):
            return line
        try:
            _, ops = parse_history(req)
        except Exception:
            return line
        steps = line.split(" ")
        if len(steps) != len(ops):
            return line
        out = []
        for o, st in zip(ops, steps):
            sf = st.split(":")
            if len(sf) == 3 and sf[0] == "0":
                if o[:1] in ("s", "u", "c"):
                    sf[1] = "*"
                elif o[:1] == "l" and b" -> " not in unhx(sf[1]):
                    sf[1] = "*"
            out.append(":".join(sf))
        return " ".join(out)
    return f


def suites():
    return [
        Suite("json-strings", gen_json_str, oracle=oracle_json_str, nontrivial=lambda r, o: " ok " in o,
              rule="all 256 single bytes, boundary runes, 22 malformed sequences, random strings over ASCII/controls/2-3-4-byte runes/U+2028/9 (15% of a quarter malformed); non-trivial = decodes"),
        Suite("json-parse", gen_json_parse, oracle=oracle_json_parse,
              rule="hand-written edge texts + random values rendered with random white space and escape spellings, 35% one-byte mutations; non-trivial = accepted"),
        Suite("json-print", gen_json_print, oracle=oracle_json_print,
              rule="random JSON texts parsed and re-encoded compact and indented; non-trivial = accepted"),
        Suite("paths", gen_paths, oracle=oracle_path, nontrivial=lambda r, o: not o.startswith("crash"),
              rule="fixed + random paths over ., .., empty, Unicode, quote, backslash elements"),
        Suite("db-codec", gen_db, oracle=oracle_db, nontrivial=lambda r, o: o not in ("err", "crash", "-"),
              rule="random collections -> ToJson; edge and random (15% mutated) database texts -> FromJson"),
        Suite("histories", gen_histories, oracle=oracle_history, nontrivial=nontrivial_history, project=message_projection,
              rule="histories of 1-40 set/unset/clear/list/info/total command lines over 2-6 names (with/without @, @@, Unicode, quotes, control characters, empty; every 10th history with malformed UTF-8) and 1-5 targets (valid/invalid/missing; spaces, quotes, non-ASCII; relative, absolute, unclean spellings); non-trivial = at least one command succeeded"),
        Suite("histories-raw", gen_histories_raw, oracle=lambda r, o: oracle_history(r, o, raw=True), model=False, nontrivial=nontrivial_history,
              rule="oracle-only: the raw database file after every command is read by Python's json module and compared with the dict"),
    ]


def never(req, out):
    return False
