package main

import (
	"strconv"
	"strings"

	"github.com/jotaen/klog/klog"
)

func showTime(t klog.Time) string {
	shift := 0
	if t.IsYesterday() {
		shift = -1
	} else if t.IsTomorrow() {
		shift = 1
	}
	return strings.Join([]string{
		strconv.Itoa(t.Hour()), strconv.Itoa(t.Minute()), strconv.Itoa(shift), b01(t.Format().Use24HourClock),
		strconv.Itoa(t.MidnightOffset().InMinutes()), hx(t.ToString()),
	}, " ")
}

func init() {
	register("time", func(a []string) string {
		t, err := klog.NewTimeFromString(argBytes(a[0]))
		if err != nil {
			return "err " + err.Error()
		}
		return "ok " + showTime(t)
	})
	register("dur", func(a []string) string {
		d, err := klog.NewDurationFromString(argBytes(a[0]))
		if err != nil {
			return "err " + err.Error()
		}
		// format flags are not exported: observe them through the printed forms of the value itself
		s := d.ToString()
		plus := strings.HasPrefix(s, "+") && d.InMinutes() != 0
		zs := 0
		if d.InMinutes() == 0 {
			if strings.HasPrefix(s, "-") {
				zs = -1
			} else if strings.HasPrefix(s, "+") {
				zs = 1
			}
		}
		_ = plus
		return "ok " + strings.Join([]string{strconv.Itoa(d.InMinutes()), strconv.Itoa(zs), hx(s), hx(d.ToStringWithSign())}, " ")
	})
	register("date", func(a []string) string {
		d, err := klog.NewDateFromString(argBytes(a[0]))
		if err != nil {
			return "err " + err.Error()
		}
		return "ok " + strings.Join([]string{strconv.Itoa(d.Year()), strconv.Itoa(d.Month()), strconv.Itoa(d.Day()),
			b01(d.Format().UseDashes), hx(d.ToString())}, " ")
	})
	register("plus", func(a []string) string {
		t, err := klog.NewTimeFromString(argBytes(a[0]))
		if err != nil {
			return "err " + err.Error()
		}
		n, _ := strconv.Atoi(a[1])
		r, err := t.Plus(klog.NewDuration(0, n))
		if err != nil {
			return "err " + err.Error()
		}
		return "ok " + showTime(r)
	})
	register("range", func(a []string) string {
		t1, err := klog.NewTimeFromString(argBytes(a[0]))
		if err != nil {
			return "err " + err.Error()
		}
		t2, err := klog.NewTimeFromString(argBytes(a[1]))
		if err != nil {
			return "err " + err.Error()
		}
		r, err := klog.NewRangeWithFormat(t1, t2, klog.RangeFormat{UseSpacesAroundDash: a[2] == "1"})
		if err != nil {
			return "err " + err.Error()
		}
		return "ok " + strconv.Itoa(r.Duration().InMinutes()) + " " + hx(r.ToString())
	})
	register("cmp", func(a []string) string {
		t1, err := klog.NewTimeFromString(argBytes(a[0]))
		if err != nil {
			return "err"
		}
		t2, err := klog.NewTimeFromString(argBytes(a[1]))
		if err != nil {
			return "err"
		}
		return "ok " + b01(t1.IsEqualTo(t2)) + " " + b01(t1.IsAfterOrEqual(t2))
	})
}
