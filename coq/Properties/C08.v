(* C08 — reading a file loses nothing: blocks and lines reproduce the text exactly.
   Property theorems only; each is closed by [exact <lemma>] and followed by Print Assumptions.
   All statements hold for EVERY byte string (no validity or UTF-8 hypothesis).
   Not here: noop_reconcile_identity (belongs to the reconciler model). *)
From Klog Require Import Base.Prelude Base.Utf8 Model.Lines Proofs.Lines.
Open Scope nat_scope.

(* 1. splitting a text into lines and gluing text ++ line ending back together is the identity
      (LF, CRLF, lone CR inside a line, missing final newline, any bytes) *)
Theorem C08_lines_lossless : forall s : bytes, text_of_lines (lines_of s) = s.
Proof. exact lines_lossless. Qed.
Print Assumptions C08_lines_lossless.

(* ... and the split is the right one: a line's text contains no LF; a line ends in LF (and its text then does not
   end in CR) or in CRLF; only the last line of the text may have no ending, and is then not empty.
   Together with C08_lines_lossless this determines lines_of s uniquely. *)
Theorem C08_lines_wellformed : forall (s : bytes) (pre : list line) (l : line) (post : list line),
  lines_of s = pre ++ l :: post ->
  ~ In 10%N (l_text l) /\
  ((l_ending l = [10%N] /\ ~ (exists t, l_text l = t ++ [13%N])) \/
   l_ending l = [13; 10]%N \/
   (l_ending l = [] /\ post = [] /\ l_text l <> [])).
Proof. exact lines_wellformed. Qed.
Print Assumptions C08_lines_wellformed.

(* 2. the blocks contain every line exactly once and in order, as soon as one line is significant *)
Theorem C08_blocks_lossless : forall ls : list line,
  (exists l, In l ls /\ is_blank l = false) -> flatten_blocks (blocks_of_lines ls) = ls.
Proof. exact blocks_lossless. Qed.
Print Assumptions C08_blocks_lossless.

(* ... hence the blocks reproduce the text byte for byte *)
Theorem C08_text_lossless : forall s : bytes,
  (exists l, In l (lines_of s) /\ is_blank l = false) ->
  text_of_lines (flatten_blocks (blocks_of s)) = s.
Proof. exact text_lossless. Qed.
Print Assumptions C08_text_lossless.

(* without the hypothesis: the blocks are a prefix of the lines and what is missing is blank
   (this only happens when ALL lines are blank, see C08_no_blocks_iff_all_blank) *)
Theorem C08_blocks_prefix : forall ls : list line,
  exists trail, ls = flatten_blocks (blocks_of_lines ls) ++ trail /\ Forall (fun l => is_blank l = true) trail.
Proof. exact blocks_prefix. Qed.
Print Assumptions C08_blocks_prefix.

(* 3. only a text consisting solely of blank lines yields no blocks *)
Theorem C08_no_blocks_iff_all_blank : forall ls : list line,
  blocks_of_lines ls = [] <-> Forall (fun l => is_blank l = true) ls.
Proof. exact no_blocks_iff_all_blank. Qed.
Print Assumptions C08_no_blocks_iff_all_blank.

(* 4. block line numbers: the first block starts at line 0, every next block where the previous one ended *)
Theorem C08_line_numbers_consecutive : forall ls : list line,
  (forall b rest, blocks_of_lines ls = b :: rest -> b_preceding b = 0) /\
  (forall pre b1 b2 post, blocks_of_lines ls = pre ++ b1 :: b2 :: post ->
     b_preceding b2 = b_preceding b1 + length (b_lines b1)).
Proof. exact line_numbers_consecutive. Qed.
Print Assumptions C08_line_numbers_consecutive.

(* closed form: a block's number of preceding lines is the number of lines in the blocks before it,
   and line i of the block is line b_preceding + i of the text *)
Theorem C08_block_lines_located : forall (ls : list line) pre b post i l,
  blocks_of_lines ls = pre ++ b :: post ->
  b_preceding b = length (flatten_blocks pre) /\
  (nth_error (b_lines b) i = Some l -> nth_error ls (overall_line_index b i) = Some l).
Proof. exact block_lines_located_full. Qed.
Print Assumptions C08_block_lines_located.

(* 5. every block is blank* significant+ blank*: exactly one maximal run of significant lines, and
      Block.SignificantLines returns that run with the two blank counts *)
Theorem C08_block_shape : forall (ls : list line) (b : block), In b (blocks_of_lines ls) ->
  exists head sig tail,
    significant_lines b = (sig, length head, length tail) /\ sig <> [] /\
    b_lines b = head ++ sig ++ tail /\
    Forall (fun l => is_blank l = true) head /\
    Forall (fun l => is_blank l = false) sig /\
    Forall (fun l => is_blank l = true) tail.
Proof. exact block_shape. Qed.
Print Assumptions C08_block_shape.

(* non-vacuity: example_text = " \r\n2020-01-01\r\na\rb\n\t\n\n2020-01-02\n    1h \xff" (CRLF and LF mixed, a lone
   CR inside a line, blank runs, invalid UTF-8, no final newline) has significant lines, 7 lines and 2 blocks,
   the second one starting at line 5 *)
Example C08_nonvacuous :
  (exists l, In l (lines_of example_text) /\ is_blank l = false) /\
  length (lines_of example_text) = 7 /\
  map b_preceding (blocks_of example_text) = [0; 5] /\
  map l_ending (lines_of example_text) = [[13;10]; [13;10]; [10]; [10]; [10]; [10]; []]%N.
Proof.
  split; [|vm_compute; repeat split].
  exists {| l_text := b!"2020-01-01"; l_ending := [13;10]%N |}. split; [vm_compute; tauto|reflexivity].
Qed.
