(* C10 — syntax errors are reported at the right place.
   Property theorems only; each is closed by [exact <lemma>] and followed by Print Assumptions.
   The model is the parser after the fixes F3 and F9 (Model/Parser.v); both theorems hold for EVERY byte string.
   Not here: first_error_at_fault (needs the specification Spec.v; appended below by the Spec proofs). *)
From Coq Require Import Sorted.
From Klog Require Import Base.Prelude Base.Utf8 Model.Lines Model.Parser Proofs.Lines Proofs.Parser.
From Klog Require Import Model.ErrorRender Proofs.ErrorRender.
Open Scope nat_scope.

(* every reported error names a line that exists in the text and quotes exactly that line's text;
   position and length are non-negative and the span ends at most one character past the end of the line
   (positions count runes of the quoted text, as Go's []rune(line.Text)) *)
Theorem C10_errors_located : forall (s : bytes) (es : list rerr), parse_text s = Ok (Failed es) ->
  Forall (fun e =>
    re_line e < length (lines_of s) /\
    (exists l, nth_error (lines_of s) (re_line e) = Some l /\ l_text l = re_text e) /\
    (0 <= re_pos e /\ 0 <= re_len e /\
     re_pos e + re_len e <= Z.of_nat (length (utf8_decode (re_text e))) + 1)%Z) es.
Proof. exact errors_located. Qed.
Print Assumptions C10_errors_located.

(* an error never points at a blank line (blank lines belong to no record) *)
Theorem C10_errors_on_significant_lines : forall (s : bytes) (es : list rerr), parse_text s = Ok (Failed es) ->
  Forall (fun e => is_blank_text (re_text e) = false) es.
Proof. exact errors_on_significant_lines. Qed.
Print Assumptions C10_errors_on_significant_lines.

(* errors come in ascending line order *)
Theorem C10_errors_ascending : forall (s : bytes) (es : list rerr), parse_text s = Ok (Failed es) ->
  Sorted le (map re_line es).
Proof. exact errors_ascending. Qed.
Print Assumptions C10_errors_ascending.

(* the same with every pair compared (StronglySorted), and said with indices *)
Theorem C10_errors_ascending_strong : forall (s : bytes) (es : list rerr), parse_text s = Ok (Failed es) ->
  StronglySorted le (map re_line es).
Proof. exact errors_ascending_strong. Qed.
Print Assumptions C10_errors_ascending_strong.

Theorem C10_errors_ascending_nth : forall (s : bytes) (es : list rerr) (i j : nat),
  parse_text s = Ok (Failed es) -> i <= j -> j < length es ->
  nth i (map re_line es) 0 <= nth j (map re_line es) 0.
Proof. exact errors_ascending_nth. Qed.
Print Assumptions C10_errors_ascending_nth.

(* ---- the two renderings (Model/ErrorRender.v: prettifier.go PrettifyParsingError, json toErrorViews) ---- *)
(* the terminal rendering of an error (block, line, pos, len) — for an ARBITRARY triple — does not panic exactly
   when the line is a line of the block and position and length are non-negative *)
Theorem C10_render_guard_exact : forall (b : block) (line pos len : Z),
  (exists tv, render_terminal b line pos len = Ok tv) <->
  (0 <= line < Z.of_nat (length (b_lines b)) /\ 0 <= pos /\ 0 <= len)%Z.
Proof. exact render_terminal_ok_iff. Qed.
Print Assumptions C10_render_guard_exact.

(* rendering the errors of ANY text never fails: the reported errors are the projections (report) of the errors
   with their block, every one of them renders on the terminal, hence the whole message does
   (PrettifyParsingError), one view per error; the JSON view is a total function *)
Theorem C10_renderings_total : forall (s : bytes) (es : list rerr), parse_text s = Ok (Failed es) ->
  es = map ctx_report (text_errors s) /\
  Forall (fun c => exists tv, terminal_of c = Ok tv) (text_errors s) /\
  exists tvs, prettify_all (text_errors s) = Ok tvs /\ length tvs = length es /\
              length (error_views (text_errors s)) = length es.
Proof. exact renderings_total. Qed.
Print Assumptions C10_renderings_total.

(* for ANY triple that renders: the terminal's line number, caret offset and caret count are the JSON view's
   line, column - 1 and length (and these are line index + 1, pos + 1, len) *)
Theorem C10_renderings_agree : forall (b : block) (line pos len : Z) (tv : term_view),
  render_terminal b line pos len = Ok tv ->
  let jv := json_error_view b line pos len in
  (tv_line_number tv = ev_line jv /\
   caret_offset (tv_caret_row tv) = ev_column jv - 1 /\
   caret_count (tv_caret_row tv) = ev_length jv /\
   ev_line jv = Z.of_nat (overall_line_index b (Z.to_nat line)) + 1 /\ ev_column jv = pos + 1 /\ ev_length jv = len)%Z.
Proof. exact renderings_agree. Qed.
Print Assumptions C10_renderings_agree.

(* ... and for the errors of a text both renderings show the reported positions: line + 1, position, length;
   the quoted line is the reported line text with every tab replaced by a blank *)
Theorem C10_renderings_show_reported : forall (s : bytes) (es : list rerr), parse_text s = Ok (Failed es) ->
  Forall (fun c =>
    let e := ctx_report c in
    In e es /\
    exists tv, terminal_of c = Ok tv /\
      (tv_line_number tv = Z.of_nat (re_line e) + 1 /\
       tv_quoted tv = render_indent ++ replace_tabs (re_text e) /\
       caret_offset (tv_caret_row tv) = re_pos e /\
       caret_count (tv_caret_row tv) = re_len e /\
       ev_line (json_of c) = Z.of_nat (re_line e) + 1 /\
       ev_column (json_of c) = re_pos e + 1 /\
       ev_length (json_of c) = re_len e)%Z) (text_errors s).
Proof. exact renderings_agree_text. Qed.
Print Assumptions C10_renderings_show_reported.

(* sensitivity of the guard: on the block [line 3: "2020-01-01 x"] the triple (0, 11, 1) renders as line 4 with one
   caret under the x; a negative length or position, or a line outside the block, panic *)
Example C10_render_guard_nonvacuous :
  render_terminal example_block 0 11 1 =
    Ok {| tv_line_number := 4; tv_quoted := b!"    2020-01-01 x"; tv_caret_row := b!"               ^" |} /\
  render_terminal example_block 0 11 (-1) = Crash CNegativeRepeat /\
  render_terminal example_block 0 (-1) 1 = Crash CNegativeRepeat /\
  render_terminal example_block 1 0 1 = Crash CIndexOutOfRange.
Proof. repeat split. Qed.

(* the renderings of the five errors of example_faulty *)
Example C10_renderings_nonvacuous :
  exists tvs, prettify_all (text_errors example_faulty) = Ok tvs /\
    map tv_line_number tvs = [2; 3; 4; 9; 11]%Z /\
    map (fun tv => caret_offset (tv_caret_row tv)) tvs = [14; 0; 4; 11; 4]%Z /\
    map (fun tv => caret_count (tv_caret_row tv)) tvs = [1; 2; 9; 1; 9]%Z /\
    map ev_column (error_views (text_errors example_faulty)) = [15; 1; 5; 12; 5]%Z.
Proof. eexists; vm_compute; repeat split. Qed.

(* non-vacuity: example_faulty has five errors on lines 1, 2, 3, 8, 10; the first one sits one past the end of
   its line (position 14 = length of "2020-01-01 (8h", length 1), so the "+ 1" of the bound is attained *)
Example C10_nonvacuous :
  exists es, parse_text example_faulty = Ok (Failed es) /\
    map re_line es = [1; 2; 3; 8; 10] /\
    map re_pos es = [14; 0; 4; 11; 4]%Z /\ map re_len es = [1; 2; 9; 1; 9]%Z.
Proof. eexists; vm_compute; repeat split. Qed.

(* ---------- first_error_at_fault (appended; proofs in Proofs/SpecFaults.v and Proofs/SpecFaultLines.v) ----------
   For every fault class of C01, injected into an ARBITRARY well-formed specification document d (Spec/Spec.v,
   Spec/SpecInject.v): the text is rejected and the FIRST reported error names the injected line —
   re_line = fault_line d k j, the 0-based index in the text of line j of record k (for a blank line inserted inside
   a record: the line after it). The guard raw_ok (...) = true says the edited text still has the layout of a document. *)
From Klog Require Import Model.Calendar Model.Values Model.Record Spec.Spec Spec.SpecInject Proofs.SpecEntry Proofs.SpecReject
  Proofs.SpecFaults Proofs.SpecFaultLines.
Open Scope Z_scope.

(* general form: the groups before the k-th are records, the k-th group's block fails with its first error on its line j *)
Theorem C10_first_error_at_fault_raw : forall rd k tg j, raw_ok rd = true -> nth_error (rd_groups rd) k = Some tg ->
  Forall (fun tg => sig_parses (fst tg)) (firstn k (rd_groups rd)) -> sig_fails_at (fst tg) j ->
  exists e es, parse_text (render_raw rd) = Ok (Failed (e :: es))
    /\ re_line e = (length (rd_lead rd) + length (flat_map (fun g => fst g ++ snd g) (firstn k (rd_groups rd))) + j)%nat.
Proof. exact reject_raw_at. Qed.
Print Assumptions C10_first_error_at_fault_raw.

(* malformed or non-Gregorian date *)
Theorem C10_first_error_at_fault_bad_date : forall d k rg dtxt, wf d -> nth_error (do_records d) k = Some rg ->
  let t := dtxt ++ skipn 10 (headline_text (fst rg)) in
  raw_ok (inject_raw k 0 t d) = true ->
  match dtxt with c :: _ => is_space_or_tab c = false | [] => False end ->
  forallb (fun c => negb (is_space_or_tab c)) dtxt = true ->
  (forall x, parse_date (utf8_encode dtxt) <> Ok x) ->
  match skipn 10 (headline_text (fst rg)) with c :: _ => is_space_or_tab c = true | [] => True end ->
  exists e es, parse_text (inject k 0 t d) = Ok (Failed (e :: es)) /\ re_line e = fault_line d k 0.
Proof. exact first_error_bad_date. Qed.
Print Assumptions C10_first_error_at_fault_bad_date.

(* text after the headline: after the should-total anything that begins with a non-blank; after the date (no should-total)
   at least one blank and then anything that begins with a non-blank other than `(` (which opens the should-total) *)
Theorem C10_first_error_at_fault_headline_text : forall d k rg c x,
  wf d -> nth_error (do_records d) k = Some rg ->
  is_space_or_tab c = false ->
  match sr_should (fst rg) with Some _ => True | None => sr_trail (fst rg) <> [] /\ (c =? ch_lpar)%N = false end ->
  raw_ok (inject_raw k (0) (headline_text (fst rg) ++ c :: x) d) = true ->
  exists e0 es, parse_text (inject k (0) (headline_text (fst rg) ++ c :: x) d) = Ok (Failed (e0 :: es)) /\ re_line e0 = fault_line d k (0).
Proof. exact first_err_headline_text. Qed.
Print Assumptions C10_first_error_at_fault_headline_text.

(* wrong indentation of the record's first indented line: it begins with a blank character but with no indentation style
   (one space, a Zs character), or with a style followed by a further blank (five spaces, tab + space, two tabs) *)
Theorem C10_first_error_at_fault_indentation_first : forall d k rg e es2 t,
  wf d -> nth_error (do_records d) k = Some rg -> sr_entries (fst rg) = e :: es2 ->
  (match t with c :: _ => blank_char c = true | [] => False end /\ find_indentation (utf8_encode t) = None)
  \/ (exists st, find_indentation (utf8_encode t) = Some st /\ is_space_or_tab (peek t (length st)) = true) ->
  raw_ok (inject_raw k (entry_line_index (fst rg) []) (t) d) = true ->
  exists e0 es, parse_text (inject k (entry_line_index (fst rg) []) (t) d) = Ok (Failed (e0 :: es)) /\ re_line e0 = fault_line d k (entry_line_index (fst rg) []).
Proof. exact first_err_indentation_first. Qed.
Print Assumptions C10_first_error_at_fault_indentation_first.

(* wrong or mixed indentation of a later entry line: it does not begin with the record's style, or has a further blank
   after it. Guard: it does not begin with style+style — that is a legal continuation line of the entry before *)
Theorem C10_first_error_at_fault_indentation_later : forall d k rg es1 e es2 t,
  wf d -> nth_error (do_records d) k = Some rg -> sr_entries (fst rg) = es1 ++ e :: es2 -> es1 <> [] ->
  has_prefix (indent_text (sr_indent (fst rg)) ++ indent_text (sr_indent (fst rg))) (utf8_encode t) = false ->
  has_prefix (indent_text (sr_indent (fst rg))) (utf8_encode t) = false \/ is_space_or_tab (peek t (length (indent_text (sr_indent (fst rg))))) = true ->
  raw_ok (inject_raw k (entry_line_index (fst rg) es1) (t) d) = true ->
  exists e0 es, parse_text (inject k (entry_line_index (fst rg) es1) (t) d) = Ok (Failed (e0 :: es)) /\ re_line e0 = fault_line d k (entry_line_index (fst rg) es1).
Proof. exact first_err_indentation_later. Qed.
Print Assumptions C10_first_error_at_fault_indentation_later.

(* malformed time / duration / range, general form: the value line of an entry is replaced by the indentation and a text
   on which parse_entry_value reports an error. The concrete families follow *)
Theorem C10_first_error_at_fault_malformed_entry : forall d k rg es1 e es2 txt,
  wf d -> nth_error (do_records d) k = Some rg -> sr_entries (fst rg) = es1 ++ e :: es2 ->
  match txt with c :: _ => is_space_or_tab c = false /\ (c <? 128)%N = true | [] => False end ->
  (forall ln, exists e0, parse_entry_value ln (indent_text (sr_indent (fst rg)) ++ txt) (length (indent_text (sr_indent (fst rg)))) = EvErr e0) ->
  raw_ok (inject_raw k (entry_line_index (fst rg) es1) (indent_text (sr_indent (fst rg)) ++ txt) d) = true ->
  exists e0 es, parse_text (inject k (entry_line_index (fst rg) es1) (indent_text (sr_indent (fst rg)) ++ txt) d) = Ok (Failed (e0 :: es)) /\ re_line e0 = fault_line d k (entry_line_index (fst rg) es1).
Proof. exact first_err_malformed_entry. Qed.
Print Assumptions C10_first_error_at_fault_malformed_entry.

(* a time-shaped literal that is no time of the specification (hour > 24, minute > 59, 24:01, 24:00>, 13:00pm, 0:30am:
   all 180,000 - 27,000 literals `<?D{1,2}:DD(am|pm)?>?` outside wf_time) where the start time should be *)
Theorem C10_first_error_at_fault_bad_time : forall d k rg es1 e es2 st rest,
  wf d -> nth_error (do_records d) k = Some rg -> sr_entries (fst rg) = es1 ++ e :: es2 ->
  time_fields_in_shape st = true -> wf_time st = false ->
  match rest with c :: _ => is_dash_or_space c = true | [] => True end ->
  raw_ok (inject_raw k (entry_line_index (fst rg) es1) (indent_text (sr_indent (fst rg)) ++ render_time st ++ rest) d) = true ->
  exists e0 es, parse_text (inject k (entry_line_index (fst rg) es1) (indent_text (sr_indent (fst rg)) ++ render_time st ++ rest) d) = Ok (Failed (e0 :: es)) /\ re_line e0 = fault_line d k (entry_line_index (fst rg) es1).
Proof. exact first_err_bad_time. Qed.
Print Assumptions C10_first_error_at_fault_bad_time.

(* missing dash: a time, then blanks and something that is not a dash (`8:00 9:00`), or nothing (`8:00`) *)
Theorem C10_first_error_at_fault_missing_dash : forall d k rg es1 e es2 a sp1 rest,
  wf d -> nth_error (do_records d) k = Some rg -> sr_entries (fst rg) = es1 ++ e :: es2 ->
  wf_time a = true ->
  match rest with c :: _ => is_space c = false /\ (c =? ch_minus)%N = false | [] => True end ->
  (sp1 = 0%nat -> rest = []) ->
  raw_ok (inject_raw k (entry_line_index (fst rg) es1) (indent_text (sr_indent (fst rg)) ++ render_time a ++ spaces sp1 ++ rest) d) = true ->
  exists e0 es, parse_text (inject k (entry_line_index (fst rg) es1) (indent_text (sr_indent (fst rg)) ++ render_time a ++ spaces sp1 ++ rest) d) = Ok (Failed (e0 :: es)) /\ re_line e0 = fault_line d k (entry_line_index (fst rg) es1).
Proof. exact first_err_missing_dash. Qed.
Print Assumptions C10_first_error_at_fault_missing_dash.

(* missing end time (s' empty: `8:00 -`), an end that is no time (`8:00 - 9:60`, `8:00 - foo`), shifted placeholder `<?` *)
Theorem C10_first_error_at_fault_bad_end : forall d k rg es1 e es2 a sp1 sp2 s' tail,
  wf d -> nth_error (do_records d) k = Some rg -> sr_entries (fst rg) = es1 ++ e :: es2 ->
  wf_time a = true ->
  forallb (fun c => negb (is_space_or_tab c)) s' = true ->
  match tail with c :: _ => is_space_or_tab c = true | [] => True end ->
  match s' ++ tail with c :: _ => is_space c = false /\ (c =? ch_q)%N = false | [] => True end ->
  (forall t, parse_time (utf8_encode s') <> Ok t) ->
  raw_ok (inject_raw k (entry_line_index (fst rg) es1) (indent_text (sr_indent (fst rg)) ++ render_time a ++ spaces sp1 ++ [45%N] ++ spaces sp2 ++ s' ++ tail) d) = true ->
  exists e0 es, parse_text (inject k (entry_line_index (fst rg) es1) (indent_text (sr_indent (fst rg)) ++ render_time a ++ spaces sp1 ++ [45%N] ++ spaces sp2 ++ s' ++ tail) d) = Ok (Failed (e0 :: es)) /\ re_line e0 = fault_line d k (entry_line_index (fst rg) es1).
Proof. exact first_err_bad_end. Qed.
Print Assumptions C10_first_error_at_fault_bad_end.

(* shifted or otherwise decorated placeholder: `?` followed, up to the next blank, by anything but further `?` (`?>`, `?x`, `??>`) *)
Theorem C10_first_error_at_fault_bad_placeholder : forall d k rg es1 e es2 a sp1 sp2 rep tail,
  wf d -> nth_error (do_records d) k = Some rg -> sr_entries (fst rg) = es1 ++ e :: es2 ->
  wf_time a = true ->
  forallb (fun c => negb (is_space_or_tab c)) rep = true ->
  match tail with c :: _ => is_space_or_tab c = true | [] => True end ->
  forallb (fun c => (c =? ch_q)%N) rep = false ->
  raw_ok (inject_raw k (entry_line_index (fst rg) es1) (indent_text (sr_indent (fst rg)) ++ render_time a ++ spaces sp1 ++ [45%N] ++ spaces sp2 ++ 63%N :: rep ++ tail) d) = true ->
  exists e0 es, parse_text (inject k (entry_line_index (fst rg) es1) (indent_text (sr_indent (fst rg)) ++ render_time a ++ spaces sp1 ++ [45%N] ++ spaces sp2 ++ 63%N :: rep ++ tail) d) = Ok (Failed (e0 :: es)) /\ re_line e0 = fault_line d k (entry_line_index (fst rg) es1).
Proof. exact first_err_bad_placeholder. Qed.
Print Assumptions C10_first_error_at_fault_bad_placeholder.

(* `1h60m`: a duration literal with both parts whose minute part is 60 or more *)
Theorem C10_first_error_at_fault_minutes_overflow : forall d k rg es1 e es2 du tail,
  wf d -> nth_error (do_records d) k = Some rg -> sr_entries (fst rg) = es1 ++ e :: es2 ->
  dur_minutes_overflow du = true -> tail_ok tail ->
  raw_ok (inject_raw k (entry_line_index (fst rg) es1) (indent_text (sr_indent (fst rg)) ++ render_dur du ++ tail) d) = true ->
  exists e0 es, parse_text (inject k (entry_line_index (fst rg) es1) (indent_text (sr_indent (fst rg)) ++ render_dur du ++ tail) d) = Ok (Failed (e0 :: es)) /\ re_line e0 = fault_line d k (entry_line_index (fst rg) es1).
Proof. exact first_err_minutes_overflow. Qed.
Print Assumptions C10_first_error_at_fault_minutes_overflow.

(* reversed range *)
Theorem C10_first_error_at_fault_reversed_range : forall d k rg es1 e es2 a sp1 sp2 b tail,
  wf d -> nth_error (do_records d) k = Some rg -> sr_entries (fst rg) = es1 ++ e :: es2 ->
  wf_time a = true -> wf_time b = true -> timeline b < timeline a -> tail_ok tail ->
  raw_ok (inject_raw k (entry_line_index (fst rg) es1) (indent_text (sr_indent (fst rg)) ++ render_value (SRange a sp1 sp2 b) ++ tail) d) = true ->
  exists e0 es, parse_text (inject k (entry_line_index (fst rg) es1) (indent_text (sr_indent (fst rg)) ++ render_value (SRange a sp1 sp2 b) ++ tail) d) = Ok (Failed (e0 :: es))
    /\ re_line e0 = fault_line d k (entry_line_index (fst rg) es1).
Proof. exact first_err_reversed_range. Qed.
Print Assumptions C10_first_error_at_fault_reversed_range.

(* second open range *)
Theorem C10_first_error_at_fault_second_open : forall d k rg es1 e es2 a sp1 sp2 extra tail,
  wf d -> nth_error (do_records d) k = Some rg -> sr_entries (fst rg) = es1 ++ e :: es2 ->
  count_open es1 <> 0%nat -> wf_time a = true -> tail_ok tail -> text_ok tail = true ->
  raw_ok (inject_raw k (entry_line_index (fst rg) es1) (indent_text (sr_indent (fst rg)) ++ render_value (SOpen a sp1 sp2 extra) ++ tail) d) = true ->
  exists e0 es, parse_text (inject k (entry_line_index (fst rg) es1) (indent_text (sr_indent (fst rg)) ++ render_value (SOpen a sp1 sp2 extra) ++ tail) d) = Ok (Failed (e0 :: es))
    /\ re_line e0 = fault_line d k (entry_line_index (fst rg) es1).
Proof. exact first_err_second_open. Qed.
Print Assumptions C10_first_error_at_fault_second_open.

(* summary line starting with a blank character *)
Theorem C10_first_error_at_fault_blank_summary : forall d k rg s1 s s2 t, wf d -> nth_error (do_records d) k = Some rg ->
  sr_summary (fst rg) = s1 ++ s :: s2 ->
  match t with c :: _ => blank_char c = true | [] => False end ->
  find_indentation (utf8_encode t) = None ->
  raw_ok (inject_raw k (summary_line_index s1) t d) = true ->
  exists e0 es, parse_text (inject k (summary_line_index s1) t d) = Ok (Failed (e0 :: es))
    /\ re_line e0 = fault_line d k (summary_line_index s1).
Proof. exact first_error_blank_summary. Qed.
Print Assumptions C10_first_error_at_fault_blank_summary.

(* blank line inside a record: the error is on the line AFTER the inserted blank line *)
Theorem C10_first_error_at_fault_blank_inside : forall d k rg es1 e es2 bl, wf d -> nth_error (do_records d) k = Some rg ->
  sr_entries (fst rg) = es1 ++ e :: es2 ->
  raw_ok (inject_blank_raw k (entry_line_index (fst rg) es1) bl d) = true ->
  exists e0 es, parse_text (inject_blank k (entry_line_index (fst rg) es1) bl d) = Ok (Failed (e0 :: es))
    /\ re_line e0 = S (fault_line d k (entry_line_index (fst rg) es1)).
Proof. exact first_err_blank_inside. Qed.
Print Assumptions C10_first_error_at_fault_blank_inside.

(* stray text as a block of its own *)
Theorem C10_first_error_at_fault_stray_text : forall d k t0 others gap, wf d -> (k <= length (do_records d))%nat ->
  raw_ok (inject_stray_raw k (t0 :: others) gap d) = true -> stray_first_line t0 ->
  exists e0 es, parse_text (inject_stray k (t0 :: others) gap d) = Ok (Failed (e0 :: es)) /\ re_line e0 = fault_line d k 0.
Proof. exact first_error_stray. Qed.
Print Assumptions C10_first_error_at_fault_stray_text.

(* non-vacuity: a reversed range on the second entry line of a one-record document with CRLF and a leading blank line;
   the guards hold and the first error is on line 3 (0-based) *)
Example C10_first_error_nonvacuous :
  let tm h m := {| st_shift := 0; st_hh := h; st_pad := false; st_mm := m; st_clock := C24 |} in
  let e1 := {| se_value := SDur {| du_sign := SNone; du_h := Some b!"1"; du_m := None |}; se_first := None; se_more := [] |} in
  let r := {| sr_date := {| sd_year := 2020; sd_month := 1; sd_day := 1; sd_dash := true |}; sr_should := None; sr_trail := [];
              sr_summary := []; sr_indent := ITab; sr_entries := [e1; e1] |} in
  let d := {| do_lead := [[]]; do_records := [(r, [])]; do_crlf := fun _ => true; do_final_newline := true |} in
  let t := indent_text ITab ++ render_value (SRange (tm 10 0) 1 1 (tm 9 0)) ++ [] in
  wf d /\ raw_ok (inject_raw 0 (entry_line_index r [e1]) t d) = true /\ fault_line d 0 (entry_line_index r [e1]) = 3%nat
  /\ exists e0 es, parse_text (inject 0 (entry_line_index r [e1]) t d) = Ok (Failed (e0 :: es)) /\ re_line e0 = 3%nat.
Proof. cbv zeta. split; [vm_compute; reflexivity|]. split; [vm_compute; reflexivity|]. split; [reflexivity|]. eexists; eexists; split; vm_compute; reflexivity. Qed.
