#!/usr/bin/env python3
"""prints the DESIGN §9.4 table from seeded/*/meta.json"""
import json, glob, os, re
ROOT = os.path.dirname(os.path.dirname(os.path.abspath(__file__)))
rows = []
for m in sorted(glob.glob(os.path.join(ROOT, "seeded", "*", "meta.json"))):
    o = json.load(open(m))
    res = o.get("results") or []
    caught, missed = [], []
    for r in res:
        m = re.search(r"(CAUGHT|MISSED) (C\d+)", r)
        if m:
            (caught if m.group(1) == "CAUGHT" else missed).append(m.group(2) + (" (after strengthening)" if r.startswith("(") else ""))
    missed = [x for x in missed if x not in [c.split(" ")[0] for c in caught]]
    caught = sorted(set(caught), key=caught.index)
    why = ""
    for r in res:
        if r.startswith("CAUGHT"):
            why = r.split("s  ", 1)[1][:110] if "s  " in r else ""
            break
    needs = o.get("what") or ""
    if not needs:
        n = o.get("needs", "")
        mm = re.search(r"(?i)trigger[^\n]*\n?([^\n]+)", n)
        needs = (mm.group(0) if mm else n[:160]).replace("\n", " ")[:200]
    rows.append("| %s | %s | %s | %s |" % (o["id"], needs.replace("|", "/"), ", ".join(caught) + (" (missed by: " + ", ".join(missed) + ")" if missed else ""), why.replace("|", "/")))
print("| seeded change | what it needs to manifest | caught by | first report |\n|---|---|---|---|")
print("\n".join(rows))
