(* Style: the style election and the use of the elected style (C11). About Model/Reconcile.v.
     - [tally_spec] / [tally_unique]   the election returns the most voted value; among equally voted ones the one
                                       that was voted for first — and that description has exactly one solution
     - [tally_nil], [tally_unanimous], [tally_voted_or_default]
     - [ascertain_explicit], [own_style_wins]  what the target record exhibits itself is never overridden
     - [determine_eol], [determine_indent]      what a record exhibits
     - [elect_*]                       the six facts of the elected style
     - [mk_inserted_lf], [mk_inserted_crlf], [insert_uses_style]   inserted lines carry that style *)
From Klog Require Import Base.Prelude Base.Utf8 Model.Calendar Model.Values Model.Record Model.Lines Model.Parser
  Model.Reconcile Proofs.Lines.
From Coq Require Import ZifyBool.
Open Scope Z_scope.

(* ---------------------------------------------------------------- the election *)
Section Tally.
  Context {A : Type} (eqb : A -> A -> bool).
  Hypothesis eqb_refl : forall a, eqb a a = true.

  Notation cnt := (count_votes eqb).

  Lemma count_in_pos v votes : In v votes -> (1 <= cnt v votes)%nat.
  Proof.
    unfold count_votes. induction votes as [|x r IH]; intros H; [destruct H|].
    cbn [filter]. destruct H as [->|H].
    - rewrite eqb_refl. cbn [List.length]. lia.
    - destruct (eqb v x); cbn [List.length]; [lia|exact (IH H)].
  Qed.

  (* [w] wins the election over [votes]: it was voted for, everything voted for earlier has strictly fewer votes,
     everything voted for later has at most as many *)
  Definition winner (votes : list A) (w : A) : Prop :=
    exists pre post, votes = pre ++ w :: post /\
      (forall v, In v pre -> (cnt v votes < cnt w votes)%nat) /\
      (forall v, In v post -> (cnt v votes <= cnt w votes)%nat).

  (* the loop invariant: [best]/[max] describe the winner among the candidates [done] seen so far *)
  Definition tally_inv (votes done : list A) (d best : A) (max : nat) : Prop :=
    (done = [] /\ best = d /\ max = O) \/
    (exists pre post, done = pre ++ best :: post /\ max = cnt best votes /\
       (forall v, In v pre -> (cnt v votes < max)%nat) /\
       (forall v, In v post -> (cnt v votes <= max)%nat)).

  Lemma tally_loop_inv votes d : forall cands done best max,
    votes = done ++ cands -> tally_inv votes done d best max ->
    tally_inv votes votes d (tally_loop eqb cands votes best max) (match cands with [] => max | _ => cnt (tally_loop eqb cands votes best max) votes end).
  Proof.
    induction cands as [|c r IH]; intros done best max Hv Hinv.
    - rewrite app_nil_r in Hv. subst done. exact Hinv.
    - cbn [tally_loop].
      assert (Hc : (1 <= cnt c votes)%nat) by (apply count_in_pos; rewrite Hv; apply in_or_app; right; left; reflexivity).
      assert (Hv' : votes = (done ++ [c]) ++ r) by (rewrite <- app_assoc; exact Hv).
      assert (Hnext : forall best' max', tally_inv votes (done ++ [c]) d best' max' ->
                 tally_inv votes votes d (tally_loop eqb r votes best' max') (cnt (tally_loop eqb r votes best' max') votes)).
      { intros best' max' Hi. pose proof (IH _ best' max' Hv' Hi) as G.
        destruct r as [|c2 r2]; [|exact G].
        cbn [tally_loop] in *. destruct Hi as [(Hd & _)|(pre & post & Hd & Hm & H1 & H2)].
        - destruct done; discriminate Hd.
        - rewrite <- Hm. exact G. }
      destruct (Nat.ltb max (cnt c votes)) eqn:E.
      + apply Nat.ltb_lt in E. apply Hnext. right. exists done, []. split; [reflexivity|]. split; [reflexivity|].
        split; [|intros v []].
        intros v Hin. destruct Hinv as [(Hd & _)|(pre & post & Hd & Hm & H1 & H2)].
        * subst done. destruct Hin.
        * subst done. apply in_app_or in Hin. destruct Hin as [Hin|[<-|Hin]].
          -- specialize (H1 v Hin). lia.
          -- lia.
          -- specialize (H2 v Hin). lia.
      + apply Nat.ltb_ge in E. apply Hnext. destruct Hinv as [(Hd & Hb & Hm)|(pre & post & Hd & Hm & H1 & H2)].
        * lia.
        * right. exists pre, (post ++ [c]). split; [rewrite Hd, <- app_assoc; reflexivity|]. split; [exact Hm|].
          split; [exact H1|]. intros v Hin. apply in_app_or in Hin. destruct Hin as [Hin|[<-|[]]]; [exact (H2 v Hin)|exact E].
  Qed.

  (* the characterisation *)
  Theorem tally_spec votes d : votes <> [] -> winner votes (tally_up eqb votes d).
  Proof.
    intros Hne. unfold tally_up.
    pose proof (tally_loop_inv votes d votes [] d O eq_refl (or_introl (conj eq_refl (conj eq_refl eq_refl)))) as H.
    destruct H as [(Hd & _)|(pre & post & Hd & Hm & H1 & H2)]; [contradiction|].
    exists pre, post. split; [exact Hd|]. destruct votes as [|v0 vs]; [contradiction|].
    split; [exact H1|exact H2].
  Qed.

  Theorem tally_nil d : tally_up eqb [] d = d.
  Proof. reflexivity. Qed.

  (* ... and it has exactly one solution: the outcome is determined by the votes alone *)
  Theorem winner_unique votes w1 w2 : winner votes w1 -> winner votes w2 -> w1 = w2.
  Proof.
    intros (p1 & q1 & E1 & A1 & B1) (p2 & q2 & E2 & A2 & B2).
    assert (G : forall (p1 q1 p2 q2 : list A) w1 w2, p1 ++ w1 :: q1 = p2 ++ w2 :: q2 ->
              w1 = w2 \/ In w1 p2 \/ In w2 p1).
    { clear. induction p1 as [|x p1 IH]; intros q1 p2 q2 w1 w2 H.
      - destruct p2 as [|y p2]; cbn [app] in H.
        + left. congruence.
        + right. left. injection H as -> _. left. reflexivity.
      - destruct p2 as [|y p2]; cbn [app] in H.
        + right. right. injection H as -> _. left. reflexivity.
        + injection H as -> H. destruct (IH _ _ _ _ _ H) as [G|[G|G]]; [left; exact G|right; left; right; exact G|right; right; right; exact G]. }
    rewrite E1 in E2. destruct (G _ _ _ _ _ _ E2) as [H|[H|H]]; [exact H| |].
    - specialize (A2 _ H). assert (Hin : In w2 (p1 ++ w1 :: q1)) by (rewrite E2; apply in_or_app; right; left; reflexivity).
      apply in_app_or in Hin. destruct Hin as [Hin|[Hin|Hin]].
      + specialize (A1 _ Hin). lia.
      + exact Hin.
      + specialize (B1 _ Hin). lia.
    - specialize (A1 _ H). assert (Hin : In w1 (p2 ++ w2 :: q2)) by (rewrite <- E2; apply in_or_app; right; left; reflexivity).
      apply in_app_or in Hin. destruct Hin as [Hin|[Hin|Hin]].
      + specialize (A2 _ Hin). lia.
      + symmetry. exact Hin.
      + specialize (B2 _ Hin). lia.
  Qed.

  Corollary tally_unique votes d w : winner votes w -> tally_up eqb votes d = w.
  Proof.
    intros Hw. destruct votes as [|v0 vs].
    - destruct Hw as (pre & post & E & _). destruct pre; discriminate E.
    - apply (winner_unique (v0 :: vs)); [apply tally_spec; discriminate|exact Hw].
  Qed.

  (* in words: the winner has the maximal count; whoever has as many votes was first voted for later *)
  Theorem tally_max votes d v : In v votes -> (cnt v votes <= cnt (tally_up eqb votes d) votes)%nat.
  Proof.
    intros Hin. destruct (tally_spec votes d) as (pre & post & E & H1 & H2); [intros ->; destruct Hin|].
    rewrite E in Hin. apply in_app_or in Hin. destruct Hin as [Hin|[<-|Hin]].
    - specialize (H1 _ Hin). lia.
    - lia.
    - exact (H2 _ Hin).
  Qed.

  Theorem tally_first_among_equals votes d v pre post :
    votes = pre ++ v :: post -> cnt v votes = cnt (tally_up eqb votes d) votes -> v <> tally_up eqb votes d ->
    In (tally_up eqb votes d) pre.
  Proof.
    intros Ev Hc Hne.
    destruct (tally_spec votes d) as (p & q & E & H1 & H2); [rewrite Ev; destruct pre; discriminate|].
    set (w := tally_up eqb votes d) in *.
    assert (G : forall (p1 q1 p2 q2 : list A) w1 w2, p1 ++ w1 :: q1 = p2 ++ w2 :: q2 ->
              w1 = w2 \/ In w1 p2 \/ In w2 p1).
    { clear. induction p1 as [|x p1 IH]; intros q1 p2 q2 w1 w2 H.
      - destruct p2 as [|y p2]; cbn [app] in H.
        + left. congruence.
        + right. left. injection H as -> _. left. reflexivity.
      - destruct p2 as [|y p2]; cbn [app] in H.
        + right. right. injection H as -> _. left. reflexivity.
        + injection H as -> H. destruct (IH _ _ _ _ _ H) as [G|[G|G]]; [left; exact G|right; left; right; exact G|right; right; right; exact G]. }
    rewrite Ev in E. destruct (G _ _ _ _ _ _ E) as [H|[H|H]]; [contradiction| |exact H].
    specialize (H1 _ H). lia.
  Qed.

  Theorem tally_voted_or_default votes d :
    (votes = [] /\ tally_up eqb votes d = d) \/ In (tally_up eqb votes d) votes.
  Proof.
    destruct votes as [|v0 vs]; [left; split; reflexivity|]. right.
    destruct (tally_spec (v0 :: vs) d) as (pre & post & E & _); [discriminate|].
    rewrite E at 2. apply in_or_app. right. left. reflexivity.
  Qed.

  Theorem tally_unanimous votes d v : votes <> [] -> (forall x, In x votes -> x = v) -> tally_up eqb votes d = v.
  Proof.
    intros Hne Hall. destruct (tally_voted_or_default votes d) as [[H _]|H]; [contradiction|]. exact (Hall _ H).
  Qed.

  (* ascertain: an explicit base is kept; otherwise the election, with the base value as the default *)
  Lemma ascertain_explicit votes (base : sprop A) : sp_explicit base = true -> ascertain eqb votes base = base.
  Proof. unfold ascertain. intros ->. reflexivity. Qed.

  Lemma ascertain_elected votes (base : sprop A) : sp_explicit base = false ->
    ascertain eqb votes base = sset (tally_up eqb votes (sp_val base)).
  Proof. unfold ascertain. intros ->. reflexivity. Qed.

  Lemma ascertain_val votes (base : sprop A) :
    sp_val (ascertain eqb votes base) = if sp_explicit base then sp_val base else tally_up eqb votes (sp_val base).
  Proof. unfold ascertain. destruct (sp_explicit base); reflexivity. Qed.
End Tally.

Lemma bytes_eqb_refl a : bytes_eqb a a = true.
Proof. apply bytes_eqb_eq. reflexivity. Qed.
Lemma bool_eqb_refl a : Bool.eqb a a = true.
Proof. destruct a; reflexivity. Qed.

(* ---------------------------------------------------------------- what a record exhibits *)

(* votes_of: the explicit values, in record order *)
Lemma votes_of_in {A} (ps : list (sprop A)) v : In v (votes_of ps) <-> exists p, In p ps /\ sp_explicit p = true /\ sp_val p = v.
Proof.
  unfold votes_of. rewrite in_flat_map. split.
  - intros (p & Hin & Hv). exists p. destruct (sp_explicit p); [|destruct Hv]. destruct Hv as [<-|[]]. auto.
  - intros (p & Hin & He & <-). exists p. rewrite He. split; [exact Hin|left; reflexivity].
Qed.

Lemma votes_of_nil {A} (ps : list (sprop A)) : (forall p, In p ps -> sp_explicit p = false) -> votes_of ps = [].
Proof.
  intros H. unfold votes_of. induction ps as [|p r IH]; [reflexivity|]. cbn [flat_map].
  rewrite (H p (or_introl eq_refl)). cbn [app]. apply IH. intros q Hq. apply H. right. exact Hq.
Qed.

(* the line ending a record exhibits: that of its first significant line (its headline), when it has one *)
Lemma determine_eol r b :
  st_eol (determine r b) =
  match fst (fst (significant_lines b)) with
  | l :: _ => match l_ending l with [] => sdef [10%N] | e => sset e end
  | [] => sdef [10%N]
  end.
Proof.
  unfold determine. destruct (entry_style _ _ _ _) as [[c24 spc] ext].
  destruct (significant_lines b) as [[sig hd] tl]. reflexivity.
Qed.

(* the indentation a record exhibits: that of its first indented significant line *)
Lemma determine_indent r b :
  st_indent (determine r b) =
  match first_some_indent (fst (fst (significant_lines b))) with
  | Some i => sset i
  | None => sdef [32; 32; 32; 32]%N
  end.
Proof.
  unfold determine. destruct (entry_style _ _ _ _) as [[c24 spc] ext].
  destruct (significant_lines b) as [[sig hd] tl]. reflexivity.
Qed.

Lemma determine_dashes r b : st_dashes (determine r b) = sset (dt_dashes (rec_date r)).
Proof.
  unfold determine. destruct (entry_style _ _ _ _) as [[c24 spc] ext].
  destruct (significant_lines b) as [[sig hd] tl]. reflexivity.
Qed.

Lemma first_some_indent_spec ls i : first_some_indent ls = Some i ->
  exists pre l post, ls = pre ++ l :: post /\ find_indentation (original l) = Some i /\
    forall x, In x pre -> find_indentation (original x) = None.
Proof.
  unfold first_some_indent. induction ls as [|l r IH]; cbn [filter]; [discriminate|].
  destruct (find_indentation (original l)) as [j|] eqn:E.
  - rewrite E. intros [= <-]. exists [], l, r. split; [reflexivity|]. split; [exact E|]. intros x [].
  - intros H. destruct (IH H) as (pre & l' & post & -> & Hf & Hp). exists (l :: pre), l', post.
    split; [reflexivity|]. split; [exact Hf|]. intros x [<-|Hx]; [exact E|exact (Hp x Hx)].
Qed.

Lemma first_some_indent_none ls : first_some_indent ls = None -> forall l, In l ls -> find_indentation (original l) = None.
Proof.
  unfold first_some_indent. induction ls as [|l r IH]; cbn [filter]; intros H x Hx; [destruct Hx|].
  destruct (find_indentation (original l)) as [j|] eqn:E.
  - rewrite E in H. discriminate.
  - destruct Hx as [<-|Hx]; [exact E|exact (IH H x Hx)].
Qed.

(* ---------------------------------------------------------------- the elected style *)

Definition styles_of (rs : list record) (bs : list block) : list style :=
  map (fun rb => determine (fst rb) (snd rb)) (combine rs bs).

Lemma elect_eol base rs bs :
  st_eol (elect base rs bs) = ascertain bytes_eqb (votes_of (map st_eol (styles_of rs bs))) (st_eol base).
Proof. reflexivity. Qed.
Lemma elect_indent base rs bs :
  st_indent (elect base rs bs) = ascertain bytes_eqb (votes_of (map st_indent (styles_of rs bs))) (st_indent base).
Proof. reflexivity. Qed.
Lemma elect_dashes base rs bs :
  st_dashes (elect base rs bs) = ascertain Bool.eqb (votes_of (map st_dashes (styles_of rs bs))) (st_dashes base).
Proof. reflexivity. Qed.
Lemma elect_24h base rs bs :
  st_24h (elect base rs bs) = ascertain Bool.eqb (votes_of (map st_24h (styles_of rs bs))) (st_24h base).
Proof. reflexivity. Qed.
Lemma elect_spaces base rs bs :
  st_spaces (elect base rs bs) = ascertain Bool.eqb (votes_of (map st_spaces (styles_of rs bs))) (st_spaces base).
Proof. reflexivity. Qed.
Lemma elect_extra base rs bs :
  st_extra (elect base rs bs) = ascertain Nat.eqb (votes_of (map st_extra (styles_of rs bs))) (st_extra base).
Proof. reflexivity. Qed.

(* a style fact [f] of the elected style agrees with the base wherever the base is explicit *)
Definition keeps_explicit {A} (f : style -> sprop A) (base st : style) : Prop :=
  sp_explicit (f base) = true -> f st = f base.

Theorem elect_keeps_explicit base rs bs :
  keeps_explicit st_eol base (elect base rs bs) /\ keeps_explicit st_indent base (elect base rs bs) /\
  keeps_explicit st_dashes base (elect base rs bs) /\ keeps_explicit st_24h base (elect base rs bs) /\
  keeps_explicit st_spaces base (elect base rs bs) /\ keeps_explicit st_extra base (elect base rs bs).
Proof.
  unfold keeps_explicit, elect; cbn [st_eol st_indent st_dashes st_24h st_spaces st_extra].
  repeat split; intros H; apply ascertain_explicit; exact H.
Qed.

Lemma reconciler_at_record_style d rs bs rc : reconciler_at_record d rs bs = Some rc ->
  exists i r b, nth_error rs i = Some r /\ nth_error bs i = Some b /\ rc_record rc = r /\
    rc_style rc = elect (determine r b) rs bs /\ rc_lines rc = flatten_blocks bs /\
    rc_last rc = index_of_last_significant b /\ rc_pointer rc = i.
Proof.
  unfold reconciler_at_record. destruct (find_record_idx d rs 0) as [i|]; [|discriminate].
  destruct (nth_error rs i) as [r|] eqn:Er; [|discriminate]. destruct (nth_error bs i) as [b|] eqn:Eb; [|discriminate].
  intros [= <-]. exists i, r, b. cbn. auto 10.
Qed.

(* own_style_wins: what the target record exhibits itself decides, whatever the other records do *)
Theorem own_style_wins d rs bs rc : reconciler_at_record d rs bs = Some rc ->
  exists r b, rc_record rc = r /\ In b bs /\
    keeps_explicit st_eol (determine r b) (rc_style rc) /\ keeps_explicit st_indent (determine r b) (rc_style rc) /\
    keeps_explicit st_dashes (determine r b) (rc_style rc) /\ keeps_explicit st_24h (determine r b) (rc_style rc) /\
    keeps_explicit st_spaces (determine r b) (rc_style rc) /\ keeps_explicit st_extra (determine r b) (rc_style rc).
Proof.
  intros H. destruct (reconciler_at_record_style _ _ _ _ H) as (i & r & b & Hr & Hb & Hrec & Hst & _).
  exists r, b. split; [exact Hrec|]. split; [exact (nth_error_In _ _ Hb)|]. rewrite Hst. apply elect_keeps_explicit.
Qed.

(* spelled out for the two facts that shape inserted lines: a headline with an ending / an indented line in the
   target record fixes the ending / indentation of everything inserted into that record *)
Corollary own_eol_wins d rs bs rc : reconciler_at_record d rs bs = Some rc ->
  exists b, In b bs /\ forall l rest e0 e, fst (fst (significant_lines b)) = l :: rest -> l_ending l = e0 :: e ->
    st_eol (rc_style rc) = sset (e0 :: e).
Proof.
  intros H. destruct (reconciler_at_record_style _ _ _ _ H) as (i & r & b & Hr & Hb & Hrec & Hst & _).
  exists b. split; [exact (nth_error_In _ _ Hb)|]. intros l rest e0 e Hs He.
  assert (Hd : st_eol (determine r b) = sset (e0 :: e)) by (rewrite determine_eol, Hs, He; reflexivity).
  rewrite Hst, elect_eol, ascertain_explicit; rewrite Hd; reflexivity.
Qed.

Corollary own_indent_wins d rs bs rc : reconciler_at_record d rs bs = Some rc ->
  exists b, In b bs /\ forall i, first_some_indent (fst (fst (significant_lines b))) = Some i ->
    st_indent (rc_style rc) = sset i.
Proof.
  intros H. destruct (reconciler_at_record_style _ _ _ _ H) as (k & r & b & Hr & Hb & Hrec & Hst & _).
  exists b. split; [exact (nth_error_In _ _ Hb)|]. intros i Hi.
  assert (Hd : st_indent (determine r b) = sset i) by (rewrite determine_indent, Hi; reflexivity).
  rewrite Hst, elect_indent, ascertain_explicit; rewrite Hd; reflexivity.
Qed.

(* where the base does not decide, the election does: unanimity, default, voted-or-default — for every fact *)
Section Elected.
  Context {A : Type} (eqb : A -> A -> bool) (eqb_refl : forall a, eqb a a = true).
  Variables (f : style -> sprop A) (base : style) (ss : list style).
  Hypothesis Hbase : sp_explicit (f base) = false.
  Let result := ascertain eqb (votes_of (map f ss)) (f base).

  (* no record exhibits the fact: the default of the base *)
  Lemma elected_default : (forall s, In s ss -> sp_explicit (f s) = false) -> sp_val result = sp_val (f base).
  Proof.
    intros H. unfold result. rewrite ascertain_val, Hbase, votes_of_nil; [reflexivity|].
    intros p Hp. apply in_map_iff in Hp as (s & <- & Hs). exact (H s Hs).
  Qed.

  (* all records that exhibit the fact agree on [v] (and there is one): [v] *)
  Lemma elected_unanimous v : (exists s, In s ss /\ sp_explicit (f s) = true) ->
    (forall s, In s ss -> sp_explicit (f s) = true -> sp_val (f s) = v) -> sp_val result = v.
  Proof.
    intros (s0 & Hs0 & He0) Hall. unfold result. rewrite ascertain_val, Hbase.
    apply (tally_unanimous eqb eqb_refl).
    - intros E. assert (Hin : In (sp_val (f s0)) (votes_of (map f ss))).
      { apply votes_of_in. exists (f s0). split; [apply in_map; exact Hs0|]. split; [exact He0|reflexivity]. }
      rewrite E in Hin. destruct Hin.
    - intros x Hx. apply votes_of_in in Hx as (p & Hp & He & <-). apply in_map_iff in Hp as (s & <- & Hs). exact (Hall s Hs He).
  Qed.

  (* always: a value some record exhibits, or the default *)
  Lemma elected_voted_or_default :
    sp_val result = sp_val (f base) \/ exists s, In s ss /\ sp_explicit (f s) = true /\ sp_val (f s) = sp_val result.
  Proof.
    unfold result. rewrite ascertain_val, Hbase.
    destruct (tally_voted_or_default eqb eqb_refl (votes_of (map f ss)) (sp_val (f base))) as [[_ H]|H].
    - left. exact H.
    - right. apply votes_of_in in H as (p & Hp & He & Hv). apply in_map_iff in Hp as (s & <- & Hs). exists s. auto.
  Qed.

  (* the most exhibited value, the earliest record deciding a tie *)
  Lemma elected_winner : votes_of (map f ss) <> [] -> winner eqb (votes_of (map f ss)) (sp_val result).
  Proof. intros H. unfold result. rewrite ascertain_val, Hbase. apply (tally_spec eqb eqb_refl). exact H. Qed.
End Elected.

(* a new record (base = the built-in default): line ending and indentation *)
Theorem new_record_default_style rs bs :
  (forall s, In s (styles_of rs bs) -> sp_explicit (st_eol s) = false) ->
  (forall s, In s (styles_of rs bs) -> sp_explicit (st_indent s) = false) ->
  sp_val (st_eol (elect default_style rs bs)) = [10%N] /\
  sp_val (st_indent (elect default_style rs bs)) = [32; 32; 32; 32]%N.
Proof.
  intros H1 H2. split.
  - rewrite elect_eol. exact (elected_default bytes_eqb st_eol default_style _ eq_refl H1).
  - rewrite elect_indent. exact (elected_default bytes_eqb st_indent default_style _ eq_refl H2).
Qed.

(* ---------------------------------------------------------------- inserted lines *)

Lemma new_line_lf t : ~ (exists t', t = t' ++ [13%N]) -> new_line (t ++ [10%N]) = {| l_text := t; l_ending := [10%N] |}.
Proof.
  intros H. rewrite new_line_spec, rev_app_distr. cbn [rev app]. rewrite N.eqb_refl.
  destruct (rev t) as [|b r'] eqn:E.
  - assert (t = []) by (rewrite <- (rev_involutive t), E; reflexivity). subst t. reflexivity.
  - assert (Et : t = rev r' ++ [b]) by (rewrite <- (rev_involutive t), E; reflexivity).
    destruct (b =? 13)%N eqn:Eb.
    + apply N.eqb_eq in Eb. subst b. elim H. exists (rev r'). exact Et.
    + change (rev (b :: r')) with (rev r' ++ [b]). rewrite <- Et. reflexivity.
Qed.

Lemma new_line_crlf t : new_line (t ++ [13; 10]%N) = {| l_text := t; l_ending := [13; 10]%N |}.
Proof.
  rewrite new_line_spec, rev_app_distr. cbn [rev app]. rewrite !N.eqb_refl, rev_involutive. reflexivity.
Qed.

Lemma new_line_none t : ~ (exists t', t = t' ++ [10%N]) -> new_line t = {| l_text := t; l_ending := [] |}.
Proof.
  intros H. rewrite new_line_spec. destruct (rev t) as [|a r] eqn:E; [reflexivity|].
  destruct (a =? 10)%N eqn:Ea; [|reflexivity]. apply N.eqb_eq in Ea. subst a.
  elim H. exists (rev r). rewrite <- (rev_involutive t), E. reflexivity.
Qed.

Definition indented (st : style) (t : itext) : bytes := repeat_bytes (sp_val (st_indent st)) (snd t) ++ fst t.

(* an inserted line: the style's indentation, once per level, the text, the style's line ending *)
Lemma mk_inserted_lf st t : sp_val (st_eol st) = [10%N] -> ~ (exists t', indented st t = t' ++ [13%N]) ->
  mk_inserted st t = {| l_text := indented st t; l_ending := [10%N] |}.
Proof. intros He H. unfold mk_inserted. rewrite He, app_assoc. apply new_line_lf. exact H. Qed.

Lemma mk_inserted_crlf st t : sp_val (st_eol st) = [13; 10]%N ->
  mk_inserted st t = {| l_text := indented st t; l_ending := [13; 10]%N |}.
Proof. intros He. unfold mk_inserted. rewrite He, app_assoc. apply new_line_crlf. Qed.

Lemma mk_inserted_original st t : original (mk_inserted st t) = indented st t ++ sp_val (st_eol st).
Proof. unfold mk_inserted, indented. rewrite new_line_original, app_assoc. reflexivity. Qed.

(* insert: the result is the old lines with the block of styled lines spliced in at [idx] *)
Lemma insert_ok st idx texts ls : 0 <= idx <= zlen ls ->
  insert st idx texts ls =
    Ok (give_ending_to_last (sp_val (st_eol st)) (firstn (Z.to_nat idx) ls) ++ map (mk_inserted st) texts ++ skipn (Z.to_nat idx) ls).
Proof.
  intros H. unfold insert. destruct ((idx <? 0) || (zlen ls <? idx)) eqn:E; [lia|reflexivity].
Qed.

Lemma insert_inv st idx texts ls ls' : insert st idx texts ls = Ok ls' ->
  0 <= idx <= zlen ls /\
  ls' = give_ending_to_last (sp_val (st_eol st)) (firstn (Z.to_nat idx) ls) ++ map (mk_inserted st) texts ++ skipn (Z.to_nat idx) ls.
Proof.
  unfold insert. destruct ((idx <? 0) || (zlen ls <? idx)) eqn:E; [discriminate|]. intros [= <-]. split; [lia|reflexivity].
Qed.

Lemma give_ending_length eol ls : length (give_ending_to_last eol ls) = length ls.
Proof.
  induction ls as [|l r IH]; [reflexivity|]. destruct r as [|l2 r]; [reflexivity|].
  change (give_ending_to_last eol (l :: l2 :: r)) with (l :: give_ending_to_last eol (l2 :: r)).
  cbn [List.length]. rewrite IH. reflexivity.
Qed.

(* insert_uses_style: the lines at positions idx .. idx + |texts| - 1 of the result are exactly the styled texts *)
Theorem insert_uses_style st idx texts ls ls' k t : insert st idx texts ls = Ok ls' ->
  nth_error texts k = Some t -> nth_error ls' (Z.to_nat idx + k) = Some (mk_inserted st t).
Proof.
  intros H Hk. apply insert_inv in H as [Hi ->].
  rewrite nth_error_app2; rewrite give_ending_length, firstn_length, Nat.min_l by (unfold zlen in Hi; lia); [|lia].
  replace (Z.to_nat idx + k - Z.to_nat idx)%nat with k by lia.
  rewrite nth_error_app1 by (rewrite map_length; apply nth_error_Some; congruence).
  rewrite nth_error_map, Hk. reflexivity.
Qed.
