(* Parser: klog/parser/parser.go `parse` (one block -> one record or errors) and the serial engine.
   Rune level (txt.Parseable works on []rune(line.Text)). Definitions only.
   Models the code after the fixes F2 (overflowing duration literals are parse errors, not panics),
   F3 (error line of a blank entry-summary continuation line), F9 (indentation error length in runes)
   and F10 (Parseable.Remainder runs to the end of the line). *)
From Klog Require Import Base.Prelude Base.Utf8 Model.Calendar Model.Values Model.Record Model.Lines.
Open Scope Z_scope.

Inductive ecode :=
| ErrorInvalidDate | ErrorIllegalIndentation | ErrorMalformedShouldTotal | ErrorUnrecognisedProperty
| ErrorMalformedPropertiesSyntax | ErrorUnrecognisedTextInHeadline | ErrorMalformedSummary
| ErrorMalformedEntry | ErrorDuplicateOpenRange | ErrorIllegalRange.

(* line: index within the block's lines (incl. leading blank lines); pos/len in runes *)
Record perr := { pe_line : nat; pe_pos : Z; pe_len : Z; pe_code : ecode }.
Definition mk_err (line : nat) (pos len : Z) (c : ecode) : perr :=
  {| pe_line := line; pe_pos := pos; pe_len := len; pe_code := c |}.

(* ---- unicode class Zs (space separators); checked against Go's unicode.Zs by the harness ---- *)
Definition is_zs (r : N) : bool :=
  ((r =? 32) || (r =? 160) || (r =? 5760) || ((8192 <=? r) && (r <=? 8202)) || (r =? 8239) || (r =? 8287) || (r =? 12288))%N.

Definition is_space_or_tab (r : N) : bool := ((r =? 32) || (r =? 9))%N.
Definition is_space (r : N) : bool := (r =? 32)%N.

(* ---- txt.Parseable ---- *)
Definition peek (cs : list N) (pos : nat) : N := nth pos cs rune_error.

(* PeekUntil: the runes from pos up to (excluding) the first one satisfying p; did one satisfy p? *)
Fixpoint until (p : N -> bool) (cs : list N) : list N * bool :=
  match cs with
  | [] => ([], false)
  | c :: r => if p c then ([], true) else let '(a, m) := until p r in (c :: a, m)
  end.
Definition peek_until (p : N -> bool) (cs : list N) (pos : nat) : list N * bool := until p (skipn pos cs).

(* SkipWhile *)
Fixpoint count_while (p : N -> bool) (cs : list N) : nat :=
  match cs with
  | c :: r => if p c then S (count_while p r) else O
  | [] => O
  end.
Definition skip_while (p : N -> bool) (cs : list N) (pos : nat) : nat := (pos + count_while p (skipn pos cs))%nat.

Definition zlen {A} (l : list A) : Z := Z.of_nat (length l).
Definition str (rs : list N) : bytes := utf8_encode rs.

(* NewDurationFromString as the parser calls it after F2: a panic (overflow) counts as "not a duration" *)
Definition parser_duration (s : bytes) : option duration :=
  match parse_duration s with Ok d => Some d | _ => None end.

(* ---- headline ---- *)
Inductive headline_result :=
| HeadNone (e : perr)                                     (* no record object: later lines are still parsed *)
| HeadRec (d : date) (should : option Z) (errs : list perr).

Definition parse_headline (ln : nat) (cs : list N) : headline_result :=
  if is_space_or_tab (peek cs 0) then HeadNone (mk_err ln 0 (zlen cs) ErrorIllegalIndentation) else
  let '(date_text, _) := peek_until is_space_or_tab cs 0 in
  match parse_date (str date_text) with
  | Ok d =>
    let p := skip_while is_space_or_tab cs (length date_text) in
    let after_props (should : option Z) (p : nat) : headline_result :=
      let p := skip_while is_space_or_tab cs p in
      if (Z.of_nat p <? zlen cs)
      then HeadRec d should [mk_err ln (Z.of_nat p) (zlen cs - Z.of_nat p) ErrorUnrecognisedTextInHeadline]
      else HeadRec d should [] in
    if (peek cs p =? ch_lpar)%N then
      let p := S p in
      let p := skip_while is_space_or_tab cs p in
      let '(all_props, has_close) := peek_until (fun c => (c =? ch_rpar)%N) cs p in
      if negb has_close then HeadRec d None [mk_err ln (zlen cs) 1 ErrorMalformedPropertiesSyntax]
      else if Nat.eqb (length all_props) 0 then HeadRec d None [mk_err ln (Z.of_nat p) 1 ErrorMalformedPropertiesSyntax]
      else
        let '(st_text, has_excl) := peek_until (fun c => (c =? ch_excl)%N) cs p in
        if negb has_excl then HeadRec d None [mk_err ln (Z.of_nat p) (zlen st_text - 1) ErrorUnrecognisedProperty]
        else match parser_duration (str st_text) with
             | None => HeadRec d None [mk_err ln (Z.of_nat p) (zlen st_text) ErrorMalformedShouldTotal]
             | Some dur =>
               let p := (p + length st_text + 1)%nat in
               let p := skip_while is_space_or_tab cs p in
               if negb (peek cs p =? ch_rpar)%N
               then HeadRec d (Some (d_mins dur)) [mk_err ln (Z.of_nat p) (zlen cs - Z.of_nat p - 1) ErrorUnrecognisedProperty]
               else after_props (Some (d_mins dur)) (S p)
             end
    else after_props None p
  | _ => HeadNone (mk_err ln 0 (zlen date_text) ErrorInvalidDate)
  end.

(* ---- entry value ---- *)
Inductive entry_value_result :=
| EvErr (e : perr)
| EvDur (d : duration) (pos : nat)
| EvRange (r : range) (pos : nat)
| EvOpen (o : open_range) (start_pos : nat) (pos : nat).

Definition is_dash_or_space (c : N) : bool := ((c =? ch_minus) || (c =? 32))%N.

Definition parse_entry_value (ln : nat) (cs : list N) (p0 : nat) : entry_value_result :=
  let '(dur_cand, _) := peek_until is_space_or_tab cs p0 in
  match parser_duration (str dur_cand) with
  | Some d => EvDur d (p0 + length dur_cand)
  | None =>
    let '(start_cand, _) := peek_until is_dash_or_space cs p0 in
    if Nat.eqb (length start_cand) 0 then EvErr (mk_err ln (Z.of_nat p0) (zlen dur_cand) ErrorMalformedEntry) else
    match parse_time (str start_cand) with
    | Ok start =>
      let p1 := (p0 + length start_cand)%nat in
      let p2 := skip_while is_space cs p1 in
      let spaces := negb (Nat.eqb p1 p2) in
      if negb (peek cs p2 =? ch_minus)%N then EvErr (mk_err ln (Z.of_nat p2) 1 ErrorMalformedEntry) else
      let p3 := skip_while is_space cs (S p2) in
      if (peek cs p3 =? ch_q)%N then
        let p4 := S p3 in
        let '(rep, _) := peek_until is_space_or_tab cs p4 in
        if forallb (fun c => (c =? ch_q)%N) rep
        then EvOpen {| o_start := start; o_spaces := spaces; o_extra := length rep |} p0 (p4 + length rep)
        else EvErr (mk_err ln (Z.of_nat p4) (zlen rep) ErrorMalformedEntry)
      else
        let '(end_cand, _) := peek_until is_space_or_tab cs p3 in
        if Nat.eqb (length end_cand) 0 then EvErr (mk_err ln (Z.of_nat p3) 1 ErrorMalformedEntry) else
        match parse_time (str end_cand) with
        | Ok e =>
          let p5 := (p3 + length end_cand)%nat in
          match new_range start e spaces with
          | Ok r => EvRange r p5
          | _ => EvErr (mk_err ln (Z.of_nat p0) (Z.of_nat p5 - Z.of_nat p0) ErrorIllegalRange)
          end
        | _ => EvErr (mk_err ln (Z.of_nat p3) (zlen end_cand) ErrorMalformedEntry)
        end
    | _ => EvErr (mk_err ln (Z.of_nat p0) (zlen start_cand) ErrorMalformedEntry)
    end
  end.

(* entrySummaryLinePattern ^[\p{Zs}\t]*$ on the re-encoded text = all runes blank characters *)
Definition all_blank_runes (rs : list N) : bool := forallb (fun c => is_zs c || (c =? 9)%N) rs.

(* continuation lines of an entry summary: returns (summary lines so far, error, remaining lines, line index) *)
Fixpoint parse_entry_summary_more (style : bytes) (ln : nat) (ls : list line) (acc : list bytes)
  : list bytes * option perr * list line * nat :=
  match ls with
  | [] => (acc, None, [], ln)
  | l :: rest =>
    if has_prefix (style ++ style) (l_text l) then
      let cs := utf8_decode (l_text l) in
      let text := skipn (2 * length style) cs in
      if Nat.eqb (length text) 0 || all_blank_runes text
      then (acc, Some (mk_err ln 0 (zlen cs) ErrorMalformedSummary), rest, S ln)
      else parse_entry_summary_more style (S ln) rest (acc ++ [str text])
    else (acc, None, ls, ln)
  end.

(* ---- entries ---- *)
Definition has_open_entry (es : list entry) : bool := existsb is_open es.

(* fuel-free: structural on the list of lines via an inner continuation over [rest] is awkward because an
   entry consumes a variable number of lines; recursion on fuel = number of lines *)
Fixpoint parse_entries (fuel : nat) (style : bytes) (ln : nat) (ls : list line) (es : list entry) (errs : list perr)
  : list entry * list perr :=
  match fuel with
  | O => (es, errs)
  | S k =>
    match ls with
    | [] => (es, errs)
    | l :: rest =>
      let cs := utf8_decode (l_text l) in
      if negb (has_prefix style (l_text l)) || is_space_or_tab (peek cs (length style))
      then (es, errs ++ [mk_err ln 0 (zlen cs) ErrorIllegalIndentation])
      else
        match parse_entry_value ln cs (length style) with
        | EvErr e => parse_entries k style (S ln) rest es (errs ++ [e])
        | ev =>
          let pos := match ev with EvDur _ p => p | EvRange _ p => p | EvOpen _ _ p => p | EvErr _ => O end in
          let first := if is_space_or_tab (peek cs pos) then [str (skipn (S pos) cs)] else [[]] in
          let '(summary, serr, rest', ln') := parse_entry_summary_more style (S ln) rest first in
          match serr with
          | Some e => parse_entries k style ln' rest' es (errs ++ [e])
          | None =>
            match ev with
            | EvDur d _ => parse_entries k style ln' rest' (es ++ [{| e_value := VDuration d; e_summary := summary |}]) errs
            | EvRange r _ => parse_entries k style ln' rest' (es ++ [{| e_value := VRange r; e_summary := summary |}]) errs
            | EvOpen o sp p =>
              if has_open_entry es
              then (* the cursor has moved past the blank that introduces the summary, if there is one *)
                   let p' := if is_space_or_tab (peek cs p) then S p else p in
                   parse_entries k style ln' rest' es (errs ++ [mk_err ln (Z.of_nat sp) (Z.of_nat p' - Z.of_nat sp) ErrorDuplicateOpenRange])
              else parse_entries k style ln' rest' (es ++ [{| e_value := VOpen o; e_summary := summary |}]) errs
            | EvErr _ => (es, errs)
            end
          end
        end
    end
  end.

(* ---- record summary lines ---- *)
Fixpoint parse_summary_lines (ln : nat) (ls : list line) (acc : list bytes) (errs : list perr)
  : list bytes * list perr * option bytes * list line * nat :=
  match ls with
  | [] => (acc, errs, None, [], ln)
  | l :: rest =>
    match find_indentation (l_text l) with
    | Some style => (acc, errs, Some style, ls, ln)
    | None =>
      let cs := utf8_decode (l_text l) in
      let bad := match cs with c :: _ => is_zs c || (c =? 9)%N | [] => true end in
      if bad then parse_summary_lines (S ln) rest [] (errs ++ [mk_err ln 0 (zlen cs) ErrorMalformedSummary])
      else parse_summary_lines (S ln) rest (acc ++ [str cs]) errs
    end
  end.

(* ---- one block ---- *)
Definition dummy_date : date := {| dt := {| c_year := 0; c_month := 0; c_day := 0 |}; dt_dashes := true |}.

Definition parse_record (b : block) : outcome (record + list perr) :=
  let '(sig, head, _) := significant_lines b in
  match sig with
  | [] => Crash CIndexOutOfRange       (* lines[0] of a block without significant lines: unreachable *)
  | hl :: rest =>
    let '(d, should, errs0) :=
      match parse_headline head (utf8_decode (l_text hl)) with
      | HeadNone e => (dummy_date, None, [e])
      | HeadRec d s es => (d, s, es)
      end in
    let '(summary, errs1, style, rest1, ln1) := parse_summary_lines (S head) rest [] errs0 in
    let '(entries, errs2) :=
      match style with
      | Some st => parse_entries (length rest1) st ln1 rest1 [] errs1
      | None => ([], errs1)
      end in
    match errs2 with
    | [] => Ok (inl {| rec_date := d; rec_should := should; rec_summary := summary; rec_entries := entries |})
    | _ => Ok (inr errs2)
    end
  end.

(* ---- serial engine: SerialParser.Parse ---- *)
(* a reported error: overall 0-based line index, position, length, code, quoted line text *)
Record rerr := { re_line : nat; re_pos : Z; re_len : Z; re_code : ecode; re_text : bytes }.

Definition report (b : block) (e : perr) : rerr :=
  {| re_line := overall_line_index b (pe_line e); re_pos := pe_pos e; re_len := pe_len e; re_code := pe_code e;
     re_text := match nth_error (b_lines b) (pe_line e) with Some l => l_text l | None => [] end |}.

Inductive parse_result :=
| Parsed (rs : list record) (bs : list block)
| Failed (es : list rerr).

Fixpoint parse_blocks (bs : list block) (rs : list record) (es : list rerr) : outcome (list record * list rerr) :=
  match bs with
  | [] => Ok (rs, es)
  | b :: rest =>
    match parse_record b with
    | Ok (inl r) => parse_blocks rest (rs ++ [r]) es
    | Ok (inr errs) => parse_blocks rest rs (es ++ map (report b) errs)
    | Err e => Err e
    | Crash c => Crash c
    end
  end.

Definition parse_lines_blocks (bs : list block) : outcome parse_result :=
  match parse_blocks bs [] [] with
  | Ok (rs, []) => Ok (Parsed rs bs)
  | Ok (_, es) => Ok (Failed es)
  | Err e => Err e
  | Crash c => Crash c
  end.

Definition parse_text (s : bytes) : outcome parse_result := parse_lines_blocks (blocks_of s).
