(* C18 — colour and styling never change what is printed.
   Property theorems only; each is closed by [exact <lemma>] and followed by Print Assumptions.

   Vocabulary (defined in Model/Styler.v, Model/Table.v, Proofs/Styler.v, Proofs/Table.v):
   - [strip] is StripAllAnsiSequences (regexp \x1b\[[\d;]*m, leftmost, non-overlapping);
     [vis_len s] = rune count of [strip s] = the property's "number of visible characters";
   - [sgr_seq m]: m is one complete sequence ESC [ (digits and ;)* m;  [sgrs s]: s is a concatenation of them;
   - [theme_ok th]: every unit a styler of theme th can emit (reset, underline, bold, prefix+code+suffix
     for every code of its table) is a concatenation of complete sequences;
   - a document is a list of [piece]s (Plain text | Styled props kids); [render_doc th doc] nests
     Format / FormatAndRestore exactly like the Go code;
   - [spans a b]: a non-empty suffix of a and a non-empty prefix of b form one complete sequence;
   - [boundary_safe doc]: in the unstyled output no complete sequence begins before a style boundary
     of the document and ends after it;
   - [tidy s]: s does not end inside an incomplete escape sequence and its visible text does not end in
     a truncated UTF-8 sequence (any valid UTF-8 text without a dangling "ESC [ 1 2" tail is tidy);
   - [print_doc rs], [with_totals_doc pre lines]: the outputs of print / print --with-totals as documents
     (Model/TextSer.v, Proofs/TableDoc.v); [record_ok]: value texts without ESC, tags that start with a
     guard byte and are closed, summary text arbitrary;
   - [guard_text g]: non-empty, ESC-free, first byte cannot continue a sequence (not [ 0-9 ; m);
     [semi X]: the token list X is boundary-safe after any closed text when a guard byte follows;
   - [dop]: table operations whose cells are documents; [dop_op th] renders them for theme th. *)
From Klog Require Import Base.Prelude Base.Utf8 Model.Styler Model.Table Model.TextSer
  Proofs.Styler Proofs.Table Proofs.TextSer Proofs.TableDoc.
Open Scope nat_scope.

(* ---- 1. what a styler emits ---- *)

(* for every well-formed theme, everything Styler.seqs emits is a concatenation of complete SGR
   sequences, and StripAllAnsiSequences removes it entirely *)
Theorem C18_seqs_wellformed : forall th p, theme_ok th -> sgrs (seqs th p) /\ strip (seqs th p) = [].
Proof. exact (fun th p H => conj (seqs_sgrs th p H) (seqs_strip th p H)). Qed.
Print Assumptions C18_seqs_wellformed.

(* the four themes of colour_theme.go are well-formed; NewStyler returns nothing else *)
Theorem C18_themes_ok : forall name th, new_styler name = Ok th -> theme_ok th.
Proof. exact new_styler_ok. Qed.
Print Assumptions C18_themes_ok.

(* Format only wraps: a tidy text keeps its number of visible characters under every theme *)
Theorem C18_format_width : forall th p text, theme_ok th -> tidy text ->
  tidy (format th p text) /\ vis_len (format th p text) = vis_len text.
Proof. exact format_tidy. Qed.
Print Assumptions C18_format_width.

(* ---- 2. content neutrality ---- *)

(* removing the sequences from the styled output gives the same text as removing them from the
   unstyled output: for EVERY well-formed theme and every document tree *)
Theorem C18_strip_render : forall th doc, theme_ok th -> boundary_safe doc ->
  strip (render_doc th doc) = strip (render_doc no_colour doc).
Proof. exact strip_render. Qed.
Print Assumptions C18_strip_render.

(* boundary_safe is exactly the weakest hypothesis: it holds iff the conclusion holds for all
   well-formed themes (the dark theme alone already tells them apart) *)
Theorem C18_boundary_safe_weakest : forall doc,
  boundary_safe doc <->
  forall th, theme_ok th -> strip (render_doc th doc) = strip (render_doc no_colour doc).
Proof. exact boundary_safe_iff. Qed.
Print Assumptions C18_boundary_safe_weakest.

(* without it the statement is false: user text "ESC[3" directly followed by a styled "1mX" *)
Theorem C18_strip_render_unrestricted_refuted : exists th doc,
  theme_ok th /\ strip (render_doc th doc) <> strip (render_doc no_colour doc).
Proof. exact (ex_intro _ dark (ex_intro _ unsafe_doc (conj dark_ok strip_render_unsafe))). Qed.
Print Assumptions C18_strip_render_unrestricted_refuted.

(* documents whose own text contains no ESC byte are always safe, and stripping the styled output
   gives back the unstyled output itself *)
Theorem C18_strip_render_esc_free : forall th doc, theme_ok th -> Forall esc_free_piece doc ->
  boundary_safe doc /\ strip (render_doc th doc) = render_doc no_colour doc.
Proof. exact (fun th doc H F => conj (esc_free_boundary_safe doc F) (strip_render_esc_free th doc H F)). Qed.
Print Assumptions C18_strip_render_esc_free.

(* strip distributes over a concatenation unless a sequence straddles the seam; in particular when the
   left part does not end inside an incomplete sequence, and across any non-empty run of sequences *)
Theorem C18_strip_app : forall a b,
  (~ spans a b -> strip (a ++ b) = strip a ++ strip b) /\
  (closed a -> strip (a ++ b) = strip a ++ strip b) /\
  (forall s, sgrs s -> s <> [] -> strip (a ++ s ++ b) = strip a ++ strip b).
Proof. exact (fun a b => conj (strip_app_nospan a b) (conj (strip_app_closed a b) (fun s => strip_app_sgrs a s b))). Qed.
Print Assumptions C18_strip_app.

(* strip is NOT idempotent in general (also with the pattern of 332f4bb): removing ESC[0m from
   ESC[ ESC[0m 3m leaves ESC[3m *)
Theorem C18_strip_idempotent_refuted : exists s, strip (strip s) <> strip s.
Proof. exact (ex_intro _ idem_witness strip_not_idempotent). Qed.
Print Assumptions C18_strip_idempotent_refuted.

(* partial: it is idempotent whenever the first pass leaves no ESC byte behind — in particular on
   the styled rendering of every ESC-free document (missing: an exact characterisation of the
   texts on which a second pass still finds a sequence) *)
Theorem C18_strip_idempotent_partial :
  (forall s, esc_free (strip s) -> strip (strip s) = strip s) /\
  (forall th doc, theme_ok th -> Forall esc_free_piece doc ->
     strip (strip (render_doc th doc)) = strip (render_doc th doc)).
Proof.
  exact (conj strip_idempotent_esc_free
           (fun th doc H F => strip_idempotent_esc_free _
              (eq_ind_r esc_free
                 (eq_ind_r esc_free (esc_free_text _ (esc_free_flatten_doc doc F)) (render_doc_no_colour doc))
                 (strip_render_esc_free th doc H F)))).
Qed.
Print Assumptions C18_strip_idempotent_partial.

(* the output of `klog print` (TextSerialiser + serialiseRecord + Print.Run as a document tree) is
   boundary-safe for EVERY list of records: value texts (dates, durations, ranges) contain no ESC, tags
   start with a byte that cannot continue a sequence ('#') and do not end inside an incomplete one
   (ESC can only stand inside a quoted value); the summary text between the tags is ARBITRARY bytes *)
Theorem C18_print_boundary_safe : forall rs, Forall record_ok rs -> boundary_safe (print_doc rs).
Proof. exact print_boundary_safe. Qed.
Print Assumptions C18_print_boundary_safe.

(* print --with-totals: every non-blank line of the print output preceded by an ESC-free prefix (padding
   and a styled duration) and a bar — boundary-safe for every list of records as well *)
Theorem C18_print_totals_boundary_safe : forall pre rs,
  Forall (Forall esc_free_piece) pre -> Forall record_ok rs ->
  boundary_safe (with_totals_doc pre (records_lines rs)).
Proof. exact print_totals_safe. Qed.
Print Assumptions C18_print_totals_boundary_safe.

(* report, tags, today: a table whose cells are documents prints, under every theme, the rendering of
   ONE document (same column widths, same padding); with a guard separator (klog: one blank), ESC-free
   fill patterns (klog: =) and cells that are safe before a guard, the stripped outputs coincide —
   whatever bytes the styled texts contain *)
Theorem C18_tables_neutral : forall th cols sep ops t t0 out out0,
  theme_ok th -> guard_text sep -> Forall dop_ok ops ->
  build cols sep (map (dop_op th) ops) = Ok t -> collect t = Ok out ->
  build cols sep (map (dop_op no_colour) ops) = Ok t0 -> collect t0 = Ok out0 ->
  strip out = strip out0.
Proof. exact tables_neutral. Qed.
Print Assumptions C18_tables_neutral.

(* the cells klog puts into its tables are safe before a guard: ESC-free documents (dates, durations,
   counts, headers, "#"+tag name), a styled text of arbitrary content, and an ESC-free text followed by
   a styled text of arbitrary content (" " + Format(tag value) in `klog tags --values`) *)
Theorem C18_table_cell_shapes :
  (forall d, Forall esc_free_piece d -> semi (flatten_doc d)) /\
  (forall p v, semi (flatten_doc [Styled p [Plain v]])) /\
  (forall t0 p v, esc_free t0 -> semi (flatten_doc [Plain t0; Styled p [Plain v]])).
Proof. exact (conj semi_esc_free (conj semi_styled_any semi_styled_tail)). Qed.
Print Assumptions C18_table_cell_shapes.

(* the commands: content neutrality under every well-formed theme of the print output, of the
   print --with-totals output and of every table of the above kind; `klog total` prints an ESC-free
   document (C18_strip_render_esc_free).
   partial: that the outputs of total, report, tags and today ARE documents of these shapes is read off
   the Go code and exercised by the end-to-end suite `cli`; a model-level correspondence exists for
   `print` (suite print) and for tables in general (suite table) only *)
Theorem C18_commands_neutral_partial : forall th, theme_ok th ->
  (forall rs, Forall record_ok rs ->
     strip (render_doc th (print_doc rs)) = strip (render_doc no_colour (print_doc rs))) /\
  (forall pre rs, Forall (Forall esc_free_piece) pre -> Forall record_ok rs ->
     strip (render_doc th (with_totals_doc pre (records_lines rs)))
     = strip (render_doc no_colour (with_totals_doc pre (records_lines rs)))) /\
  (forall cols sep ops t t0 out out0, guard_text sep -> Forall dop_ok ops ->
     build cols sep (map (dop_op th) ops) = Ok t -> collect t = Ok out ->
     build cols sep (map (dop_op no_colour) ops) = Ok t0 -> collect t0 = Ok out0 ->
     strip out = strip out0).
Proof.
  exact (fun th H => conj (fun rs Hr => print_neutral th rs H Hr)
           (conj (fun pre rs Hp Hr => strip_render th _ H (print_totals_safe pre rs Hp Hr))
                 (fun cols sep ops t t0 out out0 Hs Ho => tables_neutral th cols sep ops t t0 out out0 H Hs Ho))).
Qed.
Print Assumptions C18_commands_neutral_partial.

(* strip removes every SGR sequence ESC [ (digit | ;)* m, parameters or not (in particular the reset
   ESC [ m, which the pattern of the code before 332f4bb missed: fixed finding K18): nothing of it is
   left, it shows zero characters, and what follows it is stripped as if it were not there *)
Theorem C18_strip_removes_every_sgr : forall m, sgr_seq m ->
  strip m = [] /\ vis_len m = 0 /\ forall r, strip (m ++ r) = strip r.
Proof. exact strip_removes_sgr. Qed.
Print Assumptions C18_strip_removes_every_sgr.

(* ---- 3. tables ---- *)

(* NewTable + any sequence of CellL / CellR / Skip / Fill with tidy cell texts (any theme's styling, any
   Unicode), fill patterns one visible character wide, a tidy separator, and a cell count that is a
   multiple of the column count: Collect does not panic, prints the rows one per line, and EVERY row
   shows exactly sum of column widths + (columns - 1) * |separator| visible characters *)
Theorem C18_table_rows_aligned : forall cols sep ops t,
  build cols sep ops = Ok t -> tidy sep -> Forall op_ok ops ->
  length (t_cells t) mod t_cols t = 0 ->
  exists rs, rows t = Ok rs /\ collect t = Ok (join nl rs ++ nl) /\
             length rs = length (t_cells t) / t_cols t /\
             Forall (fun r => vis_len r = sum (t_longest t) + (t_cols t - 1) * vis_len sep) rs.
Proof. exact table_aligned. Qed.
Print Assumptions C18_table_rows_aligned.

(* what happens otherwise: every row shows the widths of the columns it has (the last row may be short) *)
Theorem C18_table_rows : forall cols sep ops t,
  build cols sep ops = Ok t -> tidy sep -> Forall op_ok ops ->
  exists rs, rows t = Ok rs /\ collect t = Ok (join nl rs ++ nl) /\
             Forall2 (fun ch r => tidy r /\ vis_len r = row_width (t_longest t) (vis_len sep) 0 (length ch))
                     (chunk (t_cols t) (t_cells t)) rs /\
             t_sep t = sep /\ length (t_longest t) = t_cols t /\ 1 < t_cols t.
Proof. exact table_rows. Qed.
Print Assumptions C18_table_rows.

(* the same table under two themes (cells = optional style + tidy text): identical column widths and
   cell counts, and with full rows every row of either rendering shows the same number of characters *)
Theorem C18_table_theme_independent : forall th1 th2 cols sep sops t1 t2,
  theme_ok th1 -> theme_ok th2 -> tidy sep -> Forall sop_ok sops ->
  build cols sep (map (op_of th1) sops) = Ok t1 ->
  build cols sep (map (op_of th2) sops) = Ok t2 ->
  t_cols t1 = t_cols t2 /\ t_longest t1 = t_longest t2 /\ length (t_cells t1) = length (t_cells t2) /\
  (length (t_cells t1) mod t_cols t1 = 0 ->
   exists rs1 rs2, rows t1 = Ok rs1 /\ rows t2 = Ok rs2 /\ length rs1 = length rs2 /\
     forall r, In r (rs1 ++ rs2) -> vis_len r = sum (t_longest t1) + (t_cols t1 - 1) * vis_len sep).
Proof. exact table_theme_independent. Qed.
Print Assumptions C18_table_theme_independent.

(* "any Unicode cell content": a text is tidy as soon as it does not end inside an incomplete escape
   sequence and its visible part is valid UTF-8 (Go's decoder reports no invalid byte) *)
Theorem C18_valid_utf8_tidy : forall s, danglingb s = false -> utf8_validb (strip s) = true -> tidy s.
Proof. exact tidy_valid. Qed.
Print Assumptions C18_valid_utf8_tidy.

(* the two preconditions are needed: three cells in two columns give rows of 3 and 1 characters;
   a two-character fill pattern gives rows of 6 and 11 *)
Theorem C18_table_ragged_refuted : exists t rs,
  build 2 b!" " ragged_ops = Ok t /\ rows t = Ok rs /\ map vis_len rs = [3; 1].
Proof. exact table_ragged. Qed.
Print Assumptions C18_table_ragged_refuted.

Theorem C18_table_wide_fill_refuted : exists t rs,
  build 2 b!" " [OCellL b!"abc"; OCellL b!"x"; OFill b!"=-"; OFill b!"=-"] = Ok t /\ rows t = Ok rs /\
  map vis_len rs = [6; 11].
Proof. exact table_wide_fill. Qed.
Print Assumptions C18_table_wide_fill_refuted.

(* ---- non-vacuity ---- *)

(* the parameterless reset and a 256-colour sequence are SGR sequences *)
Example C18_nonvacuous_sgr : sgr_seq (c_esc :: b!"[m") /\ sgr_seq (c_esc :: b!"[38;5;120m").
Proof. split; [exact sgr_seq_reset|exists b!"38;5;120"; split; reflexivity]. Qed.

(* a summary-shaped document: subdued text with a bold tag inside, user text that ends in an ESC
   fragment right before the tag and a text that starts with "1m" right after a quoted tag value:
   it is boundary-safe (the '#' and the closing quote guard the boundaries) *)
Example C18_nonvacuous_doc :
  boundary_safe
    [Styled (mk_props 2 0 false false)
       [Plain (b!"caf" ++ [195; 169; 32] ++ c_esc :: b!"[3")%N;
        Styled (mk_props 2 0 true false) [Plain (b!"#t='" ++ c_esc :: b!"[4'")%N];
        Plain b!"1m done"];
     Plain b!"
"] /\ theme_ok dark /\ theme_ok basic.
Proof. split; [apply boundary_safeb_spec; vm_compute; reflexivity|split; [exact dark_ok|exact basic_ok]]. Qed.

(* a record whose summaries carry ESC fragments right next to tags meets record_ok *)
Example C18_nonvacuous_record :
  record_ok (mk_record b!"2024-03-15" b!"8h!"
               [[(false, (b!"note " ++ c_esc :: b!"[3")%N); (true, (b!"#t='" ++ c_esc :: b!"[4'")%N); (false, b!"1m")]]
               [mk_entry KDuration b!"-1h30m" [[(false, (b!"x" ++ [c_esc])%N)]; [(true, b!"#1m"); (false, [c_esc; c_lbr])]]]).
Proof.
  split; [apply esc_freeb_ok; reflexivity|]. split; [apply esc_freeb_ok; reflexivity|]. split.
  - constructor; [|constructor]. constructor; [discriminate|]. constructor; [|constructor; [discriminate|constructor]].
    intros _. apply tag_ok_hash. reflexivity.
  - constructor; [|constructor]. split; [apply esc_freeb_ok; reflexivity|].
    constructor; [constructor; [discriminate|constructor]|].
    constructor; [|constructor]. constructor; [intros _; apply tag_ok_hash; reflexivity|].
    constructor; [discriminate|constructor].
Qed.

(* the `klog tags --values` table of a file with the tag #e="ESC[3": name row, value row *)
Example C18_nonvacuous_tags_table :
  guard_text b!" " /\
  Forall dop_ok [DCell false [Plain b!"#e"]; DCell false [Styled pr_green [Plain b!"3h"]]; DSkip 1;
                 DCell false [Plain b!" "; Styled pr_summary [Plain (c_esc :: b!"[3")]]; DSkip 1;
                 DCell false [Styled pr_green [Plain b!"1h"]]].
Proof.
  split; [split; [discriminate|split; [reflexivity|apply esc_freeb_ok; reflexivity]]|].
  assert (E : forall p t, esc_freeb t = true -> semi (flatten_doc [Styled p [Plain t]])) by (intros; apply semi_styled_any).
  constructor; [apply semi_esc_free; constructor; [constructor; apply esc_freeb_ok; reflexivity|constructor]|].
  constructor; [now apply E|]. constructor; [exact I|].
  constructor; [apply semi_styled_tail, esc_freeb_ok; reflexivity|]. constructor; [exact I|].
  constructor; [now apply E|constructor].
Qed.

(* Unicode cell content (2-, 3- and 4-byte characters, with an embedded complete sequence) is tidy *)
Example C18_nonvacuous_unicode :
  tidy (b!"caf" ++ [195; 169; 32] ++ c_esc :: b!"[1m" ++ [232; 170; 173; 240; 159; 142; 137])%N.
Proof. apply tidy_valid; vm_compute; reflexivity. Qed.

(* a table with a styled right-aligned Unicode cell, a skip and fills meets the hypotheses *)
Example C18_nonvacuous_table :
  tidy b!" " /\
  Forall op_ok [OCellL b!"#tag"; OCellR (format dark (mk_props 4 0 false false) (b!"1h" ++ [195; 169])%N);
                OSkip 1; OFill b!"="].
Proof.
  assert (Hsp : tidy b!" ") by (apply (tidy_ascii b!" "); repeat constructor; discriminate).
  assert (Htag : tidy b!"#tag") by (apply (tidy_ascii b!"#tag"); repeat constructor; discriminate).
  assert (Heq : tidy b!"=" /\ vis_len b!"=" = 1) by (apply (tidy_ascii b!"="); repeat constructor; discriminate).
  assert (Hu : tidy (b!"1h" ++ [195; 169])%N).
  { apply tidy_app; [apply (tidy_ascii b!"1h"); repeat constructor; discriminate|].
    split; [reflexivity|]. change (strip [195; 169]%N) with ([195; 169] ++ [])%N.
    constructor; [|constructor]. split; [discriminate|]. intros x. reflexivity. }
  split; [exact Hsp|].
  constructor; [exact Htag|]. constructor; [exact (proj1 (format_tidy dark _ _ dark_ok Hu))|].
  constructor; [exact I|]. constructor; [exact Heq|constructor].
Qed.
