(* ErrorRender: the position-dependent parts of the two renderings of a parsing error.
   (a) terminal: klog/app/cli/util/prettifier.go PrettifyParsingError — " in line %d" with e.LineNumber(),
       INDENT + strings.Replace(e.LineText(), "\t", " ", -1), INDENT + strings.Repeat(" ", e.Position())
       + strings.Repeat("^", e.Length());
   (b) JSON: klog/parser/json/serialiser.go toErrorViews — Line = e.LineNumber(), Column = e.Column(), Length = e.Length();
   with the accessors of klog/parser/txt/error.go: LineNumber() = context.OverallLineIndex(line) + 1,
   LineText() = context.Lines()[line].Text, Column() = position + 1.
   Definitions only. A txt.Error holds its block (context) and three Go ints (line, position, length): the functions
   below take an ARBITRARY triple, and the two panics are explicit: indexing Lines() out of range
   (Crash CIndexOutOfRange) and strings.Repeat with a negative count (Crash CNegativeRepeat).
   Not modelled: colours (C18), the message text (title/details, file name), the reflowing of the message.
   Go's int arithmetic (line + 1, position + 1) is modelled in Z: for errors the parser produces these values are
   bounded by the size of the text, far from 2^63. *)
From Klog Require Import Base.Prelude Base.Utf8 Model.Lines Model.Parser.
Open Scope Z_scope.

(* err.LineText(): e.context.Lines()[e.line].Text *)
Definition line_text (b : block) (line : Z) : outcome bytes :=
  if line <? 0 then Crash CIndexOutOfRange else
  match nth_error (b_lines b) (Z.to_nat line) with
  | Some l => Ok (l_text l)
  | None => Crash CIndexOutOfRange
  end.

(* err.LineNumber(): the 1-based number an editor shows *)
Definition line_number (b : block) (line : Z) : Z := Z.of_nat (b_preceding b) + line + 1.

(* strings.Repeat(string(c), count) for a one-byte string: "strings: negative Repeat count" *)
Definition go_repeat (c : N) (count : Z) : outcome bytes :=
  if count <? 0 then Crash CNegativeRepeat else Ok (repeat c (Z.to_nat count)).

(* strings.Replace(s, "\t", " ", -1) *)
Definition replace_tabs (s : bytes) : bytes := map (fun c => if (c =? 9)%N then 32%N else c) s.

Definition render_indent : bytes := [32; 32; 32; 32]%N.

(* what the terminal shows for one error: the line number, the quoted line, the caret row *)
Record term_view := { tv_line_number : Z; tv_quoted : bytes; tv_caret_row : bytes }.

(* Go evaluates the arguments in this order: LineNumber, LineText, Repeat(" ", pos), Repeat("^", len) *)
Definition render_terminal (b : block) (line pos len : Z) : outcome term_view :=
  let n := line_number b line in
  let* text := line_text b line in
  let* spaces := go_repeat 32 pos in
  let* carets := go_repeat 94 len in
  Ok {| tv_line_number := n;
        tv_quoted := render_indent ++ replace_tabs text;
        tv_caret_row := render_indent ++ spaces ++ carets |}.

(* reading the caret row the way a person (and the harness: ^    ( * )(\^* )$) does:
   blanks after the indentation, number of carets *)
Definition caret_offset (row : bytes) : Z :=
  Z.of_nat (count_while (fun c => (c =? 32)%N) (skipn (length render_indent) row)).
Definition caret_count (row : bytes) : Z :=
  Z.of_nat (length (filter (fun c => (c =? 94)%N) row)).

(* json.ErrorView (position-dependent fields) *)
Record error_view := { ev_line : Z; ev_column : Z; ev_length : Z }.

Definition json_error_view (b : block) (line pos len : Z) : error_view :=
  {| ev_line := line_number b line; ev_column := pos + 1; ev_length := len |}.

(* ---- the errors of a text with their context, as the Go parser returns them ([]txt.Error) ---- *)
Definition err_ctx : Type := block * perr.

Definition block_error_ctxs (b : block) : list err_ctx :=
  match parse_record b with
  | Ok (inr errs) => map (pair b) errs
  | _ => []
  end.

Definition text_errors (s : bytes) : list err_ctx := flat_map block_error_ctxs (blocks_of s).

(* Model/Parser.v's reported error is the projection of an error with context *)
Definition ctx_report (c : err_ctx) : rerr := report (fst c) (snd c).

Definition terminal_of (c : err_ctx) : outcome term_view :=
  render_terminal (fst c) (Z.of_nat (pe_line (snd c))) (pe_pos (snd c)) (pe_len (snd c)).

Definition json_of (c : err_ctx) : error_view :=
  json_error_view (fst c) (Z.of_nat (pe_line (snd c))) (pe_pos (snd c)) (pe_len (snd c)).

(* PrettifyParsingError: one message for all errors; a panic in any of them is a panic of the whole *)
Fixpoint prettify_all (cs : list err_ctx) : outcome (list term_view) :=
  match cs with
  | [] => Ok []
  | c :: r => let* v := terminal_of c in let* vs := prettify_all r in Ok (v :: vs)
  end.

(* toErrorViews *)
Definition error_views (cs : list err_ctx) : list error_view := map json_of cs.
