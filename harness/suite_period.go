package main

// Suite "period" (C15): calendar observables of klog.Date and of klog/service/period,
// printed exactly like coq/Model/SuitePeriod.v.

import (
	"strconv"
	"strings"

	"github.com/jotaen/klog/klog"
	"github.com/jotaen/klog/klog/service/period"
)

func showCd(d klog.Date) string {
	return strconv.Itoa(d.Year()) + "-" + strconv.Itoa(d.Month()) + "-" + strconv.Itoa(d.Day())
}

// tok evaluates one observable; a panic inside it becomes the token "crash".
func tok(f func() string) (out string) {
	defer func() {
		if r := recover(); r != nil {
			out = "crash"
		}
	}()
	return f()
}

func showPeriod(p period.Period) string {
	return showCd(p.Since()) + "/" + showCd(p.Until())
}

func u32(x uint32) string { return strconv.FormatUint(uint64(x), 10) }

func init() {
	register("cal-date", func(a []string) string {
		y, _ := strconv.Atoi(a[0])
		m, _ := strconv.Atoi(a[1])
		dd, _ := strconv.Atoi(a[2])
		d, err := klog.NewDate(y, m, dd)
		if err != nil {
			return "err"
		}
		iy, iw := d.WeekNumber()
		out := []string{"ok", strconv.Itoa(d.Weekday()), strconv.Itoa(iy), strconv.Itoa(iw), strconv.Itoa(d.Quarter())}
		for _, n := range []int{1, -1, 7, -7, -25, -80} {
			n := n
			out = append(out, tok(func() string { return showCd(d.PlusDays(n)) }))
		}
		out = append(out,
			tok(func() string { return showPeriod(period.NewWeekFromDate(d).Period()) }),
			tok(func() string { return showPeriod(period.NewMonthFromDate(d).Period()) }),
			tok(func() string { return showPeriod(period.NewQuarterFromDate(d).Period()) }),
			tok(func() string { return showPeriod(period.NewYearFromDate(d).Period()) }),
			tok(func() string { return showPeriod(period.NewWeekFromDate(d).Previous().Period()) }),
			tok(func() string { return showPeriod(period.NewMonthFromDate(d).Previous().Period()) }),
			tok(func() string { return showPeriod(period.NewQuarterFromDate(d).Previous().Period()) }),
			tok(func() string { return showPeriod(period.NewYearFromDate(d).Previous().Period()) }),
			tok(func() string { return u32(uint32(period.NewDayFromDate(d).Hash())) }),
			tok(func() string { return u32(uint32(period.NewWeekFromDate(d).Hash())) }),
			tok(func() string { return u32(uint32(period.NewMonthFromDate(d).Hash())) }),
			tok(func() string { return u32(uint32(period.NewQuarterFromDate(d).Hash())) }),
			tok(func() string { return u32(uint32(period.NewYearFromDate(d).Hash())) }),
		)
		return strings.Join(out, " ")
	})
	register("cal-basic", func(a []string) string {
		y, _ := strconv.Atoi(a[0])
		m, _ := strconv.Atoi(a[1])
		dd, _ := strconv.Atoi(a[2])
		d, err := klog.NewDate(y, m, dd)
		if err != nil {
			return "err"
		}
		iy, iw := d.WeekNumber()
		return strings.Join([]string{"ok", strconv.Itoa(d.Weekday()), strconv.Itoa(iy), strconv.Itoa(iw), strconv.Itoa(d.Quarter()),
			tok(func() string { return u32(uint32(period.NewDayFromDate(d).Hash())) }),
			tok(func() string { return u32(uint32(period.NewWeekFromDate(d).Hash())) }),
			tok(func() string { return u32(uint32(period.NewMonthFromDate(d).Hash())) }),
			tok(func() string { return u32(uint32(period.NewQuarterFromDate(d).Hash())) }),
			tok(func() string { return u32(uint32(period.NewYearFromDate(d).Hash())) }),
		}, " ")
	})
	register("cal-plus", func(a []string) string {
		y, _ := strconv.Atoi(a[0])
		m, _ := strconv.Atoi(a[1])
		dd, _ := strconv.Atoi(a[2])
		n, _ := strconv.Atoi(a[3])
		d, err := klog.NewDate(y, m, dd)
		if err != nil {
			return "err"
		}
		return "ok " + tok(func() string { return showCd(d.PlusDays(n)) })
	})
	register("period-pattern", func(a []string) string {
		p, err := period.NewPeriodFromPatternString(argBytes(a[0]))
		if err != nil {
			return "err"
		}
		return "ok " + showPeriod(p)
	})
}
