package main

// Suite "bookmarks" (C19) and the JSON codec requests shared with C20.
// See coq/Model/SuiteBookmarks.v for the request formats.

import (
	"bytes"
	"encoding/json"
	"io"
	"os"
	"path/filepath"
	"regexp"
	"sort"
	"strconv"
	"strings"
	"unicode/utf8"

	"github.com/jotaen/klog/klog/app"
)

func bmHx(s string) string {
	if s == "" {
		return "-"
	}
	return hx(s)
}

// bmEncode encodes v the way klog's code configures the encoder (SetEscapeHTML(false), optional indent).
func bmEncode(v any, pretty bool) (string, error) {
	buf := new(bytes.Buffer)
	enc := json.NewEncoder(buf)
	if pretty {
		enc.SetIndent("", "  ")
	}
	enc.SetEscapeHTML(false)
	if err := enc.Encode(v); err != nil {
		return "", err
	}
	return buf.String(), nil
}

// bmOrdered is a JSON value that keeps the order of object members (decoding into `any` would lose it).
type bmOrdered struct {
	kind byte // 'a' array, 'o' object, 'v' anything else
	val  any
	arr  []bmOrdered
	keys []string
}

func (o bmOrdered) MarshalJSON() ([]byte, error) {
	switch o.kind {
	case 'a':
		if len(o.arr) == 0 {
			return []byte("[]"), nil
		}
		return bmMarshal(o.arr)
	case 'o':
		var b bytes.Buffer
		b.WriteByte('{')
		for i, k := range o.keys {
			if i > 0 {
				b.WriteByte(',')
			}
			kb, err := bmMarshal(k)
			if err != nil {
				return nil, err
			}
			b.Write(kb)
			b.WriteByte(':')
			vb, err := bmMarshal(o.arr[i])
			if err != nil {
				return nil, err
			}
			b.Write(vb)
		}
		b.WriteByte('}')
		return b.Bytes(), nil
	}
	return bmMarshal(o.val)
}

func bmMarshal(v any) ([]byte, error) {
	s, err := bmEncode(v, false)
	if err != nil {
		return nil, err
	}
	return []byte(strings.TrimSuffix(s, "\n")), nil
}

func bmReadOrdered(dec *json.Decoder) (bmOrdered, error) {
	t, err := dec.Token()
	if err != nil {
		return bmOrdered{}, err
	}
	if d, ok := t.(json.Delim); ok {
		switch d {
		case '[':
			o := bmOrdered{kind: 'a'}
			for dec.More() {
				e, err := bmReadOrdered(dec)
				if err != nil {
					return o, err
				}
				o.arr = append(o.arr, e)
			}
			_, err := dec.Token()
			return o, err
		case '{':
			o := bmOrdered{kind: 'o'}
			for dec.More() {
				k, err := dec.Token()
				if err != nil {
					return o, err
				}
				e, err := bmReadOrdered(dec)
				if err != nil {
					return o, err
				}
				o.keys = append(o.keys, k.(string))
				o.arr = append(o.arr, e)
			}
			_, err := dec.Token()
			return o, err
		}
	}
	return bmOrdered{kind: 'v', val: t}, nil
}

func bmJsonTokens(text string) string {
	if !json.Valid([]byte(text)) {
		return "err"
	}
	dec := json.NewDecoder(strings.NewReader(text))
	dec.UseNumber()
	out := []string{"ok"}
	for {
		t, err := dec.Token()
		if err == io.EOF {
			break
		}
		if err != nil {
			return "err"
		}
		switch v := t.(type) {
		case json.Delim:
			out = append(out, string(rune(v)))
		case string:
			out = append(out, "s"+bmHx(v))
		case json.Number:
			out = append(out, "n"+string(v))
		case bool:
			out = append(out, strconv.FormatBool(v))
		case nil:
			out = append(out, "null")
		}
	}
	return strings.Join(out, " ")
}

type bmDbEntry struct {
	Name *string `json:"name"`
	Path *string `json:"path"`
}

// bmDbView reads the database file with encoding/json, independently of klog's code.
func bmDbView(path string, scratch string) string {
	b, err := os.ReadFile(path)
	if err != nil || len(b) == 0 {
		return "-"
	}
	var es []bmDbEntry
	if err := json.Unmarshal(b, &es); err != nil {
		return "!"
	}
	if len(es) == 0 {
		return "-"
	}
	type pair struct{ n, p string }
	var ps []pair
	for _, e := range es {
		if e.Name == nil || e.Path == nil {
			ps = append(ps, pair{"?", "?"})
		} else {
			ps = append(ps, pair{*e.Name, bmCanon(*e.Path, scratch)})
		}
	}
	sort.SliceStable(ps, func(i, j int) bool { return ps[i].n < ps[j].n })
	var out []string
	for _, p := range ps {
		out = append(out, bmHx(p.n)+"="+bmHx(p.p))
	}
	return strings.Join(out, ",")
}

func bmCanon(s string, scratch string) string {
	return strings.ReplaceAll(s, scratch, "/S")
}

var bmTotalRe = regexp.MustCompile(`^Total: (?:(\d+)h)?(?:(\d+)m)?\n`)

func bmShowColl(bc app.BookmarksCollection) string {
	if bc.Count() == 0 {
		return "-"
	}
	var out []string
	for _, b := range bc.All() {
		out = append(out, bmHx(b.Name().Value())+"="+bmHx(b.Target().Path()))
	}
	return strings.Join(out, ",")
}

func bmHistory(a []string, raw bool) string {
	nt, _ := strconv.Atoi(a[0])
	scratch := scratchDir()
	defer os.RemoveAll(scratch)
	if r, err := filepath.EvalSymlinks(scratch); err == nil {
		scratch = r
	}
	wd := filepath.Join(scratch, "w")
	if err := os.MkdirAll(wd, 0700); err != nil {
		panic(err)
	}
	old, err := os.Getwd()
	if err != nil {
		panic(err)
	}
	if err := os.Chdir(wd); err != nil {
		panic(err)
	}
	defer os.Chdir(old)
	// nothing may be piped to the command: klog reads stdin when no file argument is given
	devnull, err := os.Open(os.DevNull)
	if err != nil {
		panic(err)
	}
	oldStdin := os.Stdin
	os.Stdin = devnull
	defer func() { os.Stdin = oldStdin; devnull.Close() }()

	minutes := 1
	for i := 0; i < nt; i++ {
		f := strings.Split(a[1+i], ":")
		rel := argBytes(f[0])
		full := filepath.Join(wd, rel)
		switch f[1] {
		case "v":
			os.MkdirAll(filepath.Dir(full), 0700)
			writeFile(full, "2000-01-01\n\t"+strconv.Itoa(minutes)+"m\n")
		case "i":
			os.MkdirAll(filepath.Dir(full), 0700)
			writeFile(full, "this is not a klog file\n")
		}
		minutes *= 3
	}
	env := &cliEnv{Home: filepath.Join(scratch, "cfg"), Sticky: true, Env: map[string]string{"NO_COLOR": "1"}, NumCpus: 1}
	db := filepath.Join(scratch, "cfg", "bookmarks.json")
	argPath := func(mode, rel string) string {
		if mode == "a" {
			return wd + "/" + rel
		}
		return rel
	}
	var out []string
	for _, tok := range a[1+nt:] {
		f := strings.Split(tok, ":")
		var args []string
		resolve := false
		switch f[0] {
		case "s":
			args = []string{"bookmarks", "set"}
			if f[3] == "f" {
				args = append(args, "--force")
			}
			args = append(args, "--", argPath(f[2], argBytes(f[1])))
			if f[4] == "1" {
				args = append(args, argBytes(f[5]))
			}
		case "u":
			args = []string{"bookmarks", "unset", "--", argBytes(f[1])}
		case "c":
			args = []string{"bookmarks", "clear", "--yes"}
		case "l":
			args = []string{"bookmarks", "list"}
		case "i":
			args = []string{"bookmarks", "info"}
			if f[1] == "d" {
				args = append(args, "--dir")
			} else if f[1] == "f" {
				args = append(args, "--file")
			}
			args = append(args, "--", argBytes(f[2]))
		case "r":
			resolve = true
			args = []string{"total", "--"}
			for _, x := range f[1:] {
				args = append(args, argPath(x[:1], argBytes(x[1:])))
			}
		default:
			continue
		}
		step := safely(func() string {
			code, stdout, _ := runKlog(env, args...)
			if code != 0 {
				return strconv.Itoa(code) + ":-"
			}
			if resolve {
				m := bmTotalRe.FindStringSubmatch(stdout)
				if m == nil {
					return "0:?"
				}
				h, _ := strconv.Atoi("0" + m[1])
				mi, _ := strconv.Atoi("0" + m[2])
				return "0:" + strconv.Itoa(h*60+mi)
			}
			return "0:" + bmHx(bmCanon(stdout, scratch))
		})
		if strings.HasPrefix(step, "crash") {
			step = "crash:-"
		}
		if raw {
			// oracle-only variant: exit code and the database file itself
			content := ""
			if b, err := os.ReadFile(db); err == nil {
				content = bmCanon(string(b), scratch)
			}
			out = append(out, step[:strings.Index(step, ":")]+":"+bmHx(content))
		} else {
			out = append(out, step+":"+bmDbView(db, scratch))
		}
	}
	return strings.Join(out, " ")
}

func init() {
	register("json-str", func(a []string) string {
		s := argBytes(a[0])
		e, err := bmEncode(s, false)
		if err != nil {
			return "err"
		}
		e = strings.TrimSuffix(e, "\n")
		var back string
		if err := json.Unmarshal([]byte(e), &back); err != nil {
			return bmHx(e) + " err"
		}
		return bmHx(e) + " ok " + bmHx(back)
	})
	register("json-parse", func(a []string) string { return bmJsonTokens(argBytes(a[0])) })
	register("json-print", func(a []string) string {
		text := argBytes(a[0])
		if !json.Valid([]byte(text)) {
			return "err"
		}
		dec := json.NewDecoder(strings.NewReader(text))
		dec.UseNumber()
		v, err := bmReadOrdered(dec)
		if err != nil {
			return "err"
		}
		c, err1 := bmEncode(v, false)
		p, err2 := bmEncode(v, true)
		if err1 != nil || err2 != nil {
			return "err"
		}
		return "ok " + bmHx(c) + " " + bmHx(p)
	})
	register("bm-path", func(a []string) string {
		p := argBytes(a[0])
		// the model's working directory is /S/w; Abs of a relative path is Join(wd, p)
		abs := func(p string) string {
			q := filepath.Join(p)
			if filepath.IsAbs(q) {
				return filepath.Clean(q)
			}
			return filepath.Join("/S/w", q)
		}
		ab := abs(p)
		// the same through the real filepath.Abs, in the process's own working directory
		real1, _ := filepath.Abs(filepath.Join(p))
		real2, _ := filepath.Abs(filepath.Join(real1))
		wd, _ := os.Getwd()
		agree := real1 == bmAbs(wd, p)
		return strings.Join([]string{bmHx(filepath.Clean(p)), b01(filepath.IsAbs(p)), bmHx(filepath.Dir(p)), bmHx(filepath.Base(p)),
			bmHx(ab), b01(filepath.IsAbs(ab) && filepath.IsAbs(real1) && agree), b01(abs(ab) == ab && real2 == real1),
			b01(!utf8.ValidString(p) || (utf8.ValidString(ab) && (!utf8.ValidString(wd) || utf8.ValidString(real1))))}, " ")
	})
	register("bm-tojson", func(a []string) string {
		bc := app.NewEmptyBookmarksCollection()
		for i := 0; i+1 < len(a); i += 2 {
			bc.Set(app.NewBookmark(argBytes(a[i]), app.NewFileOrPanic(argBytes(a[i+1]))))
		}
		return bmHx(bc.ToJson())
	})
	register("bm-fromjson", func(a []string) string {
		bc, err := app.NewBookmarksCollectionFromJson(argBytes(a[0]))
		if err != nil {
			return "err"
		}
		return "ok " + bmShowColl(bc)
	})
	register("bm-history", func(a []string) string { return bmHistory(a, false) })
	register("bm-history-raw", func(a []string) string { return bmHistory(a, true) })
}

func bmAbs(wd, p string) string {
	q := filepath.Join(p)
	if filepath.IsAbs(q) {
		return filepath.Clean(q)
	}
	return filepath.Join(wd, q)
}
