(* parse() looks only at a block's lines: the numbering (b_preceding) of the blocks influences nothing but the
   reported line numbers. (The parallel engine renumbers the blocks after merging: parallel.go:81-85.) *)
From Klog Require Import Base.Prelude Base.Utf8 Model.Record Model.Lines Model.Parser.
Open Scope nat_scope.

Lemma parse_record_lines_only b1 b2 : b_lines b1 = b_lines b2 -> parse_record b1 = parse_record b2.
Proof. intros H. unfold parse_record, significant_lines. rewrite H. reflexivity. Qed.

(* two reported errors that differ at most in the line number, and by the blocks' offsets *)
Definition same_but_line (e1 e2 : rerr) : Prop :=
  re_pos e1 = re_pos e2 /\ re_len e1 = re_len e2 /\ re_code e1 = re_code e2 /\ re_text e1 = re_text e2.

Lemma report_lines_only b1 b2 e : b_lines b1 = b_lines b2 ->
  same_but_line (report b1 e) (report b2 e) /\
  re_line (report b1 e) + b_preceding b2 = re_line (report b2 e) + b_preceding b1.
Proof.
  intros H. unfold same_but_line, report, overall_line_index; cbn [re_line re_pos re_len re_code re_text].
  rewrite H. repeat split. lia.
Qed.

Lemma Forall2_app_same {A} (R : A -> A -> Prop) a1 a2 b1 b2 :
  Forall2 R a1 a2 -> Forall2 R b1 b2 -> Forall2 R (a1 ++ b1) (a2 ++ b2).
Proof. intros H1 H2. induction H1; cbn [app]; [exact H2|constructor; assumption]. Qed.

Lemma parse_blocks_renumber bs1 : forall bs2 rs es1 es2,
  map b_lines bs1 = map b_lines bs2 -> Forall2 same_but_line es1 es2 ->
  match parse_blocks bs1 rs es1, parse_blocks bs2 rs es2 with
  | Ok (r1, e1), Ok (r2, e2) => r1 = r2 /\ Forall2 same_but_line e1 e2
  | Err x, Err y => x = y
  | Crash x, Crash y => x = y
  | _, _ => False
  end.
Proof.
  induction bs1 as [|b1 bs1 IH]; intros bs2 rs es1 es2 Hm He; destruct bs2 as [|b2 bs2]; try discriminate Hm.
  - cbn [parse_blocks]. split; [reflexivity|exact He].
  - cbn [map] in Hm. injection Hm as Hb Hm. cbn [parse_blocks].
    rewrite (parse_record_lines_only b1 b2 Hb).
    destruct (parse_record b2) as [[r|errs]|x|x]; try reflexivity.
    + apply IH; assumption.
    + apply IH; [exact Hm|]. apply Forall2_app_same; [exact He|].
      induction errs as [|e errs IHe]; cbn [map]; constructor; [|exact IHe].
      exact (proj1 (report_lines_only b1 b2 e Hb)).
Qed.

(* renumbering the blocks changes neither the verdict, nor the records, nor position / length / code / quoted
   text of the errors *)
Theorem parse_renumber_insensitive bs1 bs2 : map b_lines bs1 = map b_lines bs2 ->
  match parse_lines_blocks bs1, parse_lines_blocks bs2 with
  | Ok (Parsed r1 k1), Ok (Parsed r2 k2) => r1 = r2 /\ k1 = bs1 /\ k2 = bs2
  | Ok (Failed e1), Ok (Failed e2) => Forall2 same_but_line e1 e2
  | Err x, Err y => x = y
  | Crash x, Crash y => x = y
  | _, _ => False
  end.
Proof.
  intros Hm. unfold parse_lines_blocks.
  pose proof (parse_blocks_renumber bs1 bs2 [] [] [] Hm (Forall2_nil _)) as H.
  destruct (parse_blocks bs1 [] []) as [[r1 e1]|x|x], (parse_blocks bs2 [] []) as [[r2 e2]|y|y]; try exact H; try contradiction.
  destruct H as [-> He]. destruct He as [|a b e1 e2 Hab He]; [repeat split|].
  constructor; assumption.
Qed.
