(* CommandsRefine: C04 — the mutating commands refine an abstract model on the parsed records, over
   specification-conforming files ([spec_file], Proofs/CommandsSpec.v). *)
From Klog Require Import Base.Prelude Base.Utf8 Model.Calendar Model.Values Model.Record Model.Lines Model.Parser
  Model.Tags Model.Serialiser Model.Reconcile Model.Commands Proofs.Lines Proofs.Parser Proofs.TagsUtf8 Proofs.Calendar
  Proofs.Values Spec.Spec Proofs.SpecValues Proofs.SpecEntry Proofs.SpecRecord Proofs.SpecDoc Proofs.Print
  Proofs.Style Proofs.Reconcile Proofs.Commands Proofs.Rounding Proofs.CommandsSpec.
From Coq Require Import ZifyBool Sorted.
Open Scope Z_scope.

(* ---------------------------------------------------------------- small facts *)

Lemma firstn_skipn_exact {A} (a b : list A) : firstn (length a) (a ++ b) = a /\ skipn (length a) (a ++ b) = b.
Proof.
  split.
  - rewrite firstn_app, Nat.sub_diag, firstn_all. cbn [firstn]. apply app_nil_r.
  - rewrite skipn_app, Nat.sub_diag, skipn_all. reflexivity.
Qed.

Lemma insert_at_split st A B texts :
  insert st (Z.of_nat (length A)) texts (A ++ B) =
  Ok (give_ending_to_last (sp_val (st_eol st)) A ++ map (mk_inserted st) texts ++ B).
Proof.
  rewrite insert_ok by (unfold zlen; rewrite app_length; lia). rewrite Nat2Z.id.
  destruct (firstn_skipn_exact A B) as [-> ->]. reflexivity.
Qed.

Lemma find_record_idx_nth d rs : forall i j, find_record_idx d rs i = Some j ->
  exists k r, j = (i + k)%nat /\ nth_error rs k = Some r /\ dt (rec_date r) = d /\
    forall k' r', (k' < k)%nat -> nth_error rs k' = Some r' -> dt (rec_date r') <> d.
Proof.
  induction rs as [|r rs IH]; intros i j H; [discriminate|].
  cbn [find_record_idx] in H. destruct (cdate_eqb (dt (rec_date r)) d) eqn:E.
  - injection H as <-. exists O, r. split; [lia|]. split; [reflexivity|]. split; [apply cdate_eqb_eq; exact E|].
    intros k' r' Hk. lia.
  - destruct (IH _ _ H) as (k & r' & -> & Hn & Hd & Hmin). exists (S k), r'. split; [lia|]. split; [exact Hn|]. split; [exact Hd|].
    intros k' r'' Hk Hn'. destruct k' as [|k']; [cbn in Hn'; injection Hn' as <-; intros Heq; rewrite Heq, cdate_eqb_refl in E; discriminate|].
    apply (Hmin k' r''); [lia|exact Hn'].
Qed.

Lemma nth_error_denote_recs recs i rg : nth_error recs i = Some rg -> nth_error (denote_recs recs) i = Some (denote_record (fst rg)).
Proof. intros H. unfold denote_recs. rewrite nth_error_map, H. reflexivity. Qed.

Lemma denote_recs_set_nth k r' gap recs : denote_recs (set_nth k (r', gap) recs) = set_nth k (denote_record r') (denote_recs recs).
Proof.
  revert k. induction recs as [|x recs IH]; intros k; [destruct k; reflexivity|].
  destruct k as [|k]; cbn [set_nth denote_recs map fst]; [reflexivity|]. f_equal. apply IH.
Qed.

Lemma repeat_bytes_1 s : repeat_bytes s 1 = s.
Proof. cbn [repeat_bytes]. apply app_nil_r. Qed.
Lemma repeat_bytes_2 s : repeat_bytes s 2 = s ++ s.
Proof. cbn [repeat_bytes]. rewrite app_nil_r. reflexivity. Qed.

Lemma utf8_encode_nonempty t : t <> [] -> utf8_encode t <> [].
Proof.
  destruct t as [|c t]; [contradiction|]. intros _. unfold utf8_encode. cbn [flat_map]. intros E.
  apply app_eq_nil in E as [E _]. exact (encode_rune_nonempty c E).
Qed.

(* ---------------------------------------------------------------- the reconciler of an existing record *)

Record at_record_facts (L lead : list line) (gs : list group) (recs : srecs) (i : nat) (rg : s_record * list text) (g : group)
  (rc : reconciler) : Prop := {
  arf_record : rc_record rc = denote_record (fst rg);
  arf_lines : rc_lines rc = L;
  arf_last : rc_last rc = Z.of_nat (length (before_group lead gs i ++ fst g));
  arf_eol : eol_ok (sp_val (st_eol (rc_style rc)));
  arf_indent : exists j, sp_val (st_indent (rc_style rc)) = indent_text j /\ (sr_entries (fst rg) <> [] -> j = sr_indent (fst rg));
  arf_style : exists b, In b (expect_blocks 0 lead gs) /\
     rc_style rc = elect (determine (denote_record (fst rg)) b) (denote_recs recs) (expect_blocks 0 lead gs) }.

Lemma expect_blocks_lines_in head gs : forall p b, In b (expect_blocks p head gs) ->
  forall l, In l (b_lines b) -> In l (head ++ flat_map group_lines gs).
Proof.
  revert head. induction gs as [|g gs IH]; intros head p b Hb l Hl; [destruct Hb|].
  cbn [expect_blocks] in Hb. cbn [flat_map]. unfold group_lines at 1. destruct Hb as [<-|Hb].
  - cbn [b_lines] in Hl. apply in_app_or in Hl as [Hl|Hl]; apply in_or_app; [left; exact Hl|right; apply in_or_app; left; exact Hl].
  - apply in_or_app. right. apply in_or_app. right. specialize (IH [] _ b Hb l Hl). exact IH.
Qed.

Theorem at_record_conforming L lead gs recs dd i rg g :
  conforms L lead gs recs ->
  find_record_idx dd (denote_recs recs) 0 = Some i -> nth_error recs i = Some rg -> nth_error gs i = Some g ->
  exists rc, reconciler_at_record dd (denote_recs recs) (expect_blocks 0 lead gs) = Some rc /\
             at_record_facts L lead gs recs i rg g rc.
Proof.
  intros C Hf Hrg Hg.
  pose proof (conforms_groups_ok _ _ _ _ C) as Gok.
  destruct (expect_blocks_nth gs Gok i g 0%nat lead (cf_lead _ _ _ _ C) Hg) as (b & Hb & Hsig & Hidx).
  unfold reconciler_at_record. rewrite Hf, (nth_error_denote_recs _ _ _ Hrg), Hb.
  eexists. split; [reflexivity|].
  assert (Hgs : gs <> []) by (intros ->; destruct i; discriminate).
  assert (Hend : forall b', In b' (expect_blocks 0 lead gs) -> endings_ok (b_lines b')).
  { intros b' Hb' l Hl. apply (lines_ok_endings L (cf_ok _ _ _ _ C)). rewrite (cf_lines _ _ _ _ C).
    exact (expect_blocks_lines_in lead gs _ b' Hb' l Hl). }
  destruct (Forall2_nth _ _ _ _ _ (cf_groups _ _ _ _ C) Hg) as (rg' & Hrg' & [Gs Gg]).
  rewrite Hrg in Hrg'. injection Hrg' as <-.
  assert (Wr : wf_record (fst rg) = true).
  { pose proof (cf_wf _ _ _ _ C) as W. rewrite forallb_forall in W. exact (W rg (nth_error_In _ _ Hrg)). }
  constructor; cbn [rc_record rc_lines rc_last rc_style].
  - reflexivity.
  - rewrite (flatten_expect_blocks gs 0 lead Hgs). symmetry. exact (cf_lines _ _ _ _ C).
  - rewrite Hidx, app_length. f_equal.
  - apply elect_eol_ok; [exact Hend|]. apply determine_eol_ok. apply Hend. exact (nth_error_In _ _ Hb).
  - destruct (sr_entries (fst rg)) as [|e0 es0] eqn:Ee.
    + destruct (elect_indent_ok (determine (denote_record (fst rg)) b) (denote_recs recs) (expect_blocks 0 lead gs)
                  (determine_indent_ok _ _)) as (j & Hj).
      exists j. split; [exact Hj|]. intros N. contradiction.
    + exists (sr_indent (fst rg)). split; [|reflexivity].
      rewrite elect_indent, ascertain_explicit; rewrite determine_indent, Hsig; cbn [fst];
        rewrite (first_some_indent_record (fst rg) (fst g) Wr Gs), Ee; reflexivity.
  - exists b. split; [exact (nth_error_In _ _ Hb)|reflexivity].
Qed.

(* ---------------------------------------------------------------- entries as command arguments *)

(* an entry as `track` receives it: the value with the summary text on one line, then the further summary lines *)
Definition entry_arg (se : s_entry) : list bytes :=
  utf8_encode (render_value (se_value se) ++ first_tail se) :: map utf8_encode (se_more se).

Definition no_cr_lines (ls : list bytes) : Prop := forallb no_cr ls = true.

(* the lines [insert] makes of a multi-line entry text, in a style with a proper line ending and indentation [j] *)
Lemma inserted_entry_lines st j (se : s_entry) (value : bytes) :
  eol_ok (sp_val (st_eol st)) -> sp_val (st_indent st) = indent_text j ->
  wf_entry se = true -> no_cr_lines (entry_arg se) ->
  let new := map (mk_inserted st) ((utf8_encode (render_value (se_value se) ++ first_tail se), 1%nat)
                                   :: map (fun s => (s, 2%nat)) (map utf8_encode (se_more se))) in
  map l_text new = map utf8_encode (entry_texts (indent_text j) se) /\
  forallb (line_ok false) new = true /\ new <> [] /\
  Forall (fun l => l_ending l = sp_val (st_eol st)) new.
Proof.
  intros He Hi We Hcr new.
  pose proof (entry_line_text_ok j se We) as Tok.
  destruct (entry_line_bytes j se We) as (c & x & Eb & Hc).
  pose proof We as We'. unfold wf_entry in We'. apply andb_true_iff in We' as [W1 Wm]. apply andb_true_iff in W1 as [Wv Wf].
  unfold no_cr_lines, entry_arg in Hcr. cbn [forallb] in Hcr. apply andb_true_iff in Hcr as [Hcr0 Hcrm].
  set (s0 := utf8_encode (render_value (se_value se) ++ first_tail se)) in *.
  assert (Es0 : indent_text j ++ s0 = utf8_encode (indent_text j ++ render_value (se_value se) ++ first_tail se)).
  { unfold s0. rewrite encode_indent. reflexivity. }
  assert (Hs0 : s0 <> []).
  { unfold s0. apply utf8_encode_nonempty. pose proof (render_value_head (se_value se) Wv) as Hh.
    destruct (render_value (se_value se)); [contradiction|discriminate]. }
  (* the first line *)
  assert (L0 : mk_inserted st (s0, 1%nat) = {| l_text := indent_text j ++ s0; l_ending := sp_val (st_eol st) |}).
  { rewrite mk_inserted_line; [rewrite Hi, repeat_bytes_1; reflexivity|exact He|].
    intros _. rewrite Hi, repeat_bytes_1, ends_in_cr_app by exact Hs0. unfold no_cr in Hcr0. apply negb_true_iff in Hcr0. exact Hcr0. }
  (* the further lines *)
  assert (Lm : forall t, In t (se_more se) ->
            mk_inserted st (utf8_encode t, 2%nat) = {| l_text := utf8_encode (indent_text j ++ indent_text j ++ t); l_ending := sp_val (st_eol st) |}
            /\ line_ok false {| l_text := utf8_encode (indent_text j ++ indent_text j ++ t); l_ending := sp_val (st_eol st) |} = true).
  { intros t Ht. rewrite forallb_forall in Wm. specialize (Wm t Ht). apply andb_true_iff in Wm as [Tt Nb].
    assert (Hne : utf8_encode t <> []).
    { apply utf8_encode_nonempty. intros ->. discriminate Nb. }
    rewrite forallb_forall in Hcrm. specialize (Hcrm (utf8_encode t) (in_map _ _ _ Ht)). unfold no_cr in Hcrm. apply negb_true_iff in Hcrm.
    assert (E2 : utf8_encode (indent_text j ++ indent_text j ++ t) = (indent_text j ++ indent_text j) ++ utf8_encode t).
    { rewrite !encode_indent, app_assoc. reflexivity. }
    split.
    - rewrite mk_inserted_line; [rewrite Hi, repeat_bytes_2, E2; reflexivity|exact He|].
      intros _. rewrite Hi, repeat_bytes_2, ends_in_cr_app by exact Hne. exact Hcrm.
    - apply inserted_line_ok; [exact He| |].
      + apply no_lf_encode. rewrite !text_ok_app, Tt.
        replace (text_ok (indent_text j)) with true by (destruct j; reflexivity). reflexivity.
      + intros _. rewrite E2, ends_in_cr_app by exact Hne. exact Hcrm. }
  unfold new. cbn [map]. rewrite L0, !map_map.
  split; [|split; [|split]].
  - cbn [l_text entry_texts map]. f_equal; [exact Es0|].
    rewrite map_map. apply map_ext_in. intros t Ht. rewrite (proj1 (Lm t Ht)). reflexivity.
  - cbn [forallb]. apply andb_true_iff. split.
    + apply inserted_line_ok; [exact He| |].
      * rewrite Es0. apply no_lf_encode. exact Tok.
      * intros _. rewrite ends_in_cr_app by exact Hs0. unfold no_cr in Hcr0. apply negb_true_iff in Hcr0. exact Hcr0.
    + rewrite forallb_forall. intros l Hl. apply in_map_iff in Hl as (t & <- & Ht). destruct (Lm t Ht) as [-> Hok]. exact Hok.
  - discriminate.
  - constructor; [reflexivity|]. apply Forall_forall. intros l Hl. apply in_map_iff in Hl as (t & <- & Ht).
    rewrite (proj1 (Lm t Ht)). reflexivity.
Qed.

(* ---------------------------------------------------------------- the abstract model: adding an entry *)

Definition add_entry (e : entry) (r : record) : record := set_entries r (rec_entries r ++ [e]).

Definition s_add_entry (j : indent) (se : s_entry) (r : s_record) : s_record :=
  {| sr_date := sr_date r; sr_should := sr_should r; sr_trail := sr_trail r; sr_summary := sr_summary r;
     sr_indent := j; sr_entries := sr_entries r ++ [se] |}.

Lemma denote_s_add_entry j se r : denote_record (s_add_entry j se r) = add_entry (denote_entry se) (denote_record r).
Proof. unfold denote_record, s_add_entry, add_entry, set_entries. cbn. rewrite map_app. reflexivity. Qed.

Lemma record_texts_add_entry j se r : (sr_entries r <> [] -> j = sr_indent r) ->
  record_texts (s_add_entry j se r) = record_texts r ++ entry_texts (indent_text j) se.
Proof.
  intros Hj. unfold record_texts, s_add_entry, headline_text. cbn [sr_summary sr_indent sr_entries sr_date sr_should sr_trail].
  rewrite flat_map_app. cbn [flat_map]. rewrite app_nil_r.
  assert (E : flat_map (entry_texts (indent_text j)) (sr_entries r) = flat_map (entry_texts (indent_text (sr_indent r))) (sr_entries r)).
  { destruct (sr_entries r) as [|e es] eqn:E; [reflexivity|]. rewrite (Hj ltac:(discriminate)). reflexivity. }
  rewrite E. cbn [app]. rewrite <- app_assoc. reflexivity.
Qed.

Lemma count_open_app a b : count_open (a ++ b) = (count_open a + count_open b)%nat.
Proof. unfold count_open. rewrite filter_app, app_length. reflexivity. Qed.

Lemma wf_s_add_entry j se r : wf_record r = true -> wf_entry se = true ->
  (count_open (sr_entries r ++ [se]) <= 1)%nat -> wf_record (s_add_entry j se r) = true.
Proof.
  intros W We Hc. destruct (wf_record_inv r W) as (Wd & H3 & H2 & H1 & H0 & H).
  unfold wf_record, s_add_entry. cbn [sr_date sr_should sr_trail sr_summary sr_entries].
  rewrite Wd, H2, H1, forallb_app, H0. cbn [forallb]. rewrite We. cbn [andb].
  destruct (sr_should r) as [[n dd]|]; [rewrite H3|]; cbn [andb]; apply Nat.leb_le; exact Hc.
Qed.

(* ---------------------------------------------------------------- an entry inserted at the end of record k *)

Definition spec_state (file : bytes) (recs : srecs) : Prop :=
  exists lead gs, spec_file file lead gs recs /\ last_line_safe (lines_of file).

Lemma spec_state_of_conforms L lead gs recs : conforms L lead gs recs -> last_line_safe L -> spec_state (text_of_lines L) recs.
Proof.
  intros C Hs. exists lead, gs. unfold spec_file. rewrite (lines_of_text_of_lines L (cf_ok _ _ _ _ C)). split; assumption.
Qed.

(* the texts [insert] receives for an entry *)
Definition entry_itexts (se : s_entry) : list itext :=
  (utf8_encode (render_value (se_value se) ++ first_tail se), 1%nat) :: map (fun s => (s, 2%nat)) (map utf8_encode (se_more se)).

Lemma to_multiline_entry_arg se : to_multiline [] (entry_arg se) = entry_itexts se.
Proof. reflexivity. Qed.

(* a reconciler that points at the end of record k of a conforming line list *)
Record points_at (rc : reconciler) (L lead : list line) (gs : list group) (recs : srecs) (k : nat) (rg : s_record * list text)
  (g : group) (j : indent) : Prop := {
  pa_conf : conforms L lead gs recs;
  pa_safe : last_line_safe L;
  pa_g : nth_error gs k = Some g;
  pa_rg : nth_error recs k = Some rg;
  pa_lines : rc_lines rc = L;
  pa_last : rc_last rc = Z.of_nat (length (before_group lead gs k ++ fst g));
  pa_eol : eol_ok (sp_val (st_eol (rc_style rc)));
  pa_indent : sp_val (st_indent (rc_style rc)) = indent_text j;
  pa_own : sr_entries (fst rg) <> [] -> j = sr_indent (fst rg) }.

Theorem insert_entry_conforming rc L lead gs recs k rg g j se :
  points_at rc L lead gs recs k rg g j ->
  wf_entry se = true -> no_cr_lines (entry_arg se) ->
  (count_open (sr_entries (fst rg) ++ [se]) <= 1)%nat ->
  exists ls' g',
    insert (rc_style rc) (rc_last rc) (entry_itexts se) (rc_lines rc) = Ok ls' /\
    conforms ls' lead (set_nth k g' gs) (set_nth k (s_add_entry j se (fst rg), snd rg) recs) /\
    last_line_safe ls'.
Proof.
  intros [C Hsafe Hg Hrg Hl Hlast Heol Hj Hown] We Hcr Hopen.
  destruct (Forall2_nth _ _ _ _ _ (cf_groups _ _ _ _ C) Hg) as (rg' & Hrg' & [Gs Gg]).
  rewrite Hrg in Hrg'. injection Hrg' as <-.
  assert (Wr : wf_record (fst rg) = true).
  { pose proof (cf_wf _ _ _ _ C) as W. rewrite forallb_forall in W. exact (W rg (nth_error_In _ _ Hrg)). }
  destruct (inserted_entry_lines (rc_style rc) j se [] Heol Hj We Hcr) as (Mnew & Oknew & Nenew & _).
  fold (entry_itexts se) in Mnew, Oknew, Nenew.
  set (new := map (mk_inserted (rc_style rc)) (entry_itexts se)) in *.
  assert (M : map l_text (fst g ++ new) = map utf8_encode (record_texts (s_add_entry j se (fst rg)))).
  { rewrite (record_texts_add_entry j se (fst rg) Hown), !map_app, Gs, Mnew. reflexivity. }
  destruct (append_to_group _ lead gs recs k g rg new (sp_val (st_eol (rc_style rc))) (s_add_entry j se (fst rg))
              C Hsafe Hg Hrg Heol Oknew Nenew (wf_s_add_entry j se (fst rg) Wr We Hopen) M) as [C' Hsafe'].
  cbv zeta in C', Hsafe'.
  eexists; eexists. split; [|split; [exact C'|exact Hsafe']].
  rewrite Hlast, Hl, (cf_lines _ _ _ _ C), (split_at_group lead gs k g Hg), insert_at_split. reflexivity.
Qed.

Lemma at_record_points_at L lead gs recs i rg g rc :
  conforms L lead gs recs -> last_line_safe L -> nth_error recs i = Some rg -> nth_error gs i = Some g ->
  at_record_facts L lead gs recs i rg g rc -> exists j, points_at rc L lead gs recs i rg g j.
Proof.
  intros C Hs Hrg Hg F. destruct (arf_indent _ _ _ _ _ _ _ _ F) as (j & Hj & Hown). exists j.
  constructor; try assumption.
  - exact (arf_lines _ _ _ _ _ _ _ _ F).
  - exact (arf_last _ _ _ _ _ _ _ _ F).
  - exact (arf_eol _ _ _ _ _ _ _ _ F).
Qed.

(* ---------------------------------------------------------------- track, into an existing record *)

Theorem track_existing now cfg ds file recs d i rg se :
  spec_state file recs ->
  at_date now ds = Ok d ->
  find_record_idx (dt d) (denote_recs recs) 0 = Some i -> nth_error recs i = Some rg ->
  wf_entry se = true -> no_cr_lines (entry_arg se) ->
  (count_open (sr_entries (fst rg) ++ [se]) <= 1)%nat ->
  exists file' j,
    exec_simple now cfg (Track ds (entry_arg se)) file = COk file' /\
    spec_state file' (set_nth i (s_add_entry j se (fst rg), snd rg) recs) /\
    exists bs', parse_text file' =
      Ok (Parsed (set_nth i (add_entry (denote_entry se) (denote_record (fst rg))) (denote_recs recs)) bs').
Proof.
  intros (lead & gs & C & Hsafe) Hd Hf Hrg We Hcr Hopen. unfold spec_file in C.
  destruct (Forall2_nth_r _ _ _ _ _ (cf_groups _ _ _ _ C) Hrg) as (g & Hg & _).
  destruct (at_record_conforming _ lead gs recs (dt d) i rg g C Hf Hrg Hg) as (rc & Hrc & F).
  destruct (at_record_points_at _ _ _ _ _ _ _ _ C Hsafe Hrg Hg F) as (j & P).
  destruct (insert_entry_conforming _ _ _ _ _ _ _ _ _ se P We Hcr Hopen) as (L' & g' & HI & C' & Hsafe').
  exists (text_of_lines L'), j.
  pose proof (conforms_parse _ _ _ _ C') as P'.
  split; [|split].
  - unfold exec_simple. rewrite Hd. cbn [of_outcome cbind].
    rewrite reconcile_file_unfold, (spec_file_parse file lead gs recs C). cbn [cbind].
    unfold first_creator, at_record. rewrite Hrc. cbn [flat_map app cbind run_steps fold_left].
    unfold append_entry. rewrite to_multiline_entry_arg, HI.
    cbn [lift_lines lift_r cbind]. unfold make_result. cbn [with_lines rc_lines]. rewrite P'. reflexivity.
  - exact (spec_state_of_conforms _ _ _ _ C' Hsafe').
  - eexists. rewrite P', denote_recs_set_nth, denote_s_add_entry. reflexivity.
Qed.

(* ---------------------------------------------------------------- a new record *)

Definition new_date (d : date) (fmt : reformat bool) (st : style) : date :=
  {| dt := dt d; dt_dashes := match apply_reformat fmt (sp_val (st_dashes st)) with None => dt_dashes d | Some f => f end |}.

Definition s_new_record (d' : date) (should : option Z) (srunes : list text) (j : indent) : s_record :=
  {| sr_date := canon_date d';
     sr_should := match should with Some m => Some (O, canon_dur (mk_dur m)) | None => None end;
     sr_trail := []; sr_summary := srunes; sr_indent := j; sr_entries := [] |}.

Definition should_fits (should : option Z) : Prop := match should with Some m => - max_int64 <= m <= max_int64 | None => True end.

Definition headline_bytes (d' : date) (should : option Z) : bytes :=
  print_date d' ++ match should with Some m => b!" (" ++ print_duration (mk_dur m) ++ b!"!)" | None => [] end.

Lemma wf_s_new_record d' should srunes j : valid_cdate (dt d') = true -> should_fits should ->
  forallb summary_line_ok srunes = true -> wf_record (s_new_record d' should srunes j) = true.
Proof.
  intros Hd Hs Hsum. unfold wf_record, s_new_record. cbn [sr_date sr_should sr_trail sr_summary sr_entries].
  rewrite (wf_canon_date _ Hd), Hsum. cbn [blank_text forallb count_open filter List.length Nat.leb andb].
  destruct should as [m|]; [|reflexivity]. destruct (canon_dur_facts (mk_dur m) Hs) as [-> _]. reflexivity.
Qed.

Lemma denote_s_new_record d' should srunes j : should_fits should ->
  denote_record (s_new_record d' should srunes j) =
  {| rec_date := d'; rec_should := should; rec_summary := map utf8_encode srunes; rec_entries := [] |}.
Proof.
  intros Hs. unfold denote_record, s_new_record. cbn [sr_date sr_should sr_summary sr_entries map].
  rewrite denote_canon_date. f_equal. destruct should as [m|]; [|reflexivity].
  destruct (canon_dur_facts (mk_dur m) Hs) as [_ ->]. unfold dur_canonical, mk_dur. cbn [d_mins].
  destruct (m =? 0) eqn:E; cbn [d_mins]; f_equal; lia.
Qed.

Lemma headline_bytes_render d' should srunes j : valid_cdate (dt d') = true -> should_fits should ->
  headline_bytes d' should = utf8_encode (headline_text (s_new_record d' should srunes j)) /\
  headline_text (s_new_record d' should srunes j) = headline_bytes d' should.
Proof.
  intros Hd Hs. unfold headline_bytes, headline_text, s_new_record. cbn [sr_date sr_should sr_trail].
  rewrite (print_date_render _ Hd).
  pose proof (wf_canon_date _ Hd) as Wd. pose proof (render_date_chars _ Wd) as Dc.
  assert (Das : ascii (render_date (canon_date d')) = true).
  { revert Dc. apply forallb_impl. intros c. unfold date_char, is_digit. lia. }
  destruct should as [m|].
  - rewrite print_duration_render. destruct (canon_dur_facts (mk_dur m) Hs) as [Wu _]. unfold wf_dur in Wu. apply andb_true_iff in Wu as [Sh _].
    rewrite app_nil_r. split; [|reflexivity]. symmetry. apply utf8_encode_ascii.
    rewrite !ascii_app, Das, (render_dur_ascii _ Sh). reflexivity.
  - rewrite !app_nil_r. split; [|reflexivity]. symmetry. apply utf8_encode_ascii. exact Das.
Qed.

Lemma headline_bytes_no_cr d' should : valid_cdate (dt d') = true -> should_fits should -> ends_in_cr (headline_bytes d' should) = false.
Proof.
  intros Hd Hs. apply ends_in_cr_none. unfold headline_bytes. rewrite (print_date_render _ Hd).
  pose proof (render_date_chars _ (wf_canon_date _ Hd)) as Dc.
  rewrite forallb_app. apply andb_true_iff. split.
  - revert Dc. apply forallb_impl. intros c. unfold date_char, is_digit. lia.
  - destruct should as [m|]; [|reflexivity]. rewrite print_duration_render.
    destruct (canon_dur_facts (mk_dur m) Hs) as [Wu _]. unfold wf_dur in Wu. apply andb_true_iff in Wu as [Sh _].
    pose proof (render_dur_dur_chars _ Sh) as Du. cbn [bytes_of_string app forallb]. rewrite forallb_app. cbn [forallb].
    replace (forallb (fun c : N => negb (c =? 13)%N) (render_dur (canon_dur (mk_dur m)))) with true; [reflexivity|].
    symmetry. revert Du. apply forallb_impl. intros c. unfold SpecRecord.dur_char, is_digit. lia.
Qed.

Lemma mk_inserted_level0 st txt : eol_ok (sp_val (st_eol st)) -> (sp_val (st_eol st) = [10%N] -> ends_in_cr txt = false) ->
  mk_inserted st (txt, O) = {| l_text := txt; l_ending := sp_val (st_eol st) |}.
Proof. intros He Hc. rewrite mk_inserted_line; [reflexivity|exact He|exact Hc]. Qed.

Definition record_itexts (d' : date) (should : option Z) (srunes : list text) : list itext :=
  (headline_bytes d' should, O) :: map (fun s => (s, O)) (map utf8_encode srunes).

Lemma new_record_lines st d' should srunes j :
  eol_ok (sp_val (st_eol st)) -> valid_cdate (dt d') = true -> should_fits should ->
  forallb summary_line_ok srunes = true -> no_cr_lines (map utf8_encode srunes) ->
  let new := map (mk_inserted st) (record_itexts d' should srunes) in
  map l_text new = map utf8_encode (record_texts (s_new_record d' should srunes j)) /\
  forallb (line_ok false) new = true /\ length new = S (length srunes).
Proof.
  intros He Hd Hs Hsum Hcr new.
  destruct (headline_bytes_render d' should srunes j Hd Hs) as [Hb Hb'].
  pose proof (headline_bytes_no_cr d' should Hd Hs) as Hcr0.
  pose proof (wf_s_new_record d' should srunes j Hd Hs Hsum) as W.
  assert (L0 : mk_inserted st (headline_bytes d' should, O) = {| l_text := headline_bytes d' should; l_ending := sp_val (st_eol st) |}).
  { apply mk_inserted_level0; [exact He|intros _; exact Hcr0]. }
  assert (Lm : forall t, In t srunes ->
            mk_inserted st (utf8_encode t, O) = {| l_text := utf8_encode t; l_ending := sp_val (st_eol st) |} /\
            line_ok false {| l_text := utf8_encode t; l_ending := sp_val (st_eol st) |} = true).
  { intros t Ht. unfold no_cr_lines in Hcr. rewrite forallb_forall in Hcr. specialize (Hcr _ (in_map _ _ _ Ht)).
    unfold no_cr in Hcr. apply negb_true_iff in Hcr.
    rewrite forallb_forall in Hsum. specialize (Hsum t Ht). unfold summary_line_ok in Hsum. apply andb_true_iff in Hsum as [Tt _].
    split; [apply mk_inserted_level0; [exact He|intros _; exact Hcr]|].
    apply inserted_line_ok; [exact He|apply no_lf_encode; exact Tt|intros _; exact Hcr]. }
  unfold new, record_itexts. cbn [map]. rewrite L0, !map_map.
  split; [|split].
  - unfold record_texts. cbn [sr_summary sr_entries s_new_record flat_map l_text]. rewrite app_nil_r. cbn [map]. f_equal; [exact Hb|].
    apply map_ext_in. intros t Ht. rewrite (proj1 (Lm t Ht)). reflexivity.
  - cbn [forallb]. apply andb_true_iff. split.
    + apply inserted_line_ok; [exact He| |intros _; exact Hcr0].
      rewrite Hb. apply no_lf_encode. exact (headline_text_ok _ W).
    + rewrite forallb_forall. intros l Hl. apply in_map_iff in Hl as (t & <- & Ht). destruct (Lm t Ht) as [-> Hok]. exact Hok.
  - cbn [List.length]. rewrite map_length. reflexivity.
Qed.

Lemma blank_inserted st : eol_ok (sp_val (st_eol st)) ->
  mk_inserted st ([], O) = {| l_text := []; l_ending := sp_val (st_eol st) |} /\
  line_ok false {| l_text := []; l_ending := sp_val (st_eol st) |} = true /\
  is_blank {| l_text := []; l_ending := sp_val (st_eol st) |} = true.
Proof.
  intros He. split; [apply mk_inserted_level0; [exact He|reflexivity]|]. split; [|reflexivity].
  apply inserted_line_ok; [exact He|reflexivity|reflexivity].
Qed.

(* the abstract position of a new record *)
Definition insert_record (r : record) (rs : list record) : list record :=
  match rs with
  | [] => [r]
  | r0 :: _ =>
    if negb (cdate_geb (dt (rec_date r)) (dt (rec_date r0))) then r :: rs
    else let i := new_record_position (dt (rec_date r)) rs 0 in firstn (S i) rs ++ r :: skipn (S i) rs
  end.

Definition insert_index (d : cdate) (rs : list record) : nat :=
  match rs with
  | [] => O
  | r0 :: _ => if negb (cdate_geb d (dt (rec_date r0))) then O else S (new_record_position d rs 0)
  end.

Lemma new_record_position_bound d rs : forall i0, rs <> [] -> (i0 <= new_record_position d rs i0 < i0 + length rs)%nat.
Proof.
  induction rs as [|r rs IH]; intros i0 H; [contradiction|].
  destruct rs as [|r2 rs']; [cbn; lia|].
  change (new_record_position d (r :: r2 :: rs') i0) with
    (if cdate_geb d (dt (rec_date r)) && negb (cdate_geb d (dt (rec_date r2))) then i0 else new_record_position d (r2 :: rs') (S i0)).
  destruct (_ && _); [cbn [List.length]; lia|]. specialize (IH (S i0) ltac:(discriminate)). cbn [List.length] in *. lia.
Qed.

(* ---- list surgery ---- *)
Lemma Forall2_firstn {A B} (R : A -> B -> Prop) l m n : Forall2 R l m -> Forall2 R (firstn n l) (firstn n m).
Proof. intros F. revert n. induction F; intros [|n]; cbn [firstn]; constructor; auto. Qed.
Lemma Forall2_skipn {A B} (R : A -> B -> Prop) l m n : Forall2 R l m -> Forall2 R (skipn n l) (skipn n m).
Proof. intros F. revert n. induction F; intros [|n]; cbn [skipn]; try constructor; auto. Qed.

Lemma nth_split_skipn {A} (l : list A) k x : nth_error l k = Some x -> l = firstn k l ++ x :: skipn (S k) l.
Proof.
  revert k. induction l as [|y l IH]; intros k H; [destruct k; discriminate|].
  destruct k as [|k]; [injection H as <-; reflexivity|]. cbn [firstn skipn app]. f_equal. exact (IH k H).
Qed.

Definition gap_mid (rg : s_record * list text) : bool := forallb blank_text (snd rg) && negb (Nat.eqb (length (snd rg)) 0).

Lemma gaps_ok_app (a b : srecs) : b <> [] -> gaps_ok (a ++ b) = forallb gap_mid a && gaps_ok b.
Proof.
  intros Hb. induction a as [|x a IH]; [reflexivity|]. cbn [app forallb].
  rewrite (gaps_ok_cons_ne x (a ++ b)) by (intros E; apply app_eq_nil in E as [_ E]; contradiction).
  rewrite IH. unfold gap_mid. rewrite !andb_assoc. reflexivity.
Qed.

Lemma in_firstn {A} (x : A) n l : In x (firstn n l) -> In x l.
Proof. revert n. induction l as [|y l IH]; intros [|n] Hx; cbn [firstn] in Hx; try (destruct Hx; fail). destruct Hx as [<-|Hx]; [left; reflexivity|right; exact (IH n Hx)]. Qed.
Lemma in_skipn {A} (x : A) n l : In x (skipn n l) -> In x l.
Proof. revert n. induction l as [|y l IH]; intros [|n] Hx; cbn [skipn] in Hx; auto. right. exact (IH n Hx). Qed.
Lemma forallb_firstn {A} (p : A -> bool) n l : forallb p l = true -> forallb p (firstn n l) = true.
Proof. rewrite !forallb_forall. intros H x Hx. apply H. exact (in_firstn _ _ _ Hx). Qed.
Lemma forallb_skipn {A} (p : A -> bool) n l : forallb p l = true -> forallb p (skipn n l) = true.
Proof. rewrite !forallb_forall. intros H x Hx. apply H. exact (in_skipn _ _ _ Hx). Qed.

Lemma blank_runes_of_lines lead : forallb is_blank lead = true ->
  map l_text lead = map utf8_encode (map l_text lead) /\ forallb blank_text (map l_text lead) = true.
Proof.
  intros H. induction lead as [|l lead IH]; [split; reflexivity|]. cbn [forallb] in H. apply andb_true_iff in H as [Hl H].
  destruct (IH H) as [E B]. cbn [map forallb]. split.
  - f_equal; [|exact E]. symmetry. apply utf8_encode_ascii. unfold is_blank, is_blank_text in Hl. revert Hl. apply forallb_impl. intros c. lia.
  - rewrite B, andb_true_r. exact Hl.
Qed.

Lemma splice_facts {A} (l : list A) i x y z : nth_error l i = Some x ->
  let l' := firstn i l ++ y :: z :: skipn (S i) l in
  nth_error l' (S i) = Some z /\ firstn (S i) l' = firstn i l ++ [y].
Proof.
  intros H l'. assert (Li : length (firstn i l) = i) by (apply firstn_length_le; apply Nat.lt_le_incl; apply nth_error_Some; congruence).
  split.
  - unfold l'. rewrite nth_error_app2 by lia. rewrite Li. replace (S i - i)%nat with 1%nat by lia. reflexivity.
  - unfold l'. replace (firstn i l ++ y :: z :: skipn (S i) l) with ((firstn i l ++ [y]) ++ z :: skipn (S i) l) by (rewrite <- app_assoc; reflexivity).
    replace (S i) with (length (firstn i l ++ [y])) at 1 by (rewrite app_length, Li; cbn; lia).
    rewrite firstn_app, Nat.sub_diag, firstn_all. cbn [firstn]. apply app_nil_r.
Qed.

(* ---- the three places a new record can go ---- *)

Lemma last_line_safe_terminated L : (forall pre l, L = pre ++ [l] -> l_ending l <> []) -> last_line_safe L.
Proof. intros H pre l E El. exfalso. exact (H pre l E El). Qed.

Lemma all_ok_last new pre l : forallb (line_ok false) new = true -> new = pre ++ [l] -> l_ending l <> [].
Proof.
  intros H ->. rewrite forallb_app in H. apply andb_true_iff in H as [_ H]. cbn [forallb] in H. apply andb_true_iff in H as [H _].
  exact (line_ok_false_ending _ H).
Qed.

(* (i) the file has no record: the new record is all there is *)
Lemma new_record_only new r_new : forallb (line_ok false) new = true -> new <> [] ->
  map l_text new = map utf8_encode (record_texts r_new) -> wf_record r_new = true ->
  conforms new [] [(new, [])] [(r_new, [])] /\ last_line_safe new.
Proof.
  intros Hok Hne M W. split.
  - constructor.
    + cbn [flat_map group_lines fst snd app]. rewrite !app_nil_r. reflexivity.
    + reflexivity.
    + constructor; [split; [exact M|reflexivity]|constructor].
    + cbn [forallb fst]. rewrite W. reflexivity.
    + reflexivity.
    + apply all_ok_lines_ok. exact Hok.
  - apply last_line_safe_terminated. intros pre l E. exact (all_ok_last _ _ _ Hok E).
Qed.

(* (ii) before the first record *)
Lemma new_record_front L lead gs recs new blank r_new :
  conforms L lead gs recs -> last_line_safe L -> recs <> [] ->
  forallb (line_ok false) new = true -> new <> [] ->
  line_ok false blank = true -> l_text blank = [] ->
  map l_text new = map utf8_encode (record_texts r_new) -> wf_record r_new = true ->
  conforms (new ++ [blank] ++ L) [] ((new, blank :: lead) :: gs) ((r_new, [] :: map l_text lead) :: recs) /\
  last_line_safe (new ++ [blank] ++ L).
Proof.
  intros C Hs Hrecs Hok Hne Hb Hbt M W.
  destruct (blank_runes_of_lines lead (cf_lead _ _ _ _ C)) as [El Bl].
  split.
  - constructor.
    + rewrite (cf_lines _ _ _ _ C). cbn [flat_map app]. unfold group_lines. cbn [fst snd]. rewrite <- !app_assoc. reflexivity.
    + reflexivity.
    + constructor; [|exact (cf_groups _ _ _ _ C)]. split; cbn [fst snd map]; [exact M|]. rewrite Hbt, <- El. reflexivity.
    + cbn [forallb fst]. rewrite W. exact (cf_wf _ _ _ _ C).
    + rewrite gaps_ok_cons_ne by exact Hrecs. cbn [snd forallb List.length Nat.eqb negb blank_text]. rewrite Bl. exact (cf_gaps _ _ _ _ C).
    + rewrite lines_ok_app_r by discriminate. rewrite Hok. cbn [app andb].
      destruct L as [|x L']; [apply line_ok_weaken; exact Hb|].
      change (lines_ok (blank :: x :: L')) with (line_ok false blank && lines_ok (x :: L')). rewrite Hb. exact (cf_ok _ _ _ _ C).
  - intros pre l E El'. destruct (list_snoc_cases L) as [->|(p & x & ->)].
    + cbn [app] in E. apply app_inj_tail in E as [_ <-]. exfalso. exact (line_ok_false_ending _ Hb El').
    + change (new ++ [blank] ++ p ++ [x]) with (new ++ ([blank] ++ p) ++ [x]) in E. rewrite app_assoc in E. apply app_inj_tail in E as [_ <-]. exact (Hs p x eq_refl El').
Qed.

(* (iii) after the record of group i *)
Lemma new_record_after L lead gs recs i g rg new blank eol r_new :
  conforms L lead gs recs -> last_line_safe L ->
  nth_error gs i = Some g -> nth_error recs i = Some rg -> eol_ok eol ->
  forallb (line_ok false) new = true -> new <> [] ->
  line_ok false blank = true -> l_text blank = [] ->
  map l_text new = map utf8_encode (record_texts r_new) -> wf_record r_new = true ->
  let L' := give_ending_to_last eol (before_group lead gs i ++ fst g) ++ (blank :: new) ++ (snd g ++ flat_map group_lines (skipn (S i) gs)) in
  let gs' := firstn i gs ++ (give_ending_to_last eol (fst g), [blank]) :: (new, snd g) :: skipn (S i) gs in
  let recs' := firstn i recs ++ (fst rg, [[]]) :: (r_new, snd rg) :: skipn (S i) recs in
  conforms L' lead gs' recs' /\ last_line_safe L' /\
  nth_error gs' (S i) = Some (new, snd g) /\ nth_error recs' (S i) = Some (r_new, snd rg) /\
  length (before_group lead gs' (S i)) = S (length (before_group lead gs i ++ fst g)).
Proof.
  intros C Hs Hg Hrg He Hok Hne Hb Hbt M W L' gs' recs'.
  pose proof (conforms_groups_ok _ _ _ _ C) as Gok.
  destruct (groups_ok_nth gs Gok i g Hg) as (Gne & _).
  pose proof (cf_lines _ _ _ _ C) as EL. rewrite (split_at_group lead gs i g Hg) in EL.
  pose proof (cf_ok _ _ _ _ C) as Hokl. rewrite EL in Hokl. rewrite EL in Hs.
  assert (Hok2 : forallb (line_ok false) (blank :: new) = true) by (cbn [forallb]; rewrite Hb, Hok; reflexivity).
  destruct (lines_ok_insert eol _ (blank :: new) _ Hokl Hs He Hok2 ltac:(discriminate)) as [Hok' _].
  destruct (Forall2_nth _ _ _ _ _ (cf_groups _ _ _ _ C) Hg) as (rg' & Hrg' & [Gs Gg]).
  rewrite Hrg in Hrg'. injection Hrg' as <-.
  assert (Li : length (firstn i gs) = i) by (apply firstn_length_le; apply Nat.lt_le_incl; apply nth_error_Some; congruence).
  assert (Lr : length (firstn i recs) = i) by (apply firstn_length_le; apply Nat.lt_le_incl; apply nth_error_Some; congruence).
  pose proof (cf_gaps _ _ _ _ C) as G. rewrite (nth_split_skipn recs i rg Hrg) in G.
  rewrite gaps_ok_app in G by discriminate. apply andb_true_iff in G as [G1 G2].
  destruct (gaps_ok_cons rg (skipn (S i) recs) G2) as (Gb & Gn & G3).
  split; [|split; [|split; [|split]]].
  - constructor.
    + unfold L', gs'. rewrite flat_map_app. cbn [flat_map]. unfold group_lines, before_group. cbn [fst snd].
      rewrite (give_ending_app eol _ (fst g) Gne), <- !app_assoc. cbn [app]. reflexivity.
    + exact (cf_lead _ _ _ _ C).
    + unfold gs', recs'. apply Forall2_app; [apply Forall2_firstn; exact (cf_groups _ _ _ _ C)|].
      constructor; [split; cbn [fst snd]; [rewrite map_l_text_give_ending; exact Gs|cbn [map]; rewrite Hbt; reflexivity]|].
      constructor; [split; cbn [fst snd]; [exact M|exact Gg]|]. apply Forall2_skipn. exact (cf_groups _ _ _ _ C).
    + unfold recs'. rewrite forallb_app. cbn [forallb fst]. rewrite W.
      rewrite (forallb_firstn _ i recs (cf_wf _ _ _ _ C)), (forallb_skipn _ (S i) recs (cf_wf _ _ _ _ C)).
      pose proof (cf_wf _ _ _ _ C) as Wall. rewrite forallb_forall in Wall. rewrite (Wall rg (nth_error_In _ _ Hrg)). reflexivity.
    + unfold recs'. rewrite gaps_ok_app by discriminate. rewrite G1. cbn [andb].
      rewrite gaps_ok_cons_ne by discriminate. cbn [snd forallb blank_text List.length Nat.eqb negb andb].
      destruct (skipn (S i) recs) as [|x rest] eqn:Esk.
      * cbn [gaps_ok snd]. exact Gb.
      * rewrite gaps_ok_cons_ne by discriminate. cbn [snd]. rewrite Gb, G3.
        destruct Gn as [Gn|Gn]; [discriminate|]. destruct (snd rg); [contradiction|reflexivity].
    + exact Hok'.
  - apply last_line_safe_insert; [exact Hok2|discriminate|exact Hs|right; exact I].
  - pose proof (splice_facts gs i g (give_ending_to_last eol (fst g), [blank]) (new, snd g) Hg) as SF. cbv zeta in SF. exact (proj1 SF).
  - pose proof (splice_facts recs i rg (fst rg, [[]]) (r_new, snd rg) Hrg) as SF. cbv zeta in SF. exact (proj1 SF).
  - pose proof (splice_facts gs i g (give_ending_to_last eol (fst g), [blank]) (new, snd g) Hg) as SF. cbv zeta in SF.
    assert (E : firstn (S i) gs' = firstn i gs ++ [(give_ending_to_last eol (fst g), [blank])]) by exact (proj2 SF).
    unfold before_group. rewrite E.
    rewrite flat_map_app. cbn [flat_map]. unfold group_lines at 2. cbn [fst snd].
    rewrite !app_length, give_ending_length. cbn [List.length].
    clear. lia.
Qed.

Lemma conforms_block_endings L lead gs recs : conforms L lead gs recs ->
  forall b, In b (expect_blocks 0 lead gs) -> endings_ok (b_lines b).
Proof.
  intros C b Hb l Hl. apply (lines_ok_endings L (cf_ok _ _ _ _ C)). rewrite (cf_lines _ _ _ _ C).
  exact (expect_blocks_lines_in lead gs _ b Hb l Hl).
Qed.

Lemma print_new_date d fmt st :
  match apply_reformat fmt (sp_val (st_dashes st)) with
  | None => print_date d
  | Some f => print_date {| dt := dt d; dt_dashes := f |}
  end = print_date (new_date d fmt st).
Proof. unfold new_date. destruct (apply_reformat fmt (sp_val (st_dashes st))); [reflexivity|]. destruct d; reflexivity. Qed.

Lemma denote_recs_splice recs i rg r_new gap1 gap2 : nth_error recs i = Some rg ->
  denote_recs (firstn i recs ++ (fst rg, gap1) :: (r_new, gap2) :: skipn (S i) recs)
  = firstn (S i) (denote_recs recs) ++ denote_record r_new :: skipn (S i) (denote_recs recs).
Proof.
  intros H. unfold denote_recs. rewrite map_app. cbn [map fst]. rewrite <- firstn_map, <- skipn_map.
  set (rs := map (fun rg0 => denote_record (fst rg0)) recs).
  assert (Hn : nth_error rs i = Some (denote_record (fst rg))) by (unfold rs; rewrite nth_error_map, H; reflexivity).
  rewrite (nth_split_skipn rs i _ Hn) at 3.
  assert (Li : length (firstn i rs) = i) by (apply firstn_length_le; apply Nat.lt_le_incl; apply nth_error_Some; congruence).
  replace (firstn i rs ++ denote_record (fst rg) :: skipn (S i) rs) with ((firstn i rs ++ [denote_record (fst rg)]) ++ skipn (S i) rs)
    by (rewrite <- app_assoc; reflexivity).
  replace (S i) with (length (firstn i rs ++ [denote_record (fst rg)])) at 2 by (rewrite app_length, Li; cbn; lia).
  rewrite firstn_app, Nat.sub_diag, firstn_all. cbn [firstn]. rewrite app_nil_r, <- app_assoc. reflexivity.
Qed.

Theorem new_record_conforming L lead gs recs d fmt should srunes j :
  conforms L lead gs recs -> last_line_safe L ->
  valid_cdate (dt d) = true -> should_fits should ->
  forallb summary_line_ok srunes = true -> no_cr_lines (map utf8_encode srunes) ->
  let rs := denote_recs recs in let bs := expect_blocks 0 lead gs in
  let st := elect default_style rs bs in
  let r_new := s_new_record (new_date d fmt st) should srunes j in
  exists rc lead' gs' recs' k g_new gap,
    reconciler_for_new_record d fmt should (map utf8_encode srunes) rs bs = Ok rc /\
    rc_style rc = st /\ eol_ok (sp_val (st_eol st)) /\
    conforms (rc_lines rc) lead' gs' recs' /\ last_line_safe (rc_lines rc) /\
    nth_error gs' k = Some g_new /\ nth_error recs' k = Some (r_new, gap) /\
    denote_recs recs' = insert_record (denote_record r_new) rs /\
    (srunes = [] -> rc_last rc = Z.of_nat (length (before_group lead' gs' k ++ fst g_new))) /\
    k = insert_index (dt d) rs.
Proof.
  intros C Hsafe Hd Hsh Hsum Hcr rs bs st r_new.
  assert (Heol : eol_ok (sp_val (st_eol st))).
  { apply elect_eol_ok; [exact (conforms_block_endings _ _ _ _ C)|left; reflexivity]. }
  set (d' := new_date d fmt st) in *.
  assert (Hd' : valid_cdate (dt d') = true) by exact Hd.
  destruct (new_record_lines st d' should srunes j Heol Hd' Hsh Hsum Hcr) as (Mnew & Oknew & Lnew). cbv zeta in Mnew, Oknew, Lnew.
  set (new := map (mk_inserted st) (record_itexts d' should srunes)) in *.
  assert (Nenew : new <> []) by (intros E; rewrite E in Lnew; discriminate).
  pose proof (wf_s_new_record d' should srunes j Hd' Hsh Hsum) as W. fold r_new in W, Mnew.
  destruct (blank_inserted st Heol) as (Eblank & Okblank & _).
  set (blank := {| l_text := []; l_ending := sp_val (st_eol st) |}) in *.
  assert (Hdate : dt (rec_date (denote_record r_new)) = dt d).
  { unfold r_new. rewrite (denote_s_new_record _ _ _ _ Hsh). reflexivity. }
  unfold reconciler_for_new_record. fold rs bs st. cbv zeta. rewrite (print_new_date d fmt st). fold d'.
  change (print_date d' ++ match should with Some m => b!" (" ++ print_duration (mk_dur m) ++ b!"!)" | None => [] end)
    with (headline_bytes d' should).
  change ((headline_bytes d' should, O) :: map (fun s => (s, O)) (map utf8_encode srunes)) with (record_itexts d' should srunes).
  destruct recs as [|rg0 recs0] eqn:Erecs.
  - (* no record at all *)
    pose proof (cf_groups _ _ _ _ C) as F. inversion F; subst gs.
    unfold rs, bs. cbn [denote_recs map expect_blocks flatten_blocks flat_map].
    match goal with |- context [insert st 0 ?t []] =>
      assert (HI : insert st 0 t [] = Ok (give_ending_to_last (sp_val (st_eol st)) [] ++ map (mk_inserted st) t ++ []))
        by exact (insert_at_split st [] [] t) end.
    rewrite HI. cbn [bind give_ending_to_last app]. rewrite app_nil_r. fold new.
    destruct (new_record_only new r_new Oknew Nenew Mnew W) as [C' S'].
    eexists _, [], [(new, [])], [(r_new, [])], O, (new, []), []. cbn [rc_lines rc_style rc_last].
    split; [reflexivity|]. split; [reflexivity|]. split; [exact Heol|]. split; [exact C'|]. split; [exact S'|].
    split; [reflexivity|]. split; [reflexivity|]. split; [reflexivity|]. split; [|reflexivity].
    intros ->. unfold before_group. cbn [firstn flat_map app fst rc_last]. rewrite Lnew. reflexivity.
  - (* there are records *)
    pose proof (cf_groups _ _ _ _ C) as F. destruct gs as [|g0 gs0]; [inversion F|].
    assert (Hgs : g0 :: gs0 <> []) by discriminate.
    assert (Hfl : flatten_blocks bs = L).
    { unfold bs. rewrite (flatten_expect_blocks _ 0 lead Hgs). symmetry. exact (cf_lines _ _ _ _ C). }
    unfold rs at 1. cbn [denote_recs map]. fold (denote_recs recs0).
    destruct (negb (cdate_geb (dt d) (dt (rec_date (denote_record (fst rg0)))))) eqn:Efront.
    + (* before the first record *)
      rewrite Hfl.
      match goal with |- context [insert st 0 ?t L] =>
        assert (HI : insert st 0 t L = Ok (give_ending_to_last (sp_val (st_eol st)) [] ++ map (mk_inserted st) t ++ L))
          by exact (insert_at_split st [] L t) end.
      rewrite HI. cbn [bind give_ending_to_last app]. rewrite map_app. cbn [map]. rewrite Eblank. fold new.
      destruct (new_record_front L lead (g0 :: gs0) (rg0 :: recs0) new blank r_new C Hsafe ltac:(discriminate) Oknew Nenew Okblank eq_refl Mnew W) as [C' S'].
      rewrite <- app_assoc.
      eexists _, [], ((new, blank :: lead) :: g0 :: gs0), ((r_new, [] :: map l_text lead) :: rg0 :: recs0), O, (new, blank :: lead), _.
      cbn [rc_lines rc_style rc_last].
      split; [reflexivity|]. split; [reflexivity|]. split; [exact Heol|]. split; [exact C'|]. split; [exact S'|].
      split; [reflexivity|]. split; [reflexivity|]. split.
      * unfold insert_record, rs. cbn [denote_recs map fst]. rewrite Hdate, Efront. reflexivity.
      * split; [|unfold insert_index, rs; cbn [denote_recs map fst]; rewrite Efront; reflexivity].
        intros ->. unfold before_group. cbn [firstn flat_map app fst rc_last]. rewrite Lnew. reflexivity.
    + (* after record i *)
      set (i := new_record_position (dt d) rs 0).
      assert (Hi : (i < length (rg0 :: recs0))%nat).
      { pose proof (new_record_position_bound (dt d) rs 0 ltac:(unfold rs; discriminate)) as B.
        fold i in B. unfold rs, denote_recs in B. rewrite map_length in B. lia. }
      destruct (nth_error (rg0 :: recs0) i) as [rg|] eqn:Hrg; [|apply nth_error_None in Hrg; lia].
      destruct (Forall2_nth_r _ _ _ _ _ F Hrg) as (g & Hg & _).
      destruct (expect_blocks_nth (g0 :: gs0) (conforms_groups_ok _ _ _ _ C) i g 0%nat lead (cf_lead _ _ _ _ C) Hg) as (b & Hb & _ & Hidx).
      fold bs in Hb. rewrite Hb, Hidx, Hfl. cbn [Nat.add].
      match goal with |- context [insert st ?idx ?t L] =>
        assert (HI : insert st idx t L =
                     Ok (give_ending_to_last (sp_val (st_eol st)) (before_group lead (g0 :: gs0) i ++ fst g) ++ map (mk_inserted st) t
                         ++ (snd g ++ flat_map group_lines (skipn (S i) (g0 :: gs0))))) end.
      { rewrite (cf_lines _ _ _ _ C), (split_at_group lead (g0 :: gs0) i g Hg), <- app_length. apply insert_at_split. }
      rewrite HI. cbn [bind map]. rewrite Eblank. fold new. fold blank.
      destruct (new_record_after L lead (g0 :: gs0) (rg0 :: recs0) i g rg new blank (sp_val (st_eol st)) r_new
                  C Hsafe Hg Hrg Heol Oknew Nenew Okblank eq_refl Mnew W) as (C' & S' & Hg' & Hrg' & Hlen).
      eexists _, lead, _, _, (S i), (new, snd g), (snd rg). cbn [rc_lines rc_style rc_last].
      split; [reflexivity|]. split; [reflexivity|]. split; [exact Heol|]. split; [exact C'|]. split; [exact S'|].
      split; [exact Hg'|]. split; [exact Hrg'|]. split.
      * rewrite (denote_recs_splice (rg0 :: recs0) i rg r_new _ _ Hrg).
        unfold insert_record, rs. cbn [denote_recs map fst]. rewrite Hdate, Efront. reflexivity.
      * split; [|unfold insert_index, rs; cbn [denote_recs map fst]; rewrite Efront; reflexivity].
        intros ->. cbn [fst rc_last]. rewrite app_length, Hlen, Lnew. cbn [List.length]. rewrite !app_length. clear. lia.
Qed.

(* ---------------------------------------------------------------- the abstract model *)

(* the date separator a new record gets: the one most records use (ties: the first record's), `-` by default *)
Definition dashes_vote (rs : list record) : bool := tally_up Bool.eqb (map (fun r => dt_dashes (rec_date r)) rs) true.

Lemma votes_of_dashes rs : forall bs, length rs = length bs ->
  votes_of (map st_dashes (styles_of rs bs)) = map (fun r => dt_dashes (rec_date r)) rs.
Proof.
  unfold styles_of. induction rs as [|r rs IH]; intros [|b bs] H; try discriminate; [reflexivity|].
  cbn [combine map votes_of flat_map fst snd]. rewrite determine_dashes. cbn [sset sp_explicit sp_val app]. f_equal.
  apply IH. cbn [List.length] in H. lia.
Qed.

Lemma elect_default_dashes rs bs : length rs = length bs ->
  sp_val (st_dashes (elect default_style rs bs)) = dashes_vote rs.
Proof. intros H. rewrite elect_dashes, ascertain_val. cbn [default_style st_dashes sdef sp_explicit sp_val]. rewrite (votes_of_dashes rs bs H). reflexivity. Qed.

Lemma Forall2_len {A B} (R : A -> B -> Prop) l m : Forall2 R l m -> length l = length m.
Proof. induction 1; cbn [List.length]; congruence. Qed.

Definition a_new_date (d : date) (fmt : reformat bool) (rs : list record) : date :=
  {| dt := dt d; dt_dashes := match apply_reformat fmt (dashes_vote rs) with None => dt_dashes d | Some f => f end |}.

Lemma new_date_abstract d fmt recs lead gs : Forall2 group_of gs recs ->
  new_date d fmt (elect default_style (denote_recs recs) (expect_blocks 0 lead gs)) = a_new_date d fmt (denote_recs recs).
Proof.
  intros F. unfold new_date, a_new_date. rewrite elect_default_dashes; [reflexivity|].
  rewrite expect_blocks_length. unfold denote_recs. rewrite map_length. symmetry. exact (Forall2_len _ _ _ F).
Qed.

Lemma insert_record_nth x rs : nth_error (insert_record x rs) (insert_index (dt (rec_date x)) rs) = Some x.
Proof.
  unfold insert_record, insert_index. destruct rs as [|r0 rs']; [reflexivity|].
  destruct (negb (cdate_geb (dt (rec_date x)) (dt (rec_date r0)))); [reflexivity|].
  set (i := new_record_position _ _ _).
  pose proof (new_record_position_bound (dt (rec_date x)) (r0 :: rs') 0 ltac:(discriminate)) as B. fold i in B.
  rewrite nth_error_app2; rewrite firstn_length_le by lia; [|lia]. rewrite Nat.sub_diag. reflexivity.
Qed.

Lemma insert_record_set_nth x y rs : dt (rec_date y) = dt (rec_date x) ->
  set_nth (insert_index (dt (rec_date x)) rs) y (insert_record x rs) = insert_record y rs.
Proof.
  intros Hd. unfold insert_record, insert_index. rewrite Hd. destruct rs as [|r0 rs']; [reflexivity|].
  destruct (negb (cdate_geb (dt (rec_date x)) (dt (rec_date r0)))); [reflexivity|].
  set (i := new_record_position _ _ _).
  pose proof (new_record_position_bound (dt (rec_date x)) (r0 :: rs') 0 ltac:(discriminate)) as B. fold i in B.
  assert (Hn : nth_error (firstn (S i) (r0 :: rs') ++ x :: skipn (S i) (r0 :: rs')) (S i) = Some x).
  { rewrite nth_error_app2; rewrite firstn_length_le by lia; [|lia]. rewrite Nat.sub_diag. reflexivity. }
  rewrite (set_nth_split (S i) y x _ Hn).
  assert (Lf : length (firstn (S i) (r0 :: rs')) = S i) by (apply firstn_length_le; lia).
  destruct (firstn_skipn_succ (firstn (S i) (r0 :: rs')) x (skipn (S i) (r0 :: rs'))) as [F1 F2]. rewrite Lf in F1, F2.
  rewrite F2.
  replace (firstn (S i) (firstn (S i) (r0 :: rs') ++ x :: skipn (S i) (r0 :: rs'))) with (firstn (S i) (r0 :: rs')); [reflexivity|].
  rewrite <- Lf at 2. rewrite firstn_app, Nat.sub_diag, firstn_all. cbn [firstn]. rewrite app_nil_r. reflexivity.
Qed.

(* ---------------------------------------------------------------- create *)

Theorem create_refines now cfg ds should srunes file recs d :
  spec_state file recs -> at_date now ds = Ok d -> valid_cdate (dt d) = true ->
  let should' := match should with Some m => Some m | None => cfg_should cfg end in
  should_fits should' -> forallb summary_line_ok srunes = true -> no_cr_lines (map utf8_encode srunes) ->
  exists file' recs',
    exec_simple now cfg (Create ds should (map utf8_encode srunes)) file = COk file' /\
    spec_state file' recs' /\
    denote_recs recs' =
      insert_record {| rec_date := a_new_date d (date_format cfg ds) (denote_recs recs); rec_should := should';
                       rec_summary := map utf8_encode srunes; rec_entries := [] |} (denote_recs recs) /\
    exists bs', parse_text file' = Ok (Parsed (denote_recs recs') bs').
Proof.
  intros (lead & gs & C & Hsafe) Hd Hv should' Hsh Hsum Hcr. unfold spec_file in C.
  destruct (new_record_conforming _ lead gs recs d (date_format cfg ds) should' srunes I4 C Hsafe Hv Hsh Hsum Hcr)
    as (rc & lead' & gs' & recs' & k & g_new & gap & Hrc & Hst & Heol & C' & S' & Hg' & Hrg' & Hden & _ & _).
  pose proof (conforms_parse _ _ _ _ C') as P'.
  exists (text_of_lines (rc_lines rc)), recs'. split; [|split; [|split]].
  - unfold exec_simple. rewrite Hd. cbn [of_outcome cbind].
    rewrite reconcile_file_unfold, (spec_file_parse file lead gs recs C). cbn [cbind].
    unfold first_creator, new_record. fold should'. rewrite Hrc. cbn [of_outcome flat_map app cbind run_steps fold_left].
    unfold make_result. rewrite P'. reflexivity.
  - exact (spec_state_of_conforms _ _ _ _ C' S').
  - rewrite Hden, (denote_s_new_record _ _ _ _ Hsh), (new_date_abstract d _ recs lead gs (cf_groups _ _ _ _ C)). reflexivity.
  - eexists. exact P'.
Qed.

(* ---------------------------------------------------------------- track, the record being created *)

Lemma find_record_idx_none_at d rs bs : find_record_idx d rs 0 = None -> reconciler_at_record d rs bs = None.
Proof. unfold reconciler_at_record. intros ->. reflexivity. Qed.

Theorem track_new now cfg ds file recs d se :
  spec_state file recs -> at_date now ds = Ok d -> valid_cdate (dt d) = true ->
  find_record_idx (dt d) (denote_recs recs) 0 = None ->
  should_fits (cfg_should cfg) ->
  wf_entry se = true -> no_cr_lines (entry_arg se) ->
  exists file' recs',
    exec_simple now cfg (Track ds (entry_arg se)) file = COk file' /\
    spec_state file' recs' /\
    denote_recs recs' =
      insert_record {| rec_date := a_new_date d (date_format cfg ds) (denote_recs recs); rec_should := cfg_should cfg;
                       rec_summary := []; rec_entries := [denote_entry se] |} (denote_recs recs) /\
    exists bs', parse_text file' = Ok (Parsed (denote_recs recs') bs').
Proof.
  intros (lead & gs & C & Hsafe) Hd Hv Hnone Hsh We Hcr. unfold spec_file in C.
  set (rs := denote_recs recs). set (bs := expect_blocks 0 lead gs).
  destruct (elect_indent_ok default_style rs bs ltac:(exists I4; reflexivity)) as (j & Hj).
  destruct (new_record_conforming _ lead gs recs d (date_format cfg ds) (cfg_should cfg) [] j C Hsafe Hv Hsh eq_refl eq_refl)
    as (rc & lead' & gs' & recs' & k & g_new & gap & Hrc & Hst & Heol & C' & S' & Hg' & Hrg' & Hden & Hlast & Hk).
  fold rs bs in Hrc, Hst, Heol, Hden, Hrg', Hk. cbn [map] in Hrc.
  set (r_new := s_new_record (new_date d (date_format cfg ds) (elect default_style rs bs)) (cfg_should cfg) [] j) in *.
  assert (P : points_at rc (rc_lines rc) lead' gs' recs' k (r_new, gap) g_new j).
  { constructor; try assumption; try reflexivity.
    - exact (Hlast eq_refl).
    - rewrite Hst. exact Heol.
    - rewrite Hst. exact Hj. }
  destruct (insert_entry_conforming _ _ _ _ _ _ _ _ _ se P We Hcr) as (L'' & g'' & HI & C'' & S'').
  { cbn [fst]. unfold r_new, s_new_record. cbn [sr_entries app]. unfold count_open. cbn [filter]. destruct (is_open_value (se_value se)); cbn; lia. }
  pose proof (conforms_parse _ _ _ _ C'') as P''.
  exists (text_of_lines L''), (set_nth k (s_add_entry j se (fst (r_new, gap)), snd (r_new, gap)) recs').
  split; [|split; [|split]].
  - unfold exec_simple. rewrite Hd. cbn [of_outcome cbind].
    rewrite reconcile_file_unfold, (spec_file_parse file lead gs recs C). cbn [cbind]. fold rs bs.
    unfold first_creator, at_record, new_record. rewrite (find_record_idx_none_at _ _ _ Hnone). rewrite Hrc.
    cbn [of_outcome flat_map app cbind run_steps fold_left].
    unfold append_entry. rewrite to_multiline_entry_arg, HI.
    cbn [lift_lines lift_r cbind]. unfold make_result. cbn [with_lines rc_lines]. rewrite P''. reflexivity.
  - exact (spec_state_of_conforms _ _ _ _ C'' S'').
  - cbn [fst snd]. rewrite denote_recs_set_nth, denote_s_add_entry, Hden, Hk.
    assert (Hdt : dt (rec_date (denote_record r_new)) = dt d) by (unfold r_new; rewrite (denote_s_new_record _ _ _ _ Hsh); reflexivity).
    rewrite <- Hdt. rewrite insert_record_set_nth by reflexivity.
    unfold r_new. rewrite (denote_s_new_record _ _ _ _ Hsh), (new_date_abstract d _ recs lead gs (cf_groups _ _ _ _ C)). reflexivity.
  - eexists. exact P''.
Qed.

(* ---------------------------------------------------------------- track: the abstract model and the refinement *)

Definition new_record_with (cfg : config) (d : date) (fmt : reformat bool) (es : list entry) (rs : list record) : record :=
  {| rec_date := a_new_date d fmt rs; rec_should := cfg_should cfg; rec_summary := []; rec_entries := es |}.

(* add the entry at the end of the first record dated [d]; without one, a new record at its chronological place *)
Definition a_add_entry (cfg : config) (d : date) (fmt : reformat bool) (e : entry) (rs : list record) : list record :=
  match find_record_idx (dt d) rs 0 with
  | Some i => match nth_error rs i with Some r => set_nth i (add_entry e r) rs | None => rs end
  | None => insert_record (new_record_with cfg d fmt [e] rs) rs
  end.

(* the model rejects a second open range in a record *)
Definition a_add_entry_ok (d : date) (e : entry) (rs : list record) : Prop :=
  match find_record_idx (dt d) rs 0 with
  | Some i => match nth_error rs i with
              | Some r => is_open e = true -> existsb is_open (rec_entries r) = false
              | None => True
              end
  | None => True
  end.

Lemma count_open_existsb es : existsb is_open (map denote_entry es) = false -> count_open es = O.
Proof.
  induction es as [|e es IH]; [reflexivity|]. cbn [map existsb]. rewrite is_open_denote. intros H.
  apply orb_false_iff in H as [H1 H2]. rewrite count_open_cons, H1, (IH H2). reflexivity.
Qed.

Lemma count_open_add r se : wf_record r = true ->
  (is_open (denote_entry se) = true -> existsb is_open (rec_entries (denote_record r)) = false) ->
  (count_open (sr_entries r ++ [se]) <= 1)%nat.
Proof.
  intros W H. destruct (wf_record_inv r W) as (_ & _ & _ & _ & _ & Hc).
  rewrite count_open_app. unfold count_open at 2. cbn [filter]. rewrite is_open_denote in H.
  destruct (is_open_value (se_value se)); cbn [List.length]; [|lia].
  unfold denote_record in H. cbn [rec_entries] in H. rewrite (count_open_existsb _ (H eq_refl)). lia.
Qed.

Theorem track_refines now cfg ds file recs d se :
  spec_state file recs -> at_date now ds = Ok d -> valid_cdate (dt d) = true -> should_fits (cfg_should cfg) ->
  wf_entry se = true -> no_cr_lines (entry_arg se) ->
  a_add_entry_ok d (denote_entry se) (denote_recs recs) ->
  exists file' recs',
    exec_simple now cfg (Track ds (entry_arg se)) file = COk file' /\
    spec_state file' recs' /\
    denote_recs recs' = a_add_entry cfg d (date_format cfg ds) (denote_entry se) (denote_recs recs) /\
    exists bs', parse_text file' = Ok (Parsed (denote_recs recs') bs').
Proof.
  intros S Hd Hv Hsh We Hcr Hok. unfold a_add_entry, a_add_entry_ok in *.
  destruct (find_record_idx (dt d) (denote_recs recs) 0) as [i|] eqn:Hf.
  - destruct (find_record_idx_nth _ _ _ _ Hf) as (k & r & -> & Hn & _). cbn [Nat.add] in *. rewrite Hn in *.
    unfold denote_recs in Hn. rewrite nth_error_map in Hn. destruct (nth_error recs k) as [rg|] eqn:Hrg; [|discriminate].
    injection Hn as <-.
    assert (Wr : wf_record (fst rg) = true).
    { destruct S as (lead & gs & C & _). pose proof (cf_wf _ _ _ _ C) as W. rewrite forallb_forall in W. exact (W rg (nth_error_In _ _ Hrg)). }
    destruct (track_existing now cfg ds file recs d k rg se S Hd Hf Hrg We Hcr (count_open_add _ _ Wr Hok)) as (file' & j & He & S' & bs' & P').
    exists file', (set_nth k (s_add_entry j se (fst rg), snd rg) recs). split; [exact He|]. split; [exact S'|].
    rewrite denote_recs_set_nth, denote_s_add_entry. split; [reflexivity|]. exists bs'. exact P'.
  - destruct (track_new now cfg ds file recs d se S Hd Hv Hf Hsh We Hcr) as (file' & recs' & He & S' & Hden & P').
    exists file', recs'. split; [exact He|]. split; [exact S'|]. split; [exact Hden|exact P'].
Qed.

(* ---------------------------------------------------------------- generic: a step that inserts one entry *)

(* the step inserts the texts of the specification entry [se] at the reconciler's insertion point *)
Definition inserts_entry (step : list record -> reconciler -> cresult reconciler) (rs : list record) (rc : reconciler) (se : s_entry) : Prop :=
  step rs rc = lift_r (lift_lines rc (insert (rc_style rc) (rc_last rc) (entry_itexts se) (rc_lines rc))).

Theorem existing_record_step file recs dd i rg step rest e_abs :
  spec_state file recs ->
  find_record_idx dd (denote_recs recs) 0 = Some i -> nth_error recs i = Some rg ->
  (forall rc, rc_record rc = denote_record (fst rg) ->
     (exists b lead gs, rc_style rc = elect (determine (denote_record (fst rg)) b) (denote_recs recs) (expect_blocks 0 lead gs)
                        /\ Forall2 group_of gs recs) ->
     exists se, wf_entry se = true /\ no_cr_lines (entry_arg se) /\ (count_open (sr_entries (fst rg) ++ [se]) <= 1)%nat /\
                denote_entry se = e_abs /\ inserts_entry step (denote_recs recs) rc se) ->
  exists file' recs',
    reconcile_file file (fun rs bs => first_creator (at_record dd rs bs :: rest rs bs)) [step] = COk file' /\
    spec_state file' recs' /\
    denote_recs recs' = set_nth i (add_entry e_abs (denote_record (fst rg))) (denote_recs recs) /\
    exists bs', parse_text file' = Ok (Parsed (denote_recs recs') bs').
Proof.
  intros (lead & gs & C & Hsafe) Hf Hrg Hstep. unfold spec_file in C.
  destruct (Forall2_nth_r _ _ _ _ _ (cf_groups _ _ _ _ C) Hrg) as (g & Hg & _).
  destruct (at_record_conforming _ lead gs recs dd i rg g C Hf Hrg Hg) as (rc & Hrc & F).
  destruct (at_record_points_at _ _ _ _ _ _ _ _ C Hsafe Hrg Hg F) as (j & P).
  destruct (Hstep rc (arf_record _ _ _ _ _ _ _ _ F)) as (se & We & Hcr & Hopen & Hden & Hins).
  { destruct (arf_style _ _ _ _ _ _ _ _ F) as (b & _ & Hst). exists b, lead, gs. split; [exact Hst|exact (cf_groups _ _ _ _ C)]. }
  destruct (insert_entry_conforming _ _ _ _ _ _ _ _ _ se P We Hcr Hopen) as (L' & g' & HI & C' & Hsafe').
  pose proof (conforms_parse _ _ _ _ C') as P'.
  exists (text_of_lines L'), (set_nth i (s_add_entry j se (fst rg), snd rg) recs).
  split; [|split; [|split]].
  - rewrite reconcile_file_unfold, (spec_file_parse file lead gs recs C). cbn [cbind].
    unfold first_creator, at_record. rewrite Hrc. cbn [flat_map app cbind run_steps fold_left].
    rewrite Hins, HI. cbn [lift_lines lift_r cbind]. unfold make_result. cbn [with_lines rc_lines]. rewrite P'. reflexivity.
  - exact (spec_state_of_conforms _ _ _ _ C' Hsafe').
  - rewrite denote_recs_set_nth, denote_s_add_entry, Hden. reflexivity.
  - eexists. exact P'.
Qed.

Theorem new_record_step cfg file recs d fmt step e_abs :
  spec_state file recs -> valid_cdate (dt d) = true -> should_fits (cfg_should cfg) ->
  find_record_idx (dt d) (denote_recs recs) 0 = None ->
  (forall rc, rc_record rc = {| rec_date := d; rec_should := cfg_should cfg; rec_summary := []; rec_entries := [] |} ->
     (exists lead gs, rc_style rc = elect default_style (denote_recs recs) (expect_blocks 0 lead gs) /\ Forall2 group_of gs recs) ->
     exists se, wf_entry se = true /\ no_cr_lines (entry_arg se) /\
                denote_entry se = e_abs /\ inserts_entry step (denote_recs recs) rc se) ->
  exists file' recs',
    reconcile_file file (fun rs bs => first_creator [at_record (dt d) rs bs; new_record d fmt (cfg_should cfg) [] rs bs]) [step] = COk file' /\
    spec_state file' recs' /\
    denote_recs recs' = insert_record (new_record_with cfg d fmt [e_abs] (denote_recs recs)) (denote_recs recs) /\
    exists bs', parse_text file' = Ok (Parsed (denote_recs recs') bs').
Proof.
  intros (lead & gs & C & Hsafe) Hv Hsh Hnone Hstep. unfold spec_file in C.
  set (rs := denote_recs recs) in *. set (bs := expect_blocks 0 lead gs).
  destruct (elect_indent_ok default_style rs bs ltac:(exists I4; reflexivity)) as (j & Hj).
  destruct (new_record_conforming _ lead gs recs d fmt (cfg_should cfg) [] j C Hsafe Hv Hsh eq_refl eq_refl)
    as (rc & lead' & gs' & recs' & k & g_new & gap & Hrc & Hst & Heol & C' & S' & Hg' & Hrg' & Hden & Hlast & Hk).
  fold rs bs in Hrc, Hst, Heol, Hden, Hrg', Hk. cbn [map] in Hrc.
  set (r_new := s_new_record (new_date d fmt (elect default_style rs bs)) (cfg_should cfg) [] j) in *.
  assert (P : points_at rc (rc_lines rc) lead' gs' recs' k (r_new, gap) g_new j).
  { constructor; try assumption; try reflexivity.
    - exact (Hlast eq_refl).
    - rewrite Hst. exact Heol.
    - rewrite Hst. exact Hj. }
  assert (Hrec : rc_record rc = {| rec_date := d; rec_should := cfg_should cfg; rec_summary := []; rec_entries := [] |}).
  { unfold reconciler_for_new_record in Hrc. cbv zeta in Hrc.
    destruct rs as [|r0 rs0]; [|destruct (negb _); [|destruct (nth_error bs _); [|discriminate]]];
      match type of Hrc with bind ?x _ = _ => destruct x; cbn [bind] in Hrc; [|discriminate|discriminate] end;
      injection Hrc as <-; reflexivity. }
  destruct (Hstep rc Hrec) as (se & We & Hcr & Hdene & Hins).
  { exists lead, gs. split; [exact Hst|exact (cf_groups _ _ _ _ C)]. }
  destruct (insert_entry_conforming _ _ _ _ _ _ _ _ _ se P We Hcr) as (L'' & g'' & HI & C'' & S'').
  { cbn [fst]. unfold r_new, s_new_record. cbn [sr_entries app]. unfold count_open. cbn [filter]. destruct (is_open_value (se_value se)); cbn; lia. }
  pose proof (conforms_parse _ _ _ _ C'') as P''.
  exists (text_of_lines L''), (set_nth k (s_add_entry j se (fst (r_new, gap)), snd (r_new, gap)) recs').
  split; [|split; [|split]].
  - rewrite reconcile_file_unfold, (spec_file_parse file lead gs recs C). cbn [cbind]. fold rs bs.
    unfold first_creator, at_record, new_record. rewrite (find_record_idx_none_at _ _ _ Hnone). rewrite Hrc.
    cbn [of_outcome flat_map app cbind run_steps fold_left].
    rewrite Hins, HI. cbn [lift_lines lift_r cbind]. unfold make_result. cbn [with_lines rc_lines]. rewrite P''. reflexivity.
  - exact (spec_state_of_conforms _ _ _ _ C'' S'').
  - cbn [fst snd]. rewrite denote_recs_set_nth, denote_s_add_entry, Hden, Hk, Hdene.
    assert (Hdt : dt (rec_date (denote_record r_new)) = dt d) by (unfold r_new; rewrite (denote_s_new_record _ _ _ _ Hsh); reflexivity).
    rewrite <- Hdt. rewrite insert_record_set_nth by reflexivity.
    unfold r_new, new_record_with. rewrite (denote_s_new_record _ _ _ _ Hsh), (new_date_abstract d _ recs lead gs (cf_groups _ _ _ _ C)). reflexivity.
  - eexists. exact P''.
Qed.

(* ---------------------------------------------------------------- the style of generated values, from the records *)

Definition entry_style3 (r : record) : sprop bool * sprop bool * sprop nat :=
  entry_style (rec_entries r) (st_24h default_style) (st_spaces default_style) (st_extra default_style).
Definition default_style3 : sprop bool * sprop bool * sprop nat :=
  (st_24h default_style, st_spaces default_style, st_extra default_style).

Lemma determine_entry_style r b :
  st_24h (determine r b) = fst (fst (entry_style3 r)) /\ st_spaces (determine r b) = snd (fst (entry_style3 r)) /\
  st_extra (determine r b) = snd (entry_style3 r).
Proof.
  unfold determine, entry_style3. destruct (entry_style _ _ _ _) as [[c24 spc] ext].
  destruct (significant_lines b) as [[sig hd] tl]. repeat split.
Qed.

(* the election over the records' own facts *)
Definition a_elect {A} (eqb : A -> A -> bool) (fr : record -> sprop A) (base : sprop A) (rs : list record) : A :=
  sp_val (ascertain eqb (votes_of (map fr rs)) base).

Lemma styles_field {A} (f : style -> sprop A) (fr : record -> sprop A) rs : (forall r b, f (determine r b) = fr r) ->
  forall bs, length rs = length bs -> map f (styles_of rs bs) = map fr rs.
Proof.
  intros Hf. unfold styles_of. induction rs as [|r rs IH]; intros [|b bs] H; try discriminate; [reflexivity|].
  cbn [combine map fst snd]. rewrite Hf. f_equal. apply IH. cbn [List.length] in H. lia.
Qed.

Definition f24 (r : record) := fst (fst (entry_style3 r)).
Definition fsp (r : record) := snd (fst (entry_style3 r)).
Definition fex (r : record) := snd (entry_style3 r).

Lemma elect_values_abstract base rs bs : length rs = length bs ->
  sp_val (st_24h (elect base rs bs)) = a_elect Bool.eqb f24 (st_24h base) rs /\
  sp_val (st_spaces (elect base rs bs)) = a_elect Bool.eqb fsp (st_spaces base) rs /\
  sp_val (st_extra (elect base rs bs)) = a_elect Nat.eqb fex (st_extra base) rs.
Proof.
  intros H. unfold a_elect. rewrite elect_24h, elect_spaces, elect_extra.
  rewrite (styles_field st_24h f24 rs (fun r b => proj1 (determine_entry_style r b)) bs H).
  rewrite (styles_field st_spaces fsp rs (fun r b => proj1 (proj2 (determine_entry_style r b))) bs H).
  rewrite (styles_field st_extra fex rs (fun r b => proj2 (proj2 (determine_entry_style r b))) bs H).
  repeat split.
Qed.

Definition reformat_time (t : time) (fmt : reformat bool) (auto : bool) : time :=
  match apply_reformat fmt auto with None => t | Some f => set_time_format t f end.

(* the open range `start` writes: the given time in the notation, dash spacing and placeholder length of the style *)
Definition a_open_range (t : time) (fmt : reformat bool) (base : sprop bool * sprop bool * sprop nat) (rs : list record) : open_range :=
  {| o_start := reformat_time t fmt (a_elect Bool.eqb f24 (fst (fst base)) rs);
     o_spaces := a_elect Bool.eqb fsp (snd (fst base)) rs;
     o_extra := a_elect Nat.eqb fex (snd base) rs |}.

Definition summary_or_empty (summary : list bytes) : list bytes := match summary with [] => [[]] | _ => summary end.

(* ---------------------------------------------------------------- summaries as command arguments *)

Definition summary_ok (summary : list bytes) : Prop :=
  exists first more,
    match summary with
    | [] => first = None /\ more = []
    | s0 :: ms => ms = map utf8_encode more /\ match first with None => s0 = [] | Some t => s0 = utf8_encode t /\ t <> [] end
    end /\
    match first with Some t => text_ok t = true | None => True end /\
    forallb (fun t => text_ok t && negb (all_blank t)) more = true /\
    no_cr_lines summary.

Lemma valid_time_ok t : valid_time t -> time_ok t = true.
Proof. unfold valid_time, time_ok. lia. Qed.

Lemma open_entry_se o summary : time_ok (o_start o) = true -> summary_ok summary ->
  exists se, wf_entry se = true /\ no_cr_lines (entry_arg se) /\
    denote_entry se = {| e_value := VOpen o; e_summary := summary_or_empty summary |} /\
    to_multiline (print_open_range o) summary = entry_itexts se.
Proof.
  intros Ht (first & more & Hshape & Hfirst & Hmore & Hcr).
  set (v := canon_value (VOpen o)).
  assert (Vok : value_ok (VOpen o) = true) by exact Ht.
  pose proof (wf_canon_value _ Vok) as Wv. fold v in Wv.
  pose proof (print_value_render _ Vok) as Pv. cbn [print_value] in Pv. fold v in Pv.
  destruct (render_value_text_ok v Wv) as [_ Av].
  pose proof (render_value_head v Wv) as Hh.
  pose proof (ends_in_cr_none _ (render_value_no_cr v Wv)) as Ncr.
  exists {| se_value := v; se_first := first; se_more := more |}.
  split; [|split; [|split]].
  - unfold wf_entry. cbn [se_value se_first se_more]. rewrite Wv, Hmore. destruct first as [t|]; [rewrite Hfirst|]; reflexivity.
  - unfold no_cr_lines, entry_arg, first_tail. cbn [se_value se_first se_more forallb].
    unfold no_cr_lines in Hcr. destruct summary as [|s0 ms].
    + destruct Hshape as [-> ->]. cbn [map forallb]. rewrite app_nil_r, (utf8_encode_ascii _ Av). unfold no_cr. rewrite Ncr. reflexivity.
    + destruct Hshape as [-> Hs0]. cbn [forallb] in Hcr. apply andb_true_iff in Hcr as [Hc0 Hcm]. rewrite Hcm, andb_true_r.
      destruct first as [t|].
      * destruct Hs0 as [-> Hne]. rewrite utf8_encode_app, (utf8_encode_ascii _ Av).
        change (32%N :: t) with ([32%N] ++ t). rewrite utf8_encode_app, app_assoc. unfold no_cr in *.
        rewrite ends_in_cr_app by (apply utf8_encode_nonempty; exact Hne). exact Hc0.
      * rewrite app_nil_r, (utf8_encode_ascii _ Av). unfold no_cr. rewrite Ncr. reflexivity.
  - unfold denote_entry. cbn [se_value se_first se_more]. unfold v. rewrite (denote_canon_value _ Vok). f_equal.
    destruct summary as [|s0 ms].
    + destruct Hshape as [-> ->]. reflexivity.
    + destruct Hshape as [-> Hs0]. cbn [summary_or_empty]. destruct first as [t|]; [destruct Hs0 as [-> _]|rewrite Hs0]; reflexivity.
  - unfold entry_itexts, first_tail. cbn [se_value se_first se_more]. rewrite Pv.
    destruct summary as [|s0 ms].
    + destruct Hshape as [-> ->]. cbn [to_multiline map]. rewrite app_nil_r, (utf8_encode_ascii _ Av). reflexivity.
    + destruct Hshape as [-> Hs0]. cbn [to_multiline]. f_equal. f_equal.
      destruct first as [t|].
      * destruct Hs0 as [-> Hne]. rewrite utf8_encode_app, (utf8_encode_ascii _ Av).
        change (32%N :: t) with ([32%N] ++ t). rewrite utf8_encode_app.
        destruct (render_value v) as [|c r]; [contradiction|].
        pose proof (utf8_encode_nonempty t Hne) as Hne'. destruct (utf8_encode t) as [|c' r']; [contradiction|]. reflexivity.
      * rewrite Hs0, !app_nil_r, (utf8_encode_ascii _ Av). destruct (render_value v); cbn [app]; rewrite ?app_nil_r; reflexivity.
Qed.

(* ---------------------------------------------------------------- start *)

Lemma find_last_idx_none p es : forall i c, existsb p es = false -> find_last_idx p es i c = c.
Proof.
  induction es as [|e es IH]; intros i c H; [reflexivity|]. cbn [existsb] in H. apply orb_false_iff in H as [H1 H2].
  cbn [find_last_idx]. rewrite H1. apply IH. exact H2.
Qed.

Lemma find_last_idx_some p es : forall i c, 0 <= i -> c < i -> existsb p es = true -> i <= find_last_idx p es i c.
Proof.
  induction es as [|e es IH]; intros i c Hi Hc H; [discriminate|]. cbn [existsb] in H. cbn [find_last_idx].
  destruct (p e) eqn:E.
  - destruct (existsb p es) eqn:E2.
    + specialize (IH (i + 1) i ltac:(lia) ltac:(lia) eq_refl). lia.
    + rewrite (find_last_idx_none p es (i + 1) i E2). lia.
  - cbn [orb] in H. specialize (IH (i + 1) c ltac:(lia) ltac:(lia) H). lia.
Qed.

Lemma find_open_index_none r : find_open_index r = -1 <-> existsb is_open (rec_entries r) = false.
Proof.
  unfold find_open_index. split.
  - intros H. destruct (existsb is_open (rec_entries r)) eqn:E; [|reflexivity].
    pose proof (find_last_idx_some is_open (rec_entries r) 0 (-1) ltac:(lia) ltac:(lia) E). lia.
  - apply find_last_idx_none.
Qed.

Lemma set_time_format_valid t f : valid_time t -> valid_time (set_time_format t f).
Proof. unfold valid_time, set_time_format. cbn. tauto. Qed.

Lemma start_open_range_eq rc t fmt summary : find_open_index (rc_record rc) = -1 -> valid_time t ->
  start_open_range rc t fmt summary =
  lift_lines rc (insert (rc_style rc) (rc_last rc)
    (to_multiline (print_open_range {| o_start := reformat_time t fmt (time_format_of (rc_style rc));
                                       o_spaces := sp_val (st_spaces (rc_style rc));
                                       o_extra := sp_val (st_extra (rc_style rc)) |}) summary) (rc_lines rc)).
Proof.
  intros Ho Hv. unfold start_open_range, reformat_time. rewrite Ho. cbn [Z.eqb negb].
  change ((-1 =? -1)) with true. cbn [negb].
  destruct (apply_reformat fmt (time_format_of (rc_style rc))) as [f|]; [|reflexivity].
  rewrite (time_roundtrip _ (set_time_format_valid t f Hv)). reflexivity.
Qed.

(* the abstract model of start *)
Definition a_start (cfg : config) (d : date) (fmt_d : reformat bool) (t : time) (fmt_t : reformat bool) (s : sum_args)
  (rs : list record) : cresult (list record) :=
  match find_record_idx (dt d) rs 0 with
  | Some i =>
    match nth_error rs i with
    | Some r =>
      if existsb is_open (rec_entries r) then CErr CEManipulation else
      let+ summary := resolve_summary s r (previous_record (dt d) rs) in
      COk (set_nth i (add_entry {| e_value := VOpen (a_open_range t fmt_t (entry_style3 r) rs); e_summary := summary_or_empty summary |} r) rs)
    | None => CCrash
    end
  | None =>
    let r0 := {| rec_date := d; rec_should := cfg_should cfg; rec_summary := []; rec_entries := [] |} in
    let+ summary := resolve_summary s r0 (previous_record (dt d) rs) in
    COk (insert_record (new_record_with cfg d fmt_d
           [{| e_value := VOpen (a_open_range t fmt_t default_style3 rs); e_summary := summary_or_empty summary |}] rs) rs)
  end.

(* every summary the command may resolve to is a specification-conforming one: the current record is one of the file
   (or the entry-less record being created), the previous record is one of the file *)
Definition summaries_ok (s : sum_args) (rs : list record) : Prop :=
  forall current previous summary, resolve_summary s current previous = COk summary ->
    (rec_entries current = [] \/ In current rs) ->
    match previous with Some p => In p rs | None => True end ->
    summary_ok summary.

Lemma previous_record_in d rs : match previous_record d rs with Some p => In p rs | None => True end.
Proof.
  unfold previous_record.
  assert (G : forall l acc, match acc with Some p => In p rs | None => True end -> (forall x, In x l -> In x rs) ->
            match fold_left (fun best r => if cdate_geb (dt (rec_date r)) d then best else
                                           match best with None => Some r | Some b => if cdate_geb (dt (rec_date b)) (dt (rec_date r)) then best else Some r end) l acc
            with Some p => In p rs | None => True end).
  { induction l as [|x l IH]; intros acc Hacc Hl; [exact Hacc|]. cbn [fold_left]. apply IH; [|intros y Hy; apply Hl; right; exact Hy].
    destruct (cdate_geb (dt (rec_date x)) d); [exact Hacc|]. destruct acc as [b|]; [|apply Hl; left; reflexivity].
    destruct (cdate_geb (dt (rec_date b)) (dt (rec_date x))); [exact Hacc|apply Hl; left; reflexivity]. }
  apply G; [exact I|auto].
Qed.

(* sufficient: the given --summary text is conforming, and no summary line of the file ends in a carriage return *)
Lemma entry_summary_ok se : wf_entry se = true -> no_cr_lines (e_summary (denote_entry se)) -> summary_ok (e_summary (denote_entry se)).
Proof.
  intros We Hcr. unfold wf_entry in We. apply andb_true_iff in We as [W1 Wm]. apply andb_true_iff in W1 as [_ Wf].
  unfold denote_entry in *. cbn [e_summary] in *.
  destruct (se_first se) as [t|] eqn:Ef.
  - destruct t as [|c t'].
    + exists None, (se_more se). split; [split; reflexivity|]. split; [exact I|]. split; [exact Wm|exact Hcr].
    + exists (Some (c :: t')), (se_more se). split; [split; [reflexivity|split; [reflexivity|discriminate]]|]. split; [exact Wf|]. split; [exact Wm|exact Hcr].
  - exists None, (se_more se). split; [split; reflexivity|]. split; [exact I|]. split; [exact Wm|exact Hcr].
Qed.

Lemma find_nth_entry_in r n e : find_nth_entry r n = Some e -> In e (rec_entries r).
Proof.
  unfold find_nth_entry. destruct (_ || _); [discriminate|]. apply nth_error_In.
Qed.

Theorem summaries_ok_of s recs :
  forallb (fun rg => wf_record (fst rg)) recs = true ->
  match s_text s with Some text => summary_ok text | None => True end ->
  (forall rg se, In rg recs -> In se (sr_entries (fst rg)) -> no_cr_lines (e_summary (denote_entry se))) ->
  summaries_ok s (denote_recs recs).
Proof.
  intros W Htext Hcr current previous summary Hres Hcur Hprev.
  assert (Hent : forall r e, In r (denote_recs recs) -> In e (rec_entries r) -> summary_ok (e_summary e)).
  { intros r e Hr He. unfold denote_recs in Hr. apply in_map_iff in Hr as (rg & <- & Hrg).
    unfold denote_record in He. cbn [rec_entries] in He. apply in_map_iff in He as (se & <- & Hse).
    rewrite forallb_forall in W. specialize (W rg Hrg). destruct (wf_record_inv _ W) as (_ & _ & _ & _ & Wes & _).
    rewrite forallb_forall in Wes. exact (entry_summary_ok se (Wes se Hse) (Hcr rg se Hrg Hse)). }
  assert (Hempty : summary_ok []).
  { exists None, []. split; [split; reflexivity|]. split; [exact I|]. split; reflexivity. }
  assert (Hcurent : forall n e, find_nth_entry current n = Some e -> summary_ok (e_summary e)).
  { intros n e He. apply find_nth_entry_in in He. destruct Hcur as [Hc|Hc]; [rewrite Hc in He; destruct He|exact (Hent _ _ Hc He)]. }
  unfold resolve_summary in Hres. destruct (s_text s) as [text|].
  - destruct (s_resume s || negb (s_nth s =? 0)); [discriminate|]. injection Hres as <-. exact Htext.
  - destruct (s_resume s && negb (s_nth s =? 0)); [discriminate|].
    destruct (s_resume s).
    + destruct (find_nth_entry current (-1)) as [e|] eqn:E1; [injection Hres as <-; exact (Hcurent _ _ E1)|].
      destruct previous as [p|]; [|injection Hres as <-; exact Hempty].
      destruct (find_nth_entry p (-1)) as [e|] eqn:E2; [|injection Hres as <-; exact Hempty].
      injection Hres as <-. exact (Hent p e Hprev (find_nth_entry_in _ _ _ E2)).
    + destruct (negb (s_nth s =? 0)); [|injection Hres as <-; exact Hempty].
      destruct (find_nth_entry current (s_nth s)) as [e|] eqn:E1; [|discriminate]. injection Hres as <-. exact (Hcurent _ _ E1).
Qed.

Theorem start_refines now cfg a s file recs d t rs' :
  spec_state file recs -> at_date now (a_date a) = Ok d -> at_time now cfg a = COk t -> valid_time t ->
  valid_cdate (dt d) = true -> should_fits (cfg_should cfg) ->
  summaries_ok s (denote_recs recs) ->
  a_start cfg d (date_format cfg (a_date a)) t (time_format cfg a) s (denote_recs recs) = COk rs' ->
  exists file' recs',
    exec_simple now cfg (Start a s) file = COk file' /\
    spec_state file' recs' /\ denote_recs recs' = rs' /\
    exists bs', parse_text file' = Ok (Parsed (denote_recs recs') bs').
Proof.
  intros S Hd Ht Hvt Hv Hsh Hsum Ha. unfold a_start in Ha.
  unfold exec_simple. rewrite Hd. cbn [of_outcome cbind]. rewrite Ht. cbn [cbind].
  set (rs := denote_recs recs) in *.
  destruct (find_record_idx (dt d) rs 0) as [i|] eqn:Hf.
  - destruct (find_record_idx_nth _ _ _ _ Hf) as (k & r & -> & Hn & _). cbn [Nat.add] in *. rewrite Hn in Ha.
    pose proof Hn as Hn'. unfold rs, denote_recs in Hn'. rewrite nth_error_map in Hn'. destruct (nth_error recs k) as [rg|] eqn:Hrg; [|discriminate].
    injection Hn' as <-.
    destruct (existsb is_open (rec_entries (denote_record (fst rg)))) eqn:Eopen; [discriminate|].
    apply cbind_ok in Ha as (summary & Hres & Ha). injection Ha as <-.
    assert (Wr : wf_record (fst rg) = true).
    { destruct S as (lead & gs & C & _). pose proof (cf_wf _ _ _ _ C) as W. rewrite forallb_forall in W. exact (W rg (nth_error_In _ _ Hrg)). }
    apply (existing_record_step file recs (dt d) k rg _ (fun rs bs => [new_record d (date_format cfg (a_date a)) (cfg_should cfg) [] rs bs]) _ S Hf Hrg).
    intros rc Hrec (b & lead & gs & Hst & F).
    assert (Hlen : length rs = length (expect_blocks 0 lead gs)).
    { rewrite expect_blocks_length. unfold rs, denote_recs. rewrite map_length. symmetry. exact (Forall2_len _ _ _ F). }
    destruct (elect_values_abstract (determine (denote_record (fst rg)) b) rs _ Hlen) as (E24 & Esp & Eex).
    destruct (determine_entry_style (denote_record (fst rg)) b) as (D24 & Dsp & Dex). rewrite D24 in E24. rewrite Dsp in Esp. rewrite Dex in Eex.
    assert (Hok : summary_ok summary).
    { apply (Hsum _ _ _ Hres); [right; exact (nth_error_In _ _ Hn)|apply previous_record_in]. }
    set (o := a_open_range t (time_format cfg a) (entry_style3 (denote_record (fst rg))) rs).
    assert (Hto : time_ok (o_start o) = true).
    { apply valid_time_ok. unfold o, a_open_range, reformat_time. cbn [o_start]. destruct (apply_reformat _ _); [apply set_time_format_valid|]; exact Hvt. }
    destruct (open_entry_se o summary Hto Hok) as (se & We & Hcr & Hden & Hmul).
    exists se. split; [exact We|]. split; [exact Hcr|]. split.
    { apply (count_open_add _ _ Wr). intros _. exact Eopen. }
    split; [exact Hden|].
    unfold inserts_entry. rewrite Hrec. fold rs. rewrite Hres. cbn [cbind].
    rewrite start_open_range_eq; [|rewrite Hrec; apply find_open_index_none; exact Eopen|exact Hvt].
    rewrite <- Hmul. unfold o, a_open_range, time_format_of. rewrite Hst. fold rs. rewrite E24, Esp, Eex. reflexivity.
  - apply cbind_ok in Ha as (summary & Hres & Ha). injection Ha as <-.
    apply (new_record_step cfg file recs d (date_format cfg (a_date a)) _ _ S Hv Hsh Hf).
    intros rc Hrec (lead & gs & Hst & F).
    assert (Hlen : length rs = length (expect_blocks 0 lead gs)).
    { rewrite expect_blocks_length. unfold rs, denote_recs. rewrite map_length. symmetry. exact (Forall2_len _ _ _ F). }
    destruct (elect_values_abstract default_style rs _ Hlen) as (E24 & Esp & Eex).
    assert (Hok : summary_ok summary).
    { apply (Hsum _ _ _ Hres); [left; reflexivity|apply previous_record_in]. }
    set (o := a_open_range t (time_format cfg a) default_style3 rs).
    assert (Hto : time_ok (o_start o) = true).
    { apply valid_time_ok. unfold o, a_open_range, reformat_time. cbn [o_start]. destruct (apply_reformat _ _); [apply set_time_format_valid|]; exact Hvt. }
    destruct (open_entry_se o summary Hto Hok) as (se & We & Hcr & Hden & Hmul).
    exists se. split; [exact We|]. split; [exact Hcr|]. split; [exact Hden|].
    unfold inserts_entry. rewrite Hrec. fold rs. rewrite Hres. cbn [cbind].
    rewrite start_open_range_eq; [|rewrite Hrec; reflexivity|exact Hvt].
    rewrite <- Hmul. unfold o, a_open_range, time_format_of, default_style3. rewrite Hst. fold rs. cbn [fst snd]. rewrite E24, Esp, Eex. reflexivity.
Qed.

(* ---------------------------------------------------------------- the place of a new record is the chronological one *)

Definition rdays (r : record) : Z := days_of (dt (rec_date r)).
Definition dates_wf (rs : list record) : Prop := Forall (fun r => Proofs.Calendar.wf_date (dt (rec_date r))) rs.
Definition date_sorted (rs : list record) : Prop := StronglySorted (fun a b => rdays a <= rdays b) rs.

Lemma new_record_position_spec d rs : Proofs.Calendar.wf_date d -> dates_wf rs -> date_sorted rs -> forall i0 r0 rest, rs = r0 :: rest ->
  days_of (dt (rec_date r0)) <= days_of d ->
  let k := (new_record_position d rs i0 - i0)%nat in
  (forall r, In r (firstn (S k) rs) -> rdays r <= days_of d) /\ (forall r, In r (skipn (S k) rs) -> days_of d < rdays r).
Proof.
  intros Wd. induction rs as [|r rs IH]; intros Wf Hs i0 r0 rest E H0; [discriminate|]. injection E as <- <-.
  inversion Wf as [|? ? Wr Wrest]; subst. inversion Hs as [|? ? Hs' Hle]; subst.
  destruct rs as [|r2 rs'].
  - cbn [new_record_position]. rewrite Nat.sub_diag. cbn [firstn skipn]. split; [intros x [<-|[]]; exact H0|intros x []].
  - change (new_record_position d (r :: r2 :: rs') i0) with
      (if cdate_geb d (dt (rec_date r)) && negb (cdate_geb d (dt (rec_date r2))) then i0 else new_record_position d (r2 :: rs') (S i0)).
    inversion Wrest as [|? ? Wr2 Wrest']; subst.
    destruct (cdate_geb d (dt (rec_date r)) && negb (cdate_geb d (dt (rec_date r2)))) eqn:E.
    + rewrite Nat.sub_diag. cbn [firstn skipn]. split; [intros x [<-|[]]; exact H0|].
      apply andb_true_iff in E as [_ E2]. apply negb_true_iff in E2.
      assert (Hlt : days_of d < rdays r2).
      { unfold rdays. destruct (Z_lt_le_dec (days_of d) (days_of (dt (rec_date r2)))) as [L|L]; [exact L|].
        apply (cdate_geb_days d _ Wd Wr2) in L. congruence. }
      intros x [<-|Hx]; [exact Hlt|]. inversion Hs' as [|? ? _ Hle2]; subst. rewrite Forall_forall in Hle2. specialize (Hle2 x Hx). lia.
    + assert (H2 : days_of (dt (rec_date r2)) <= days_of d).
      { apply (cdate_geb_days d _ Wd Wr) in H0. rewrite H0 in E. cbn [andb] in E. apply negb_false_iff in E.
        apply (cdate_geb_days d _ Wd Wr2). exact E. }
      pose proof (new_record_position_bound d (r2 :: rs') (S i0) ltac:(discriminate)) as B.
      destruct (IH Wrest Hs' (S i0) r2 rs' eq_refl H2) as [A1 A2].
      replace (new_record_position d (r2 :: rs') (S i0) - i0)%nat with (S (new_record_position d (r2 :: rs') (S i0) - S i0)) by lia.
      cbn [firstn skipn]. split; [intros x [<-|Hx]; [exact H0|exact (A1 x Hx)]|exact A2].
Qed.

Lemma sorted_app_mid (a : list record) x b : date_sorted a -> date_sorted b ->
  (forall r, In r a -> rdays r <= rdays x) -> (forall r, In r b -> rdays x <= rdays r) ->
  (forall r1 r2, In r1 a -> In r2 b -> rdays r1 <= rdays r2) -> date_sorted (a ++ x :: b).
Proof.
  intros Ha Hb Hax Hxb Hab. induction Ha as [|y a Ha IH Hy]; cbn [app].
  - constructor; [exact Hb|]. apply Forall_forall. exact Hxb.
  - constructor.
    + apply IH; [intros r Hr; apply Hax; right; exact Hr|intros r1 r2 H1 H2; apply Hab; [right; exact H1|exact H2]].
    + apply Forall_forall. intros z Hz. apply in_app_or in Hz as [Hz|[<-|Hz]].
      * rewrite Forall_forall in Hy. exact (Hy z Hz).
      * apply Hax. left. reflexivity.
      * apply Hab; [left; reflexivity|exact Hz].
Qed.

Lemma sorted_firstn n rs : date_sorted rs -> date_sorted (firstn n rs).
Proof.
  intros H. revert n. induction H as [|x rs H IH Hx]; intros [|n]; cbn [firstn]; try constructor; [apply IH|].
  apply Forall_forall. intros y Hy. rewrite Forall_forall in Hx. exact (Hx y (in_firstn _ _ _ Hy)).
Qed.

Lemma sorted_skipn n rs : date_sorted rs -> date_sorted (skipn n rs).
Proof. intros H. revert n. induction H as [|x rs H IH Hx]; intros [|n]; cbn [skipn]; try constructor; auto. Qed.

Lemma sorted_pairs rs : date_sorted rs -> forall n r1 r2, In r1 (firstn n rs) -> In r2 (skipn n rs) -> rdays r1 <= rdays r2.
Proof.
  intros H. induction H as [|x rs H IH Hx]; intros [|n] r1 r2 H1 H2; cbn [firstn skipn] in *; try (destruct H1; fail).
  destruct H1 as [<-|H1]; [rewrite Forall_forall in Hx; exact (Hx r2 (in_skipn _ _ _ H2))|exact (IH n r1 r2 H1 H2)].
Qed.

(* a new record goes to its chronological position: a file in date order stays in date order *)
Theorem insert_record_sorted x rs : Proofs.Calendar.wf_date (dt (rec_date x)) -> dates_wf rs -> date_sorted rs ->
  date_sorted (insert_record x rs).
Proof.
  intros Wx Wf Hs. unfold insert_record. destruct rs as [|r0 rest]; [constructor; [constructor|constructor]|].
  inversion Wf as [|? ? W0 Wrest]; subst.
  destruct (negb (cdate_geb (dt (rec_date x)) (dt (rec_date r0)))) eqn:E.
  - apply negb_true_iff in E.
    assert (Hlt : rdays x < rdays r0).
    { unfold rdays. destruct (Z_lt_le_dec (days_of (dt (rec_date x))) (days_of (dt (rec_date r0)))) as [L|L]; [exact L|].
      apply (cdate_geb_days _ _ Wx W0) in L. congruence. }
    constructor; [exact Hs|]. apply Forall_forall. intros y [<-|Hy]; [lia|].
    inversion Hs as [|? ? _ Hle]; subst. rewrite Forall_forall in Hle. specialize (Hle y Hy). lia.
  - apply negb_false_iff in E. apply (cdate_geb_days _ _ Wx W0) in E.
    set (i := new_record_position (dt (rec_date x)) (r0 :: rest) 0).
    destruct (new_record_position_spec (dt (rec_date x)) (r0 :: rest) Wx Wf Hs 0%nat r0 rest eq_refl E) as [A1 A2].
    rewrite Nat.sub_0_r in A1, A2. fold i in A1, A2.
    apply sorted_app_mid; [apply sorted_firstn; exact Hs|apply sorted_skipn; exact Hs|exact A1| |exact (sorted_pairs _ Hs (S i))].
    intros r Hr. specialize (A2 r Hr). unfold rdays in *. lia.
Qed.
