(* Lemmas about Model/Lines.v (C08; used by C06 and C10): the line splitter and the block splitter
   lose nothing, number consecutively, and every block is blank* significant+ blank*. *)
From Klog Require Import Base.Prelude Base.Utf8 Model.Values Model.Lines.
From Coq Require Import ZifyBool.
Open Scope nat_scope.

(* ================= lines ================= *)

Lemma raw_lines_acc_concat s cur : List.concat (raw_lines_acc s cur) = rev cur ++ s.
Proof.
  revert cur; induction s as [|c r IH]; intros cur; cbn [raw_lines_acc].
  - destruct cur as [|x cur]; [reflexivity|]. cbn [List.concat]. reflexivity.
  - destruct (c =? 10)%N.
    + cbn [List.concat]. rewrite IH. cbn [rev app]. rewrite <- app_assoc. reflexivity.
    + rewrite IH. cbn [rev]. rewrite <- app_assoc. reflexivity.
Qed.

Lemma raw_lines_concat s : List.concat (raw_lines s) = s.
Proof. unfold raw_lines. rewrite raw_lines_acc_concat. reflexivity. Qed.

Lemma original_no_ending t : original {| l_text := t; l_ending := [] |} = t.
Proof. unfold original; cbn [l_text l_ending]. apply app_nil_r. Qed.

(* splitOffLineEnding followed by Original() is the identity on every byte string *)
Lemma new_line_original raw : original (new_line raw) = raw.
Proof.
  unfold new_line. set (l := rev raw).
  assert (Hl : raw = rev l) by (subst l; symmetry; apply rev_involutive).
  clearbody l. subst raw.
  destruct l as [|a l]; [reflexivity|].
  destruct a as [|p]; [apply original_no_ending|].
  destruct p as [p|p|]; [apply original_no_ending| |apply original_no_ending].
  destruct p as [p|p|]; [|apply original_no_ending|apply original_no_ending].
  destruct p as [p|p|]; [apply original_no_ending| |apply original_no_ending].
  destruct p as [p|p|]; [apply original_no_ending|apply original_no_ending|].
  (* a = 10 *)
  assert (Hlf : forall r, original {| l_text := rev r; l_ending := [10%N] |} = rev (10%N :: r)) by reflexivity.
  destruct l as [|b l]; [apply Hlf|].
  destruct b as [|p]; [apply Hlf|].
  destruct p as [p|p|]; [|apply Hlf|apply Hlf].
  destruct p as [p|p|]; [apply Hlf| |apply Hlf].
  destruct p as [p|p|]; [|apply Hlf|apply Hlf].
  destruct p as [p|p|]; [apply Hlf|apply Hlf|].
  (* b = 13 *)
  unfold original; cbn [l_text l_ending rev]. rewrite <- !app_assoc. reflexivity.
Qed.

Lemma text_of_new_lines rl : text_of_lines (map new_line rl) = List.concat rl.
Proof.
  unfold text_of_lines. induction rl as [|x rl IH]; [reflexivity|].
  cbn [map flat_map List.concat]. rewrite new_line_original, IH. reflexivity.
Qed.

Theorem lines_lossless s : text_of_lines (lines_of s) = s.
Proof. unfold lines_of. rewrite text_of_new_lines. apply raw_lines_concat. Qed.

(* ================= the two scanners ================= *)

Definition blank (l : line) : Prop := is_blank l = true.
Definition signif (l : line) : Prop := is_blank l = false.

(* the list is empty or starts with a significant (resp. blank) line *)
Definition head_signif (ls : list line) : Prop := match ls with [] => True | l :: _ => signif l end.
Definition head_blank (ls : list line) : Prop := match ls with [] => True | l :: _ => blank l end.

Lemma take_blank_spec ls a b : take_blank ls = (a, b) ->
  ls = a ++ b /\ Forall blank a /\ head_signif b.
Proof.
  revert a b; induction ls as [|l r IH]; intros a b H; cbn [take_blank] in H.
  - injection H as <- <-. repeat split; constructor.
  - destruct (is_blank l) eqn:E.
    + destruct (take_blank r) as [a' b'] eqn:E'. injection H as <- <-.
      destruct (IH _ _ eq_refl) as (H1 & H2 & H3). subst r. repeat split; [constructor; assumption|assumption].
    + injection H as <- <-. repeat split; [constructor|exact E].
Qed.

Lemma take_significant_spec ls a b : take_significant ls = (a, b) ->
  ls = a ++ b /\ Forall signif a /\ head_blank b.
Proof.
  revert a b; induction ls as [|l r IH]; intros a b H; cbn [take_significant] in H.
  - injection H as <- <-. repeat split; constructor.
  - destruct (is_blank l) eqn:E.
    + injection H as <- <-. repeat split; [constructor|exact E].
    + destruct (take_significant r) as [a' b'] eqn:E'. injection H as <- <-.
      destruct (IH _ _ eq_refl) as (H1 & H2 & H3). subst r. repeat split; [constructor; assumption|assumption].
Qed.

Lemma take_blank_app a b : Forall blank a -> head_signif b -> take_blank (a ++ b) = (a, b).
Proof.
  intros Ha Hb. induction Ha as [|l a Hl Ha IH]; cbn [app].
  - destruct b as [|l r]; [reflexivity|]. cbn [take_blank]. cbn in Hb. unfold signif in Hb. rewrite Hb. reflexivity.
  - cbn [take_blank]. unfold blank in Hl. rewrite Hl, IH. reflexivity.
Qed.

Lemma take_significant_app a b : Forall signif a -> head_blank b -> take_significant (a ++ b) = (a, b).
Proof.
  intros Ha Hb. induction Ha as [|l a Hl Ha IH]; cbn [app].
  - destruct b as [|l r]; [reflexivity|]. cbn [take_significant]. cbn in Hb. unfold blank in Hb. rewrite Hb. reflexivity.
  - cbn [take_significant]. unfold signif in Hl. rewrite Hl, IH. reflexivity.
Qed.

Lemma head_blank_all ls : Forall blank ls -> head_blank ls.
Proof. intros H; destruct H; [exact I|assumption]. Qed.

(* ================= one block ================= *)

(* blank* significant+ blank* *)
Definition shape (bl : list line) (head sig tail : list line) : Prop :=
  bl = head ++ sig ++ tail /\ sig <> [] /\ Forall blank head /\ Forall signif sig /\ Forall blank tail.

Lemma parse_block_some ls bl rest : parse_block ls = (Some bl, rest) ->
  ls = bl ++ rest /\ head_signif rest /\ exists head sig tail, shape bl head sig tail.
Proof.
  unfold parse_block. intros H.
  destruct (take_blank ls) as [head r1] eqn:E1.
  destruct (take_significant r1) as [sig r2] eqn:E2.
  destruct sig as [|s sig]; [discriminate|].
  destruct (take_blank r2) as [tail r3] eqn:E3.
  injection H as <- <-.
  apply take_blank_spec in E1 as (-> & Hh & _).
  apply take_significant_spec in E2 as (-> & Hs & _).
  apply take_blank_spec in E3 as (-> & Ht & Hr).
  split; [repeat (cbn [app]; rewrite <- app_assoc); reflexivity|]. split; [exact Hr|].
  exists head, (s :: sig), tail. repeat split; try assumption. discriminate.
Qed.

Lemma parse_block_none ls rest : parse_block ls = (None, rest) -> Forall blank ls.
Proof.
  unfold parse_block. intros H.
  destruct (take_blank ls) as [head r1] eqn:E1.
  destruct (take_significant r1) as [sig r2] eqn:E2.
  apply take_blank_spec in E1 as (-> & Hh & Hr1).
  destruct sig as [|s sig].
  - apply take_significant_spec in E2 as (-> & _ & Hr2). cbn [app] in *.
    destruct r2 as [|l r2]; [rewrite app_nil_r; exact Hh|].
    cbn in Hr1, Hr2. unfold signif, blank in *. congruence.
  - destruct (take_blank r2); discriminate.
Qed.

Lemma parse_block_all_blank ls : Forall blank ls -> parse_block ls = (None, []).
Proof.
  intros H. unfold parse_block.
  rewrite <- (app_nil_r ls). rewrite (take_blank_app ls [] H I). reflexivity.
Qed.

Lemma shape_nonempty bl head sig tail : shape bl head sig tail -> 1 <= length bl.
Proof.
  intros (-> & Hne & _). rewrite !app_length. destruct sig; [congruence|cbn [length]; lia].
Qed.

Lemma shape_significant_lines b head sig tail : shape (b_lines b) head sig tail ->
  significant_lines b = (sig, length head, length tail).
Proof.
  intros (Hb & Hne & Hh & Hs & Ht). unfold significant_lines. rewrite Hb.
  rewrite (take_blank_app head (sig ++ tail) Hh).
  - rewrite (take_significant_app sig tail Hs (head_blank_all _ Ht)). reflexivity.
  - destruct sig as [|s sig]; [congruence|]. cbn. inversion Hs; assumption.
Qed.

(* ================= all blocks ================= *)

Definition has_signif (ls : list line) : Prop := exists l, In l ls /\ is_blank l = false.

Lemma not_all_blank ls : has_signif ls -> ~ Forall blank ls.
Proof.
  intros (l & Hin & Hl) H. rewrite Forall_forall in H. specialize (H l Hin). unfold blank in H. congruence.
Qed.

Lemma head_signif_cases ls : head_signif ls -> ls = [] \/ has_signif ls.
Proof.
  destruct ls as [|l r]; [left; reflexivity|]. intros H. right. exists l. split; [left; reflexivity|exact H].
Qed.

Lemma blocks_fuel_flatten fuel p ls : length ls <= fuel -> ls = [] \/ has_signif ls ->
  flatten_blocks (blocks_fuel fuel p ls) = ls.
Proof.
  revert p ls; induction fuel as [|k IH]; intros p ls Hlen Hs.
  - destruct ls; [reflexivity|cbn in Hlen; lia].
  - cbn [blocks_fuel]. destruct (parse_block ls) as [[bl|] rest] eqn:E.
    + apply parse_block_some in E as (-> & Hr & head & sig & tail & Hsh).
      pose proof (shape_nonempty _ _ _ _ Hsh) as Hn.
      unfold flatten_blocks. cbn [flat_map b_lines]. f_equal.
      apply IH; [rewrite app_length in Hlen; lia|]. apply head_signif_cases; exact Hr.
    + apply parse_block_none in E. destruct Hs as [->|Hs]; [reflexivity|].
      exfalso. exact (not_all_blank _ Hs E).
Qed.

Theorem blocks_lossless ls : (exists l, In l ls /\ is_blank l = false) ->
  flatten_blocks (blocks_of_lines ls) = ls.
Proof. intros H. unfold blocks_of_lines. apply blocks_fuel_flatten; [lia|right; exact H]. Qed.

Theorem text_lossless s : (exists l, In l (lines_of s) /\ is_blank l = false) ->
  text_of_lines (flatten_blocks (blocks_of s)) = s.
Proof. intros H. unfold blocks_of. rewrite blocks_lossless by exact H. apply lines_lossless. Qed.

Theorem no_blocks_iff_all_blank ls :
  blocks_of_lines ls = [] <-> Forall (fun l => is_blank l = true) ls.
Proof.
  unfold blocks_of_lines. split.
  - intros H. destruct ls as [|l r]; [constructor|].
    cbn [length blocks_fuel] in H. destruct (parse_block (l :: r)) as [[bl|] rest] eqn:E; [discriminate|].
    exact (parse_block_none _ _ E).
  - intros H. destruct (length ls); [reflexivity|]. cbn [blocks_fuel].
    rewrite (parse_block_all_blank ls H). reflexivity.
Qed.

(* a block list is numbered consecutively from p *)
Fixpoint consecutive (p : nat) (bs : list block) : Prop :=
  match bs with
  | [] => True
  | b :: r => b_preceding b = p /\ consecutive (p + length (b_lines b)) r
  end.

Lemma blocks_fuel_consecutive fuel p ls : consecutive p (blocks_fuel fuel p ls).
Proof.
  revert p ls; induction fuel as [|k IH]; intros p ls; cbn [blocks_fuel]; [exact I|].
  destruct (parse_block ls) as [[bl|] rest]; [|exact I].
  cbn [consecutive b_preceding b_lines]. split; [reflexivity|apply IH].
Qed.

Lemma consecutive_app p pre b post : consecutive p (pre ++ b :: post) ->
  b_preceding b = p + length (flatten_blocks pre) /\ consecutive (b_preceding b) (b :: post).
Proof.
  revert p; induction pre as [|a pre IH]; intros p H.
  - cbn [app] in H. cbn [flatten_blocks flat_map length]. destruct H as [H1 H2].
    split; [lia|]. cbn [consecutive]. split; [reflexivity|]. rewrite H1. exact H2.
  - cbn [app consecutive] in H. destruct H as [H1 H2]. apply IH in H2 as [H3 H4].
    split; [|exact H4]. unfold flatten_blocks in *. cbn [flat_map]. rewrite app_length. lia.
Qed.

Theorem block_preceding_is_prefix_length ls pre b post : blocks_of_lines ls = pre ++ b :: post ->
  b_preceding b = length (flatten_blocks pre).
Proof.
  intros H. pose proof (blocks_fuel_consecutive (length ls) 0 ls) as Hc.
  fold (blocks_of_lines ls) in Hc. rewrite H in Hc. apply consecutive_app in Hc as [Hc _]. exact Hc.
Qed.

Theorem line_numbers_consecutive ls :
  (forall b rest, blocks_of_lines ls = b :: rest -> b_preceding b = 0) /\
  (forall pre b1 b2 post, blocks_of_lines ls = pre ++ b1 :: b2 :: post ->
     b_preceding b2 = b_preceding b1 + length (b_lines b1)).
Proof.
  split.
  - intros b rest H. apply (block_preceding_is_prefix_length ls [] b rest H).
  - intros pre b1 b2 post H.
    pose proof (block_preceding_is_prefix_length ls pre b1 (b2 :: post) H) as H1.
    assert (H' : blocks_of_lines ls = (pre ++ [b1]) ++ b2 :: post) by (rewrite <- app_assoc; exact H).
    pose proof (block_preceding_is_prefix_length ls _ b2 post H') as H2.
    rewrite H2, H1. unfold flatten_blocks. rewrite flat_map_app, app_length. cbn [flat_map]. rewrite app_nil_r. reflexivity.
Qed.

Lemma blocks_fuel_shape fuel p ls b : In b (blocks_fuel fuel p ls) ->
  exists head sig tail, shape (b_lines b) head sig tail.
Proof.
  revert p ls; induction fuel as [|k IH]; intros p ls H; cbn [blocks_fuel] in H; [destruct H|].
  destruct (parse_block ls) as [[bl|] rest] eqn:E; [|destruct H].
  destruct H as [<-|H]; [|exact (IH _ _ H)].
  apply parse_block_some in E as (_ & _ & Hsh). exact Hsh.
Qed.

Theorem block_shape ls b : In b (blocks_of_lines ls) ->
  exists head sig tail,
    significant_lines b = (sig, length head, length tail) /\ sig <> [] /\
    b_lines b = head ++ sig ++ tail /\
    Forall (fun l => is_blank l = true) head /\
    Forall (fun l => is_blank l = false) sig /\
    Forall (fun l => is_blank l = true) tail.
Proof.
  intros H. apply blocks_fuel_shape in H as (head & sig & tail & Hsh).
  exists head, sig, tail. split; [exact (shape_significant_lines _ _ _ _ Hsh)|].
  destruct Hsh as (H1 & H2 & H3 & H4 & H5). repeat split; assumption.
Qed.

(* in general the blocks are a prefix of the lines; what is left over is blank *)
Lemma blocks_fuel_prefix fuel p ls : length ls <= fuel ->
  exists trail, ls = flatten_blocks (blocks_fuel fuel p ls) ++ trail /\ Forall blank trail.
Proof.
  revert p ls; induction fuel as [|k IH]; intros p ls Hlen.
  - destruct ls; [|cbn in Hlen; lia]. exists []. split; [reflexivity|constructor].
  - cbn [blocks_fuel]. destruct (parse_block ls) as [[bl|] rest] eqn:E.
    + apply parse_block_some in E as (-> & Hr & head & sig & tail & Hsh).
      pose proof (shape_nonempty _ _ _ _ Hsh) as Hn.
      destruct (IH (p + length bl) rest) as (trail & Ht & Hb); [rewrite app_length in Hlen; lia|].
      exists trail. split; [|exact Hb].
      unfold flatten_blocks in *. cbn [flat_map b_lines]. rewrite <- app_assoc. f_equal. exact Ht.
    + apply parse_block_none in E. exists ls. split; [reflexivity|exact E].
Qed.

(* where a block's lines sit in the text *)
Lemma block_lines_located ls pre b post i l : blocks_of_lines ls = pre ++ b :: post ->
  nth_error (b_lines b) i = Some l -> nth_error ls (b_preceding b + i) = Some l.
Proof.
  intros H Hi.
  rewrite (block_preceding_is_prefix_length ls pre b post H).
  destruct (blocks_fuel_prefix (length ls) 0 ls (le_n _)) as (trail & Ht & _).
  fold (blocks_of_lines ls) in Ht. rewrite H in Ht. rewrite Ht.
  unfold flatten_blocks. rewrite flat_map_app. cbn [flat_map]. rewrite <- !app_assoc.
  rewrite nth_error_app2 by lia. replace (_ + i - _) with i by lia.
  rewrite nth_error_app1; [exact Hi|]. apply nth_error_Some. congruence.
Qed.

Theorem blocks_prefix ls :
  exists trail, ls = flatten_blocks (blocks_of_lines ls) ++ trail /\ Forall (fun l => is_blank l = true) trail.
Proof. exact (blocks_fuel_prefix (length ls) 0 ls (le_n _)). Qed.

Theorem block_lines_located_full ls pre b post i l :
  blocks_of_lines ls = pre ++ b :: post ->
  b_preceding b = length (flatten_blocks pre) /\
  (nth_error (b_lines b) i = Some l -> nth_error ls (overall_line_index b i) = Some l).
Proof.
  intros H. split;
    [exact (block_preceding_is_prefix_length ls pre b post H)|exact (block_lines_located ls pre b post i l H)].
Qed.

(* a text for the non-vacuity examples: " \r\n2020-01-01\r\na\rb\n\t\n\n2020-01-02\n    1h \xff"
   (CRLF and LF mixed, a lone CR inside a line, blank runs, invalid UTF-8, no final newline) *)
Definition example_text : bytes :=
  ([32;13;10] ++ b!"2020-01-01" ++ [13;10] ++ b!"a" ++ [13] ++ b!"b" ++ [10] ++ [9;10;10]
   ++ b!"2020-01-02" ++ [10] ++ b!"    1h " ++ [255])%N.

(* ================= the line splitter splits at every LF and nowhere else ================= *)

(* new_line with its byte patterns written as tests *)
Lemma new_line_spec raw :
  new_line raw =
  match rev raw with
  | a :: r =>
    if (a =? 10)%N then
      match r with
      | b :: r' => if (b =? 13)%N then {| l_text := rev r'; l_ending := [13; 10]%N |}
                   else {| l_text := rev r; l_ending := [10%N] |}
      | [] => {| l_text := rev r; l_ending := [10%N] |}
      end
    else {| l_text := raw; l_ending := [] |}
  | [] => {| l_text := raw; l_ending := [] |}
  end.
Proof.
  unfold new_line. destruct (rev raw) as [|a r]; [reflexivity|].
  destruct a as [|p]; [reflexivity|].
  repeat (try reflexivity; destruct p as [p|p|]).
  destruct r as [|b r']; [reflexivity|].
  destruct b as [|p]; [reflexivity|].
  repeat (try reflexivity; destruct p as [p|p|]).
Qed.

(* a raw line: no LF except a final one; only the last raw line may lack it, and is then non-empty *)
Definition raw_terminated (r : bytes) : Prop := exists t, r = t ++ [10%N] /\ ~ In 10%N t.
Definition raw_open (r : bytes) : Prop := r <> [] /\ ~ In 10%N r.

Inductive raw_list : list bytes -> Prop :=
| rl_nil : raw_list []
| rl_last r : raw_open r -> raw_list [r]
| rl_cons r rl : raw_terminated r -> raw_list rl -> raw_list (r :: rl).

Lemma raw_lines_acc_shape s cur : ~ In 10%N cur -> raw_list (raw_lines_acc s cur).
Proof.
  revert cur; induction s as [|c r IH]; intros cur Hc; cbn [raw_lines_acc].
  - destruct cur as [|x cur]; [constructor|]. apply rl_last. split.
    + intros E. apply (f_equal (@length _)) in E. rewrite rev_length in E. discriminate E.
    + intros Hin. apply in_rev in Hin. exact (Hc Hin).
  - destruct (c =? 10)%N eqn:E.
    + apply N.eqb_eq in E. subst c. apply rl_cons; [|apply IH; intros []].
      exists (rev cur). split; [reflexivity|]. intros Hin. apply in_rev in Hin. exact (Hc Hin).
    + apply IH. intros [Hin|Hin]; [|exact (Hc Hin)]. apply N.eqb_neq in E. congruence.
Qed.

Definition ends_with (t : bytes) (c : N) : Prop := exists t', t = t' ++ [c].

Lemma new_line_terminated r : raw_terminated r ->
  ~ In 10%N (l_text (new_line r)) /\
  ((l_ending (new_line r) = [10%N] /\ ~ ends_with (l_text (new_line r)) 13%N) \/
   l_ending (new_line r) = [13; 10]%N).
Proof.
  intros (t & -> & Ht). rewrite new_line_spec, rev_app_distr. cbn [rev app]. rewrite N.eqb_refl.
  destruct (rev t) as [|b r'] eqn:E.
  - cbn [rev l_text l_ending]. split; [intros []|]. left. split; [reflexivity|].
    intros (t' & Ht'). destruct t'; discriminate Ht'.
  - assert (Et : t = rev r' ++ [b]) by (rewrite <- (rev_involutive t), E; reflexivity).
    destruct (b =? 13)%N eqn:Eb; cbn [l_text l_ending].
    + split; [|right; reflexivity]. intros Hin. apply Ht. rewrite Et. apply in_or_app. left. exact Hin.
    + change (rev (b :: r')) with (rev r' ++ [b]). rewrite <- Et. split; [exact Ht|]. left. split; [reflexivity|].
      intros (t' & Ht'). rewrite Et in Ht'. apply app_inj_tail in Ht' as [_ Hb].
      apply N.eqb_neq in Eb. congruence.
Qed.

Lemma new_line_open r : raw_open r -> new_line r = {| l_text := r; l_ending := [] |}.
Proof.
  intros [Hne Hr]. rewrite new_line_spec. destruct (rev r) as [|a r'] eqn:E; [reflexivity|].
  destruct (a =? 10)%N eqn:Ea; [|reflexivity]. apply N.eqb_eq in Ea. subst a.
  elim Hr. apply in_rev. rewrite E. left. reflexivity.
Qed.

(* every line: no LF in its text; it ends in LF (then its text does not end in CR) or in CRLF;
   only the last line may have no ending, and then it is not empty *)
Theorem lines_wellformed s pre l post : lines_of s = pre ++ l :: post ->
  ~ In 10%N (l_text l) /\
  ((l_ending l = [10%N] /\ ~ (exists t, l_text l = t ++ [13%N])) \/
   l_ending l = [13; 10]%N \/
   (l_ending l = [] /\ post = [] /\ l_text l <> [])).
Proof.
  unfold lines_of, raw_lines. pose proof (raw_lines_acc_shape s [] (fun H => H)) as Hrl.
  revert pre l post. induction Hrl as [|r Hr|r rl Hr Hrl IH]; intros pre l post H; cbn [map] in H.
  - destruct pre; discriminate H.
  - destruct pre as [|x pre]; [|destruct pre; discriminate H]. injection H as <- <-.
    rewrite (new_line_open r Hr). cbn [l_text l_ending]. destruct Hr as [Hne Hr].
    split; [exact Hr|]. right. right. repeat split. exact Hne.
  - destruct pre as [|x pre].
    + injection H as <- _. destruct (new_line_terminated r Hr) as [H1 [H2|H2]].
      * split; [exact H1|]. left. exact H2.
      * split; [exact H1|]. right. left. exact H2.
    + injection H as _ H. exact (IH _ _ _ H).
Qed.
