(* Lemmas about Model/Bookmarks.v (stub). *)
From Klog Require Import Base.Prelude Model.Bookmarks.
